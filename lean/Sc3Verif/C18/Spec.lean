/-
C18 — abstract specification.

(i)  `Matches`: the language of a regular expression of the reachable fragment (inductive, whole
     string).  `OPat` / `OMatches`: OSC 1.0 address patterns and their language; `OPat.print` their
     concrete syntax.
(ii) `ASt`, `astep`: the abstract responder machine — one list of enabled responders in registration
     order; a message fires the enabled responders whose path equals (or is matched by) the address
     and whose filters accept it, in that order; one-shot responders are disabled after firing.
-/
import Sc3Verif.C18.Model
namespace Sc3Verif.C18

/-! ## (i) languages -/

/-- the language of a regular expression: `Matches r s` iff the WHOLE string `s` is in `L(r)` -/
inductive Matches : R → Str → Prop where
  | eps : Matches .eps []
  | chr (c : Nat) : Matches (.chr c) [c]
  | any (c : Nat) : c ≠ 10 → Matches .any [c]
  | cls (neg : Bool) (items : List CItem) (c : Nat) : clsHas neg items c = true → Matches (.cls neg items) [c]
  | cat {a b : R} {s1 s2 : Str} : Matches a s1 → Matches b s2 → Matches (.cat a b) (s1 ++ s2)
  | altL {a b : R} {s : Str} : Matches a s → Matches (.alt a b) s
  | altR {a b : R} {s : Str} : Matches b s → Matches (.alt a b) s
  | starNil {a : R} : Matches (.star a) []
  | starCons {a : R} {s1 s2 : Str} : Matches a s1 → Matches (.star a) s2 → Matches (.star a) (s1 ++ s2)

/-- characters the regular expression parser treats specially outside sets -/
def parserSpecial (c : Nat) : Bool :=
  c == 92 || c == 46 || c == 42 || c == 40 || c == 124 || c == 41 || c == 91 || c == 63 || c == 43 ||
  c == 123 || c == 125 || c == 94 || c == 36

/-- a character that no rewrite key starts with and the parser reads as itself -/
def plainChar (c : Nat) : Bool :=
  (rewriteTable.all fun p => p.1.head? != some c) && !parserSpecial c


/-! ### wildcard patterns: `?`, `*` and ordinary characters -/

/-- tokens of a simple OSC address pattern -/
inductive STok where
  | lit (c : Nat)
  | any1                 -- `?`
  | star                 -- `*`
deriving Repr

/-- concrete syntax -/
def STok.print : STok → Str
  | .lit c => [c]
  | .any1 => [63]
  | .star => [42]

def sprint (p : List STok) : Str := p.flatMap STok.print

/-- OSC 1.0 reading (wildcards may cross `/`, as liblo / sclang do; no character matches a newline) -/
inductive SMatches : List STok → Str → Prop where
  | nil : SMatches [] []
  | lit {c : Nat} {p : List STok} {s : Str} : SMatches p s → SMatches (.lit c :: p) (c :: s)
  | any1 {c : Nat} {p : List STok} {s : Str} : c ≠ 10 → SMatches p s → SMatches (.any1 :: p) (c :: s)
  | star {p : List STok} {s1 s2 : Str} : (∀ c ∈ s1, c ≠ 10) → SMatches p s2 → SMatches (.star :: p) (s1 ++ s2)

def STok.regex : STok → R
  | .lit c => .chr c
  | .any1 => .any
  | .star => .star .any

/-- the text the rewriting produces for one token -/
def STok.text : STok → Str
  | .lit c => [c]
  | .any1 => [46]
  | .star => [46, 42]

def STok.ok : STok → Bool
  | .lit c => plainChar c
  | _ => true


/-! ## (ii) the abstract responder machine

The specification of "which responders fire".  The state is what a user of the library can say
about it: the responders created so far with their current settings, FOR EACH DISPATCHER THE LIST OF
ITS ENABLED RESPONDERS IN REGISTRATION ORDER (`ord`), the paths that are inhabited (in the order
they became so — only the order BETWEEN paths of the matching dispatcher depends on it), and the
CmdPeriod registry.  No dictionaries of wrapped callables, no object identities. -/

open Sc3Verif.C06 (Bytes DVal DMsg decodePacket)

/-- a responder's function: a user callback, possibly under one-shot wrappers -/
inductive AFn where
  | user (fid : Nat)
  | once (inner : AFn)
deriving Repr

def AFn.fid : AFn → Nat
  | .user fid => fid
  | .once f => f.fid

def AFn.isOnce : AFn → Bool
  | .user _ => false
  | .once _ => true

structure AResp where
  kind : DispKind
  path : Str
  src : Option (Nat × Option Nat)
  port : Option Nat
  tmpl : Option (List TItem)
  func : AFn
  permanent : Bool
  enabled : Bool
deriving Repr

structure ASt where
  resps : List (Nat × AResp)
  ordE : List Nat             -- enabled exact responders, in registration order (latest `enable`)
  ordP : List Nat             -- enabled matching responders, in registration order
  keysE : List Str            -- inhabited paths of the exact dispatcher, in the order they became inhabited
  keysP : List Str
  cmd : List ActKey
deriving Repr

def ASt.init : ASt := ⟨[], [], [], [], [], []⟩

def ASt.ord (a : ASt) : DispKind → List Nat
  | .exact => a.ordE
  | .pattern => a.ordP

def ASt.keys (a : ASt) : DispKind → List Str
  | .exact => a.keysE
  | .pattern => a.keysP

def ASt.setOrd (a : ASt) (k : DispKind) (l : List Nat) : ASt :=
  match k with
  | .exact => { a with ordE := l }
  | .pattern => { a with ordP := l }

def ASt.setKeys (a : ASt) (k : DispKind) (l : List Str) : ASt :=
  match k with
  | .exact => { a with keysE := l }
  | .pattern => { a with keysP := l }

def alookup (a : ASt) (rid : Nat) : Option AResp := (a.resps.find? (·.1 == rid)).map (·.2)

def aset (a : ASt) (rid : Nat) (r : AResp) : ASt :=
  { a with resps := a.resps.map fun p => if p.1 == rid then (rid, r) else p }

/-- the filters of a responder accept the delivery -/
def AResp.accepts (env : Env) (r : AResp) (d : Delivery) : Bool :=
  srcOk r.src d.sender && portOk r.port d.port &&
    (match r.tmpl with | none => true | some t => tmplOk env t d.params)

/-- the enabled responders of dispatcher `k` with their ids, in registration order -/
def aenabled (a : ASt) (k : DispKind) : List (Nat × AResp) :=
  (a.ord k).filterMap fun rid => (alookup a rid).map fun r => (rid, r)

/-- `rid` has path `path` -/
def ahasPath (a : ASt) (rid : Nat) (path : Str) : Bool :=
  match alookup a rid with
  | some r => r.path == path
  | none => false

/-- the state with the per-dispatcher components of `k` replaced -/
def ASt.withDisp (a : ASt) (k : DispKind) (ord : List Nat) (keys : List Str) : ASt :=
  match k with
  | .exact => { a with ordE := ord, keysE := keys }
  | .pattern => { a with ordP := ord, keysP := keys }

/-- `enable`: the responder goes to the END of its dispatcher's registration order; its path becomes
    inhabited (last) if it was not; a non-permanent responder registers with CmdPeriod -/
def aenable (a : ASt) (rid : Nat) : ASt :=
  match alookup a rid with
  | none => a
  | some r =>
    if r.enabled then a
    else
      let keys := if (a.keys r.kind).contains r.path then a.keys r.kind else a.keys r.kind ++ [r.path]
      { (aset a rid { r with enabled := true }).withDisp r.kind (a.ord r.kind ++ [rid]) keys with
        cmd := if r.permanent then a.cmd else cmdAdd (.resp rid) a.cmd }

/-- `disable` / `free`: the responder leaves the registration order; its path stops being inhabited
    when no other enabled responder of the dispatcher has it -/
def adisable (a : ASt) (rid : Nat) : ASt :=
  match alookup a rid with
  | none => a
  | some r =>
    if !r.enabled then a
    else
      let ord := (a.ord r.kind).filter (· != rid)
      let keys := if ord.any (fun x => ahasPath a x r.path) then a.keys r.kind
        else (a.keys r.kind).filter (· != r.path)
      { (aset a rid { r with enabled := false }).withDisp r.kind ord keys with
        cmd := if r.permanent then a.cmd else cmdRemove (.resp rid) a.cmd }

def asetFunc (a : ASt) (rid : Nat) (f : AFn → AFn) : ASt :=
  match alookup a rid with
  | none => a
  | some r => aset a rid { r with func := f r.func }

def asetPermanent (a : ASt) (rid : Nat) (v : Bool) : ASt :=
  match alookup a rid with
  | none => a
  | some r =>
    let a1 := aset a rid { r with permanent := v }
    if v && r.enabled then { a1 with cmd := cmdRemove (.resp rid) a1.cmd }
    else { a1 with cmd := cmdAdd (.resp rid) a1.cmd }

def anew (a : ASt) (rid : Nat) (kind : DispKind) (path : Str) (src : Option (Nat × Option Nat))
    (port : Option Nat) (tmpl : Option (List TItem)) (fid : Nat) : ASt :=
  if (alookup a rid).isSome then a
  else aenable { a with resps := a.resps ++ [(rid, ⟨kind, normPath path, src, port, tmpl, .user fid, false, false⟩)] } rid

def acmdPeriod (a : ASt) : ASt × List Nat :=
  go a a.cmd
where
  go (a : ASt) : List ActKey → ASt × List Nat
    | [] => (a, [])
    | k :: ks =>
      if a.cmd.contains k then
        match k with
        | .resp rid => go (adisable a rid) ks
        | .user aid => let (a', l) := go a ks; (a', aid :: l)
      else go a ks

/-- THE SPECIFICATION of "which responders fire": the enabled responders of the dispatcher whose
    path equals the address (exact) / is matched over its whole length by the address read as a
    pattern (matching), and whose filters accept the delivery — in registration order (matching
    responders: grouped by path). -/
def ahits (env : Env) (a : ASt) (k : DispKind) (d : Delivery) : List (Nat × AResp) :=
  match k with
  | .exact => (aenabled a .exact).filter fun p => p.2.path == d.addr && p.2.accepts env d
  | .pattern =>
    (a.keysP.filter fun key => oscMatch d.addr key == some true).flatMap fun key =>
      (aenabled a .pattern).filter fun p => p.2.path == key && p.2.accepts env d

def adisableAll (a : ASt) : List Nat → ASt
  | [] => a
  | rid :: rs => adisableAll (adisable a rid) rs

/-- each hit is called once with the delivery; a one-shot responder is freed -/
def adispatch (env : Env) (a : ASt) (k : DispKind) (d : Delivery) : ASt × DispOut :=
  let hits := ahits env a k d
  (adisableAll a ((hits.filter (·.2.func.isOnce)).map (·.1)), ⟨k, hits.map (·.2.func.fid), false⟩)

def aregistered (a : ASt) (k : DispKind) : Bool := !(a.keys k).isEmpty

def adispatchList (env : Env) (d : Delivery) : ASt → List DispKind → ASt × List DispOut
  | a, [] => (a, [])
  | a, k :: ks =>
    let (a1, o) := adispatch env a k d
    let (a2, os) := adispatchList env d a1 ks
    (a2, o :: os)

/-- every registered dispatcher (snapshot), in the iteration order of the set (`patFirst`) -/
def adispatchMsg (env : Env) (patFirst : Bool) (a : ASt) (d : Delivery) : ASt × List DispOut :=
  let order := if patFirst then [DispKind.pattern, .exact] else [.exact, .pattern]
  adispatchList env d a (order.filter (aregistered a))

def adispatchAll (env : Env) (cfg : RecvCfg) (sender : Sender) :
    ASt → List (Option Nat × DMsg) → ASt × List (Delivery × List DispOut)
  | a, [] => (a, [])
  | a, tm :: rest =>
    let d := mkDelivery cfg sender tm
    let (a1, o) := adispatchMsg env cfg.patFirst a d
    let (a2, os) := adispatchAll env cfg sender a1 rest
    (a2, (d, o) :: os)

def astep (env : Env) (a : ASt) : Op → ASt × Out
  | .new rid kind path src port tmpl fid => (anew a rid kind path src port tmpl fid, .unit)
  | .enable rid => (aenable a rid, .unit)
  | .disable rid => (adisable a rid, .unit)
  | .free rid => (adisable a rid, .unit)
  | .oneShot rid => (asetFunc a rid .once, .unit)
  | .setFunc rid fid => (asetFunc a rid fun _ => .user fid, .unit)
  | .permanent rid v => (asetPermanent a rid v, .unit)
  | .cmdPeriod => let (a', l) := acmdPeriod a; (a', .actions l)
  | .cmdAdd aid => ({ a with cmd := cmdAdd (.user aid) a.cmd }, .unit)
  | .cmdRemove aid => ({ a with cmd := cmdRemove (.user aid) a.cmd }, .unit)
  | .recv cfg data sender =>
    match decodePacket data with
    | .error _ => (a, .recv [])
    | .ok msgs => let (a', l) := adispatchAll env cfg sender a msgs; (a', .recv l)

def arun (env : Env) (a : ASt) : List Op → ASt × List Out
  | [] => (a, [])
  | op :: ops =>
    let (a1, o) := astep env a op
    let (a2, os) := arun env a1 ops
    (a2, o :: os)

end Sc3Verif.C18
