/-
C18 — abstract specification.

(i)  `Matches`: the language of a regular expression of the reachable fragment (inductive, whole
     string).  `OPat` / `OMatches`: OSC 1.0 address patterns and their language; `OPat.print` their
     concrete syntax.
(ii) `ASt`, `astep`: the abstract responder machine — one list of enabled responders in registration
     order; a message fires the enabled responders whose path equals (or is matched by) the address
     and whose filters accept it, in that order; one-shot responders are disabled after firing.
-/
import Sc3Verif.C18.Model
namespace Sc3Verif.C18

/-! ## (i) languages -/

/-- the language of a regular expression: `Matches r s` iff the WHOLE string `s` is in `L(r)` -/
inductive Matches : R → Str → Prop where
  | eps : Matches .eps []
  | chr (c : Nat) : Matches (.chr c) [c]
  | any (c : Nat) : c ≠ 10 → Matches .any [c]
  | cls (neg : Bool) (items : List CItem) (c : Nat) : clsHas neg items c = true → Matches (.cls neg items) [c]
  | cat {a b : R} {s1 s2 : Str} : Matches a s1 → Matches b s2 → Matches (.cat a b) (s1 ++ s2)
  | altL {a b : R} {s : Str} : Matches a s → Matches (.alt a b) s
  | altR {a b : R} {s : Str} : Matches b s → Matches (.alt a b) s
  | starNil {a : R} : Matches (.star a) []
  | starCons {a : R} {s1 s2 : Str} : Matches a s1 → Matches (.star a) s2 → Matches (.star a) (s1 ++ s2)

/-! ## (ii) the abstract responder machine -/

open Sc3Verif.C06 (Bytes DVal DMsg decodePacket)

/-- a responder's function: a user callback, possibly under one-shot wrappers -/
inductive AFn where
  | user (fid : Nat)
  | once (inner : AFn)
deriving Repr

def AFn.fid : AFn → Nat
  | .user fid => fid
  | .once f => f.fid

def AFn.isOnce : AFn → Bool
  | .user _ => false
  | .once _ => true

structure AResp where
  rid : Nat
  kind : DispKind
  path : Str
  src : Option (Nat × Option Nat)
  port : Option Nat
  tmpl : Option (List TItem)
  func : AFn
  permanent : Bool
deriving Repr

structure ASt where
  enabled : List AResp        -- the enabled responders, in REGISTRATION ORDER (latest `enable`)
  disabled : List AResp
  keysE : List Str            -- paths with an enabled exact responder, in the order they became inhabited
  keysP : List Str            -- same for matching responders
  cmd : List ActKey
deriving Repr

def ASt.init : ASt := ⟨[], [], [], [], []⟩

def ASt.keys (a : ASt) : DispKind → List Str
  | .exact => a.keysE
  | .pattern => a.keysP

def ASt.setKeys (a : ASt) (k : DispKind) (l : List Str) : ASt :=
  match k with
  | .exact => { a with keysE := l }
  | .pattern => { a with keysP := l }

/-- the filters of a responder accept the delivery -/
def AResp.accepts (env : Env) (r : AResp) (d : Delivery) : Bool :=
  srcOk r.src d.sender && portOk r.port d.port &&
    (match r.tmpl with | none => true | some t => tmplOk env t d.params)

def aenableResp (a : ASt) (r : AResp) : ASt :=
  let a1 := { a with enabled := a.enabled ++ [r], disabled := a.disabled.filter (·.rid != r.rid)
                     cmd := if r.permanent then a.cmd else cmdAdd (.resp r.rid) a.cmd }
  if (a.keys r.kind).contains r.path then a1 else a1.setKeys r.kind (a.keys r.kind ++ [r.path])

def aenable (a : ASt) (rid : Nat) : ASt :=
  match a.disabled.find? (·.rid == rid) with
  | some r => aenableResp a r
  | none => a

def adisable (a : ASt) (rid : Nat) : ASt :=
  match a.enabled.find? (·.rid == rid) with
  | none => a
  | some r =>
    let en := a.enabled.filter (·.rid != rid)
    let a1 := { a with enabled := en, disabled := a.disabled ++ [r]
                       cmd := if r.permanent then a.cmd else cmdRemove (.resp rid) a.cmd }
    if en.any (fun x => x.kind == r.kind && x.path == r.path) then a1
    else a1.setKeys r.kind ((a.keys r.kind).filter (· != r.path))

def amapResp (a : ASt) (rid : Nat) (f : AResp → AResp) : ASt :=
  { a with enabled := a.enabled.map (fun r => if r.rid == rid then f r else r)
           disabled := a.disabled.map (fun r => if r.rid == rid then f r else r) }

def afind (a : ASt) (rid : Nat) : Option (AResp × Bool) :=
  match a.enabled.find? (·.rid == rid) with
  | some r => some (r, true)
  | none => (a.disabled.find? (·.rid == rid)).map fun r => (r, false)

def asetPermanent (a : ASt) (rid : Nat) (v : Bool) : ASt :=
  match afind a rid with
  | none => a
  | some (_, en) =>
    let a1 := amapResp a rid fun r => { r with permanent := v }
    if v && en then { a1 with cmd := cmdRemove (.resp rid) a1.cmd }
    else { a1 with cmd := cmdAdd (.resp rid) a1.cmd }

def anew (a : ASt) (rid : Nat) (kind : DispKind) (path : Str) (src : Option (Nat × Option Nat))
    (port : Option Nat) (tmpl : Option (List TItem)) (fid : Nat) : ASt :=
  let path' := match path with
    | 47 :: _ => path
    | _ => 47 :: path
  if (afind a rid).isSome then a
  else aenableResp a ⟨rid, kind, path', src, port, tmpl, .user fid, false⟩

def acmdPeriod (a : ASt) : ASt × List Nat :=
  go a a.cmd
where
  go (a : ASt) : List ActKey → ASt × List Nat
    | [] => (a, [])
    | k :: ks =>
      if a.cmd.contains k then
        match k with
        | .resp rid => go (adisable a rid) ks
        | .user aid => let (a', l) := go a ks; (a', aid :: l)
      else go a ks

/-- THE SPECIFICATION of "which responders fire": the enabled responders of the dispatcher whose
    path equals the address (exact) / is matched over its whole length by the address read as a
    pattern (matching), and whose filters accept the delivery — in registration order (matching
    responders: grouped by path, paths in the order they became inhabited). -/
def ahits (env : Env) (a : ASt) (k : DispKind) (d : Delivery) : List AResp :=
  match k with
  | .exact => a.enabled.filter fun r => r.kind == .exact && r.path == d.addr && r.accepts env d
  | .pattern =>
    (a.keysP.filter fun key => oscMatch d.addr key == some true).flatMap fun key =>
      a.enabled.filter fun r => r.kind == .pattern && r.path == key && r.accepts env d

def adisableAll (a : ASt) : List Nat → ASt
  | [] => a
  | rid :: rs => adisableAll (adisable a rid) rs

/-- each hit is called once with the delivery; a one-shot responder is freed -/
def adispatch (env : Env) (a : ASt) (k : DispKind) (d : Delivery) : ASt × DispOut :=
  let hits := ahits env a k d
  (adisableAll a ((hits.filter (·.func.isOnce)).map (·.rid)), ⟨k, hits.map (·.func.fid), false⟩)

def aregistered (a : ASt) (k : DispKind) : Bool := !(a.keys k).isEmpty

def adispatchMsg (env : Env) (patFirst : Bool) (a : ASt) (d : Delivery) : ASt × List DispOut :=
  let order := if patFirst then [DispKind.pattern, .exact] else [.exact, .pattern]
  let regs := order.filter (aregistered a)          -- snapshot of the registered dispatchers
  regs.foldl (fun (acc : ASt × List DispOut) k =>
      let (a', o) := adispatch env acc.1 k d
      (a', acc.2 ++ [o])) (a, [])

def adispatchAll (env : Env) (cfg : RecvCfg) (sender : Sender) :
    ASt → List (Option Nat × DMsg) → ASt × List (Delivery × List DispOut)
  | a, [] => (a, [])
  | a, tm :: rest =>
    let d := mkDelivery cfg sender tm
    let (a1, o) := adispatchMsg env cfg.patFirst a d
    let (a2, os) := adispatchAll env cfg sender a1 rest
    (a2, (d, o) :: os)

def astep (env : Env) (a : ASt) : Op → ASt × Out
  | .new rid kind path src port tmpl fid => (anew a rid kind path src port tmpl fid, .unit)
  | .enable rid => (aenable a rid, .unit)
  | .disable rid => (adisable a rid, .unit)
  | .free rid => (adisable a rid, .unit)
  | .oneShot rid => (amapResp a rid fun r => { r with func := .once r.func }, .unit)
  | .setFunc rid fid => (amapResp a rid fun r => { r with func := .user fid }, .unit)
  | .permanent rid v => (asetPermanent a rid v, .unit)
  | .cmdPeriod => let (a', l) := acmdPeriod a; (a', .actions l)
  | .cmdAdd aid => ({ a with cmd := cmdAdd (.user aid) a.cmd }, .unit)
  | .cmdRemove aid => ({ a with cmd := cmdRemove (.user aid) a.cmd }, .unit)
  | .recv cfg data sender =>
    match decodePacket data with
    | .error _ => (a, .recv [])
    | .ok msgs => let (a', l) := adispatchAll env cfg sender a msgs; (a', .recv l)

def arun (env : Env) (a : ASt) : List Op → ASt × List Out
  | [] => (a, [])
  | op :: ops =>
    let (a1, o) := astep env a op
    let (a2, os) := arun env a1 ops
    (a2, o :: os)

end Sc3Verif.C18
