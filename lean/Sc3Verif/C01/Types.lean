/-
C01 — types shared by the hand-written model and the GENERATED shortcut decisions
(`GenShortcuts.lean`). Core Lean only.
-/
namespace Sc3Verif.C01

inductive Rate where
  | scalar | control | audio | demand
deriving DecidableEq, Repr, Inhabited

/-- `_rate_number` -/
def Rate.num : Rate → Nat
  | .audio => 2 | .control => 1 | .demand => 3 | .scalar => 0

/-- rank of the rate *name* in string order ('audio' < 'control' < 'demand' < 'scalar'):
    what `list.sort(key=rate name)` and `utl.list_min` of rate names see. -/
def Rate.nameOrd : Rate → Nat
  | .audio => 0 | .control => 1 | .demand => 2 | .scalar => 3

/-- A value as stored in `UGen.inputs`. -/
inductive Inp where
  | num (q : Rat)                      -- int / float
  | out (o : Nat) (k : Nat) (proxy : Bool)  -- UGen object `o` (proxy: OutputProxy #k of MultiOutUGen `o`)
  | bad                                -- None / NaN / str: `_is_valid_ugen_input()` is False
deriving DecidableEq, Repr, Inhabited

def isNum (i : Inp) (q : Rat) : Bool := match i with | .num x => x == q | _ => false
def isAnyNum : Inp → Bool | .num _ => true | _ => false

/-- what a constructor decides to return -/
inductive Plan where
  | ret (i : Inp)          -- return this value unchanged
  | neg (i : Inp)          -- return `-i`
  | generic                -- build the unit
deriving Repr, DecidableEq

inductive MAPlan where
  | ret (i : Inp) | neg (i : Inp) | mul (i m : Inp) | sub (a i : Inp) | add (i a : Inp)
  | muladd (i m a : Inp) | mulThenAdd (i m a : Inp)
deriving Repr, DecidableEq

inductive SumPlan where
  | add2 (a b : Inp) | sum3 (a b c : Inp) | sum4 (a b c d : Inp)
deriving Repr, DecidableEq


end Sc3Verif.C01
