/-
C02 — completeness of the `_topological_sort` loop: on an acyclic antecedent relation with
consistent descendant sets, every unit is emitted (none is lost), with enough fuel.
-/
import Sc3Verif.C01.TopoLemmas
import Mathlib.Data.List.Perm.Basic
namespace Sc3Verif.C01

/-- closed form of `removeAll` when every listed descendant still has `o` as antecedent -/
theorem removeAll_closed (o : Nat) (ds : List Nat) (hnd : ds.Nodup)
    (ante : Nat → List Nat) (avail : List Nat) (h : ∀ d ∈ ds, o ∈ ante d) :
    removeAll o ds (ante, avail) =
      .ok ((fun x => if x ∈ ds then setErase o (ante x) else ante x),
           avail ++ ds.filter (fun d => (setErase o (ante d)).isEmpty)) := by
  induction ds generalizing ante avail with
  | nil => simp [removeAll]
  | cons d ds ih =>
    have hd : o ∈ ante d := h d (by simp)
    have hnd' := List.nodup_cons.mp hnd
    unfold removeAll
    have hstep : removeAnte o (ante, avail) d =
        .ok ((fun x => if x = d then setErase o (ante d) else ante x),
             if (setErase o (ante d)).isEmpty then avail ++ [d] else avail) := by
      simp [removeAnte, hd]
    rw [hstep]
    simp only
    rw [ih hnd'.2]
    · congr 1
      refine Prod.ext ?_ ?_
      · funext x
        simp only
        by_cases hx : x = d
        · subst hx; simp [hnd'.1]
        · simp [hx]
      · simp only
        have hfilter : ds.filter (fun d' => (setErase o (if d' = d then setErase o (ante d) else ante d')).isEmpty)
            = ds.filter (fun d' => (setErase o (ante d')).isEmpty) := by
          apply List.filter_congr
          intro x hx
          have : x ≠ d := fun hc => hnd'.1 (hc ▸ hx)
          simp [this]
        rw [hfilter]
        by_cases he : (setErase o (ante d)).isEmpty = true
        · simp [he, List.filter_cons]
        · simp [he, List.filter_cons]
    · intro d' hd'
      have : d' ≠ d := fun hc => hnd'.1 (hc ▸ hd')
      simp only [if_neg this]
      exact h d' (by simp [hd'])

structure CInv (kids : List Nat) (ante0 ante : Nat → List Nat) (avail out : List Nat) : Prop where
  exact : ∀ d ∈ kids, ante d = (ante0 d).filter (fun a => decide (a ∉ out))
  ready : ∀ d, d ∈ avail ∨ d ∈ out ↔ (d ∈ kids ∧ ante d = [])
  nodup : (avail ++ out).Nodup

theorem setErase_filter (o : Nat) (l : List Nat) (out : List Nat) :
    setErase o (l.filter (fun a => decide (a ∉ out))) = l.filter (fun a => decide (a ∉ out ++ [o])) := by
  unfold setErase
  rw [List.filter_filter]
  apply List.filter_congr
  intro a _
  simp only [List.mem_append, List.mem_singleton, not_or, bne_iff_ne, ne_eq, Bool.and_eq_true,
    decide_eq_true_eq, Bool.decide_and]
  by_cases h1 : a ∈ out <;> by_cases h2 : a = o <;> simp [h1, h2]

theorem topoLoop_complete (order ante0 : Nat → List Nat) (kids : List Nat) (rank : Nat → Nat)
    (hclosed : ∀ d ∈ kids, ∀ a ∈ ante0 d, a ∈ kids)
    (hcons : ∀ o d, d ∈ order o ↔ (d ∈ kids ∧ o ∈ ante0 d))
    (hord_nodup : ∀ o, (order o).Nodup)
    (hacyc : ∀ d ∈ kids, ∀ a ∈ ante0 d, rank a < rank d)
    (fuel : Nat) (ante : Nat → List Nat) (avail out : List Nat)
    (inv : CInv kids ante0 ante avail out) (hfuel : kids.length + 1 ≤ fuel + out.length) :
    ∃ res, topoLoop order fuel ante avail out = .ok res ∧ res.Nodup ∧ ∀ d, d ∈ res ↔ d ∈ kids := by
  have hout_sub : ∀ d ∈ out, d ∈ kids := fun d hd => ((inv.ready d).mp (Or.inr hd)).1
  have hout_nd : out.Nodup := (List.nodup_append.mp inv.nodup).2.1
  induction fuel generalizing ante avail out with
  | zero =>
    -- impossible: `out` would have more elements than `kids`
    exfalso
    have hsub : out ⊆ kids := fun d hd => hout_sub d hd
    have : out.length ≤ kids.length :=
      (List.subperm_of_subset hout_nd hsub).length_le
    omega
  | succ fuel ih =>
    unfold topoLoop
    cases hlast : avail.getLast? with
    | none =>
      -- nothing available: everything has been emitted (minimal-rank argument)
      have hav : avail = [] := by
        cases avail with
        | nil => rfl
        | cons a l => simp at hlast
      refine ⟨out, rfl, hout_nd, fun d => ⟨hout_sub d, ?_⟩⟩
      intro hd
      -- strong induction on rank
      have key : ∀ n, ∀ d ∈ kids, rank d = n → d ∈ out := by
        intro n
        induction n using Nat.strongRecOn with
        | ind n ihn =>
          intro d hd hr
          have hempty : ante d = [] := by
            rw [inv.exact d hd]
            apply List.filter_eq_nil_iff.mpr
            intro a ha
            have hak := hclosed d hd a ha
            have := ihn (rank a) (hr ▸ hacyc d hd a ha) a hak rfl
            simp [this]
          have := (inv.ready d).mpr ⟨hd, hempty⟩
          rcases this with h1 | h1
          · rw [hav] at h1; simp at h1
          · exact h1
      exact key (rank d) d hd rfl
    | some o =>
      simp only
      have hne : avail ≠ [] := by intro hc; subst hc; simp at hlast
      have hsplit : avail = avail.dropLast ++ [o] := by
        have h1 := List.dropLast_concat_getLast hne
        have h2 : avail.getLast hne = o := by
          have := List.getLast?_eq_some_getLast hne
          rw [this] at hlast; exact Option.some.inj hlast
        rw [h2] at h1; exact h1.symm
      have ho_av : o ∈ avail := by rw [hsplit]; simp
      have ho_k : o ∈ kids := ((inv.ready o).mp (Or.inl ho_av)).1
      have hnd3 : (avail.dropLast ++ o :: out).Nodup := by
        have := inv.nodup
        rw [hsplit, List.append_assoc] at this
        simpa using this
      have ho_out : o ∉ out := by
        have := (List.nodup_append.mp hnd3).2.1
        exact (List.nodup_cons.mp this).1
      have ho_dl : o ∉ avail.dropLast := by
        intro hc
        exact (List.nodup_append.mp hnd3).2.2 o hc o (by simp) rfl
      -- every listed descendant still has `o` as antecedent
      have hpre : ∀ d ∈ order o, o ∈ ante d := by
        intro d hd
        obtain ⟨hdk, hoa⟩ := (hcons o d).mp hd
        rw [inv.exact d hdk]
        exact List.mem_filter.mpr ⟨hoa, by simpa using ho_out⟩
      rw [removeAll_closed o (order o) (hord_nodup o) ante avail.dropLast hpre]
      simp only
      -- new invariant
      have hexact' : ∀ d ∈ kids, (if d ∈ order o then setErase o (ante d) else ante d)
          = (ante0 d).filter (fun a => decide (a ∉ out ++ [o])) := by
        intro d hd
        by_cases hdo : d ∈ order o
        · simp only [if_pos hdo]
          rw [inv.exact d hd, setErase_filter]
        · simp only [if_neg hdo]
          rw [inv.exact d hd]
          have hno : o ∉ ante0 d := fun hc => hdo ((hcons o d).mpr ⟨hd, hc⟩)
          apply List.filter_congr
          intro a ha
          have : a ≠ o := fun hc => hno (hc ▸ ha)
          simp [this]
      have hinv' : CInv kids ante0 (fun x => if x ∈ order o then setErase o (ante x) else ante x)
          (avail.dropLast ++ (order o).filter (fun d => (setErase o (ante d)).isEmpty)) (out ++ [o]) := by
        refine ⟨hexact', ?_, ?_⟩
        · intro d
          simp only [List.mem_append, List.mem_filter, List.mem_singleton]
          constructor
          · rintro ((h1 | ⟨h1, h2⟩) | (h1 | h1))
            · have := (inv.ready d).mp (Or.inl (List.dropLast_subset _ h1))
              refine ⟨this.1, ?_⟩
              by_cases hdo : d ∈ order o
              · -- impossible: ante d = [] but o ∈ ante d
                have := hpre d hdo; rw [‹d ∈ kids ∧ ante d = []›.2] at this; simp at this
              · simp [hdo, this.2]
            · exact ⟨((hcons o d).mp h1).1, by simpa [h1] using h2⟩
            · have := (inv.ready d).mp (Or.inr h1)
              refine ⟨this.1, ?_⟩
              by_cases hdo : d ∈ order o
              · have := hpre d hdo; rw [‹d ∈ kids ∧ ante d = []›.2] at this; simp at this
              · simp [hdo, this.2]
            · subst h1
              have := (inv.ready d).mp (Or.inl ho_av)
              refine ⟨this.1, ?_⟩
              by_cases hdo : d ∈ order d
              · have := hpre d hdo; rw [‹d ∈ kids ∧ ante d = []›.2] at this; simp at this
              · simp [hdo, this.2]
          · rintro ⟨hdk, he⟩
            by_cases hdo : d ∈ order o
            · simp only [if_pos hdo] at he
              left; right; exact ⟨hdo, by simp [he]⟩
            · simp only [if_neg hdo] at he
              have := (inv.ready d).mpr ⟨hdk, he⟩
              rcases this with h1 | h1
              · rw [hsplit] at h1
                rcases List.mem_append.mp h1 with h2 | h2
                · left; left; exact h2
                · simp at h2; right; right; exact h2
              · right; left; exact h1
        · -- nodup
          have hnew_notin : ∀ d ∈ (order o).filter (fun d => (setErase o (ante d)).isEmpty),
              d ∉ avail.dropLast ∧ d ∉ out ∧ d ≠ o := by
            intro d hd
            have hdo := (List.mem_filter.mp hd).1
            have hne : ante d ≠ [] := List.ne_nil_of_mem (hpre d hdo)
            refine ⟨fun hc => hne ((inv.ready d).mp (Or.inl (List.dropLast_subset _ hc))).2,
              fun hc => hne ((inv.ready d).mp (Or.inr hc)).2,
              fun hc => hne (hc ▸ ((inv.ready o).mp (Or.inl ho_av)).2)⟩
          have hfnd : ((order o).filter (fun d => (setErase o (ante d)).isEmpty)).Nodup :=
            (hord_nodup o).filter _
          rw [List.append_assoc]
          have hperm : (avail.dropLast ++ ((order o).filter (fun d => (setErase o (ante d)).isEmpty)
              ++ (out ++ [o]))).Perm
              (((order o).filter (fun d => (setErase o (ante d)).isEmpty)) ++ (avail.dropLast ++ o :: out)) := by
            have h1 : (out ++ [o]).Perm (o :: out) := List.perm_append_singleton o out
            refine (List.Perm.append_left _ (List.Perm.append_left _ h1)).trans ?_
            rw [← List.append_assoc, ← List.append_assoc]
            exact List.Perm.append_right _ List.perm_append_comm
          rw [hperm.nodup_iff, List.nodup_append]
          refine ⟨hfnd, hnd3, ?_⟩
          intro a ha b hb hab
          subst hab
          obtain ⟨h1, h2, h3⟩ := hnew_notin a ha
          rcases List.mem_append.mp hb with h4 | h4
          · exact h1 h4
          · rcases List.mem_cons.mp h4 with h5 | h5
            · exact h3 h5
            · exact h2 h5
      have hfuel' : kids.length + 1 ≤ fuel + (out ++ [o]).length := by
        simp only [List.length_append, List.length_singleton]; omega
      have hsub' : ∀ d ∈ out ++ [o], d ∈ kids := by
        intro d hd
        rcases List.mem_append.mp hd with h1 | h1
        · exact hout_sub d h1
        · simp at h1; subst h1; exact ho_k
      have hnd' : (out ++ [o]).Nodup := by
        have : (out ++ [o]).Perm (o :: out) := List.perm_append_singleton o out
        rw [this.nodup_iff]; exact List.nodup_cons.mpr ⟨ho_out, hout_nd⟩
      exact ih _ _ _ hinv' hfuel' hsub' hnd'

end Sc3Verif.C01
