/-
C02 — reader/writer round-trip lemmas for the SCgf wire format.
-/
import Sc3Verif.C01.Scgf
namespace Sc3Verif.C01

theorem u8_ofNat_toNat (x : Nat) (h : x < 256) : (UInt8.ofNat x).toNat = x := by
  simp [UInt8.toNat_ofNat']; omega

theorem rU32_wU32 (n : Nat) (h : n < 4294967296) (r : List UInt8) : rU32 (wU32 n ++ r) = some (n, r) := by
  simp only [wU32, List.cons_append, List.nil_append, rU32]
  rw [u8_ofNat_toNat _ (by omega), u8_ofNat_toNat _ (by omega), u8_ofNat_toNat _ (by omega),
    u8_ofNat_toNat _ (by omega)]
  congr 2; omega

theorem rI32_wI32 (v : Int) (h : i32Ok v) (r : List UInt8) : rI32 (wI32 v ++ r) = some (v, r) := by
  unfold i32Ok at h
  unfold rI32 wI32
  rw [rU32_wU32 _ (by omega)]
  simp only [Option.map_some]
  congr 2
  split <;> omega

theorem rI16_wI16 (v : Int) (h : i16Ok v) (r : List UInt8) : rI16 (wI16 v ++ r) = some (v, r) := by
  unfold i16Ok at h
  simp only [wI16, List.cons_append, List.nil_append, rI16]
  rw [u8_ofNat_toNat _ (by omega), u8_ofNat_toNat _ (by omega)]
  congr 2
  split <;> omega

theorem rI8_wI8 (v : Int) (h : i8Ok v) (r : List UInt8) : rI8 (wI8 v ++ r) = some (v, r) := by
  unfold i8Ok at h
  simp only [wI8, List.cons_append, List.nil_append, rI8]
  rw [u8_ofNat_toNat _ (by omega)]
  congr 2
  split <;> omega

theorem rBytes_append (l r : List UInt8) : rBytes l.length (l ++ r) = some (l, r) := by
  induction l with
  | nil => rfl
  | cons b l ih => simp [rBytes, ih]

theorem rPStr_wPStr (s : List UInt8) (h : s.length ≤ 255) (r : List UInt8) :
    rPStr (wPStr s ++ r) = some (s, r) := by
  simp only [wPStr, List.cons_append, rPStr, rU8]
  rw [u8_ofNat_toNat _ (by omega)]
  exact rBytes_append s r

theorem rMany_flatMap {α : Type} (p : List UInt8 → Option (α × List UInt8)) (w : α → List UInt8)
    (l : List α) (hp : ∀ x ∈ l, ∀ r, p (w x ++ r) = some (x, r)) (r : List UInt8) :
    rMany p l.length (l.flatMap w ++ r) = some (l, r) := by
  induction l with
  | nil => rfl
  | cons x xs ih =>
    simp only [List.length_cons, List.flatMap_cons, List.append_assoc, rMany]
    rw [hp x (by simp)]
    simp only
    rw [ih (fun y hy => hp y (by simp [hy]))]
    rfl

theorem rCount_wI32 (n : Nat) (h : n < 2147483648) (r : List UInt8) :
    rCount (wI32 (n : Int) ++ r) = some (n, r) := by
  unfold rCount
  rw [rI32_wI32 _ (by unfold i32Ok; omega)]
  simp

theorem rPair_w (p : Int × Int) (h : i32Ok p.1 ∧ i32Ok p.2) (r : List UInt8) :
    rPair ((wI32 p.1 ++ wI32 p.2) ++ r) = some (p, r) := by
  unfold rPair
  rw [List.append_assoc, rI32_wI32 _ h.1]
  simp only
  rw [rI32_wI32 _ h.2]
  rfl

theorem andThen_some {α β : Type} (a : α) (r : List UInt8) (f : α → List UInt8 → Option β) :
    andThen (some (a, r)) f = f a r := rfl

theorem rUnit_wUnit (u : WUnit) (h : u.Valid) (r : List UInt8) :
    rUnit (wUnit u ++ r) = some (u, r) := by
  obtain ⟨h1, h2, h3, h4, h5, h6, h7⟩ := h
  unfold rUnit wUnit
  simp only [List.append_assoc]
  rw [rPStr_wPStr _ h1]
  rw [andThen_some]
  rw [rI8_wI8 _ h2]
  rw [andThen_some]
  rw [rCount_wI32 _ h4]
  rw [andThen_some]
  rw [rCount_wI32 _ h5]
  rw [andThen_some]
  rw [rI16_wI16 _ h3]
  rw [andThen_some]
  rw [rMany_flatMap rPair (fun p => wI32 p.1 ++ wI32 p.2) u.inputs
    (fun p hp r => rPair_w p (h6 p hp) r)]
  rw [andThen_some]
  rw [rMany_flatMap rI8 wI8 u.outs (fun x hx r => rI8_wI8 x (h7 x hx) r)]
  rw [andThen_some]

theorem rPName_w (p : List UInt8 × Int) (h : p.1.length ≤ 255 ∧ i32Ok p.2) (r : List UInt8) :
    rPName ((wPStr p.1 ++ wI32 p.2) ++ r) = some (p, r) := by
  unfold rPName
  rw [List.append_assoc, rPStr_wPStr _ h.1]
  simp only
  rw [rI32_wI32 _ h.2]
  rfl

theorem rDef_wDef (d : WDef) (h : d.Valid) (r : List UInt8) :
    rDef (wDef d ++ r) = some (d, r) := by
  obtain ⟨h1, h2, h3, h4, h5, h6, h7, h8, h9⟩ := h
  unfold rDef wDef
  simp only [List.append_assoc]
  rw [rPStr_wPStr _ h1]
  rw [andThen_some]
  rw [rCount_wI32 _ h2]
  rw [andThen_some]
  rw [rMany_flatMap rU32 wU32 d.consts (fun x hx r => rU32_wU32 x (h6 x hx) r)]
  rw [andThen_some]
  rw [rCount_wI32 _ h3]
  rw [andThen_some]
  rw [rMany_flatMap rU32 wU32 d.params (fun x hx r => rU32_wU32 x (h7 x hx) r)]
  rw [andThen_some]
  rw [rCount_wI32 _ h4]
  rw [andThen_some]
  rw [rMany_flatMap rPName (fun p => wPStr p.1 ++ wI32 p.2) d.pnames
    (fun p hp r => rPName_w p (h8 p hp) r)]
  rw [andThen_some]
  rw [rCount_wI32 _ h5]
  rw [andThen_some]
  rw [rMany_flatMap rUnit wUnit d.units (fun u hu r => rUnit_wUnit u (h9 u hu) r)]
  rw [andThen_some]
  rw [rI16_wI16 0 (by unfold i16Ok; omega)]
  rw [andThen_some]
  simp

theorem parse_write' (d : WDef) (h : d.Valid) : parseW (writeW d) = some d := by
  unfold writeW parseW
  simp only [List.cons_append, List.nil_append, List.append_assoc]
  rw [rI32_wI32 2 (by unfold i32Ok; omega)]
  simp only
  rw [rI16_wI16 1 (by unfold i16Ok; omega)]
  simp only
  have := rDef_wDef d h []
  rw [List.append_nil] at this
  rw [this]

end Sc3Verif.C01

namespace Sc3Verif.C01

theorem allSome_length {α : Type} (l : List (Option α)) (r : List α) (h : allSome l = some r) :
    r.length = l.length := by
  induction l generalizing r with
  | nil => simp [allSome] at h; subst h; rfl
  | cons x xs ih =>
    cases x with
    | none => simp [allSome] at h
    | some v =>
      simp only [allSome, Option.map_eq_some_iff] at h
      obtain ⟨r', hr', rfl⟩ := h
      simp [ih r' hr']

theorem toWire_valid {name : String} {pnames : List (String × Nat)} {d : Def} {w : WDef}
    (h : toWire name pnames d = some w) : w.Valid ∧ w.units.length = d.units.length := by
  unfold toWire at h
  simp only [Option.bind_eq_bind, Option.pure_def] at h
  generalize asciiBytes name = o1 at h
  cases o1 with
  | none => simp at h
  | some nm =>
    generalize allSome (d.consts.map f32Bits) = o2 at h
    cases o2 with
    | none => simp at h
    | some cs =>
      generalize allSome (d.controls.map f32Bits) = o3 at h
      cases o3 with
      | none => simp at h
      | some ps =>
        simp only [Option.bind_some] at h
        generalize allSome (List.map _ pnames) = o4 at h
        cases o4 with
        | none => simp at h
        | some pn =>
          simp only [Option.bind_some] at h
          generalize h5 : allSome (d.units.map toWireUnit) = o5 at h
          cases o5 with
          | none => simp at h
          | some us =>
            simp only [Option.bind_some] at h
            split at h
            · rename_i hv
              simp only [Option.some.injEq] at h
              subst h
              refine ⟨hv, ?_⟩
              simpa using allSome_length _ _ h5
            · simp at h

end Sc3Verif.C01
