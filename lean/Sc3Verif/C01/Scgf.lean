/-
C02 — SCgf version-2 bytes (`SynthDef._write_def_list/_write_def`,
`SynthObject._write_def`, `_fmtrw.py`).

Two layers:
* `toWire` turns the emitted definition of `Model.lean` into a *wire file*: every number
  already in its on-disk integer form (32-bit float words, counts, indices).  It fails
  (`none`) exactly where `struct.pack` would raise: a name longer than 255 bytes or not
  ASCII, a count or index outside its integer width, a constant that is not exactly a
  binary32 value (rounding is `struct.pack`'s business and is not modelled).
* `writeW` serialises a wire file (total), `parseW` is an independent total reader; the
  round-trip theorem `parse_write` (Props) is about these two.
Core Lean only.
-/
import Sc3Verif.C01.Model
namespace Sc3Verif.C01

/-- bits of the binary32 float equal to `q`; `none` if `q` is not exactly representable
    as a normal binary32 number. -/
def f32Bits (q : Rat) : Option Nat :=
  if q == 0 then some 0
  else
    let sign : Nat := if q < 0 then 1 else 0
    let n := q.num.natAbs
    let d := q.den
    let kd := Nat.log2 d
    if d != 2 ^ kd then none
    else
      let e : Int := (Nat.log2 n : Int) - kd          -- 2^e ≤ |q| < 2^(e+1)
      let s : Int := 23 - e
      let num := if s ≥ 0 then n * 2 ^ s.toNat else n
      let den := if s ≥ 0 then d else d * 2 ^ (-s).toNat
      if num % den != 0 then none
      else
        let m := num / den
        let be := e + 127
        if be < 1 ∨ be > 254 ∨ m < 2 ^ 23 ∨ m ≥ 2 ^ 24 then none
        else some (sign * 2 ^ 31 + be.toNat * 2 ^ 23 + (m - 2 ^ 23))

/-- the rational a binary32 word denotes (`none` for infinities, NaNs and subnormals) -/
def f32ToRat (w : Nat) : Option Rat :=
  let sign : Nat := w / 2 ^ 31 % 2
  let be : Nat := w / 2 ^ 23 % 256
  let m : Nat := w % 2 ^ 23
  if be == 0 then (if m == 0 then some 0 else none)
  else if be == 255 then none
  else
    let mant : Rat := ((2 ^ 23 + m : Nat) : Rat)
    let e : Int := Int.ofNat be - 150
    let v : Rat := if e ≥ 0 then mant * ((2 ^ e.toNat : Nat) : Rat) else mant / ((2 ^ (-e).toNat : Nat) : Rat)
    some (if sign == 1 then -v else v)

/-! ### wire file -/

structure WUnit where
  cls : List UInt8
  rate : Int
  special : Int
  inputs : List (Int × Int)
  outs : List Int
deriving Repr, DecidableEq

structure WDef where
  name : List UInt8
  consts : List Nat            -- 32-bit words
  params : List Nat            -- 32-bit words
  pnames : List (List UInt8 × Int)
  units : List WUnit
deriving Repr, DecidableEq

def i32Ok (v : Int) : Prop := -2147483648 ≤ v ∧ v < 2147483648
def i16Ok (v : Int) : Prop := -32768 ≤ v ∧ v < 32768
def i8Ok (v : Int) : Prop := -128 ≤ v ∧ v < 128
instance (v : Int) : Decidable (i32Ok v) := by unfold i32Ok; infer_instance
instance (v : Int) : Decidable (i16Ok v) := by unfold i16Ok; infer_instance
instance (v : Int) : Decidable (i8Ok v) := by unfold i8Ok; infer_instance

def WUnit.Valid (u : WUnit) : Prop :=
  u.cls.length ≤ 255 ∧ i8Ok u.rate ∧ i16Ok u.special ∧
  u.inputs.length < 2147483648 ∧ u.outs.length < 2147483648 ∧
  (∀ p ∈ u.inputs, i32Ok p.1 ∧ i32Ok p.2) ∧ (∀ r ∈ u.outs, i8Ok r)

def WDef.Valid (d : WDef) : Prop :=
  d.name.length ≤ 255 ∧ d.consts.length < 2147483648 ∧ d.params.length < 2147483648 ∧
  d.pnames.length < 2147483648 ∧ d.units.length < 2147483648 ∧
  (∀ c ∈ d.consts, c < 4294967296) ∧ (∀ c ∈ d.params, c < 4294967296) ∧
  (∀ p ∈ d.pnames, p.1.length ≤ 255 ∧ i32Ok p.2) ∧ (∀ u ∈ d.units, u.Valid)

instance (u : WUnit) : Decidable u.Valid := by unfold WUnit.Valid; infer_instance
instance (d : WDef) : Decidable d.Valid := by unfold WDef.Valid; infer_instance

/-! ### writer -/

/-- big-endian bytes of a 32-bit word -/
def wU32 (n : Nat) : List UInt8 :=
  [UInt8.ofNat (n / 16777216 % 256), UInt8.ofNat (n / 65536 % 256), UInt8.ofNat (n / 256 % 256),
   UInt8.ofNat (n % 256)]

/-- `struct.pack('>i', v)` (two's complement) -/
def wI32 (v : Int) : List UInt8 := wU32 (v % 4294967296).toNat

/-- `struct.pack('>h', v)` -/
def wI16 (v : Int) : List UInt8 :=
  let n := (v % 65536).toNat
  [UInt8.ofNat (n / 256 % 256), UInt8.ofNat (n % 256)]

/-- `struct.pack('b', v)` -/
def wI8 (v : Int) : List UInt8 := [UInt8.ofNat (v % 256).toNat]

/-- `write_pascal_str` -/
def wPStr (s : List UInt8) : List UInt8 := UInt8.ofNat s.length :: s

def wUnit (u : WUnit) : List UInt8 :=
  wPStr u.cls ++ wI8 u.rate ++ wI32 u.inputs.length ++ wI32 u.outs.length ++ wI16 u.special
    ++ u.inputs.flatMap (fun p => wI32 p.1 ++ wI32 p.2) ++ u.outs.flatMap wI8

def wDef (d : WDef) : List UInt8 :=
  wPStr d.name ++ wI32 d.consts.length ++ d.consts.flatMap wU32
    ++ wI32 d.params.length ++ d.params.flatMap wU32
    ++ wI32 d.pnames.length ++ d.pnames.flatMap (fun p => wPStr p.1 ++ wI32 p.2)
    ++ wI32 d.units.length ++ d.units.flatMap wUnit
    ++ wI16 0

/-- 'SCgf', version 2, one definition -/
def writeW (d : WDef) : List UInt8 :=
  [0x53, 0x43, 0x67, 0x66] ++ wI32 2 ++ wI16 1 ++ wDef d

/-! ### reader (independent, total, structural) -/

def rU8 : List UInt8 → Option (Nat × List UInt8)
  | b :: r => some (b.toNat, r)
  | [] => none

def rU32 : List UInt8 → Option (Nat × List UInt8)
  | a :: b :: c :: d :: r => some (a.toNat * 16777216 + b.toNat * 65536 + c.toNat * 256 + d.toNat, r)
  | _ => none

def rI32 (bs : List UInt8) : Option (Int × List UInt8) :=
  (rU32 bs).map fun (n, r) => ((if n ≥ 2147483648 then (n : Int) - 4294967296 else n), r)

def rI16 : List UInt8 → Option (Int × List UInt8)
  | a :: b :: r =>
    let n := a.toNat * 256 + b.toNat
    some ((if n ≥ 32768 then (n : Int) - 65536 else n), r)
  | _ => none

def rI8 : List UInt8 → Option (Int × List UInt8)
  | a :: r => some ((if a.toNat ≥ 128 then (a.toNat : Int) - 256 else a.toNat), r)
  | [] => none

def rBytes : Nat → List UInt8 → Option (List UInt8 × List UInt8)
  | 0, r => some ([], r)
  | n + 1, b :: r => (rBytes n r).map fun (l, r') => (b :: l, r')
  | _ + 1, [] => none

def rPStr (bs : List UInt8) : Option (List UInt8 × List UInt8) :=
  match rU8 bs with
  | some (n, r) => rBytes n r
  | none => none

/-- read `n` items with reader `p` -/
def rMany {α : Type} (p : List UInt8 → Option (α × List UInt8)) :
    Nat → List UInt8 → Option (List α × List UInt8)
  | 0, r => some ([], r)
  | n + 1, r =>
    match p r with
    | some (x, r') => (rMany p n r').map fun (l, r'') => (x :: l, r'')
    | none => none

/-- a count: a non-negative int32 -/
def rCount (bs : List UInt8) : Option (Nat × List UInt8) :=
  match rI32 bs with
  | some (v, r) => if v < 0 then none else some (v.toNat, r)
  | none => none

def rPair (bs : List UInt8) : Option ((Int × Int) × List UInt8) :=
  match rI32 bs with
  | some (a, r) => (rI32 r).map fun (b, r') => ((a, b), r')
  | none => none

/-- sequencing of readers (explicit, so that proofs rewrite step by step) -/
def andThen {α β : Type} (x : Option (α × List UInt8)) (f : α → List UInt8 → Option β) : Option β :=
  match x with
  | some (a, r) => f a r
  | none => none

def rUnit (bs : List UInt8) : Option (WUnit × List UInt8) :=
  andThen (rPStr bs) fun cls r =>
  andThen (rI8 r) fun rate r =>
  andThen (rCount r) fun nin r =>
  andThen (rCount r) fun nout r =>
  andThen (rI16 r) fun sp r =>
  andThen (rMany rPair nin r) fun ins r =>
  andThen (rMany rI8 nout r) fun outs r =>
  some ({ cls := cls, rate := rate, special := sp, inputs := ins, outs := outs }, r)

def rPName (bs : List UInt8) : Option ((List UInt8 × Int) × List UInt8) :=
  match rPStr bs with
  | some (n, r) => (rI32 r).map fun (i, r') => ((n, i), r')
  | none => none

def rDef (bs : List UInt8) : Option (WDef × List UInt8) :=
  andThen (rPStr bs) fun name r =>
  andThen (rCount r) fun nc r =>
  andThen (rMany rU32 nc r) fun consts r =>
  andThen (rCount r) fun np r =>
  andThen (rMany rU32 np r) fun params r =>
  andThen (rCount r) fun nn r =>
  andThen (rMany rPName nn r) fun pnames r =>
  andThen (rCount r) fun nu r =>
  andThen (rMany rUnit nu r) fun units r =>
  andThen (rI16 r) fun nv r =>
  if nv ≠ 0 then none     -- variants are outside this reader (C04)
  else some ({ name := name, consts := consts, params := params, pnames := pnames, units := units }, r)

/-- a whole file with exactly one definition and nothing after it -/
def parseW (bs : List UInt8) : Option WDef :=
  match bs with
  | 0x53 :: 0x43 :: 0x67 :: 0x66 :: r =>
    match rI32 r with
    | some (2, r) =>
      match rI16 r with
      | some (1, r) =>
        match rDef r with
        | some (d, []) => some d
        | _ => none
      | _ => none
    | _ => none
  | _ => none

/-! ### from the emitted definition to the wire -/

def asciiBytes (s : String) : Option (List UInt8) :=
  let bs := s.toUTF8.toList
  if bs.length > 255 ∨ bs.any (· ≥ 128) then none else some bs

def allSome {α : Type} : List (Option α) → Option (List α)
  | [] => some []
  | none :: _ => none
  | some x :: rest => (allSome rest).map (x :: ·)

def toWireUnit (u : Unit') : Option WUnit := do
  let cls ← asciiBytes u.cls
  pure { cls := cls, rate := Int.ofNat u.rate, special := u.special,
         inputs := u.inputs.map fun (a, b) => (a, Int.ofNat b), outs := u.outs.map Int.ofNat }

def toWire (name : String) (pnames : List (String × Nat)) (d : Def) : Option WDef := do
  let nm ← asciiBytes name
  let consts ← allSome (d.consts.map f32Bits)
  let params ← allSome (d.controls.map f32Bits)
  let pn ← allSome (pnames.map fun (n, i) => (asciiBytes n).map fun b => (b, Int.ofNat i))
  let units ← allSome (d.units.map toWireUnit)
  let w : WDef := { name := nm, consts := consts, params := params, pnames := pn, units := units }
  if w.Valid then some w else none

/-- the bytes `SynthDef.as_bytes()` produces for the emitted definition -/
def writeFile (name : String) (pnames : List (String × Nat)) (d : Def) : Option (List UInt8) :=
  (toWire name pnames d).map writeW

end Sc3Verif.C01
