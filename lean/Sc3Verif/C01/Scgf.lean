/-
C02 — the SCgf version-2 byte writer (`SynthDef._write_def_list/_write_def`,
`SynthObject._write_def`, `_fmtrw.py`) over the emitted definition of `Model.lean`.
`struct.pack` range errors (name longer than 255, counts outside int16/int32, a
constant that is not exactly a binary32 value) make the writer return `none`.
Core Lean only.
-/
import Sc3Verif.C01.Model
namespace Sc3Verif.C01

def natPow2 (k : Nat) : Nat := 2 ^ k

/-- bits of the binary32 float equal to `q`; `none` if `q` is not exactly representable
    as a normal binary32 number (the harness only uses representable values; rounding
    is `struct.pack`'s business and is not modelled). -/
def f32Bits (q : Rat) : Option UInt32 :=
  if q == 0 then some 0
  else
    let sign : Nat := if q < 0 then 1 else 0
    let n := q.num.natAbs
    let d := q.den
    let kd := Nat.log2 d
    if d != 2 ^ kd then none
    else
      let e : Int := (Nat.log2 n : Int) - kd          -- 2^e ≤ |q| < 2^(e+1)
      let s : Int := 23 - e
      -- mantissa m = |q| * 2^s must be an integer in [2^23, 2^24)
      let num := if s ≥ 0 then n * 2 ^ s.toNat else n
      let den := if s ≥ 0 then d else d * 2 ^ (-s).toNat
      if num % den != 0 then none
      else
        let m := num / den
        let be := e + 127
        if be < 1 ∨ be > 254 ∨ m < 2 ^ 23 ∨ m ≥ 2 ^ 24 then none
        else some (UInt32.ofNat (sign * 2 ^ 31 + be.toNat * 2 ^ 23 + (m - 2 ^ 23)))

def be32 (w : UInt32) : List UInt8 :=
  [(w >>> 24).toUInt8, (w >>> 16).toUInt8, (w >>> 8).toUInt8, w.toUInt8]

/-- `struct.pack('>i', v)` -/
def wI32 (v : Int) : Option (List UInt8) :=
  if v < -(2 ^ 31) ∨ v ≥ 2 ^ 31 then none
  else some (be32 (UInt32.ofNat (v % 2 ^ 32).toNat))

/-- `struct.pack('>h', v)` -/
def wI16 (v : Int) : Option (List UInt8) :=
  if v < -(2 ^ 15) ∨ v ≥ 2 ^ 15 then none
  else let w := (v % 2 ^ 16).toNat; some [UInt8.ofNat (w / 256), UInt8.ofNat (w % 256)]

/-- `struct.pack('b', v)` -/
def wI8 (v : Int) : Option (List UInt8) :=
  if v < -128 ∨ v ≥ 128 then none else some [UInt8.ofNat (v % 256).toNat]

def wF32 (q : Rat) : Option (List UInt8) := (f32Bits q).map be32

/-- `write_pascal_str`: one length byte, ASCII bytes -/
def wPStr (s : String) : Option (List UInt8) :=
  let bs := s.toUTF8.toList
  if bs.length > 255 ∨ bs.any (· ≥ 128) then none
  else some (UInt8.ofNat bs.length :: bs)

def catOpt : List (Option (List UInt8)) → Option (List UInt8)
  | [] => some []
  | none :: _ => none
  | some x :: rest => (catOpt rest).map (x ++ ·)

def wUnit (u : Unit') : Option (List UInt8) :=
  catOpt ([wPStr u.cls, wI8 (u.rate : Int), wI32 u.inputs.length, wI32 u.outs.length, wI16 u.special]
    ++ u.inputs.flatMap (fun (a, b) => [wI32 a, wI32 (Int.ofNat b)])
    ++ u.outs.map (fun (r : Nat) => wI8 (Int.ofNat r)))

/-- one definition (`SynthDef._write_def`), without variants -/
def wDef (name : String) (pnames : List (String × Nat)) (d : Def) : Option (List UInt8) :=
  catOpt ([wPStr name, wI32 d.consts.length] ++ d.consts.map wF32
    ++ [wI32 d.controls.length] ++ d.controls.map wF32
    ++ [wI32 pnames.length] ++ pnames.flatMap (fun (n, i) => [wPStr n, wI32 i])
    ++ [wI32 d.units.length] ++ d.units.map wUnit
    ++ [wI16 0])

/-- `_write_def_list([self])`: header 'SCgf', version 2, one definition -/
def writeFile (name : String) (pnames : List (String × Nat)) (d : Def) : Option (List UInt8) :=
  catOpt [some [0x53, 0x43, 0x67, 0x66], wI32 2, wI16 1, wDef name pnames d]

end Sc3Verif.C01
