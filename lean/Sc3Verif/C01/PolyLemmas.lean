import Sc3Verif.C01.Poly
import Mathlib.Tactic.Ring
import Mathlib.Tactic.Linarith
namespace Sc3Verif.C01

theorem evalMono_insertVar (ρ : Nat → Rat) (v : Nat) (m : Mono) :
    evalMono ρ (insertVar v m) = ρ v * evalMono ρ m := by
  induction m with
  | nil => simp [insertVar, evalMono]
  | cons w ws ih =>
    unfold insertVar; split
    · simp [evalMono]
    · simp only [evalMono, List.foldr_cons] at ih ⊢
      rw [ih]; ring

theorem evalMono_mulMono (ρ : Nat → Rat) (a b : Mono) :
    evalMono ρ (mulMono a b) = evalMono ρ a * evalMono ρ b := by
  induction a with
  | nil => simp [mulMono, evalMono]
  | cons v vs ih =>
    have : mulMono (v :: vs) b = insertVar v (mulMono vs b) := rfl
    rw [this, evalMono_insertVar, ih]
    simp only [evalMono, List.foldr_cons]; ring

@[simp] theorem eval_nil (ρ : Nat → Rat) : Poly.eval ρ [] = 0 := rfl
@[simp] theorem eval_cons (ρ : Nat → Rat) (t : Mono × Rat) (p : Poly) :
    Poly.eval ρ (t :: p) = t.2 * evalMono ρ t.1 + Poly.eval ρ p := rfl

theorem eval_const (ρ : Nat → Rat) (q : Rat) : Poly.eval ρ (Poly.const q) = q := by
  simp [Poly.const, evalMono]

theorem eval_var (ρ : Nat → Rat) (v : Nat) : Poly.eval ρ (Poly.var v) = ρ v := by
  simp [Poly.var, evalMono]

theorem eval_add (ρ : Nat → Rat) (p q : Poly) :
    Poly.eval ρ (p.add q) = Poly.eval ρ p + Poly.eval ρ q := by
  induction p with
  | nil => simp [Poly.add]
  | cons t p ih =>
    have : Poly.add (t :: p) q = t :: Poly.add p q := rfl
    rw [this, eval_cons, eval_cons, ih]; ring

theorem eval_neg (ρ : Nat → Rat) (p : Poly) : Poly.eval ρ p.neg = - Poly.eval ρ p := by
  induction p with
  | nil => simp [Poly.neg]
  | cons t p ih =>
    have : Poly.neg (t :: p) = (t.1, -t.2) :: Poly.neg p := rfl
    rw [this, eval_cons, eval_cons, ih]; ring

theorem eval_sub (ρ : Nat → Rat) (p q : Poly) :
    Poly.eval ρ (p.sub q) = Poly.eval ρ p - Poly.eval ρ q := by
  unfold Poly.sub; rw [eval_add, eval_neg]; ring

theorem eval_mulTerm (ρ : Nat → Rat) (t : Mono × Rat) (q : Poly) :
    Poly.eval ρ (Poly.mulTerm t q) = t.2 * evalMono ρ t.1 * Poly.eval ρ q := by
  induction q with
  | nil => simp [Poly.mulTerm]
  | cons u q ih =>
    have : Poly.mulTerm t (u :: q) = (mulMono t.1 u.1, t.2 * u.2) :: Poly.mulTerm t q := rfl
    rw [this, eval_cons, eval_cons, ih, evalMono_mulMono]; ring

theorem eval_mul (ρ : Nat → Rat) (p q : Poly) :
    Poly.eval ρ (p.mul q) = Poly.eval ρ p * Poly.eval ρ q := by
  induction p with
  | nil => simp [Poly.mul]
  | cons t p ih =>
    have : Poly.mul (t :: p) q = Poly.add (Poly.mulTerm t q) (Poly.mul p q) := by
      simp [Poly.mul, Poly.add]
    rw [this, eval_add, eval_mulTerm, ih, eval_cons]; ring

theorem eval_addTerm (ρ : Nat → Rat) (t : Mono × Rat) (p : Poly) :
    Poly.eval ρ (addTerm t p) = t.2 * evalMono ρ t.1 + Poly.eval ρ p := by
  induction p with
  | nil => simp [addTerm]
  | cons u r ih =>
    unfold addTerm; split
    · rename_i h; simp only [eval_cons]; rw [h]; ring
    · simp only [eval_cons, ih]; ring

theorem eval_collect (ρ : Nat → Rat) (p : Poly) : Poly.eval ρ (collect p) = Poly.eval ρ p := by
  induction p with
  | nil => rfl
  | cons t p ih =>
    have : collect (t :: p) = addTerm t (collect p) := rfl
    rw [this, eval_addTerm, ih, eval_cons]

theorem eval_all_zero (ρ : Nat → Rat) (p : Poly) (h : p.all (fun t => t.2 == 0) = true) :
    Poly.eval ρ p = 0 := by
  induction p with
  | nil => rfl
  | cons t p ih =>
    simp only [List.all_cons, Bool.and_eq_true, beq_iff_eq] at h
    rw [eval_cons, h.1, ih h.2]; ring

/-- soundness of the zero test -/
theorem isZero_sound (ρ : Nat → Rat) (p : Poly) (h : p.isZero = true) : Poly.eval ρ p = 0 := by
  rw [← eval_collect]; exact eval_all_zero ρ _ h

/-- if the difference collects to zero the two polynomials agree under every valuation -/
theorem eq_of_sub_isZero (ρ : Nat → Rat) (p q : Poly) (h : (p.sub q).isZero = true) :
    Poly.eval ρ p = Poly.eval ρ q := by
  have := isZero_sound ρ _ h
  rw [eval_sub] at this; linarith

end Sc3Verif.C01
