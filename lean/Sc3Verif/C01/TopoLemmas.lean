/-
C02 — the `_topological_sort` loop emits every unit after all of its antecedents, at most
once, whatever the iteration order of the descendant sets.
-/
import Sc3Verif.C01.Model
namespace Sc3Verif.C01

/-- every element of `out` comes after all its antecedents -/
def OrderedT (ante0 : Nat → List Nat) (out : List Nat) : Prop :=
  ∀ i (h : i < out.length), ∀ a ∈ ante0 out[i], a ∈ out.take i

structure TInv (ante0 ante : Nat → List Nat) (avail out : List Nat) : Prop where
  rem : ∀ d a, a ∈ ante0 d → a ∈ ante d ∨ a ∈ out
  empty : ∀ d, d ∈ avail ∨ d ∈ out → ante d = []
  nodup : (avail ++ out).Nodup
  ord : OrderedT ante0 out

/-- invariant while the descendants of `o` are being processed (`o` not yet in `out`) -/
structure TInv' (o : Nat) (ante0 ante : Nat → List Nat) (avail out : List Nat) : Prop where
  rem : ∀ d a, a ∈ ante0 d → a ∈ ante d ∨ a ∈ out ∨ a = o
  empty : ∀ d, d ∈ avail ∨ d ∈ out ∨ d = o → ante d = []
  nodup : (avail ++ o :: out).Nodup
  ord : OrderedT ante0 out

theorem mem_setErase {x y : Nat} {l : List Nat} : y ∈ setErase x l ↔ y ∈ l ∧ y ≠ x := by
  simp [setErase]

theorem removeAnte_inv {o d : Nat} {ante0 : Nat → List Nat} {st st' : (Nat → List Nat) × List Nat}
    {out : List Nat} (h : removeAnte o st d = .ok st') (inv : TInv' o ante0 st.1 st.2 out) :
    TInv' o ante0 st'.1 st'.2 out := by
  unfold removeAnte at h
  simp only at h
  split at h
  · rename_i hmem
    have hst : st' = ((fun x => if x = d then setErase o (st.1 d) else st.1 x),
        if (setErase o (st.1 d)).isEmpty then st.2 ++ [d] else st.2) := by
      injection h with h; exact h.symm
    have hd_ne : st.1 d ≠ [] := List.ne_nil_of_mem hmem
    have hd_notin : ¬ (d ∈ st.2 ∨ d ∈ out ∨ d = o) := fun hc => hd_ne (inv.empty d hc)
    subst hst
    refine ⟨?_, ?_, ?_, inv.ord⟩
    · intro x a ha
      simp only
      by_cases hx : x = d
      · subst hx
        simp only [if_true]
        rcases inv.rem x a ha with h1 | h1 | h1
        · by_cases hao : a = o
          · exact Or.inr (Or.inr hao)
          · exact Or.inl (mem_setErase.mpr ⟨h1, hao⟩)
        · exact Or.inr (Or.inl h1)
        · exact Or.inr (Or.inr h1)
      · simp only [if_neg hx]; exact inv.rem x a ha
    · intro x hx
      simp only at hx ⊢
      by_cases hxd : x = d
      · subst hxd
        simp only [if_true]
        split at hx
        · rename_i he; simpa using he
        · exact absurd hx hd_notin
      · simp only [if_neg hxd]
        apply inv.empty x
        split at hx
        · rcases hx with hx | hx
          · rcases List.mem_append.mp hx with h1 | h1
            · exact Or.inl h1
            · simp at h1; exact absurd h1 hxd
          · exact Or.inr hx
        · exact hx
    · simp only
      split
      · have hnd := inv.nodup
        rw [List.append_assoc]
        rw [List.nodup_append] at hnd ⊢
        refine ⟨hnd.1, ?_, ?_⟩
        · simp only [List.singleton_append, List.nodup_cons]
          refine ⟨?_, by simpa using hnd.2.1⟩
          intro hc
          rcases List.mem_cons.mp hc with h1 | h1
          · exact hd_notin (Or.inr (Or.inr h1))
          · exact hd_notin (Or.inr (Or.inl h1))
        · intro a ha b hb
          rcases List.mem_append.mp hb with h1 | h1
          · simp at h1; subst h1
            intro hab; subst hab; exact hd_notin (Or.inl ha)
          · exact hnd.2.2 a ha b h1
      · exact inv.nodup
  · exact absurd h (by simp)

theorem removeAll_inv {o : Nat} {ante0 : Nat → List Nat} {out : List Nat} (ds : List Nat)
    {st st' : (Nat → List Nat) × List Nat}
    (h : removeAll o ds st = .ok st') (inv : TInv' o ante0 st.1 st.2 out) :
    TInv' o ante0 st'.1 st'.2 out := by
  induction ds generalizing st with
  | nil => simp [removeAll] at h; subst h; exact inv
  | cons d ds ih =>
    unfold removeAll at h
    split at h
    · rename_i st1 h1; exact ih h (removeAnte_inv h1 inv)
    · exact absurd h (by simp)

theorem orderedT_snoc {ante0 : Nat → List Nat} {out : List Nat} {o : Nat}
    (h : OrderedT ante0 out) (ho : ∀ a ∈ ante0 o, a ∈ out) : OrderedT ante0 (out ++ [o]) := by
  intro i hi a ha
  simp only [List.length_append, List.length_singleton] at hi
  by_cases hlt : i < out.length
  · rw [List.getElem_append_left hlt] at ha
    rw [List.take_append_of_le_length (by omega)]
    exact h i hlt a ha
  · have hi' : i = out.length := by omega
    subst hi'
    rw [List.getElem_append_right (by omega)] at ha
    simp only [Nat.sub_self, List.getElem_cons_zero] at ha
    rw [List.take_append_of_le_length (by omega), List.take_length]
    exact ho a ha

theorem topoLoop_inv (order : Nat → List Nat) (ante0 : Nat → List Nat) (fuel : Nat)
    (ante : Nat → List Nat) (avail out res : List Nat)
    (inv : TInv ante0 ante avail out) (h : topoLoop order fuel ante avail out = .ok res) :
    OrderedT ante0 res ∧ res.Nodup := by
  induction fuel generalizing ante avail out with
  | zero =>
    simp [topoLoop] at h; subst h
    exact ⟨inv.ord, (List.nodup_append.mp inv.nodup).2.1⟩
  | succ fuel ih =>
    unfold topoLoop at h
    split at h
    · simp at h; subst h
      exact ⟨inv.ord, (List.nodup_append.mp inv.nodup).2.1⟩
    · rename_i o hlast
      split at h
      · rename_i st hrem
        have hsplit : avail = avail.dropLast ++ [o] := by
          have hne : avail ≠ [] := by intro hc; subst hc; simp at hlast
          have h1 := List.dropLast_concat_getLast hne
          have h2 : avail.getLast hne = o := by
            have := List.getLast?_eq_some_getLast hne
            rw [this] at hlast; exact Option.some.inj hlast
          rw [h2] at h1; exact h1.symm
        have ho_av : o ∈ avail := by rw [hsplit]; simp
        have ho_empty : ante o = [] := inv.empty o (Or.inl ho_av)
        have ho_out : ∀ a ∈ ante0 o, a ∈ out := by
          intro a ha
          rcases inv.rem o a ha with h1 | h1
          · rw [ho_empty] at h1; simp at h1
          · exact h1
        have hnd : (avail.dropLast ++ o :: out).Nodup := by
          have := inv.nodup
          rw [hsplit, List.append_assoc] at this
          simpa using this
        have inv' : TInv' o ante0 ante avail.dropLast out := by
          refine ⟨fun d a ha => ?_, fun d hd => ?_, hnd, inv.ord⟩
          · rcases inv.rem d a ha with h1 | h1
            · exact Or.inl h1
            · exact Or.inr (Or.inl h1)
          · rcases hd with h1 | h1 | h1
            · exact inv.empty d (Or.inl (List.dropLast_subset _ h1))
            · exact inv.empty d (Or.inr h1)
            · subst h1; exact ho_empty
        have inv2 := removeAll_inv (order o) hrem inv'
        apply ih st.1 st.2 (out ++ [o]) _ h
        refine ⟨fun d a ha => ?_, fun d hd => ?_, ?_, orderedT_snoc inv.ord ho_out⟩
        · rcases inv2.rem d a ha with h1 | h1 | h1
          · exact Or.inl h1
          · exact Or.inr (List.mem_append_left _ h1)
          · exact Or.inr (by simp [h1])
        · apply inv2.empty d
          rcases hd with h1 | h1
          · exact Or.inl h1
          · rcases List.mem_append.mp h1 with h2 | h2
            · exact Or.inr (Or.inl h2)
            · simp at h2; exact Or.inr (Or.inr h2)
        · have := inv2.nodup
          have hp : (st.2 ++ (out ++ [o])).Perm (st.2 ++ o :: out) :=
            List.Perm.append_left _ (by simpa using (List.perm_append_singleton o out))
          exact hp.nodup_iff.mpr this
      · exact absurd h (by simp)

end Sc3Verif.C01
