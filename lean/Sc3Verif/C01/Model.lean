/-
C01/C02/C20 — executable model of the SynthDef graph compiler
(`sc3/synth/ugen.py`, `sc3/synth/synthdef.py`, `_graphparam.py`, `ugens/inout.py`).

A *program* is the list of constructor events of a graph function in creation order.
The model replays, line by line:
  * the constructor-time shortcuts of `BinaryOpUGen._new1`, `MulAdd._new1`,
    `Sum3._new1`, `Sum4._new1`, rate inference (`_determine_rate`, list rate rule);
  * `_optimize_graph` (children loop, dead code elimination with its recursion into the
    inputs, `_optimize_add` = sum3 / sum4 / muladd / addneg, `_optimize_sub`,
    `_replace_ugen`, `_remove_ugen`, `_optimize_update_descendants`, the aliasing
    `replacement._descendants = self._descendants` — descendant sets live in a store of
    cells and objects hold a cell reference);
  * `_collect_constants`, `_check_inputs`, `_topological_sort`, `_index_ugens`;
  * the unit list that `_write_def` serialises (the byte writer is in `Scgf.lean`).

Python object identity = index into the object heap `objs` (creation order, including
objects created while the optimiser runs).  Python numbers = `Rat` (the harness only
uses dyadic values, exact in binary64/binary32).  Sets = duplicate-free lists; the only
place their iteration order could matter (`_arrange`) sorts them by `_synth_index`.
Unbounded Python recursion (DCE → input.`_optimize_graph`) takes a fuel argument;
running out of fuel is reported as an error, never silently.

Core Lean only (loaded by the driver).
-/
import Sc3Verif.C01.GenOpcodes
import Sc3Verif.C01.GenShortcuts
namespace Sc3Verif.C01

inductive Kind where
  | atom | unop | binop | muladd | sum3 | sum4
deriving DecidableEq, Repr, Inhabited

/-- which `_check_inputs` override the class has -/
inductive Check where
  | valid                 -- `_check_valid_inputs`
  | out (fixed : Nat)     -- AbstractOut with `_num_fixed_args() = fixed`
  | nAudio (n : Nat)      -- `_check_n_inputs(n)`
  | srFirst               -- `_check_sr_as_first_input`
  | duty                  -- `Duty._check_inputs`: demand-rate `dur` ⇒ the reset rate is checked first
deriving DecidableEq, Repr, Inhabited

structure Obj where
  cls : String
  kind : Kind
  op : String := ""        -- operator name of BasicOpUGen
  rate : Rate
  special : Int := 0
  inputs : List Inp := []
  nOut : Nat := 1
  isUGen : Bool := true    -- `isinstance(x, UGen)` (WidthFirstUGen / AbstractOut are only SynthObjects)
  dce : Bool := false      -- `_optimize_graph` does dead code elimination
  check : Check := .valid
  synthIndex : Int := -1
  desc : Option Nat := none    -- cell holding `_descendants` (none = attribute is None)
  wfa : Option (List Nat) := none  -- `_width_first_antecedents`
deriving Repr, Inhabited

inductive Err where
  | typeError | valueError (msg : String) | zeroDiv | keyError | attrError | replaceNonUGen
  | badOp | fuel | orphan | badProgram
deriving DecidableEq, Repr

structure St where
  objs : Array Obj := #[]
  cells : Array (List Nat) := #[]
  children : Array (Option Nat) := #[]
  widthFirst : List Nat := []
  rewriting : Bool := false
  controls : List Rat := []          -- `_controls`
  maxLocalBufs : Option Nat := none  -- `_max_local_bufs` (the MaxLocalBufs unit, once created)
deriving Repr, Inhabited

abbrev M := StateT St (Except Err)

def getObj (o : Nat) : M Obj := do
  match (← get).objs[o]? with
  | some x => pure x
  | none => throw .badProgram

def modObj (o : Nat) (f : Obj → Obj) : M Unit :=
  modify fun s => { s with objs := s.objs.modify o f }

def getCell (c : Nat) : M (List Nat) := do
  pure ((← get).cells[c]?.getD [])

def setCell (c : Nat) (l : List Nat) : M Unit :=
  modify fun s => { s with cells := s.cells.setIfInBounds c l }

def newCell : M Nat := do
  let s ← get
  set { s with cells := s.cells.push [] }
  pure s.cells.size

/-- `obj._descendants` as a list; `none` if the attribute is None. -/
def descOf (o : Nat) : M (Option (List Nat)) := do
  match (← getObj o).desc with
  | none => pure none
  | some c => pure (some (← getCell c))

def setInsert (x : Nat) (l : List Nat) : List Nat := if x ∈ l then l else l ++ [x]
def setErase (x : Nat) (l : List Nat) : List Nat := l.filter (· != x)

/-- Python `lst[i] = v` with negative-index semantics. -/
def setChild (i : Int) (v : Option Nat) : M Unit := do
  let s ← get
  let n : Int := s.children.size
  let j := if i < 0 then i + n else i
  if j < 0 ∨ j ≥ n then throw .keyError
  set { s with children := s.children.setIfInBounds j.toNat v }

/-- `_as_ugen_rate()` of an input; `none` for Python None. -/
def inpRate : Inp → M (Option Rate)
  | .num _ => pure (some .scalar)
  | .bad => pure none
  | .out o _ _ => do pure (some (← getObj o).rate)

def inpRateS (i : Inp) : M Rate := do pure ((← inpRate i).getD .scalar)

/-- `utl.list_min` over rate names (string order): keeps the first minimum. -/
def minRateName : Rate → List Rate → Rate
  | m, [] => m
  | m, x :: xs => minRateName (if x.nameOrd < m.nameOrd then x else m) xs

/-- pure core of `gpp.ugen_param(list)._as_ugen_rate()` on the element rates
    (`None` counted as 'scalar'): one element → its rate; otherwise the minimum of the
    rate names in string order. -/
def listRateP : List Rate → Option Rate
  | [] => none
  | r :: rest => some (minRateName r rest)

def listRate (l : List Inp) : M Rate := do
  match listRateP (← l.mapM inpRateS) with
  | some r => pure r
  | none => throw .typeError

/-- pure core of `_determine_rate` of BinaryOpUGen ("order matters"). -/
def determineRateP (ra rb : Option Rate) : Rate :=
  if ra = some .demand then .demand
  else if rb = some .demand then .demand
  else if ra = some .audio then .audio
  else if rb = some .audio then .audio
  else if ra = some .control then .control
  else if rb = some .control then .control
  else .scalar

def determineRate (a b : Inp) : M Rate := do
  pure (determineRateP (← inpRate a) (← inpRate b))

/-- `_create_ugen_object` + `_add_to_synth` (+ `_add_ugen`). -/
def newObj (x : Obj) (widthFirst : Bool := false) : M Nat := do
  let s ← get
  let o := s.objs.size
  if s.rewriting then
    set { s with objs := s.objs.push { x with synthIndex := -1, desc := none, wfa := none },
                 widthFirst := if widthFirst then s.widthFirst ++ [o] else s.widthFirst }
  else
    set { s with objs := s.objs.push { x with synthIndex := s.children.size, desc := none,
                                              wfa := some s.widthFirst }
                 children := s.children.push (some o)
                 widthFirst := if widthFirst then s.widthFirst ++ [o] else s.widthFirst }
  pure o

/-- `_build_op_dict`: name ↦ (special index, canonical server name); a later entry wins,
    as in a Python dict. -/
def buildOpDict (l : List (List String)) : List (String × Nat × String) :=
  (l.zipIdx.flatMap fun (item, i) => item.map fun name => (name, i, item.headD "")).reverse

def opLookup (d : List (String × Nat × String)) (name : String) : Option (Nat × String) :=
  (d.find? (·.1 == name)).map (·.2)

/-- `sc_spindex_opname`: unary table first, then binary. -/
def spindexOpname (name : String) : Option (Nat × String) :=
  match opLookup (buildOpDict unopsList) name with
  | some r => some r
  | none => opLookup (buildOpDict binopsList) name

/-- `sc_opname` -/
def scOpname (name : String) : Option String := (spindexOpname name).map (·.2)

def unopIndex (op : String) : Option Nat := (spindexOpname op).map (·.1)
def binopIndex (op : String) : Option Nat := (spindexOpname op).map (·.1)

/-- `UnaryOpUGen.new(op, a)` for a UGen operand. -/
def mkUnop (op : String) (a : Inp) : M Inp := do
  let some idx := unopIndex op | throw .badOp
  let some r ← inpRate a | throw .typeError
  let o ← newObj { cls := "UnaryOpUGen", kind := .unop, op := op, rate := r, special := idx,
                   inputs := [a], dce := true }
  pure (.out o 0 false)

/-- Python `-x`. -/
def pyNeg : Inp → M Inp
  | .num q => pure (.num (-q))
  | .bad => throw .typeError
  | a => mkUnop "neg" a

/-- `BinaryOpUGen.new(op, a, b)` (→ `_multi_new` → `_new1`), at least one operand a UGen. -/
def mkBinop (op : String) (a b : Inp) : M Inp := do
  if a = .bad ∨ b = .bad then throw .typeError
  match binopPlan op a b with
  | .ret i => pure i
  | .neg i => pyNeg i
  | .generic =>
    let some idx := binopIndex op | throw .badOp
    let r ← determineRate a b
    let o ← newObj { cls := "BinaryOpUGen", kind := .binop, op := op, rate := r, special := idx,
                     inputs := [a, b], dce := true }
    pure (.out o 0 false)

/-- Python `a op b` for the four arithmetic operators (numbers: exact arithmetic;
    a UGen on either side: `_compose_binop` / `_rcompose_binop` keep operand order). -/
def pyArith (op : String) (a b : Inp) : M Inp := do
  match a, b with
  | .num x, .num y =>
    if op == "+" then pure (.num (x + y))
    else if op == "-" then pure (.num (x - y))
    else if op == "*" then pure (.num (x * y))
    else if op == "/" then (if y == 0 then throw .zeroDiv else pure (.num (x / y)))
    else pure (.num x)          -- harness convention for opaque operators on two numbers
  | _, _ => mkBinop op a b

/-- `MulAdd._can_be_muladd` -/
def canBeMulAdd (i m a : Inp) : M Bool := do
  let ri ← inpRate i
  if ri = some .audio then pure true
  else
    let rm ← inpRate m
    let ra ← inpRate a
    pure (ri = some .control && (rm = some .control || rm = some .scalar)
          && (ra = some .control || ra = some .scalar))

/-- `MulAdd.new(input, mul, add)` -/
def mkMulAdd (i m a : Inp) : M Inp := do
  let rate ← listRate [i, m, a]
  let plain (i m a : Inp) : M Inp := do
    let o ← newObj { cls := "MulAdd", kind := .muladd, rate := rate, inputs := [i, m, a] }
    -- `_init_ugen` recomputes the rate from the stored inputs
    let r ← listRate [i, m, a]
    modObj o fun x => { x with rate := r }
    pure (.out o 0 false)
  match mulAddPlan i m a (← canBeMulAdd i m a) (← canBeMulAdd m i a) with
  | .ret x => pure x
  | .neg x => pyNeg x
  | .mul x y => pyArith "*" x y
  | .sub x y => pyArith "-" x y
  | .add x y => pyArith "+" x y
  | .muladd x y z => plain x y z
  | .mulThenAdd x y z => do
    let p ← pyArith "*" x y
    pyArith "+" p z

/-- stable insertion sort by rate-name rank (Python's `list.sort(key=…)` is stable) -/
def insertByRate (x : Inp × Nat) : List (Inp × Nat) → List (Inp × Nat)
  | [] => [x]
  | y :: ys => if x.2 < y.2 then x :: y :: ys else y :: insertByRate x ys

def sortByRate (l : List Inp) : M (List Inp) := do
  let keyed ← l.mapM fun i => do pure (i, (← inpRateS i).nameOrd)
  pure ((keyed.foldl (fun acc x => insertByRate x acc) []).map (·.1))

def mkSumN (cls : String) (kind : Kind) (l : List Inp) : M Inp := do
  let rate ← listRate l
  let sorted ← sortByRate l
  let o ← newObj { cls := cls, kind := kind, rate := rate, inputs := sorted }
  pure (.out o 0 false)

def execSumPlan : SumPlan → M Inp
  | .add2 a b => pyArith "+" a b
  | .sum3 a b c => mkSumN "Sum3" .sum3 [a, b, c]
  | .sum4 a b c d => mkSumN "Sum4" .sum4 [a, b, c, d]

/-- `Sum3._new1` -/
def mkSum3 (a b c : Inp) : M Inp := execSumPlan (sum3Plan a b c)

/-- `Sum4._new1` -/
def mkSum4 (a b c d : Inp) : M Inp := execSumPlan (sum4Plan a b c d)

/-! ### optimiser -/

/-- the object an input refers to, if it is a UGen instance; proxies are mapped to
    their source only where the code does so -/
def inpObj : Inp → Option (Nat × Bool)
  | .out o _ p => some (o, p)
  | _ => none

/-- `_optimize_update_descendants(replacement, deleted_unit)` called on `self` -/
def updateDescendants (self repl deleted : Nat) : M Unit := do
  let r ← getObj repl
  let rec go : List Inp → M Unit
    | [] => pure ()
    | i :: rest => do
      match i with
      | .out o _ _ =>
        let x ← getObj o
        if !x.isUGen then go rest
        else
          match x.desc with
          | none => pure ()          -- `if input._descendants is None: return`
          | some c =>
            let l ← getCell c
            setCell c (setErase deleted (setErase self (setInsert repl l)))
            go rest
      | _ => go rest
  go r.inputs

/-- `_replace_ugen(a, b)` -/
def replaceUGen (a b : Nat) : M Unit := do
  let oa ← getObj a
  modObj b fun x => { x with wfa := oa.wfa, desc := oa.desc, synthIndex := oa.synthIndex }
  setChild oa.synthIndex (some b)
  let s ← get
  for c in s.children do
    match c with
    | none => pure ()
    | some item =>
      modObj item fun x =>
        { x with inputs := x.inputs.map fun i => if i = .out a 0 false then .out b 0 false else i }

/-- result of a constructor used as replacement must be a SynthObject -/
def asObj : Inp → M Nat
  | .out o _ false => pure o
  | _ => throw .replaceNonUGen

def removeUGen (o : Nat) : M Unit := do
  setChild (← getObj o).synthIndex none

/-- is input `i` a (non-proxy) object of the given kind/op with exactly one descendant? -/
def singleUse (i : Inp) (kind : Kind) (op : String) : M (Option Obj) := do
  match i with
  | .out o _ false =>
    let x ← getObj o
    if x.kind == kind && x.op == op then
      match x.desc with
      | none => throw .typeError           -- len(None)
      | some c => if (← getCell c).length == 1 then pure (some x) else pure none
    else pure none
  | _ => pure none

def inpObjId : Inp → Nat
  | .out o _ _ => o
  | _ => 0

/-- finish a rewrite: `replacement._descendants = self._descendants`, update descendants -/
def finishRepl (self : Nat) (r : Inp) (deleted : Nat) : M Nat := do
  let ro ← asObj r
  let so ← getObj self
  modObj ro fun x => { x with desc := so.desc }
  updateDescendants self ro deleted
  pure ro

def isDemand (i : Inp) : M Bool := do pure ((← inpRate i) = some .demand)

def optimizeToSum3 (self : Nat) : M (Option Nat) := do
  let so ← getObj self
  let [a, b] := so.inputs | throw .badProgram
  if (← isDemand a) || (← isDemand b) then return none
  if let some xa ← singleUse a .binop "+" then
    let [a0, a1] := xa.inputs | throw .badProgram
    removeUGen (inpObjId a)
    let r ← if a = b then mkSum4 a0 a0 a1 a1 else mkSum3 a0 a1 b
    return some (← finishRepl self r (inpObjId a))
  if let some xb ← singleUse b .binop "+" then
    let [b0, b1] := xb.inputs | throw .badProgram
    removeUGen (inpObjId b)
    let r ← mkSum3 b0 b1 a
    return some (← finishRepl self r (inpObjId b))
  return none

def optimizeToSum4 (self : Nat) : M (Option Nat) := do
  let so ← getObj self
  let [a, b] := so.inputs | throw .badProgram
  if a = b then return none
  if (← isDemand a) || (← isDemand b) then return none
  if let some xa ← singleUse a .sum3 "" then
    let [a0, a1, a2] := xa.inputs | throw .badProgram
    removeUGen (inpObjId a)
    let r ← mkSum4 a0 a1 a2 b
    return some (← finishRepl self r (inpObjId a))
  if let some xb ← singleUse b .sum3 "" then
    let [b0, b1, b2] := xb.inputs | throw .badProgram
    removeUGen (inpObjId b)
    let r ← mkSum4 b0 b1 b2 a
    return some (← finishRepl self r (inpObjId b))
  return none

def optimizeToMulAdd (self : Nat) : M (Option Nat) := do
  let so ← getObj self
  let [a, b] := so.inputs | throw .badProgram
  if a = b then return none
  if let some xa ← singleUse a .binop "*" then
    let [a0, a1] := xa.inputs | throw .badProgram
    if ← canBeMulAdd a0 a1 b then
      removeUGen (inpObjId a)
      let r ← mkMulAdd a0 a1 b
      return some (← finishRepl self r (inpObjId a))
    if ← canBeMulAdd a1 a0 b then
      removeUGen (inpObjId a)
      let r ← mkMulAdd a1 a0 b
      return some (← finishRepl self r (inpObjId a))
  if let some xb ← singleUse b .binop "*" then
    let [b0, b1] := xb.inputs | throw .badProgram
    if ← canBeMulAdd b0 b1 a then
      removeUGen (inpObjId b)
      let r ← mkMulAdd b0 b1 a
      return some (← finishRepl self r (inpObjId b))
    if ← canBeMulAdd b1 b0 a then
      removeUGen (inpObjId b)
      let r ← mkMulAdd b1 b0 a
      return some (← finishRepl self r (inpObjId b))
  return none

def optimizeAddNeg (self : Nat) : M (Option Nat) := do
  let so ← getObj self
  let [a, b] := so.inputs | throw .badProgram
  if a = b then return none
  if let some xb ← singleUse b .unop "neg" then
    let [b0] := xb.inputs | throw .badProgram
    removeUGen (inpObjId b)
    let r ← mkBinop "-" a b0
    return some (← finishRepl self r (inpObjId b))
  if let some xa ← singleUse a .unop "neg" then
    let [a0] := xa.inputs | throw .badProgram
    removeUGen (inpObjId a)
    let r ← mkBinop "-" b a0
    return some (← finishRepl self r (inpObjId a))
  return none

def optimizeAdd (self : Nat) : M Unit := do
  let mut r ← optimizeToSum3 self
  if r.isNone then r ← optimizeToSum4 self
  if r.isNone then r ← optimizeToMulAdd self
  if r.isNone then r ← optimizeAddNeg self
  if let some ro := r then replaceUGen self ro

/-- `obj._optimize_graph()` with the recursion of dead code elimination and of
    `_optimize_sub`.  `fuel` bounds the Python recursion depth. -/
def optimizeObj : Nat → Nat → M Unit
  | 0, _ => throw .fuel
  | fuel + 1, self => do
    let so ← getObj self
    if !so.dce then return
    -- `_perform_dead_code_elimination`
    let ds ← descOf self
    if (ds.getD []).isEmpty then
      for j in List.range so.inputs.length do
        -- `input = self.inputs[j]` is re-read: optimising an input may replace a later one
        match (← getObj self).inputs[j]? with
        | some (.out o _ false) =>   -- an OutputProxy's own `_descendants` is None: skipped
          let x ← getObj o
          if x.isUGen then
            match x.desc with
            | none => pure ()
            | some c =>
              let l ← getCell c
              if !l.isEmpty && self ∈ l then      -- (`self in …`: same input may repeat)
                setCell c (setErase self l)
                optimizeObj fuel o
        | _ => pure ()
      removeUGen self
      return
    if so.kind == .binop && so.op == "+" then
      optimizeAdd self
    else if so.kind == .binop && so.op == "-" then
      -- `_optimize_sub`
      let [a, b] := so.inputs | throw .badProgram
      if a = b then return
      if let some xb ← singleUse b .unop "neg" then
        let [b0] := xb.inputs | throw .badProgram
        removeUGen (inpObjId b)
        let r ← mkBinop "+" a b0
        let ro ← finishRepl self r (inpObjId b)
        replaceUGen self ro
        optimizeObj fuel ro

/-- `_init_topo_sort` (descendants part; antecedents are returned) -/
def initTopoSort : M (Array (List Nat)) := do
  let s ← get
  let kids := s.children.toList.filterMap id
  -- fresh, un-aliased sets for every child
  for o in kids do
    let c ← newCell
    modObj o fun x => { x with desc := some c }
  let mut ante : Array (List Nat) := Array.replicate (← get).objs.size []
  for o in kids do
    let x ← getObj o
    let mut srcs : List Nat := []
    for i in x.inputs do
      match i with
      | .out u _ _ => if (← getObj u).isUGen then srcs := srcs ++ [u]
      | _ => pure ()
    for u in srcs ++ (x.wfa.getD []) do
      if !(kids.contains u) then throw .orphan
      ante := ante.modify o (setInsert u)
      let some c := (← getObj u).desc | throw .attrError
      setCell c (setInsert o (← getCell c))
  pure ante

/-- `_optimize_graph` of SynthDef -/
def optimizeGraph : M Unit := do
  let _ ← initTopoSort
  modify fun s => { s with rewriting := true }
  let snapshot := (← get).children
  let fuel := 4 * ((← get).objs.size + 4)
  for c in snapshot do
    match c with
    | some o => optimizeObj fuel o
    | none => pure ()
  modify fun s => { s with rewriting := false }
  let s ← get
  let kept := s.children.filter Option.isSome
  set { s with children := kept }
  if kept.size != s.children.size then
    let mut i : Int := 0
    for c in kept do
      if let some o := c then modObj o fun x => { x with synthIndex := i }
      i := i + 1

/-- sort object ids by `_synth_index` (unique among children) -/
def insertByIdx (objs : Array Obj) (x : Nat) : List Nat → List Nat
  | [] => [x]
  | y :: ys => if (objs[x]?.map (·.synthIndex)).getD 0 < (objs[y]?.map (·.synthIndex)).getD 0
               then x :: y :: ys else y :: insertByIdx objs x ys

/-- `ugen._remove_antecedent(o)` for one descendant `d`: `_antecedents.remove(o)` (KeyError
    if absent) and `_make_available()`.  State = (remaining antecedent sets, `_available`). -/
def removeAnte (o : Nat) (st : (Nat → List Nat) × List Nat) (d : Nat) :
    Except Err ((Nat → List Nat) × List Nat) :=
  let l := st.1 d
  if o ∈ l then
    let l' := setErase o l
    .ok ((fun x => if x = d then l' else st.1 x), if l'.isEmpty then st.2 ++ [d] else st.2)
  else .error .keyError

def removeAll (o : Nat) : List Nat → (Nat → List Nat) × List Nat →
    Except Err ((Nat → List Nat) × List Nat)
  | [], st => .ok st
  | d :: ds, st =>
    match removeAnte o st d with
    | .ok st' => removeAll o ds st'
    | .error e => .error e

/-- the `while len(self._available) > 0` loop of `_topological_sort`.
    `order o` is the sequence in which `_arrange` visits the descendants of `o`
    (`reversed(sorted(descendants, key=_synth_index))` in the code — the theorems hold for
    every enumeration).  `fuel` = number of children + 1 (a unit becomes available at most
    once). -/
def topoLoop (order : Nat → List Nat) :
    Nat → (Nat → List Nat) → List Nat → List Nat → Except Err (List Nat)
  | 0, _, _, out => .ok out
  | fuel + 1, ante, avail, out =>
    match avail.getLast? with
    | none => .ok out
    | some o =>
      match removeAll o (order o) (ante, avail.dropLast) with
      | .ok st => topoLoop order fuel st.1 st.2 (out ++ [o])
      | .error e => .error e

/-- `_topological_sort` + `_index_ugens` -/
def topoSort : M Unit := do
  let anteA ← initTopoSort
  let s ← get
  let kids := s.children.toList.filterMap id
  let ante := fun o => anteA[o]?.getD []
  -- `for ugen in reversed(children): ugen._make_available()`; `_available` is a stack
  let avail := kids.reverse.filter fun o => (ante o).isEmpty
  let desc := fun (o : Nat) => match (s.objs[o]?).bind (fun (x : Obj) => x.desc) with
    | some c => s.cells[c]?.getD []
    | none => []
  let order := fun o => ((desc o).foldl (fun acc x => insertByIdx s.objs x acc) []).reverse
  match topoLoop order (kids.length + 1) ante avail [] with
  | .error e => throw e
  | .ok out =>
    set { s with children := (out.map some).toArray }
    let mut i : Int := 0
    for o in out do
      modObj o fun x => { x with synthIndex := i }
      i := i + 1

/-! ### checks, constants, emission -/

def checkValid (x : Obj) : Option String :=
  if x.inputs.any (· == .bad) then some "bad input" else none

def checkObj (x : Obj) : M (Option String) := do
  match x.check with
  | .valid => pure (checkValid x)
  | .out fixed =>
    if x.rate == .audio then
      for i in x.inputs.drop fixed do
        if (← inpRate i) != some .audio then return some "not audio rate"
      pure (checkValid x)
    else if x.inputs.length ≤ fixed then pure (some "missing input")
    else pure (checkValid x)
  | .nAudio n =>
    if x.rate == .audio then
      for i in x.inputs.take n do
        if (← inpRate i) != some .audio then return some "not audio rate"
    pure (checkValid x)
  | .srFirst =>
    match x.inputs with
    | [] => throw .keyError
    | i :: _ => if (← inpRate i) != some x.rate then pure (some "first input rate") else pure (checkValid x)
  | .duty =>
    match x.inputs with
    | d :: r :: _ =>
      if (← inpRate d) == some Rate.demand then
        let rr ← inpRate r
        if rr != some Rate.demand && rr != some Rate.scalar && rr != some x.rate then pure (some "reset rate")
        else pure (checkValid x)
      else pure (checkValid x)
    | _ => throw .keyError

structure Unit' where
  cls : String
  rate : Nat
  special : Int
  inputs : List (Int × Nat)     -- (-1, const index) or (unit index, output index)
  outs : List Nat               -- output rates
deriving Repr, DecidableEq

structure Def where
  consts : List Rat
  controls : List Rat
  units : List Unit'
deriving Repr, DecidableEq

def finishBuild : M Def := do
  optimizeGraph
  -- `_collect_constants`
  let kids := (← get).children.toList.filterMap id
  let mut consts : List Rat := []
  for o in kids do
    for i in (← getObj o).inputs do
      if let .num q := i then
        if !consts.contains q then consts := consts ++ [q]
  -- `_check_inputs`
  let mut firstErr : Option String := none
  for o in kids do
    if let some e ← checkObj (← getObj o) then
      if firstErr.isNone then firstErr := some e
  if let some e := firstErr then throw (.valueError e)
  topoSort
  let kids := (← get).children.toList.filterMap id
  let mut units : List Unit' := []
  for o in kids do
    let x ← getObj o
    let mut ins : List (Int × Nat) := []
    for i in x.inputs do
      match i with
      | .num q =>
        match consts.idxOf? q with
        | some k => ins := ins ++ [((-1 : Int), k)]
        | none => throw .keyError
      | .out u k _ => ins := ins ++ [((← getObj u).synthIndex, k)]
      | .bad => throw .typeError
    units := units ++ [{ cls := x.cls, rate := x.rate.num, special := x.special, inputs := ins,
                         outs := List.replicate x.nOut x.rate.num }]
  pure { consts := consts, controls := (← get).controls, units := units }

/-! ### programs -/

inductive Arg where
  | num (q : Rat) | ref (ev : Nat) (k : Nat) | bad
deriving Repr, DecidableEq

structure AtomSpec where
  cls : String
  rate : Rate
  dce : Bool          -- PureUGenMixin
  multi : Bool        -- MultiOutUGen (results are OutputProxies)
  nOut : Nat
  isUGen : Bool := true
  widthFirst : Bool := false
  check : Check := .valid
  ret : Bool := true  -- the constructor returns the unit (RandSeed/RandID/Out return None)
deriving Repr

inductive OutMode where
  | ar | kr | auto
deriving Repr, DecidableEq

inductive Ev where
  | atom (s : AtomSpec) (ins : List Arg)
  | control (rate : Rate) (vals : List Rat)
  | unop (op : String) (a : Arg)
  | binop (op : String) (a b : Arg)
  | madd (a m c : Arg)
  /-- `Sum3.new(a, b, c)` / `Sum4.new(a, b, c, d)` called directly (as `Mix` does) -/
  | sum3 (a b c : Arg)
  | sum4 (a b c d : Arg)
  /-- `cls.ar(bus, chans)` / `cls.kr(bus, chans)` of an `AbstractOut` class (Out, ReplaceOut);
      `auto`: the graph function picks `.ar` when the first channel is audio rate, else `.kr` -/
  | out (cls : String) (mode : OutMode) (bus : Arg) (chans : List Arg)
  /-- `LocalBuf.new(frames, channels)` -/
  | localbuf (frames channels : Arg)
deriving Repr

/-- results of the events so far: the list of channel values each returned -/
def resolve (env : Array (List Inp)) : Arg → M Inp
  | .num q => pure (.num q)
  | .bad => pure .bad
  | .ref e k =>
    match (env[e]?.getD [])[k]? with
    | some v => pure v
    | none => throw .badProgram

def runEv (env : Array (List Inp)) : Ev → M (List Inp)
  | .atom sp ins => do
    let vs ← ins.mapM (resolve env)
    let o ← newObj { cls := sp.cls, kind := .atom, rate := sp.rate, inputs := vs, nOut := sp.nOut,
                     isUGen := sp.isUGen, dce := sp.dce, check := sp.check } sp.widthFirst
    if sp.multi then pure ((List.range sp.nOut).map fun k => .out o k true)
    else if !sp.ret then pure []
    else pure [.out o 0 false]
  | .control rate vals => do
    let idx := (← get).controls.length
    let o ← newObj { cls := "Control", kind := .atom, rate := rate, inputs := [], nOut := vals.length,
                     special := idx }
    modify fun s => { s with controls := s.controls ++ vals }
    pure ((List.range vals.length).map fun k => .out o k true)
  | .unop sel a => do
    -- `_compose_unop`: `selector = _si.sc_opname(selector.__name__)`
    let some op := scOpname sel | throw .badOp
    let v ← resolve env a
    match v with
    | .num q => if op == "neg" then pure [.num (-q)] else pure [.num q]
    | .bad => throw .typeError
    | _ => pure [← mkUnop op v]
  | .binop sel a b => do
    let some op := scOpname sel | throw .badOp
    pure [← pyArith op (← resolve env a) (← resolve env b)]
  | .madd a m c => do
    let va ← resolve env a
    let vm ← resolve env m
    let vc ← resolve env c
    match va with
    | .out .. => pure [← mkMulAdd va vm vc]
    | _ => do
      let p ← pyArith "*" va vm
      pure [← pyArith "+" p vc]
  | .sum3 a b c => do
    pure [← mkSum3 (← resolve env a) (← resolve env b) (← resolve env c)]
  | .sum4 a b c d => do
    pure [← mkSum4 (← resolve env a) (← resolve env b) (← resolve env c) (← resolve env d)]
  | .out .. => throw .badProgram     -- handled by `runEv'`
  | .localbuf .. => throw .badProgram

/-- `Out.ar(bus, output)`: `_replace_zeroes_with_silence` first creates one `DC.ar(0)`
    (a pure multi-out unit, returned as its OutputProxy) and substitutes it for every literal
    zero of the channel list; then `_multi_new('audio', bus, *output)`. `Out.kr` passes the
    channels through. No list arguments here, so no expansion (that is C03). -/
def runOut (cls : String) (mode : OutMode) (bus : Inp) (chans : List Inp) : M (List Inp) := do
  let audio ← match mode with
    | .ar => pure true
    | .kr => pure false
    | .auto => match chans with
      | c :: _ => do pure ((← inpRate c) == some Rate.audio)
      | [] => pure false
  if audio then
    let dc ← newObj { cls := "DC", kind := .atom, rate := .audio, inputs := [.num 0], nOut := 1,
                      dce := true }
    let silence := Inp.out dc 0 true
    let chans := chans.map fun c => if isNum c 0 then silence else c
    let _ ← newObj { cls := cls, kind := .atom, rate := .audio, inputs := bus :: chans, nOut := 0,
                     isUGen := false, check := .out 1 }
    pure []
  else
    let _ ← newObj { cls := cls, kind := .atom, rate := .control, inputs := bus :: chans, nOut := 0,
                     isUGen := false, check := .out 1 }
    pure []

/-- `LocalBuf._new1`: the first local buffer of a definition creates the `MaxLocalBufs` unit
    (`MaxLocalBufs.new()` = `_multi_new('scalar', 0)`), every local buffer increments its
    (only) input in place, then the LocalBuf unit — a width-first SynthObject, not a UGen —
    is created with inputs (channels, frames, max_local_bufs). -/
def runLocalBuf (frames channels : Inp) : M (List Inp) := do
  let mlb ← match (← get).maxLocalBufs with
    | some o => pure o
    | none => do
      let o ← newObj { cls := "MaxLocalBufs", kind := .atom, rate := .scalar, inputs := [.num 0] }
      modify fun s => { s with maxLocalBufs := some o }
      pure o
  modObj mlb fun x => { x with inputs := x.inputs.map fun i =>
    match i with | .num q => .num (q + 1) | j => j }
  let o ← newObj { cls := "LocalBuf", kind := .atom, rate := .scalar,
                   inputs := [channels, frames, .out mlb 0 false], isUGen := false } true
  pure [.out o 0 false]

def runEv' (env : Array (List Inp)) : Ev → M (List Inp)
  | .localbuf fr ch => do runLocalBuf (← resolve env fr) (← resolve env ch)
  | .out cls mode bus chans => do
    runOut cls mode (← resolve env bus) (← chans.mapM (resolve env))
  | e => runEv env e

/-- everything the translation validator needs besides the emitted definition -/
structure BuildInfo where
  objs0 : List Obj            -- object heap after the constructor calls, before optimisation
  children0 : List Nat        -- `_children` at that moment
  origins : List Nat          -- object id of each emitted unit, in emitted order
  evObjs : List (List Nat)    -- objects created by each event (in creation order)
deriving Repr

def runProgInfo (evs : List Ev) : M (Def × BuildInfo) := do
  let mut env : Array (List Inp) := #[]
  let mut evObjs : List (List Nat) := []
  for e in evs do
    let n0 := (← get).objs.size
    env := env.push (← runEv' env e)
    let n1 := (← get).objs.size
    evObjs := evObjs ++ [(List.range (n1 - n0)).map (· + n0)]
  let s ← get
  let objs0 := s.objs.toList
  let children0 := s.children.toList.filterMap id
  let d ← finishBuild
  let origins := (← get).children.toList.filterMap id
  pure (d, { objs0 := objs0, children0 := children0, origins := origins, evObjs := evObjs })

def runProg (evs : List Ev) : M Def := do
  pure (← runProgInfo evs).1

def compile (evs : List Ev) : Except Err Def :=
  (runProg evs).run' {}

def compileInfo (evs : List Ev) : Except Err (Def × BuildInfo) :=
  (runProgInfo evs).run' {}

end Sc3Verif.C01
