/-
C01 — helper lemmas.
-/
import Sc3Verif.C01.Spec
import Mathlib.Tactic.Ring
import Mathlib.Tactic.FieldSimp
import Mathlib.Tactic.Linarith
namespace Sc3Verif.C01

theorem isNum_den {ρ : Nat → Nat → Rat} {i : Inp} {q : Rat} (h : isNum i q = true) :
    denInp ρ i = q := by
  cases i with
  | num x => simp [isNum] at h; simp [denInp, h]
  | out o k p => simp [isNum] at h
  | bad => simp [isNum] at h

theorem binopPlan_sound' (ρ : Nat → Nat → Rat) (op : String) (a b : Inp)
    (hop : op = "+" ∨ op = "-" ∨ op = "*" ∨ op = "/") :
    planDen ρ (binSem op (denInp ρ a) (denInp ρ b)) (binopPlan op a b)
      = binSem op (denInp ρ a) (denInp ρ b) := by
  unfold binopPlan
  split
  · rfl
  · rcases hop with rfl | rfl | rfl | rfl
    · -- "+"
      simp only [show ("+" == "*") = false by decide, show ("+" == "+") = true by decide]
      simp only [Bool.false_eq_true, if_false, if_true]
      split
      · rename_i h; simp [planDen, binSem, isNum_den h]
      · split
        · rename_i h; simp [planDen, binSem, isNum_den h]
        · rfl
    · -- "-"
      simp only [show ("-" == "*") = false by decide, show ("-" == "+") = false by decide,
        show ("-" == "-") = true by decide]
      simp only [Bool.false_eq_true, if_false, if_true]
      split
      · rename_i h; simp [planDen, binSem, isNum_den h]
      · split
        · rename_i h; simp [planDen, binSem, isNum_den h]
        · rfl
    · -- "*"
      simp only [show ("*" == "*") = true by decide, if_true]
      split
      · rename_i h
        have h0 : denInp ρ a = 0 := isNum_den h
        simp [planDen, binSem, h0]; rfl
      · split
        · rename_i h
          have h0 : denInp ρ b = 0 := isNum_den h
          simp [planDen, binSem, h0]; rfl
        · split
          · rename_i h; simp [planDen, binSem, isNum_den h]
          · split
            · rename_i h; simp [planDen, binSem, isNum_den h]
            · split
              · rename_i h; simp [planDen, binSem, isNum_den h]
              · split
                · rename_i h; simp [planDen, binSem, isNum_den h]
                · rfl
    · -- "/"
      simp only [show ("/" == "*") = false by decide, show ("/" == "+") = false by decide,
        show ("/" == "-") = false by decide, show ("/" == "/") = true by decide]
      simp only [Bool.false_eq_true, if_false, if_true]
      split
      · rename_i h; simp [planDen, binSem, isNum_den h]
      · split
        · rename_i h; simp [planDen, binSem, isNum_den h]; exact (div_neg (denInp ρ a) (b := 1) ▸ by simp)
        · rfl

theorem mulAddPlan_sound' (ρ : Nat → Nat → Rat) (i m a : Inp) (c1 c2 : Bool) :
    maPlanDen ρ (mulAddPlan i m a c1 c2) = denInp ρ i * denInp ρ m + denInp ρ a := by
  unfold mulAddPlan
  split
  · rename_i h; simp [maPlanDen, isNum_den h]
  · simp only
    by_cases h1 : isNum m 1 = true <;> by_cases h0 : isNum a 0 = true <;>
      by_cases hm : isNum m (-1) = true
    all_goals simp only [h1, h0, hm, Bool.true_and, Bool.and_true, Bool.false_and, Bool.and_false,
      if_true, if_false, Bool.false_eq_true]
    all_goals first
      | (simp [maPlanDen, isNum_den h1, isNum_den h0]; done)
      | (simp [maPlanDen, isNum_den hm, isNum_den h0]; done)
      | (simp [maPlanDen, isNum_den h0]; done)
      | (simp [maPlanDen, isNum_den hm]; ring)
      | (simp [maPlanDen, isNum_den h1]; done)
      | (cases c1 <;> cases c2 <;> simp [maPlanDen] <;> ring)

theorem sum3Plan_sound' (ρ : Nat → Nat → Rat) (a b c : Inp) :
    sumPlanDen ρ (sum3Plan a b c) = denInp ρ a + denInp ρ b + denInp ρ c := by
  unfold sum3Plan
  split
  · rename_i h; simp [sumPlanDen, isNum_den h]
  · split
    · rename_i h; simp [sumPlanDen, isNum_den h]
    · split
      · rename_i h; simp [sumPlanDen, isNum_den h]
      · rfl

theorem sum4Plan_sound' (ρ : Nat → Nat → Rat) (a b c d : Inp) :
    sumPlanDen ρ (sum4Plan a b c d) = denInp ρ a + denInp ρ b + denInp ρ c + denInp ρ d := by
  unfold sum4Plan
  split
  · rename_i h; rw [sum3Plan_sound', isNum_den h]; ring
  · split
    · rename_i h; rw [sum3Plan_sound', isNum_den h]; ring
    · split
      · rename_i h; rw [sum3Plan_sound', isNum_den h]; ring
      · split
        · rename_i h; rw [sum3Plan_sound', isNum_den h]; ring
        · rfl

theorem insertByRate_perm (x : Inp × Nat) (l : List (Inp × Nat)) :
    (insertByRate x l).Perm (x :: l) := by
  induction l with
  | nil => simp [insertByRate]
  | cons y ys ih =>
    unfold insertByRate; split
    · exact List.Perm.refl _
    · exact (List.Perm.cons y ih).trans (List.Perm.swap _ _ _)

theorem sortFold_perm_aux (l acc : List (Inp × Nat)) :
    (l.foldl (fun acc x => insertByRate x acc) acc).Perm (l.reverse ++ acc) := by
  induction l generalizing acc with
  | nil => simp
  | cons x xs ih =>
    simp only [List.foldl_cons, List.reverse_cons, List.append_assoc, List.singleton_append]
    exact (ih _).trans (List.Perm.append_left _ (insertByRate_perm x acc))

theorem sortFold_perm (l : List (Inp × Nat)) :
    (l.foldl (fun acc x => insertByRate x acc) []).Perm l := by
  have := sortFold_perm_aux l []
  simp only [List.append_nil] at this
  exact this.trans (List.reverse_perm l)


def rateMax' (a b : Rate) : Rate := if a.num < b.num then b else a

theorem minRateName_eq (m : Rate) (rs : List Rate) (hm : m ≠ .demand) (h : ∀ x ∈ rs, x ≠ .demand) :
    minRateName m rs = rs.foldl rateMax' m := by
  induction rs generalizing m with
  | nil => rfl
  | cons x xs ih =>
    have hx : x ≠ .demand := h x (by simp)
    have hstep : (if x.nameOrd < m.nameOrd then x else m) = rateMax' m x := by
      cases m <;> cases x <;> simp_all [Rate.nameOrd, Rate.num, rateMax']
    simp only [minRateName, List.foldl_cons, hstep]
    apply ih
    · unfold rateMax'; split <;> assumption
    · intro y hy; exact h y (by simp [hy])

end Sc3Verif.C01
