/-
C01 — reference tables and the arithmetic meaning of operator units.

`serverUnary` / `serverBinary`: operator names in the order of the `enum`s of the
SuperCollider server's `Opcodes.h` (the special index of UnaryOpUGen / BinaryOpUGen is the
position in this list).  Transcribed by hand; this is the specification the generated
tables of `sc3/synth/_specialindex.py` are compared with.
-/
import Sc3Verif.C01.Model
namespace Sc3Verif.C01

def serverUnary : List String :=
  ["neg", "not", "isNil", "notNil", "bitNot", "abs", "asFloat", "asInteger", "ceil", "floor",
   "frac", "sign", "squared", "cubed", "sqrt", "exp", "reciprocal", "midicps", "cpsmidi",
   "midiratio", "ratiomidi", "dbamp", "ampdb", "octcps", "cpsoct", "log", "log2", "log10",
   "sin", "cos", "tan", "asin", "acos", "atan", "sinh", "cosh", "tanh", "rand", "rand2",
   "linrand", "bilinrand", "sum3rand", "distort", "softclip", "coin", "digitValue",
   "silence", "thru", "rectWindow", "hanWindow", "welWindow", "triWindow", "ramp", "scurve"]

def serverBinary : List String :=
  ["+", "-", "*", "div", "/", "mod", "==", "!=", "<", ">", "<=", ">=", "min", "max", "bitAnd",
   "bitOr", "bitXor", "lcm", "gcd", "round", "roundUp", "trunc", "atan2", "hypot", "hypotApx",
   "pow", "leftShift", "rightShift", "unsignedRightShift", "fill", "ring1", "ring2", "ring3",
   "ring4", "difsqr", "sumsqr", "sqrsum", "sqrdif", "absdif", "thresh", "amclip", "scaleneg",
   "clip2", "excess", "fold2", "wrap2", "firstArg", "rrand", "exprand"]

/-- Value of an input under a valuation of unit outputs. -/
def denInp (ρ : Nat → Nat → Rat) : Inp → Rat
  | .num q => q
  | .out o k _ => ρ o k
  | .bad => 0

/-- arithmetic meaning of the four ring operators (division by zero is never produced by a
    shortcut: the `/` shortcuts divide by 1 or -1) -/
def binSem (op : String) (x y : Rat) : Rat :=
  if op == "+" then x + y else if op == "-" then x - y else if op == "*" then x * y else x / y

def planDen (ρ : Nat → Nat → Rat) (generic : Rat) : Plan → Rat
  | .ret i => denInp ρ i
  | .neg i => - denInp ρ i
  | .generic => generic

def maPlanDen (ρ : Nat → Nat → Rat) : MAPlan → Rat
  | .ret i => denInp ρ i
  | .neg i => - denInp ρ i
  | .mul i m => denInp ρ i * denInp ρ m
  | .sub a i => denInp ρ a - denInp ρ i
  | .add i a => denInp ρ i + denInp ρ a
  | .muladd i m a => denInp ρ i * denInp ρ m + denInp ρ a
  | .mulThenAdd i m a => denInp ρ i * denInp ρ m + denInp ρ a

def sumPlanDen (ρ : Nat → Nat → Rat) : SumPlan → Rat
  | .add2 a b => denInp ρ a + denInp ρ b
  | .sum3 a b c => denInp ρ a + denInp ρ b + denInp ρ c
  | .sum4 a b c d => denInp ρ a + denInp ρ b + denInp ρ c + denInp ρ d

end Sc3Verif.C01
