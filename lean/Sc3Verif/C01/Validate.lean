/-
C01 — translation validation: a checker that decides whether an emitted definition denotes
the source graph, with a soundness theorem (`ValidateLemmas.lean`, `Props.lean`).

* A *ring program* is a list of nodes, each referring to earlier nodes: variables (outputs
  of opaque units), negation, +, −, ×, MulAdd, Sum3, Sum4 over rational constants.
  `denote ρ` evaluates it under a valuation ρ of the variables; `polys` computes a
  polynomial per node.
* `srcProg` reads the source graph (the object heap after the constructor calls, before
  optimisation) as a ring program: operator objects neg/+/−/×/MulAdd/Sum3/Sum4 are ring
  nodes, every other object ("atom-like": unit-generator constructors, controls, opaque
  operators such as pow or /) contributes one variable per output.  THIS IS THE DEFINITION
  OF WHAT THE GRAPH FUNCTION MEANS.
* `emProg` reads the emitted unit list the same way (operator units are recognised by
  class name and server opcode; an atom-like unit needs an *origin*: the source object it
  claims to be).
* `validate` checks: every atom-like emitted unit has an origin of the same class, rate,
  special index and output count whose source inputs are polynomially equal to the emitted
  inputs; origins are pairwise distinct; every side-effecting source unit is the origin of
  some emitted unit.
Core Lean only.
-/
import Sc3Verif.C01.Model
import Sc3Verif.C01.Poly
namespace Sc3Verif.C01

inductive RArg where
  | ref (i : Nat) | const (q : Rat)
deriving Repr, DecidableEq

inductive RNode where
  | var (v : Nat)
  | neg (a : RArg) | add (a b : RArg) | sub (a b : RArg) | mul (a b : RArg)
  | muladd (a b c : RArg) | sum3 (a b c : RArg) | sum4 (a b c d : RArg)
deriving Repr, DecidableEq

abbrev RProg := List RNode

def argVal (vals : List Rat) : RArg → Rat
  | .ref i => vals.getD i 0
  | .const q => q

def nodeVal (ρ : Nat → Rat) (vals : List Rat) : RNode → Rat
  | .var v => ρ v
  | .neg a => - argVal vals a
  | .add a b => argVal vals a + argVal vals b
  | .sub a b => argVal vals a - argVal vals b
  | .mul a b => argVal vals a * argVal vals b
  | .muladd a b c => argVal vals a * argVal vals b + argVal vals c
  | .sum3 a b c => argVal vals a + argVal vals b + argVal vals c
  | .sum4 a b c d => argVal vals a + argVal vals b + argVal vals c + argVal vals d

/-- values of all nodes, in order -/
def denoteFrom (ρ : Nat → Rat) (vals : List Rat) : RProg → List Rat
  | [] => vals
  | n :: rest => denoteFrom ρ (vals ++ [nodeVal ρ vals n]) rest

def denote (ρ : Nat → Rat) (p : RProg) : List Rat := denoteFrom ρ [] p

def argPoly (ps : List Poly) : RArg → Poly
  | .ref i => ps.getD i []
  | .const q => Poly.const q

def nodePoly (ps : List Poly) : RNode → Poly
  | .var v => Poly.var v
  | .neg a => (argPoly ps a).neg
  | .add a b => (argPoly ps a).add (argPoly ps b)
  | .sub a b => (argPoly ps a).sub (argPoly ps b)
  | .mul a b => (argPoly ps a).mul (argPoly ps b)
  | .muladd a b c => ((argPoly ps a).mul (argPoly ps b)).add (argPoly ps c)
  | .sum3 a b c => ((argPoly ps a).add (argPoly ps b)).add (argPoly ps c)
  | .sum4 a b c d => (((argPoly ps a).add (argPoly ps b)).add (argPoly ps c)).add (argPoly ps d)

def polysFrom (ps : List Poly) : RProg → List Poly
  | [] => ps
  | n :: rest => polysFrom (ps ++ [collect (nodePoly ps n)]) rest

/-- size guard used by the driver before it runs the validator: every product stays below `cap`
    terms before collection and every collected polynomial below `cap` symbols.  No theorem is
    needed about it: when it answers `false` the validation is skipped and nothing is claimed. -/
def polySize (p : Poly) : Nat := p.foldl (fun n t => n + t.1.length + 1) 0

def withinBudget (cap : Nat) : List Poly → RProg → Bool
  | _, [] => true
  | ps, n :: rest =>
    let cost := match n with
      | .mul a b => (argPoly ps a).length * (argPoly ps b).length
      | .muladd a b _ => (argPoly ps a).length * (argPoly ps b).length
      | _ => 0
    if cost > cap then false
    else
      let p := collect (nodePoly ps n)
      if polySize p > cap then false else withinBudget cap (ps ++ [p]) rest

def polys (p : RProg) : List Poly := polysFrom [] p

/-- equal under every valuation (decided on the polynomials) -/
def checkEq (pS pE : List Poly) (aE aS : RArg) : Bool :=
  ((argPoly pE aE).sub (argPoly pS aS)).isZero

/-! ### reading graphs as ring programs -/

def varId (o k : Nat) : Nat := o * 64 + k

inductive RingKind where
  | neg | add | sub | mul | muladd | sum3 | sum4
deriving Repr, DecidableEq

/-- operator objects with ring meaning; everything else is atom-like -/
def srcKind (x : Obj) : Option RingKind :=
  match x.kind with
  | .unop => if x.op == "neg" then some .neg else none
  | .binop => if x.op == "+" then some .add else if x.op == "-" then some .sub
              else if x.op == "*" then some .mul else none
  | .muladd => some .muladd
  | .sum3 => some .sum3
  | .sum4 => some .sum4
  | .atom => none

def mkNode (k : RingKind) (args : List RArg) : Option RNode :=
  match k, args with
  | .neg, [a] => some (.neg a)
  | .add, [a, b] => some (.add a b)
  | .sub, [a, b] => some (.sub a b)
  | .mul, [a, b] => some (.mul a b)
  | .muladd, [a, b, c] => some (.muladd a b c)
  | .sum3, [a, b, c] => some (.sum3 a b c)
  | .sum4, [a, b, c, d] => some (.sum4 a b c d)
  | _, _ => none

/-- first node index of every object / unit: running sum of node counts -/
def bases (counts : List Nat) : List Nat :=
  (counts.foldl (fun (acc : List Nat × Nat) c => (acc.1 ++ [acc.2], acc.2 + c)) ([], 0)).1

/-- number of ring-program nodes an object contributes -/
def srcCount (x : Obj) : Nat := match srcKind x with | some _ => 1 | none => x.nOut

def srcArg (base : List Nat) : Inp → RArg
  | .num q => .const q
  | .out o k _ => .ref (base.getD o 0 + k)
  | .bad => .const 0

def srcNodes (base : List Nat) (o : Nat) (x : Obj) : Option (List RNode) :=
  match srcKind x with
  | some k => (mkNode k (x.inputs.map (srcArg base))).map fun n => [n]
  | none => some ((List.range x.nOut).map fun k => .var (varId o k))

def optConcat {α : Type} : List (Option (List α)) → Option (List α)
  | [] => some []
  | none :: _ => none
  | some x :: rest => (optConcat rest).map (x ++ ·)

/-- the source graph as a ring program -/
def srcProg (objs : List Obj) : Option RProg :=
  let base := bases (objs.map srcCount)
  optConcat (objs.zipIdx.map fun (x, o) => srcNodes base o x)

/-- an emitted unit with its claimed origin (source object id) -/
structure EUnit where
  cls : String
  rate : Nat
  special : Int
  inputs : List (Int × Nat)
  nOut : Nat
  origin : Option Nat
deriving Repr

def emKind (u : EUnit) : Option RingKind :=
  if u.cls == "UnaryOpUGen" then (if u.special == 0 then some .neg else none)
  else if u.cls == "BinaryOpUGen" then
    (if u.special == 0 then some .add else if u.special == 1 then some .sub
     else if u.special == 2 then some .mul else none)
  else if u.cls == "MulAdd" then some .muladd
  else if u.cls == "Sum3" then some .sum3
  else if u.cls == "Sum4" then some .sum4
  else none

def emCount (u : EUnit) : Nat := match emKind u with | some _ => 1 | none => u.nOut

def emArg (consts : List Rat) (base : List Nat) (a : Int × Nat) : RArg :=
  if a.1 < 0 then .const (consts.getD a.2 0) else .ref (base.getD a.1.toNat 0 + a.2)

def emNodes (consts : List Rat) (base : List Nat) (u : EUnit) : Option (List RNode) :=
  match emKind u with
  | some k => (mkNode k (u.inputs.map (emArg consts base))).map fun n => [n]
  | none =>
    match u.origin with
    | some o => some ((List.range u.nOut).map fun k => .var (varId o k))
    | none => none

def emProg (consts : List Rat) (units : List EUnit) : Option RProg :=
  let base := bases (units.map emCount)
  optConcat (units.map (emNodes consts base))

/-! ### the validator -/

/-- per-unit check of an atom-like emitted unit against its origin -/
def unitOk (objs : List Obj) (baseS baseE : List Nat) (pS pE : List Poly) (consts : List Rat)
    (u : EUnit) : Bool :=
  match emKind u with
  | some _ => true
  | none =>
    match u.origin with
    | none => false
    | some o =>
      match objs[o]? with
      | none => false
      | some x =>
        (srcKind x).isNone && x.cls == u.cls && x.rate.num == u.rate && x.special == u.special
          && x.nOut == u.nOut && u.nOut ≤ 64 && x.inputs.length == u.inputs.length
          && (u.inputs.zip x.inputs).all fun p =>
               checkEq pS pE (emArg consts baseE p.1) (srcArg baseS p.2)

def atomOrigins (units : List EUnit) : List Nat :=
  units.filterMap fun u => if (emKind u).isNone then u.origin else none

/-- every input of a source object refers to an object created earlier (so `denote` of the
    source program is a well-founded evaluation, no node reads a not-yet-computed value) -/
def srcBackward (objs : List Obj) : Bool :=
  objs.zipIdx.all fun p => p.1.inputs.all fun i =>
    match i with
    | .out o' _ _ => decide (o' < p.2)
    | _ => true

/-- every input of an emitted unit is a constant in range or an existing output of a unit
    placed strictly earlier -/
def emBackward (nConsts : Nat) (units : List EUnit) : Bool :=
  units.zipIdx.all fun p => p.1.inputs.all fun a =>
    if a.1 < 0 then decide (a.2 < nConsts)
    else decide (a.1.toNat < p.2) && decide (a.2 < (units[a.1.toNat]?.map (·.nOut)).getD 0)

/-- `objs`: the object heap after the constructor calls (before optimisation);
    `must`: the ids of the side-effecting atom-like objects of the definition
    (`_children` before optimisation, minus those whose `_optimize_graph` may drop them) -/
def validate (objs : List Obj) (must : List Nat) (consts : List Rat) (units : List EUnit) : Bool :=
  match srcProg objs, emProg consts units with
  | some sp, some ep =>
    let pS := polys sp
    let pE := polys ep
    let baseS := bases (objs.map srcCount)
    let baseE := bases (units.map emCount)
    srcBackward objs && emBackward consts.length units
      && units.all (unitOk objs baseS baseE pS pE consts)
      && (atomOrigins units).Nodup
      && must.all fun o => (atomOrigins units).contains o
  | _, _ => false

end Sc3Verif.C01
