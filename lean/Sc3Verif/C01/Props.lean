/-
C01 — SynthDef compilation preserves the meaning of the graph function: property theorems.
-/
import Sc3Verif.C01.Lemmas
namespace Sc3Verif.C01

/-! ### each operator carries the server opcode of that operator -/

/-- The canonical names of the regenerated operator tables are the server's opcode
    enumerations, entry by entry (54 unary, 49 binary). -/
theorem opcode_table :
    unopsList.map (·.headD "") = serverUnary ∧ binopsList.map (·.headD "") = serverBinary := by
  constructor <;> decide +kernel

/-- Every name under which an operator can be requested (canonical server name, Python dunder
    and `operator`-module aliases) resolves to the position of its own table row, i.e. to the
    server opcode of that operator, and to its canonical name. -/
theorem every_alias_same_index :
    (∀ p ∈ unopsList.zipIdx, ∀ name ∈ p.1, spindexOpname name = some (p.2, p.1.headD "")) ∧
    (∀ p ∈ binopsList.zipIdx, ∀ name ∈ p.1, spindexOpname name = some (p.2, p.1.headD "")) := by
  constructor <;> decide +kernel

/-! ### constructor shortcuts are ring identities -/

/-- Whatever `BinaryOpUGen._new1` returns instead of building the unit has the value of the
    un-shortcut operation, for every valuation of the unit outputs (neutral and absorbing
    constants, `x * -1 = -x`, `0 - x = -x`, `x / -1 = -x`). -/
theorem binopPlan_sound (ρ : Nat → Nat → Rat) (op : String) (a b : Inp)
    (hop : op = "+" ∨ op = "-" ∨ op = "*" ∨ op = "/") :
    planDen ρ (binSem op (denInp ρ a) (denInp ρ b)) (binopPlan op a b)
      = binSem op (denInp ρ a) (denInp ρ b) :=
  binopPlan_sound' ρ op a b hop

/-- `MulAdd._new1`: every branch denotes `input * mul + add`. -/
theorem mulAddPlan_sound (ρ : Nat → Nat → Rat) (i m a : Inp) (c1 c2 : Bool) :
    maPlanDen ρ (mulAddPlan i m a c1 c2) = denInp ρ i * denInp ρ m + denInp ρ a :=
  mulAddPlan_sound' ρ i m a c1 c2

/-- `Sum3._new1` / `Sum4._new1`: dropping literal zeros keeps the sum. -/
theorem sum3Plan_sound (ρ : Nat → Nat → Rat) (a b c : Inp) :
    sumPlanDen ρ (sum3Plan a b c) = denInp ρ a + denInp ρ b + denInp ρ c :=
  sum3Plan_sound' ρ a b c

theorem sum4Plan_sound (ρ : Nat → Nat → Rat) (a b c d : Inp) :
    sumPlanDen ρ (sum4Plan a b c d) = denInp ρ a + denInp ρ b + denInp ρ c + denInp ρ d :=
  sum4Plan_sound' ρ a b c d

/-- Sorting the inputs of a fused sum by rate name only permutes them. -/
theorem sum_inputs_permuted (l : List (Inp × Nat)) :
    (l.foldl (fun acc x => insertByRate x acc) []).Perm l :=
  sortFold_perm l

/-! ### each arithmetic unit runs at the highest rate among its inputs -/

/-- rate order of the server: scalar < control < audio < demand -/
abbrev rateMax := rateMax'

/-- `_determine_rate` ("order matters") is the maximum of the two input rates. -/
theorem determineRate_is_max (ra rb : Option Rate) :
    determineRateP ra rb = rateMax (ra.getD .scalar) (rb.getD .scalar) := by
  cases ra with
  | none => cases rb with
    | none => rfl
    | some b => cases b <;> rfl
  | some a => cases rb with
    | none => cases a <;> rfl
    | some b => cases a <;> cases b <;> rfl

/-- The list rule (minimum of the rate *names* in string order) is the maximum rate
    — for the rates that can be mixed in an arithmetic unit's inputs.  `demand` is
    alphabetically between `control` and `scalar`, so with an audio input the rule yields
    `audio`: stated for demand-free inputs (as `MulAdd`, `Sum3`, `Sum4` require: the
    optimiser refuses demand-rate inputs). -/
theorem listRate_is_max (r : Rate) (rs : List Rate) (h : ∀ x ∈ r :: rs, x ≠ .demand) :
    listRateP (r :: rs) = some (rs.foldl rateMax r) := by
  simp only [listRateP]
  rw [minRateName_eq r rs (h r (by simp)) (fun x hx => h x (by simp [hx]))]

/-! non-vacuity -/
example : binopPlan "*" (.out 3 0 false) (.num (-1)) = .neg (.out 3 0 false) := by decide
example : mulAddPlan (.out 1 0 false) (.num 1) (.num 0) true true = .ret (.out 1 0 false) := by decide
example : sum4Plan (.out 1 0 false) (.num 0) (.out 2 0 false) (.num 0)
    = .add2 (.out 1 0 false) (.out 2 0 false) := by decide
example : spindexOpname "__add__" = some (0, "+") := by decide +kernel

end Sc3Verif.C01
