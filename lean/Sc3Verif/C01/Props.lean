/-
C01 — SynthDef compilation preserves the meaning of the graph function: property theorems.
-/
import Sc3Verif.C01.Lemmas
import Sc3Verif.C01.ValidateLemmas
import Sc3Verif.C01.GenClasses
import Sc3Verif.C01.ClassesRef
namespace Sc3Verif.C01

/-! ### each operator carries the server opcode of that operator -/

/-- The canonical names of the regenerated operator tables are the server's opcode
    enumerations, entry by entry (54 unary, 49 binary). -/
theorem opcode_table :
    unopsList.map (·.headD "") = serverUnary ∧ binopsList.map (·.headD "") = serverBinary := by
  constructor <;> decide +kernel

/-- Every name under which an operator can be requested (canonical server name, Python dunder
    and `operator`-module aliases) resolves to the position of its own table row, i.e. to the
    server opcode of that operator, and to its canonical name. -/
theorem every_alias_same_index :
    (∀ p ∈ unopsList.zipIdx, ∀ name ∈ p.1, spindexOpname name = some (p.2, p.1.headD "")) ∧
    (∀ p ∈ binopsList.zipIdx, ∀ name ∈ p.1, spindexOpname name = some (p.2, p.1.headD "")) := by
  constructor <;> decide +kernel

/-! ### which units may be dropped, which order the units created after them -/

/-- The class table read from the code on this run (resolved `_optimize_graph` performs dead code
    elimination or not; `WidthFirstUGen` ancestry) agrees, class by class, with the reference:
    exactly the side-effect-free classes are droppable and exactly the units with ordering side
    effects are width-first (421 classes; classes unknown to the reference are unconstrained). -/
theorem class_flags_table : classTable = classRef := by decide +kernel

/-! ### constructor shortcuts are ring identities -/

/-- Whatever `BinaryOpUGen._new1` returns instead of building the unit has the value of the
    un-shortcut operation, for every valuation of the unit outputs (neutral and absorbing
    constants, `x * -1 = -x`, `0 - x = -x`, `x / -1 = -x`). -/
theorem binopPlan_sound (ρ : Nat → Nat → Rat) (op : String) (a b : Inp)
    (hop : op = "+" ∨ op = "-" ∨ op = "*" ∨ op = "/") :
    planDen ρ (binSem op (denInp ρ a) (denInp ρ b)) (binopPlan op a b)
      = binSem op (denInp ρ a) (denInp ρ b) :=
  binopPlan_sound' ρ op a b hop

/-- `MulAdd._new1`: every branch denotes `input * mul + add`. -/
theorem mulAddPlan_sound (ρ : Nat → Nat → Rat) (i m a : Inp) (c1 c2 : Bool) :
    maPlanDen ρ (mulAddPlan i m a c1 c2) = denInp ρ i * denInp ρ m + denInp ρ a :=
  mulAddPlan_sound' ρ i m a c1 c2

/-- `Sum3._new1` / `Sum4._new1`: dropping literal zeros keeps the sum. -/
theorem sum3Plan_sound (ρ : Nat → Nat → Rat) (a b c : Inp) :
    sumPlanDen ρ (sum3Plan a b c) = denInp ρ a + denInp ρ b + denInp ρ c :=
  sum3Plan_sound' ρ a b c

theorem sum4Plan_sound (ρ : Nat → Nat → Rat) (a b c d : Inp) :
    sumPlanDen ρ (sum4Plan a b c d) = denInp ρ a + denInp ρ b + denInp ρ c + denInp ρ d :=
  sum4Plan_sound' ρ a b c d

/-- Sorting the inputs of a fused sum by rate name only permutes them. -/
theorem sum_inputs_permuted (l : List (Inp × Nat)) :
    (l.foldl (fun acc x => insertByRate x acc) []).Perm l :=
  sortFold_perm l

/-! ### each arithmetic unit runs at the highest rate among its inputs -/

/-- rate order of the server: scalar < control < audio < demand -/
abbrev rateMax := rateMax'

/-- `_determine_rate` ("order matters") is the maximum of the two input rates. -/
theorem determineRate_is_max (ra rb : Option Rate) :
    determineRateP ra rb = rateMax (ra.getD .scalar) (rb.getD .scalar) := by
  cases ra with
  | none => cases rb with
    | none => rfl
    | some b => cases b <;> rfl
  | some a => cases rb with
    | none => cases a <;> rfl
    | some b => cases a <;> cases b <;> rfl

/-- The list rule (minimum of the rate *names* in string order) is the maximum rate
    — for the rates that can be mixed in an arithmetic unit's inputs.  `demand` is
    alphabetically between `control` and `scalar`, so with an audio input the rule yields
    `audio`: stated for demand-free inputs (as `MulAdd`, `Sum3`, `Sum4` require: the
    optimiser refuses demand-rate inputs). -/
theorem listRate_is_max (r : Rate) (rs : List Rate) (h : ∀ x ∈ r :: rs, x ≠ .demand) :
    listRateP (r :: rs) = some (rs.foldl rateMax r) := by
  simp only [listRateP]
  rw [minRateName_eq r rs (h r (by simp)) (fun x hx => h x (by simp [hx]))]

/-! ### the emitted definition denotes the graph the function describes -/

/-- SOUNDNESS OF THE TRANSLATION VALIDATOR.  If `validate` accepts an emitted unit list
    against a source graph, then for EVERY valuation ρ of the outputs of the opaque units:
    each emitted unit that is not a ring operator is (by its origin) one source unit of the
    same class, rate, special index and output count, and each of its inputs has exactly the
    value of the corresponding source expression — where source operators neg/+/−/×/MulAdd/
    Sum3/Sum4 and emitted operator units (recognised by class and server opcode) are
    interpreted arithmetically, so equality is up to the ring identities (association and
    commutation of sums and products, neutral constants, x−(−y)=x+y, fused units).  No two
    emitted units claim the same source unit (each at most once) and every unit of `must`
    (the side-effecting units of the source) occurs (exactly once).  Both graphs only refer
    backwards (source inputs to earlier objects; emitted inputs to constants in range or to
    existing outputs of strictly earlier units), so both evaluations are well founded.

    The check runs this validator, inside Lean, on the definition the model emits for every
    generated program AND on the bytes the real SynthDef produced for it (origins taken from
    object identity), so each sampled compilation is certified by this theorem. -/
theorem validate_sound (objs : List Obj) (must : List Nat) (consts : List Rat) (units : List EUnit)
    (h : validate objs must consts units = true) :
    ∃ sp ep, srcProg objs = some sp ∧ emProg consts units = some ep ∧
      (∀ ρ : Nat → Rat, ∀ u ∈ units, emKind u = none →
        ∃ o x, u.origin = some o ∧ objs[o]? = some x ∧ srcKind x = none ∧ x.cls = u.cls ∧
          x.rate.num = u.rate ∧ x.special = u.special ∧ x.nOut = u.nOut ∧
          x.inputs.length = u.inputs.length ∧
          ∀ p ∈ u.inputs.zip x.inputs,
            argVal (denote ρ ep) (emArg consts (bases (units.map emCount)) p.1)
              = argVal (denote ρ sp) (srcArg (bases (objs.map srcCount)) p.2)) ∧
      (atomOrigins units).Nodup ∧ (∀ o ∈ must, o ∈ atomOrigins units) ∧
      srcBackward objs = true ∧ emBackward consts.length units = true :=
  validate_sound' objs must consts units h

/-- The polynomial zero test used by the validator is sound for every valuation. -/
theorem poly_isZero_sound (ρ : Nat → Rat) (p : Poly) (h : p.isZero = true) : Poly.eval ρ p = 0 :=
  isZero_sound ρ p h

/-
FULL STATEMENT, NOT PROVED (the optimiser loop has no general proof yet):

  theorem compile_validates (evs : List Ev) (d : Def) (info : BuildInfo)
      (h : compileInfo evs = .ok (d, info)) : selfValidate d info = true

i.e. every program the model compiles is accepted by the validator.  What stands in for it:
`validate_sound` above + the validator run on every generated program of every check run
(model output and real output).  A counter-example to the full statement would be reported
by the check as a disagreement (`V=0`) or as a VIOLATION (`INVALID` on the real bytes).
-/

/-! non-vacuity -/
example : binopPlan "*" (.out 3 0 false) (.num (-1)) = .neg (.out 3 0 false) := by decide
example : mulAddPlan (.out 1 0 false) (.num 1) (.num 0) true true = .ret (.out 1 0 false) := by decide
example : sum4Plan (.out 1 0 false) (.num 0) (.out 2 0 false) (.num 0)
    = .add2 (.out 1 0 false) (.out 2 0 false) := by decide
example : spindexOpname "__add__" = some (0, "+") := by decide +kernel
/-- a two-object source graph (x = atom, y = x + 1/2·… as MulAdd) accepted by the validator -/
example : validate
    [{ cls := "SinOsc", kind := .atom, rate := .audio, inputs := [.num 440, .num 0] },
     { cls := "BinaryOpUGen", kind := .binop, op := "*", rate := .audio, special := 2,
       inputs := [.out 0 0 false, .num 2] },
     { cls := "BinaryOpUGen", kind := .binop, op := "+", rate := .audio, special := 0,
       inputs := [.out 1 0 false, .num 1] },
     { cls := "Out", kind := .atom, rate := .audio, inputs := [.num 0, .out 2 0 false], nOut := 0 }]
    [3] [440, 0, 2, 1]
    [{ cls := "SinOsc", rate := 2, special := 0, inputs := [(-1, 0), (-1, 1)], nOut := 1, origin := some 0 },
     { cls := "MulAdd", rate := 2, special := 0, inputs := [(0, 0), (-1, 2), (-1, 3)], nOut := 1, origin := none },
     { cls := "Out", rate := 2, special := 0, inputs := [(-1, 1), (1, 0)], nOut := 0, origin := some 3 }]
    = true := by decide +kernel

end Sc3Verif.C01
