/-
C01/C02/C20 line-protocol driver.  A program is a block of lines `prog … end`;
on `end` one line is printed: `ERR <kind>` or the canonical emitted definition.
  `lake env lean --run Sc3Verif/C01/Driver.lean < programs`
-/
import Sc3Verif.C01.Model
import Sc3Verif.C01.Scgf
open Sc3Verif.C01

def fmtRat (q : Rat) : String := if q.den == 1 then s!"{q.num}" else s!"{q.num}/{q.den}"

def parseRat (s : String) : Option Rat :=
  match s.splitOn "/" with
  | [n] => n.toInt?.map fun i => (i : Rat)
  | [n, d] => do let i ← n.toInt?; let k ← d.toNat?; if k == 0 then none else some (mkRat i k)
  | _ => none

def parseRate : String → Option Rate
  | "ar" => some .audio | "kr" => some .control | "ir" => some .scalar | "dr" => some .demand
  | _ => none

def parseArg (s : String) : Option Arg :=
  match s.splitOn ":" with
  | ["bad"] => some .bad
  | ["n", q] => (parseRat q).map .num
  | ["r", e, k] => do some (.ref (← e.toNat?) (← k.toNat?))
  | _ => none

def parseCheck (s : String) : Option Check :=
  match s.splitOn ":" with
  | ["valid"] => some .valid
  | ["out", n] => n.toNat?.map .out
  | ["naudio", n] => n.toNat?.map .nAudio
  | ["srfirst"] => some .srFirst
  | _ => none

def parseEv (line : String) : Option Ev :=
  match (line.trimAscii.toString.splitOn " ").filter (· ≠ "") with
  | "control" :: r :: vals => do
      some (.control (← parseRate r) (← vals.mapM parseRat))
  | "atom" :: cls :: r :: dce :: multi :: nOut :: isU :: wf :: chk :: args => do
      some (.atom { cls := cls, rate := ← parseRate r, dce := dce == "1", multi := multi == "1",
                    nOut := ← nOut.toNat?, isUGen := isU == "1", widthFirst := wf == "1",
                    check := ← parseCheck chk } (← args.mapM parseArg))
  | "out" :: cls :: mode :: bus :: chans => do
      let m ← match mode with | "ar" => some OutMode.ar | "kr" => some .kr | "auto" => some .auto | _ => none
      some (.out cls m (← parseArg bus) (← chans.mapM parseArg))
  | ["unop", sel, a] => do some (.unop sel (← parseArg a))
  | ["binop", sel, a, b] => do some (.binop sel (← parseArg a) (← parseArg b))
  | ["madd", a, m, c] => do some (.madd (← parseArg a) (← parseArg m) (← parseArg c))
  | _ => none

def fmtErr : Err → String
  | .typeError => "TypeError" | .valueError _ => "ValueError" | .zeroDiv => "ZeroDivisionError"
  | .keyError => "KeyError" | .attrError => "AttributeError" | .replaceNonUGen => "Exception"
  | .badOp => "Exception" | .fuel => "MODEL-FUEL" | .orphan => "MODEL-ORPHAN"
  | .badProgram => "MODEL-BAD-PROGRAM"

def fmtUnit (u : Unit') : String :=
  let ins := " ".intercalate (u.inputs.map fun (a, b) => s!"{a}.{b}")
  let outs := " ".intercalate (u.outs.map toString)
  s!"{u.cls}/{u.rate}/{u.special}/{ins}/{outs}"

def fmtDef (d : Def) : String :=
  "OK C=" ++ ",".intercalate (d.consts.map fmtRat) ++ " P=" ++ ",".intercalate (d.controls.map fmtRat)
    ++ " U=" ++ "|".intercalate (d.units.map fmtUnit)

def hexByte (b : UInt8) : String :=
  let h := "0123456789abcdef".toList
  String.ofList [h[(b.toNat / 16)]!, h[(b.toNat % 16)]!]

partial def loop (h out : IO.FS.Stream) (name : String) (pnames : List (String × Nat))
    (evs : List Ev) (bad : Bool) : IO Unit := do
  let line ← h.getLine
  if line.isEmpty then return ()
  let l := line.trimAscii.toString
  if l.startsWith "prog" then
    let nm := ((l.splitOn " ").getD 1 "")
    loop h out nm [] [] false
  else if l.startsWith "pname " then
    match l.splitOn " " with
    | [_, n, i] => loop h out name (pnames ++ [(n, i.toNat!)]) evs bad
    | _ => loop h out name pnames evs true
  else if l == "end" then
    if bad then out.putStrLn "ERR MODEL-PARSE"
    else
      match compile evs with
      | .error e => out.putStrLn ("ERR " ++ fmtErr e)
      | .ok d =>
        match writeFile name pnames d with
        | none => out.putStrLn ("ERR WRITE")
        | some bytes => out.putStrLn (fmtDef d ++ " B=" ++ String.join (bytes.map hexByte))
    loop h out "" [] [] false
  else
    match parseEv l with
    | some e => loop h out name pnames (evs ++ [e]) bad
    | none => loop h out name pnames evs true

def main : IO Unit := do
  loop (← IO.getStdin) (← IO.getStdout) "" [] [] false
