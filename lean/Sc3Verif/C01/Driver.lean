/-
C01/C02/C20 line-protocol driver.  A program is a block of lines `prog … end`;
on `end` one line is printed: `ERR <kind>` or the canonical emitted definition.
  `lake env lean --run Sc3Verif/C01/Driver.lean < programs`
-/
import Sc3Verif.C01.Model
import Sc3Verif.C01.Scgf
import Sc3Verif.C01.Validate
open Sc3Verif.C01

def fmtRat (q : Rat) : String := if q.den == 1 then s!"{q.num}" else s!"{q.num}/{q.den}"

def parseRat (s : String) : Option Rat :=
  match s.splitOn "/" with
  | [n] => n.toInt?.map fun i => (i : Rat)
  | [n, d] => do let i ← n.toInt?; let k ← d.toNat?; if k == 0 then none else some (mkRat i k)
  | _ => none

def parseRate : String → Option Rate
  | "ar" => some .audio | "kr" => some .control | "ir" => some .scalar | "dr" => some .demand
  | _ => none

def parseArg (s : String) : Option Arg :=
  match s.splitOn ":" with
  | ["bad"] => some .bad
  | ["n", q] => (parseRat q).map .num
  | ["r", e, k] => do some (.ref (← e.toNat?) (← k.toNat?))
  | _ => none

def parseCheck (s : String) : Option Check :=
  match s.splitOn ":" with
  | ["valid"] => some .valid
  | ["out", n] => n.toNat?.map .out
  | ["naudio", n] => n.toNat?.map .nAudio
  | ["srfirst"] => some .srFirst
  | ["duty"] => some .duty
  | _ => none

def parseEv (line : String) : Option Ev :=
  match (line.trimAscii.toString.splitOn " ").filter (· ≠ "") with
  | "control" :: r :: vals => do
      some (.control (← parseRate r) (← vals.mapM parseRat))
  | "atom" :: cls :: r :: dce :: multi :: nOut :: isU :: wf :: ret :: chk :: args => do
      some (.atom { cls := cls, rate := ← parseRate r, dce := dce == "1", multi := multi == "1",
                    nOut := ← nOut.toNat?, isUGen := isU == "1", widthFirst := wf == "1",
                    ret := ret == "1", check := ← parseCheck chk } (← args.mapM parseArg))
  | ["localbuf", fr, ch] => do some (.localbuf (← parseArg fr) (← parseArg ch))
  | "out" :: cls :: mode :: bus :: chans => do
      let m ← match mode with | "ar" => some OutMode.ar | "kr" => some .kr | "auto" => some .auto | _ => none
      some (.out cls m (← parseArg bus) (← chans.mapM parseArg))
  | ["unop", sel, a] => do some (.unop sel (← parseArg a))
  | ["binop", sel, a, b] => do some (.binop sel (← parseArg a) (← parseArg b))
  | ["madd", a, m, c] => do some (.madd (← parseArg a) (← parseArg m) (← parseArg c))
  | ["sum3", a, b, c] => do some (.sum3 (← parseArg a) (← parseArg b) (← parseArg c))
  | ["sum4", a, b, c, d] => do some (.sum4 (← parseArg a) (← parseArg b) (← parseArg c) (← parseArg d))
  | _ => none

def fmtErr : Err → String
  | .typeError => "TypeError" | .valueError _ => "ValueError" | .zeroDiv => "ZeroDivisionError"
  | .keyError => "KeyError" | .attrError => "AttributeError" | .replaceNonUGen => "Exception"
  | .badOp => "Exception" | .fuel => "MODEL-FUEL" | .orphan => "MODEL-ORPHAN"
  | .badProgram => "MODEL-BAD-PROGRAM"

def fmtUnit (u : Unit') : String :=
  let ins := " ".intercalate (u.inputs.map fun (a, b) => s!"{a}.{b}")
  let outs := " ".intercalate (u.outs.map toString)
  s!"{u.cls}/{u.rate}/{u.special}/{ins}/{outs}"

def fmtDef (d : Def) : String :=
  "OK C=" ++ ",".intercalate (d.consts.map fmtRat) ++ " P=" ++ ",".intercalate (d.controls.map fmtRat)
    ++ " U=" ++ "|".intercalate (d.units.map fmtUnit)

def hexByte (b : UInt8) : String :=
  let h := "0123456789abcdef".toList
  String.ofList [h[(b.toNat / 16)]!, h[(b.toNat % 16)]!]

/-- side-effecting atom-like source objects: must survive -/
def mustList (info : BuildInfo) : List Nat :=
  info.children0.filter fun o =>
    match info.objs0[o]? with
    | some x => (srcKind x).isNone && !x.dce
    | none => false

/-- the polynomials of both ring programs stay small enough to normalise (else: skipped) -/
def tractable (objs : List Obj) (consts : List Rat) (units : List EUnit) : Bool :=
  match srcProg objs, emProg consts units with
  | some sp, some ep => withinBudget 3000 [] sp && withinBudget 3000 [] ep
  | _, _ => true

def selfValidate (d : Def) (info : BuildInfo) : String :=
  let units := (d.units.zip info.origins).map fun (u, o) =>
    ({ cls := u.cls, rate := u.rate, special := u.special, inputs := u.inputs, nOut := u.outs.length,
       origin := some o } : EUnit)
  if !tractable info.objs0 d.consts units then "s"
  else if validate info.objs0 (mustList info) d.consts units then "1" else "0"

def hexVal (c : Char) : Option Nat :=
  if c.isDigit then some (c.toNat - '0'.toNat)
  else if 'a' ≤ c ∧ c ≤ 'f' then some (c.toNat - 'a'.toNat + 10) else none

def parseHex : List Char → Option (List UInt8)
  | [] => some []
  | a :: b :: r => do
    let x ← hexVal a; let y ← hexVal b
    (parseHex r).map (UInt8.ofNat (x * 16 + y) :: ·)
  | _ => none

/-- origin token: `-` none, `e` = main (last) object of event e, `e.d` = the silence DC an
    `Out.ar` event created before its Out unit -/
def originObj (info : BuildInfo) (tok : String) : Option Nat :=
  match tok.splitOn "." with
  | [e] => e.toNat?.bind fun i => (info.evObjs.getD i []).getLast?
  | [e, "d"] => e.toNat?.bind fun i =>
      let l := info.evObjs.getD i []
      if l.length ≥ 2 then l[l.length - 2]? else none
  | _ => none

/-- validate bytes produced by the REAL implementation against the model's source graph -/
def validateReal (info : BuildInfo) (hex : String) (origins : List String) : String :=
  match parseHex hex.toList with
  | none => "INVALID bad-hex"
  | some bs =>
    match parseW bs with
    | none => "INVALID unparsable"
    | some w =>
      match allSome (w.consts.map f32ToRat) with
      | none => "INVALID const"
      | some consts =>
        if w.units.length != origins.length then "INVALID origin-count"
        else
          let units := (w.units.zip origins).map fun (u, tok) =>
            ({ cls := String.fromUTF8! (ByteArray.mk u.cls.toArray), rate := u.rate.toNat, special := u.special,
               inputs := u.inputs.map fun p => (p.1, p.2.toNat), nOut := u.outs.length,
               origin := originObj info tok } : EUnit)
          if !tractable info.objs0 consts units then "SKIP too-large"
          else if validate info.objs0 (mustList info) consts units then "VALID" else "INVALID"

partial def loop (h out : IO.FS.Stream) (name : String) (pnames : List (String × Nat))
    (evs : List Ev) (bad : Bool) (last : Option BuildInfo) : IO Unit := do
  let line ← h.getLine
  if line.isEmpty then return ()
  let l := line.trimAscii.toString
  if l.startsWith "prog" then
    let nm := ((l.splitOn " ").getD 1 "")
    loop h out nm [] [] false none
  else if l.startsWith "pname " then
    match l.splitOn " " with
    | [_, n, i] => loop h out name (pnames ++ [(n, i.toNat!)]) evs bad last
    | _ => loop h out name pnames evs true last
  else if l == "end" then
    if bad then
      out.putStrLn "ERR MODEL-PARSE"
      loop h out "" [] [] false none
    else
      match compileInfo evs with
      | .error e =>
        out.putStrLn ("ERR " ++ fmtErr e)
        loop h out "" [] [] false none
      | .ok (d, info) =>
        match writeFile name pnames d with
        | none => out.putStrLn ("ERR WRITE")
        | some bytes =>
          out.putStrLn (fmtDef d ++ " B=" ++ String.join (bytes.map hexByte)
            ++ (" V=" ++ selfValidate d info))
        loop h out "" [] [] false (some info)
  else if l.startsWith "validate" then
    match l.splitOn " ", last with
    | [_, hex, origins], some info =>
      out.putStrLn (validateReal info hex (origins.splitOn ","))
    | [_, hex], some info => out.putStrLn (validateReal info hex [])
    | _, _ => out.putStrLn "NA"
    loop h out name pnames evs bad last
  else
    match parseEv l with
    | some e => loop h out name pnames (evs ++ [e]) bad last
    | none => loop h out name pnames evs true last

def main : IO Unit := do
  loop (← IO.getStdin) (← IO.getStdout) "" [] [] false none
