import Sc3Verif.C01.Validate
import Sc3Verif.C01.PolyLemmas
namespace Sc3Verif.C01

theorem getD_map_eval (ρ : Nat → Rat) (ps : List Poly) (i : Nat) :
    (ps.map (Poly.eval ρ)).getD i 0 = Poly.eval ρ (ps.getD i []) := by
  simp only [List.getD_eq_getElem?_getD, List.getElem?_map]
  cases ps[i]? <;> simp

theorem eval_argPoly (ρ : Nat → Rat) (ps : List Poly) (a : RArg) :
    Poly.eval ρ (argPoly ps a) = argVal (ps.map (Poly.eval ρ)) a := by
  cases a with
  | ref i => simp only [argPoly, argVal]; rw [getD_map_eval]
  | const q => simp only [argPoly, argVal]; exact eval_const ρ q

theorem eval_nodePoly (ρ : Nat → Rat) (ps : List Poly) (n : RNode) :
    Poly.eval ρ (nodePoly ps n) = nodeVal ρ (ps.map (Poly.eval ρ)) n := by
  cases n <;>
    simp only [nodePoly, nodeVal, eval_var, eval_neg, eval_add, eval_sub, eval_mul, eval_argPoly]

theorem polysFrom_denoteFrom (ρ : Nat → Rat) (prog : RProg) (ps : List Poly) :
    (polysFrom ps prog).map (Poly.eval ρ) = denoteFrom ρ (ps.map (Poly.eval ρ)) prog := by
  induction prog generalizing ps with
  | nil => rfl
  | cons n rest ih =>
    simp only [polysFrom, denoteFrom]
    rw [ih]
    congr 1
    simp [eval_nodePoly, eval_collect]

theorem polys_denote (ρ : Nat → Rat) (prog : RProg) :
    (polys prog).map (Poly.eval ρ) = denote ρ prog := by
  simpa [polys, denote] using polysFrom_denoteFrom ρ prog []

/-- the polynomial test is sound: equal values under EVERY valuation -/
theorem checkEq_sound (ρ : Nat → Rat) (sp ep : RProg) (aE aS : RArg)
    (h : checkEq (polys sp) (polys ep) aE aS = true) :
    argVal (denote ρ ep) aE = argVal (denote ρ sp) aS := by
  unfold checkEq at h
  have := eq_of_sub_isZero ρ _ _ h
  rw [eval_argPoly, eval_argPoly, polys_denote, polys_denote] at this
  exact this

theorem validate_sound' (objs : List Obj) (must : List Nat) (consts : List Rat) (units : List EUnit)
    (h : validate objs must consts units = true) :
    ∃ sp ep, srcProg objs = some sp ∧ emProg consts units = some ep ∧
      (∀ ρ : Nat → Rat, ∀ u ∈ units, emKind u = none →
        ∃ o x, u.origin = some o ∧ objs[o]? = some x ∧ srcKind x = none ∧ x.cls = u.cls ∧
          x.rate.num = u.rate ∧ x.special = u.special ∧ x.nOut = u.nOut ∧
          x.inputs.length = u.inputs.length ∧
          ∀ p ∈ u.inputs.zip x.inputs,
            argVal (denote ρ ep) (emArg consts (bases (units.map emCount)) p.1)
              = argVal (denote ρ sp) (srcArg (bases (objs.map srcCount)) p.2)) ∧
      (atomOrigins units).Nodup ∧ (∀ o ∈ must, o ∈ atomOrigins units) ∧
      srcBackward objs = true ∧ emBackward consts.length units = true := by
  unfold validate at h
  cases hs : srcProg objs with
  | none => simp [hs] at h
  | some sp =>
    cases he : emProg consts units with
    | none => simp [hs, he] at h
    | some ep =>
      simp only [hs, he, Bool.and_eq_true, List.all_eq_true, decide_eq_true_eq] at h
      obtain ⟨⟨⟨⟨hsb, heb⟩, hunits⟩, hnd⟩, hmust⟩ := h
      refine ⟨sp, ep, rfl, rfl, ?_, hnd, ?_, hsb, heb⟩
      · intro ρ u hu hk
        have hok := hunits u hu
        unfold unitOk at hok
        simp only [hk] at hok
        cases ho : u.origin with
        | none => simp [ho] at hok
        | some o =>
          simp only [ho] at hok
          cases hx : objs[o]? with
          | none => simp [hx] at hok
          | some x =>
            simp only [hx, Bool.and_eq_true, List.all_eq_true, beq_iff_eq, Option.isNone_iff_eq_none,
              decide_eq_true_eq] at hok
            obtain ⟨⟨⟨⟨⟨⟨⟨h1, h2⟩, h3⟩, h4⟩, h5⟩, _⟩, h7⟩, h8⟩ := hok
            refine ⟨o, x, rfl, hx, h1, h2, h3, h4, h5, h7, ?_⟩
            intro p hp
            exact checkEq_sound ρ sp ep _ _ (h8 p hp)
      · intro o ho
        have := hmust o ho
        simpa using this

end Sc3Verif.C01
