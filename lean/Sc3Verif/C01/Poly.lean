/-
C01 — a small verified-by-construction polynomial normaliser over ℚ, used by the
translation validator: two expressions built from unit outputs, rational constants,
negation, +, −, × (and the fused MulAdd / Sum3 / Sum4) denote the same value under EVERY
valuation if the difference of their polynomials collects to zero.
Core Lean only (executable in the driver); soundness lemmas are in `PolyLemmas.lean`.
-/
namespace Sc3Verif.C01

/-- a monomial: sorted list of variables (with repetition for powers) -/
abbrev Mono := List Nat
/-- a polynomial: sum of coefficient × monomial terms (not necessarily collected) -/
abbrev Poly := List (Mono × Rat)

def insertVar (v : Nat) : Mono → Mono
  | [] => [v]
  | w :: ws => if v ≤ w then v :: w :: ws else w :: insertVar v ws

def mulMono (a b : Mono) : Mono := a.foldr insertVar b

def Poly.const (q : Rat) : Poly := [([], q)]
def Poly.var (v : Nat) : Poly := [([v], 1)]
def Poly.add (p q : Poly) : Poly := p ++ q
def Poly.neg (p : Poly) : Poly := p.map fun t => (t.1, -t.2)
def Poly.sub (p q : Poly) : Poly := p.add q.neg
def Poly.mulTerm (t : Mono × Rat) (q : Poly) : Poly := q.map fun u => (mulMono t.1 u.1, t.2 * u.2)
def Poly.mul (p q : Poly) : Poly := p.flatMap fun t => Poly.mulTerm t q

/-- add a term to a collected polynomial -/
def addTerm (t : Mono × Rat) : Poly → Poly
  | [] => [t]
  | u :: r => if u.1 = t.1 then (u.1, u.2 + t.2) :: r else u :: addTerm t r

def collect (p : Poly) : Poly := p.foldr addTerm []

/-- all collected coefficients vanish -/
def Poly.isZero (p : Poly) : Bool := (collect p).all fun t => t.2 == 0

def evalMono (ρ : Nat → Rat) (m : Mono) : Rat := m.foldr (fun v acc => ρ v * acc) 1

def Poly.eval (ρ : Nat → Rat) (p : Poly) : Rat := p.foldr (fun t acc => t.2 * evalMono ρ t.1 + acc) 0

end Sc3Verif.C01
