/-
C06 line-protocol driver:  `lake env lean --run Sc3Verif/C06/Driver.lean < ops`
One request per line, one answer line per request.

Python values (prefix notation, blank separated):
  N | T | F | I<int> | D<num>/<den>:<bits> | S<hex> | X | B<hex> | U<n> v1..vn | L<n> v1..vn | O
Requests:
  msg  <send num>/<den> <osc offset> <L..>     _build_msg(send_time, list).dgram
  bndl <send num>/<den> <osc offset> <L..>     _build_bundle(send_time, list).dgram
  dec  <hex>                                   OscPacket(dgram).messages
  pmsg <hex>                                   OscMessage(dgram)
  csm  <L..>                                   _calc_msg_dgram_size(list)
  csb  <L..>                                   _calc_bndl_dgram_size(elements)
  clump <size> <L..>                           _clump_bundle(elements, size)  (clump lengths)
  sendc <L..>                                  send_clumped_bundles(t, *elements) (bundle lengths)
  sync  <L..>                                  sync(elements=...)                 (bundle lengths)
  dsend <B..> <pv>                             SynthDef._do_send: recv | load
  bna reset | bna msg <pv> | bna ext <L..> | bna sync <L..|-> | bna exit       BundleNetAddr: what each op sends
-/
import Sc3Verif.C06.Model
open Sc3Verif.C06

def hexVal (c : Char) : Option Nat :=
  if '0' ≤ c ∧ c ≤ '9' then some (c.toNat - '0'.toNat)
  else if 'a' ≤ c ∧ c ≤ 'f' then some (c.toNat - 'a'.toNat + 10)
  else none

def parseHexL : List Char → Option Bytes
  | [] => some []
  | a :: b :: rest => do
    let x ← hexVal a
    let y ← hexVal b
    let tl ← parseHexL rest
    pure (UInt8.ofNat (x * 16 + y) :: tl)
  | _ => none

def parseHex (s : String) : Option Bytes := parseHexL s.toList

def hexDigit (n : Nat) : Char := if n < 10 then Char.ofNat (48 + n) else Char.ofNat (87 + n)

def toHex (b : Bytes) : String :=
  String.ofList (b.flatMap fun x => [hexDigit (x.toNat / 16), hexDigit (x.toNat % 16)])

def parseRat (s : String) : Option Rat :=
  match s.splitOn "/" with
  | [n, d] => do
    let n ← n.toInt?
    let d ← d.toNat?
    if d = 0 then none else pure (mkRat n d)
  | [n] => do pure ((← n.toInt?) : Rat)
  | _ => none

partial def parsePV : List String → Option (PV × List String)
  | [] => none
  | tok :: rest =>
    let body := (tok.drop 1).toString
    match tok.front with
    | 'N' => some (.none, rest)
    | 'T' => some (.bool true, rest)
    | 'F' => some (.bool false, rest)
    | 'O' => some (.other, rest)
    | 'X' => some (.strBad, rest)
    | 'I' => do some (.int (← body.toInt?), rest)
    | 'D' =>
      match body.splitOn ":" with
      | [v, b] => do
        let v ← parseRat v
        some (.float v (f32Pattern v (← b.toNat?)), rest)   -- the exact value decides whether there is a pattern
      | _ => none
    | 'S' => do some (.str (← parseHex body), rest)
    | 'B' => do some (.bytes (← parseHex body), rest)
    | 'U' => do
      let (l, rest) ← parseMany (← body.toNat?) rest
      some (.tuple l, rest)
    | 'L' => do
      let (l, rest) ← parseMany (← body.toNat?) rest
      some (.list l, rest)
    | _ => none
where
  parseMany : Nat → List String → Option (List PV × List String)
    | 0, rest => some ([], rest)
    | n + 1, rest => do
      let (v, rest) ← parsePV rest
      let (vs, rest) ← parseMany n rest
      some (v :: vs, rest)

def parseList (toks : List String) : Option (List PV) :=
  match parsePV toks with
  | some (.list l, []) => some l
  | _ => none

def derrName : DErr → String
  | .typeParse => "OscTypeParseError"
  | .msgParse => "OscMessageParseError"
  | .bundleParse => "OscBundleParseError"
  | .oscParse => "OscParseError"
  | .unicode => "UnicodeDecodeError"

def errName : Err → String
  | .valueError => "ValueError"
  | .typeError => "TypeError"
  | .indexError => "IndexError"
  | .unicodeEncode => "UnicodeEncodeError"
  | .msgBuild => "OscMessageBuildError"
  | .bundleBuild => "OscBundleBuildError"
  | .overflow => "OverflowError"
  | .parse e => derrName e
  | .notModelled => "NOT-MODELLED"

def isNan32 (b : Nat) : Bool := b / 8388608 % 256 == 255 && b % 8388608 != 0
def isNan64 (b : Nat) : Bool := b / 4503599627370496 % 2048 == 2047 && b % 4503599627370496 != 0

partial def fmtVal : DVal → String
  | .int i => s!"i{i}"
  | .float b => if isNan32 b then "fnan" else s!"f{b}"
  | .double b => if isNan64 b then "dnan" else s!"d{b}"
  | .str s => "s" ++ toHex s
  | .blob b => "b" ++ toHex b
  | .rgba n => s!"r{n}"
  | .midi a b c d => s!"m{a}.{b}.{c}.{d}"
  | .timetag n => s!"t{n}"
  | .bool true => "T"
  | .bool false => "F"
  | .array l => " ".intercalate (["["] ++ l.map fmtVal ++ ["]"])

def fmtMsg (m : DMsg) : String :=
  toHex m.addr ++ ";" ++ " ".intercalate (m.params.map fmtVal)

def fmtTimed (x : Option Nat × DMsg) : String :=
  (match x.1 with | none => "None" | some t => toString t) ++ ";" ++ fmtMsg x.2

def fmtBytes : Except Err Bytes → String
  | .ok d => "ok " ++ toHex d
  | .error e => "err " ++ errName e

def fmtNat : Except Err Nat → String
  | .ok n => s!"ok {n}"
  | .error e => "err " ++ errName e

def handle (line : String) : String :=
  match (line.trimAscii.toString.splitOn " ").filter (· ≠ "") with
  | "msg" :: st :: off :: toks =>
    match parseRat st, off.toInt?, parseList toks with
    | some st, some off, some l => fmtBytes (buildMsgL ⟨st, off⟩ l)
    | _, _, _ => "bad-op"
  | "bndl" :: st :: off :: toks =>
    match parseRat st, off.toInt?, parseList toks with
    | some st, some off, some l => fmtBytes (buildBundleL ⟨st, off⟩ l)
    | _, _, _ => "bad-op"
  | ["dec", h] =>
    match parseHex h with
    | some d =>
      match decodePacket d with
      | .ok ms => "ok " ++ "|".intercalate (ms.map fmtTimed)
      | .error e => "err " ++ derrName e
    | none => "bad-op"
  | ["dec"] =>
    match decodePacket [] with
    | .ok ms => "ok " ++ "|".intercalate (ms.map fmtTimed)
    | .error e => "err " ++ derrName e
  | ["pmsg", h] =>
    match parseHex h with
    | some d =>
      match parseMsg d with
      | .ok m => "ok " ++ fmtMsg m
      | .error e => "err " ++ derrName e
    | none => "bad-op"
  | "csm" :: toks =>
    match parseList toks with
    | some l => fmtNat (calcMsg l)
    | none => "bad-op"
  | "csb" :: toks =>
    match parseList toks with
    | some l => fmtNat (calcBndl l)
    | none => "bad-op"
  | "clump" :: size :: toks =>
    match size.toNat?, parseList toks with
    | some size, some l =>
      match clumpBundle l size with
      | .ok cs => "ok " ++ ",".intercalate (cs.map fun c => toString c.length)
      | .error e => "err " ++ errName e
    | _, _ => "bad-op"
  | "sendc" :: toks =>
    match parseList toks with
    | some l =>
      match sendClumpedPlan l with
      | .ok cs => "ok " ++ ",".intercalate (cs.map fun c => toString c.length)
      | .error e => "err " ++ errName e
    | none => "bad-op"
  | "sync" :: toks =>
    match parseList toks with
    | some l =>
      match syncPlan (fun k => 1000 + k) l with
      | .ok cs => "ok " ++ ",".intercalate (cs.map fun c => toString c.length)
      | .error e => "err " ++ errName e
    | none => "bad-op"
  | _ => "bad-op"

def fmtPlan : Except Err (List (List PV)) → String
  | .ok cs => ",".intercalate (cs.map fun c => toString c.length)
  | .error e => "err " ++ errName e

def fmtSends (l : List BSend) : String :=
  ",".intercalate ((l.map fun
    | .clumped els => fmtPlan (sendClumpedPlan els)
    | .sync none => "1"                                   -- bundle(latency, ['/sync', id])
    | .sync (some els) => fmtPlan (syncPlan (fun k => 1000 + k) els)).filter (· ≠ ""))

/-- `bna …` requests keep a `BundleNetAddr`; `dsend <B..> <pv>` answers `recv` / `load` -/
def handleSt (b : BNA) (line : String) : BNA × String :=
  match (line.trimAscii.toString.splitOn " ").filter (· ≠ "") with
  | ["bna", "reset"] => (BNA.init, "reset")
  | "bna" :: "msg" :: toks =>
    match parsePV toks with
    | some (e, []) => let (b', s) := b.step (.msg e); (b', "ok " ++ fmtSends s)
    | _ => (b, "bad-op")
  | "bna" :: "ext" :: toks =>
    match parseList toks with
    | some es => let (b', s) := b.step (.extend es); (b', "ok " ++ fmtSends s)
    | none => (b, "bad-op")
  | ["bna", "sync", "-"] => let (b', s) := b.step (.sync none); (b', "ok " ++ fmtSends s)
  | "bna" :: "sync" :: toks =>
    match parseList toks with
    | some es => let (b', s) := b.step (.sync (some es)); (b', "ok " ++ fmtSends s)
    | none => (b, "bad-op")
  | ["bna", "exit"] => (b, "ok " ++ fmtSends b.exit)
  | "dsend" :: toks =>
    match parsePV toks with
    | some (.bytes d, rest) =>
      match parsePV rest with
      | some (c, []) =>
        (b, match doSendFits d c with
          | .ok true => "recv"
          | .ok false => "load"
          | .error e => "err " ++ errName e)
      | _ => (b, "bad-op")
    | _ => (b, "bad-op")
  | _ => (b, handle line)

partial def loop (h : IO.FS.Stream) (out : IO.FS.Stream) (b : BNA) : IO Unit := do
  let line ← h.getLine
  if line.isEmpty then return ()
  let (b', o) := handleSt b line
  out.putStrLn o
  loop h out b'

def main : IO Unit := do
  loop (← IO.getStdin) (← IO.getStdout) BNA.init
