/-
C06 — OSC encoding round-trips, conforms to OSC 1.0 and is sized correctly.

Property theorems only (helper lemmas are in `Lemmas.lean`, the specification in `Spec.lean`).
All statements quantify over ALL Python message / bundle lists (`List PV`, nested to any depth),
all configurations (`Cfg`: send time and clock offset) and all byte strings.
`PV.wfL l` is a representation invariant (a `str` is carried as valid UTF-8, a float argument
carries a 32-bit pattern), not a restriction on inputs.
-/
import Sc3Verif.C06.Lemmas
namespace Sc3Verif.C06

/-! ## Round trip -/

/-- MAIN (messages): whatever `_build_msg` accepts decodes (`OscMessage(dgram)`) to the same address
    and to the tree `vs` that the documented coercions `coerceArgs` and the bracket markers denote:
    `vs` is the unique tree whose bracket-flattening is the coerced argument sequence.  If the
    address starts with `/`, `OscPacket(dgram).messages` is that single message (time `None`). -/
theorem msg_roundtrip (cfg : Cfg) (l : List PV) (d : Bytes)
    (h : buildMsgL cfg l = .ok d) (hw : PV.wfL l = true) :
    ∃ a args ws vs, l = .str a :: args ∧ coerceArgs cfg args = .ok ws ∧
      flatVals vs = ws.map WArg.tok ∧
      parseMsg d = .ok ⟨a, vs⟩ ∧
      (a.head? = some 0x2F → decodePacket d = .ok [(none, ⟨a, vs⟩)]) := by
  obtain ⟨a, args, ws, vs, rfl, hc, hr, hp, _, _, hhead⟩ := msg_parse h hw
  have hok : ∀ t ∈ ws.map WArg.tok, t.leafOk = true := by
    intro t ht
    obtain ⟨w, _, rfl⟩ := List.mem_map.mp ht
    exact tok_leafOk w
  refine ⟨a, args, ws, vs, rfl, hc, (nestRun_iff_flat' _ _ hok).mp hr, hp, ?_⟩
  intro h2f
  rw [← hhead] at h2f
  simp [decodePacket, isBundle_of_head h2f, isMsg, h2f, hp]

/-- Array markers: the decoder's stack machine accepts exactly the balanced token sequences and
    returns THE tree with that flattening (so `'['`/`']'` become arrays, nested to any depth, and
    unbalanced markers are refused — the builder parses its own output). -/
theorem nestRun_iff_flat (ts : List Tok) (vs : List DVal) (hok : ∀ t ∈ ts, t.leafOk = true) :
    nestRun ts [] [] = .ok vs ↔ flatVals vs = ts :=
  nestRun_iff_flat' ts vs hok

/-- MAIN (bundles, all nestings): whatever `_build_bundle` accepts parses back (`OscBundle(dgram)`)
    to the denotation of the Python list — timetag of `_get_timetag`, elements in order, nested
    bundles to any depth, every message as in `msg_roundtrip` — provided element addresses start
    with `/` (other elements are dropped by the decoder by design). -/
theorem bundle_roundtrip (cfg : Cfg) (l : List PV) (d : Bytes)
    (h : buildBundleL cfg l = .ok d) (hw : PV.wfL l = true) (hs : slashB l = true) :
    ∃ tt es, denoteBundleL cfg l = some (tt, es) ∧ parseBundle d = .ok (tt, es) :=
  bundle_parse cfg l d h hw hs

/-- ... and `OscPacket(dgram).messages` is the flattened denotation, stably sorted by timetag. -/
theorem packet_roundtrip (cfg : Cfg) (l : List PV) (d : Bytes)
    (h : buildBundleL cfg l = .ok d) (hw : PV.wfL l = true) (hs : slashB l = true) :
    ∃ tt es, denoteBundleL cfg l = some (tt, es) ∧
      decodePacket d = .ok ((sortByTime (flattenElems tt es)).map fun x => (some x.1, x.2)) := by
  obtain ⟨tt, es, hd, hp⟩ := bundle_parse cfg l d h hw hs
  obtain ⟨_, _, _, _, _, _, _, he, _⟩ := buildBundleL_ok h
  refine ⟨tt, es, hd, ?_⟩
  simp [decodePacket, isBundle_encode he, hp]

/-- The order of `OscPacket(dgram).messages`: a permutation of the flattened bundle tree, sorted by
    timetag, and stable (messages with the same timetag keep the order in which they were sent). -/
theorem packet_order (l : List (Nat × DMsg)) :
    (sortByTime l).Perm l ∧ (sortByTime l).Pairwise (fun a b => a.1 ≤ b.1) ∧
    ∀ t, (sortByTime l).filter (fun p => p.1 == t) = l.filter (fun p => p.1 == t) :=
  ⟨sortByTime_perm l, sortByTime_sorted l, fun t => sortByTime_stable t l⟩

/-- Nested message lists (completion messages) are sent as blobs that are themselves encodings to
    which `msg_roundtrip` applies; same for bundle-shaped lists (`nested_bundle_blob`). -/
theorem nested_msg_blob (cfg : Cfg) (l : List PV) (w : WArg)
    (hne : l.isEmpty = false) (hs : headIsStr l = true) (h : coerceArg cfg (.list l) = .ok w) :
    ∃ d, buildMsgL cfg l = .ok d ∧ w = .blob d := by
  simp only [coerceArg, hne, hs, Bool.false_eq_true, if_false, if_true] at h
  cases hb : buildMsgL cfg l with
  | error e => simp [hb] at h
  | ok d => simp [hb] at h; exact ⟨d, rfl, h.symm⟩

theorem nested_bundle_blob (cfg : Cfg) (l : List PV) (w : WArg)
    (hne : l.isEmpty = false) (hs : headIsStr l = false) (h : coerceArg cfg (.list l) = .ok w) :
    ∃ d, buildBundleL cfg l = .ok d ∧ w = .blob d := by
  simp only [coerceArg, hne, hs, Bool.false_eq_true, if_false] at h
  split at h
  · cases hb : buildBundleL cfg l with
    | error e => simp [hb] at h
    | ok d => simp [hb] at h; exact ⟨d, rfl, h.symm⟩
  · cases h

/-- The documented scalar coercions. -/
theorem coercions (cfg : Cfg) :
    coerceArg cfg .none = .ok (.int 0) ∧ coerceArg cfg (.bool false) = .ok (.int 0) ∧
    coerceArg cfg (.bool true) = .ok (.int 1) ∧ coerceArg cfg (.list []) = .ok (.int 0) ∧
    (∀ i, coerceArg cfg (.int i) = .ok (.int i)) ∧
    (∀ v b, coerceArg cfg (.float v b) = .ok (.float b)) ∧
    (∀ b, coerceArg cfg (.bytes b) = .ok (.blob b)) ∧
    coerceArg cfg (.str bracketOpen) = .ok .arrOpen ∧ coerceArg cfg (.str bracketClose) = .ok .arrClose ∧
    (∀ s, s ≠ bracketOpen → s ≠ bracketClose → coerceArg cfg (.str s) = .ok (.str s)) := by
  refine ⟨rfl, rfl, rfl, rfl, fun _ => rfl, fun _ _ => rfl, fun _ => rfl, rfl, rfl, ?_⟩
  intro s h1 h2
  simp [coerceArg, h1, h2]

/-- every Lean `String` (= every sequence of Unicode scalar values = every Python `str` without lone
    surrogates) has a UTF-8 encoding that the model's validity check accepts: the representation
    invariant `PV.wf` of the round-trip theorems is satisfiable for ALL text -/
theorem validUtf8_string (s : String) : validUtf8 s.toUTF8.data.toList = true := by
  have h1 : s.toUTF8 = s.toList.utf8Encode := by
    show s.toByteArray = _
    conv => lhs; rw [← String.ofList_toList (s := s)]
    exact String.toByteArray_ofList
  rw [h1]
  unfold List.utf8Encode
  rw [List.data_toByteArray]
  have := validUtf8_chars s.toList []
  have h0 : validUtf8 [] = true := rfl
  rw [h0] at this
  simpa using this

/-! ## Refusal -/

/-- A float argument is either refused or sent with exactly its own binary32 pattern: a finite value beyond
    the binary32 range (|x| ≥ 2^128 − 2^103, no pattern) raises OverflowError — it is never sent as an
    infinity — and everything else (±inf, the largest binary32, subnormals, ...) goes out verbatim. -/
theorem float_refused_or_verbatim (v : Rat) (bits : Nat) (hb : bits < 4294967296) :
    (f32Overflows v = true → writeArg (.float (f32Pattern v bits)) = .error .overflow) ∧
    (f32Overflows v = false → writeArg (.float (f32Pattern v bits)) = .ok (be32 bits)) := by
  constructor
  · intro h; simp [f32Pattern, h, writeArg]
  · intro h; simp [f32Pattern, h, writeArg, hb]

/-- Values without a faithful representation are refused: an int outside int32, a `str` with an
    embedded NUL or one that cannot be encoded, an empty blob.  (Refusal = no bytes: the builders
    return `Except.error`, nothing is sent.) -/
theorem refused_not_altered (w : WArg) (x : Bytes) (h : writeArg w = .ok x) :
    (∀ i, w = .int i → -2147483648 ≤ i ∧ i < 2147483648) ∧
    (∀ s, w = .str s → hasNul s = false) ∧ w ≠ .strBad ∧ (∀ b, w = .blob b → b ≠ []) := by
  refine ⟨?_, ?_, ?_, ?_⟩
  · intro i hi; subst hi
    simp only [writeArg] at h
    split at h
    · assumption
    · cases h
  · intro s hs; subst hs
    simp only [writeArg] at h
    split at h
    · cases h
    · rename_i hn; simpa using hn
  · intro hs; subst hs; cases h
  · intro b hb; subst hb
    simp only [writeArg] at h
    split at h
    · cases h
    · rename_i hne; intro hb; subst hb; simp at hne

/-- ... and conversely every in-range int, NUL-free text and non-empty blob (below 2 GiB) IS encodable. -/
theorem representable_accepted :
    (∀ i : Int, -2147483648 ≤ i → i < 2147483648 → ∃ x, writeArg (.int i) = .ok x) ∧
    (∀ s, hasNul s = false → ∃ x, writeArg (.str s) = .ok x) ∧
    (∀ b : Bytes, b ≠ [] → b.length < 2147483648 → ∃ x, writeArg (.blob b) = .ok x) := by
  refine ⟨?_, ?_, ?_⟩
  · intro i h1 h2; exact ⟨be32 (ofInt32 i), by simp [writeArg, h1, h2]⟩
  · intro s hn; exact ⟨writeString s, by simp [writeArg, hn]⟩
  · intro b hb hl
    refine ⟨be32 b.length ++ b ++ zeros (blobPad b.length), ?_⟩
    have h1 : b.isEmpty = false := by cases b <;> simp_all
    have h2 : ¬ b.length ≥ 2147483648 := by omega
    simp [writeArg, h1, h2]

/-- A refused message list produces an error and therefore no datagram; an accepted one was parsed
    back by the builder itself (`return OscMessage(dgram)`). -/
theorem accepted_parses (cfg : Cfg) (l : List PV) (d : Bytes) (h : buildMsgL cfg l = .ok d) :
    ∃ m, parseMsg d = .ok m := by
  obtain ⟨_, _, _, _, _, _, hm⟩ := buildMsgL_ok h
  exact hm

/-! ## OSC 1.0 layout -/

/-- 4-byte alignment of strings, blobs, messages and bundles (all nestings). -/
theorem aligned4 (cfg : Cfg) :
    (∀ s, (writeString s).length % 4 = 0) ∧ (∀ b, (blobBytes b).length % 4 = 0) ∧
    (∀ l d, buildMsgL cfg l = .ok d → d.length % 4 = 0) ∧
    (∀ l d, buildBundleL cfg l = .ok d → d.length % 4 = 0) :=
  ⟨writeString_aligned, blobBytes_aligned, fun _ _ h => buildMsgL_aligned h,
   fun l d h => buildBundleL_aligned cfg l d h⟩

/-- strings are NUL-terminated and padded with 1..4 NULs; blobs are size-prefixed and zero padded. -/
theorem string_blob_layout :
    (∀ s, ∃ k, 1 ≤ k ∧ k ≤ 4 ∧ writeString s = s ++ zeros k) ∧
    (∀ b, blobBytes b = be32 b.length ++ b ++ zeros (blobPad b.length) ∧ blobPad b.length < 4) := by
  refine ⟨writeString_terminated, fun b => ⟨rfl, ?_⟩⟩
  unfold blobPad; omega

/-- the message layout: address string, `,`-prefixed type tag string (one tag per wire argument),
    arguments in order -/
theorem message_layout (addr : PV) (ws : List WArg) (d : Bytes) (h : encodeMsgRaw addr ws = .ok d) :
    ∃ a body, addr = .str a ∧ writeArgs ws = .ok body ∧
      d = writeString a ++ writeString (0x2C :: ws.map WArg.tag) ++ body := by
  obtain ⟨a, body, h1, _, _, h2, h3⟩ := encodeMsgRaw_ok h
  exact ⟨a, body, h1, h2, h3⟩

/-- numbers are big-endian: reading the bytes most-significant first gives the number back -/
theorem big_endian :
    (∀ n, n < 4294967296 → fromBE (be32 n) 0 = n) ∧ (∀ n, n < 18446744073709551616 → fromBE (be64 n) 0 = n) ∧
    (∀ i : Int, -2147483648 ≤ i → i < 2147483648 → toInt32 (fromBE (be32 (ofInt32 i)) 0) = i) := by
  refine ⟨fromBE_be32_zero, fromBE_be64_zero, ?_⟩
  intro i h1 h2
  rw [fromBE_be32_zero _ (ofInt32_lt i), toInt32_ofInt32 i h1 h2]

/-- bundle layout: `#bundle\0`, 8-byte timetag, then each element prefixed with its size -/
theorem element_size_prefix (tt : Int) (cs : List Bytes) (d : Bytes) (h : encodeBundleRaw tt cs = .ok d) :
    d = bundlePrefix ++ be64 tt.toNat ++ frame cs ∧ 0 ≤ tt ∧ tt < 18446744073709551616 ∧
      (∀ c ∈ cs, c.length < 2147483648) ∧
      (∀ c rest, frame (c :: rest) = be32 c.length ++ c ++ frame rest) := by
  obtain ⟨h0, h1, h2, h3⟩ := encodeBundleRaw_ok h
  exact ⟨h3, h0, h1, h2, fun _ _ => rfl⟩

/-- reading a framed element list element by element (the decoder side of `element_size_prefix`) -/
theorem frame_reads_back (cs : List Bytes) (h : ∀ c ∈ cs, c.length < 2147483648) :
    parseElems (frame cs) = parseContents cs :=
  parseElems_frame cs h

/-! ## Size prediction -/

/-- `_calc_msg_dgram_size` is defined and never below the real size, for every accepted message
    (all nestings; ASCII addresses, which is what the library's sizing encodes with). -/
theorem predict_ge_real_msg (cfg : Cfg) (l : List PV) (d : Bytes)
    (h : buildMsgL cfg l = .ok d) (ha : asciiL l = true) :
    ∃ n, calcMsg l = .ok n ∧ d.length ≤ n :=
  (predL cfg l).2.1 ha d h

/-- `_calc_bndl_dgram_size(elements)` is defined and never below the real size of the bundle. -/
theorem predict_ge_real_bundle (cfg : Cfg) (t : PV) (elements : List PV) (d : Bytes)
    (h : buildBundleL cfg (t :: elements) = .ok d) (ha : asciiAll elements = true) :
    ∃ n, calcBndl elements = .ok n ∧ d.length ≤ n := by
  obtain ⟨_, _, tt, cs, hl, _, hc, he, _⟩ := buildBundleL_ok h
  cases hl
  obtain ⟨n, hn, hle⟩ := (predL cfg elements).2.2.2 ha t cs hc
  exact ⟨n, hn, by rw [encodeBundleRaw_length he]; exact hle⟩

/-! ## Clumping -/

/-- the clumps, concatenated, are the original element list (every element once, in order) -/
theorem clump_concat (elements : List PV) (size : Nat) (cs : List (List PV))
    (h : clumpBundle elements size = .ok cs) : cs.flatten = elements :=
  clumpBundle_concat h

/-- if every element alone fits (`16 + s + 4 < size`), every clump is predicted — hence encodes —
    below `size` -/
theorem clump_within_limit (cfg : Cfg) (elements : List PV) (size : Nat) (cs : List (List PV))
    (h : clumpBundle elements size = .ok cs)
    (hfit : ∀ e ∈ elements, ∀ s, calcElem e = .ok s → 16 + s + 4 < size)
    (ha : asciiAll elements = true) :
    ∀ c ∈ cs, (∃ n, calcBndl c = .ok n ∧ n < size) ∧
      ∀ t d, buildBundleL cfg (t :: c) = .ok d → d.length < size := by
  intro c hc
  obtain ⟨n, hn, hlt⟩ := clumpBundle_within h hfit c hc
  refine ⟨⟨n, hn, hlt⟩, ?_⟩
  intro t d hb
  have hac : asciiAll c = true := by
    rw [asciiAll_iff] at ha ⊢
    exact fun e he => ha e (mem_of_clump h hc e he)
  have := bundle_le_pred hb hac hn
  omega

/-- `send_clumped_bundles`: every datagram handed to the interface is within the UDP limit and the
    datagrams carry every element exactly once, in order. -/
theorem send_clumped_within_limit (cfg : Cfg) (elements : List PV) (plan : List (List PV))
    (h : sendClumpedPlan elements = .ok plan)
    (hfit : ∀ e ∈ elements, ∀ s, calcElem e = .ok s → 16 + s + 4 < defaultClumpSize)
    (ha : asciiAll elements = true) :
    plan.flatten = elements ∧
    ∀ c ∈ plan, ∀ t d, buildBundleL cfg (t :: c) = .ok d → d.length ≤ maxUdpDgramSize := by
  unfold sendClumpedPlan at h
  cases hn : calcBndl elements with
  | error e => simp [hn] at h
  | ok n =>
    simp only [hn, ok_bind] at h
    split at h
    · refine ⟨clumpBundle_concat h, ?_⟩
      intro c hc t d hb
      have := (clump_within_limit cfg elements _ plan h hfit ha c hc).2 t d hb
      have hcmp : defaultClumpSize ≤ maxUdpDgramSize := by decide
      omega
    · rename_i hle
      simp at h; subst h
      refine ⟨by simp, ?_⟩
      intro c hc t d hb
      simp at hc; subst hc
      have := bundle_le_pred hb ha hn
      omega

theorem calcElem_sync (id : Int) : calcElem (syncMsg id) = .ok 16 := by
  simp [syncMsg, calcElem, headIsStr, PV.isStr, calcMsg, calcArgs, calcArg, isAscii, strpad4]

theorem appendSync_mem (ids : Nat → Int) : ∀ (cs : List (List PV)) (k : Nat) (c : List PV),
    c ∈ appendSync ids k cs → ∃ c0 j, c0 ∈ cs ∧ c = c0 ++ [syncMsg (ids j)]
  | [], _, _, h => by simp [appendSync] at h
  | x :: xs, k, c, h => by
    simp only [appendSync, List.mem_cons] at h
    rcases h with rfl | h
    · exact ⟨x, k, List.mem_cons_self, rfl⟩
    · obtain ⟨c0, j, h1, h2⟩ := appendSync_mem ids xs (k + 1) c h
      exact ⟨c0, j, List.mem_cons_of_mem _ h1, h2⟩

/-- `sync(elements=...)`: every datagram (clump + its `/sync`) is within the UDP limit. -/
theorem sync_within_limit (cfg : Cfg) (ids : Nat → Int) (elements : List PV) (plan : List (List PV))
    (h : syncPlan ids elements = .ok plan)
    (hfit : ∀ e ∈ elements, ∀ s, calcElem e = .ok s → 16 + s + 4 < maxUdpDgramSize - syncBndlDgramSize)
    (ha : asciiAll elements = true) :
    ∀ c ∈ plan, ∀ t d, buildBundleL cfg (t :: c) = .ok d → d.length ≤ maxUdpDgramSize := by
  unfold syncPlan at h
  have hsyncA : ∀ id, asciiA (syncMsg id) = true := by
    intro id; simp [syncMsg, asciiA, asciiL, asciiAll, isAscii]
  have hk1 : 20 ≤ syncBndlDgramSize := by decide
  have hk2 : syncBndlDgramSize ≤ maxUdpDgramSize := by decide
  cases hn : calcBndl elements with
  | error e => simp [hn] at h
  | ok n =>
    simp only [hn, ok_bind] at h
    split at h
    · cases hcl : clumpBundle elements (maxUdpDgramSize - syncBndlDgramSize) with
      | error e => simp [hcl] at h
      | ok cs =>
        simp [hcl] at h; subst h
        intro c hc t d hb
        obtain ⟨c0, j, hc0, rfl⟩ := appendSync_mem ids cs 0 c hc
        obtain ⟨m, hm, hlt⟩ := clumpBundle_within hcl hfit c0 hc0
        have hac : asciiAll (c0 ++ [syncMsg (ids j)]) = true := by
          rw [asciiAll_iff] at ha ⊢
          intro e he
          rcases List.mem_append.mp he with he | he
          · exact ha e (mem_of_clump hcl hc0 e he)
          · simp at he; subst he; exact hsyncA _
        have := bundle_le_pred hb hac (calcBndl_snoc c0 _ m 16 hm (calcElem_sync _))
        omega
    · rename_i hle
      simp at h; subst h
      intro c hc t d hb
      simp at hc; subst hc
      have hac : asciiAll (elements ++ [syncMsg (ids 0)]) = true := by
        rw [asciiAll_iff] at ha ⊢
        intro e he
        rcases List.mem_append.mp he with he | he
        · exact ha e he
        · simp at he; subst he; exact hsyncA _
      have := bundle_le_pred hb hac (calcBndl_snoc elements _ n 16 hn (calcElem_sync _))
      omega

/-- `SynthDef._do_send`: when `/d_recv` is chosen — the predicted size of the WHOLE message, completion
    message included, is within the limit — the datagram really is within the UDP limit -/
theorem d_recv_within_limit (cfg : Cfg) (defBytes : Bytes) (completion : PV) (d : Bytes)
    (hfit : doSendFits defBytes completion = .ok true)
    (hb : buildMsgL cfg (dRecvMsg defBytes completion) = .ok d) (ha : asciiA completion = true) :
    d.length ≤ maxUdpDgramSize := by
  have hasc : asciiL (dRecvMsg defBytes completion) = true := by
    simp [dRecvMsg, asciiL, asciiAll, asciiA, isAscii, ha]
  obtain ⟨n, hn, hle⟩ := predict_ge_real_msg cfg _ d hb hasc
  unfold doSendFits at hfit
  rw [hn] at hfit
  simp at hfit
  omega

/-- `BundleNetAddr` (`server.bind()`): over any sequence of `send_msg` / `send_bundle` /
    `send_clumped_bundles` / `sync` inside the `with` block, what is handed to
    `send_clumped_bundles` by the syncs and by `__exit__` is exactly the collected elements, each
    once and in order (with `clump_concat` / `send_clumped_within_limit` for each hand-over) -/
theorem bundle_netaddr_carries_all (ops : List BOp) :
    clumpedOf ((BNA.init.run ops).2 ++ (BNA.init.run ops).1.exit) = collected ops := by
  have h := bna_run ops BNA.init ⟨by simp [BNA.init], by simp [BNA.init]⟩
  rw [clumpedOf_append]
  unfold BNA.exit
  rw [clumpedOf_sendPending, h.1]
  simp [BNA.pending, BNA.init]

/-! ## Decoder totality -/

/-- `decodePacket` is a total function on byte strings (accepted by Lean without fuel: the bundle
    loop consumes at least the 4 size bytes per step once the element size is validated).  Stated
    as: every byte string gives a result or one of the five exception classes. -/
theorem decoder_total (d : Bytes) :
    (∃ ms, decodePacket d = .ok ms) ∨ (∃ e, decodePacket d = .error e) := by
  cases decodePacket d with
  | ok ms => exact Or.inl ⟨ms, rfl⟩
  | error e => exact Or.inr ⟨e, rfl⟩

/-! ## Non-vacuity -/

def cfg0 : Cfg := ⟨0, 0⟩

/-- `['/a', None, True, 1.5, 'hi', b'\x01\x02\x03', '[', 7, ']', ['/b']]` -/
def exMsg : List PV :=
  [.str [0x2F, 0x61], .none, .bool true, .float (3/2) 1069547520, .str [0x68, 0x69], .bytes [1, 2, 3],
   .str bracketOpen, .int 7, .str bracketClose, .list [.str [0x2F, 0x62]]]

example : PV.wfL exMsg = true := by decide
example : asciiL exMsg = true := by decide
example : (match buildMsgL cfg0 exMsg with | .ok d => d.length | .error _ => 0) = 56 := by decide +kernel

/-- `[0.5, ['/a', 1], [1, ['/b']]]` with send time 2 -/
def exBundle : List PV :=
  [.float (1/2) 1056964608, .list [.str [0x2F, 0x61], .int 1], .list [.int 1, .list [.str [0x2F, 0x62]]]]

example : slashB exBundle = true := by decide
example : (match buildBundleL ⟨2, 0⟩ exBundle with | .ok d => d.length | .error _ => 0) = 64 := by decide +kernel
example : (match clumpBundle [.list [.str [0x2F, 0x61]], .list [.str [0x2F, 0x62]], .list [.str [0x2F, 0x63]]] 50 with
    | .ok cs => cs.map List.length | .error _ => []) = [2, 1] := by decide +kernel

end Sc3Verif.C06
