import Sc3Verif.C06.Model
