/-
C06 — helper lemmas: byte-level facts about the writers and readers.
-/
import Sc3Verif.C06.Spec
namespace Sc3Verif.C06

/-! ### the `Except` monad -/

@[simp] theorem ok_bind {ε α β} (a : α) (f : α → Except ε β) : (Except.ok a >>= f) = f a := rfl
@[simp] theorem error_bind {ε α β} (e : ε) (f : α → Except ε β) : (Except.error e >>= f) = Except.error e := rfl
@[simp] theorem map_ok {ε α β} (a : α) (f : α → β) : (f <$> (Except.ok a : Except ε α)) = Except.ok (f a) := rfl
@[simp] theorem map_error {ε α β} (e : ε) (f : α → β) : (f <$> (Except.error e : Except ε α)) = Except.error e := rfl
@[simp] theorem pure_eq_ok {ε α} (a : α) : (pure a : Except ε α) = Except.ok a := rfl

/-! ### numbers -/

theorem u8_toNat (k : Nat) (h : k < 256) : (UInt8.ofNat k).toNat = k := by
  simp [UInt8.toNat_ofNat', Nat.mod_eq_of_lt h]

@[simp] theorem be32_length (n : Nat) : (be32 n).length = 4 := rfl

@[simp] theorem be64_length (n : Nat) : (be64 n).length = 8 := by simp [be64]

theorem fromBE_append (a b : Bytes) (acc : Nat) : fromBE (a ++ b) acc = fromBE b (fromBE a acc) := by
  induction a generalizing acc with
  | nil => rfl
  | cons x xs ih => simp [fromBE, ih]

theorem fromBE_be32 (n : Nat) (h : n < 4294967296) (acc : Nat) :
    fromBE (be32 n) acc = acc * 4294967296 + n := by
  simp only [be32, fromBE]
  rw [u8_toNat _ (Nat.mod_lt _ (by decide)), u8_toNat _ (Nat.mod_lt _ (by decide)),
    u8_toNat _ (Nat.mod_lt _ (by decide)), u8_toNat _ (Nat.mod_lt _ (by decide))]
  omega

/-- big-endian: reading what `be32` wrote gives the number back -/
theorem fromBE_be32_zero (n : Nat) (h : n < 4294967296) : fromBE (be32 n) 0 = n := by
  rw [fromBE_be32 n h]; omega

theorem fromBE_be64_zero (n : Nat) (h : n < 18446744073709551616) : fromBE (be64 n) 0 = n := by
  unfold be64
  rw [fromBE_append, fromBE_be32 _ (Nat.mod_lt _ (by decide)), fromBE_be32 _ (Nat.mod_lt _ (by decide))]
  omega

theorem ofInt32_lt (i : Int) : ofInt32 i < 4294967296 := by
  unfold ofInt32; omega

theorem toInt32_ofInt32 (i : Int) (h1 : -2147483648 ≤ i) (h2 : i < 2147483648) :
    toInt32 (ofInt32 i) = i := by
  unfold toInt32 ofInt32
  split <;> omega

theorem toInt32_nat (n : Nat) (h : n < 2147483648) : toInt32 n = (n : Int) := by
  unfold toInt32; simp [h]

/-! ### Python slices at non-negative in-range positions -/

theorem normIdx_nonneg (len : Nat) (i : Nat) : normIdx len (i : Int) = min i len := by
  unfold normIdx
  have : ¬ ((i : Int) < 0) := by omega
  simp [this]

theorem pyFrom_at (pre x : Bytes) : pyFrom (pre ++ x) (pre.length : Int) = x := by
  unfold pyFrom; rw [normIdx_nonneg]; simp

theorem pySlice_at (pre x post : Bytes) (n : Nat) (h : x.length = n) :
    pySlice (pre ++ x ++ post) (pre.length : Int) ((pre.length : Int) + (n : Int)) = x := by
  unfold pySlice
  have e : ((pre.length : Int) + (n : Int)) = ((pre.length + n : Nat) : Int) := by simp
  rw [e, normIdx_nonneg, normIdx_nonneg]
  have h1 : min pre.length (pre ++ x ++ post).length = pre.length := by simp
  have h2 : min (pre.length + n) (pre ++ x ++ post).length = pre.length + n := by simp; omega
  rw [h1, h2]
  simp [List.append_assoc, ← h]

/-! ### readers on freshly written fields -/

theorem getRaw_at (pre x post : Bytes) (n : Nat) (h : x.length = n) (e : DErr) :
    getRaw (pre ++ x ++ post) (pre.length : Int) n e = .ok x := by
  unfold getRaw
  have : pyFrom (pre ++ x ++ post) (pre.length : Int) = x ++ post := by
    rw [List.append_assoc, pyFrom_at]
  rw [this, pySlice_at pre x post n h]
  simp [h]

theorem getInt_at (pre post : Bytes) (n : Nat) (h : n < 4294967296) :
    getInt (pre ++ be32 n ++ post) (pre.length : Int) = .ok (toInt32 n, (pre.length : Int) + 4) := by
  unfold getInt
  rw [getRaw_at pre (be32 n) post 4 rfl]
  simp [fromBE_be32_zero n h]

theorem getUInt_at (pre post : Bytes) (n : Nat) (h : n < 4294967296) :
    getUInt (pre ++ be32 n ++ post) (pre.length : Int) = .ok (n, (pre.length : Int) + 4) := by
  unfold getUInt
  rw [getRaw_at pre (be32 n) post 4 rfl]
  simp [fromBE_be32_zero n h]

theorem getFloat_at (pre post : Bytes) (n : Nat) (h : n < 4294967296) :
    getFloat (pre ++ be32 n ++ post) (pre.length : Int) = .ok (n, (pre.length : Int) + 4) := by
  unfold getFloat
  have : pyFrom (pre ++ be32 n ++ post) (pre.length : Int) = be32 n ++ post := by
    rw [List.append_assoc, pyFrom_at]
  simp only [this]
  have hl : ¬ (be32 n ++ post).length < 4 := by simp
  simp only [hl, if_false]
  have := pySlice_at pre (be32 n) post 4 rfl
  rw [show ((4 : Nat) : Int) = 4 from rfl] at this
  rw [this]
  simp [fromBE_be32_zero n h]

/-! ### strings -/

theorem zeros_length (n : Nat) : (zeros n).length = n := by simp [zeros]

theorem zeros_succ (n : Nat) : zeros (n + 1) = 0 :: zeros n := by simp [zeros, List.replicate_succ]

theorem scanNul_noNul (s t : Bytes) (h : hasNul s = false) : scanNul (s ++ 0 :: t) = some s.length := by
  induction s with
  | nil => simp [scanNul]
  | cons x xs ih =>
    simp only [hasNul, List.any_cons, Bool.or_eq_false_iff] at h
    have hx : x ≠ 0 := by simpa using h.1
    simp only [List.cons_append, scanNul, hx, if_false, List.length_cons]
    rw [ih (by simpa [hasNul] using h.2)]
    rfl

theorem stripNul_noNul (s : Bytes) (h : hasNul s = false) : stripNul s = s := by
  induction s with
  | nil => rfl
  | cons x xs ih =>
    simp only [hasNul, List.any_cons, Bool.or_eq_false_iff] at h
    have hx : x ≠ 0 := by simpa using h.1
    simp only [stripNul, List.filter_cons, hx, ne_eq, not_false_eq_true, decide_true, if_true]
    congr 1
    exact ih (by simpa [hasNul] using h.2)

theorem stripNul_zeros (n : Nat) : stripNul (zeros n) = [] := by
  induction n with
  | zero => rfl
  | succ n ih => rw [zeros_succ]; simp [stripNul] at *; exact ih

theorem stripNul_append (a b : Bytes) : stripNul (a ++ b) = stripNul a ++ stripNul b := by
  simp [stripNul]

/-- the number of NULs `write_string` appends -/
def strPadLen (n : Nat) : Nat := 4 - n % 4

theorem writeString_length (s : Bytes) : (writeString s).length = s.length + strPadLen s.length := by
  simp [writeString, zeros_length, strPadLen]

/-- OSC strings are 4-byte aligned -/
theorem writeString_aligned (s : Bytes) : (writeString s).length % 4 = 0 := by
  rw [writeString_length]; unfold strPadLen; omega

/-- OSC strings are NUL-terminated (1 to 4 NULs) -/
theorem writeString_terminated (s : Bytes) :
    ∃ k, 1 ≤ k ∧ k ≤ 4 ∧ writeString s = s ++ zeros k :=
  ⟨4 - s.length % 4, by omega, by omega, rfl⟩

theorem padOffset_eq (n : Nat) : padOffset n = n + strPadLen n := by
  unfold padOffset strPadLen; split <;> omega

theorem getString_at (pre s post : Bytes) (hn : hasNul s = false) (hv : validUtf8 s = true) :
    getString (pre ++ writeString s ++ post) (pre.length : Int)
      = .ok (s, (pre.length : Int) + ((writeString s).length : Int)) := by
  unfold getString
  have h0 : ¬ ((pre.length : Int) < 0) := by omega
  simp only [h0, if_false, Int.toNat_natCast]
  have hk : strPadLen s.length = (strPadLen s.length - 1) + 1 := by unfold strPadLen; omega
  have hrest : List.drop pre.length (pre ++ writeString s ++ post)
      = s ++ 0 :: (zeros (strPadLen s.length - 1) ++ post) := by
    rw [List.append_assoc, List.drop_left]
    unfold writeString
    rw [show 4 - s.length % 4 = strPadLen s.length from rfl, hk, zeros_succ]
    simp
  rw [hrest, scanNul_noNul s _ hn]
  simp only [padOffset_eq]
  have hlen : ¬ (s.length + strPadLen s.length > (s ++ 0 :: (zeros (strPadLen s.length - 1) ++ post)).length) := by
    simp [zeros_length]; omega
  simp only [hlen, if_false]
  have htake : List.take (s.length + strPadLen s.length) (s ++ 0 :: (zeros (strPadLen s.length - 1) ++ post))
      = s ++ zeros (strPadLen s.length) := by
    rw [List.take_append]
    simp only [List.take_of_length_le (Nat.le_add_right _ _), Nat.add_sub_cancel_left]
    congr 1
    conv => rhs; rw [hk, zeros_succ]
    conv => lhs; rw [hk]
    simp [List.take_succ_cons, zeros_length]
  rw [htake, stripNul_append, stripNul_noNul s hn, stripNul_zeros]
  simp [hv, writeString_length]

/-! ### blobs and MIDI -/

def blobBytes (b : Bytes) : Bytes := be32 b.length ++ b ++ zeros (blobPad b.length)

theorem blobBytes_length (b : Bytes) : (blobBytes b).length = 4 + b.length + blobPad b.length := by
  simp [blobBytes, zeros_length]; omega

/-- blobs are size-prefixed and 4-byte aligned -/
theorem blobBytes_aligned (b : Bytes) : (blobBytes b).length % 4 = 0 := by
  rw [blobBytes_length]; unfold blobPad; omega

theorem emod_neg_four (n : Nat) : (-(n : Int)) % 4 = (blobPad n : Int) := by
  unfold blobPad; omega

theorem getBlob_at (pre b post : Bytes) (hl : b.length < 2147483648) :
    getBlob (pre ++ blobBytes b ++ post) (pre.length : Int)
      = .ok (b, (pre.length : Int) + ((blobBytes b).length : Int)) := by
  unfold getBlob
  have hd : pre ++ blobBytes b ++ post = pre ++ be32 b.length ++ (b ++ zeros (blobPad b.length) ++ post) := by
    simp [blobBytes, List.append_assoc]
  rw [hd, getInt_at pre _ b.length (by omega)]
  simp only [ok_bind]
  rw [toInt32_nat _ hl]
  have hnn : ¬ ((b.length : Int) < 0) := by omega
  simp only [hnn, if_false]
  have hfrom : pyFrom (pre ++ be32 b.length ++ (b ++ zeros (blobPad b.length) ++ post)) (pre.length : Int)
      = be32 b.length ++ (b ++ zeros (blobPad b.length) ++ post) := by
    rw [List.append_assoc, pyFrom_at]
  rw [hfrom]
  have hcond : ¬ ((pre.length : Int) + 4 + (b.length : Int) - (pre.length : Int)
      > (((be32 b.length ++ (b ++ zeros (blobPad b.length) ++ post)).length : Nat) : Int)) := by
    simp only [List.length_append, be32_length, zeros_length]; omega
  simp only [hcond, if_false]
  have hs := pySlice_at (pre ++ be32 b.length) b (zeros (blobPad b.length) ++ post) b.length rfl
  have e1 : (((pre ++ be32 b.length).length : Nat) : Int) = (pre.length : Int) + 4 := by simp
  rw [e1] at hs
  have e2 : pre ++ be32 b.length ++ b ++ (zeros (blobPad b.length) ++ post)
      = pre ++ be32 b.length ++ (b ++ zeros (blobPad b.length) ++ post) := by simp [List.append_assoc]
  rw [e2] at hs
  rw [hs, emod_neg_four, blobBytes_length]
  congr 2
  push_cast
  omega

def midiBytes (a b c d : Int) : Bytes := [byteOfInt a, byteOfInt b, byteOfInt c, byteOfInt d]

theorem byteOfInt_toNat (i : Int) : (byteOfInt i).toNat = (i % 256).toNat := by
  unfold byteOfInt
  apply u8_toNat
  omega

theorem getMidi_at (pre post : Bytes) (a b c d : Int) :
    getMidi (pre ++ midiBytes a b c d ++ post) (pre.length : Int)
      = .ok (.midi (a % 256).toNat (b % 256).toNat (c % 256).toNat (d % 256).toNat, (pre.length : Int) + 4) := by
  unfold getMidi
  rw [getRaw_at pre (midiBytes a b c d) post 4 rfl]
  simp [midiBytes, byteOfInt_toNat]

/-! ### the type-tag loop on freshly written arguments -/

theorem writeArgs_cons_ok {w : WArg} {ws : List WArg} {body : Bytes} (h : writeArgs (w :: ws) = .ok body) :
    ∃ a b, writeArg w = .ok a ∧ writeArgs ws = .ok b ∧ body = a ++ b := by
  simp only [writeArgs] at h
  cases ha : writeArg w with
  | error e => simp [ha] at h
  | ok a =>
    cases hb : writeArgs ws with
    | error e => simp [ha, hb] at h
    | ok b =>
      simp [ha, hb] at h
      exact ⟨a, b, rfl, rfl, h.symm⟩

theorem parseParams_encode (ws : List WArg) :
    ∀ (pre body post : Bytes) (cur : List DVal) (parents : List (List DVal)),
      writeArgs ws = .ok body → (∀ w ∈ ws, w.wf = true) →
      parseParams (pre ++ body ++ post) (ws.map WArg.tag) (pre.length : Int) cur parents
        = nestRun (ws.map WArg.tok) cur parents := by
  induction ws with
  | nil =>
    intro pre body post cur parents _ _
    cases parents <;> simp [parseParams, nestRun]
  | cons w ws ih =>
    intro pre body post cur parents hb hwf
    obtain ⟨a, b, ha, hb', rfl⟩ := writeArgs_cons_ok hb
    have hwf' : ∀ w ∈ ws, w.wf = true := fun x hx => hwf x (List.mem_cons_of_mem _ hx)
    have hw : w.wf = true := hwf w List.mem_cons_self
    have hassoc : pre ++ (a ++ b) ++ post = (pre ++ a) ++ b ++ post := by simp [List.append_assoc]
    have hlen : (((pre ++ a).length : Nat) : Int) = (pre.length : Int) + (a.length : Int) := by simp
    have hstep := ih (pre ++ a) b post
    rw [hlen] at hstep
    cases w with
    | int i =>
      simp only [writeArg] at ha
      split at ha
      · rename_i hr
        cases ha
        have hg := getInt_at pre (b ++ post) (ofInt32 i) (ofInt32_lt i)
        rw [toInt32_ofInt32 i hr.1 hr.2] at hg
        simp only [List.map_cons, WArg.tag, WArg.tok, parseParams, nestRun]
        rw [show pre ++ (be32 (ofInt32 i) ++ b) ++ post = pre ++ be32 (ofInt32 i) ++ (b ++ post) by
          simp [List.append_assoc]]
        simp only [hg, ok_bind, if_true]
        rw [show pre ++ be32 (ofInt32 i) ++ (b ++ post) = (pre ++ be32 (ofInt32 i)) ++ b ++ post by
          simp [List.append_assoc]]
        exact hstep _ _ hb' hwf'
      · cases ha
    | float bits =>
      have hlt : bits < 4294967296 := by simpa [WArg.wf] using hw
      simp only [writeArg, hlt, if_true] at ha
      cases ha
      have hg := getFloat_at pre (b ++ post) bits hlt
      simp only [List.map_cons, WArg.tag, WArg.tok, parseParams, nestRun]
      rw [show pre ++ (be32 bits ++ b) ++ post = pre ++ be32 bits ++ (b ++ post) by
        simp [List.append_assoc]]
      simp only [hg, ok_bind]
      rw [show pre ++ be32 bits ++ (b ++ post) = (pre ++ be32 bits) ++ b ++ post by
        simp [List.append_assoc]]
      simpa using hstep _ _ hb' hwf'
    | str s =>
      simp only [writeArg] at ha
      split at ha
      · cases ha
      · rename_i hn
        cases ha
        have hv : validUtf8 s = true := by simpa [WArg.wf] using hw
        have hg := getString_at pre s (b ++ post) (by simpa using hn) hv
        simp only [List.map_cons, WArg.tag, WArg.tok, parseParams, nestRun]
        rw [show pre ++ (writeString s ++ b) ++ post = pre ++ writeString s ++ (b ++ post) by
          simp [List.append_assoc]]
        simp only [hg, ok_bind]
        rw [show pre ++ writeString s ++ (b ++ post) = (pre ++ writeString s) ++ b ++ post by
          simp [List.append_assoc]]
        simpa using hstep _ _ hb' hwf'
    | strBad => simp [writeArg] at ha
    | blob bl =>
      simp only [writeArg] at ha
      split at ha
      · cases ha
      · split at ha
        · cases ha
        · rename_i hne hl
          cases ha
          have hg := getBlob_at pre bl (b ++ post) (by omega)
          simp only [List.map_cons, WArg.tag, WArg.tok, parseParams, nestRun]
          rw [show pre ++ (be32 bl.length ++ bl ++ zeros (blobPad bl.length) ++ b) ++ post
              = pre ++ blobBytes bl ++ (b ++ post) by simp [blobBytes, List.append_assoc]]
          simp only [hg, ok_bind]
          rw [show pre ++ blobBytes bl ++ (b ++ post) = (pre ++ blobBytes bl) ++ b ++ post by
            simp [List.append_assoc]]
          have := hstep (cur ++ [.blob bl]) parents hb' hwf'
          simpa [blobBytes] using this
    | midi m1 m2 m3 m4 =>
      simp only [writeArg] at ha
      cases ha
      have hg := getMidi_at pre (b ++ post) m1 m2 m3 m4
      simp only [List.map_cons, WArg.tag, WArg.tok, parseParams, nestRun]
      rw [show pre ++ ([byteOfInt m1, byteOfInt m2, byteOfInt m3, byteOfInt m4] ++ b) ++ post
          = pre ++ midiBytes m1 m2 m3 m4 ++ (b ++ post) by simp [midiBytes, List.append_assoc]]
      simp only [hg, ok_bind]
      rw [show pre ++ midiBytes m1 m2 m3 m4 ++ (b ++ post) = (pre ++ midiBytes m1 m2 m3 m4) ++ b ++ post by
        simp [List.append_assoc]]
      have := hstep (cur ++ [.midi (m1 % 256).toNat (m2 % 256).toNat (m3 % 256).toNat (m4 % 256).toNat])
        parents hb' hwf'
      simpa [midiBytes] using this
    | arrOpen =>
      simp only [writeArg] at ha
      cases ha
      simp only [List.map_cons, WArg.tag, WArg.tok, parseParams, nestRun]
      have := hstep [] (cur :: parents) hb' hwf'
      simpa using this
    | arrClose =>
      simp only [writeArg] at ha
      cases ha
      simp only [List.map_cons, WArg.tag, WArg.tok, parseParams, nestRun]
      cases parents with
      | nil => simp [nestRun]
      | cons p ps =>
        have := hstep (p ++ [.array cur]) ps hb' hwf'
        simpa [nestRun] using this

/-! ### arrays: the stack machine computes the unique tree with the given flattening -/

mutual
  theorem flatVal_run : ∀ (v : DVal) (rest : List Tok) (cur : List DVal) (parents : List (List DVal)),
      nestRun (flatVal v ++ rest) cur parents = nestRun rest (cur ++ [v]) parents
    | .array l, rest, cur, parents => by
      simp only [flatVal, List.cons_append, List.append_assoc, nestRun]
      rw [flatVals_run l]
      simp [nestRun]
    | .int _, _, _, _ => by simp [flatVal, nestRun]
    | .float _, _, _, _ => by simp [flatVal, nestRun]
    | .double _, _, _, _ => by simp [flatVal, nestRun]
    | .str _, _, _, _ => by simp [flatVal, nestRun]
    | .blob _, _, _, _ => by simp [flatVal, nestRun]
    | .rgba _, _, _, _ => by simp [flatVal, nestRun]
    | .midi .., _, _, _ => by simp [flatVal, nestRun]
    | .timetag _, _, _, _ => by simp [flatVal, nestRun]
    | .bool _, _, _, _ => by simp [flatVal, nestRun]
  theorem flatVals_run : ∀ (vs : List DVal) (rest : List Tok) (cur : List DVal) (parents : List (List DVal)),
      nestRun (flatVals vs ++ rest) cur parents = nestRun rest (cur ++ vs) parents
    | [], rest, cur, parents => by simp [flatVals]
    | v :: vs, rest, cur, parents => by
      simp only [flatVals, List.append_assoc]
      rw [flatVal_run v, flatVals_run vs]
      simp
end

theorem flatVals_append (a b : List DVal) : flatVals (a ++ b) = flatVals a ++ flatVals b := by
  induction a with
  | nil => simp [flatVals]
  | cons x xs ih => simp [flatVals, ih]

theorem flatVal_leaf (v : DVal) (h : v.isArray = false) : flatVal v = [Tok.leaf v] := by
  cases v <;> simp_all [flatVal, DVal.isArray]

/-- flattening of the partially built trees on the decoder's stack -/
def stackFlat : List DVal → List (List DVal) → List Tok
  | cur, [] => flatVals cur
  | cur, p :: ps => stackFlat p ps ++ [Tok.aopen] ++ flatVals cur

theorem nestRun_sound (ts : List Tok) : ∀ (cur : List DVal) (parents : List (List DVal)) (res : List DVal),
    (∀ t ∈ ts, t.leafOk = true) → nestRun ts cur parents = .ok res →
    flatVals res = stackFlat cur parents ++ ts := by
  induction ts with
  | nil =>
    intro cur parents res _ h
    cases parents with
    | nil => simp [nestRun] at h; subst h; simp [stackFlat]
    | cons p ps => simp [nestRun] at h
  | cons t ts ih =>
    intro cur parents res hok h
    have hok' : ∀ t ∈ ts, t.leafOk = true := fun x hx => hok x (List.mem_cons_of_mem _ hx)
    cases t with
    | leaf v =>
      simp only [nestRun] at h
      have hv : v.isArray = false := by
        have := hok (.leaf v) List.mem_cons_self
        simpa [Tok.leafOk] using this
      rw [ih _ _ _ hok' h]
      cases parents with
      | nil => simp [stackFlat, flatVals_append, flatVals, flatVal_leaf v hv]
      | cons p ps => simp [stackFlat, flatVals_append, flatVals, flatVal_leaf v hv]
    | aopen =>
      simp only [nestRun] at h
      rw [ih _ _ _ hok' h]
      simp [stackFlat, flatVals]
    | aclose =>
      cases parents with
      | nil => simp [nestRun] at h
      | cons p ps =>
        simp only [nestRun] at h
        rw [ih _ _ _ hok' h]
        cases ps with
        | nil => simp [stackFlat, flatVals_append, flatVals, flatVal]
        | cons q qs => simp [stackFlat, flatVals_append, flatVals, flatVal]

theorem nestRun_iff_flat' (ts : List Tok) (vs : List DVal) (hok : ∀ t ∈ ts, t.leafOk = true) :
    nestRun ts [] [] = .ok vs ↔ flatVals vs = ts := by
  constructor
  · intro h
    have := nestRun_sound ts [] [] vs hok h
    simpa [stackFlat, flatVals] using this
  · intro h
    subst h
    have := flatVals_run vs [] [] []
    simpa [nestRun] using this

theorem tok_leafOk (w : WArg) : w.tok.leafOk = true := by
  cases w <;> simp [WArg.tok, Tok.leafOk, DVal.isArray]

/-! ### whole messages -/

theorem validUtf8_ascii (s : Bytes) (h : ∀ b ∈ s, b < 0x80) : validUtf8 s = true := by
  induction s with
  | nil => rfl
  | cons x xs ih =>
    have hx : x < 0x80 := h x List.mem_cons_self
    have e : validUtf8 (x :: xs) = validUtf8 xs := by
      conv => lhs; unfold validUtf8
      simp only [hx, if_true]
    rw [e]
    exact ih fun b hb => h b (List.mem_cons_of_mem _ hb)

theorem tag_ascii (w : WArg) : w.tag < 0x80 ∧ w.tag ≠ 0 := by
  cases w <;> (simp only [WArg.tag]; decide)

theorem tags_valid (ws : List WArg) : validUtf8 (0x2C :: ws.map WArg.tag) = true := by
  apply validUtf8_ascii
  intro b hb
  rcases List.mem_cons.mp hb with rfl | hb
  · decide
  · obtain ⟨w, _, rfl⟩ := List.mem_map.mp hb
    exact (tag_ascii w).1

theorem tags_noNul (ws : List WArg) : hasNul (0x2C :: ws.map WArg.tag) = false := by
  simp only [hasNul, List.any_cons, Bool.or_eq_false_iff]
  refine ⟨by decide, ?_⟩
  rw [List.any_eq_false]
  intro b hb
  obtain ⟨w, _, rfl⟩ := List.mem_map.mp hb
  have := (tag_ascii w).2
  simpa using this

/-- shape of an accepted raw message datagram -/
theorem encodeMsgRaw_ok {addr : PV} {ws : List WArg} {d : Bytes} (h : encodeMsgRaw addr ws = .ok d) :
    ∃ a body, addr = .str a ∧ a ≠ [] ∧ hasNul a = false ∧ writeArgs ws = .ok body ∧
      d = writeString a ++ writeString (0x2C :: ws.map WArg.tag) ++ body := by
  unfold encodeMsgRaw at h
  cases addr with
  | str a =>
    simp only at h
    split at h
    · cases h
    · rename_i hne
      split at h
      · cases h
      · rename_i hn
        cases hb : writeArgs ws with
        | error e => simp [hb] at h
        | ok body =>
          simp [hb] at h
          exact ⟨a, body, rfl, by simpa using hne, by simpa using hn, rfl, by simp [h.symm]⟩
  | _ => simp at h

def mkMsg (a : Bytes) (r : Except DErr (List DVal)) : Except DErr DMsg :=
  match r with
  | .ok vs => .ok ⟨a, vs⟩
  | .error e => .error e

theorem nestRun_error (ts : List Tok) : ∀ (cur : List DVal) (parents : List (List DVal)) (e : DErr),
    nestRun ts cur parents = .error e → e = .msgParse := by
  induction ts with
  | nil => intro cur parents e h; cases parents <;> simp [nestRun] at h; exact h.symm
  | cons t ts ih =>
    intro cur parents e h
    cases t with
    | leaf v => exact ih _ _ _ (by simpa [nestRun] using h)
    | aopen => exact ih _ _ _ (by simpa [nestRun] using h)
    | aclose =>
      cases parents with
      | nil => simp [nestRun] at h; exact h.symm
      | cons p ps => exact ih _ _ _ (by simpa [nestRun] using h)

/-- `OscMessage(dgram)` on a datagram written by `OscMessageBuilder.build`: address back, and the
    parameters are what the array machine makes of the argument tokens. -/
theorem parseMsg_encode (a : Bytes) (ws : List WArg) (d : Bytes)
    (h : encodeMsgRaw (.str a) ws = .ok d) (hv : validUtf8 a = true) (hwf : ∀ w ∈ ws, w.wf = true) :
    parseMsg d = mkMsg a (nestRun (ws.map WArg.tok) [] []) := by
  obtain ⟨a', body, ha, hne, hn, hb, rfl⟩ := encodeMsgRaw_ok h
  cases ha
  unfold parseMsg
  have h1 := getString_at [] a (writeString (0x2C :: ws.map WArg.tag) ++ body) hn hv
  simp only [List.nil_append, List.length_nil] at h1
  rw [show writeString a ++ writeString (0x2C :: ws.map WArg.tag) ++ body
      = writeString a ++ (writeString (0x2C :: ws.map WArg.tag) ++ body) by simp [List.append_assoc]]
  rw [show ((0 : Nat) : Int) = 0 from rfl] at h1
  simp only [h1, ok_bind]
  have h2 : pyFrom (writeString a ++ (writeString (0x2C :: ws.map WArg.tag) ++ body))
      (0 + ((writeString a).length : Int)) = writeString (0x2C :: ws.map WArg.tag) ++ body := by
    rw [Int.zero_add]; exact pyFrom_at _ _
  have h2' : (writeString (0x2C :: ws.map WArg.tag) ++ body).isEmpty = false := by
    simp [writeString]
  simp only [h2, h2']
  have h3 := getString_at (writeString a) (0x2C :: ws.map WArg.tag) body (tags_noNul ws) (tags_valid ws)
  rw [List.append_assoc] at h3
  rw [Int.zero_add]
  simp only [Bool.false_eq_true, if_false, h3, ok_bind, stripComma]
  have h4 := parseParams_encode ws (writeString a ++ writeString (0x2C :: ws.map WArg.tag)) body [] [] [] hb hwf
  simp only [List.append_nil, List.length_append, Int.natCast_add] at h4
  rw [show writeString a ++ (writeString (0x2C :: ws.map WArg.tag) ++ body)
      = writeString a ++ writeString (0x2C :: ws.map WArg.tag) ++ body by simp [List.append_assoc]]
  rw [h4]
  cases hr : nestRun (ws.map WArg.tok) [] [] with
  | ok vs => simp [mkMsg, typeToMsg]
  | error e =>
    have := nestRun_error _ _ _ _ hr
    subst this
    simp [mkMsg, typeToMsg]

/-! ### bundles -/

theorem frame_cons (c : Bytes) (cs : List Bytes) : frame (c :: cs) = be32 c.length ++ (c ++ frame cs) := by
  simp [frame, List.append_assoc]

/-- MAIN framing lemma: reading a size-prefixed concatenation element by element. -/
theorem parseElems_frame (cs : List Bytes) (h : ∀ c ∈ cs, c.length < 2147483648) :
    parseElems (frame cs) = parseContents cs := by
  induction cs with
  | nil => rw [parseElems]; simp [frame, parseContents]
  | cons c cs ih =>
    have hc : c.length < 2147483648 := h c List.mem_cons_self
    have ih' := ih fun x hx => h x (List.mem_cons_of_mem _ hx)
    rw [parseElems, frame_cons]
    have h1 : (be32 c.length ++ (c ++ frame cs)).isEmpty = false := by simp [be32]
    have h2 : ¬ (be32 c.length ++ (c ++ frame cs)).length < 4 := by simp
    have h3 : List.take 4 (be32 c.length ++ (c ++ frame cs)) = be32 c.length := by
      rw [List.take_left' (be32_length _)]
    have h4 : List.drop 4 (be32 c.length ++ (c ++ frame cs)) = c ++ frame cs := by
      rw [List.drop_left' (be32_length _)]
    simp only [h1, h2, h3, h4, Bool.false_eq_true, if_false, fromBE_be32_zero _ (show c.length < 4294967296 by omega),
      toInt32_nat _ hc]
    have h5 : ¬ ((c.length : Int) < 0 ∨ (c.length : Int) > ((c ++ frame cs).length : Int)) := by
      simp only [List.length_append]; omega
    simp only [h5, if_false, Int.toNat_natCast, List.take_left, List.drop_left]
    simp only [parseContents, parseContent]
    by_cases hb : isBundle c = true
    · simp only [hb, if_true]
      by_cases hl : c.length < 16
      · simp [hl]
      · simp only [hl, if_false, ih']
        cases parseElems (c.drop 16) with
        | error e => simp
        | ok sub =>
          simp only [ok_bind]
          cases parseContents cs <;> simp [consOpt]
    · simp only [hb, Bool.false_eq_true, if_false]
      by_cases hm : isMsg c = true
      · simp only [hm, if_true, ih']
        cases toBundleErr (parseMsg c) with
        | error e => simp
        | ok m =>
          simp only [ok_bind]
          cases parseContents cs <;> simp [consOpt]
      · simp only [hm, Bool.false_eq_true, if_false, ih', ok_bind, pure_eq_ok]
        cases parseContents cs <;> simp [consOpt]

/-- shape of an accepted raw bundle datagram -/
theorem encodeBundleRaw_ok {tt : Int} {cs : List Bytes} {d : Bytes} (h : encodeBundleRaw tt cs = .ok d) :
    0 ≤ tt ∧ tt < 18446744073709551616 ∧ (∀ c ∈ cs, c.length < 2147483648) ∧
      d = bundlePrefix ++ be64 tt.toNat ++ frame cs := by
  unfold encodeBundleRaw at h
  split at h
  · cases h
  · rename_i h1
    split at h
    · cases h
    · rename_i h2
      cases h
      refine ⟨by omega, by omega, ?_, rfl⟩
      intro c hc
      have h2' : (cs.any fun c => decide (c.length ≥ 2147483648)) = false := by
        cases hx : cs.any fun c => decide (c.length ≥ 2147483648)
        · rfl
        · exact absurd hx h2
      have := List.any_eq_false.mp h2' c hc
      simpa using this

theorem parseBundle_encode {tt : Int} {cs : List Bytes} {d : Bytes} (h : encodeBundleRaw tt cs = .ok d) :
    parseBundle d = (do let es ← parseContents cs; pure (tt.toNat, es)) := by
  obtain ⟨h0, h1, hs, rfl⟩ := encodeBundleRaw_ok h
  unfold parseBundle
  have hl : ¬ (bundlePrefix ++ be64 tt.toNat ++ frame cs).length < 16 := by
    simp [bundlePrefix]
  have hp : (bundlePrefix ++ be64 tt.toNat).length = 16 := by simp [bundlePrefix]
  have hd : List.drop 16 (bundlePrefix ++ be64 tt.toNat ++ frame cs) = frame cs := List.drop_left' hp
  have h8 : List.take 8 (List.drop 8 (bundlePrefix ++ be64 tt.toNat ++ frame cs)) = be64 tt.toNat := by
    rw [List.append_assoc, List.drop_left' (by simp [bundlePrefix]), List.take_left' (be64_length _)]
  simp only [hl, if_false, hd, h8, parseElems_frame cs hs]
  rw [fromBE_be64_zero _ (by omega)]

theorem isBundle_encode {tt : Int} {cs : List Bytes} {d : Bytes} (h : encodeBundleRaw tt cs = .ok d) :
    isBundle d = true := by
  obtain ⟨_, _, _, rfl⟩ := encodeBundleRaw_ok h
  simp [isBundle, bundlePrefix]

theorem parseContent_bundle (c : Bytes) (h : isBundle c = true) :
    parseContent c = (do let r ← parseBundle c; pure (some (.bundle r.1 r.2))) := by
  unfold parseContent parseBundle
  simp only [h, if_true]
  by_cases hl : c.length < 16
  · simp [hl]
  · simp only [hl, if_false]
    cases parseElems (c.drop 16) <;> simp

/-! ### unfolding the builders -/

theorem finishMsg_ok {addr : PV} {ws : List WArg} {d : Bytes} (h : finishMsg addr ws = .ok d) :
    encodeMsgRaw addr ws = .ok d ∧ ∃ m, parseMsg d = .ok m := by
  unfold finishMsg at h
  cases he : encodeMsgRaw addr ws with
  | error e => simp [he] at h
  | ok d' =>
    simp only [he, ok_bind] at h
    cases hp : parseMsg d' with
    | error e => simp [hp] at h
    | ok m => simp [hp] at h; subst h; exact ⟨rfl, m, hp⟩

theorem buildMsgL_ok {cfg : Cfg} {l : List PV} {d : Bytes} (h : buildMsgL cfg l = .ok d) :
    ∃ addr args ws, l = addr :: args ∧ coerceArgs cfg args = .ok ws ∧ encodeMsgRaw addr ws = .ok d ∧
      ∃ m, parseMsg d = .ok m := by
  cases l with
  | nil => simp [buildMsgL] at h
  | cons addr args =>
    simp only [buildMsgL] at h
    cases hc : coerceArgs cfg args with
    | error e => simp [hc] at h
    | ok ws =>
      simp only [hc, ok_bind] at h
      obtain ⟨h1, h2⟩ := finishMsg_ok h
      exact ⟨addr, args, ws, rfl, hc, h1, h2⟩

theorem finishBundle_ok {tt : Int} {cs : List Bytes} {d : Bytes} (h : finishBundle tt cs = .ok d) :
    encodeBundleRaw tt cs = .ok d ∧ ∃ r, parseBundle d = .ok r := by
  unfold finishBundle at h
  cases he : encodeBundleRaw tt cs with
  | error e => simp [he] at h
  | ok d' =>
    simp only [he, ok_bind] at h
    cases hp : parseBundle d' with
    | error e => simp [hp] at h
    | ok m => simp [hp] at h; subst h; exact ⟨rfl, m, hp⟩

theorem buildBundleL_ok {cfg : Cfg} {l : List PV} {d : Bytes} (h : buildBundleL cfg l = .ok d) :
    ∃ t es tt cs, l = t :: es ∧ getTimetagOf cfg t = .ok tt ∧ buildElems cfg t es = .ok cs ∧
      encodeBundleRaw tt cs = .ok d ∧ ∃ r, parseBundle d = .ok r := by
  cases l with
  | nil => simp [buildBundleL] at h
  | cons t es =>
    simp only [buildBundleL] at h
    cases ht : getTimetagOf cfg t with
    | error e => simp [ht] at h
    | ok tt =>
      simp only [ht, ok_bind] at h
      cases hc : buildElems cfg t es with
      | error e => simp [hc] at h
      | ok cs =>
        simp only [hc, ok_bind] at h
        obtain ⟨h1, h2⟩ := finishBundle_ok h
        exact ⟨t, es, tt, cs, rfl, ht, hc, h1, h2⟩

theorem buildElems_cons_ok {cfg : Cfg} {parent e : PV} {es : List PV} {cs : List Bytes}
    (h : buildElems cfg parent (e :: es) = .ok cs) :
    ∃ c cs', buildElem cfg parent e = .ok c ∧ buildElems cfg parent es = .ok cs' ∧ cs = c :: cs' := by
  simp only [buildElems] at h
  cases hc : buildElem cfg parent e with
  | error e => simp [hc] at h
  | ok c =>
    simp only [hc, ok_bind] at h
    cases hs : buildElems cfg parent es with
    | error e => simp [hs] at h
    | ok cs' => simp [hs] at h; exact ⟨c, cs', rfl, rfl, h.symm⟩

theorem buildElem_ok {cfg : Cfg} {parent e : PV} {c : Bytes} (h : buildElem cfg parent e = .ok c) :
    ∃ l, e = .list l ∧ l.isEmpty = false ∧ ((headIsStr l = true ∧ buildMsgL cfg l = .ok c) ∨
      (headIsStr l = false ∧ headIsTime l = true ∧ buildBundleL cfg l = .ok c)) := by
  cases e with
  | list l =>
    refine ⟨l, rfl, ?_⟩
    simp only [buildElem] at h
    split at h
    · cases h
    · rename_i hne
      refine ⟨by simpa using hne, ?_⟩
      split at h
      · rename_i hs; exact Or.inl ⟨hs, h⟩
      · rename_i hs
        split at h
        · rename_i ht
          cases hcs : checkSubtimeL parent l with
          | error e => simp [hcs] at h
          | ok u => simp [hcs] at h; exact Or.inr ⟨by simpa using hs, ht, h⟩
        · cases h
  | _ => simp [buildElem] at h

theorem coerceArgs_cons_ok {cfg : Cfg} {a : PV} {rest : List PV} {ws : List WArg}
    (h : coerceArgs cfg (a :: rest) = .ok ws) :
    ∃ w ws', coerceArg cfg a = .ok w ∧ coerceArgs cfg rest = .ok ws' ∧ ws = w :: ws' := by
  simp only [coerceArgs] at h
  cases hc : coerceArg cfg a with
  | error e => simp [hc] at h
  | ok w =>
    simp only [hc, ok_bind] at h
    cases hs : coerceArgs cfg rest with
    | error e => simp [hs] at h
    | ok ws' => simp [hs] at h; exact ⟨w, ws', rfl, rfl, h.symm⟩

theorem coerceArg_wf {cfg : Cfg} {a : PV} {w : WArg} (hw : a.wf = true) (h : coerceArg cfg a = .ok w) :
    w.wf = true := by
  cases a with
  | none => simp [coerceArg] at h; subst h; rfl
  | bool b => simp [coerceArg] at h; subst h; rfl
  | int i => simp [coerceArg] at h; subst h; rfl
  | float v bits => simp [coerceArg] at h; subst h; simpa [PV.wf, WArg.wf] using hw
  | str s =>
    simp only [coerceArg] at h
    split at h
    · cases h; rfl
    · split at h
      · cases h; rfl
      · cases h; simpa [PV.wf, WArg.wf] using hw
  | strBad => simp [coerceArg] at h; subst h; rfl
  | bytes b => simp [coerceArg] at h; subst h; rfl
  | other => simp [coerceArg] at h
  | tuple l =>
    simp only [coerceArg] at h
    split at h
    · split at h
      · cases h; rfl
      · cases h
    · cases h
  | list l =>
    simp only [coerceArg] at h
    split at h
    · cases h; rfl
    · split at h
      · cases hb : buildMsgL cfg l with
        | error e => simp [hb] at h
        | ok d => simp [hb] at h; subst h; rfl
      · split at h
        · cases hb : buildBundleL cfg l with
          | error e => simp [hb] at h
          | ok d => simp [hb] at h; subst h; rfl
        · cases h

theorem coerceArgs_wf {cfg : Cfg} : ∀ {args : List PV} {ws : List WArg}, PV.wfL args = true →
    coerceArgs cfg args = .ok ws → ∀ w ∈ ws, w.wf = true
  | [], ws, _, h => by simp [coerceArgs] at h; subst h; simp
  | a :: rest, ws, hw, h => by
    obtain ⟨w, ws', h1, h2, rfl⟩ := coerceArgs_cons_ok h
    simp only [PV.wfL, Bool.and_eq_true] at hw
    intro x hx
    rcases List.mem_cons.mp hx with rfl | hx
    · exact coerceArg_wf hw.1 h1
    · exact coerceArgs_wf hw.2 h2 x hx

/-! ### deep round trip -/

theorem msg_parse {cfg : Cfg} {l : List PV} {d : Bytes} (h : buildMsgL cfg l = .ok d)
    (hw : PV.wfL l = true) :
    ∃ a args ws vs, l = .str a :: args ∧ coerceArgs cfg args = .ok ws ∧
      nestRun (ws.map WArg.tok) [] [] = .ok vs ∧ parseMsg d = .ok ⟨a, vs⟩ ∧
      denoteMsgL cfg l = some ⟨a, vs⟩ ∧ a ≠ [] ∧ d.head? = a.head? := by
  obtain ⟨addr, args, ws, rfl, hc, he, m, hm⟩ := buildMsgL_ok h
  obtain ⟨a, body, rfl, hne, hn, hb, hd⟩ := encodeMsgRaw_ok he
  simp only [PV.wfL, PV.wf, Bool.and_eq_true] at hw
  have hp := parseMsg_encode a ws d he hw.1 (coerceArgs_wf hw.2 hc)
  cases hr : nestRun (ws.map WArg.tok) [] [] with
  | error e => rw [hr, hm] at hp; simp [mkMsg] at hp
  | ok vs =>
    rw [hr] at hp
    refine ⟨a, args, ws, vs, rfl, hc, hr, by simpa [mkMsg] using hp, by simp [denoteMsgL, hc, hr], hne, ?_⟩
    subst hd
    cases a with
    | nil => exact absurd rfl hne
    | cons x xs => simp [writeString]

theorem isBundle_of_head {d : Bytes} (h : d.head? = some 0x2F) : isBundle d = false := by
  cases d with
  | nil => simp at h
  | cons x xs =>
    simp at h; subst h
    simp [isBundle, bundlePrefix]

theorem addrSlash_head {a : Bytes} {args : List PV} (h : addrSlash (.str a :: args) = true) :
    a.head? = some 0x2F := by
  cases a with
  | nil => simp [addrSlash] at h
  | cons x xs =>
    unfold addrSlash at h
    split at h
    · rename_i heq; cases heq; rfl
    · cases h

mutual
  theorem elem_parse (cfg : Cfg) : ∀ (e : PV) (parent : PV) (c : Bytes),
      buildElem cfg parent e = .ok c → e.wf = true → slashE e = true →
      ∃ de, denoteElem cfg e = some de ∧ parseContent c = .ok (some de)
    | .list l, parent, c, h, hw, hs => by
      obtain ⟨l', hl, _, hcase⟩ := buildElem_ok h
      cases hl
      simp only [PV.wf] at hw
      rcases hcase with ⟨hstr, hb⟩ | ⟨hstr, _, hb⟩
      · obtain ⟨a, args, ws, vs, rfl, hc, hr, hp, hden, hne, hhead⟩ := msg_parse hb hw
        simp only [slashE, hstr, if_true] at hs
        have h2f := addrSlash_head hs
        rw [← hhead] at h2f
        refine ⟨.msg ⟨a, vs⟩, by simp [denoteElem, hstr, hden], ?_⟩
        simp [parseContent, isBundle_of_head h2f, isMsg, h2f, hp, toBundleErr]
      · simp only [slashE, hstr, Bool.false_eq_true, if_false] at hs
        obtain ⟨tt, es, hden, hp⟩ := bundle_parse cfg l c hb hw hs
        obtain ⟨_, _, _, _, _, _, _, he, _⟩ := buildBundleL_ok hb
        refine ⟨.bundle tt es, by simp [denoteElem, hstr, hden], ?_⟩
        rw [parseContent_bundle c (isBundle_encode he), hp]
        rfl
    | .none, _, _, h, _, _ => by simp [buildElem] at h
    | .bool _, _, _, h, _, _ => by simp [buildElem] at h
    | .int _, _, _, h, _, _ => by simp [buildElem] at h
    | .float .., _, _, h, _, _ => by simp [buildElem] at h
    | .str _, _, _, h, _, _ => by simp [buildElem] at h
    | .strBad, _, _, h, _, _ => by simp [buildElem] at h
    | .bytes _, _, _, h, _, _ => by simp [buildElem] at h
    | .tuple _, _, _, h, _, _ => by simp [buildElem] at h
    | .other, _, _, h, _, _ => by simp [buildElem] at h
  theorem elems_parse (cfg : Cfg) : ∀ (es : List PV) (parent : PV) (cs : List Bytes),
      buildElems cfg parent es = .ok cs → PV.wfL es = true → slashEs es = true →
      ∃ des, denoteElems cfg es = some des ∧ parseContents cs = .ok des
    | [], parent, cs, h, _, _ => by
      simp [buildElems] at h; subst h
      exact ⟨[], by simp [denoteElems], by simp [parseContents]⟩
    | e :: es, parent, cs, h, hw, hs => by
      obtain ⟨c, cs', h1, h2, rfl⟩ := buildElems_cons_ok h
      simp only [PV.wfL, Bool.and_eq_true] at hw
      simp only [slashEs, Bool.and_eq_true] at hs
      obtain ⟨de, hd1, hp1⟩ := elem_parse cfg e parent c h1 hw.1 hs.1
      obtain ⟨des, hd2, hp2⟩ := elems_parse cfg es parent cs' h2 hw.2 hs.2
      exact ⟨de :: des, by simp [denoteElems, hd1, hd2], by simp [parseContents, hp1, hp2, consOpt]⟩
  theorem bundle_parse (cfg : Cfg) : ∀ (l : List PV) (d : Bytes),
      buildBundleL cfg l = .ok d → PV.wfL l = true → slashB l = true →
      ∃ tt es, denoteBundleL cfg l = some (tt, es) ∧ parseBundle d = .ok (tt, es)
    | [], d, h, _, _ => by simp [buildBundleL] at h
    | t :: es, d, h, hw, hs => by
      obtain ⟨t', es', tt, cs, hl, ht, hc, he, _⟩ := buildBundleL_ok h
      cases hl
      simp only [PV.wfL, Bool.and_eq_true] at hw
      simp only [slashB] at hs
      obtain ⟨des, hd, hp⟩ := elems_parse cfg es t cs hc hw.2 hs
      refine ⟨tt.toNat, des, by simp [denoteBundleL, ht, hd], ?_⟩
      rw [parseBundle_encode he, hp]
      rfl
end

/-! ### lengths and alignment -/

theorem strpad4_eq (n : Nat) : n + strPadLen n = strpad4 n := by
  unfold strPadLen strpad4; omega

theorem writeString_length' (s : Bytes) : (writeString s).length = strpad4 s.length := by
  rw [writeString_length, strpad4_eq]

theorem pad4_eq (n : Nat) : 4 + n + blobPad n = pad4 n + 4 := by
  unfold blobPad pad4; omega

/-- encoded length of a wire argument -/
theorem writeArg_length {w : WArg} {x : Bytes} (h : writeArg w = .ok x) :
    x.length % 4 = 0 ∧
    (match w with
     | .int _ => x.length = 4 | .float _ => x.length = 4 | .midi .. => x.length = 4
     | .str s => x.length = strpad4 s.length
     | .blob b => x.length = pad4 b.length + 4
     | .arrOpen => x.length = 0 | .arrClose => x.length = 0
     | .strBad => False) := by
  cases w with
  | int i => simp only [writeArg] at h; split at h <;> cases h; simp
  | float b => simp only [writeArg] at h; split at h <;> cases h; simp
  | str s =>
    simp only [writeArg] at h; split at h <;> cases h
    exact ⟨writeString_aligned s, writeString_length' s⟩
  | strBad => cases h
  | blob b =>
    simp only [writeArg] at h
    split at h
    · cases h
    · split at h
      · cases h
      · cases h
        have := blobBytes_length b
        have h2 := blobBytes_aligned b
        unfold blobBytes at this h2
        exact ⟨h2, by rw [this, pad4_eq]⟩
  | midi a b c d => cases h; simp [writeArg]
  | arrOpen => cases h; simp [writeArg]
  | arrClose => cases h; simp [writeArg]

theorem writeArgs_aligned : ∀ {ws : List WArg} {body : Bytes}, writeArgs ws = .ok body → body.length % 4 = 0
  | [], body, h => by simp [writeArgs] at h; subst h; rfl
  | w :: ws, body, h => by
    obtain ⟨a, b, ha, hb, rfl⟩ := writeArgs_cons_ok h
    have := (writeArg_length ha).1
    have := writeArgs_aligned hb
    simp only [List.length_append]; omega

theorem encodeMsgRaw_length {addr : PV} {ws : List WArg} {d : Bytes} (h : encodeMsgRaw addr ws = .ok d) :
    ∃ a body, addr = .str a ∧ writeArgs ws = .ok body ∧
      d.length = strpad4 a.length + strpad4 (ws.length + 1) + body.length := by
  obtain ⟨a, body, rfl, _, _, hb, rfl⟩ := encodeMsgRaw_ok h
  refine ⟨a, body, rfl, hb, ?_⟩
  simp [writeString_length']; omega

theorem strpad4_mod (n : Nat) : strpad4 n % 4 = 0 := by unfold strpad4; omega

/-- every message datagram is 4-byte aligned -/
theorem buildMsgL_aligned {cfg : Cfg} {l : List PV} {d : Bytes} (h : buildMsgL cfg l = .ok d) :
    d.length % 4 = 0 := by
  obtain ⟨addr, args, ws, _, _, he, _⟩ := buildMsgL_ok h
  obtain ⟨a, body, _, hb, hl⟩ := encodeMsgRaw_length he
  have := writeArgs_aligned hb
  have := strpad4_mod a.length
  have := strpad4_mod (ws.length + 1)
  omega

def frameLen : List Bytes → Nat
  | [] => 0
  | c :: cs => 4 + c.length + frameLen cs

theorem frame_length (cs : List Bytes) : (frame cs).length = frameLen cs := by
  induction cs with
  | nil => rfl
  | cons c cs ih => simp [frame, frameLen, ih]; omega

theorem encodeBundleRaw_length {tt : Int} {cs : List Bytes} {d : Bytes} (h : encodeBundleRaw tt cs = .ok d) :
    d.length = 16 + frameLen cs := by
  obtain ⟨_, _, _, rfl⟩ := encodeBundleRaw_ok h
  simp [bundlePrefix, frame_length]; omega

theorem frameLen_aligned (cs : List Bytes) (h : ∀ c ∈ cs, c.length % 4 = 0) : frameLen cs % 4 = 0 := by
  induction cs with
  | nil => rfl
  | cons c cs ih =>
    have := h c List.mem_cons_self
    have := ih fun x hx => h x (List.mem_cons_of_mem _ hx)
    simp only [frameLen]; omega

mutual
  theorem buildElem_aligned (cfg : Cfg) : ∀ (e parent : PV) (c : Bytes),
      buildElem cfg parent e = .ok c → c.length % 4 = 0
    | .list l, parent, c, h => by
      obtain ⟨l', hl, _, hcase⟩ := buildElem_ok h
      cases hl
      rcases hcase with ⟨_, hb⟩ | ⟨_, _, hb⟩
      · exact buildMsgL_aligned hb
      · exact buildBundleL_aligned cfg l c hb
    | .none, _, _, h => by simp [buildElem] at h
    | .bool _, _, _, h => by simp [buildElem] at h
    | .int _, _, _, h => by simp [buildElem] at h
    | .float .., _, _, h => by simp [buildElem] at h
    | .str _, _, _, h => by simp [buildElem] at h
    | .strBad, _, _, h => by simp [buildElem] at h
    | .bytes _, _, _, h => by simp [buildElem] at h
    | .tuple _, _, _, h => by simp [buildElem] at h
    | .other, _, _, h => by simp [buildElem] at h
  theorem buildElems_aligned (cfg : Cfg) : ∀ (es : List PV) (parent : PV) (cs : List Bytes),
      buildElems cfg parent es = .ok cs → ∀ c ∈ cs, c.length % 4 = 0
    | [], _, cs, h => by simp [buildElems] at h; subst h; simp
    | e :: es, parent, cs, h => by
      obtain ⟨c, cs', h1, h2, rfl⟩ := buildElems_cons_ok h
      intro x hx
      rcases List.mem_cons.mp hx with rfl | hx
      · exact buildElem_aligned cfg e parent _ h1
      · exact buildElems_aligned cfg es parent cs' h2 x hx
  /-- every bundle datagram is 4-byte aligned, at every nesting depth -/
  theorem buildBundleL_aligned (cfg : Cfg) : ∀ (l : List PV) (d : Bytes),
      buildBundleL cfg l = .ok d → d.length % 4 = 0
    | [], d, h => by simp [buildBundleL] at h
    | t :: es, d, h => by
      obtain ⟨t', es', tt, cs, hl, _, hc, he, _⟩ := buildBundleL_ok h
      cases hl
      rw [encodeBundleRaw_length he]
      have := frameLen_aligned cs (buildElems_aligned cfg es t cs hc)
      omega
end

/-! ### size prediction -/

theorem coerceArgs_length {cfg : Cfg} : ∀ {args : List PV} {ws : List WArg},
    coerceArgs cfg args = .ok ws → ws.length = args.length
  | [], ws, h => by simp [coerceArgs] at h; subst h; rfl
  | a :: rest, ws, h => by
    obtain ⟨w, ws', _, h2, rfl⟩ := coerceArgs_cons_ok h
    simp [coerceArgs_length h2]

theorem pad4_aligned (n : Nat) (h : n % 4 = 0) : pad4 n = n := by unfold pad4; omega

theorem strpad4_one : strpad4 1 = 4 := rfl

/-- prediction for one coerced argument that is not a list -/
theorem predArg_leaf {cfg : Cfg} {a : PV} {w : WArg} {x : Bytes} (hl : ∀ l, a ≠ .list l)
    (hc : coerceArg cfg a = .ok w) (hx : writeArg w = .ok x) :
    ∃ n, calcArg a = .ok n ∧ x.length ≤ n := by
  have hlen := (writeArg_length hx).2
  cases a with
  | none => simp [coerceArg] at hc; subst hc; exact ⟨4, by simp [calcArg], by simp at hlen; omega⟩
  | bool b => simp [coerceArg] at hc; subst hc; exact ⟨4, by simp [calcArg], by simp at hlen; omega⟩
  | int i => simp [coerceArg] at hc; subst hc; exact ⟨4, by simp [calcArg], by simp at hlen; omega⟩
  | float v b => simp [coerceArg] at hc; subst hc; exact ⟨4, by simp [calcArg], by simp at hlen; omega⟩
  | str s =>
    refine ⟨strpad4 s.length, by simp [calcArg], ?_⟩
    simp only [coerceArg] at hc
    split at hc
    · cases hc; simp at hlen; simp [hlen]
    · split at hc
      · cases hc; simp at hlen; simp [hlen]
      · cases hc; simp at hlen; omega
  | strBad => simp [coerceArg] at hc; subst hc; simp at hlen
  | bytes b => simp [coerceArg] at hc; subst hc; exact ⟨pad4 b.length + 4, by simp [calcArg], by simp at hlen; omega⟩
  | other => simp [coerceArg] at hc
  | tuple l =>
    refine ⟨4, by simp [calcArg], ?_⟩
    simp only [coerceArg] at hc
    split at hc
    · split at hc
      · cases hc; simp at hlen; omega
      · cases hc
    · cases hc
  | list l => exact absurd rfl (hl l)

mutual
  theorem predA (cfg : Cfg) : ∀ (a : PV), asciiA a = true →
      (∀ w x, coerceArg cfg a = .ok w → writeArg w = .ok x → ∃ n, calcArg a = .ok n ∧ x.length ≤ n) ∧
      (∀ parent c, buildElem cfg parent a = .ok c → ∃ n, calcElem a = .ok n ∧ c.length ≤ n)
    | .list l, ha => by
      simp only [asciiA] at ha
      obtain ⟨_, hM, hB, _⟩ := predL cfg l
      constructor
      · intro w x hc hx
        simp only [coerceArg] at hc
        split at hc
        · rename_i he
          cases hc
          have hlen := (writeArg_length hx).2
          exact ⟨4, by simp [calcArg, he], by simp at hlen; omega⟩
        · rename_i he
          split at hc
          · rename_i hs
            cases hb : buildMsgL cfg l with
            | error e => simp [hb] at hc
            | ok d =>
              simp [hb] at hc; subst hc
              obtain ⟨m, hm, hle⟩ := hM ha d hb
              have hlen := (writeArg_length hx).2
              simp only at hlen
              rw [pad4_aligned _ (buildMsgL_aligned hb)] at hlen
              exact ⟨m + 4, by simp [calcArg, he, hs, hm], by omega⟩
          · rename_i hs
            split at hc
            · cases hb : buildBundleL cfg l with
              | error e => simp [hb] at hc
              | ok d =>
                simp [hb] at hc; subst hc
                obtain ⟨m, hm, hle⟩ := hB ha d hb
                have hlen := (writeArg_length hx).2
                simp only at hlen
                rw [pad4_aligned _ (buildBundleL_aligned cfg l d hb)] at hlen
                exact ⟨m + 4, by simp [calcArg, he, hs, hm], by omega⟩
            · cases hc
      · intro parent c h
        obtain ⟨l', hl, hne, hcase⟩ := buildElem_ok h
        cases hl
        rcases hcase with ⟨hs, hb⟩ | ⟨hs, ht, hb⟩
        · obtain ⟨m, hm, hle⟩ := hM ha c hb
          exact ⟨m, by simp [calcElem, hne, hs, hm], hle⟩
        · obtain ⟨m, hm, hle⟩ := hB ha c hb
          exact ⟨m, by simp [calcElem, hne, hs, ht, hm], hle⟩
    | .none, _ => ⟨fun _ _ hc hx => predArg_leaf (by simp) hc hx, fun _ _ h => by simp [buildElem] at h⟩
    | .bool _, _ => ⟨fun _ _ hc hx => predArg_leaf (by simp) hc hx, fun _ _ h => by simp [buildElem] at h⟩
    | .int _, _ => ⟨fun _ _ hc hx => predArg_leaf (by simp) hc hx, fun _ _ h => by simp [buildElem] at h⟩
    | .float .., _ => ⟨fun _ _ hc hx => predArg_leaf (by simp) hc hx, fun _ _ h => by simp [buildElem] at h⟩
    | .str _, _ => ⟨fun _ _ hc hx => predArg_leaf (by simp) hc hx, fun _ _ h => by simp [buildElem] at h⟩
    | .strBad, _ => ⟨fun _ _ hc hx => predArg_leaf (by simp) hc hx, fun _ _ h => by simp [buildElem] at h⟩
    | .bytes _, _ => ⟨fun _ _ hc hx => predArg_leaf (by simp) hc hx, fun _ _ h => by simp [buildElem] at h⟩
    | .tuple _, _ => ⟨fun _ _ hc hx => predArg_leaf (by simp) hc hx, fun _ _ h => by simp [buildElem] at h⟩
    | .other, _ => ⟨fun _ _ hc hx => predArg_leaf (by simp) hc hx, fun _ _ h => by simp [buildElem] at h⟩
  theorem predL (cfg : Cfg) : ∀ (l : List PV),
      (asciiAll l = true → ∀ ws body, coerceArgs cfg l = .ok ws → writeArgs ws = .ok body →
        ∃ n, calcArgs l = .ok n ∧ body.length ≤ n) ∧
      (asciiL l = true → ∀ d, buildMsgL cfg l = .ok d → ∃ n, calcMsg l = .ok n ∧ d.length ≤ n) ∧
      (asciiL l = true → ∀ d, buildBundleL cfg l = .ok d → ∃ n, calcBndlTail l = .ok n ∧ d.length ≤ n) ∧
      (asciiAll l = true → ∀ parent cs, buildElems cfg parent l = .ok cs →
        ∃ n, calcBndl l = .ok n ∧ 16 + frameLen cs ≤ n)
    | [] => by
      refine ⟨?_, ?_, ?_, ?_⟩
      · intro _ ws body hc hb
        simp [coerceArgs] at hc; subst hc
        simp [writeArgs] at hb; subst hb
        exact ⟨0, by simp [calcArgs], by simp⟩
      · intro _ d h; simp [buildMsgL] at h
      · intro _ d h; simp [buildBundleL] at h
      · intro _ parent cs h
        simp [buildElems] at h; subst h
        exact ⟨16, by simp [calcBndl], by simp [frameLen]⟩
    | a :: rest => by
      obtain ⟨rA, _, _, rE⟩ := predL cfg rest
      refine ⟨?_, ?_, ?_, ?_⟩
      · intro has ws body hc hb
        simp only [asciiAll, Bool.and_eq_true] at has
        obtain ⟨w, ws', h1, h2, rfl⟩ := coerceArgs_cons_ok hc
        obtain ⟨x, b', hx, hb', rfl⟩ := writeArgs_cons_ok hb
        obtain ⟨n1, hn1, hl1⟩ := (predA cfg a has.1).1 w x h1 hx
        obtain ⟨n2, hn2, hl2⟩ := rA has.2 ws' b' h2 hb'
        exact ⟨n1 + n2, by simp [calcArgs, hn1, hn2], by simp only [List.length_append]; omega⟩
      · intro has d h
        simp only [asciiL, Bool.and_eq_true] at has
        obtain ⟨addr, args, ws, hl, hc, he, _⟩ := buildMsgL_ok h
        cases hl
        obtain ⟨s, body, rfl, hb, hlen⟩ := encodeMsgRaw_length he
        obtain ⟨n2, hn2, hl2⟩ := rA has.2 ws body hc hb
        have hasc : isAscii s = true := by simpa using has.1
        refine ⟨strpad4 s.length + strpad4 (rest.length + 1) + n2, by simp [calcMsg, hasc, hn2], ?_⟩
        rw [hlen, coerceArgs_length hc]; omega
      · intro has d h
        simp only [asciiL, Bool.and_eq_true] at has
        obtain ⟨t, es, tt, cs, hl, _, hc, he, _⟩ := buildBundleL_ok h
        cases hl
        obtain ⟨n, hn, hle⟩ := rE has.2 a cs hc
        exact ⟨n, by simp [calcBndlTail, hn], by rw [encodeBundleRaw_length he]; exact hle⟩
      · intro has parent cs h
        simp only [asciiAll, Bool.and_eq_true] at has
        obtain ⟨c, cs', h1, h2, rfl⟩ := buildElems_cons_ok h
        obtain ⟨n1, hn1, hl1⟩ := (predA cfg a has.1).2 parent c h1
        obtain ⟨n2, hn2, hl2⟩ := rE has.2 parent cs' h2
        exact ⟨4 + n1 + n2, by simp [calcBndl, hn1, hn2], by simp only [frameLen]; omega⟩
end

/-! ### clumping -/

theorem clumpLoop_concat {α} (size : Nat) : ∀ (el : List (Nat × α)) (clump : List α) (acc : Nat),
    (clumpLoop size el clump acc).flatten = clump ++ el.map Prod.snd
  | [], clump, acc => by
    unfold clumpLoop
    cases clump <;> simp
  | (s, e) :: rest, clump, acc => by
    unfold clumpLoop
    split
    · simp [clumpLoop_concat size rest]
    · simp [clumpLoop_concat size rest]

theorem clumpSizes_ok : ∀ {elements : List PV} {el : List (Nat × PV)}, clumpSizes elements = .ok el →
    el.map Prod.snd = elements ∧ ∀ p ∈ el, calcElem p.2 = .ok p.1
  | [], el, h => by simp [clumpSizes] at h; subst h; simp
  | e :: rest, el, h => by
    simp only [clumpSizes] at h
    cases hs : calcElem e with
    | error x => simp [hs] at h
    | ok s =>
      simp only [hs, ok_bind] at h
      cases ht : clumpSizes rest with
      | error x => simp [ht] at h
      | ok tl =>
        simp [ht] at h; subst h
        obtain ⟨h1, h2⟩ := clumpSizes_ok ht
        refine ⟨by simp [h1], ?_⟩
        intro p hp
        rcases List.mem_cons.mp hp with rfl | hp
        · exact hs
        · exact h2 p hp

theorem calcBndl_snoc : ∀ (xs : List PV) (e : PV) (a s : Nat), calcBndl xs = .ok a → calcElem e = .ok s →
    calcBndl (xs ++ [e]) = .ok (a + s + 4)
  | [], e, a, s, ha, hs => by
    simp [calcBndl] at ha; subst ha
    simp [calcBndl, hs]; omega
  | x :: xs, e, a, s, ha, hs => by
    simp only [calcBndl] at ha
    cases hx : calcElem x with
    | error err => simp [hx] at ha
    | ok sx =>
      simp only [hx, ok_bind] at ha
      cases hr : calcBndl xs with
      | error err => simp [hr] at ha
      | ok r =>
        simp [hr] at ha; subst ha
        simp [calcBndl, hx, calcBndl_snoc xs e r s hr hs]; omega

theorem clumpLoop_within (size : Nat) : ∀ (el : List (Nat × PV)) (clump : List PV) (acc : Nat),
    (∀ p ∈ el, calcElem p.2 = .ok p.1 ∧ 16 + p.1 + 4 < size) → calcBndl clump = .ok acc → acc < size →
    ∀ c ∈ clumpLoop size el clump acc, ∃ n, calcBndl c = .ok n ∧ n < size
  | [], clump, acc, _, hc, ha => by
    intro c hcm
    unfold clumpLoop at hcm
    split at hcm
    · simp at hcm
    · simp at hcm; subst hcm; exact ⟨acc, hc, ha⟩
  | (s, e) :: rest, clump, acc, hel, hc, ha => by
    intro c hcm
    have hp := hel (s, e) List.mem_cons_self
    have hrest : ∀ p ∈ rest, calcElem p.2 = .ok p.1 ∧ 16 + p.1 + 4 < size :=
      fun p hp => hel p (List.mem_cons_of_mem _ hp)
    unfold clumpLoop at hcm
    split at hcm
    · rcases List.mem_cons.mp hcm with rfl | hcm
      · exact ⟨acc, hc, ha⟩
      · have h1 : calcBndl [e] = .ok (16 + s + 4) := by
          have := calcBndl_snoc [] e 16 s (by simp [calcBndl]) hp.1
          simpa using this
        exact clumpLoop_within size rest [e] (16 + s + 4) hrest h1 hp.2 c hcm
    · rename_i hlt
      exact clumpLoop_within size rest (clump ++ [e]) (acc + s + 4) hrest
        (calcBndl_snoc clump e acc s hc hp.1) (by omega) c hcm

theorem clumpBundle_ok {elements : List PV} {size : Nat} {cs : List (List PV)}
    (h : clumpBundle elements size = .ok cs) :
    ∃ el, clumpSizes elements = .ok el ∧ cs = clumpLoop size el [] 16 := by
  unfold clumpBundle at h
  cases hs : clumpSizes elements with
  | error e => simp [hs] at h
  | ok el => simp [hs] at h; exact ⟨el, rfl, h.symm⟩

theorem clumpBundle_concat {elements : List PV} {size : Nat} {cs : List (List PV)}
    (h : clumpBundle elements size = .ok cs) : cs.flatten = elements := by
  obtain ⟨el, hs, rfl⟩ := clumpBundle_ok h
  rw [clumpLoop_concat]
  simpa using (clumpSizes_ok hs).1

theorem clumpBundle_within {elements : List PV} {size : Nat} {cs : List (List PV)}
    (h : clumpBundle elements size = .ok cs)
    (hfit : ∀ e ∈ elements, ∀ s, calcElem e = .ok s → 16 + s + 4 < size) :
    ∀ c ∈ cs, ∃ n, calcBndl c = .ok n ∧ n < size := by
  obtain ⟨el, hs, rfl⟩ := clumpBundle_ok h
  obtain ⟨hmap, hsz⟩ := clumpSizes_ok hs
  cases el with
  | nil => intro c hc; simp [clumpLoop] at hc
  | cons p rest =>
    have hel : ∀ q ∈ p :: rest, calcElem q.2 = .ok q.1 ∧ 16 + q.1 + 4 < size := by
      intro q hq
      refine ⟨hsz q hq, hfit q.2 ?_ q.1 (hsz q hq)⟩
      rw [← hmap]; exact List.mem_map_of_mem hq
    have h16 : 16 < size := by have := (hel p List.mem_cons_self).2; omega
    exact clumpLoop_within size (p :: rest) [] 16 hel (by simp [calcBndl]) h16

theorem asciiAll_iff : ∀ (l : List PV), asciiAll l = true ↔ ∀ a ∈ l, asciiA a = true
  | [] => by simp [asciiAll]
  | a :: rest => by simp [asciiAll, asciiAll_iff rest]

theorem mem_of_clump {elements : List PV} {size : Nat} {cs : List (List PV)}
    (h : clumpBundle elements size = .ok cs) {c : List PV} (hc : c ∈ cs) : ∀ e ∈ c, e ∈ elements := by
  intro e he
  rw [← clumpBundle_concat h]
  exact List.mem_flatten.mpr ⟨c, hc, he⟩

/-- a bundle list whose elements are predicted to take `n` bytes encodes to at most `n` bytes -/
theorem bundle_le_pred {cfg : Cfg} {t : PV} {c : List PV} {d : Bytes} {n : Nat}
    (hb : buildBundleL cfg (t :: c) = .ok d) (ha : asciiAll c = true) (hn : calcBndl c = .ok n) :
    d.length ≤ n := by
  have hasc : asciiL (t :: c) = true := by
    simp only [asciiL, Bool.and_eq_true]
    refine ⟨?_, ha⟩
    obtain ⟨_, _, tt, _, hl, ht, _, _, _⟩ := buildBundleL_ok hb
    cases hl
    cases t <;> simp_all [getTimetagOf, PV.num]
  obtain ⟨m, hm, hle⟩ := (predL cfg (t :: c)).2.2.1 hasc d hb
  simp only [calcBndlTail] at hm
  rw [hn] at hm; cases hm
  exact hle

/-! ### `sorted(messages, key=time)` is a stable sort -/

theorem insertByTime_perm (x : Nat × DMsg) (l : List (Nat × DMsg)) : (insertByTime x l).Perm (x :: l) := by
  induction l with
  | nil => simp [insertByTime]
  | cons y ys ih =>
    unfold insertByTime
    split
    · exact List.Perm.refl _
    · exact (List.Perm.cons y ih).trans (List.Perm.swap x y ys)

theorem sortByTime_perm (l : List (Nat × DMsg)) : (sortByTime l).Perm l := by
  induction l with
  | nil => simp [sortByTime]
  | cons x xs ih =>
    simp only [sortByTime]
    exact (insertByTime_perm x _).trans (List.Perm.cons x ih)

theorem insertByTime_sorted (x : Nat × DMsg) (l : List (Nat × DMsg))
    (h : l.Pairwise fun a b => a.1 ≤ b.1) : (insertByTime x l).Pairwise fun a b => a.1 ≤ b.1 := by
  induction l with
  | nil => simp [insertByTime]
  | cons y ys ih =>
    have hc := List.pairwise_cons.mp h
    unfold insertByTime
    split
    · rename_i hle
      refine List.pairwise_cons.mpr ⟨?_, h⟩
      intro z hz
      rcases List.mem_cons.mp hz with rfl | hz
      · exact hle
      · exact Nat.le_trans hle (hc.1 z hz)
    · rename_i hnle
      refine List.pairwise_cons.mpr ⟨?_, ih hc.2⟩
      intro z hz
      have := (insertByTime_perm x ys).subset hz
      rcases List.mem_cons.mp this with rfl | hz'
      · omega
      · exact hc.1 z hz'

theorem sortByTime_sorted (l : List (Nat × DMsg)) : (sortByTime l).Pairwise fun a b => a.1 ≤ b.1 := by
  induction l with
  | nil => simp [sortByTime]
  | cons x xs ih => simp only [sortByTime]; exact insertByTime_sorted x _ ih

theorem insertByTime_filter (t : Nat) (x : Nat × DMsg) (l : List (Nat × DMsg))
    (h : l.Pairwise fun a b => a.1 ≤ b.1) :
    (insertByTime x l).filter (fun p => p.1 == t) = (x :: l).filter (fun p => p.1 == t) := by
  induction l with
  | nil => simp [insertByTime]
  | cons y ys ih =>
    have hc := List.pairwise_cons.mp h
    unfold insertByTime
    split
    · rfl
    · rename_i hnle
      have hlt : y.1 < x.1 := by omega
      simp only [List.filter_cons]
      rw [ih hc.2]
      simp only [List.filter_cons]
      by_cases hx : x.1 == t <;> by_cases hy : y.1 == t <;> simp [hx, hy]
      · have h1 : x.1 = t := by simpa using hx
        have h2 : y.1 = t := by simpa using hy
        omega

/-- stability: for every time `t` the messages stamped `t` keep their original relative order -/
theorem sortByTime_stable (t : Nat) (l : List (Nat × DMsg)) :
    (sortByTime l).filter (fun p => p.1 == t) = l.filter (fun p => p.1 == t) := by
  induction l with
  | nil => simp [sortByTime]
  | cons x xs ih =>
    simp only [sortByTime]
    rw [insertByTime_filter t x _ (sortByTime_sorted xs)]
    simp only [List.filter_cons]
    rw [ih]

/-! ### UTF-8: the validity check accepts the encoding of every Unicode scalar value -/

theorem u8_lt (k n : Nat) (hk : k < 256) (hn : n < 256) : (UInt8.ofNat k < UInt8.ofNat n) ↔ k < n := by
  rw [UInt8.lt_iff_toNat_lt, u8_toNat k hk, u8_toNat n hn]

theorem u8_le (k n : Nat) (hk : k < 256) (hn : n < 256) : (UInt8.ofNat k ≤ UInt8.ofNat n) ↔ k ≤ n := by
  rw [UInt8.le_iff_toNat_le, u8_toNat k hk, u8_toNat n hn]

theorem u8_eq (k n : Nat) (hk : k < 256) (hn : n < 256) : (UInt8.ofNat k = UInt8.ofNat n) ↔ k = n := by
  constructor
  · intro h
    have := congrArg UInt8.toNat h
    rwa [u8_toNat k hk, u8_toNat n hn] at this
  · intro h; rw [h]

theorem u8_beq (k n : Nat) (hk : k < 256) (hn : n < 256) : (UInt8.ofNat k == UInt8.ofNat n) = decide (k = n) := by
  by_cases h : k = n
  · subst h; simp
  · have : ¬ UInt8.ofNat k = UInt8.ofNat n := fun e => h ((u8_eq k n hk hn).mp e)
    simp [h, this]

theorem isCont_ofNat (b : Nat) (h1 : 0x80 ≤ b) (h2 : b ≤ 0xBF) : isCont (UInt8.ofNat b) = true := by
  unfold isCont
  have a1 : (UInt8.ofNat 0x80 ≤ UInt8.ofNat b) := (u8_le _ _ (by omega) (by omega)).mpr h1
  have a2 : (UInt8.ofNat b ≤ UInt8.ofNat 0xBF) := (u8_le _ _ (by omega) (by omega)).mpr h2
  simp only [Bool.and_eq_true, decide_eq_true_eq]
  exact ⟨a1, a2⟩

theorem valid2 (a b : Nat) (ha1 : 0xC2 ≤ a) (ha2 : a ≤ 0xDF) (hb1 : 0x80 ≤ b) (hb2 : b ≤ 0xBF) (rest : Bytes) :
    validUtf8 (UInt8.ofNat a :: UInt8.ofNat b :: rest) = validUtf8 rest := by
  conv => lhs; unfold validUtf8
  have n1 : ¬ (UInt8.ofNat a < (0x80 : UInt8)) := fun h => by
    have := (u8_lt a 0x80 (by omega) (by omega)).mp h; omega
  have a1 : ((0xC2 : UInt8) ≤ UInt8.ofNat a) := (u8_le 0xC2 a (by omega) (by omega)).mpr ha1
  have a2 : (UInt8.ofNat a ≤ (0xDF : UInt8)) := (u8_le a 0xDF (by omega) (by omega)).mpr ha2
  simp only [n1, if_false, a1, a2, decide_true, Bool.and_self, if_true, isCont_ofNat b hb1 hb2, Bool.true_and]

theorem valid3 (a b c : Nat) (ha1 : 0xE0 ≤ a) (ha2 : a ≤ 0xEF) (hb1 : 0x80 ≤ b) (hb2 : b ≤ 0xBF)
    (hc1 : 0x80 ≤ c) (hc2 : c ≤ 0xBF) (hE0 : a = 0xE0 → 0xA0 ≤ b) (hED : a = 0xED → b ≤ 0x9F) (rest : Bytes) :
    validUtf8 (UInt8.ofNat a :: UInt8.ofNat b :: UInt8.ofNat c :: rest) = validUtf8 rest := by
  conv => lhs; unfold validUtf8
  have n1 : ¬ (UInt8.ofNat a < (0x80 : UInt8)) := fun h => by
    have := (u8_lt a 0x80 (by omega) (by omega)).mp h; omega
  have n2 : ¬ (UInt8.ofNat a ≤ (0xDF : UInt8)) := fun h => by
    have := (u8_le a 0xDF (by omega) (by omega)).mp h; omega
  have hcb := isCont_ofNat b hb1 hb2
  have hcc := isCont_ofNat c hc1 hc2
  simp only [n1, if_false, n2, decide_false, Bool.and_false, Bool.false_eq_true]
  have q0 : (UInt8.ofNat a == (0xE0 : UInt8)) = decide (a = 0xE0) := u8_beq a 0xE0 (by omega) (by omega)
  have qE : (UInt8.ofNat a == (0xEE : UInt8)) = decide (a = 0xEE) := u8_beq a 0xEE (by omega) (by omega)
  have qF : (UInt8.ofNat a == (0xEF : UInt8)) = decide (a = 0xEF) := u8_beq a 0xEF (by omega) (by omega)
  have qD : (UInt8.ofNat a == (0xED : UInt8)) = decide (a = 0xED) := u8_beq a 0xED (by omega) (by omega)
  simp only [q0, qE, qF, qD]
  by_cases h0 : a = 0xE0
  · have b1 : ((0xA0 : UInt8) ≤ UInt8.ofNat b) := (u8_le 0xA0 b (by omega) (by omega)).mpr (hE0 h0)
    have b2 : (UInt8.ofNat b ≤ (0xBF : UInt8)) := (u8_le b 0xBF (by omega) (by omega)).mpr hb2
    simp only [h0, decide_true, if_true, b1, b2, Bool.and_self, hcc, Bool.true_and]
  · simp only [h0, decide_false, Bool.false_eq_true, if_false]
    by_cases hD : a = 0xED
    · subst hD
      have b1 : ((0x80 : UInt8) ≤ UInt8.ofNat b) := (u8_le 0x80 b (by omega) (by omega)).mpr hb1
      have b2 : (UInt8.ofNat b ≤ (0x9F : UInt8)) := (u8_le b 0x9F (by omega) (by omega)).mpr (hED rfl)
      have m1 : (decide ((0xE1 : UInt8) ≤ UInt8.ofNat 0xED) && decide (UInt8.ofNat 0xED ≤ (0xEC : UInt8))
          || decide (0xED = 0xEE) || decide (0xED = 0xEF)) = false := by decide
      simp only [m1, Bool.false_eq_true, if_false, decide_true, if_true, b1, b2, Bool.and_self, hcc, Bool.true_and]
    · have hcond : (decide ((0xE1 : UInt8) ≤ UInt8.ofNat a) && decide (UInt8.ofNat a ≤ (0xEC : UInt8))
          || decide (a = 0xEE) || decide (a = 0xEF)) = true := by
        by_cases hl : a ≤ 0xEC
        · have x1 : ((0xE1 : UInt8) ≤ UInt8.ofNat a) := (u8_le 0xE1 a (by omega) (by omega)).mpr (by omega)
          have x2 : (UInt8.ofNat a ≤ (0xEC : UInt8)) := (u8_le a 0xEC (by omega) (by omega)).mpr hl
          simp [x1, x2]
        · have : a = 0xEE ∨ a = 0xEF := by omega
          rcases this with h | h <;> simp [h]
      simp only [hcond, if_true, hcb, hcc, Bool.true_and]

theorem valid4 (a b c d : Nat) (ha1 : 0xF0 ≤ a) (ha2 : a ≤ 0xF4) (hb1 : 0x80 ≤ b) (hb2 : b ≤ 0xBF)
    (hc1 : 0x80 ≤ c) (hc2 : c ≤ 0xBF) (hd1 : 0x80 ≤ d) (hd2 : d ≤ 0xBF)
    (hF0 : a = 0xF0 → 0x90 ≤ b) (hF4 : a = 0xF4 → b ≤ 0x8F) (rest : Bytes) :
    validUtf8 (UInt8.ofNat a :: UInt8.ofNat b :: UInt8.ofNat c :: UInt8.ofNat d :: rest) = validUtf8 rest := by
  conv => lhs; unfold validUtf8
  have hcb := isCont_ofNat b hb1 hb2
  have hcc := isCont_ofNat c hc1 hc2
  have hcd := isCont_ofNat d hd1 hd2
  have b1' : ((0x80 : UInt8) ≤ UInt8.ofNat b) := (u8_le 0x80 b (by omega) (by omega)).mpr hb1
  have b2' : (UInt8.ofNat b ≤ (0xBF : UInt8)) := (u8_le b 0xBF (by omega) (by omega)).mpr hb2
  have hcases : a = 0xF0 ∨ a = 0xF1 ∨ a = 0xF2 ∨ a = 0xF3 ∨ a = 0xF4 := by omega
  rcases hcases with h | h | h | h | h
  · subst h
    have b1 : ((0x90 : UInt8) ≤ UInt8.ofNat b) := (u8_le 0x90 b (by omega) (by omega)).mpr (hF0 rfl)
    have c0 : (UInt8.ofNat 0xF0 < (0x80 : UInt8)) = False := by decide
    have c1 : (decide ((0xC2 : UInt8) ≤ UInt8.ofNat 0xF0) && decide (UInt8.ofNat 0xF0 ≤ (0xDF : UInt8))) = false := by decide
    have c2 : (UInt8.ofNat 0xF0 == (0xE0 : UInt8)) = false := by decide
    have c3 : (decide ((0xE1 : UInt8) ≤ UInt8.ofNat 0xF0) && decide (UInt8.ofNat 0xF0 ≤ (0xEC : UInt8))
        || UInt8.ofNat 0xF0 == (0xEE : UInt8) || UInt8.ofNat 0xF0 == (0xEF : UInt8)) = false := by decide
    have c4 : (UInt8.ofNat 0xF0 == (0xED : UInt8)) = false := by decide
    have c5 : (UInt8.ofNat 0xF0 == (0xF0 : UInt8)) = true := by decide
    simp only [c0, if_false, c1, c2, c3, c4, c5, Bool.false_eq_true, if_true, b1, b2', decide_true, Bool.and_self,
      hcc, hcd, Bool.true_and]
  · subst h
    have c0 : (UInt8.ofNat 0xF1 < (0x80 : UInt8)) = False := by decide
    have c1 : (decide ((0xC2 : UInt8) ≤ UInt8.ofNat 0xF1) && decide (UInt8.ofNat 0xF1 ≤ (0xDF : UInt8))) = false := by decide
    have c2 : (UInt8.ofNat 0xF1 == (0xE0 : UInt8)) = false := by decide
    have c3 : (decide ((0xE1 : UInt8) ≤ UInt8.ofNat 0xF1) && decide (UInt8.ofNat 0xF1 ≤ (0xEC : UInt8))
        || UInt8.ofNat 0xF1 == (0xEE : UInt8) || UInt8.ofNat 0xF1 == (0xEF : UInt8)) = false := by decide
    have c4 : (UInt8.ofNat 0xF1 == (0xED : UInt8)) = false := by decide
    have c5 : (UInt8.ofNat 0xF1 == (0xF0 : UInt8)) = false := by decide
    have c6 : (decide ((0xF1 : UInt8) ≤ UInt8.ofNat 0xF1) && decide (UInt8.ofNat 0xF1 ≤ (0xF3 : UInt8))) = true := by decide
    simp only [c0, if_false, c1, c2, c3, c4, c5, c6, Bool.false_eq_true, if_true, hcb, hcc, hcd, Bool.true_and]
  · subst h
    have c0 : (UInt8.ofNat 0xF2 < (0x80 : UInt8)) = False := by decide
    have c1 : (decide ((0xC2 : UInt8) ≤ UInt8.ofNat 0xF2) && decide (UInt8.ofNat 0xF2 ≤ (0xDF : UInt8))) = false := by decide
    have c2 : (UInt8.ofNat 0xF2 == (0xE0 : UInt8)) = false := by decide
    have c3 : (decide ((0xE1 : UInt8) ≤ UInt8.ofNat 0xF2) && decide (UInt8.ofNat 0xF2 ≤ (0xEC : UInt8))
        || UInt8.ofNat 0xF2 == (0xEE : UInt8) || UInt8.ofNat 0xF2 == (0xEF : UInt8)) = false := by decide
    have c4 : (UInt8.ofNat 0xF2 == (0xED : UInt8)) = false := by decide
    have c5 : (UInt8.ofNat 0xF2 == (0xF0 : UInt8)) = false := by decide
    have c6 : (decide ((0xF1 : UInt8) ≤ UInt8.ofNat 0xF2) && decide (UInt8.ofNat 0xF2 ≤ (0xF3 : UInt8))) = true := by decide
    simp only [c0, if_false, c1, c2, c3, c4, c5, c6, Bool.false_eq_true, if_true, hcb, hcc, hcd, Bool.true_and]
  · subst h
    have c0 : (UInt8.ofNat 0xF3 < (0x80 : UInt8)) = False := by decide
    have c1 : (decide ((0xC2 : UInt8) ≤ UInt8.ofNat 0xF3) && decide (UInt8.ofNat 0xF3 ≤ (0xDF : UInt8))) = false := by decide
    have c2 : (UInt8.ofNat 0xF3 == (0xE0 : UInt8)) = false := by decide
    have c3 : (decide ((0xE1 : UInt8) ≤ UInt8.ofNat 0xF3) && decide (UInt8.ofNat 0xF3 ≤ (0xEC : UInt8))
        || UInt8.ofNat 0xF3 == (0xEE : UInt8) || UInt8.ofNat 0xF3 == (0xEF : UInt8)) = false := by decide
    have c4 : (UInt8.ofNat 0xF3 == (0xED : UInt8)) = false := by decide
    have c5 : (UInt8.ofNat 0xF3 == (0xF0 : UInt8)) = false := by decide
    have c6 : (decide ((0xF1 : UInt8) ≤ UInt8.ofNat 0xF3) && decide (UInt8.ofNat 0xF3 ≤ (0xF3 : UInt8))) = true := by decide
    simp only [c0, if_false, c1, c2, c3, c4, c5, c6, Bool.false_eq_true, if_true, hcb, hcc, hcd, Bool.true_and]
  · subst h
    have b2 : (UInt8.ofNat b ≤ (0x8F : UInt8)) := (u8_le b 0x8F (by omega) (by omega)).mpr (hF4 rfl)
    have c0 : (UInt8.ofNat 0xF4 < (0x80 : UInt8)) = False := by decide
    have c1 : (decide ((0xC2 : UInt8) ≤ UInt8.ofNat 0xF4) && decide (UInt8.ofNat 0xF4 ≤ (0xDF : UInt8))) = false := by decide
    have c2 : (UInt8.ofNat 0xF4 == (0xE0 : UInt8)) = false := by decide
    have c3 : (decide ((0xE1 : UInt8) ≤ UInt8.ofNat 0xF4) && decide (UInt8.ofNat 0xF4 ≤ (0xEC : UInt8))
        || UInt8.ofNat 0xF4 == (0xEE : UInt8) || UInt8.ofNat 0xF4 == (0xEF : UInt8)) = false := by decide
    have c4 : (UInt8.ofNat 0xF4 == (0xED : UInt8)) = false := by decide
    have c5 : (UInt8.ofNat 0xF4 == (0xF0 : UInt8)) = false := by decide
    have c6 : (decide ((0xF1 : UInt8) ≤ UInt8.ofNat 0xF4) && decide (UInt8.ofNat 0xF4 ≤ (0xF3 : UInt8))) = false := by decide
    have c7 : (UInt8.ofNat 0xF4 == (0xF4 : UInt8)) = true := by decide
    simp only [c0, if_false, c1, c2, c3, c4, c5, c6, c7, Bool.false_eq_true, if_true, b1', b2, decide_true,
      Bool.and_self, hcc, hcd, Bool.true_and]

theorem char_valid_nat (c : Char) : c.val.toNat < 0xD800 ∨ (0xDFFF < c.val.toNat ∧ c.val.toNat < 0x110000) := by
  have := c.valid
  simpa [UInt32.isValidChar, Nat.isValidChar] using this

/-- the UTF-8 encoding of any Unicode scalar value passes the validity check of the decoder model -/
theorem validUtf8_encodeChar (c : Char) (rest : Bytes) :
    validUtf8 (String.utf8EncodeChar c ++ rest) = validUtf8 rest := by
  have hv := char_valid_nat c
  unfold String.utf8EncodeChar
  generalize c.val.toNat = v at hv
  simp only
  split
  · rename_i h1
    simp only [List.cons_append, List.nil_append]
    conv => lhs; unfold validUtf8
    have : (UInt8.ofNat v < (0x80 : UInt8)) := (u8_lt v 0x80 (by omega) (by omega)).mpr (by omega)
    simp only [this, if_true]
  · split
    · rename_i h1 h2
      simp only [List.cons_append, List.nil_append]
      exact valid2 _ _ (by omega) (by omega) (by omega) (by omega) rest
    · split
      · rename_i h1 h2 h3
        simp only [List.cons_append, List.nil_append]
        exact valid3 _ _ _ (by omega) (by omega) (by omega) (by omega) (by omega) (by omega)
          (by omega) (by omega) rest
      · rename_i h1 h2 h3
        simp only [List.cons_append, List.nil_append]
        exact valid4 _ _ _ _ (by omega) (by omega) (by omega) (by omega) (by omega) (by omega) (by omega) (by omega)
          (by omega) (by omega) rest

theorem validUtf8_chars : ∀ (l : List Char) (rest : Bytes),
    validUtf8 (l.flatMap String.utf8EncodeChar ++ rest) = validUtf8 rest
  | [], _ => rfl
  | c :: l, rest => by
    simp only [List.flatMap_cons, List.append_assoc]
    rw [validUtf8_encodeChar, validUtf8_chars l rest]

/-! ### BundleNetAddr -/

theorem clumpedOf_append (a b : List BSend) : clumpedOf (a ++ b) = clumpedOf a ++ clumpedOf b := by
  induction a with
  | nil => rfl
  | cons x xs ih => cases x <;> simp [clumpedOf, ih]

theorem clumpedOf_sendPending (p : List PV) : clumpedOf (sendPending p) = p := by
  unfold sendPending
  cases p <;> simp [clumpedOf]

structure BInv (b : BNA) : Prop where
  le : (b.lastSync + 1).toNat ≤ b.bundle.length
  nn : 0 ≤ b.lastSync + 1

theorem pending_append (b : BNA) (h : BInv b) (l : List (Option PV)) :
    BNA.pending { b with bundle := b.bundle ++ l } = b.pending ++ l.filterMap id := by
  unfold BNA.pending
  simp only
  rw [List.drop_append_of_le_length h.le, List.filterMap_append]

theorem bna_run : ∀ (ops : List BOp) (b : BNA), BInv b →
    clumpedOf (b.run ops).2 ++ (b.run ops).1.pending = b.pending ++ collected ops ∧ BInv (b.run ops).1
  | [], b, h => by simp [BNA.run, clumpedOf, collected, h]
  | op :: ops, b, h => by
    cases op with
    | msg e =>
      have hi : BInv { b with bundle := b.bundle ++ [some e] } :=
        ⟨by have := h.le; simp only [List.length_append]; omega, h.nn⟩
      have ih := bna_run ops _ hi
      simp only [BNA.run, BNA.step, List.nil_append, collected]
      refine ⟨?_, ih.2⟩
      rw [ih.1, pending_append b h]
      simp
    | extend es =>
      have hi : BInv { b with bundle := b.bundle ++ es.map some } :=
        ⟨by have := h.le; simp only [List.length_append]; omega, h.nn⟩
      have ih := bna_run ops _ hi
      simp only [BNA.run, BNA.step, List.nil_append, collected]
      refine ⟨?_, ih.2⟩
      rw [ih.1, pending_append b h]
      simp [List.filterMap_map]
    | sync el =>
      have hi : BInv ⟨b.bundle ++ [none], b.bundle.length⟩ :=
        ⟨by simp, by show (0 : Int) ≤ (b.bundle.length : Int) + 1; omega⟩
      have ih := bna_run ops _ hi
      have hp : BNA.pending ⟨b.bundle ++ [none], b.bundle.length⟩ = [] := by
        unfold BNA.pending
        simp
      simp only [BNA.run, BNA.step, collected]
      refine ⟨?_, ih.2⟩
      rw [clumpedOf_append, clumpedOf_append, clumpedOf_sendPending, List.append_assoc, List.append_assoc, ih.1, hp]
      simp [clumpedOf]

end Sc3Verif.C06
