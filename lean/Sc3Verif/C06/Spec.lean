/-
C06 — abstract specification.

* `Tok`, `flatVals`, `nestRun`: what "bracket markers become arrays" means.  The decoded parameter
  list of a message is THE tree whose bracket-flattening is the sent token sequence
  (`nestRun_iff_flat` in Props).
* `Coerces`: the documented sc3 coercions of Python values to OSC arguments.
* `denote*`: the value a receiver must see for a Python message / bundle list (defined by
  recursion on the Python value, without reference to bytes except for nested blobs, which ARE
  the encodings of the nested lists).
-/
import Sc3Verif.C06.Model
namespace Sc3Verif.C06

/-- tokens of a type-tag sequence: a decoded leaf value, or an array marker -/
inductive Tok where
  | leaf (v : DVal)
  | aopen
  | aclose
deriving Repr

mutual
  /-- bracket-flattening of a decoded value -/
  def flatVal : DVal → List Tok
    | .array l => Tok.aopen :: (flatVals l ++ [Tok.aclose])
    | .int i => [Tok.leaf (.int i)]
    | .float b => [Tok.leaf (.float b)]
    | .double b => [Tok.leaf (.double b)]
    | .str s => [Tok.leaf (.str s)]
    | .blob b => [Tok.leaf (.blob b)]
    | .rgba n => [Tok.leaf (.rgba n)]
    | .midi a b c d => [Tok.leaf (.midi a b c d)]
    | .timetag n => [Tok.leaf (.timetag n)]
    | .bool b => [Tok.leaf (.bool b)]
  def flatVals : List DVal → List Tok
    | [] => []
    | v :: vs => flatVal v ++ flatVals vs
end

def DVal.isArray : DVal → Bool
  | .array _ => true
  | _ => false

def Tok.leafOk : Tok → Bool
  | .leaf v => !v.isArray
  | _ => true

/-- the array stack machine of the decoder, on tokens -/
def nestRun : List Tok → List DVal → List (List DVal) → Except DErr (List DVal)
  | [], cur, [] => .ok cur
  | [], _, _ :: _ => .error .msgParse
  | .leaf v :: ts, cur, parents => nestRun ts (cur ++ [v]) parents
  | .aopen :: ts, cur, parents => nestRun ts [] (cur :: parents)
  | .aclose :: _, _, [] => .error .msgParse
  | .aclose :: ts, cur, p :: ps => nestRun ts (p ++ [.array cur]) ps

/-- what the receiver sees for one wire argument -/
def WArg.tok : WArg → Tok
  | .int i => .leaf (.int i)
  | .float b => .leaf (.float b)
  | .str s => .leaf (.str s)
  | .strBad => .leaf (.str [])          -- never encoded
  | .blob b => .leaf (.blob b)
  | .midi a b c d => .leaf (.midi (a % 256).toNat (b % 256).toNat (c % 256).toNat (d % 256).toNat)
  | .arrOpen => .aopen
  | .arrClose => .aclose

/-- representation invariants of a wire argument: a float carries a 32-bit pattern, a `str` is
    valid UTF-8 (it came from a Python `str`) -/
def WArg.wf : WArg → Bool
  | .float b => decide (b < 4294967296)
  | .str s => validUtf8 s
  | _ => true

/-! ### bundles: element-wise reading of a framed element list -/

/-- what `_parse_contents` makes of ONE element's bytes: a bundle, a message, or nothing (an
    element that starts neither with `#bundle\0` nor with `/` is logged and dropped) -/
def parseContent (c : Bytes) : Except DErr (Option DElem) :=
  if isBundle c then
    if c.length < 16 then .error .bundleParse
    else do
      let sub ← parseElems (c.drop 16)
      pure (some (.bundle (fromBE ((c.drop 8).take 8) 0) sub))
  else if isMsg c then do
    let m ← toBundleErr (parseMsg c)
    pure (some (.msg m))
  else pure none

def consOpt {α} : Option α → List α → List α
  | some x, l => x :: l
  | none, l => l

def parseContents : List Bytes → Except DErr (List DElem)
  | [] => .ok []
  | c :: cs => do
    let e ← parseContent c
    let tl ← parseContents cs
    pure (consOpt e tl)

/-! ### representation invariants and the domain of the packet-level round trip -/

mutual
  /-- a `str` is valid UTF-8 (it is the encoding of a Python `str`), a float carries a 32-bit pattern -/
  def PV.wf : PV → Bool
    | .float _ bits => decide (bits < 4294967296)
    | .str s => validUtf8 s
    | .tuple l => PV.wfL l
    | .list l => PV.wfL l
    | _ => true
  def PV.wfL : List PV → Bool
    | [] => true
    | a :: l => a.wf && PV.wfL l
end

/-- the address of a message list starts with `/` -/
def addrSlash : List PV → Bool
  | .str (0x2F :: _) :: _ => true
  | _ => false

mutual
  /-- every message that is (transitively) an ELEMENT of the bundle has an address starting with `/`
      (the decoder drops other elements; nested lists inside message arguments are blobs and do not
      matter here) -/
  def slashE : PV → Bool
    | .list l => if headIsStr l then addrSlash l else slashB l
    | _ => true
  def slashEs : List PV → Bool
    | [] => true
    | e :: es => slashE e && slashEs es
  def slashB : List PV → Bool
    | [] => true
    | _ :: es => slashEs es
end

mutual
  /-- every message address at every nesting level (elements AND completion-message arguments) is
      ASCII — the domain on which the library predicts sizes (`bytes(msg[0], 'ascii')`) -/
  def asciiA : PV → Bool
    | .list l => asciiL l
    | _ => true
  def asciiL : List PV → Bool
    | [] => true
    | a :: rest => (match a with | .str s => isAscii s | _ => true) && asciiAll rest
  def asciiAll : List PV → Bool
    | [] => true
    | a :: rest => asciiA a && asciiAll rest
end

/-! ### what the receiver must see -/

/-- a Python message list `[address, arg, ...]` denotes: the address and the tree the array machine
    makes of the coerced arguments (`nestRun_iff_flat`: the unique tree that flattens to them) -/
def denoteMsgL (cfg : Cfg) : List PV → Option DMsg
  | .str a :: args =>
    match coerceArgs cfg args with
    | .ok ws =>
      match nestRun (ws.map WArg.tok) [] [] with
      | .ok vs => some ⟨a, vs⟩
      | .error _ => none
    | .error _ => none
  | _ => none

mutual
  def denoteElem (cfg : Cfg) : PV → Option DElem
    | .list l =>
      if headIsStr l then (denoteMsgL cfg l).map DElem.msg
      else (denoteBundleL cfg l).map fun r => DElem.bundle r.1 r.2
    | _ => none
  def denoteElems (cfg : Cfg) : List PV → Option (List DElem)
    | [] => some []
    | e :: es =>
      match denoteElem cfg e, denoteElems cfg es with
      | some x, some xs => some (x :: xs)
      | _, _ => none
  /-- a Python bundle list `[time, element, ...]` denotes: the timetag of `_get_timetag` and the
      denotations of the elements, in order, nested to any depth -/
  def denoteBundleL (cfg : Cfg) : List PV → Option (Nat × List DElem)
    | [] => none
    | t :: es =>
      match getTimetagOf cfg t, denoteElems cfg es with
      | .ok tt, some xs => some (tt.toNat, xs)
      | _, _ => none
end

/-! ### BundleNetAddr -/

/-- the elements a list of sends hands to `send_clumped_bundles` -/
def clumpedOf : List BSend → List PV
  | [] => []
  | .clumped els :: rest => els ++ clumpedOf rest
  | .sync _ :: rest => clumpedOf rest

/-- the elements collected by `send_msg` / `send_bundle` / `send_clumped_bundles` inside the `with` block -/
def collected : List BOp → List PV
  | [] => []
  | .msg e :: rest => e :: collected rest
  | .extend es :: rest => es ++ collected rest
  | .sync _ :: rest => collected rest

end Sc3Verif.C06
