/-
C06 — executable model of the OSC encoder/decoder and of datagram size prediction / clumping.

Modelled exactly (byte level, over `List UInt8`):
* `sc3/base/_osclib.py`: `write_string/int/float/blob/midi/timetag`, `get_string/int/float/double/
  blob/rgba/midi/timetag` (with Python's slice/negative-index semantics, because hostile datagrams
  can drive the read index anywhere), `OscMessageBuilder.build`, `OscMessage._parse_datagram`
  (type-tag loop, array stack), `OscBundleBuilder.build`, `OscBundle._parse_contents`, `OscPacket`
  (flattening + stable sort by time).  Builders parse their own output (`return OscMessage(dgram)`),
  so does the model.
* `sc3/base/_oscinterface.py`: `_build_msg`, `_build_bundle` (sc3's coercions, nested message /
  bundle lists as blobs, array markers), `_get_timetag`, `_check_subtime`.
* `sc3/base/netaddr.py`: `_strpad4`, `_calc_msg_dgram_size`, `_calc_bndl_dgram_size`,
  `_clump_bundle`, the clump/no-clump decision of `send_clumped_bundles` and `sync`.

The model describes the code AFTER the repairs D1 (bundle element size validated), D5 (size
prediction), D6 (clumping counts the 4-byte element prefix), D-C06-1 (None-timed nested bundles are
sized), D-C06-2 (strings with an embedded NUL are refused), D-C18-3 (negative blob size refused).

Abstracted (trusted): `struct.pack('>f')` double→single conversion (a float argument carries its
32-bit pattern), Python `str.encode('utf-8')` (a `str` is carried as its UTF-8 bytes; `strBad` is
a `str` that cannot be encoded, e.g. a lone surrogate), binary64 arithmetic of `_get_timetag`
(exact on the dyadic latencies used by the harness; modelled over `Rat`).

Core Lean only — this file is loaded by the line-protocol driver.
-/
import Sc3Verif.C06.GenConsts
namespace Sc3Verif.C06

abbrev Bytes := List UInt8

def zeros (n : Nat) : Bytes := List.replicate n (0 : UInt8)

/-! ### Python slice semantics on a byte string -/

/-- Normalisation of a slice bound `i` for a sequence of length `len` (CPython `PySlice_AdjustIndices`). -/
def normIdx (len : Nat) (i : Int) : Nat :=
  if i < 0 then (i + (len : Int)).toNat else min i.toNat len

/-- `d[i:j]` -/
def pySlice (d : Bytes) (i j : Int) : Bytes :=
  (d.drop (normIdx d.length i)).take (normIdx d.length j - normIdx d.length i)

/-- `d[i:]` -/
def pyFrom (d : Bytes) (i : Int) : Bytes := d.drop (normIdx d.length i)

/-! ### Big-endian numbers -/

def be32 (n : Nat) : Bytes :=
  [UInt8.ofNat (n / 16777216 % 256), UInt8.ofNat (n / 65536 % 256),
   UInt8.ofNat (n / 256 % 256), UInt8.ofNat (n % 256)]

def be64 (n : Nat) : Bytes := be32 (n / 4294967296 % 4294967296) ++ be32 (n % 4294967296)

/-- big-endian unsigned value of a byte string (`struct.unpack('>I'/'>Q')`) -/
def fromBE : Bytes → Nat → Nat
  | [], acc => acc
  | b :: bs, acc => fromBE bs (acc * 256 + b.toNat)

/-- two's complement reading of a 32-bit pattern (`'>i'`) -/
def toInt32 (n : Nat) : Int := if n < 2147483648 then (n : Int) else (n : Int) - 4294967296

/-- 32-bit pattern of an int in range -/
def ofInt32 (i : Int) : Nat := (i % 4294967296).toNat

/-! ### UTF-8 validity (CPython's strict `bytes.decode('utf-8')`) -/

def isCont (b : UInt8) : Bool := 0x80 ≤ b && b ≤ 0xBF

def validUtf8 : Bytes → Bool
  | [] => true
  | b0 :: rest =>
    if b0 < 0x80 then validUtf8 rest
    else if 0xC2 ≤ b0 && b0 ≤ 0xDF then
      match rest with
      | b1 :: r => isCont b1 && validUtf8 r
      | _ => false
    else if b0 == 0xE0 then
      match rest with
      | b1 :: b2 :: r => (0xA0 ≤ b1 && b1 ≤ 0xBF) && isCont b2 && validUtf8 r
      | _ => false
    else if (0xE1 ≤ b0 && b0 ≤ 0xEC) || b0 == 0xEE || b0 == 0xEF then
      match rest with
      | b1 :: b2 :: r => isCont b1 && isCont b2 && validUtf8 r
      | _ => false
    else if b0 == 0xED then
      match rest with
      | b1 :: b2 :: r => (0x80 ≤ b1 && b1 ≤ 0x9F) && isCont b2 && validUtf8 r
      | _ => false
    else if b0 == 0xF0 then
      match rest with
      | b1 :: b2 :: b3 :: r => (0x90 ≤ b1 && b1 ≤ 0xBF) && isCont b2 && isCont b3 && validUtf8 r
      | _ => false
    else if 0xF1 ≤ b0 && b0 ≤ 0xF3 then
      match rest with
      | b1 :: b2 :: b3 :: r => isCont b1 && isCont b2 && isCont b3 && validUtf8 r
      | _ => false
    else if b0 == 0xF4 then
      match rest with
      | b1 :: b2 :: b3 :: r => (0x80 ≤ b1 && b1 ≤ 0x8F) && isCont b2 && isCont b3 && validUtf8 r
      | _ => false
    else false

/-! ## Decoder -/

/-- Exception classes of the decoder. `typeParse` (`OscTypeParseError`) never escapes a message or
    bundle parse: it is re-raised as `msgParse` / `bundleParse`. -/
inductive DErr where
  | typeParse | msgParse | bundleParse | oscParse | unicode
deriving Repr, DecidableEq

/-- Decoded argument values (`OscMessage.params`). -/
inductive DVal where
  | int (i : Int)
  | float (bits : Nat)
  | double (bits : Nat)
  | str (s : Bytes)
  | blob (b : Bytes)
  | rgba (n : Nat)
  | midi (a b c d : Nat)
  | timetag (n : Nat)
  | bool (b : Bool)
  | array (l : List DVal)
deriving Repr

structure DMsg where
  addr : Bytes
  params : List DVal
deriving Repr

inductive DElem where
  | msg (m : DMsg)
  | bundle (tt : Nat) (elems : List DElem)
deriving Repr

/-- the `len(dgram[i:]) < n` guard followed by `struct.unpack` on `dgram[i:i+n]`
    (a short slice is `struct.error`, also mapped to `OscTypeParseError`). -/
def getRaw (d : Bytes) (i : Int) (n : Nat) (short : DErr := .typeParse) : Except DErr Bytes :=
  if (pyFrom d i).length < n then .error short
  else
    let s := pySlice d i (i + n)
    if s.length = n then .ok s else .error .typeParse

def getInt (d : Bytes) (i : Int) : Except DErr (Int × Int) := do
  let s ← getRaw d i 4
  pure (toInt32 (fromBE s 0), i + 4)

def getUInt (d : Bytes) (i : Int) : Except DErr (Nat × Int) := do
  let s ← getRaw d i 4
  pure (fromBE s 0, i + 4)

def getTimetag (d : Bytes) (i : Int) : Except DErr (Nat × Int) := do
  let s ← getRaw d i 8
  pure (fromBE s 0, i + 8)

def getDouble (d : Bytes) (i : Int) : Except DErr (Nat × Int) := do
  let s ← getRaw d i 8 .oscParse
  pure (fromBE s 0, i + 8)

/-- `get_float` pads a short datagram with NULs before unpacking. -/
def getFloat (d : Bytes) (i : Int) : Except DErr (Nat × Int) :=
  let r := (pyFrom d i).length
  let d' := if r < 4 then d ++ zeros (4 - r) else d
  let s := pySlice d' i (i + 4)
  if s.length = 4 then .ok (fromBE s 0, i + 4) else .error .typeParse

def getMidi (d : Bytes) (i : Int) : Except DErr (DVal × Int) := do
  let s ← getRaw d i 4
  match s with
  | [a, b, c, e] => pure (.midi a.toNat b.toNat c.toNat e.toNat, i + 4)
  | _ => .error .typeParse

def getBlob (d : Bytes) (i : Int) : Except DErr (Bytes × Int) := do
  let (size, io) ← getInt d i
  if size < 0 then .error .typeParse else       -- repair D-C18-3
  let total := size + ((-size) % 4)
  let endIdx := io + size
  if endIdx - i > ((pyFrom d i).length : Int) then .error .typeParse
  else pure (pySlice d io (io + size), io + total)

/-- index of the first NUL (`while dgram[start + offset] != 0`), `none` = IndexError -/
def scanNul : Bytes → Option Nat
  | [] => none
  | b :: bs => if b = 0 then some 0 else (scanNul bs).map (· + 1)

def stripNul (s : Bytes) : Bytes := s.filter (· ≠ 0)

def padOffset (off : Nat) : Nat := if off % 4 = 0 then off + 4 else off + (4 - off % 4)

def getString (d : Bytes) (start : Int) : Except DErr (Bytes × Int) :=
  if start < 0 then .error .typeParse
  else
    let rest := d.drop start.toNat
    match scanNul rest with
    | none => .error .typeParse
    | some off =>
      let off' := padOffset off
      if off' > rest.length then .error .typeParse
      else
        let data := stripNul (rest.take off')
        if validUtf8 data then .ok (data, start + (off' : Int)) else .error .unicode

/-- The type-tag loop of `OscMessage._parse_datagram`.  `cur` is the array being filled
    (`param_stack[-1]`), `parents` the enclosing ones (`param_stack[:-1]`, innermost first). -/
def parseParams (d : Bytes) : List UInt8 → Int → List DVal → List (List DVal) → Except DErr (List DVal)
  | [], _, cur, parents =>
    match parents with
    | [] => .ok cur
    | _ => .error .msgParse
  | t :: ts, i, cur, parents =>
    if t = 0x69 then do          -- 'i'
      let (v, i') ← getInt d i
      parseParams d ts i' (cur ++ [.int v]) parents
    else if t = 0x66 then do     -- 'f'
      let (v, i') ← getFloat d i
      parseParams d ts i' (cur ++ [.float v]) parents
    else if t = 0x64 then do     -- 'd'
      let (v, i') ← getDouble d i
      parseParams d ts i' (cur ++ [.double v]) parents
    else if t = 0x73 then do     -- 's'
      let (v, i') ← getString d i
      parseParams d ts i' (cur ++ [.str v]) parents
    else if t = 0x62 then do     -- 'b'
      let (v, i') ← getBlob d i
      parseParams d ts i' (cur ++ [.blob v]) parents
    else if t = 0x72 then do     -- 'r'
      let (v, i') ← getUInt d i
      parseParams d ts i' (cur ++ [.rgba v]) parents
    else if t = 0x6D then do     -- 'm'
      let (v, i') ← getMidi d i
      parseParams d ts i' (cur ++ [v]) parents
    else if t = 0x74 then do     -- 't'
      let (v, i') ← getTimetag d i
      parseParams d ts i' (cur ++ [.timetag v]) parents
    else if t = 0x54 then parseParams d ts i (cur ++ [.bool true]) parents    -- 'T'
    else if t = 0x46 then parseParams d ts i (cur ++ [.bool false]) parents   -- 'F'
    else if t = 0x5B then parseParams d ts i [] (cur :: parents)              -- '['
    else if t = 0x5D then                                                      -- ']'
      match parents with
      | [] => .error .msgParse
      | p :: ps => parseParams d ts i (p ++ [.array cur]) ps
    else parseParams d ts i cur parents                                        -- unhandled: skipped

def stripComma : Bytes → Bytes
  | 0x2C :: r => r
  | r => r

/-- `except OscTypeParseError: raise OscMessageParseError` -/
def typeToMsg {α} : Except DErr α → Except DErr α
  | .error .typeParse => .error .msgParse
  | r => r

/-- `OscMessage(dgram)` -/
def parseMsg (d : Bytes) : Except DErr DMsg := typeToMsg do
  let (addr, i) ← getString d 0
  if (pyFrom d i).isEmpty then pure ⟨addr, []⟩
  else
    let (tt, i) ← getString d i
    let ps ← parseParams d (stripComma tt) i [] []
    pure ⟨addr, ps⟩

def bundlePrefix : Bytes := [0x23, 0x62, 0x75, 0x6E, 0x64, 0x6C, 0x65, 0x00]   -- b'#bundle\x00'

def isBundle (d : Bytes) : Bool := d.take 8 == bundlePrefix
def isMsg (d : Bytes) : Bool := d.head? == some 0x2F      -- b'/'

/-- `except (OscTypeParseError, OscMessageParseError, IndexError): raise OscBundleParseError` -/
def toBundleErr {α} : Except DErr α → Except DErr α
  | .error .typeParse => .error .bundleParse
  | .error .msgParse => .error .bundleParse
  | r => r

/-- `OscBundle._parse_contents` on the not yet consumed suffix `rest = dgram[index:]`, with the
    nested `OscBundle(content)` inlined (timetag at 8..16, contents from 16).  Terminates on every
    byte string: each step consumes at least the 4 size bytes (element size validated, repair D1). -/
def parseElems (rest : Bytes) : Except DErr (List DElem) :=
  if rest.isEmpty then .ok []
  else if rest.length < 4 then .error .bundleParse
  else
    let size := toInt32 (fromBE (rest.take 4) 0)
    let rest' := rest.drop 4
    if size < 0 ∨ size > (rest'.length : Int) then .error .bundleParse
    else
      let content := rest'.take size.toNat
      let next := rest'.drop size.toNat
      if isBundle content then
        if content.length < 16 then .error .bundleParse
        else do
          let sub ← parseElems (content.drop 16)
          let tl ← parseElems next
          pure (.bundle (fromBE ((content.drop 8).take 8) 0) sub :: tl)
      else if isMsg content then do
        let m ← toBundleErr (parseMsg content)
        let tl ← parseElems next
        pure (.msg m :: tl)
      else parseElems next
termination_by rest.length
decreasing_by
  all_goals simp only [List.length_drop, List.length_take] at *
  all_goals omega

/-- `OscBundle(dgram)` for a datagram that starts like a bundle -/
def parseBundle (d : Bytes) : Except DErr (Nat × List DElem) :=
  if d.length < 16 then .error .bundleParse
  else do
    let sub ← parseElems (d.drop 16)
    pure (fromBE ((d.drop 8).take 8) 0, sub)

/-- `OscPacket._get_bundle_messages` -/
def flattenElems (tt : Nat) : List DElem → List (Nat × DMsg)
  | [] => []
  | .msg m :: es => (tt, m) :: flattenElems tt es
  | .bundle tt' sub :: es => flattenElems tt' sub ++ flattenElems tt es

/-- stable insertion of an element that came BEFORE everything in the list: it goes in front of
    the first element whose time is not smaller. -/
def insertByTime (x : Nat × DMsg) : List (Nat × DMsg) → List (Nat × DMsg)
  | [] => [x]
  | y :: ys => if x.1 ≤ y.1 then x :: y :: ys else y :: insertByTime x ys

/-- `sorted(messages, key=time)` (stable) -/
def sortByTime : List (Nat × DMsg) → List (Nat × DMsg)
  | [] => []
  | x :: xs => insertByTime x (sortByTime xs)

/-- `OscPacket(dgram).messages` : (time | None, message) -/
def decodePacket (d : Bytes) : Except DErr (List (Option Nat × DMsg)) :=
  if isBundle d then do
    let (tt, sub) ← parseBundle d
    pure ((sortByTime (flattenElems tt sub)).map fun (t, m) => (some t, m))
  else if isMsg d then do
    let m ← parseMsg d
    pure [(none, m)]
  else .error .oscParse

/-! ## Encoder -/

/-- Python values reaching `_build_msg` / `_build_bundle`. -/
inductive PV where
  | none
  | bool (b : Bool)
  | int (i : Int)
  | float (val : Rat) (bits : Nat)   -- binary64 value (used as latency) and its '>f' pattern (used as argument);
                                     -- bits = 2^32: no pattern — a finite value beyond the binary32 range, see `f32Overflows`
  | str (s : Bytes)                  -- a `str`, as its UTF-8 encoding
  | strBad                           -- a `str` that `encode('utf-8')` rejects
  | bytes (b : Bytes)                -- bytes / bytearray / memoryview
  | tuple (l : List PV)
  | list (l : List PV)
  | other                            -- an object of an unsupported type (`object()`)
deriving Repr

inductive Err where
  | valueError | typeError | indexError | unicodeEncode
  | msgBuild | bundleBuild          -- OscMessageBuildError / OscBundleBuildError
  | overflow                        -- OverflowError: `struct.pack('>f', x)` for a finite x beyond the binary32 range
  | parse (e : DErr)                -- raised by the builder's parse of its own output
  | notModelled
deriving Repr, DecidableEq

/-- `(type tag, value)` entries of `OscMessageBuilder._args` as sc3 produces them. -/
inductive WArg where
  | int (i : Int)
  | float (bits : Nat)
  | str (s : Bytes)
  | strBad
  | blob (b : Bytes)
  | midi (a b c d : Int)
  | arrOpen
  | arrClose
deriving Repr

/-- `struct.pack('>f', x)` raises OverflowError exactly when the finite binary64 `x` rounds (to nearest, ties to
    even) to a binary32 infinity: |x| ≥ 2^128 − 2^103, the midpoint between the largest binary32 and 2^128 -/
def f32Overflows (v : Rat) : Bool :=
  decide (v ≥ 340282356779733661637539395458142568448) || decide (v ≤ -340282356779733661637539395458142568448)

/-- the pattern of a float argument as the model uses it: none (2^32) when the exact value overflows -/
def f32Pattern (v : Rat) (bits : Nat) : Nat := if f32Overflows v then 4294967296 else bits

def WArg.tag : WArg → UInt8
  | .int _ => 0x69 | .float _ => 0x66 | .str _ => 0x73 | .strBad => 0x73 | .blob _ => 0x62
  | .midi .. => 0x6D | .arrOpen => 0x5B | .arrClose => 0x5D

def hasNul (s : Bytes) : Bool := s.any (· == 0)

/-- `write_string` (pads with 1–4 NULs) -/
def writeString (s : Bytes) : Bytes := s ++ zeros (4 - s.length % 4)

def blobPad (n : Nat) : Nat := (4 - n % 4) % 4

def byteOfInt (i : Int) : UInt8 := UInt8.ofNat (i % 256).toNat

def writeArg : WArg → Except Err Bytes
  | .int i => if -2147483648 ≤ i ∧ i < 2147483648 then .ok (be32 (ofInt32 i)) else .error .msgBuild
  | .float bits => if bits < 4294967296 then .ok (be32 bits) else .error .overflow
  | .str s => if hasNul s then .error .msgBuild else .ok (writeString s)
  | .strBad => .error .msgBuild
  | .blob b =>
    if b.isEmpty then .error .msgBuild
    else if b.length ≥ 2147483648 then .error .msgBuild
    else .ok (be32 b.length ++ b ++ zeros (blobPad b.length))
  | .midi a b c d => .ok [byteOfInt a, byteOfInt b, byteOfInt c, byteOfInt d]
  | .arrOpen => .ok []
  | .arrClose => .ok []

def writeArgs : List WArg → Except Err Bytes
  | [] => .ok []
  | w :: ws => do
    let a ← writeArg w
    let b ← writeArgs ws
    pure (a ++ b)

/-- `OscMessageBuilder.build()` up to the datagram -/
def encodeMsgRaw (addr : PV) (ws : List WArg) : Except Err Bytes :=
  match addr with
  | .str s =>
    if s.isEmpty then .error .msgBuild
    else if hasNul s then .error .msgBuild
    else do
      let body ← writeArgs ws
      pure (writeString s ++ writeString (0x2C :: ws.map WArg.tag) ++ body)
  | _ => .error .msgBuild

/-- `build()`: the datagram is parsed back (`return OscMessage(dgram)`); a parse error refuses it. -/
def finishMsg (addr : PV) (ws : List WArg) : Except Err Bytes := do
  let d ← encodeMsgRaw addr ws
  match parseMsg d with
  | .ok _ => pure d
  | .error e => .error (.parse e)

structure Cfg where
  sendTime : Rat        -- `main.current_tt._seconds`
  oscOffset : Int       -- `SystemClock._elapsed_osc_offset`
deriving Repr

def PV.isStr : PV → Bool
  | .str _ => true | .strBad => true | _ => false

/-- `isinstance(x, (int, float, type(None)))` -/
def PV.isTime : PV → Bool
  | .none => true | .bool _ => true | .int _ => true | .float .. => true | _ => false

def PV.isList : PV → Bool
  | .list _ => true | _ => false

def PV.num : PV → Option Rat
  | .bool b => some (if b then 1 else 0)
  | .int i => some (i : Rat)
  | .float v _ => some v
  | _ => Option.none

/-- Python `int(x)` on a float: truncation toward zero -/
def truncInt (x : Rat) : Int := if 0 ≤ x then x.floor else -((-x).floor)

/-- `_get_timetag` -/
def getTimetagOf (cfg : Cfg) : PV → Except Err Int
  | .none => .ok 1
  | t =>
    match t.num with
    | none => .error .typeError
    | some v => if v < 0 then .ok 1 else .ok (truncInt ((v + cfg.sendTime) * 4294967296) + cfg.oscOffset)

/-- `_check_subtime` -/
def checkSubtime (time sub : PV) : Except Err Unit :=
  match time with
  | .none => .ok ()
  | _ =>
    match sub with
    | .none => .error .valueError
    | _ =>
      match time.num, sub.num with
      | some a, some b => if a > b then .error .valueError else .ok ()
      | _, _ => .error .typeError

def isIntLike : PV → Option Int
  | .int i => some i
  | .bool b => some (if b then 1 else 0)
  | _ => none

def headIsStr : List PV → Bool
  | e0 :: _ => e0.isStr
  | [] => false

def headIsTime : List PV → Bool
  | e0 :: _ => e0.isTime
  | [] => false

def sndIsList : List PV → Bool
  | _ :: e1 :: _ => e1.isList
  | _ => false

/-- `_check_subtime(arg_list[0], arg[0])` for an element list `arg` -/
def checkSubtimeL (parent : PV) : List PV → Except Err Unit
  | e0 :: _ => checkSubtime parent e0
  | [] => .ok ()

def bracketOpen : Bytes := [0x5B]
def bracketClose : Bytes := [0x5D]

/-- the size-prefixed concatenation of bundle elements -/
def frame : List Bytes → Bytes
  | [] => []
  | c :: cs => be32 c.length ++ c ++ frame cs

/-- `OscBundleBuilder.build()` up to the datagram (`write_timetag` needs an unsigned 64-bit value,
    `write_int(content.size)` a signed 32-bit one) -/
def encodeBundleRaw (tt : Int) (contents : List Bytes) : Except Err Bytes :=
  if tt < 0 ∨ tt ≥ 18446744073709551616 then .error .bundleBuild
  else if contents.any (fun c => c.length ≥ 2147483648) then .error .bundleBuild
  else .ok (bundlePrefix ++ be64 tt.toNat ++ frame contents)

def finishBundle (tt : Int) (contents : List Bytes) : Except Err Bytes := do
  let d ← encodeBundleRaw tt contents
  match parseBundle d with
  | .ok _ => pure d
  | .error e => .error (.parse e)

mutual
  /-- one iteration of the argument loop of `_build_msg` -/
  def coerceArg (cfg : Cfg) : PV → Except Err WArg
    | .none => .ok (.int 0)
    | .bool b => .ok (.int (if b then 1 else 0))
    | .int i => .ok (.int i)
    | .float _ bits => .ok (.float bits)
    | .str s => if s = bracketOpen then .ok .arrOpen else if s = bracketClose then .ok .arrClose else .ok (.str s)
    | .strBad => .ok .strBad
    | .bytes b => .ok (.blob b)
    | .other => .error .valueError
    | .tuple l =>
      match l with
      | [a, b, c, d] =>
        match isIntLike a, isIntLike b, isIntLike c, isIntLike d with
        | some a, some b, some c, some d => .ok (.midi a b c d)
        | _, _, _, _ => .error .notModelled
      | _ => .error .valueError
    | .list l =>
      if l.isEmpty then .ok (.int 0)
      else if headIsStr l then do
        let d ← buildMsgL cfg l
        pure (.blob d)
      else if headIsTime l && sndIsList l then do
        let d ← buildBundleL cfg l
        pure (.blob d)
      else .error .valueError

  def coerceArgs (cfg : Cfg) : List PV → Except Err (List WArg)
    | [] => .ok []
    | a :: rest => do
      let w ← coerceArg cfg a
      let ws ← coerceArgs cfg rest
      pure (w :: ws)

  /-- `_build_msg(send_time, arg_list).dgram` -/
  def buildMsgL (cfg : Cfg) : List PV → Except Err Bytes
    | [] => .error .indexError
    | addr :: args => do
      let ws ← coerceArgs cfg args
      finishMsg addr ws

  /-- one iteration of the element loop of `_build_bundle` (`parent` = `arg_list[0]`) -/
  def buildElem (cfg : Cfg) (parent : PV) : PV → Except Err Bytes
    | .list l =>
      if l.isEmpty then .error .indexError
      else if headIsStr l then buildMsgL cfg l
      else if headIsTime l then do
        checkSubtimeL parent l
        buildBundleL cfg l
      else .error .valueError
    | .none => .error .typeError
    | .bool _ => .error .typeError
    | .int _ => .error .typeError
    | .float .. => .error .typeError
    | .other => .error .typeError
    | _ => .error .notModelled

  def buildElems (cfg : Cfg) (parent : PV) : List PV → Except Err (List Bytes)
    | [] => .ok []
    | e :: rest => do
      let c ← buildElem cfg parent e
      let cs ← buildElems cfg parent rest
      pure (c :: cs)

  /-- `_build_bundle(send_time, arg_list).dgram` -/
  def buildBundleL (cfg : Cfg) : List PV → Except Err Bytes
    | [] => .error .indexError
    | time :: elems => do
      let tt ← getTimetagOf cfg time
      let cs ← buildElems cfg time elems
      finishBundle tt cs
end

/-! ## Size prediction and clumping (`netaddr.py`) -/

def strpad4 (n : Nat) : Nat := n + 4 - n % 4

/-- `(n + 3) & ~3` -/
def pad4 (n : Nat) : Nat := (n + 3) / 4 * 4

def isAscii (s : Bytes) : Bool := s.all (· < 0x80)

mutual
  def calcArg : PV → Except Err Nat
    | .str s => .ok (strpad4 s.length)
    | .strBad => .error .unicodeEncode
    | .bytes b => .ok (pad4 b.length + 4)
    | .list l =>
      if l.isEmpty then .ok 4
      else if headIsStr l then do
        let n ← calcMsg l
        pure (n + 4)
      else do
        let n ← calcBndlTail l
        pure (n + 4)
    | _ => .ok 4

  def calcArgs : List PV → Except Err Nat
    | [] => .ok 0
    | v :: rest => do
      let a ← calcArg v
      let b ← calcArgs rest
      pure (a + b)

  /-- `_calc_msg_dgram_size(msg)` -/
  def calcMsg : List PV → Except Err Nat
    | [] => .error .indexError
    | addr :: args => do
      let n0 ← match addr with
        | .str s => if isAscii s then .ok (strpad4 s.length) else .error .unicodeEncode
        | .strBad => .error .unicodeEncode
        | _ => .error .typeError
      let na ← calcArgs args
      pure (n0 + strpad4 (args.length + 1) + na)

  def calcElem : PV → Except Err Nat
    | .list l =>
      if l.isEmpty then .error .indexError
      else if headIsStr l then calcMsg l
      else if headIsTime l then calcBndlTail l
      else .error .valueError
    | .none => .error .typeError
    | .bool _ => .error .typeError
    | .int _ => .error .typeError
    | .float .. => .error .typeError
    | .other => .error .typeError
    | _ => .error .notModelled

  /-- `_calc_bndl_dgram_size(val[1:])` -/
  def calcBndlTail : List PV → Except Err Nat
    | [] => .ok 16
    | _ :: es => calcBndl es

  /-- `_calc_bndl_dgram_size(elements)` (elements without the time) -/
  def calcBndl : List PV → Except Err Nat
    | [] => .ok 16
    | e :: rest => do
      let a ← calcElem e
      let b ← calcBndl rest
      pure (4 + a + b)
end

/-- the size list computed at the top of `_clump_bundle` -/
def clumpSizes : List PV → Except Err (List (Nat × PV))
  | [] => .ok []
  | e :: rest => do
    let s ← calcElem e
    let tl ← clumpSizes rest
    pure ((s, e) :: tl)

/-- the greedy loop of `_clump_bundle` (repair D6: every element costs `s + 4`) -/
def clumpLoop {α} (size : Nat) : List (Nat × α) → List α → Nat → List (List α)
  | [], clump, _ => if clump.isEmpty then [] else [clump]
  | (s, e) :: rest, clump, acc =>
    if acc + s + 4 ≥ size then clump :: clumpLoop size rest [e] (16 + s + 4)
    else clumpLoop size rest (clump ++ [e]) (acc + s + 4)

/-- `_clump_bundle(elements, size)` -/
def clumpBundle (elements : List PV) (size : Nat) : Except Err (List (List PV)) := do
  let el ← clumpSizes elements
  pure (clumpLoop size el [] 16)

/-- the element lists `send_clumped_bundles(time, *elements)` hands to `send_bundle`, in order -/
def sendClumpedPlan (elements : List PV) : Except Err (List (List PV)) := do
  let n ← calcBndl elements
  if n > maxUdpDgramSize then clumpBundle elements defaultClumpSize else pure [elements]

def syncMsg (id : Int) : PV := .list [.str [0x2F, 0x73, 0x79, 0x6E, 0x63], .int id]   -- ['/sync', id]

def appendSync (ids : Nat → Int) : Nat → List (List PV) → List (List PV)
  | _, [] => []
  | k, c :: cs => (c ++ [syncMsg (ids k)]) :: appendSync ids (k + 1) cs

/-- the element lists `sync(elements=...)` hands to `send_bundle` (`ids k` = id of the k-th responder) -/
def syncPlan (ids : Nat → Int) (elements : List PV) : Except Err (List (List PV)) := do
  let maxSize := maxUdpDgramSize - syncBndlDgramSize
  let n ← calcBndl elements
  if n > maxSize then do
    let cs ← clumpBundle elements maxSize
    pure (appendSync ids 0 cs)
  else pure [elements ++ [syncMsg (ids 0)]]

/-! ## `SynthDef._do_send` and `BundleNetAddr` (users of the size prediction / clumping) -/

/-- `['/d_recv', self.as_bytes(), completion_msg]` -/
def dRecvMsg (defBytes : Bytes) (completion : PV) : List PV :=
  [.str [0x2F, 0x64, 0x5F, 0x72, 0x65, 0x63, 0x76], .bytes defBytes, completion]

/-- `_do_send`: the definition goes out as `/d_recv` iff the predicted size of the WHOLE message
    (completion message included) is within the UDP limit; otherwise `/d_load` is used -/
def doSendFits (defBytes : Bytes) (completion : PV) : Except Err Bool := do
  let n ← calcMsg (dRecvMsg defBytes completion)
  pure (decide (n ≤ maxUdpDgramSize))

/-- operations on a `BundleNetAddr` (context manager of `server.bind()`) -/
inductive BOp where
  | msg (e : PV)                          -- send_msg
  | extend (es : List PV)                 -- send_bundle / send_clumped_bundles (time discarded)
  | sync (elements : Option (List PV))    -- sync(latency, elements)
deriving Repr

/-- `_bundle` (`none` = the `_SYNC_FLAG` entry) and `_last_sync` -/
structure BNA where
  bundle : List (Option PV)
  lastSync : Int
deriving Repr

def BNA.init : BNA := ⟨[], -1⟩

/-- `self._bundle[self._last_sync+1:]` -/
def BNA.pending (b : BNA) : List PV := (b.bundle.drop (b.lastSync + 1).toNat).filterMap id

/-- what is handed to the saved `NetAddr` -/
inductive BSend where
  | clumped (els : List PV)               -- send_clumped_bundles(time, *els)
  | sync (elements : Option (List PV))    -- sync(None, latency, elements)
deriving Repr

def sendPending (p : List PV) : List BSend := if p.isEmpty then [] else [.clumped p]

def BNA.step (b : BNA) : BOp → BNA × List BSend
  | .msg e => ({ b with bundle := b.bundle ++ [some e] }, [])
  | .extend es => ({ b with bundle := b.bundle ++ es.map some }, [])
  | .sync el => (⟨b.bundle ++ [none], b.bundle.length⟩, sendPending b.pending ++ [.sync el])

/-- `__exit__` -/
def BNA.exit (b : BNA) : List BSend := sendPending b.pending

def BNA.run (b : BNA) : List BOp → BNA × List BSend
  | [] => (b, [])
  | op :: ops =>
    let (b1, s1) := b.step op
    let (b2, s2) := b1.run ops
    (b2, s1 ++ s2)

end Sc3Verif.C06
