/-
C07 — helper lemmas: truncation, stable insertion, the score invariant.
-/
import Sc3Verif.C07.Spec
import Sc3Verif.C06.Lemmas
import Mathlib.Algebra.Order.Floor.Ring
import Mathlib.Data.Rat.Floor
import Mathlib.Tactic.Linarith
import Mathlib.Tactic.FieldSimp
import Mathlib.Tactic.Ring
namespace Sc3Verif.C07
open Sc3Verif.C06

theorem ratFloor_eq (q : Rat) : Rat.floor q = ⌊q⌋ := rfl

theorem truncInt_nonneg {x : Rat} (h : 0 ≤ x) : truncInt x = ⌊x⌋ := by
  simp [truncInt, h, ratFloor_eq]

theorem truncInt_intCast (n : Int) : truncInt (n : Rat) = n := by
  unfold truncInt
  split
  · rw [ratFloor_eq]; simp
  · rw [ratFloor_eq]
    have : (-(n : Rat)) = ((-n : Int) : Rat) := by push_cast; ring
    rw [this, Int.floor_intCast]; ring

theorem truncInt_nonneg_ge {x : Rat} (h : 0 ≤ x) : 0 ≤ truncInt x := by
  rw [truncInt_nonneg h]; exact Int.floor_nonneg.mpr h

theorem truncInt_mono_nonneg {x y : Rat} (hx : 0 ≤ x) (hxy : x ≤ y) : truncInt x ≤ truncInt y := by
  rw [truncInt_nonneg hx, truncInt_nonneg (le_trans hx hxy)]
  exact Int.floor_mono hxy

theorem two32_pos : (0 : Rat) < two32 := by unfold two32; norm_num

/-! ### stable insertion -/

theorem mem_insertEntry {e y : Entry} {es : List Entry} : y ∈ insertEntry e es ↔ y = e ∨ y ∈ es := by
  induction es with
  | nil => simp [insertEntry]
  | cons x xs ih =>
    unfold insertEntry
    split
    · simp
    · simp [ih]; tauto

/-- where `TaskQueue.add` puts a new entry: behind everything with `time ≤`, before everything
later; the others keep their order -/
theorem insertEntry_split (e : Entry) (es : List Entry) (hs : Sorted es) :
    ∃ a b, insertEntry e es = a ++ e :: b ∧ es = a ++ b ∧
      (∀ y ∈ a, y.time ≤ e.time) ∧ (∀ y ∈ b, e.time < y.time) := by
  induction es with
  | nil => exact ⟨[], [], rfl, rfl, by simp, by simp⟩
  | cons x xs ih =>
    have hc := List.pairwise_cons.mp hs
    unfold insertEntry
    split
    · rename_i hlt
      refine ⟨[], x :: xs, rfl, rfl, by simp, ?_⟩
      intro y hy
      rcases List.mem_cons.mp hy with rfl | hy'
      · exact hlt
      · exact lt_of_lt_of_le hlt (hc.1 y hy')
    · rename_i hnlt
      obtain ⟨a, b, e1, e2, ha, hb⟩ := ih hc.2
      refine ⟨x :: a, b, by simp [e1], by simp [e2], ?_, hb⟩
      intro y hy
      rcases List.mem_cons.mp hy with rfl | hy'
      · exact not_lt.mp hnlt
      · exact ha y hy'

theorem sorted_insertEntry (e : Entry) (es : List Entry) (hs : Sorted es) : Sorted (insertEntry e es) := by
  obtain ⟨a, b, e1, e2, ha, hb⟩ := insertEntry_split e es hs
  rw [e1]
  unfold Sorted at hs ⊢
  rw [e2, List.pairwise_append] at hs
  rw [List.pairwise_append]
  refine ⟨hs.1, ?_, ?_⟩
  · exact List.pairwise_cons.mpr ⟨fun y hy => le_of_lt (hb y hy), hs.2.1⟩
  · intro x hx y hy
    rcases List.mem_cons.mp hy with rfl | hy'
    · exact ha x hx
    · exact hs.2.2 x hx y hy'

/-! ### `add` -/

theorem add_ok {sc sc' : Score} {s : Sender} {l : List PV} (h : sc.add s l = .ok sc') :
    sc.finished = false ∧ ∃ d b t, nrtBundle s l = .ok d ∧ procTime s l = .ok b ∧
      nrtTime s (headTime l) = .ok t ∧
      sc' = { sc with entries := insertEntry { time := t, bndl := b, raw := be32 d.length ++ d } sc.entries } := by
  unfold Score.add at h
  split at h
  · cases h
  · rename_i hf
    refine ⟨by simpa using hf, ?_⟩
    cases hd : nrtBundle s l with
    | error e => simp [hd] at h
    | ok d =>
      simp only [hd, ok_bind] at h
      cases hb : procTime s l with
      | error e => simp [hb] at h
      | ok b =>
        simp only [hb, ok_bind] at h
        cases ht : nrtTime s (headTime l) with
        | error e => simp [ht] at h
        | ok t =>
          simp only [ht, ok_bind] at h
          injection h with h
          exact ⟨d, b, t, rfl, rfl, rfl, h.symm⟩

theorem scoreOK_add {sc sc' : Score} {s : Sender} {l : List PV} (hok : ScoreOK sc)
    (h : sc.add s l = .ok sc') : ScoreOK sc' := by
  obtain ⟨_, d, b, t, hd, hb, ht, rfl⟩ := add_ok h
  refine ⟨sorted_insertEntry _ _ hok.1, ?_⟩
  intro e he
  rcases mem_insertEntry.mp he with rfl | he'
  · exact ⟨s, l, d, hd, hb, ht, rfl⟩
  · exact hok.2 e he'

theorem scoreOK_addAll {sc : Score} (hok : ScoreOK sc) (sends : List (Sender × List PV)) :
    ScoreOK (sc.addAll sends) := by
  induction sends generalizing sc with
  | nil => exact hok
  | cons x rest ih =>
    obtain ⟨s, b⟩ := x
    unfold Score.addAll
    split
    · rename_i sc' h; exact ih (scoreOK_add hok h)
    · exact ih hok

theorem scoreOK_empty : ScoreOK { entries := [], finished := false } :=
  ⟨List.Pairwise.nil, by simp⟩

end Sc3Verif.C07
