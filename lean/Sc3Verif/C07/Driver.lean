/-
C07 line-protocol driver.  Python values in C06's prefix notation
  N | T | F | I<int> | D<num>/<den>:<bits> | S<hex> | L<n> v1..vn
Requests (one answer line each):
  times <t0> <beatDur> <start> <W<delta> | S>...     logical seconds of every send of a routine
  plan <L..>                       `send_clumped_bundles`: number of elements of every clump (C06 `sendClumpedPlan`)
  rtb <secs> <offset> <L..>        RT `send_bundle` datagram       -> ok <hex> | err <Name>
  rtm <secs> <offset> <L..>        RT `send_msg` datagram
  rcv <offset> <now> <hex>         times handed to receive functions for an incoming packet
  nrt-init                         fresh score (root node bundle)
  nrt-add <inRoutine 0|1> <secs> <L..>      OscScore.add                -> ok | err <Name>
  nrt-fin <inRoutine 0|1> <secs> <tail>     OscScore.finish(tail)       -> <list> | <raw hex>
-/
import Sc3Verif.C07.Model
open Sc3Verif.C06 Sc3Verif.C07

def hexVal (c : Char) : Option Nat :=
  if '0' ≤ c ∧ c ≤ '9' then some (c.toNat - '0'.toNat)
  else if 'a' ≤ c ∧ c ≤ 'f' then some (c.toNat - 'a'.toNat + 10)
  else none

def parseHexL : List Char → Option Bytes
  | [] => some []
  | a :: b :: rest => do
    let x ← hexVal a
    let y ← hexVal b
    let tl ← parseHexL rest
    pure (UInt8.ofNat (x * 16 + y) :: tl)
  | _ => none

def parseHex (s : String) : Option Bytes := parseHexL s.toList

def hexDigit (n : Nat) : Char := if n < 10 then Char.ofNat (48 + n) else Char.ofNat (87 + n)

def toHex (b : Bytes) : String :=
  String.ofList (b.flatMap fun x => [hexDigit (x.toNat / 16), hexDigit (x.toNat % 16)])

def parseRat (s : String) : Option Rat :=
  match s.splitOn "/" with
  | [n, d] => do
    let n ← n.toInt?
    let d ← d.toNat?
    if d = 0 then none else pure (mkRat n d)
  | [n] => do pure ((← n.toInt?) : Rat)
  | _ => none

def fmtRat (r : Rat) : String := if r.den == 1 then toString r.num else s!"{r.num}/{r.den}"

partial def parsePV : List String → Option (PV × List String)
  | [] => none
  | tok :: rest =>
    let body := (tok.drop 1).toString
    match tok.front with
    | 'N' => some (.none, rest)
    | 'T' => some (.bool true, rest)
    | 'F' => some (.bool false, rest)
    | 'I' => do some (.int (← body.toInt?), rest)
    | 'D' =>
      match body.splitOn ":" with
      | [v, b] => do some (.float (← parseRat v) (← b.toNat?), rest)
      | _ => none
    | 'S' => do some (.str (← parseHex body), rest)
    | 'L' => do
      let (l, rest) ← parseMany (← body.toNat?) rest
      some (.list l, rest)
    | _ => none
where
  parseMany : Nat → List String → Option (List PV × List String)
    | 0, rest => some ([], rest)
    | n + 1, rest => do
      let (v, rest) ← parsePV rest
      let (vs, rest) ← parseMany n rest
      some (v :: vs, rest)

def parseList (toks : List String) : Option (List PV) :=
  match parsePV toks with
  | some (.list l, []) => some l
  | _ => none

partial def fmtPV : PV → String
  | .none => "N"
  | .bool true => "T"
  | .bool false => "F"
  | .int i => s!"I{i}"
  | .float v b => s!"D{v.num}/{v.den}:{b}"
  | .str s => "S" ++ toHex s
  | .list l => " ".intercalate (s!"L{l.length}" :: l.map fmtPV)
  | _ => "?"

def derrName : DErr → String
  | .typeParse => "OscTypeParseError"
  | .msgParse => "OscMessageParseError"
  | .bundleParse => "OscBundleParseError"
  | .oscParse => "OscParseError"
  | .unicode => "UnicodeDecodeError"

def errName : Err → String
  | .valueError => "ValueError"
  | .typeError => "TypeError"
  | .indexError => "IndexError"
  | .unicodeEncode => "UnicodeEncodeError"
  | .msgBuild => "OscMessageBuildError"
  | .bundleBuild => "OscBundleBuildError"
  | .parse e => derrName e
  | .overflow => "OverflowError"
  | _ => "NOT-MODELLED"          -- (.notModelled, and whatever C06's model adds later)

def fmtBytes : Except Err Bytes → String
  | .ok d => "ok " ++ toHex d
  | .error e => "err " ++ errName e

def parseSteps : List String → List (Option Rat)
  | [] => []
  | tok :: rest =>
    if tok == "S" then none :: parseSteps rest
    else match parseRat (tok.drop 1).toString with
      | some d => some d :: parseSteps rest
      | none => parseSteps rest

structure St where
  score : Option Score := none

def handle (st : St) (line : String) : St × String :=
  match (line.trimAscii.toString.splitOn " ").filter (· ≠ "") with
  | "times" :: t0 :: dur :: start :: steps =>
    match parseRat t0, parseRat dur, parseRat start with
    | some t0, some dur, some start =>
      (st, " ".intercalate ("T" :: (sendTimes t0 dur start (parseSteps steps)).map fmtRat))
    | _, _, _ => (st, "bad-op")
  | "plan" :: toks =>
    match parseList toks with
    | some l =>
      match sendClumpedPlan l with
      | .ok cs => (st, " ".intercalate ("P" :: cs.map fun c => toString c.length))
      | .error e => (st, "err " ++ errName e)
    | none => (st, "bad-op")
  | "rtb" :: secs :: off :: toks =>
    match parseRat secs, off.toInt?, parseList toks with
    | some secs, some off, some l => (st, fmtBytes (rtBundle ⟨true, secs⟩ off l))
    | _, _, _ => (st, "bad-op")
  | "rtm" :: secs :: off :: toks =>
    match parseRat secs, off.toInt?, parseList toks with
    | some secs, some off, some l => (st, fmtBytes (rtMsg ⟨true, secs⟩ off l))
    | _, _, _ => (st, "bad-op")
  | ["rcv", off, now, hex] =>
    match off.toInt?, parseRat now, parseHex hex with
    | some off, some now, some d =>
      match decodePacket d with
      | .ok ms =>
        let ts := ms.map fun (m : Option Nat × DMsg) =>
          match m.1 with
          | none => now
          | some tt => if tt == 1 then now else oscToElapsed off tt
        (st, " ".intercalate ("R" :: ts.map fmtRat))
      | .error e => (st, "err " ++ derrName e)
    | _, _, _ => (st, "bad-op")
  | ["nrt-init"] =>
    match Score.init with
    | .ok sc => ({ st with score := some sc }, "ok")
    | .error e => (st, "err " ++ errName e)
  | "nrt-add" :: inr :: secs :: toks =>
    match st.score, parseRat secs, parseList toks with
    | some sc, some secs, some l =>
      match sc.add ⟨inr == "1", secs⟩ l with
      | .ok sc' => ({ st with score := some sc' }, "ok")
      | .error e => (st, "err " ++ errName e)
    | _, _, _ => (st, "bad-op")
  | ["nrt-fin", inr, secs, tail] =>
    match st.score, parseRat secs, parseRat tail with
    | some sc, some secs, some tail =>
      match sc.finish ⟨inr == "1", secs⟩ tail with
      | .ok (sc', lst, raw) =>
        ({ st with score := some sc' },
         " ".intercalate (s!"L{lst.length}" :: lst.map (fun b => fmtPV (.list b))) ++ " | " ++ toHex raw
           ++ " | " ++ (match sc'.duration with | some d => fmtRat d | none => "None"))
      | .error e => (st, "err " ++ errName e)
    | _, _, _ => (st, "bad-op")
  | _ => (st, "bad-op")

partial def loop (h : IO.FS.Stream) (out : IO.FS.Stream) (st : St) : IO Unit := do
  let line ← h.getLine
  if line.isEmpty then return ()
  let (st', s) := handle st line
  out.putStrLn s
  loop h out st'

def main : IO Unit := do
  loop (← IO.getStdin) (← IO.getStdout) {}
