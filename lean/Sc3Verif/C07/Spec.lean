/-
C07 — specification vocabulary: what a well-formed score is.
-/
import Sc3Verif.C07.Model
namespace Sc3Verif.C07
open Sc3Verif.C06

/-- ordered by time (non-decreasing) -/
def Sorted (es : List Entry) : Prop := es.Pairwise fun a b => a.time ≤ b.time

/-- An entry is the record of one `send_bundle` call: some sender `s` sent some list `l`; the
entry holds the logical time of the bundle, the list form with every (nested) time replaced by
its logical time, and the length-prefixed NRT encoding of the same list at the same instant. -/
def EntryOK (e : Entry) : Prop :=
  ∃ (s : Sender) (l : List PV) (d : Bytes),
    nrtBundle s l = .ok d ∧ procTime s l = .ok e.bndl ∧ nrtTime s (headTime l) = .ok e.time ∧
    e.raw = be32 d.length ++ d

def ScoreOK (sc : Score) : Prop := Sorted sc.entries ∧ ∀ e ∈ sc.entries, EntryOK e

/-- sum of the waits of a step list -/
def sumWaits : List (Option Rat) → Rat
  | [] => 0
  | none :: rest => sumWaits rest
  | some d :: rest => d + sumWaits rest

end Sc3Verif.C07
