/-
C07 — executable model of bundle time-stamping and of the non-real-time score
(`sc3/base/_oscinterface.py`: `send_msg/send_bundle`, `_get_timetag` (RT and NRT override),
`_check_subtime`, `OscScore.add/_process_bndl_time/_get_logical_time/finish`; `clock.py`:
`elapsed_time_to_osc/osc_to_elapsed_time`; `main.py`: `process`).

The byte encoder is C06's (`Sc3Verif.C06.Model`: `buildBundleL`, `buildMsgL`, `finishBundle`, …);
this file adds
* who sends and which *send time* that gives (`Sender`): inside a routine or an awake the logical
  time, on the main thread the physical present (RT) / the main thread's time (NRT);
* the RT stamp (`rtBundle` = C06's builder at that send time and OSC offset);
* the NRT builder (`nrtBundle`: same structure, timetag = `int(t·2³²)` of the logical time,
  absolute outside routines, `None`/negative = at the send instant), the time processing of the
  list form (`procTime`), and the score: a stable time-ordered list of entries
  `(time, list form, size-prefixed bytes)`, `add`, `finish`.
Times are `Rat` (binary64 idealised; the harness uses dyadic values, exact in both).
Core Lean only (plus C06's model, which is core only).
-/
import Sc3Verif.C06.Model
namespace Sc3Verif.C07
open Sc3Verif.C06

/-- `main.current_tt`: who executes the send, and its `_seconds`. -/
structure Sender where
  inRoutine : Bool      -- `current_tt is not main_tt`
  seconds : Rat         -- `current_tt._seconds`: routine → logical time; main thread inside an awake →
                        -- scheduled time; main thread otherwise → physical present (RT) / main time (NRT)
deriving Repr

def two32 : Rat := 4294967296

/-- `SystemClock.elapsed_time_to_osc` -/
def elapsedToOsc (offset : Int) (t : Rat) : Int := truncInt (t * two32) + offset

/-- `SystemClock.osc_to_elapsed_time` -/
def oscToElapsed (offset : Int) (tt : Int) : Rat := ((tt - offset : Int) : Rat) * (1 / two32)

/-- Logical seconds of every send of a routine played on a clock with time base
`secs = t0 + beats · beatDur` (SystemClock: `beatDur = 1`), started at beat `b`; `some δ` = the
routine yields `δ` beats, `none` = it sends.  No physical time occurs: wake-up lateness cannot
change a stamp (C08 `resched_relative_to_sched_time`: a yielded number re-schedules at
`scheduled + δ`, and the logical time of an awake is the scheduled time). -/
def sendTimes (t0 dur : Rat) : Rat → List (Option Rat) → List Rat
  | _, [] => []
  | b, none :: rest => (t0 + b * dur) :: sendTimes t0 dur b rest
  | b, some d :: rest => sendTimes t0 dur (b + d) rest

/-! ### real time -/

def rtCfg (s : Sender) (offset : Int) : Cfg := { sendTime := s.seconds, oscOffset := offset }

/-- `send_bundle(target, time, *elements)` in RT: the datagram -/
def rtBundle (s : Sender) (offset : Int) (l : List PV) : Except Err Bytes := buildBundleL (rtCfg s offset) l

/-- `send_msg(target, *args)` in RT -/
def rtMsg (s : Sender) (offset : Int) (l : List PV) : Except Err Bytes := buildMsgL (rtCfg s offset) l

/-- the timetag a bundle with latency `L` gets (`_get_timetag`) -/
def rtStamp (s : Sender) (offset : Int) (L : PV) : Except Err Int := getTimetagOf (rtCfg s offset) L

/-! ### non-real time -/

/-- `OscScore._get_logical_time` (and the time part of `OscNrtInterface._get_timetag`) -/
def nrtTime (s : Sender) : PV → Except Err Rat
  | .none => .ok (if s.inRoutine then s.seconds else 0)
  | t =>
    match t.num with
    | none => .error .typeError
    | some v => .ok ((if v < 0 then 0 else v) + (if s.inRoutine then s.seconds else 0))

/-- `OscNrtInterface._get_timetag` -/
def nrtStamp (s : Sender) (L : PV) : Except Err Int := (nrtTime s L).map fun t => truncInt (t * two32)

/-- a list that `_build_msg` would turn into a *bundle* blob (not modelled in NRT) -/
def bundleShaped (l : List PV) : Bool := !l.isEmpty && !headIsStr l && headIsTime l && sndIsList l

mutual
  def hasBundleBlob : PV → Bool
    | .list l => bundleShaped l || hasBundleBlobL l
    | _ => false
  def hasBundleBlobL : List PV → Bool
    | [] => false
    | a :: rest => hasBundleBlob a || hasBundleBlobL rest
end

mutual
  /-- one element of an NRT bundle (`_build_bundle` with the NRT `_get_timetag`) -/
  def nrtElem (s : Sender) (parent : PV) : PV → Except Err Bytes
    | .list l =>
      if l.isEmpty then .error .indexError
      else if headIsStr l then
        (if hasBundleBlobL l then .error .notModelled else buildMsgL (rtCfg s 0) l)
      else if headIsTime l then do
        checkSubtimeL parent l
        nrtBundle s l
      else .error .valueError
    | .none => .error .typeError
    | .bool _ => .error .typeError
    | .int _ => .error .typeError
    | .float .. => .error .typeError
    | .other => .error .typeError
    | _ => .error .notModelled

  def nrtElems (s : Sender) (parent : PV) : List PV → Except Err (List Bytes)
    | [] => .ok []
    | e :: rest => do
      let c ← nrtElem s parent e
      let cs ← nrtElems s parent rest
      pure (c :: cs)

  /-- `_build_bundle(send_time, arg_list).dgram` on the NRT interface -/
  def nrtBundle (s : Sender) : List PV → Except Err Bytes
    | [] => .error .indexError
    | time :: elems => do
      let tt ← nrtStamp s time
      let cs ← nrtElems s time elems
      finishBundle tt cs
end

/-- a time as it appears in `score.list` (a Python float) -/
def timePV (t : Rat) : PV := .float t 0

mutual
  /-- `_process_bndl_time` on one element -/
  def procElem (s : Sender) : PV → Except Err PV
    | .list l =>
      if headIsTime l && !l.isEmpty then (procTime s l).map PV.list
      else if headIsStr l then .ok (.list l)
      else .error .valueError
    | _ => .error .typeError

  def procElems (s : Sender) : List PV → Except Err (List PV)
    | [] => .ok []
    | e :: rest => do
      let e' ← procElem s e
      let r' ← procElems s rest
      pure (e' :: r')

  /-- `_process_bndl_time(send_time, bndl)`: every time replaced by the logical time -/
  def procTime (s : Sender) : List PV → Except Err (List PV)
    | [] => .error .indexError
    | time :: elems => do
      let es ← procElems s elems
      let t ← nrtTime s time
      pure (timePV t :: es)
end

structure Entry where
  time : Rat
  bndl : List PV       -- list form with processed times
  raw : Bytes          -- `size.to_bytes(4,'big') + dgram`
deriving Repr

/-- `TaskQueue.add(time, entry)`: behind every entry with `time ≤ t` (C09: stable priority queue) -/
def insertEntry (e : Entry) : List Entry → List Entry
  | [] => [e]
  | x :: xs => if e.time < x.time then e :: x :: xs else x :: insertEntry e xs

structure Score where
  entries : List Entry
  finished : Bool
deriving Repr

/-- `bndl[0]` -/
def headTime : List PV → PV
  | [] => .none
  | t :: _ => t

/-- `OscScore.add(bndl)` -/
def Score.add (sc : Score) (s : Sender) (bndl : List PV) : Except Err Score :=
  if sc.finished then .error .valueError
  else do
    let d ← nrtBundle s bndl
    let b ← procTime s bndl
    let t ← nrtTime s (headTime bndl)
    pure { sc with entries := insertEntry { time := t, bndl := b, raw := be32 d.length ++ d } sc.entries }

def strBytes (s : String) : Bytes := s.toUTF8.toList

def rootBundle : List PV := [.float 0 0, .list [.str (strBytes "/g_new"), .int 1, .int 0, .int 0]]
def tailMsg : PV := .list [.str (strBytes "/c_set"), .int 0, .int 0]

/-- `OscScore.__init__` (called by `OscNrtInterface.init()` on the main thread at time 0) -/
def Score.init : Except Err Score :=
  Score.add { entries := [], finished := false } { inRoutine := false, seconds := 0 } rootBundle

/-- `OscScore.finish(tailtime)`: the marker goes to `tailtime + current_tt._seconds` in both cases
(outside routines explicitly, inside via `_get_logical_time`); result = `(list, raw)`. -/
def Score.finish (sc : Score) (s : Sender) (tailtime : Rat) : Except Err (Score × List (List PV) × Bytes) :=
  if sc.finished then .ok (sc, sc.entries.map (·.bndl), (sc.entries.map (·.raw)).flatten)
  else do
    let tt : Rat := if s.inRoutine then tailtime else tailtime + s.seconds
    let sc' ← sc.add s [timePV tt, tailMsg]
    pure ({ sc' with finished := true }, sc'.entries.map (·.bndl), (sc'.entries.map (·.raw)).flatten)

/-- `OscScore.duration`: the time (seconds) of the latest bundle (`peek(smallest=False)`) -/
def Score.duration (sc : Score) : Option Rat := sc.entries.getLast?.map (·.time)

/-- a run of the NRT interface: a sequence of `send_bundle` calls, then `process(tailtime)` -/
def Score.addAll (sc : Score) : List (Sender × List PV) → Score
  | [] => sc
  | (s, b) :: rest =>
    match sc.add s b with
    | .ok sc' => sc'.addAll rest        -- the call returns
    | .error _ => sc.addAll rest        -- the call raises: nothing is added

end Sc3Verif.C07
