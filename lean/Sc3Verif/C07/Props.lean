/-
C07 — Bundles are stamped with logical time plus latency; scores are ordered.
Property theorems only.  Bytes are C06's (`buildBundleL` …); times are `Rat`.
-/
import Sc3Verif.C07.Lemmas
namespace Sc3Verif.C07
open Sc3Verif.C06

/-! ## the send time -/

/-- The logical time at which a routine executes each of its sends is `t0 + (start + waits so
far)·beatDur`: a function of the script alone (no physical time in it — see C08
`resched_relative_to_sched_time` for why the clock threads realise it under any lateness). -/
theorem send_time_is_prefix_sum (t0 dur b : Rat) (pre post : List (Option Rat)) :
    sendTimes t0 dur b (pre ++ none :: post) =
      sendTimes t0 dur b pre ++ (t0 + (b + sumWaits pre) * dur) :: sendTimes t0 dur (b + sumWaits pre) post := by
  induction pre generalizing b with
  | nil => simp [sendTimes, sumWaits]
  | cons st pre ih =>
    cases st with
    | none => simp [sendTimes, sumWaits, ih]
    | some d =>
      simp only [List.cons_append, sendTimes, sumWaits, ih]
      rw [show b + d + sumWaits pre = b + (d + sumWaits pre) by ring]

/-! ## real time -/

/-- MAIN (stamp): a bundle sent with a latency `v ≥ 0` carries the timetag of
`send time + v` — the sender's logical time when it is a routine or runs inside an awake —
converted with the clock's OSC offset.  The physical time of the call does not occur. -/
theorem stamp_is_logical_plus_latency (s : Sender) (off : Int) (L : PV) (v : Rat)
    (hL : L.num = some v) (hv : 0 ≤ v) (hn : L ≠ .none) :
    rtStamp s off L = .ok (elapsedToOsc off (s.seconds + v)) := by
  unfold rtStamp getTimetagOf rtCfg elapsedToOsc
  cases L with
  | none => exact absurd rfl hn
  | bool b =>
    simp only [hL, not_lt.mpr hv, if_false]
    rw [add_comm v s.seconds]; rfl
  | int i =>
    simp only [hL, not_lt.mpr hv, if_false]
    rw [add_comm v s.seconds]; rfl
  | float val bits =>
    simp only [hL, not_lt.mpr hv, if_false]
    rw [add_comm v s.seconds]; rfl
  | str s => simp [PV.num] at hL
  | strBad => simp [PV.num] at hL
  | bytes b => simp [PV.num] at hL
  | tuple l => simp [PV.num] at hL
  | list l => simp [PV.num] at hL
  | other => simp [PV.num] at hL

/-- on the timetag grid (times with at most 32 fractional bits) the stamp is exact -/
theorem stamp_exact_on_grid (off : Int) (t : Rat) (n : Int) (h : t * two32 = n) :
    elapsedToOsc off t = n + off := by
  unfold elapsedToOsc; rw [h, truncInt_intCast]

/-- a latency of `None` or below zero means "immediately" (timetag 1) -/
theorem immediately_if (s : Sender) (off : Int) (L : PV) (h : L = .none ∨ ∃ v, L.num = some v ∧ v < 0) :
    rtStamp s off L = .ok 1 := by
  unfold rtStamp getTimetagOf
  rcases h with rfl | ⟨v, hL, hv⟩
  · rfl
  · cases L <;> simp_all [PV.num]

/-- … and only then (for senders at non-negative times and a real OSC offset) -/
theorem immediately_only_if (s : Sender) (off : Int) (L : PV) (v : Rat) (hL : L.num = some v)
    (hn : L ≠ .none) (hs : 0 ≤ s.seconds) (hoff : 1 < off) (h : rtStamp s off L = .ok 1) : v < 0 := by
  by_contra hv
  have hv' : 0 ≤ v := not_lt.mp hv
  rw [stamp_is_logical_plus_latency s off L v hL hv' hn] at h
  injection h with h
  unfold elapsedToOsc at h
  have : 0 ≤ truncInt ((s.seconds + v) * two32) :=
    truncInt_nonneg_ge (mul_nonneg (add_nonneg hs hv') (le_of_lt two32_pos))
  omega

/-- later latency, later (or equal) timetag -/
theorem stamp_monotone (off : Int) (t t' : Rat) (h0 : 0 ≤ t) (h : t ≤ t') :
    elapsedToOsc off t ≤ elapsedToOsc off t' := by
  unfold elapsedToOsc
  have := truncInt_mono_nonneg (mul_nonneg h0 (le_of_lt two32_pos))
    (mul_le_mul_of_nonneg_right h (le_of_lt two32_pos))
  omega

/-- the receiving side undoes the stamp exactly on the timetag grid … -/
theorem recv_time_inverse (off : Int) (t : Rat) (n : Int) (h : t * two32 = n) :
    oscToElapsed off (elapsedToOsc off t) = t := by
  rw [stamp_exact_on_grid off t n h]
  unfold oscToElapsed
  have : ((n + off - off : Int) : Rat) = t * two32 := by rw [h]; push_cast; ring
  rw [this]
  have := two32_pos
  field_simp

/-- … and up to the timetag resolution `2⁻³²` everywhere else -/
theorem recv_time_resolution (off : Int) (t : Rat) (h0 : 0 ≤ t) :
    oscToElapsed off (elapsedToOsc off t) ≤ t ∧ t - 1 / two32 < oscToElapsed off (elapsedToOsc off t) := by
  unfold oscToElapsed elapsedToOsc
  have hp := two32_pos
  have hx : 0 ≤ t * two32 := mul_nonneg h0 (le_of_lt hp)
  rw [truncInt_nonneg hx]
  have h1 := Int.floor_le (t * two32)
  have h2 := Int.lt_floor_add_one (t * two32)
  have e : ((⌊t * two32⌋ + off - off : Int) : Rat) = (⌊t * two32⌋ : Rat) := by push_cast; ring
  rw [e]
  constructor
  · rw [mul_one_div, div_le_iff₀ hp]; exact h1
  · rw [mul_one_div, lt_div_iff₀ hp, sub_mul, one_div, inv_mul_cancel₀ (ne_of_gt hp)]; linarith

/-! ## nested bundles -/

theorem checkSubtime_ok {t t' : PV} (h : checkSubtime t t' = .ok ()) :
    t = .none ∨ (t' ≠ .none ∧ ∃ a b, t.num = some a ∧ t'.num = some b ∧ a ≤ b) := by
  unfold checkSubtime at h
  cases t with
  | none => exact Or.inl rfl
  | _ =>
    right
    cases t' with
    | none => simp at h
    | _ =>
      refine ⟨by simp, ?_⟩
      simp only at h
      split at h
      · rename_i a b ha hb
        split at h
        · cases h
        · rename_i hle; exact ⟨a, b, ha, hb, not_lt.mp hle⟩
      · cases h

/-- Nested bundles may not precede their parent: whatever `_build_bundle` accepts has, for every
nested bundle, parent latency `None` or nested latency a number `≥` the parent's. -/
theorem nested_not_before_parent (cfg : Cfg) (t : PV) (es : List PV) (d : Bytes)
    (h : buildBundleL cfg (t :: es) = .ok d) :
    ∀ t' r, PV.list (t' :: r) ∈ es → headIsStr (t' :: r) = false →
      t = .none ∨ (t' ≠ .none ∧ ∃ a b, t.num = some a ∧ t'.num = some b ∧ a ≤ b) := by
  obtain ⟨t0, es0, tt, cs, hl, htt, hcs, henc, hpar⟩ := buildBundleL_ok h
  injection hl with h1 h2
  subst h1 h2
  clear h htt henc hpar
  intro t' r hmem hstr
  induction es generalizing cs with
  | nil => cases hmem
  | cons e es ih =>
    obtain ⟨c, cs', hc, hcs', _⟩ := buildElems_cons_ok hcs
    rcases List.mem_cons.mp hmem with he | hmem'
    · subst he
      simp only [buildElem, List.isEmpty_cons, Bool.false_eq_true, if_false, hstr] at hc
      split at hc
      · cases hsub : checkSubtimeL t (t' :: r) with
        | error e => simp [hsub] at hc
        | ok u => exact checkSubtime_ok (by simpa [checkSubtimeL] using hsub)
      · cases hc
    · exact ih cs' hcs' hmem'

/-- Nested bundles are stamped relative to the SAME send instant: the bytes of a nested bundle are
exactly the datagram that sending that nested list on its own at the same instant would give. -/
theorem nested_relative_same_instant (s : Sender) (off : Int) (parent : PV) (l : List PV) (c : Bytes)
    (hstr : headIsStr l = false) (h : buildElem (rtCfg s off) parent (.list l) = .ok c) :
    rtBundle s off l = .ok c := by
  obtain ⟨l', hl, _, hcase⟩ := buildElem_ok h
  injection hl with hl
  subst hl
  rcases hcase with ⟨hs, _⟩ | ⟨_, _, hb⟩
  · rw [hstr] at hs; cases hs
  · exact hb

/-- the layout that carries the stamp: `#bundle\0`, the timetag of `_get_timetag` big-endian, the
size-prefixed elements (C06 `element_size_prefix`) -/
theorem rt_bundle_layout (s : Sender) (off : Int) (t : PV) (es : List PV) (d : Bytes)
    (h : rtBundle s off (t :: es) = .ok d) :
    ∃ tt cs, rtStamp s off t = .ok tt ∧ d = bundlePrefix ++ be64 tt.toNat ++ frame cs := by
  obtain ⟨t0, es0, tt, cs, hl, htt, _, henc, _⟩ := buildBundleL_ok h
  injection hl with h1 h2
  subst h1 h2
  refine ⟨tt, cs, htt, ?_⟩
  unfold encodeBundleRaw at henc
  split at henc
  · cases henc
  · split at henc
    · cases henc
    · injection henc with henc; exact henc.symm

/-! ## the non-real-time score -/

/-- in NRT a latency of `None` or below zero is "at the send instant" -/
theorem nrt_immediately (s : Sender) (L : PV) (h : L = .none ∨ ∃ v, L.num = some v ∧ v < 0) :
    nrtTime s L = .ok (if s.inRoutine then s.seconds else 0) := by
  rcases h with rfl | ⟨v, hL, hv⟩
  · rfl
  · cases L <;> simp_all [nrtTime, PV.num]

/-- … otherwise logical time plus latency inside routines, absolute from zero outside -/
theorem nrt_time_is_logical_plus_latency (s : Sender) (L : PV) (v : Rat) (hL : L.num = some v)
    (hv : 0 ≤ v) (hn : L ≠ .none) :
    nrtTime s L = .ok (v + (if s.inRoutine then s.seconds else 0)) := by
  cases L <;> simp_all [nrtTime, PV.num, not_lt.mpr hv]

/-- the raw timetag is `int(t·2³²)` of the same logical time -/
theorem nrt_stamp_of_time (s : Sender) (L : PV) (t : Rat) (h : nrtTime s L = .ok t) :
    nrtStamp s L = .ok (truncInt (t * two32)) := by
  simp [nrtStamp, h, Except.map]

/-- States of a score: reached from the empty score by any sequence of `add` calls. -/
def Reachable (sc : Score) : Prop :=
  ∃ sends, sc = ({ entries := [], finished := false } : Score).addAll sends

theorem reachable_ok {sc : Score} (h : Reachable sc) : ScoreOK sc := by
  obtain ⟨sends, rfl⟩ := h; exact scoreOK_addAll scoreOK_empty sends

/-- MAIN (score order): after any sequence of sends the score is ordered by time … -/
theorem score_sorted {sc : Score} (h : Reachable sc) : Sorted sc.entries := (reachable_ok h).1

/-- … and stable: a new bundle goes behind every bundle with time `≤` its own (so: send order within
equal times), before every later one, and the others keep their order.  The new entry holds the
logical time, the processed list form and the length-prefixed bytes of that very call. -/
theorem score_sorted_stable {sc sc' : Score} {s : Sender} {l : List PV} (hr : Reachable sc)
    (h : sc.add s l = .ok sc') :
    ∃ a b d pb t, nrtBundle s l = .ok d ∧ procTime s l = .ok pb ∧ nrtTime s (headTime l) = .ok t ∧
      sc'.entries = a ++ { time := t, bndl := pb, raw := be32 d.length ++ d } :: b ∧
      sc.entries = a ++ b ∧ sc'.finished = sc.finished ∧
      (∀ y ∈ a, y.time ≤ t) ∧ (∀ y ∈ b, t < y.time) := by
  obtain ⟨_, d, pb, t, hd, hb, ht, rfl⟩ := add_ok h
  obtain ⟨a', b', e1, e2, ha, hb'⟩ := insertEntry_split { time := t, bndl := pb, raw := be32 d.length ++ d }
    sc.entries (score_sorted hr)
  exact ⟨a', b', d, pb, t, hd, hb, ht, e1, e2, rfl, ha, hb'⟩

/-- Every listed bundle is listed at exactly the logical time of its send, its list form is the
sent list with every nested time made logical, and its bytes are the length-prefixed encoding of
the same list at the same instant. -/
theorem score_entries_exact {sc : Score} (h : Reachable sc) : ∀ e ∈ sc.entries, EntryOK e :=
  (reachable_ok h).2

/-- the bytes of an entry start with its size, `#bundle\0` and the timetag `int(time·2³²)` of the
time it is listed at -/
theorem entry_timetag {e : Entry} (h : EntryOK e) :
    ∃ d cs, e.raw = be32 d.length ++ d ∧
      d = bundlePrefix ++ be64 (truncInt (e.time * two32)).toNat ++ frame cs := by
  obtain ⟨s, l, d, hd, _, ht, hraw⟩ := h
  refine ⟨d, ?_⟩
  cases l with
  | nil => simp [nrtBundle] at hd
  | cons t es =>
    simp only [nrtBundle] at hd
    have ht' : nrtTime s t = .ok e.time := ht
    rw [nrt_stamp_of_time s t e.time ht'] at hd
    simp only [ok_bind] at hd
    cases hcs : nrtElems s t es with
    | error err => simp [hcs] at hd
    | ok cs =>
      simp only [hcs, ok_bind] at hd
      obtain ⟨henc, _⟩ := finishBundle_ok hd
      refine ⟨cs, hraw, ?_⟩
      unfold encodeBundleRaw at henc
      split at henc
      · cases henc
      · split at henc
        · cases henc
        · injection henc with henc; exact henc.symm

/-- MAIN (finish): `process(tailtime)` adds the `/c_set 0 0` marker at `end + tailtime` (`end` = the
main thread's time) behind everything not later, and the result is the list form and the raw form
of the SAME entries in the SAME order: raw = concatenation of the length-prefixed encodings. -/
theorem score_closes_with_tail_and_raw_is_concat {sc sc' : Score} {s : Sender} {tail : Rat}
    {lst : List (List PV)} {raw : Bytes} (hr : Reachable sc) (hf : sc.finished = false)
    (hs : s.inRoutine = false) (ht : 0 ≤ tail + s.seconds)
    (h : sc.finish s tail = .ok (sc', lst, raw)) :
    ∃ a b m, sc'.entries = a ++ m :: b ∧ sc.entries = a ++ b ∧
      m.time = tail + s.seconds ∧ m.bndl = [timePV (tail + s.seconds), tailMsg] ∧
      (∀ y ∈ a, y.time ≤ m.time) ∧ (∀ y ∈ b, m.time < y.time) ∧
      sc'.finished = true ∧
      lst = sc'.entries.map (·.bndl) ∧ raw = (sc'.entries.map (·.raw)).flatten ∧
      (∀ e ∈ sc'.entries, EntryOK e) := by
  unfold Score.finish at h
  simp only [hf, Bool.false_eq_true, if_false, hs] at h
  cases hadd : sc.add s [timePV (tail + s.seconds), tailMsg] with
  | error e => simp [hadd] at h
  | ok sc1 =>
    simp only [hadd, ok_bind] at h
    injection h with h
    simp only [Prod.mk.injEq] at h
    obtain ⟨h1, h2, h3⟩ := h
    subst h1 h2 h3
    obtain ⟨a, b, d, pb, t, _, hpb, htm, e1, e2, _, ha, hb⟩ := score_sorted_stable hr hadd
    have hok1 := scoreOK_add (reachable_ok hr) hadd
    have hnt : nrtTime s (timePV (tail + s.seconds)) = .ok (tail + s.seconds) := by
      simp [nrtTime, timePV, PV.num, not_lt.mpr ht, hs]
    have htime : t = tail + s.seconds := by
      have htm' : nrtTime s (timePV (tail + s.seconds)) = .ok t := htm
      rw [hnt] at htm'
      injection htm' with htm'
      exact htm'.symm
    have hproc : procTime s [timePV (tail + s.seconds), tailMsg] =
        .ok [timePV (tail + s.seconds), tailMsg] := by
      simp [procTime, procElems, procElem, tailMsg, headIsTime, headIsStr, PV.isTime, PV.isStr, hnt]
    rw [hproc] at hpb
    injection hpb with hpb
    refine ⟨a, b, _, e1, e2, htime, hpb.symm, ?_, ?_, rfl, rfl, rfl, hok1.2⟩
    · exact ha
    · exact hb

/-- … hence, when no bundle is stamped later than `end + tailtime`, the marker is the last entry:
the score closes with it. -/
theorem score_closes_with_tail {sc sc' : Score} {s : Sender} {tail : Rat}
    {lst : List (List PV)} {raw : Bytes} (hr : Reachable sc) (hf : sc.finished = false)
    (hs : s.inRoutine = false) (ht : 0 ≤ tail + s.seconds)
    (hlate : ∀ y ∈ sc.entries, y.time ≤ tail + s.seconds)
    (h : sc.finish s tail = .ok (sc', lst, raw)) :
    lst.getLast? = some [timePV (tail + s.seconds), tailMsg] := by
  obtain ⟨a, b, m, e1, e2, hmt, hmb, _, hb, _, hl, _, _⟩ :=
    score_closes_with_tail_and_raw_is_concat hr hf hs ht h
  have hbnil : b = [] := by
    cases b with
    | nil => rfl
    | cons y ys =>
      have h1 := hb y (List.mem_cons_self ..)
      have h2 := hlate y (by rw [e2]; simp)
      rw [hmt] at h1
      exact absurd h2 (not_le.mpr h1)
  rw [hl, e1, hbnil]
  simp [hmb]

/-- `duration` is the time, in seconds, of the latest listed bundle (repair D-C07-2) -/
theorem duration_is_latest_time {sc : Score} (h : Reachable sc) (t : Rat) (hd : sc.duration = some t) :
    (∃ e ∈ sc.entries, e.time = t) ∧ ∀ e ∈ sc.entries, e.time ≤ t := by
  have hs := score_sorted h
  unfold Score.duration at hd
  cases hl : sc.entries.getLast? with
  | none => simp [hl] at hd
  | some m =>
    simp only [hl, Option.map_some, Option.some.injEq] at hd
    obtain ⟨l, hl'⟩ : ∃ l, sc.entries = l ++ [m] := by
      rw [List.getLast?_eq_some_iff] at hl; exact hl
    refine ⟨⟨m, by rw [hl']; simp, hd⟩, ?_⟩
    intro e he
    rw [hl'] at he hs
    unfold Sorted at hs
    rw [List.pairwise_append] at hs
    rcases List.mem_append.mp he with he' | he'
    · rw [← hd]; exact hs.2.2 e he' m (by simp)
    · simp at he'; subst he'; exact le_of_eq hd

/-! Non-vacuity: a routine at logical time 3/4 sends `[1/4, ['/a', 1], [1/2, ['/b']]]`; the entry is
listed at 1 with the nested bundle at 5/4, the tail marker closes the score. -/
def exBundle : List PV :=
  [.float (1/4) 0, .list [.str (strBytes "/a"), .int 1],
   .list [.float (1/2) 0, .list [.str (strBytes "/b")]]]

example : (Score.init.bind fun sc => (sc.add ⟨true, 3/4⟩ exBundle).bind fun sc =>
      (sc.finish ⟨false, 3/4⟩ (1/2)).map fun r => r.2.1.map fun b => b.head?.bind PV.num) =
    .ok [some 0, some 1, some (5/4)] := by decide +kernel

example : rtStamp ⟨true, 3/4⟩ 1000 (.float (1/4) 0) = .ok (4294967296 + 1000) := by decide +kernel

end Sc3Verif.C07
