/-
C02 — Emitted definitions are well-formed, topologically ordered SCgf v2: property theorems.
The model is shared with C01 (`Sc3Verif/C01/Model.lean` = graph compiler,
`Sc3Verif/C01/Scgf.lean` = byte writer and independent reader).
-/
import Sc3Verif.C01.ScgfLemmas
import Sc3Verif.C01.TopoLemmas
import Sc3Verif.C01.TopoComplete
namespace Sc3Verif.C02
open Sc3Verif.C01

/-- Reader ∘ writer = identity, for every wire-level definition whose fields fit their
    integer widths: any number of constants, parameters, names, units, inputs and outputs,
    any name of up to 255 bytes.  In particular the bytes parse *completely* (nothing is left
    over) as exactly one definition of a version-2 file. -/
theorem write_parse_roundtrip (d : WDef) (h : d.Valid) : parseW (writeW d) = some d :=
  parse_write' d h

/-- Whenever the library's writer produces bytes for an emitted definition, those bytes parse
    completely and give back the name, the constants, the parameter defaults, the parameter
    names with their slot indices and every unit with its rate, special index, input
    references and output rates — so all counts in the file are mutually consistent. -/
theorem emitted_bytes_parse (name : String) (pnames : List (String × Nat)) (d : Def)
    (bs : List UInt8) (h : writeFile name pnames d = some bs) :
    ∃ w, toWire name pnames d = some w ∧ w.Valid ∧ parseW bs = some w ∧
      w.units.length = d.units.length := by
  unfold writeFile at h
  cases hw : toWire name pnames d with
  | none => rw [hw] at h; simp at h
  | some w =>
    rw [hw] at h
    simp only [Option.map_some, Option.some.injEq] at h
    have hv : w.Valid ∧ w.units.length = d.units.length := toWire_valid hw
    exact ⟨w, rfl, hv.1, by rw [← h]; exact parse_write' w hv.1, hv.2⟩

/-- The scheduling loop of `_topological_sort`: every unit is emitted after all of its
    antecedents (the units whose outputs it reads and the width-first units created before
    it), for EVERY order in which the descendant sets are iterated (`order` is arbitrary),
    from every start state in which the available units have no antecedents. -/
theorem topo_order (order : Nat → List Nat) (ante0 : Nat → List Nat) (fuel : Nat)
    (avail0 res : List Nat) (h0 : ∀ d ∈ avail0, ante0 d = []) (hnd : avail0.Nodup)
    (h : topoLoop order fuel ante0 avail0 [] = .ok res) :
    OrderedT ante0 res := by
  refine (topoLoop_inv order ante0 fuel ante0 avail0 [] res ?_ h).1
  refine ⟨fun d a ha => Or.inl ha, fun d hd => ?_, by simpa using hnd, ?_⟩
  · rcases hd with h1 | h1
    · exact h0 d h1
    · simp at h1
  · intro i hi; simp at hi

/-- … and no unit is emitted twice. -/
theorem topo_each_once (order : Nat → List Nat) (ante0 : Nat → List Nat) (fuel : Nat)
    (avail0 res : List Nat) (h0 : ∀ d ∈ avail0, ante0 d = []) (hnd : avail0.Nodup)
    (h : topoLoop order fuel ante0 avail0 [] = .ok res) : res.Nodup := by
  refine (topoLoop_inv order ante0 fuel ante0 avail0 [] res ?_ h).2
  refine ⟨fun d a ha => Or.inl ha, fun d hd => ?_, by simpa using hnd, ?_⟩
  · rcases hd with h1 | h1
    · exact h0 d h1
    · simp at h1
  · intro i hi; simp at hi

/-- No unit is lost: when the antecedent relation is acyclic (some rank decreases along it),
    closed over the units `kids`, the descendant enumeration `order` is its exact converse and
    the loop starts from the units without antecedents, then with `|kids| + 1` steps of fuel the
    loop succeeds (no KeyError) and emits exactly the units of `kids`, each once. -/
theorem topo_complete (order ante0 : Nat → List Nat) (kids : List Nat) (rank : Nat → Nat)
    (hclosed : ∀ d ∈ kids, ∀ a ∈ ante0 d, a ∈ kids)
    (hcons : ∀ o d, d ∈ order o ↔ (d ∈ kids ∧ o ∈ ante0 d))
    (hord_nodup : ∀ o, (order o).Nodup)
    (hacyc : ∀ d ∈ kids, ∀ a ∈ ante0 d, rank a < rank d)
    (avail0 : List Nat) (hav : ∀ d, d ∈ avail0 ↔ (d ∈ kids ∧ ante0 d = [])) (havnd : avail0.Nodup) :
    ∃ res, topoLoop order (kids.length + 1) ante0 avail0 [] = .ok res ∧ res.Nodup ∧
      ∀ d, d ∈ res ↔ d ∈ kids := by
  apply topoLoop_complete order ante0 kids rank hclosed hcons hord_nodup hacyc
  · refine ⟨fun d _ => by simp, fun d => ?_, by simpa using havnd⟩
    simp only [List.not_mem_nil, or_false]
    exact hav d
  · simp

/-! non-vacuity: a concrete valid definition and a concrete scheduling run -/
def exW : WDef :=
  { name := [0x78], consts := [0x43dc0000, 0], params := [0x3f000000],
    pnames := [([0x61], 0)],
    units := [{ cls := [0x53], rate := 2, special := 0, inputs := [(-1, 0), (-1, 1)], outs := [2] },
              { cls := [0x4f], rate := 2, special := 0, inputs := [(-1, 1), (0, 0)], outs := [] }] }
example : exW.Valid := by decide
example : parseW (writeW exW) = some exW := by decide +kernel

/-- diamond: 0 → 1, 0 → 2, {1,2} → 3 -/
def exAnte : Nat → List Nat := fun d => if d = 1 then [0] else if d = 2 then [0] else if d = 3 then [1, 2] else []
def exOrder : Nat → List Nat := fun o => if o = 0 then [2, 1] else if o = 1 then [3] else if o = 2 then [3] else []
example : (match topoLoop exOrder 5 exAnte [0] [] with | .ok r => r | .error _ => []) = [0, 1, 2, 3] := by
  decide +kernel

end Sc3Verif.C02
