/-
C17 line-protocol driver:  `lake env lean --run Sc3Verif/C17/Driver.lean < ops`

  reset                               new case (prints `reset`)
  server CLIENT LOGINS BUFFERS LAT    fresh Server (LAT = `N` or `p/q`); prints `server ok`
  <op line>                           same op language as harness/impl/c17.py; prints
                                      `STATUS | PKT ;; PKT`   (PKT = `M <msg>` | `B <time> <msg> ;| <msg>`);
                                      ` !G` is appended if `Spec.grammarOk` rejects a message of the line
  eof                                 prints `eof |`
-/
import Sc3Verif.C17.Model
import Sc3Verif.C17.Spec
import Sc3Verif.C17.GenActions
open Sc3Verif.C17
open Sc3Verif.C16 (Opts)

def fmtRat (r : Rat) : String := s!"{r.num}/{r.den}"

def fmtAtom : Atom → String
  | .int i => s!"i{i}"
  | .flt r => "f" ++ fmtRat r
  | .str s => "s" ++ s
  | .none => "N"
  | .tt => "T"
  | .ff => "F"
  | .msym a i => s!"s{if a then "a" else "c"}{i}"

def fmtCompl : Compl → String
  | .leaf cmd args => "{" ++ " ".intercalate (cmd :: args.map fmtAtom) ++ "}"
  | .nest cmd args inner => "{" ++ " ".intercalate (cmd :: args.map fmtAtom ++ [fmtCompl inner]) ++ "}"

def fmtArg : Arg → String
  | .atom a => fmtAtom a
  | .open => "["
  | .close => "]"
  | .msg m => fmtCompl m

def fmtMsg (m : Msg) : String := " ".intercalate (m.cmd :: m.args.map fmtArg)

def fmtPacket : Packet → String
  | .msg m => "M " ++ fmtMsg m
  | .bundle t ms =>
    "B " ++ (match t with | none => "N" | some r => fmtRat r) ++ " " ++ " ;| ".intercalate (ms.map fmtMsg)
  | .sync => "S"

def fmtStatus : Status → String
  | .ok => "ok"
  | .okNode id => s!"ok n{id}"
  | .okBus i => s!"ok b{i}"
  | .okBufs ids => "ok u" ++ ",".intercalate (ids.map toString)
  | .exc n => "exc:" ++ n
  | .skip => "skip"
  | .raise => "raise"
  | .skipped => "skipped"
  | .raised => "raised"
  | .badEnd => "bad-end"

def rstrip (s : String) : String := String.ofList (s.toList.reverse.dropWhile (· == ' ')).reverse

/-! ### parsing the op language -/

def parseRat (s : String) : Option Rat :=
  match s.splitOn "/" with
  | [a, b] => do let n ← a.toInt?; let d ← b.toNat?; if d = 0 then none else some (mkRat n d)
  | [a] => do let n ← a.toInt?; some (n : Rat)
  | _ => none

def tail1 (s : String) : String := (s.drop 1).toString

/-- one value; `fuel` bounds the nesting -/
def parseVal : Nat → List String → Option (Val × List String)
  | 0, _ => none
  | fuel + 1, t :: rest =>
    let parseSeq := fun (mk : List Val → Val) =>
      let rec go : Nat → List String → List Val → Option (Val × List String)
        | 0, _, _ => none
        | _ + 1, [], _ => none
        | _ + 1, ")" :: r, acc => some (mk acc.reverse, r)
        | n + 1, ts, acc =>
          match parseVal fuel ts with
          | some (v, r) => go n r (v :: acc)
          | none => none
      go (rest.length + 1) rest []
    if t == "(" then parseSeq Val.list
    else if t == "d(" then parseSeq Val.dict
    else if t == "N" then some (.none, rest)
    else if t == "T" then some (.tt, rest)
    else if t == "F" then some (.ff, rest)
    else
      let r := tail1 t
      match t.front with
      | 'i' => r.toInt?.map fun i => (.int i, rest)
      | 'f' => (parseRat r).map fun q => (.flt q, rest)
      | 's' => some (.str r, rest)
      | 'b' => r.toNat?.map fun h => (.bus h, rest)
      | 'u' => r.toNat?.map fun h => (.buf h, rest)
      | 'n' => r.toNat?.map fun h => (.node h, rest)
      | 'm' => r.toNat?.map fun h => (.msym h, rest)
      | _ => none
  | _, [] => none

def parseVals (ts : List String) : Option (List Val) :=
  let rec go : Nat → List String → List Val → Option (List Val)
    | 0, _, _ => none
    | _, [], acc => some acc.reverse
    | n + 1, ts, acc =>
      match parseVal 64 ts with
      | some (v, r) => go n r (v :: acc)
      | none => none
  go (ts.length + 1) ts []

def valAtom : Val → Option Atom
  | .int i => some (.int i)
  | .flt r => some (.flt r)
  | .str s => some (.str s)
  | .none => some .none
  | .tt => some .tt
  | .ff => some .ff
  | _ => none

/-- a caller-supplied message `( s/cmd atoms... [ ( message ) ] )` -/
def valCompl : Nat → Val → Option Compl
  | 0, _ => none
  | fuel + 1, .list (.str cmd :: rest) =>
    match rest.getLast? with
    | some (.list l) => do
      let atoms ← rest.dropLast.mapM valAtom
      let inner ← valCompl fuel (.list l)
      pure (.nest cmd atoms inner)
    | _ => do let atoms ← rest.mapM valAtom; pure (.leaf cmd atoms)
  | _, _ => none

def parseCompletion (ts : List String) : Option (Completion × List String) :=
  match ts with
  | "K" :: r => some (.kfn, r)
  | "N" :: r => some (.none, r)
  | _ => do
    let (v, r) ← parseVal 64 ts
    let c ← valCompl 8 v
    pure (.msg c, r)

def parseTarget : String → Option Target
  | "N" => some .none
  | "S" => some .srv
  | t =>
    match t.front with
    | 'n' => (tail1 t).toNat?.map Target.node
    | 'i' => (tail1 t).toInt?.map Target.int
    | _ => none

def parseAction (t : String) : Option Int :=
  match t.front with
  | 's' => (addActionsStr.find? (·.1 == tail1 t)).map (·.2)
  | 'i' => do let k ← (tail1 t).toInt?; (addActionsInt.find? (·.1 == k)).map (·.2)
  | _ => none

def hOf (c : Char) (t : String) : Option Nat := if t.front == c then (tail1 t).toNat? else none
def bOf : String → Option Bool | "T" => some true | "F" => some false | _ => none
def iOf (t : String) : Option Int := if t.front == 'i' then (tail1 t).toInt? else none

def listOf : Val → Option (List Val) | .list l => some l | _ => none

def one (r : List String) : Option Val := match parseVals r with | some [v] => some v | _ => none
def two (r : List String) : Option (Val × Val) := match parseVals r with | some [v, w] => some (v, w) | _ => none
def three (r : List String) : Option (Val × Val × Val) :=
  match parseVals r with | some [a, b, c] => some (a, b, c) | _ => none
def four (r : List String) : Option (Val × Val × Val × Val) :=
  match parseVals r with | some [a, b, c, d] => some (a, b, c, d) | _ => none
def five (r : List String) : Option (Val × Val × Val × Val × Val) :=
  match parseVals r with | some [a, b, c, d, e] => some (a, b, c, d, e) | _ => none
def six (r : List String) : Option (Val × Val × Val × Val × Val × Val) :=
  match parseVals r with | some [a, b, c, d, e, f] => some (a, b, c, d, e, f) | _ => none
def complOnly (r : List String) : Option Completion :=
  match parseCompletion r with | some (cm, []) => some cm | _ => none
def vb : Val → Bool | .tt => true | _ => false
def optH (t : String) : Option (Option Nat) := if t == "N" then some none else (hOf 'n' t).map some

def parseOp (line : String) : Option Op :=
  match (line.trimAscii.toString.splitOn " ").filter (· ≠ "") with
  | ["bind"] => some .bind
  | ["end"] => some .endBind
  | ["raise"] => some .raise
  | ["sync"] => some .sync
  | ["subbus", b, o, ch] => do some (.subbus (← hOf 'b' b) (← iOf o) (← iOf ch))
  | ["bread", u, a, b, c, lo] => do some (.bread (← hOf 'u' u) (← iOf a) (← iOf b) (← iOf c) (← bOf lo))
  | ["bloadlist", u, a] => do some (.bloadlist (← hOf 'u' u) (← iOf a))
  | "bwrite" :: u :: hdr :: fr :: st :: lo :: r => do
    some (.bwrite (← hOf 'u' u) (tail1 hdr) (← iOf fr) (← iOf st) (← bOf lo) (← complOnly r))
  | "ballocread" :: u :: st :: fr :: r => do
    some (.ballocread (← hOf 'u' u) (← iOf st) (← iOf fr) (← complOnly r))
  | "bcue" :: u :: st :: r => do some (.bcue (← hOf 'u' u) (← iOf st) (← complOnly r))
  | ["register", n] => do some (.register (← hOf 'n' n))
  | "synth" :: name :: tgt :: act :: r => do
    some (.synth false name (← parseTarget tgt) (← parseAction act) (← one r))
  | "synthp" :: name :: tgt :: act :: r => do
    some (.synth true name (← parseTarget tgt) (← parseAction act) (← one r))
  | "grain" :: name :: tgt :: act :: r => do
    some (.grain name (← parseTarget tgt) (← parseAction act) (← one r))
  | "replace" :: t :: name :: r => do
    let (v, same) ← two r
    some (.replace (← hOf 'n' t) name v (vb same))
  | ["group", tgt, act] => do some (.group false (← parseTarget tgt) (← parseAction act))
  | ["pgroup", tgt, act] => do some (.group true (← parseTarget tgt) (← parseAction act))
  | ["nfree", n, f] => do some (.nfree (← hOf 'n' n) (← bOf f))
  | ["run", n, f] => do some (.run (← hOf 'n' n) (← bOf f))
  | ["gdump", n, f] => do some (.gdump (← hOf 'n' n) (← bOf f))
  | "map" :: n :: r => do some (.map false (← hOf 'n' n) (← parseVals r))
  | "mapa" :: n :: r => do some (.map true (← hOf 'n' n) (← parseVals r))
  | "mapn" :: n :: r => do some (.mapn false (← hOf 'n' n) (← parseVals r))
  | "mapan" :: n :: r => do some (.mapn true (← hOf 'n' n) (← parseVals r))
  | "set" :: n :: r => do some (.set (← hOf 'n' n) (← parseVals r))
  | "setn" :: n :: r => do some (.setn (← hOf 'n' n) (← parseVals r))
  | "fill" :: n :: r => do some (.fill (← hOf 'n' n) (← parseVals r))
  | "release" :: n :: r => do some (.release (← hOf 'n' n) (← one r))
  | ["trace", n] => do some (.trace (← hOf 'n' n))
  | ["nquery", n] => do some (.nquery (← hOf 'n' n))
  | ["gfreeall", n] => do some (.gfreeall (← hOf 'n' n))
  | ["gdeep", n] => do some (.gdeep (← hOf 'n' n))
  | ["movb", n, t] => do some (.movb (← hOf 'n' n) (← hOf 'n' t))
  | ["mova", n, t] => do some (.mova (← hOf 'n' n) (← hOf 'n' t))
  | ["movh", n, t] => do some (.movh (← hOf 'n' n) (← optH t))
  | ["movt", n, t] => do some (.movt (← hOf 'n' n) (← optH t))
  | "sget" :: n :: r => do some (.sget (← hOf 'n' n) (← one r))
  | "sgetn" :: n :: r => do
    let (v, w) ← two r
    some (.sgetn (← hOf 'n' n) v w)
  | "reorder" :: act :: tgt :: r => do
    some (.reorder (← parseAction act) (← parseTarget tgt) (← r.mapM (hOf 'n')))
  | ["freedg", f] => do some (.freedg (← bOf f))
  | ["abus", ch] => do some (.newBus true (← iOf ch) none)
  | ["cbus", ch] => do some (.newBus false (← iOf ch) none)
  | ["abusx", ch, i] => do some (.newBus true (← iOf ch) (some (← iOf i)))
  | ["cbusx", ch, i] => do some (.newBus false (← iOf ch) (some (← iOf i)))
  | ["busfree", b] => do some (.busfree (← hOf 'b' b))
  | "cset" :: b :: r => do some (.cset (← hOf 'b' b) (← parseVals r))
  | "cpairs" :: b :: r => do some (.cpairs (← hOf 'b' b) (← parseVals r))
  | "csetn" :: b :: r => do some (.csetn (← hOf 'b' b) (← listOf (← one r)))
  | "csetat" :: b :: o :: r => do some (.csetat (← hOf 'b' b) (← iOf o) (← parseVals r))
  | "csetnat" :: b :: o :: r => do some (.csetnat (← hOf 'b' b) (← iOf o) (← listOf (← one r)))
  | "cfill" :: b :: r => do
    let (v, ch) ← two r
    some (.cfill (← hOf 'b' b) v ch)
  | ["cclear", b] => do some (.cclear (← hOf 'b' b))
  | ["cget", b] => do some (.cget (← hOf 'b' b))
  | ["cgetn", b, n] => do
    let cnt ← (if n == "N" then some none else (iOf n).map some)
    some (.cgetn (← hOf 'b' b) cnt)
  | "buf" :: fr :: ch :: r => do some (.buf (← iOf fr) (← iOf ch) none true (← complOnly r))
  | "bufnc" :: fr :: ch :: r => do some (.buf (← iOf fr) (← iOf ch) none true (← complOnly r))   -- cache=False: same commands
  | "bufx" :: fr :: ch :: num :: r => do
    some (.buf (← iOf fr) (← iOf ch) (some (← iOf num)) true (← complOnly r))
  | ["bufna", fr, ch] => do some (.buf (← iOf fr) (← iOf ch) none false .none)
  | "balloc" :: u :: r => do some (.balloc (← hOf 'u' u) (← complOnly r))
  | "bufcons" :: n :: fr :: ch :: r => do
    some (.bufcons (← iOf n) (← iOf fr) (← iOf ch) none (← complOnly r))
  | "bufconsx" :: n :: fr :: ch :: num :: r => do
    some (.bufcons (← iOf n) (← iOf fr) (← iOf ch) (some (← iOf num)) (← complOnly r))
  | "bfree" :: u :: r => do some (.bfree (← hOf 'u' u) (← complOnly r))
  | ["bfreeall"] => some .bfreeall
  | "bzero" :: u :: r => do some (.bzero (← hOf 'u' u) (← complOnly r))
  | "bclose" :: u :: r => do some (.bclose (← hOf 'u' u) (← complOnly r))
  | "bfill" :: u :: st :: fr :: r => do
    some (.bfill (← hOf 'u' u) (← iOf st) (← iOf fr) (← listOf (← one r)))
  | "bset" :: u :: r => do some (.bset (← hOf 'u' u) (← parseVals r))
  | "bsetn" :: u :: r => do some (.bsetn (← hOf 'u' u) (← parseVals r))
  | ["bquery", u] => do some (.bquery (← hOf 'u' u))
  | "bget" :: u :: r => do some (.bget (← hOf 'u' u) (← one r))
  | "bgetn" :: u :: r => do
    let (v, w) ← two r
    some (.bgetn (← hOf 'u' u) v w)
  | "bgen" :: u :: cmd :: r => do
    let (v, a, b, c) ← four r
    some (.bgen (← hOf 'u' u) cmd (← listOf v) (vb a) (vb b) (vb c))
  | "bsine1" :: u :: r => do
    let (v, a, b, c) ← four r
    some (.bsine 1 (← hOf 'u' u) [← listOf v] (vb a) (vb b) (vb c))
  | "bcheby" :: u :: r => do
    let (v, a, b, c) ← four r
    some (.bsine 0 (← hOf 'u' u) [← listOf v] (vb a) (vb b) (vb c))
  | "bsine2" :: u :: r => do
    let (v, w, a, b, c) ← five r
    some (.bsine 2 (← hOf 'u' u) [← listOf v, ← listOf w] (vb a) (vb b) (vb c))
  | "bsine3" :: u :: r => do
    let (v, w, x, a, b, c) ← six r
    some (.bsine 3 (← hOf 'u' u) [← listOf v, ← listOf w, ← listOf x] (vb a) (vb b) (vb c))
  | "bnorm" :: u :: r => do
    let (v, w) ← two r
    some (.bnorm (← hOf 'u' u) v (vb w))
  | "bcopy" :: u :: d :: r => do
    let (a, b, c) ← three r
    some (.bcopy (← hOf 'u' u) (← hOf 'u' d) a b c)
  | _ => none

def bufAllocOp (line : String) : Bool :=
  match (line.trimAscii.toString.splitOn " ").filter (· ≠ "") with
  | w :: _ => ["buf", "bufnc", "bufx", "bufna", "bufcons", "bufconsx", "bfree", "bfreeall"].contains w
  | [] => false

def blocksStr (cl : Client) : String :=
  ",".intercalate (cl.core.balloc.blocks.map fun b => s!"{b.start}:{b.size}")

def mkServer (ws : List String) : Option Client :=
  match ws with
  | [c, l, b, lat] => do
    let c ← c.toInt?; let l ← l.toInt?; let b ← b.toInt?
    let lat ← if lat == "N" then some none else (parseRat lat).map some
    let o : Opts := { control_buses := 16384, audio_buses := 1024, buffers := b, input_channels := 2,
                      output_channels := 2, max_logins := l, reserved_control_buses := 0,
                      reserved_audio_buses := 0, reserved_buffers := 0, client_id := c,
                      initial_node_id := 1000 }
    let core ← Core.init o lat
    pure { core := core }
  | _ => none

partial def loop (h : IO.FS.Stream) (out : IO.FS.Stream) (st : Option Client) : IO Unit := do
  let line ← h.getLine
  if line.isEmpty then return ()
  let l := line.trimAscii.toString
  if l == "reset" then
    out.putStrLn "reset"
    loop h out none
  else if l.startsWith "server " then
    match mkServer ((l.splitOn " ").drop 1) with
    | some cl => out.putStrLn "server ok"; loop h out (some cl)
    | none => out.putStrLn "server failed"; loop h out none
  else if l == "eof" then
    out.putStrLn "eof |"
    loop h out st
  else
    match st, parseOp l with
    | none, _ => out.putStrLn "no-server"; loop h out st
    | some cl, none => out.putStrLn "bad-op |"; loop h out (some cl)
    | some cl, some op =>
      let skipping := cl.skipDepth > 0
      let (cl', s, ps) := cl.step op
      let status := fmtStatus s ++
        (if bufAllocOp l && !skipping then " a" ++ blocksStr cl' else "")
      -- cross-check of the Lean transcription of the command reference on every message sent
      let bad := (collect ps).any fun m => !grammarOk m
      out.putStrLn (rstrip (status ++ " | " ++ " ;; ".intercalate (ps.map fmtPacket))
        ++ (if bad then " !G" else ""))
      loop h out (some cl')

def main : IO Unit := do
  loop (← IO.getStdin) (← IO.getStdout) none
