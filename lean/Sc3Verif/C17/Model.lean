/-
C17 — executable model of the client-side objects of sc3 that speak the server command
protocol: `sc3/synth/node.py` (Node, AbstractGroup, Group, ParGroup, Synth), `bus.py`
(AudioBus, ControlBus), `buffer.py` (Buffer), the helpers of `server.py`
(`_free_all_buffers`, `free_default_group`, `reorder`, `bind`), the argument conversion of
`_graphparam.py` (`_as_control_input`, `_as_osc_arg_list`, `_embed_as_osc_arg` for scalars,
strings, sequences, dicts, buses, buffers, nodes) and `BundleNetAddr` of `base/netaddr.py`.

Ids come from the C16 models: `NIA` (node ids) and three `CBA` (control buses, audio buses,
buffers) built with the constructor arguments of the regenerated `GenPartition`.

Python values are `Val` TREES (lists nest as in Python), so `embed` below is the recursive
`_embed_as_osc_arg` of the code, not a token rewriting.

What a message is: the Python argument list handed to the OSC interface (`Msg`), i.e. the level
at which `NetAddr.send_msg/send_bundle` are called; encoding to bytes is C06.

The model describes the code after the `fix:` commits D10, D11, D-C17-1, D-C17-2.

Not modelled (listed in the evidence): reply-driven and file I/O methods (`query_tree`, `seti`,
`alloc_read*`, `read*`, `cue`, `write`, `update_info`, `load/send list`, `get_to_list`,
`prepare_partconv`), `Server.sync` inside a bind block, boot/quit, the `group` bookkeeping
attribute of nodes (never sent), clumping of bundles larger than a datagram (C06).
Core Lean only.
-/
import Sc3Verif.C16.Model
import Sc3Verif.C16.GenPartition
namespace Sc3Verif.C17
open Sc3Verif.C16 (CBA NIA Opts busAllocArgs bufferAllocArgs nodeAllocArgs)

/-! ### messages -/

/-- scalar message arguments -/
inductive Atom where
  | int (i : Int)
  | flt (r : Rat)
  | str (s : String)
  | none                      -- Python `None` (sent as int 0)
  | tt | ff                   -- Python `True` / `False` (sent as int 1 / 0)
  | msym (audio : Bool) (i : Int)   -- the string `bus.as_map()`: 'a<i>' / 'c<i>'
deriving Repr, DecidableEq

/-- a completion message supplied by the caller (an OSC message in list form, possibly with its
    own completion message as last argument) -/
inductive Compl where
  | leaf (cmd : String) (args : List Atom)
  | nest (cmd : String) (args : List Atom) (inner : Compl)
deriving Repr, DecidableEq

inductive Arg where
  | atom (a : Atom)
  | open                      -- the string '[' (array start marker)
  | close                     -- the string ']'
  | msg (m : Compl)           -- a list inside a message: embedded message (becomes a blob)
deriving Repr, DecidableEq

structure Msg where
  cmd : String
  args : List Arg
deriving Repr, DecidableEq

/-- what reaches the OSC interface: `send_msg(*args)` or `send_bundle(time, *elements)` -/
inductive Packet where
  | msg (m : Msg)
  | bundle (time : Option Rat) (ms : List Msg)
  | sync                       -- `NetAddr.sync`: the '/sync id' round trip (its internals are not modelled)
deriving Repr, DecidableEq

def Packet.msgs : Packet → List Msg
  | .msg m => [m]
  | .bundle _ ms => ms
  | .sync => []

abbrev ai (i : Int) : Arg := .atom (.int i)
abbrev as (s : String) : Arg := .atom (.str s)

/-! ### Python values given to the client calls -/

inductive Val where
  | int (i : Int)
  | flt (r : Rat)
  | str (s : String)
  | none
  | tt | ff
  | bus (h : Nat)             -- a Bus object (handle = creation index)
  | buf (h : Nat)             -- a Buffer object
  | node (h : Nat)            -- a Node object
  | msym (h : Nat)            -- `bus.as_map()` of bus `h`
  | list (l : List Val)       -- list or tuple
  | dict (l : List Val)       -- dict, as alternating key, value (keys distinct)
deriving Repr

inductive Target where
  | none | node (h : Nat) | int (i : Int) | srv
deriving Repr, DecidableEq

inductive Completion where
  | none
  | msg (c : Compl)
  | kfn                       -- a function: `lambda buf, *a: ['/b_query', buf.bufnum]`
deriving Repr, DecidableEq

/-! ### client state -/

structure NodeObj where
  id : Int
  isGroup : Bool
deriving Repr, DecidableEq

structure BusObj where
  audio : Bool
  index : Option Int
  channels : Option Int
deriving Repr, DecidableEq

structure BufObj where
  bufnum : Option Int
  frames : Option Int
  channels : Option Int
deriving Repr, DecidableEq

structure Core where
  nia : NIA
  cbus : CBA
  abus : CBA
  balloc : CBA
  clientId : Nat
  maxLogins : Nat
  latency : Option Rat
  nodes : List NodeObj := []
  buses : List BusObj := []
  bufs : List BufObj := []
deriving Repr

/-- `NodeIDAllocator.num_ids` -/
def numIds : Int := (2 ^ 32 / 2 - 1) / 64

/-- `Server._make_default_groups`: id of the default group of client `c` -/
def defaultGroupId (c : Nat) : Int := numIds * c + 1

inductive Status where
  | ok
  | okNode (id : Int)
  | okBus (idx : Int)
  | okBufs (ids : List Int)
  | exc (name : String)
  | skip                      -- the call refers to an object that does not exist / a freed bus or buffer as argument
  | raise | skipped | raised | badEnd
deriving Repr, DecidableEq

def Status.raises : Status → Bool
  | .exc _ => true
  | .raise => true
  | _ => false

/-! ### argument conversion (`_graphparam.py`, node parameter interface) -/

/-- `_as_control_input()` of a non-sequence value; `none` = the harness refuses the call (`skip`). -/
def atomArg (c : Core) : Val → Option Arg
  | .int i => some (ai i)
  | .flt r => some (.atom (.flt r))
  | .str s => some (as s)
  | .none => some (.atom .none)
  | .tt => some (.atom .tt)
  | .ff => some (.atom .ff)
  | .bus h => do let b ← c.buses[h]?; let i ← b.index; pure (ai i)
  | .buf h => do let b ← c.bufs[h]?; let i ← b.bufnum; pure (ai i)
  | .node h => do let n ← c.nodes[h]?; pure (ai n.id)
  | .msym h => do let b ← c.buses[h]?; let i ← b.index; pure (.atom (.msym b.audio i))
  | .list _ => none
  | .dict _ => none

mutual
/-- `_embed_as_osc_arg(lst)`: scalars append their control input, sequences and dicts are
    wrapped in '[' ']' recursively. -/
def embed (c : Core) : Val → Option (List Arg)
  | .list l => do let r ← embedL c l; pure (Arg.open :: r ++ [Arg.close])
  | .dict l => do let r ← embedL c l; pure (Arg.open :: r ++ [Arg.close])
  | .int i => some [ai i]
  | .flt r => some [.atom (.flt r)]
  | .str s => some [as s]
  | .none => some [.atom .none]
  | .tt => some [.atom .tt]
  | .ff => some [.atom .ff]
  | .bus h => do let b ← c.buses[h]?; let i ← b.index; pure [ai i]
  | .buf h => do let b ← c.bufs[h]?; let i ← b.bufnum; pure [ai i]
  | .node h => do let n ← c.nodes[h]?; pure [ai n.id]
  | .msym h => do let b ← c.buses[h]?; let i ← b.index; pure [.atom (.msym b.audio i)]
def embedL (c : Core) : List Val → Option (List Arg)
  | [] => some []
  | v :: vs => do let a ← embed c v; let b ← embedL c vs; pure (a ++ b)
end

/-- `_as_osc_arg_list()` at top level: a sequence/dict contributes its members without the
    outer brackets (dict: after D-C17-1 every key and value is embedded), a scalar itself. -/
def oscArgList (c : Core) : Val → Option (List Arg)
  | .list l => embedL c l
  | .dict l => embedL c l
  | v => do let a ← atomArg c v; pure [a]

/-- `args or []`: `None`, an empty list and an empty dict give no arguments -/
def synthArgs (c : Core) : Val → Option (List Arg)
  | .none => some []
  | v => oscArgList c v

/-- `_as_control_input()` of the argument tuple of `map`, `fill`: element-wise, flat (a list
    element would stay a Python list inside the message: outside the model, `none`). -/
def ctlInputs (c : Core) (vs : List Val) : Option (List Arg) := vs.mapM (atomArg c)

def boolArg (b : Bool) : Arg := ai (if b then 1 else 0)

/-! ### targets -/

/-- `gpp.node_param(target)._as_target()`: node id and whether the target is a group object -/
def Core.target (c : Core) : Target → Option (Int × Bool)
  | .none => some (defaultGroupId c.clientId, true)       -- Server.default.default_group
  | .srv => some (defaultGroupId c.clientId, true)
  | .int i => some (i, true)                              -- Group.basic_new(server, i)
  | .node h => do let n ← c.nodes[h]?; pure (n.id, n.isGroup)

/-- `self.server._next_node_id()`; ids are non-negative by C16 (`none` never happens in range) -/
def Core.nextNodeId (c : Core) : Core × Int :=
  let (n', r) := c.nia.alloc
  ({ c with nia := n' }, match r with | some x => (x : Int) | none => -1)

/-! ### operations -/

inductive Op where
  | synth (paused : Bool) (defName : String) (tgt : Target) (act : Int) (args : Val)
  | grain (defName : String) (tgt : Target) (act : Int) (args : Val)
  | replace (tgt : Nat) (defName : String) (args : Val) (sameId : Bool)
  | group (par : Bool) (tgt : Target) (act : Int)
  | nfree (h : Nat) (flag : Bool)
  | run (h : Nat) (flag : Bool)
  | gdump (h : Nat) (flag : Bool)
  | map (audio : Bool) (h : Nat) (args : List Val)
  | mapn (audio : Bool) (h : Nat) (args : List Val)
  | set (h : Nat) (args : List Val)
  | setn (h : Nat) (args : List Val)
  | fill (h : Nat) (args : List Val)
  | release (h : Nat) (time : Val)
  | trace (h : Nat)
  | nquery (h : Nat)
  | gfreeall (h : Nat)
  | gdeep (h : Nat)
  | movb (h t : Nat)
  | mova (h t : Nat)
  | movh (h : Nat) (tgt : Option Nat)
  | movt (h : Nat) (tgt : Option Nat)
  | sget (h : Nat) (idx : Val)
  | sgetn (h : Nat) (idx count : Val)
  | reorder (act : Int) (tgt : Target) (nodes : List Nat)
  | freedg (all : Bool)
  | newBus (audio : Bool) (ch : Int) (idx : Option Int)
  | busfree (h : Nat)
  | cset (h : Nat) (vals : List Val)
  | csetn (h : Nat) (vals : List Val)
  | csetat (h : Nat) (off : Int) (vals : List Val)
  | csetnat (h : Nat) (off : Int) (vals : List Val)
  | cpairs (h : Nat) (pairs : List Val)
  | cfill (h : Nat) (value ch : Val)
  | cclear (h : Nat)
  | cget (h : Nat)
  | cgetn (h : Nat) (count : Option Int)
  | buf (frames ch : Int) (num : Option Int) (alloc : Bool) (cm : Completion)
  | balloc (h : Nat) (cm : Completion)
  | bufcons (n frames ch : Int) (num : Option Int) (cm : Completion)
  | bfree (h : Nat) (cm : Completion)
  | bfreeall
  | bzero (h : Nat) (cm : Completion)
  | bclose (h : Nat) (cm : Completion)
  | bfill (h : Nat) (start frames : Int) (vals : List Val)
  | bset (h : Nat) (args : List Val)
  | bsetn (h : Nat) (args : List Val)
  | bquery (h : Nat)
  | bget (h : Nat) (idx : Val)
  | bgetn (h : Nat) (idx count : Val)
  | bgen (h : Nat) (cmd : String) (args : List Val) (n w cl : Bool)
  | bsine (k : Nat) (h : Nat) (lists : List (List Val)) (n w cl : Bool)   -- k = 0: cheby, 1..3: sine1..3
  | bnorm (h : Nat) (max : Val) (wt : Bool)
  | bcopy (h d : Nat) (dstStart start num : Val)
  | subbus (h : Nat) (off ch : Int)                      -- `bus.sub_bus(off, ch)` (= `new_from`)
  | bread (h : Nat) (fs fr bs : Int) (lo : Bool)        -- `read(path, fs, fr, bs, lo)`
  | bloadlist (h : Nat) (start : Int)                   -- `load_list(lst, start)`
  | bwrite (h : Nat) (hdr : String) (frames start : Int) (lo : Bool) (cm : Completion)
  | ballocread (h : Nat) (start frames : Int) (cm : Completion)
  | bcue (h : Nat) (start : Int) (cm : Completion)
  | register (h : Nat)          -- `node.register()`: NodeWatcher bookkeeping, nothing is sent
  | sync                        -- `yield from s.sync()` (RT: `addr.sync()`)
  | bind | endBind | raise
deriving Repr

abbrev Res := Core × Status × List Packet

def Core.skip (c : Core) : Res := (c, .skip, [])
def Core.exc (c : Core) (name : String) : Res := (c, .exc name, [])
def Core.send (c : Core) (cmd : String) (args : List Arg) : Res := (c, .ok, [.msg ⟨cmd, args⟩])

/-- node commands of the form `cmd node_id args...` -/
def Core.nodeCmd (c : Core) (h : Nat) (cmd : String) (args : Option (List Arg)) : Res :=
  match c.nodes[h]?, args with
  | some n, some a => c.send cmd (ai n.id :: a)
  | _, _ => c.skip

/-- group-only methods raise AttributeError on a Synth, synth-only methods on a Group -/
def Core.kindCmd (c : Core) (h : Nat) (wantGroup : Bool) (cmd : String) (args : Option (List Arg)) : Res :=
  match c.nodes[h]?, args with
  | some n, some a => if n.isGroup == wantGroup then c.send cmd (ai n.id :: a) else c.exc "AttributeError"
  | _, _ => c.skip

/-- `utl.gen_cclumps(l, 2)`: complete pairs only -/
def pairsOf {α} : List α → List (α × α)
  | a :: b :: r => (a, b) :: pairsOf r
  | _ => []

/-- the `(index, channels)` a bus argument of `mapn` stands for: an int means one channel -/
def mnBus (c : Core) : Val → Option (Arg × Arg)
  | .int i => some (ai i, ai 1)
  | .tt => some (.atom .tt, ai 1)          -- bool is an int in Python
  | .ff => some (.atom .ff, ai 1)
  | .bus h => do
    let b ← c.buses[h]?
    let i ← b.index
    let ch ← b.channels
    pure (ai i, ai ch)
  | _ => none

/-- `Node._process_mn_args`: `(control, bus)` pairs (`gen_cclumps(tpl, 2)`: complete pairs only) -/
def mnArgs (c : Core) : List Val → Option (List Arg)
  | k :: b :: r => do
    let ctl ← atomArg c k
    let ib ← mnBus c b
    let rest ← mnArgs c r
    pure (ctl :: ib.1 :: ib.2 :: rest)
  | _ => some []

/-- the value part of a `setn` pair: a list → len, values; a scalar → 1, scalar -/
def setnVal (c : Core) : Val → Option (List Arg)
  | .list l => do let vs ← l.mapM (atomArg c); pure (ai l.length :: vs)
  | v => do let a ← atomArg c v; pure [ai 1, a]

/-- `Node.setn` / `Buffer.setn`: `(control, list)` → control, len, values; `(control, scalar)` →
    control, 1, scalar -/
def setnArgs (c : Core) : List Val → Option (List Arg)
  | k :: v :: r => do
    let ctl ← atomArg c k
    let vs ← setnVal c v
    let rest ← setnArgs c r
    pure (ctl :: vs ++ rest)
  | _ => some []

/-- `ControlBus.set_pairs`: the `(offset, value)` pairs (`gen_cclumps(pairs, 2)`) -/
def cpairsPre (c : Core) : List Val → Option (List (Int × Arg))
  | .int o :: v :: r => do
    let a ← atomArg c v
    let rest ← cpairsPre c r
    pure ((o, a) :: rest)
  | _ :: _ :: _ => none
  | _ => some []

/-- `Node.release` gate value -/
def releaseGate : Val → Option Arg
  | .none => some (ai 0)
  | .int i => some (if i ≤ 0 then ai (-1) else ai (-(i + 1)))
  | .flt r => some (if r ≤ 0 then ai (-1) else .atom (.flt (-(r + 1))))
  | _ => none

def complArg (cm : Completion) (bufnum : Int) : Arg :=
  match cm with
  | .none => .atom .none
  | .msg m => .msg m
  | .kfn => .msg (.leaf "/b_query" [.int bufnum])

/-- `[[index + off + i, v] for i, v in enumerate(values)]` flattened -/
def indexed (base : Int) : List Arg → List Arg
  | [] => []
  | v :: vs => ai base :: v :: indexed (base + 1) vs

def boolsFlags (n w cl : Bool) : Int :=
  (if n then 1 else 0) + (if w then 2 else 0) + (if cl then 4 else 0)

/-- `utl.lace([l1, .., lk], len(l1) * k)` for lists of equal length: interleave -/
def lace : List (List Arg) → List Arg
  | [] => []
  | l :: ls =>
    match l with
    | [] => []
    | _ => (List.range l.length).flatMap fun i => (l :: ls).filterMap (·[i]?)

def Core.busAt (c : Core) (h : Nat) : Option BusObj := c.buses[h]?
def Core.bufAt (c : Core) (h : Nat) : Option BufObj := c.bufs[h]?

/-- a ControlBus method.  The harness evaluates every argument before the call: an argument that
    cannot be resolved (`args = none`) or a missing object is a `skip`; then AudioBus →
    AttributeError, freed → BusAlreadyFreed. -/
def Core.cbusCmd {α} (c : Core) (h : Nat) (args : Option α) (f : Int → Int → α → String × List Arg) : Res :=
  match c.buses[h]?, args with
  | some b, some a =>
    if b.audio then c.exc "AttributeError"
    else match b.index, b.channels with
      | some i, some ch => let r := f i ch a; c.send r.1 r.2
      | _, _ => c.exc "BusAlreadyFreed"
  | _, _ => c.skip

/-- a Buffer method guarded by `if self._bufnum is None: raise BufferAlreadyFreed` -/
def Core.bufCmd {α} (c : Core) (h : Nat) (args : Option α) (f : Int → α → String × List Arg) : Res :=
  match c.bufs[h]?, args with
  | some b, some a =>
    match b.bufnum with
    | some i => let r := f i a; c.send r.1 r.2
    | none => c.exc "BufferAlreadyFreed"
  | _, _ => c.skip

def optInt : Option Int → Arg
  | some i => ai i
  | none => .atom .none

/-- ids of the used blocks of the buffer allocator, `range(address, address + size)` each -/
def blockIds (bs : List C16.Block) : List Int :=
  bs.flatMap fun b => (List.range b.size).map fun i => ((b.start + i : Nat) : Int)

/-- `for block in blocks(): ... self._buffer_allocator.free(block.address)` -/
def freeBlocks (a : CBA) : List C16.Block → CBA
  | [] => a
  | b :: bs =>
    match a.free (some b.start) with
    | .ok a' => freeBlocks a' bs
    | .error _ => freeBlocks a bs

/-- allocation through a C16 allocator with the deterministic tie-break of the harness -/
def allocIn (a : CBA) (n : Int) : Option (CBA × Option Nat) :=
  if n < 0 then none
  else match a.alloc n.toNat 0 with
    | .ok r => some r
    | .error _ => none

/-- the sound file paths the harness passes (`load_list` writes a temporary file: `PATH`) -/
def readPath : String := "/tmp/c17in.wav"
def writePath : String := "/tmp/c17out"

def Core.stepCore (c : Core) : Op → Res
  | .synth paused name tgt act args =>
    match c.target tgt, synthArgs c args with
    | some (tid, _), some a =>
      let (c, id) := c.nextNodeId
      let c := { c with nodes := c.nodes ++ [⟨id, false⟩] }
      let m : Msg := ⟨"/s_new", as name :: ai id :: ai act :: ai tid :: a⟩
      if paused then (c, .okNode id, [.bundle none [m, ⟨"/n_run", [ai id, ai 0]⟩]])
      else (c, .okNode id, [.msg m])
    | _, _ => c.skip
  | .grain name tgt act args =>
    match c.target tgt, synthArgs c args with
    | some (tid, _), some a => c.send "/s_new" (as name :: ai (-1) :: ai act :: ai tid :: a)
    | _, _ => c.skip
  | .replace t name args same =>
    match c.nodes[t]?, synthArgs c args with
    | some tn, some a =>
      let (c, id) := if same then (c, tn.id) else c.nextNodeId
      let c := { c with nodes := c.nodes ++ [⟨id, false⟩] }
      (c, .okNode id, [.msg ⟨"/s_new", as name :: ai id :: ai 4 :: ai tn.id :: a⟩])
    | _, _ => c.skip
  | .group par tgt act =>
    match c.target tgt with
    | some (tid, _) =>
      let (c, id) := c.nextNodeId
      let c := { c with nodes := c.nodes ++ [⟨id, true⟩] }
      (c, .okNode id, [.msg ⟨if par then "/p_new" else "/g_new", [ai id, ai act, ai tid]⟩])
    | none => c.skip
  | .nfree h flag =>
    match c.nodes[h]? with
    | some n => if flag then c.send "/n_free" [ai n.id] else (c, .ok, [])
    | none => c.skip
  | .run h flag => c.nodeCmd h "/n_run" (some [boolArg flag])
  | .gdump h flag => c.kindCmd h true "/g_dumpTree" (some [boolArg flag])
  | .map audio h args => c.nodeCmd h (if audio then "/n_mapa" else "/n_map") (ctlInputs c args)
  | .mapn audio h args => c.nodeCmd h (if audio then "/n_mapan" else "/n_mapn") (mnArgs c args)
  | .set h args => c.nodeCmd h "/n_set" (oscArgList c (.list args))
  | .setn h args => c.nodeCmd h "/n_setn" (setnArgs c args)
  | .fill h args => c.nodeCmd h "/n_fill" (ctlInputs c args)
  | .release h time =>
    match c.nodes[h]?, releaseGate time with
    | some n, some g => (c, .ok, [.bundle c.latency [⟨"/n_set", [ai n.id, as "gate", g]⟩]])
    | _, _ => c.skip
  | .trace h => c.nodeCmd h "/n_trace" (some [])
  | .nquery h => c.nodeCmd h "/n_query" (some [])
  | .gfreeall h => c.kindCmd h true "/g_freeAll" (some [])
  | .gdeep h => c.kindCmd h true "/g_deepFree" (some [])
  | .movb h t =>
    match c.nodes[h]?, c.nodes[t]? with
    | some n, some tn => c.send "/n_before" [ai n.id, ai tn.id]
    | _, _ => c.skip
  | .mova h t =>
    match c.nodes[h]?, c.nodes[t]? with
    | some n, some tn => c.send "/n_after" [ai n.id, ai tn.id]
    | _, _ => c.skip
  | .movh h tgt =>
    match c.nodes[h]?, (match tgt with | some t => c.target (.node t) | none => c.target .none) with
    | some n, some (tid, isG) =>
      if isG then c.send "/g_head" [ai tid, ai n.id] else c.exc "AttributeError"
    | _, _ => c.skip
  | .movt h tgt =>
    match c.nodes[h]?, (match tgt with | some t => c.target (.node t) | none => c.target .none) with
    | some n, some (tid, isG) =>
      if isG then c.send "/g_tail" [ai tid, ai n.id] else c.exc "AttributeError"
    | _, _ => c.skip
  | .sget h idx => c.kindCmd h false "/s_get" (do let a ← atomArg c idx; pure [a])
  | .sgetn h idx count =>
    c.kindCmd h false "/s_getn" (do let a ← atomArg c idx; let b ← atomArg c count; pure [a, b])
  | .reorder act tgt nodes =>
    match c.target tgt, nodes.mapM (fun h => (c.nodes[h]?).map (·.id)) with
    | some (tid, _), some ids => c.send "/n_order" (ai act :: ai tid :: ids.map ai)
    | _, _ => c.skip
  | .freedg all =>
    if all then
      (c, .ok, (List.range c.maxLogins).map fun k => .msg ⟨"/g_freeAll", [ai (defaultGroupId k)]⟩)
    else c.send "/g_freeAll" [ai (defaultGroupId c.clientId)]
  | .newBus audio ch idx =>
    match idx with
    | some i => ({ c with buses := c.buses ++ [⟨audio, some i, some ch⟩] }, .okBus i, [])
    | none =>
      match allocIn (if audio then c.abus else c.cbus) ch with
      | some (a', some x) =>
        let c := if audio then { c with abus := a' } else { c with cbus := a' }
        ({ c with buses := c.buses ++ [⟨audio, some x, some ch⟩] }, .okBus x, [])
      | some (_, none) => c.exc "BusException"
      | none => c.exc "AllocatorError"
  | .busfree h =>
    match c.buses[h]? with
    | none => c.skip
    | some b =>
      match b.index with
      | none => (c, .ok, [])                     -- warning 'already freed', return
      | some i =>
        let al := if b.audio then c.abus else c.cbus
        -- a negative index is below `addr_offset`: ignored by the allocator (C16, D-C16-1)
        if i < 0 then ({ c with buses := c.buses.set h ⟨b.audio, none, none⟩ }, .ok, [])
        else
          match al.free (some i.toNat) with
          | .error _ => c.exc "IndexError"
          | .ok a' =>
            let c := if b.audio then { c with abus := a' } else { c with cbus := a' }
            ({ c with buses := c.buses.set h ⟨b.audio, none, none⟩ }, .ok, [])
  | .cset h vals => c.cbusCmd h (ctlInputs c vals) fun i _ vs => ("/c_set", indexed i vs)
  | .csetn h vals =>
    c.cbusCmd h (ctlInputs c vals) fun i _ vs => ("/c_setn", ai i :: ai vals.length :: vs)
  | .csetat h off vals => c.cbusCmd h (ctlInputs c vals) fun i _ vs => ("/c_set", indexed (i + off) vs)
  | .csetnat h off vals =>
    c.cbusCmd h (ctlInputs c vals) fun i _ vs => ("/c_setn", ai (i + off) :: ai vals.length :: vs)
  | .cpairs h pairs =>
    c.cbusCmd h (cpairsPre c pairs) fun i _ ps =>
      ("/c_set", ps.flatMap fun (p : Int × Arg) => [ai (i + p.1), p.2])
  | .cfill h value ch =>
    c.cbusCmd h (do let v ← atomArg c value; let n ← atomArg c ch; pure (v, n))
      fun i _ p => ("/c_fill", [ai i, p.2, p.1])
  | .cclear h => c.cbusCmd h (some ()) fun i ch _ => ("/c_fill", [ai i, ai ch, ai 0])
  | .cget h =>
    c.cbusCmd h (some ()) fun i ch _ => if ch = 1 then ("/c_get", [ai i]) else ("/c_getn", [ai i, ai ch])
  | .cgetn h count => c.cbusCmd h (some ()) fun i ch _ => ("/c_getn", [ai i, ai (count.getD ch)])
  | .buf frames ch num alloc cm =>
    match num with
    | some b =>
      let c := { c with bufs := c.bufs ++ [⟨some b, some frames, some ch⟩] }
      (c, .okBufs [b], if alloc then [.msg ⟨"/b_alloc", [ai b, ai frames, ai ch, complArg cm b]⟩] else [])
    | none =>
      match allocIn c.balloc 1 with
      | some (a', some x) =>
        let b : Int := x
        let c := { c with balloc := a', bufs := c.bufs ++ [⟨some b, some frames, some ch⟩] }
        (c, .okBufs [b], if alloc then [.msg ⟨"/b_alloc", [ai b, ai frames, ai ch, complArg cm b]⟩] else [])
      | some (_, none) => c.exc "Exception"
      | none => c.exc "AllocatorError"
  | .balloc h cm =>
    match c.bufs[h]? with
    | none => c.skip
    | some b =>
      match b.bufnum with
      | some i => c.send "/b_alloc" [ai i, optInt b.frames, optInt b.channels, complArg cm i]
      | none => c.exc "BufferAlreadyFreed"
  | .bufcons n frames ch num cm =>
    match num with
    | some b0 =>
      -- user-managed numbers: nothing is taken from the allocator
      let ids := (List.range n.toNat).map fun (i : Nat) => b0 + (i : Int)
      let c := { c with bufs := c.bufs ++ ids.map fun b => ⟨some b, some frames, some ch⟩ }
      (c, .okBufs ids, ids.map fun b => .msg ⟨"/b_alloc", [ai b, ai frames, ai ch, complArg cm b]⟩)
    | none =>
      match allocIn c.balloc n with
      | some (a', some x) =>
        let ids := (List.range n.toNat).map fun i => ((x + i : Nat) : Int)
        let c := { c with balloc := a', bufs := c.bufs ++ ids.map fun b => ⟨some b, some frames, some ch⟩ }
        (c, .okBufs ids, ids.map fun b => .msg ⟨"/b_alloc", [ai b, ai frames, ai ch, complArg cm b]⟩)
      | some (_, none) => c.exc "Exception"
      | none => c.exc "AllocatorError"
  | .bfree h cm =>
    match c.bufs[h]? with
    | none => c.skip
    | some b =>
      match b.bufnum with
      | none => (c, .ok, [])                     -- warning 'already freed', return (D11)
      | some i =>
        -- a negative number is below `addr_offset`: ignored by the allocator (C16, D-C16-1)
        match (if i < 0 then Except.ok c.balloc else c.balloc.free (some i.toNat)) with
          | .error _ => c.exc "IndexError"
          | .ok a' =>
            ({ c with balloc := a', bufs := c.bufs.set h ⟨none, none, none⟩ }, .ok,
             [.msg ⟨"/b_free", [ai i, complArg cm i]⟩])
  | .bfreeall =>
    let bs := c.balloc.blocks
    ({ c with balloc := freeBlocks c.balloc bs }, .ok,
     [.bundle none ((blockIds bs).map fun i => ⟨"/b_free", [ai i]⟩)])
  | .bzero h cm => c.bufCmd h (some ()) fun i _ => ("/b_zero", [ai i, complArg cm i])
  | .bclose h cm => c.bufCmd h (some ()) fun i _ => ("/b_close", [ai i, complArg cm i])
  | .bfill h start frames vals =>
    c.bufCmd h (ctlInputs c vals) fun i vs => ("/b_fill", ai i :: ai start :: ai frames :: vs)
  | .bset h args => c.bufCmd h (ctlInputs c args) fun i vs => ("/b_set", ai i :: vs)
  | .bsetn h args => c.bufCmd h (setnArgs c args) fun i vs => ("/b_setn", ai i :: vs)
  | .bquery h => c.bufCmd h (some ()) fun i _ => ("/b_query", [ai i])
  | .bget h idx => c.bufCmd h (atomArg c idx) fun i a => ("/b_get", [ai i, a])
  | .bgetn h idx count =>
    c.bufCmd h (do let a ← atomArg c idx; let b ← atomArg c count; pure (a, b))
      fun i p => ("/b_getn", [ai i, p.1, p.2])
  | .bgen h cmd args n w cl =>
    c.bufCmd h (ctlInputs c args) fun i vs => ("/b_gen", ai i :: as cmd :: ai (boolsFlags n w cl) :: vs)
  | .bsine k h lists n w cl =>
    c.bufCmd h (do
        let ls ← lists.mapM (ctlInputs c)
        if ls.all (fun l => l.length == (ls.head?.map List.length).getD 0) then pure ls else none)
      fun i ls =>
        let name := match k with | 0 => "cheby" | 1 => "sine1" | 2 => "sine2" | _ => "sine3"
        ("/b_gen", ai i :: as name :: ai (boolsFlags n w cl) :: lace ls)
  | .bnorm h max wt =>
    c.bufCmd h (atomArg c max) fun i m => ("/b_gen", [ai i, as (if wt then "wnormalize" else "normalize"), m])
  | .bcopy h d dstStart start num =>
    c.bufCmd h (do
        let db ← c.bufs[d]?
        let di ← db.bufnum
        let a ← atomArg c dstStart; let b ← atomArg c start; let n ← atomArg c num
        pure (di, a, b, n))
      fun i p => ("/b_gen", [ai p.1, as "copy", p.2.1, ai i, p.2.2.1, p.2.2.2])
  | .subbus h off ch =>
    match c.buses[h]? with
    | none => c.skip
    | some b =>
      match b.index, b.channels with
      | some i, some pc =>
        -- `if offset > bus._channels or channels + offset > bus._channels: raise BusException`
        if off > pc || ch + off > pc then c.exc "BusException"
        else ({ c with buses := c.buses ++ [⟨b.audio, some (i + off), some ch⟩] }, .okBus (i + off), [])
      | _, _ => c.exc "TypeError"           -- freed parent: `offset > None`
  | .bread h fs fr bs lo =>
    match c.bufs[h]?.bind (·.bufnum) with
    | some i =>
      c.send "/b_read" [ai i, as readPath, ai fs, ai fr, ai bs, .atom (if lo then .tt else .ff),
                        .msg (.leaf "/b_query" [.int i])]
    | none => c.skip
  | .bloadlist h start =>
    match c.bufs[h]?.bind (·.bufnum) with
    | some i =>
      c.send "/b_read" [ai i, as "PATH", ai 0, ai (-1), ai start, .atom .ff, .msg (.leaf "/b_query" [.int i])]
    | none => c.skip
  | .bwrite h hdr frames start lo cm =>
    c.bufCmd h (some ()) fun i _ =>
      ("/b_write", [ai i, as (writePath ++ "." ++ hdr), as hdr, as "int24", ai frames, ai start,
                    .atom (if lo then .tt else .ff), complArg cm i])
  | .ballocread h start frames cm =>
    match c.bufs[h]?.bind (·.bufnum) with
    | some i => c.send "/b_allocRead" [ai i, as readPath, ai start, ai frames, complArg cm i]
    | none => c.skip
  | .bcue h start cm =>
    match c.bufs[h]? with
    | some ⟨some i, some f, _⟩ =>
      c.send "/b_read" [ai i, as readPath, ai start, ai f, ai 0, .atom .tt, complArg cm i]
    | _ => c.skip
  | .register h =>
    match c.nodes[h]? with
    | some _ => (c, .ok, [])
    | none => c.skip
  | .sync => (c, .ok, [])
  | .bind => (c, .ok, [])
  | .endBind => (c, .ok, [])
  | .raise => (c, .raise, [])

/-! ### `Server.bind()` / `BundleNetAddr` -/

/-- client = core state + the stack of open `with s.bind():` collectors (innermost first) +
    everything that reached the OSC interface -/
structure Client where
  core : Core
  stack : List (List Msg) := []
  skipDepth : Nat := 0         -- > 0: an exception is propagating; blocks still to leave (syntactically)
  wire : List Packet := []
deriving Repr

/-- `BundleNetAddr.send_msg / send_bundle`: append the messages, bundle times are discarded -/
def collect (ps : List Packet) : List Msg := ps.flatMap Packet.msgs

/-- the exception leaves every enclosing block: all collectors are dropped, nothing is sent -/
def Client.unwind (cl : Client) : Client :=
  { cl with skipDepth := cl.stack.length, stack := [] }

/-- one line of a history: new state, status, packets put on the wire by this line -/
def Client.step (cl : Client) (op : Op) : Client × Status × List Packet :=
  if cl.skipDepth > 0 then
    match op with
    | .bind => ({ cl with skipDepth := cl.skipDepth + 1 }, .skipped, [])
    | .endBind =>
      if cl.skipDepth = 1 then ({ cl with skipDepth := 0 }, .raised, [])
      else ({ cl with skipDepth := cl.skipDepth - 1 }, .skipped, [])
    | _ => (cl, .skipped, [])
  else
    match op with
    | .bind => ({ cl with stack := [] :: cl.stack }, .ok, [])
    | .endBind =>
      match cl.stack with
      | [] => (cl, .badEnd, [])
      | top :: [] =>
        -- `_send_last_bundle`: `if bundle: save_addr.send_clumped_bundles(latency, *bundle)`
        let out := if top.isEmpty then [] else [Packet.bundle cl.core.latency top]
        ({ cl with stack := [], wire := cl.wire ++ out }, .ok, out)
      | top :: outer :: rest =>
        ({ cl with stack := (outer ++ top) :: rest }, .ok, [])
    | .sync =>
      -- `BundleNetAddr.sync`: every open block hands what it collected since its last sync to
      -- the enclosing one (`_send_last_bundle`), the outermost sends it as one bundle, then the
      -- real address syncs; all collectors restart empty.  Outside any block: just the sync.
      let pending := cl.stack.reverse.flatten
      let out := (if pending.isEmpty then [] else [Packet.bundle cl.core.latency pending]) ++ [Packet.sync]
      ({ cl with stack := cl.stack.map (fun _ => []), wire := cl.wire ++ out }, .ok, out)
    | op =>
      let (core', st, ps) := cl.core.stepCore op
      match cl.stack with
      | [] => ({ cl with core := core', wire := cl.wire ++ ps }, st, ps)
      | top :: rest =>
        let cl' := { cl with core := core', stack := (top ++ collect ps) :: rest }
        if st.raises then (cl'.unwind, st, []) else (cl', st, [])

def Client.run (cl : Client) : List Op → Client × List (Status × List Packet)
  | [] => (cl, [])
  | op :: ops =>
    let (cl', st, ps) := cl.step op
    let (cl'', rest) := cl'.run ops
    (cl'', (st, ps) :: rest)

/-! ### construction -/

/-- an allocator from the `(size, pos, addr_offset)` of the partition arithmetic -/
def mkAlloc (a : Int × Int × Int) : Option CBA :=
  if a.1 < 0 || a.2.1 < 0 || a.2.2 < 0 then none else CBA.init a.1.toNat a.2.1.toNat a.2.2.toNat

/-- `Server(name, addr, options)` + `_set_client_id(c)`: allocators from the regenerated
    partition arithmetic (`none` if an allocator constructor raises) -/
def Core.init (o : Opts) (latency : Option Rat) : Option Core :=
  match mkAlloc (busAllocArgs o).1, mkAlloc (busAllocArgs o).2, mkAlloc (bufferAllocArgs o) with
  | some cb, some ab, some bb =>
    if (nodeAllocArgs o).1 < 0 || o.client_id < 0 || o.max_logins < 0 then none
    else match NIA.init (nodeAllocArgs o).1.toNat (nodeAllocArgs o).2 with
      | some nia =>
        some { nia := nia, cbus := cb, abus := ab, balloc := bb, clientId := o.client_id.toNat,
               maxLogins := o.max_logins.toNat, latency := latency }
      | none => none
  | _, _, _ => none

end Sc3Verif.C17
