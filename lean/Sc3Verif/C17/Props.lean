/-
C17 — Client objects speak the server command protocol and keep ids consistent.
Property theorems only (helper lemmas are in `Lemmas.lean`).
-/
import Sc3Verif.C17.Lemmas
import Sc3Verif.C17.GenActions
import Sc3Verif.C16.Props
namespace Sc3Verif.C17

/-! ## `with server.bind():` -/

/-- `with s.bind(): body` as a history -/
abbrev blockOps (body : List Op) : List Op := Op.bind :: (body ++ [Op.endBind])

/-- what a finished top-level block puts on the wire: one bundle, at the latency of the server,
    with the messages the calls issue, in issue order (nothing if no message was issued) -/
def blockSent (c : Core) (body : List Op) : List Packet :=
  bundleOf (c.runPlain body).1.latency (issued (c.runPlain body).2)

/-- Commands issued inside a bind block reach the wire as ONE bundle (time = server latency), in
    issue order, when the block exits — and nothing reaches the wire before.  `body` is any
    sequence of client calls none of which raises; what each call "issues" is what it sends when
    run without the block (`runPlain`, the unbound twin). -/
theorem bind_one_bundle_in_order (cl : Client) (hs : cl.stack = []) (hk : cl.skipDepth = 0)
    (body : List Op) (hp : ∀ op ∈ body, op.plain = true)
    (hr : ∀ r ∈ (cl.core.runPlain body).2, r.1.raises = false) :
    (cl.run (blockOps body)).1.wire = cl.wire ++ blockSent cl.core body ∧
    (cl.run (blockOps body)).1.core = (cl.core.runPlain body).1 ∧
    (cl.run (blockOps body)).1.stack = [] ∧ (cl.run (blockOps body)).1.skipDepth = 0 ∧
    (cl.run (blockOps body)).2 = (Status.ok, []) :: (cl.core.runPlain body).2.map (fun x => (x.1, []))
        ++ [(Status.ok, blockSent cl.core body)] := by
  unfold blockOps blockSent
  have hb : cl.step .bind = ({ cl with stack := [[]] }, .ok, []) := by
    unfold Client.step; rw [if_neg (by omega)]; simp [hs]
  simp only [Client.run, hb]
  have ha := run_append { cl with stack := [[]] } body [Op.endBind]
  have hi := run_plain_in_block { cl with stack := [[]] } [] [] rfl hk body hp hr
  simp only [List.nil_append] at hi
  obtain ⟨h1, h2, h3, h4, h5⟩ := hi
  have he : ((Client.run { cl with stack := [[]] } body).1).step .endBind =
      ({ (Client.run { cl with stack := [[]] } body).1 with
           stack := [],
           wire := cl.wire ++ bundleOf (cl.core.runPlain body).1.latency (issued (cl.core.runPlain body).2) },
       .ok, bundleOf (cl.core.runPlain body).1.latency (issued (cl.core.runPlain body).2)) := by
    unfold Client.step
    rw [if_neg (by omega), h2]
    simp only [h1, h4, bundleOf]
  rw [ha.1, ha.2]
  simp only [Client.run, he, h5]
  refine ⟨trivial, h1, trivial, h3, by simp⟩

/-- The same calls without the block send the same messages one by one: the bundle of
    `bind_one_bundle_in_order` contains exactly the messages of these packets, in order. -/
theorem unbound_sends_each (cl : Client) (hs : cl.stack = []) (hk : cl.skipDepth = 0)
    (body : List Op) (hp : ∀ op ∈ body, op.plain = true) :
    (cl.run body).1.wire = cl.wire ++ (cl.core.runPlain body).2.flatMap (·.2) ∧
    collect ((cl.core.runPlain body).2.flatMap (·.2)) = issued (cl.core.runPlain body).2 ∧
    (cl.run body).1.core = (cl.core.runPlain body).1 := by
  have := run_plain_top cl hs hk body hp
  refine ⟨this.2.2.2.1, ?_, this.1⟩
  generalize (cl.core.runPlain body).2 = rs
  induction rs with
  | nil => rfl
  | cons r rs ih => simp only [List.flatMap_cons, collect, issued] at ih ⊢; rw [List.flatMap_append, ih]

/-- A block nested in another block sends nothing by itself: on exit its messages join the
    enclosing block's collector, after what was issued there before. -/
theorem bind_nested_appends (cl : Client) (top : List Msg) (rest : List (List Msg))
    (hs : cl.stack = top :: rest) (hk : cl.skipDepth = 0)
    (body : List Op) (hp : ∀ op ∈ body, op.plain = true)
    (hr : ∀ r ∈ (cl.core.runPlain body).2, r.1.raises = false) :
    (cl.run (blockOps body)).1.wire = cl.wire ∧
    (cl.run (blockOps body)).1.stack = (top ++ issued (cl.core.runPlain body).2) :: rest ∧
    (cl.run (blockOps body)).1.core = (cl.core.runPlain body).1 ∧
    (cl.run (blockOps body)).1.skipDepth = 0 ∧ ∀ x ∈ (cl.run (blockOps body)).2, x.2 = [] := by
  unfold blockOps
  have hb : cl.step .bind = ({ cl with stack := [] :: top :: rest }, .ok, []) := by
    unfold Client.step; rw [if_neg (by omega)]; simp [hs]
  simp only [Client.run, hb]
  have ha := run_append { cl with stack := [] :: top :: rest } body [Op.endBind]
  have hi := run_plain_in_block { cl with stack := [] :: top :: rest } [] (top :: rest) rfl hk body hp hr
  simp only [List.nil_append] at hi
  obtain ⟨h1, h2, h3, h4, h5⟩ := hi
  have he : ((Client.run { cl with stack := [] :: top :: rest } body).1).step .endBind =
      ({ (Client.run { cl with stack := [] :: top :: rest } body).1 with
           stack := (top ++ issued (cl.core.runPlain body).2) :: rest }, .ok, []) := by
    unfold Client.step
    rw [if_neg (by omega), h2]
  rw [ha.1, ha.2]
  simp only [Client.run, he, h5]
  refine ⟨h4, trivial, h1, h3, ?_⟩
  intro x hx
  simp only [List.mem_cons, List.mem_append, List.mem_map, List.not_mem_nil, or_false] at hx
  rcases hx with rfl | ⟨y, _, rfl⟩ | rfl <;> rfl

/-- If a call of the block raises (or the block body raises by itself: `Op.raise`), NOTHING of
    the block is sent: neither what was issued before the exception nor anything after it; the
    calls after the exception are not executed; the state changes of the calls before it stay. -/
theorem bind_raises_sends_nothing (cl : Client) (hs : cl.stack = []) (hk : cl.skipDepth = 0)
    (pre post : List Op) (opR : Op)
    (hp : ∀ op ∈ pre, op.plain = true) (hq : ∀ op ∈ post, op.plain = true)
    (hr : ∀ r ∈ (cl.core.runPlain pre).2, r.1.raises = false)
    (hR : opR.plain = true ∨ opR = .raise)
    (hraise : ((cl.core.runPlain pre).1.stepCore opR).2.1.raises = true) :
    (cl.run (blockOps (pre ++ opR :: post))).1.wire = cl.wire ∧
    (cl.run (blockOps (pre ++ opR :: post))).1.stack = [] ∧
    (cl.run (blockOps (pre ++ opR :: post))).1.skipDepth = 0 ∧
    (cl.run (blockOps (pre ++ opR :: post))).1.core = ((cl.core.runPlain pre).1.stepCore opR).1 ∧
    ∀ x ∈ (cl.run (blockOps (pre ++ opR :: post))).2, x.2 = [] := by
  unfold blockOps
  have hb : cl.step .bind = ({ cl with stack := [[]] }, .ok, []) := by
    unfold Client.step; rw [if_neg (by omega)]; simp [hs]
  simp only [Client.run, hb]
  have e : (pre ++ opR :: post) ++ [Op.endBind] = pre ++ ([opR] ++ (post ++ [Op.endBind])) := by simp
  rw [e]
  have ha := run_append { cl with stack := [[]] } pre ([opR] ++ (post ++ [Op.endBind]))
  have hi := run_plain_in_block { cl with stack := [[]] } [] [] rfl hk pre hp hr
  simp only [List.nil_append] at hi
  obtain ⟨h1, h2, h3, h4, h5⟩ := hi
  generalize hc1 : (Client.run { cl with stack := [[]] } pre).1 = c1 at *
  -- the raising call
  have hR' : c1.step opR =
      ({ c1 with core := (c1.core.stepCore opR).1, stack := [], skipDepth := 1 },
       (c1.core.stepCore opR).2.1, []) := by
    unfold Client.step
    rw [if_neg (by omega)]
    rw [h1] at *
    rcases hR with hpl | rfl
    · cases opR <;> simp [Op.plain] at hpl <;> simp [h2, hraise, Client.unwind]
    · simp [h2, Core.stepCore, Status.raises, Client.unwind]
  generalize hc2 : ({ c1 with core := (c1.core.stepCore opR).1, stack := [], skipDepth := 1 } : Client) = c2 at *
  have hb2 := run_append c2 post [Op.endBind]
  have hsk := run_plain_skipping c2 (by rw [← hc2]; exact Nat.one_pos) post hq
  have he : c2.step .endBind = ({ c2 with skipDepth := 0 }, .raised, []) := by
    unfold Client.step
    rw [if_pos (by rw [← hc2]; exact Nat.one_pos)]
    simp [← hc2]
  have hrun : (c1.run ([opR] ++ (post ++ [Op.endBind]))).1 = { c2 with skipDepth := 0 } ∧
      ∀ x ∈ (c1.run ([opR] ++ (post ++ [Op.endBind]))).2, x.2 = [] := by
    simp only [List.singleton_append, Client.run, hR']
    rw [hb2.1, hb2.2, hsk.1, hsk.2]
    simp only [Client.run, he]
    refine ⟨trivial, ?_⟩
    intro x hx
    simp only [List.mem_cons, List.mem_append, List.mem_map, List.not_mem_nil, or_false] at hx
    rcases hx with rfl | ⟨y, _, rfl⟩ | rfl <;> rfl
  rw [ha.1, ha.2, hrun.1]
  refine ⟨?_, ?_, rfl, ?_, ?_⟩
  · rw [← hc2]; exact h4
  · rw [← hc2]
  · rw [← hc2, h1]
  · intro x hx
    simp only [List.mem_cons, List.mem_append] at hx
    rcases hx with rfl | hx | hx
    · rfl
    · rw [h5] at hx
      simp only [List.mem_map] at hx
      obtain ⟨y, _, rfl⟩ := hx; rfl
    · exact hrun.2 x hx

/-- every message the client has issued so far and not discarded: what is on the wire, then what
    waits in the open blocks, outermost first -/
def allMsgs (cl : Client) : List Msg := collect cl.wire ++ cl.stack.reverse.flatten

/-- For EVERY history of client calls and (arbitrarily nested, even unbalanced) `bind`/`end`
    tokens in which nothing raises: binding only regroups.  No message is lost, duplicated or
    reordered, and the client state is the one of the unbound run. -/
theorem bind_preserves_issue_order (cl : Client) (hk : cl.skipDepth = 0) (ops : List Op)
    (hno : Op.raise ∉ ops)
    (hr : ∀ r ∈ (cl.core.runPlain (ops.filter Op.plain)).2, r.1.raises = false) :
    allMsgs (cl.run ops).1 = allMsgs cl ++ issued (cl.core.runPlain (ops.filter Op.plain)).2 ∧
    (cl.run ops).1.core = (cl.core.runPlain (ops.filter Op.plain)).1 ∧
    (cl.run ops).1.skipDepth = 0 := by
  induction ops generalizing cl with
  | nil => simp [Client.run, Core.runPlain, issued, hk]
  | cons op ops ih =>
    have hno' : Op.raise ∉ ops := fun h => hno (by simp [h])
    have hne : op ≠ .raise := fun h => hno (by simp [h])
    simp only [Client.run]
    by_cases hpl : op.plain = true
    · -- an ordinary call
      have hf : (op :: ops).filter Op.plain = op :: ops.filter Op.plain := by simp [hpl]
      rw [hf] at hr ⊢
      simp only [Core.runPlain, List.mem_cons, forall_eq_or_imp] at hr
      obtain ⟨hr1, hr2⟩ := hr
      have hstep : (cl.step op).1.core = (cl.core.stepCore op).1 ∧ (cl.step op).1.skipDepth = 0 ∧
          allMsgs (cl.step op).1 = allMsgs cl ++ collect (cl.core.stepCore op).2.2 := by
        unfold Client.step
        rw [if_neg (by omega)]
        cases hst : cl.stack with
        | nil => cases op <;> simp [Op.plain] at hpl <;> simp [hst, allMsgs, collect, hk]
        | cons top rest =>
          cases op <;> simp [Op.plain] at hpl <;>
            simp [hst, allMsgs, collect, hk, hr1, List.append_assoc]
      obtain ⟨h1, h2, h3⟩ := hstep
      have := ih (cl.step op).1 h2 hno' (by rw [h1]; exact hr2)
      rw [h1] at this
      refine ⟨?_, this.2.1, this.2.2⟩
      rw [this.1, h3]
      simp [issued, Core.runPlain, List.append_assoc]
    · -- bind / end
      have hf : (op :: ops).filter Op.plain = ops.filter Op.plain := by simp [hpl]
      rw [hf] at hr ⊢
      have hstep : (cl.step op).1.core = cl.core ∧ (cl.step op).1.skipDepth = 0 ∧
          allMsgs (cl.step op).1 = allMsgs cl := by
        unfold Client.step
        rw [if_neg (by omega)]
        cases op <;> simp [Op.plain] at hpl
        · simp [allMsgs, hk]
        · cases hst : cl.stack with
          | nil => simp [allMsgs, hst, hk]
          | cons top rest =>
            cases rest with
            | nil =>
              by_cases he : top.isEmpty
              · simp [allMsgs, hst, hk, he, collect, List.isEmpty_iff.mp he]
              · simp [allMsgs, hst, hk, he, collect, Packet.msgs]
            | cons outer rest' => simp [allMsgs, hst, hk, List.append_assoc]
        · exact absurd rfl hne
      obtain ⟨h1, h2, h3⟩ := hstep
      have := ih (cl.step op).1 h2 hno' (by rw [h1]; exact hr)
      rw [h1, h3] at this
      exact this

end Sc3Verif.C17
