import Sc3Verif.C17.Model
import Sc3Verif.C17.GenActions
