/-
C17 — Client objects speak the server command protocol and keep ids consistent.
Property theorems only (helper lemmas are in `Lemmas.lean`).
-/
import Sc3Verif.C17.Lemmas
import Sc3Verif.C17.GenActions
import Sc3Verif.C16.Props
namespace Sc3Verif.C17
open Sc3Verif.C16 (CBA Block Inv Tiles tiles_mem free_inv blocks_eq SameFrame alloc_inv inv_init)

/-! ## conformance to the Server Command Reference -/

/-- EVERY message a client call emits conforms to the command reference (name, argument count,
    order, types, array brackets, counted groups, completion slot), for every state and every
    well-kinded argument list — values nested to any depth, any ids, any targets. -/
theorem emitted_conforms (c : Core) (op : Op) (hw : op.wf c = true) :
    ∀ p ∈ (c.stepCore op).2.2, ∀ m ∈ p.msgs, grammarOk m = true := by
  intro p hp m hm
  cases op with
  | synth paused name tgt act args =>
    simp only [Op.wf, Bool.and_eq_true] at hw
    simp only [Core.stepCore] at hp
    split at hp
    · rename_i tid _ a _ hsa
      have hpa := synthArgs_ok hw.2 hsa
      have hact := actOk_arg hw.1
      split at hp
      · simp only [List.mem_singleton] at hp; subst hp
        simp only [Packet.msgs, List.mem_cons, List.not_mem_nil, or_false] at hm
        rcases hm with rfl | rfl
        · simp [grammarOk, Arg.isStr, Arg.isInt, hact, hpa, as, ai]
        · simp [grammarOk, rep2, Arg.isInt, Arg.isFlag, ai]
      · simp only [List.mem_singleton] at hp; subst hp
        simp only [Packet.msgs, List.mem_singleton] at hm; subst hm
        simp [grammarOk, Arg.isStr, Arg.isInt, hact, hpa, as, ai]
    · simp [Core.skip] at hp
  | grain name tgt act args =>
    simp only [Op.wf, Bool.and_eq_true] at hw
    simp only [Core.stepCore] at hp
    split at hp
    · rename_i tid _ a _ hsa
      have := send_msg hp hm; subst this
      simp [grammarOk, Arg.isStr, Arg.isInt, actOk_arg hw.1, synthArgs_ok hw.2 hsa, as, ai]
    · simp [Core.skip] at hp
  | replace t name args same =>
    simp only [Op.wf] at hw
    simp only [Core.stepCore] at hp
    split at hp
    · rename_i tn a _ hsa
      simp only [List.mem_singleton] at hp; subst hp
      simp only [Packet.msgs, List.mem_singleton] at hm; subst hm
      simp [grammarOk, Arg.isStr, Arg.isInt, synthArgs_ok hw hsa, as, ai, Arg.isAddAction, actionIn]
    · simp [Core.skip] at hp
  | group par tgt act =>
    simp only [Op.wf] at hw
    simp only [Core.stepCore] at hp
    split at hp
    · simp only [List.mem_singleton] at hp; subst hp
      simp only [Packet.msgs, List.mem_singleton] at hm; subst hm
      have := actOk_arg hw
      cases par <;> simp [grammarOk, rep3, Arg.isInt, this, ai]
    · simp [Core.skip] at hp
  | nfree h flag =>
    simp only [Core.stepCore] at hp
    split at hp
    · split at hp
      · have := send_msg hp hm; subst this
        simp [grammarOk, rep1, Arg.isInt, ai]
      · simp at hp
    · simp [Core.skip] at hp
  | run h flag =>
    obtain ⟨n, a, ha, rfl⟩ := nodeCmd_msg hp hm
    simp only [Option.some.injEq] at ha; subst ha
    simp [grammarOk, rep2, Arg.isInt, boolArg_flag, ai]
  | gdump h flag =>
    obtain ⟨n, a, ha, rfl⟩ := kindCmd_msg hp hm
    simp only [Option.some.injEq] at ha; subst ha
    simp [grammarOk, rep2, Arg.isInt, boolArg_flag, ai]
  | map audio h args =>
    simp only [Op.wf] at hw
    obtain ⟨n, a, ha, rfl⟩ := nodeCmd_msg hp hm
    have := rep2_of_vrep2 (c := c) (fun v a hv h => atomArg_ctlLike hv h)
      (fun v a hv h => atomArg_intLike hv h) args a hw ha
    cases audio <;> simp [grammarOk, Arg.isInt, this, ai]
  | mapn audio h args =>
    simp only [Op.wf] at hw
    obtain ⟨n, a, ha, rfl⟩ := nodeCmd_msg hp hm
    have := mnArgs_ok c args a hw ha
    cases audio <;> simp [grammarOk, Arg.isInt, this, ai]
  | set h args =>
    simp only [Op.wf] at hw
    obtain ⟨n, a, ha, rfl⟩ := nodeCmd_msg hp hm
    have := embedL_pairs c args a hw (by simpa [oscArgList] using ha)
    simp [grammarOk, Arg.isInt, this, ai]
  | setn h args =>
    simp only [Op.wf] at hw
    obtain ⟨n, a, ha, rfl⟩ := nodeCmd_msg hp hm
    have := setnArgs_ok c Val.isCtlLike Arg.isCtl (fun v a hv h => atomArg_ctlLike hv h) args a hw ha
    simp [grammarOk, Arg.isInt, this, ai]
  | fill h args =>
    simp only [Op.wf] at hw
    obtain ⟨n, a, ha, rfl⟩ := nodeCmd_msg hp hm
    have := rep3_of_vrep3 (c := c) (fun v a hv h => atomArg_ctlLike hv h)
      (fun v a hv h => atomArg_intLike hv h) (fun v a hv h => atomArg_numLike hv h) args a hw ha
    simp [grammarOk, Arg.isInt, this, ai]
  | release h time =>
    simp only [Core.stepCore] at hp
    split at hp
    · rename_i n g _ hg
      simp only [List.mem_singleton] at hp; subst hp
      simp only [Packet.msgs, List.mem_singleton] at hm; subst hm
      simp [grammarOk, Arg.isInt, pairsOk, Arg.isCtl, releaseGate_num hg, as, ai]
    · simp [Core.skip] at hp
  | trace h =>
    obtain ⟨n, a, ha, rfl⟩ := nodeCmd_msg hp hm
    simp only [Option.some.injEq] at ha; subst ha
    simp [grammarOk, rep1, Arg.isInt, ai]
  | nquery h =>
    obtain ⟨n, a, ha, rfl⟩ := nodeCmd_msg hp hm
    simp only [Option.some.injEq] at ha; subst ha
    simp [grammarOk, rep1, Arg.isInt, ai]
  | gfreeall h =>
    obtain ⟨n, a, ha, rfl⟩ := kindCmd_msg hp hm
    simp only [Option.some.injEq] at ha; subst ha
    simp [grammarOk, rep1, Arg.isInt, ai]
  | gdeep h =>
    obtain ⟨n, a, ha, rfl⟩ := kindCmd_msg hp hm
    simp only [Option.some.injEq] at ha; subst ha
    simp [grammarOk, rep1, Arg.isInt, ai]
  | movb h t =>
    simp only [Core.stepCore] at hp
    split at hp
    · have := send_msg hp hm; subst this
      simp [grammarOk, rep2, Arg.isInt]
    · simp [Core.skip] at hp
  | mova h t =>
    simp only [Core.stepCore] at hp
    split at hp
    · have := send_msg hp hm; subst this
      simp [grammarOk, rep2, Arg.isInt]
    · simp [Core.skip] at hp
  | movh h tgt =>
    simp only [Core.stepCore] at hp
    split at hp
    · split at hp
      · have := send_msg hp hm; subst this
        simp [grammarOk, rep2, Arg.isInt]
      · simp [Core.exc] at hp
    · simp [Core.skip] at hp
  | movt h tgt =>
    simp only [Core.stepCore] at hp
    split at hp
    · split at hp
      · have := send_msg hp hm; subst this
        simp [grammarOk, rep2, Arg.isInt]
      · simp [Core.exc] at hp
    · simp [Core.skip] at hp
  | sget h idx =>
    simp only [Op.wf] at hw
    obtain ⟨n, a, ha, rfl⟩ := kindCmd_msg hp hm
    simp only [bind, Option.bind] at ha
    cases hx : atomArg c idx with
    | none => simp [hx] at ha
    | some x =>
      simp only [hx, pure, Option.some.injEq] at ha; subst ha
      simp [grammarOk, rep1, Arg.isInt, atomArg_ctlLike hw hx]
  | sgetn h idx count =>
    simp only [Op.wf, Bool.and_eq_true] at hw
    obtain ⟨n, a, ha, rfl⟩ := kindCmd_msg hp hm
    simp only [bind, Option.bind] at ha
    cases hx : atomArg c idx with
    | none => simp [hx] at ha
    | some x =>
      cases hy : atomArg c count with
      | none => simp [hx, hy] at ha
      | some y =>
        simp only [hx, hy, pure, Option.some.injEq] at ha; subst ha
        simp [grammarOk, rep2, ai_isInt, atomArg_ctlLike hw.1 hx, atomArg_intLike hw.2 hy]
  | reorder act tgt nodes =>
    simp only [Op.wf] at hw
    simp only [Core.stepCore] at hp
    split at hp
    · rename_i tid _ ids _ _
      have := send_msg hp hm; subst this
      have hall : rep1 Arg.isInt (ids.map ai) = true :=
        rep1_of_all _ (fun a ha => by
          simp only [List.mem_map] at ha; obtain ⟨i, _, rfl⟩ := ha; rfl)
      have : actionIn 0 3 (ai act) = true := by simpa [actionIn, ai] using hw
      simp [grammarOk, Arg.isInt, this, hall]
    · simp [Core.skip] at hp
  | freedg all =>
    simp only [Core.stepCore] at hp
    split at hp
    · simp only [List.mem_map, List.mem_range] at hp
      obtain ⟨k, _, rfl⟩ := hp
      simp only [Packet.msgs, List.mem_singleton] at hm; subst hm
      simp [grammarOk, rep1, Arg.isInt]
    · have := send_msg hp hm; subst this
      simp [grammarOk, rep1, Arg.isInt]
  | newBus audio ch idx =>
    simp only [Core.stepCore] at hp
    split at hp
    · simp at hp
    · split at hp <;> simp [Core.exc] at hp
  | busfree h =>
    simp only [Core.stepCore] at hp
    split at hp
    · simp [Core.skip] at hp
    · split at hp
      · simp at hp
      · split at hp
        · simp at hp
        · split at hp <;> simp [Core.exc] at hp
  | cset h vals =>
    simp only [Op.wf] at hw
    obtain ⟨i, ch, a, ha, rfl⟩ := cbusCmd_msg hp hm
    have := indexed_ok a i (ctlInputs_nums vals a hw ha).2
    simp [grammarOk, this]
  | csetat h off vals =>
    simp only [Op.wf] at hw
    obtain ⟨i, ch, a, ha, rfl⟩ := cbusCmd_msg hp hm
    have := indexed_ok a (i + off) (ctlInputs_nums vals a hw ha).2
    simp [grammarOk, this]
  | csetn h vals =>
    simp only [Op.wf] at hw
    obtain ⟨i, ch, a, ha, rfl⟩ := cbusCmd_msg hp hm
    have hn := ctlInputs_nums vals a hw ha
    have := counted_nums Arg.isInt a [] hn.2
    simp only [List.append_nil] at this
    simp [grammarOk, countedOk, Arg.isInt, ai, ← hn.1, this]
  | csetnat h off vals =>
    simp only [Op.wf] at hw
    obtain ⟨i, ch, a, ha, rfl⟩ := cbusCmd_msg hp hm
    have hn := ctlInputs_nums vals a hw ha
    have := counted_nums Arg.isInt a [] hn.2
    simp only [List.append_nil] at this
    simp [grammarOk, countedOk, Arg.isInt, ai, ← hn.1, this]
  | cpairs h pairs =>
    simp only [Op.wf] at hw
    obtain ⟨i, ch, a, ha, rfl⟩ := cbusCmd_msg hp hm
    have := cpairs_ok c i pairs a hw ha
    simp [grammarOk, this]
  | cfill h value ch =>
    simp only [Op.wf, Bool.and_eq_true] at hw
    obtain ⟨i, ch', a, ha, rfl⟩ := cbusCmd_msg hp hm
    simp only [bind, Option.bind] at ha
    cases hx : atomArg c value with
    | none => simp [hx] at ha
    | some x =>
      cases hy : atomArg c ch with
      | none => simp [hx, hy] at ha
      | some y =>
        simp only [hx, hy, pure, Option.some.injEq] at ha; subst ha
        simp [grammarOk, rep3, ai_isInt, atomArg_numLike hw.1 hx, atomArg_intLike hw.2 hy]
  | cclear h =>
    obtain ⟨i, ch, a, ha, rfl⟩ := cbusCmd_msg hp hm
    simp [grammarOk, rep3, Arg.isInt, Arg.isNum]
  | cget h =>
    obtain ⟨i, ch, a, ha, rfl⟩ := cbusCmd_msg hp hm
    split <;> simp [grammarOk, rep1, rep2, Arg.isInt]
  | cgetn h count =>
    obtain ⟨i, ch, a, ha, rfl⟩ := cbusCmd_msg hp hm
    simp [grammarOk, rep2, Arg.isInt]
  | buf frames ch num alloc cm =>
    simp only [Core.stepCore] at hp
    split at hp
    · split at hp
      · simp only [List.mem_singleton] at hp; subst hp
        simp only [Packet.msgs, List.mem_singleton] at hm; subst hm
        simp [grammarOk, ai_isInt, complTail_complArg]
      · simp at hp
    · split at hp
      · split at hp
        · simp only [List.mem_singleton] at hp; subst hp
          simp only [Packet.msgs, List.mem_singleton] at hm; subst hm
          simp [grammarOk, ai_isInt, complTail_complArg]
        · simp at hp
      · simp [Core.exc] at hp
      · simp [Core.exc] at hp
  | balloc h cm =>
    simp only [Core.stepCore] at hp
    split at hp
    · simp [Core.skip] at hp
    · split at hp
      · rename_i bo hb _ i hi
        have := send_msg hp hm; subst this
        simp only [Op.wf, hb, hi, Option.isNone_some, Bool.false_or, Bool.and_eq_true] at hw
        obtain ⟨f, hf⟩ := Option.isSome_iff_exists.mp hw.1
        obtain ⟨ch, hch⟩ := Option.isSome_iff_exists.mp hw.2
        simp [grammarOk, ai_isInt, complTail_complArg, hf, hch, optInt]
      · simp [Core.exc] at hp
  | bufcons n frames ch num cm =>
    simp only [Core.stepCore] at hp
    split at hp
    · simp only [List.mem_map] at hp
      obtain ⟨b, _, rfl⟩ := hp
      simp only [Packet.msgs, List.mem_singleton] at hm; subst hm
      simp [grammarOk, ai_isInt, complTail_complArg]
    split at hp
    · simp only [List.mem_map] at hp
      obtain ⟨b, _, rfl⟩ := hp
      simp only [Packet.msgs, List.mem_singleton] at hm; subst hm
      simp [grammarOk, ai_isInt, complTail_complArg]
    · simp [Core.exc] at hp
    · simp [Core.exc] at hp
  | bfree h cm =>
    simp only [Core.stepCore] at hp
    split at hp
    · simp [Core.skip] at hp
    · split at hp
      · simp at hp
      · split at hp
        · simp [Core.exc] at hp
        · simp only [List.mem_singleton] at hp; subst hp
          simp only [Packet.msgs, List.mem_singleton] at hm; subst hm
          simp [grammarOk, ai_isInt, complTail_complArg]
  | bfreeall =>
    simp only [Core.stepCore, List.mem_singleton] at hp; subst hp
    simp only [Packet.msgs, List.mem_map] at hm
    obtain ⟨i, _, rfl⟩ := hm
    simp [grammarOk, complTail, ai_isInt]
  | bzero h cm =>
    obtain ⟨i, a, ha, rfl⟩ := bufCmd_msg hp hm
    simp [grammarOk, ai_isInt, complTail_complArg]
  | bclose h cm =>
    obtain ⟨i, a, ha, rfl⟩ := bufCmd_msg hp hm
    simp [grammarOk, ai_isInt, complTail_complArg]
  | bfill h start frames vals =>
    simp only [Op.wf] at hw
    obtain ⟨i, a, ha, rfl⟩ := bufCmd_msg hp hm
    cases vals with
    | nil => simp at hw
    | cons v r =>
      simp only [Bool.and_eq_true] at hw
      obtain ⟨x, r', h1, h2, rfl⟩ := ctlInputs_cons ha
      have := rep3_of_vrep3 (c := c) (fun v a hv h => atomArg_intLike hv h)
        (fun v a hv h => atomArg_intLike hv h) (fun v a hv h => atomArg_numLike hv h) r r' hw.2 h2
      simp [grammarOk, rep3, ai_isInt, atomArg_numLike hw.1 h1, this]
  | bset h args =>
    simp only [Op.wf] at hw
    obtain ⟨i, a, ha, rfl⟩ := bufCmd_msg hp hm
    have := rep2_of_vrep2 (c := c) (fun v a hv h => atomArg_intLike hv h)
      (fun v a hv h => atomArg_numLike hv h) args a hw ha
    simp [grammarOk, ai_isInt, this]
  | bsetn h args =>
    simp only [Op.wf] at hw
    obtain ⟨i, a, ha, rfl⟩ := bufCmd_msg hp hm
    have := setnArgs_ok c (Val.isIntLike c) Arg.isInt (fun v a hv h => atomArg_intLike hv h) args a hw ha
    simp [grammarOk, ai_isInt, this]
  | bquery h =>
    obtain ⟨i, a, ha, rfl⟩ := bufCmd_msg hp hm
    simp [grammarOk, rep1, ai_isInt]
  | bget h idx =>
    simp only [Op.wf] at hw
    obtain ⟨i, a, ha, rfl⟩ := bufCmd_msg hp hm
    simp [grammarOk, rep1, ai_isInt, atomArg_intLike hw ha]
  | bgetn h idx count =>
    simp only [Op.wf, Bool.and_eq_true] at hw
    obtain ⟨i, a, ha, rfl⟩ := bufCmd_msg hp hm
    simp only [bind, Option.bind] at ha
    cases hx : atomArg c idx with
    | none => simp [hx] at ha
    | some x =>
      cases hy : atomArg c count with
      | none => simp [hx, hy] at ha
      | some y =>
        simp only [hx, hy, pure, Option.some.injEq] at ha; subst ha
        simp [grammarOk, rep2, ai_isInt, atomArg_intLike hw.1 hx, atomArg_intLike hw.2 hy]
  | bgen h cmd args n w cl =>
    simp only [Op.wf, Bool.and_eq_true, Bool.or_eq_true, beq_iff_eq] at hw
    obtain ⟨i, a, ha, rfl⟩ := bufCmd_msg hp hm
    have := rep1_of_all a (ctlInputs_nums args a hw.2 ha).2
    rcases hw.1 with rfl | rfl <;> simp [grammarOk, bGenOk, ai_isInt, this]
  | bnorm h max wt =>
    simp only [Op.wf] at hw
    obtain ⟨i, a, ha, rfl⟩ := bufCmd_msg hp hm
    cases wt <;> simp [grammarOk, bGenOk, ai_isInt, atomArg_numLike hw ha]
  | bcopy h d dstStart start num =>
    simp only [Op.wf, Bool.and_eq_true] at hw
    obtain ⟨i, a, ha, rfl⟩ := bufCmd_msg hp hm
    simp only [bind, Option.bind] at ha
    cases hd : c.bufs[d]? with
    | none => simp [hd] at ha
    | some db =>
      cases hdi : db.bufnum with
      | none => simp [hd, hdi] at ha
      | some di =>
        cases hx : atomArg c dstStart with
        | none => simp [hd, hdi, hx] at ha
        | some x =>
          cases hy : atomArg c start with
          | none => simp [hd, hdi, hx, hy] at ha
          | some y =>
            cases hz : atomArg c num with
            | none => simp [hd, hdi, hx, hy, hz] at ha
            | some z =>
              simp only [hd, hdi, hx, hy, hz, pure, Option.some.injEq] at ha; subst ha
              simp [grammarOk, bGenOk, ai_isInt, atomArg_intLike hw.1.1 hx, atomArg_intLike hw.1.2 hy,
                atomArg_intLike hw.2 hz]
  | bsine k h lists n w cl =>
    simp only [Op.wf, Bool.and_eq_true, decide_eq_true_eq] at hw
    obtain ⟨⟨hlen, hk3⟩, hnum⟩ := hw
    obtain ⟨i, ls, ha, rfl⟩ := bufCmd_msg hp hm
    simp only [bind, Option.bind] at ha
    cases hm' : lists.mapM (ctlInputs c) with
    | none => simp [hm'] at ha
    | some ls' =>
      simp only [hm'] at ha
      split at ha
      · rename_i heq
        simp only [pure, Option.some.injEq] at ha; subst ha
        obtain ⟨hl, hn⟩ := mapM_ctlInputs_nums lists ls' hnum hm'
        have hall : ∀ a ∈ lace ls', a.isNum = true := fun a ha => by
          obtain ⟨l, hl', hal⟩ := mem_lace ha
          exact hn l hl' a hal
        have heq' : ∀ l ∈ ls', l.length = (ls'.head?.map List.length).getD 0 := fun l hl' => by
          have := List.all_eq_true.mp heq l hl'
          simpa using this
        have hlace := length_lace heq'
        rw [hl, hlen] at hlace
        match k, hk3 with
        | 0, _ => simp [grammarOk, bGenOk, ai_isInt, rep1_of_all _ hall]
        | 1, _ => simp [grammarOk, bGenOk, ai_isInt, rep1_of_all _ hall]
        | 2, _ =>
          have := rep2_of_all_even _ hall (by rw [hlace]; simp)
          simp [grammarOk, bGenOk, ai_isInt, this]
        | 3, _ =>
          have := rep3_of_all_mod3 _ hall (by rw [hlace]; simp)
          simp [grammarOk, bGenOk, ai_isInt, this]
      · simp at ha
  | subbus h off ch =>
    simp only [Core.stepCore] at hp
    split at hp
    · simp [Core.skip] at hp
    · split at hp
      · split at hp
        · simp [Core.exc] at hp
        · simp at hp
      · simp [Core.exc] at hp
  | bread h fs fr bs lo =>
    simp only [Core.stepCore] at hp
    split at hp
    · have := send_msg hp hm; subst this
      cases lo <;> simp [grammarOk, ai_isInt, Arg.isStr, Arg.isFlag, complTail, as]
    · simp [Core.skip] at hp
  | bloadlist h start =>
    simp only [Core.stepCore] at hp
    split at hp
    · have := send_msg hp hm; subst this
      simp [grammarOk, ai_isInt, Arg.isStr, Arg.isFlag, complTail, as]
    · simp [Core.skip] at hp
  | bwrite h hdr frames start lo cm =>
    obtain ⟨i, a, ha, rfl⟩ := bufCmd_msg hp hm
    cases lo <;> simp [grammarOk, ai_isInt, Arg.isStr, Arg.isFlag, complTail_complArg, as]
  | ballocread h start frames cm =>
    simp only [Core.stepCore] at hp
    split at hp
    · have := send_msg hp hm; subst this
      simp [grammarOk, ai_isInt, Arg.isStr, complTail_complArg, as]
    · simp [Core.skip] at hp
  | bcue h start cm =>
    simp only [Core.stepCore] at hp
    split at hp
    · have := send_msg hp hm; subst this
      simp [grammarOk, ai_isInt, Arg.isStr, Arg.isFlag, complTail_complArg, as]
    · simp [Core.skip] at hp
  | register h =>
    simp only [Core.stepCore] at hp
    split at hp
    · simp at hp
    · simp [Core.skip] at hp
  | sync => simp [Core.stepCore] at hp
  | bind => simp [Core.stepCore] at hp
  | endBind => simp [Core.stepCore] at hp
  | raise => simp [Core.stepCore] at hp

/-! ## `with server.bind():` -/

/-- `with s.bind(): body` as a history -/
abbrev blockOps (body : List Op) : List Op := Op.bind :: (body ++ [Op.endBind])

/-- what a finished top-level block puts on the wire: one bundle, at the latency of the server,
    with the messages the calls issue, in issue order (nothing if no message was issued) -/
def blockSent (c : Core) (body : List Op) : List Packet :=
  bundleOf (c.runPlain body).1.latency (issued (c.runPlain body).2)

/-- Commands issued inside a bind block reach the wire as ONE bundle (time = server latency), in
    issue order, when the block exits — and nothing reaches the wire before.  `body` is any
    sequence of client calls none of which raises; what each call "issues" is what it sends when
    run without the block (`runPlain`, the unbound twin). -/
theorem bind_one_bundle_in_order (cl : Client) (hs : cl.stack = []) (hk : cl.skipDepth = 0)
    (body : List Op) (hp : ∀ op ∈ body, op.plain = true)
    (hr : ∀ r ∈ (cl.core.runPlain body).2, r.1.raises = false) :
    (cl.run (blockOps body)).1.wire = cl.wire ++ blockSent cl.core body ∧
    (cl.run (blockOps body)).1.core = (cl.core.runPlain body).1 ∧
    (cl.run (blockOps body)).1.stack = [] ∧ (cl.run (blockOps body)).1.skipDepth = 0 ∧
    (cl.run (blockOps body)).2 = (Status.ok, []) :: (cl.core.runPlain body).2.map (fun x => (x.1, []))
        ++ [(Status.ok, blockSent cl.core body)] := by
  unfold blockOps blockSent
  have hb : cl.step .bind = ({ cl with stack := [[]] }, .ok, []) := by
    unfold Client.step; rw [if_neg (by omega)]; simp [hs]
  simp only [Client.run, hb]
  have ha := run_append { cl with stack := [[]] } body [Op.endBind]
  have hi := run_plain_in_block { cl with stack := [[]] } [] [] rfl hk body hp hr
  simp only [List.nil_append] at hi
  obtain ⟨h1, h2, h3, h4, h5⟩ := hi
  have he : ((Client.run { cl with stack := [[]] } body).1).step .endBind =
      ({ (Client.run { cl with stack := [[]] } body).1 with
           stack := [],
           wire := cl.wire ++ bundleOf (cl.core.runPlain body).1.latency (issued (cl.core.runPlain body).2) },
       .ok, bundleOf (cl.core.runPlain body).1.latency (issued (cl.core.runPlain body).2)) := by
    unfold Client.step
    rw [if_neg (by omega), h2]
    simp only [h1, h4, bundleOf]
  rw [ha.1, ha.2]
  simp only [Client.run, he, h5]
  refine ⟨trivial, h1, trivial, h3, by simp⟩

/-- The same calls without the block send the same messages one by one: the bundle of
    `bind_one_bundle_in_order` contains exactly the messages of these packets, in order. -/
theorem unbound_sends_each (cl : Client) (hs : cl.stack = []) (hk : cl.skipDepth = 0)
    (body : List Op) (hp : ∀ op ∈ body, op.plain = true) :
    (cl.run body).1.wire = cl.wire ++ (cl.core.runPlain body).2.flatMap (·.2) ∧
    collect ((cl.core.runPlain body).2.flatMap (·.2)) = issued (cl.core.runPlain body).2 ∧
    (cl.run body).1.core = (cl.core.runPlain body).1 := by
  have := run_plain_top cl hs hk body hp
  refine ⟨this.2.2.2.1, ?_, this.1⟩
  generalize (cl.core.runPlain body).2 = rs
  induction rs with
  | nil => rfl
  | cons r rs ih => simp only [List.flatMap_cons, collect, issued] at ih ⊢; rw [List.flatMap_append, ih]

/-- A block nested in another block sends nothing by itself: on exit its messages join the
    enclosing block's collector, after what was issued there before. -/
theorem bind_nested_appends (cl : Client) (top : List Msg) (rest : List (List Msg))
    (hs : cl.stack = top :: rest) (hk : cl.skipDepth = 0)
    (body : List Op) (hp : ∀ op ∈ body, op.plain = true)
    (hr : ∀ r ∈ (cl.core.runPlain body).2, r.1.raises = false) :
    (cl.run (blockOps body)).1.wire = cl.wire ∧
    (cl.run (blockOps body)).1.stack = (top ++ issued (cl.core.runPlain body).2) :: rest ∧
    (cl.run (blockOps body)).1.core = (cl.core.runPlain body).1 ∧
    (cl.run (blockOps body)).1.skipDepth = 0 ∧ ∀ x ∈ (cl.run (blockOps body)).2, x.2 = [] := by
  unfold blockOps
  have hb : cl.step .bind = ({ cl with stack := [] :: top :: rest }, .ok, []) := by
    unfold Client.step; rw [if_neg (by omega)]; simp [hs]
  simp only [Client.run, hb]
  have ha := run_append { cl with stack := [] :: top :: rest } body [Op.endBind]
  have hi := run_plain_in_block { cl with stack := [] :: top :: rest } [] (top :: rest) rfl hk body hp hr
  simp only [List.nil_append] at hi
  obtain ⟨h1, h2, h3, h4, h5⟩ := hi
  have he : ((Client.run { cl with stack := [] :: top :: rest } body).1).step .endBind =
      ({ (Client.run { cl with stack := [] :: top :: rest } body).1 with
           stack := (top ++ issued (cl.core.runPlain body).2) :: rest }, .ok, []) := by
    unfold Client.step
    rw [if_neg (by omega), h2]
  rw [ha.1, ha.2]
  simp only [Client.run, he, h5]
  refine ⟨h4, trivial, h1, h3, ?_⟩
  intro x hx
  simp only [List.mem_cons, List.mem_append, List.mem_map, List.not_mem_nil, or_false] at hx
  rcases hx with rfl | ⟨y, _, rfl⟩ | rfl <;> rfl

/-- If a call of the block raises (or the block body raises by itself: `Op.raise`), NOTHING of
    the block is sent: neither what was issued before the exception nor anything after it; the
    calls after the exception are not executed; the state changes of the calls before it stay. -/
theorem bind_raises_sends_nothing (cl : Client) (hs : cl.stack = []) (hk : cl.skipDepth = 0)
    (pre post : List Op) (opR : Op)
    (hp : ∀ op ∈ pre, op.plain = true) (hq : ∀ op ∈ post, op.plain = true)
    (hr : ∀ r ∈ (cl.core.runPlain pre).2, r.1.raises = false)
    (hR : opR.plain = true ∨ opR = .raise)
    (hraise : ((cl.core.runPlain pre).1.stepCore opR).2.1.raises = true) :
    (cl.run (blockOps (pre ++ opR :: post))).1.wire = cl.wire ∧
    (cl.run (blockOps (pre ++ opR :: post))).1.stack = [] ∧
    (cl.run (blockOps (pre ++ opR :: post))).1.skipDepth = 0 ∧
    (cl.run (blockOps (pre ++ opR :: post))).1.core = ((cl.core.runPlain pre).1.stepCore opR).1 ∧
    ∀ x ∈ (cl.run (blockOps (pre ++ opR :: post))).2, x.2 = [] := by
  unfold blockOps
  have hb : cl.step .bind = ({ cl with stack := [[]] }, .ok, []) := by
    unfold Client.step; rw [if_neg (by omega)]; simp [hs]
  simp only [Client.run, hb]
  have e : (pre ++ opR :: post) ++ [Op.endBind] = pre ++ ([opR] ++ (post ++ [Op.endBind])) := by simp
  rw [e]
  have ha := run_append { cl with stack := [[]] } pre ([opR] ++ (post ++ [Op.endBind]))
  have hi := run_plain_in_block { cl with stack := [[]] } [] [] rfl hk pre hp hr
  simp only [List.nil_append] at hi
  obtain ⟨h1, h2, h3, h4, h5⟩ := hi
  generalize hc1 : (Client.run { cl with stack := [[]] } pre).1 = c1 at *
  -- the raising call
  have hR' : c1.step opR =
      ({ c1 with core := (c1.core.stepCore opR).1, stack := [], skipDepth := 1 },
       (c1.core.stepCore opR).2.1, []) := by
    unfold Client.step
    rw [if_neg (by omega)]
    rw [h1] at *
    rcases hR with hpl | rfl
    · cases opR <;> simp [Op.plain] at hpl <;> simp [h2, hraise, Client.unwind]
    · simp [h2, Core.stepCore, Status.raises, Client.unwind]
  generalize hc2 : ({ c1 with core := (c1.core.stepCore opR).1, stack := [], skipDepth := 1 } : Client) = c2 at *
  have hb2 := run_append c2 post [Op.endBind]
  have hsk := run_plain_skipping c2 (by rw [← hc2]; exact Nat.one_pos) post hq
  have he : c2.step .endBind = ({ c2 with skipDepth := 0 }, .raised, []) := by
    unfold Client.step
    rw [if_pos (by rw [← hc2]; exact Nat.one_pos)]
    simp [← hc2]
  have hrun : (c1.run ([opR] ++ (post ++ [Op.endBind]))).1 = { c2 with skipDepth := 0 } ∧
      ∀ x ∈ (c1.run ([opR] ++ (post ++ [Op.endBind]))).2, x.2 = [] := by
    simp only [List.singleton_append, Client.run, hR']
    rw [hb2.1, hb2.2, hsk.1, hsk.2]
    simp only [Client.run, he]
    refine ⟨trivial, ?_⟩
    intro x hx
    simp only [List.mem_cons, List.mem_append, List.mem_map, List.not_mem_nil, or_false] at hx
    rcases hx with rfl | ⟨y, _, rfl⟩ | rfl <;> rfl
  rw [ha.1, ha.2, hrun.1]
  refine ⟨?_, ?_, rfl, ?_, ?_⟩
  · rw [← hc2]; exact h4
  · rw [← hc2]
  · rw [← hc2, h1]
  · intro x hx
    simp only [List.mem_cons, List.mem_append] at hx
    rcases hx with rfl | hx | hx
    · rfl
    · rw [h5] at hx
      simp only [List.mem_map] at hx
      obtain ⟨y, _, rfl⟩ := hx; rfl
    · exact hrun.2 x hx

/-- every message the client has issued so far and not discarded: what is on the wire, then what
    waits in the open blocks, outermost first -/
def allMsgs (cl : Client) : List Msg := collect cl.wire ++ cl.stack.reverse.flatten

/-- `yield from s.sync()` inside (any nesting of) bind blocks: everything issued so far is put on
    the wire — one bundle, issue order, outermost block's commands first — before the sync; the
    blocks stay open and go on collecting from empty. -/
theorem sync_flushes_everything (cl : Client) (hk : cl.skipDepth = 0) :
    collect (cl.step .sync).1.wire = allMsgs cl ∧ (∀ l ∈ (cl.step .sync).1.stack, l = []) ∧
    (cl.step .sync).1.stack.length = cl.stack.length ∧ (cl.step .sync).1.core = cl.core ∧
    (cl.step .sync).2.2 = (if cl.stack.reverse.flatten.isEmpty then []
        else [Packet.bundle cl.core.latency cl.stack.reverse.flatten]) ++ [Packet.sync] := by
  unfold Client.step
  rw [if_neg (by omega)]
  refine ⟨?_, by simp, by simp, rfl, rfl⟩
  simp only [allMsgs]
  by_cases he : cl.stack.reverse.flatten.isEmpty
  · simp [he, collect, Packet.msgs, List.isEmpty_iff.mp he]
  · simp [he, collect, Packet.msgs]

/-- For EVERY history of client calls, `sync`s and (arbitrarily nested, even unbalanced) `bind`/`end`
    tokens in which nothing raises: binding only regroups.  No message is lost, duplicated or
    reordered, and the client state is the one of the unbound run. -/
theorem bind_preserves_issue_order (cl : Client) (hk : cl.skipDepth = 0) (ops : List Op)
    (hno : Op.raise ∉ ops)
    (hr : ∀ r ∈ (cl.core.runPlain (ops.filter Op.plain)).2, r.1.raises = false) :
    allMsgs (cl.run ops).1 = allMsgs cl ++ issued (cl.core.runPlain (ops.filter Op.plain)).2 ∧
    (cl.run ops).1.core = (cl.core.runPlain (ops.filter Op.plain)).1 ∧
    (cl.run ops).1.skipDepth = 0 := by
  induction ops generalizing cl with
  | nil => simp [Client.run, Core.runPlain, issued, hk]
  | cons op ops ih =>
    have hno' : Op.raise ∉ ops := fun h => hno (by simp [h])
    have hne : op ≠ .raise := fun h => hno (by simp [h])
    simp only [Client.run]
    by_cases hpl : op.plain = true
    · -- an ordinary call
      have hf : (op :: ops).filter Op.plain = op :: ops.filter Op.plain := by simp [hpl]
      rw [hf] at hr ⊢
      simp only [Core.runPlain, List.mem_cons, forall_eq_or_imp] at hr
      obtain ⟨hr1, hr2⟩ := hr
      have hstep : (cl.step op).1.core = (cl.core.stepCore op).1 ∧ (cl.step op).1.skipDepth = 0 ∧
          allMsgs (cl.step op).1 = allMsgs cl ++ collect (cl.core.stepCore op).2.2 := by
        unfold Client.step
        rw [if_neg (by omega)]
        cases hst : cl.stack with
        | nil => cases op <;> simp [Op.plain] at hpl <;> simp [hst, allMsgs, collect, hk]
        | cons top rest =>
          cases op <;> simp [Op.plain] at hpl <;>
            simp [hst, allMsgs, collect, hk, hr1, List.append_assoc]
      obtain ⟨h1, h2, h3⟩ := hstep
      have := ih (cl.step op).1 h2 hno' (by rw [h1]; exact hr2)
      rw [h1] at this
      refine ⟨?_, this.2.1, this.2.2⟩
      rw [this.1, h3]
      simp [issued, Core.runPlain, List.append_assoc]
    · -- bind / end
      have hf : (op :: ops).filter Op.plain = ops.filter Op.plain := by simp [hpl]
      rw [hf] at hr ⊢
      have hstep : (cl.step op).1.core = cl.core ∧ (cl.step op).1.skipDepth = 0 ∧
          allMsgs (cl.step op).1 = allMsgs cl := by
        unfold Client.step
        rw [if_neg (by omega)]
        cases op <;> simp [Op.plain] at hpl
        case sync =>
          have hz : (List.map (fun _ => ([] : List Msg)) cl.stack).reverse.flatten = [] := by
            generalize cl.stack = st
            induction st with
            | nil => rfl
            | cons a r ih => simp [ih]
          simp only [allMsgs, hk, hz, List.append_nil, true_and]
          by_cases he : cl.stack.reverse.flatten.isEmpty
          · simp [he, collect, Packet.msgs, List.isEmpty_iff.mp he]
          · simp [he, collect, Packet.msgs]
        case bind => simp [allMsgs, hk]
        case endBind =>
          cases hst : cl.stack with
          | nil => simp [allMsgs, hst, hk]
          | cons top rest =>
            cases rest with
            | nil =>
              by_cases he : top.isEmpty
              · simp [allMsgs, hst, hk, he, collect, List.isEmpty_iff.mp he]
              · simp [allMsgs, hst, hk, he, collect, Packet.msgs]
            | cons outer rest' => simp [allMsgs, hst, hk, List.append_assoc]
        case raise => exact absurd rfl hne
      obtain ⟨h1, h2, h3⟩ := hstep
      have := ih (cl.step op).1 h2 hno' (by rw [h1]; exact hr)
      rw [h1, h3] at this
      exact this

/-! ## ids: creation uses the object's own id, freeing returns it exactly once -/

/-- `Synth(...)`: the id returned by `_next_node_id()` is the object's id and the id of its
    `/s_new` (the only message; `new_paused` adds `/n_run id 0` in the same bundle). -/
theorem synth_create_uses_own_id (c : Core) (paused : Bool) (name : String) (tgt : Target) (act : Int)
    (args : Val) (tid : Int) (g : Bool) (a : List Arg)
    (ht : c.target tgt = some (tid, g)) (ha : synthArgs c args = some a) :
    let id := c.nextNodeId.2
    let m : Msg := ⟨"/s_new", as name :: ai id :: ai act :: ai tid :: a⟩
    c.stepCore (.synth paused name tgt act args) =
      ({ c.nextNodeId.1 with nodes := c.nodes ++ [⟨id, false⟩] }, .okNode id,
       if paused then [.bundle none [m, ⟨"/n_run", [ai id, ai 0]⟩]] else [.msg m]) := by
  simp only [Core.stepCore, ht, ha]
  cases paused <;> simp [Core.nextNodeId]

/-- `Group(...)` / `ParGroup(...)` -/
theorem group_create_uses_own_id (c : Core) (par : Bool) (tgt : Target) (act : Int) (tid : Int) (g : Bool)
    (ht : c.target tgt = some (tid, g)) :
    let id := c.nextNodeId.2
    c.stepCore (.group par tgt act) =
      ({ c.nextNodeId.1 with nodes := c.nodes ++ [⟨id, true⟩] }, .okNode id,
       [.msg ⟨if par then "/p_new" else "/g_new", [ai id, ai act, ai tid]⟩]) := by
  simp only [Core.stepCore, ht]
  simp [Core.nextNodeId]

/-- node ids handed to new objects are the ids of the C16 node id allocator: in the client's
    range and never repeated within the id window (`C16.node_ids_distinct_in_window`) -/
theorem next_node_id_is_allocator_id (c : Core) :
    c.nextNodeId.1.nia = c.nia.alloc.1 ∧
    (∀ x, c.nia.alloc.2 = some x → c.nextNodeId.2 = (x : Int)) := by
  refine ⟨rfl, fun x hx => ?_⟩
  simp only [Core.nextNodeId, hx]

/-- `Buffer(frames, channels)`: the number taken from the buffer allocator is the object's
    `bufnum` and the first argument of its `/b_alloc`. -/
theorem buffer_create_uses_own_id (c : Core) (frames ch : Int) (cm : Completion) (a' : CBA) (x : Nat)
    (hal : allocIn c.balloc 1 = some (a', some x)) :
    c.stepCore (.buf frames ch none true cm) =
      ({ c with balloc := a', bufs := c.bufs ++ [⟨some x, some frames, some ch⟩] }, .okBufs [x],
       [.msg ⟨"/b_alloc", [ai x, ai frames, ai ch, complArg cm x]⟩]) := by
  simp [Core.stepCore, hal]

/-- `Buffer.new_consecutive(n, ...)`: one `/b_alloc` per number of the allocated block, in
    ascending order, each with its own number; the objects own exactly these numbers. -/
theorem consecutive_create_uses_own_ids (c : Core) (n frames ch : Int) (cm : Completion) (a' : CBA) (x : Nat)
    (hal : allocIn c.balloc n = some (a', some x)) :
    let ids := (List.range n.toNat).map fun i => ((x + i : Nat) : Int)
    c.stepCore (.bufcons n frames ch none cm) =
      ({ c with balloc := a', bufs := c.bufs ++ ids.map fun b => ⟨some b, some frames, some ch⟩ },
       .okBufs ids, ids.map fun b => .msg ⟨"/b_alloc", [ai b, ai frames, ai ch, complArg cm b]⟩) := by
  simp [Core.stepCore, hal]

/-- `Buffer.new_consecutive(n, ..., bufnum=b0)`: user-managed numbers — the allocator is not
    touched (no number of it is consumed, so `free_all` will not mention them), the objects own
    `b0 … b0+n-1` and one `/b_alloc` per number is sent. -/
theorem consecutive_explicit_uses_given_ids (c : Core) (n frames ch b0 : Int) (cm : Completion) :
    let ids := (List.range n.toNat).map fun (i : Nat) => b0 + (i : Int)
    c.stepCore (.bufcons n frames ch (some b0) cm) =
      ({ c with bufs := c.bufs ++ ids.map fun b => ⟨some b, some frames, some ch⟩ },
       .okBufs ids, ids.map fun b => .msg ⟨"/b_alloc", [ai b, ai frames, ai ch, complArg cm b]⟩) ∧
    (c.stepCore (.bufcons n frames ch (some b0) cm)).1.balloc = c.balloc := by
  simp [Core.stepCore]

/-- `Buffer.free()` of a live buffer: exactly ONE message, `/b_free` with the buffer's own number;
    the object forgets the number and the allocator no longer holds a block starting there
    (all other blocks untouched, invariant kept: the number can be handed out again). -/
theorem buffer_free_once_and_returns_id (c : Core) (h : Nat) (cm : Completion) (b : BufObj) (i : Nat)
    (bs : List Block) (hb : c.bufs[h]? = some b) (hi : b.bufnum = some (i : Int))
    (hinv : Inv c.balloc bs) :
    ∃ a' bs', c.stepCore (.bfree h cm) =
        ({ c with balloc := a', bufs := c.bufs.set h ⟨none, none, none⟩ }, .ok,
         [.msg ⟨"/b_free", [ai i, complArg cm i]⟩]) ∧
      Inv a' bs' ∧ (∀ u, u.used = true → (u ∈ bs' ↔ u ∈ bs ∧ u.start ≠ i)) ∧
      (∀ u ∈ a'.blocks, u.start ≠ i) := by
  obtain ⟨a', bs', e, hi', _, hu⟩ := free_inv hinv (x := i)
  refine ⟨a', bs', ?_, hi', hu, ?_⟩
  · simp only [Core.stepCore, hb, hi]
    have : ¬ ((i : Int) < 0) := by omega
    simp [this, e]
  · intro u hu'
    rw [blocks_eq hi'.toWInv] at hu'
    have := List.mem_filter.mp hu'
    exact ((hu u (by simpa using this.2)).mp this.1).2

/-- a second `Buffer.free()` (D11): nothing is sent, nothing changes -/
theorem buffer_double_free_silent (c : Core) (h : Nat) (cm : Completion) (b : BufObj)
    (hb : c.bufs[h]? = some b) (hi : b.bufnum = none) :
    c.stepCore (.bfree h cm) = (c, .ok, []) := by
  simp [Core.stepCore, hb, hi]

theorem blockIds_sorted : ∀ (l : List Block), l.Pairwise (fun b d => b.start + b.size ≤ d.start) →
    (blockIds l).Pairwise (· < ·) ∧ ∀ x ∈ blockIds l, ∃ b ∈ l, (b.start : Int) ≤ x ∧ x < (b.start + b.size : Nat)
  | [], _ => by simp [blockIds]
  | b :: l, hp => by
    have hp' := List.pairwise_cons.mp hp
    obtain ⟨ih1, ih2⟩ := blockIds_sorted l hp'.2
    simp only [blockIds, List.flatMap_cons] at ih1 ih2 ⊢
    constructor
    · rw [List.pairwise_append]
      refine ⟨?_, ih1, ?_⟩
      · rw [List.pairwise_map]
        exact (List.pairwise_lt_range).imp (fun h => by omega)
      · intro x hx y hy
        simp only [List.mem_map, List.mem_range] at hx
        obtain ⟨k, hk, rfl⟩ := hx
        obtain ⟨d, hd, hd1, _⟩ := ih2 y hy
        have := hp'.1 d hd
        omega
    · intro x hx
      rcases List.mem_append.mp hx with hx | hx
      · simp only [List.mem_map, List.mem_range] at hx
        obtain ⟨k, hk, rfl⟩ := hx
        exact ⟨b, by simp, by omega, by omega⟩
      · obtain ⟨d, hd, h1, h2⟩ := ih2 x hx
        exact ⟨d, by simp [hd], h1, h2⟩

/-- `Buffer.free_all()` (D10): ONE bundle with exactly one `/b_free` for every buffer number the
    allocator holds (every number of every used block, none twice, nothing else), and afterwards
    the allocator holds no block. -/
theorem free_all_frees_every_id_once (c : Core) (bs : List Block) (hinv : Inv c.balloc bs) :
    let ids := blockIds c.balloc.blocks
    c.stepCore .bfreeall =
      ({ c with balloc := freeBlocks c.balloc c.balloc.blocks }, .ok,
       [.bundle none (ids.map fun i => ⟨"/b_free", [ai i]⟩)]) ∧
    ids.Nodup ∧
    (∀ x : Int, x ∈ ids ↔ ∃ u ∈ bs, u.used = true ∧ (u.start : Int) ≤ x ∧ x < (u.start + u.size : Nat)) ∧
    (freeBlocks c.balloc c.balloc.blocks).blocks = [] ∧
    ∃ bs', Inv (freeBlocks c.balloc c.balloc.blocks) bs' := by
  have hall := freeBlocks_all hinv
  have hb := blocks_eq hinv.toWInv
  have hp : c.balloc.blocks.Pairwise (fun b d => b.start + b.size ≤ d.start) := by
    rw [hb]; exact (tiles_pairwise bs _ _ hinv.tiles).filter _
  obtain ⟨hs1, hs2⟩ := blockIds_sorted _ hp
  refine ⟨rfl, ?_, ?_, hall.1, hall.2.1⟩
  · exact hs1.imp (fun h => by omega)
  · intro x
    constructor
    · intro hx
      obtain ⟨u, hu, h1, h2⟩ := hs2 x hx
      rw [hb] at hu
      have := List.mem_filter.mp hu
      exact ⟨u, this.1, by simpa using this.2, h1, h2⟩
    · rintro ⟨u, hu, huu, h1, h2⟩
      simp only [blockIds, List.mem_flatMap, List.mem_map, List.mem_range]
      refine ⟨u, by rw [hb]; exact List.mem_filter.mpr ⟨hu, by simpa using huu⟩, (x - u.start).toNat, by omega, by omega⟩


/-- `bus.sub_bus(off, ch)` / `Bus.new_from`: accepted exactly when the requested channels lie inside
    the parent (`off + ch ≤ channels`, `off ≤ channels`); the new bus then starts at `index + off`
    and (for `0 ≤ off`) covers only indices of the parent; otherwise it is refused (BusException) and
    nothing changes.  No command is sent either way. -/
theorem sub_bus_inside_parent (c : Core) (h : Nat) (off ch : Int) (b : BusObj) (i pc : Int)
    (hb : c.buses[h]? = some b) (hi : b.index = some i) (hc : b.channels = some pc) :
    (off ≤ pc ∧ ch + off ≤ pc →
      c.stepCore (.subbus h off ch) =
        ({ c with buses := c.buses ++ [⟨b.audio, some (i + off), some ch⟩] }, .okBus (i + off), []) ∧
      (0 ≤ off → i ≤ i + off ∧ (i + off) + ch ≤ i + pc)) ∧
    (¬(off ≤ pc ∧ ch + off ≤ pc) → c.stepCore (.subbus h off ch) = c.exc "BusException") := by
  constructor
  · intro hin
    refine ⟨?_, fun h0 => ⟨by omega, by omega⟩⟩
    simp only [Core.stepCore, hb, hi, hc]
    rw [if_neg]
    simp only [Bool.or_eq_true, decide_eq_true_eq]
    omega
  · intro hout
    simp only [Core.stepCore, hb, hi, hc]
    rw [if_pos]
    simp only [Bool.or_eq_true, decide_eq_true_eq]
    omega

/-- every node command is addressed to the id of the object it was called on -/
theorem node_cmds_use_object_id {c : Core} {h : Nat} {cmd : String} {args : Option (List Arg)}
    {p : Packet} {m : Msg} (hp : p ∈ (c.nodeCmd h cmd args).2.2) (hm : m ∈ p.msgs) :
    ∃ n a, c.nodes[h]? = some n ∧ args = some a ∧ m = ⟨cmd, ai n.id :: a⟩ := by
  unfold Core.nodeCmd at hp
  split at hp
  · exact ⟨_, _, by assumption, rfl, send_msg hp hm⟩
  · simp [Core.skip] at hp

/-- every buffer command carries the number of the Buffer object it was called on, and is only
    sent while the object still owns a number -/
theorem buffer_cmds_use_object_bufnum {α} {c : Core} {h : Nat} {args : Option α}
    {f : Int → α → String × List Arg} {p : Packet} {m : Msg}
    (hp : p ∈ (c.bufCmd h args f).2.2) (hm : m ∈ p.msgs) :
    ∃ b i a, c.bufs[h]? = some b ∧ b.bufnum = some i ∧ args = some a ∧ m = ⟨(f i a).1, (f i a).2⟩ := by
  unfold Core.bufCmd at hp
  split at hp
  · split at hp
    · exact ⟨_, _, _, by assumption, by assumption, rfl, send_msg hp hm⟩
    · simp [Core.exc] at hp
  · simp [Core.skip] at hp

/-- every control-bus command is computed from the index of the ControlBus object it was called
    on, and is only sent while the object still owns an index -/
theorem bus_cmds_use_object_index {α} {c : Core} {h : Nat} {args : Option α}
    {f : Int → Int → α → String × List Arg} {p : Packet} {m : Msg}
    (hp : p ∈ (c.cbusCmd h args f).2.2) (hm : m ∈ p.msgs) :
    ∃ b i ch a, c.buses[h]? = some b ∧ b.audio = false ∧ b.index = some i ∧ b.channels = some ch ∧
      args = some a ∧ m = ⟨(f i ch a).1, (f i ch a).2⟩ := by
  unfold Core.cbusCmd at hp
  split at hp
  · split at hp
    · simp [Core.exc] at hp
    · rename_i hna
      split at hp
      · exact ⟨_, _, _, _, by assumption, by simpa using hna, by assumption, by assumption, rfl,
          send_msg hp hm⟩
      · simp [Core.exc] at hp
  · simp [Core.skip] at hp

/-! ## the allocators stay valid along every history -/

/-- the three allocators of the client satisfy the C16 representation invariant -/
structure CoreWf (c : Core) : Prop where
  balloc : ∃ bs, Inv c.balloc bs
  cbus : ∃ bs, Inv c.cbus bs
  abus : ∃ bs, Inv c.abus bs

theorem allocIn_inv {a a' : CBA} {n : Int} {r : Option Nat} (h : ∃ bs, Inv a bs) (hn : 1 ≤ n)
    (e : allocIn a n = some (a', r)) : ∃ bs, Inv a' bs := by
  obtain ⟨bs, hi⟩ := h
  unfold allocIn at e
  rw [if_neg (by omega)] at e
  rcases alloc_inv hi (n := n.toNat) (by omega) 0 with ⟨a1, pre, b, post, e1, _, _, _, hi1, _⟩ | ⟨e1, _⟩
  · rw [e1] at e
    simp only [Option.some.injEq, Prod.mk.injEq] at e
    obtain ⟨rfl, _⟩ := e
    exact ⟨_, hi1⟩
  · rw [e1] at e
    simp only [Option.some.injEq, Prod.mk.injEq] at e
    obtain ⟨rfl, _⟩ := e
    exact ⟨bs, hi⟩

theorem free_any_inv {a a' : CBA} {x : Nat} (h : ∃ bs, Inv a bs) (e : a.free (some x) = .ok a') :
    ∃ bs, Inv a' bs := by
  obtain ⟨bs, hi⟩ := h
  obtain ⟨a1, bs1, e1, hi1, _⟩ := free_inv hi (x := x)
  rw [e] at e1
  simp only [Except.ok.injEq] at e1; subst e1
  exact ⟨bs1, hi1⟩

theorem send_core (c : Core) (cmd : String) (a : List Arg) : (c.send cmd a).1 = c := rfl
theorem skip_core (c : Core) : c.skip.1 = c := rfl
theorem exc_core (c : Core) (n : String) : (c.exc n).1 = c := rfl

theorem nodeCmd_core (c : Core) (h : Nat) (cmd : String) (a : Option (List Arg)) :
    (c.nodeCmd h cmd a).1 = c := by
  unfold Core.nodeCmd; split <;> rfl

theorem kindCmd_core (c : Core) (h : Nat) (g : Bool) (cmd : String) (a : Option (List Arg)) :
    (c.kindCmd h g cmd a).1 = c := by
  unfold Core.kindCmd; split
  · split <;> rfl
  · rfl

theorem cbusCmd_core {α} (c : Core) (h : Nat) (a : Option α) (f : Int → Int → α → String × List Arg) :
    (c.cbusCmd h a f).1 = c := by
  unfold Core.cbusCmd; split
  · split
    · rfl
    · split <;> rfl
  · rfl

theorem bufCmd_core {α} (c : Core) (h : Nat) (a : Option α) (f : Int → α → String × List Arg) :
    (c.bufCmd h a f).1 = c := by
  unfold Core.bufCmd; split
  · split <;> rfl
  · rfl

/-- allocation requests of at least one bus channel / buffer (C16: `alloc(n)`, `n ≥ 1`) -/
def Op.allocOk : Op → Bool
  | .newBus _ ch _ => decide (1 ≤ ch)
  | .bufcons n _ _ _ _ => decide (1 ≤ n)
  | _ => true

/-- The allocators of the client stay inside the C16 invariant along every history of client
    calls: the hypotheses `Inv …` of the id theorems hold at every point of every history. -/
theorem corewf_step (c : Core) (op : Op) (h : CoreWf c) (ha : op.allocOk = true) :
    CoreWf (c.stepCore op).1 := by
  cases op with
  | newBus audio ch idx =>
    simp only [Op.allocOk, decide_eq_true_eq] at ha
    simp only [Core.stepCore]
    split
    · exact ⟨h.balloc, h.cbus, h.abus⟩
    · split
      · rename_i a' x he
        cases audio
        · exact ⟨h.balloc, allocIn_inv h.cbus ha (by simpa using he), h.abus⟩
        · exact ⟨h.balloc, h.cbus, allocIn_inv h.abus ha (by simpa using he)⟩
      · exact h
      · exact h
  | busfree hh =>
    simp only [Core.stepCore]
    split
    · exact h
    · split
      · exact h
      · split
        · exact ⟨h.balloc, h.cbus, h.abus⟩
        · split
          · exact h
          · rename_i bo _ _ _ _ _ _ a' he
            cases hb : bo.audio
            · simp only [hb, Bool.false_eq_true, if_false] at he ⊢
              exact ⟨h.balloc, free_any_inv h.cbus he, h.abus⟩
            · simp only [hb, if_true] at he ⊢
              exact ⟨h.balloc, h.cbus, free_any_inv h.abus he⟩
  | buf frames ch num alloc cm =>
    simp only [Core.stepCore]
    split
    · exact ⟨h.balloc, h.cbus, h.abus⟩
    · split
      · rename_i a' x he
        exact ⟨allocIn_inv h.balloc (by omega) he, h.cbus, h.abus⟩
      · exact h
      · exact h
  | bufcons n frames ch num cm =>
    simp only [Op.allocOk, decide_eq_true_eq] at ha
    simp only [Core.stepCore]
    split
    · exact ⟨h.balloc, h.cbus, h.abus⟩
    split
    · rename_i a' x he
      exact ⟨allocIn_inv h.balloc ha he, h.cbus, h.abus⟩
    · exact h
    · exact h
  | bfree hh cm =>
    simp only [Core.stepCore]
    split
    · exact h
    · split
      · exact h
      · split
        · exact h
        · rename_i _ _ i _ _ a' he
          refine ⟨?_, h.cbus, h.abus⟩
          by_cases hneg : i < 0
          · simp only [hneg, if_true, Except.ok.injEq] at he; subst he; exact h.balloc
          · simp only [hneg, if_false] at he
            exact free_any_inv h.balloc he
  | bfreeall =>
    simp only [Core.stepCore]
    obtain ⟨bs, hi⟩ := h.balloc
    exact ⟨(freeBlocks_all hi).2.1, h.cbus, h.abus⟩
  | synth paused name tgt act args =>
    simp only [Core.stepCore]
    split
    · split <;> exact ⟨h.balloc, h.cbus, h.abus⟩
    · exact h
  | grain name tgt act args => simp only [Core.stepCore]; split <;> exact h
  | replace t name args same =>
    simp only [Core.stepCore]
    split
    · split <;> exact ⟨h.balloc, h.cbus, h.abus⟩
    · exact h
  | group par tgt act =>
    simp only [Core.stepCore]
    split
    · exact ⟨h.balloc, h.cbus, h.abus⟩
    · exact h
  | nfree hh flag =>
    simp only [Core.stepCore]
    split
    · split <;> exact h
    · exact h
  | release hh time => simp only [Core.stepCore]; split <;> exact h
  | movb hh t => simp only [Core.stepCore]; split <;> exact h
  | mova hh t => simp only [Core.stepCore]; split <;> exact h
  | movh hh tgt =>
    simp only [Core.stepCore]
    split
    · split <;> exact h
    · exact h
  | movt hh tgt =>
    simp only [Core.stepCore]
    split
    · split <;> exact h
    · exact h
  | reorder act tgt nodes => simp only [Core.stepCore]; split <;> exact h
  | freedg all => simp only [Core.stepCore]; split <;> exact h
  | balloc hh cm =>
    simp only [Core.stepCore]
    split
    · exact h
    · split <;> exact h
  | subbus hh off ch =>
    simp only [Core.stepCore]
    split
    · exact h
    · split
      · split
        · exact h
        · exact ⟨h.balloc, h.cbus, h.abus⟩
      · exact h
  | bread hh fs fr bs lo => simp only [Core.stepCore]; split <;> exact h
  | bloadlist hh start => simp only [Core.stepCore]; split <;> exact h
  | ballocread hh start frames cm => simp only [Core.stepCore]; split <;> exact h
  | bcue hh start cm => simp only [Core.stepCore]; split <;> exact h
  | register hh => simp only [Core.stepCore]; split <;> exact h
  | sync => exact h
  | bind => exact h
  | endBind => exact h
  | raise => exact h
  | _ => simp only [Core.stepCore, nodeCmd_core, kindCmd_core, cbusCmd_core, bufCmd_core]; exact h

/-- a fresh `Server`: its three allocators satisfy the invariant (`C16.inv_init`) -/
theorem corewf_init {o : C16.Opts} {lat : Option Rat} {c : Core} (h : Core.init o lat = some c) :
    CoreWf c := by
  have key : ∀ (t : Int × Int × Int) (a : CBA), mkAlloc t = some a → ∃ bs, Inv a bs := by
    intro t a e
    unfold mkAlloc at e
    split at e
    · simp at e
    · exact ⟨_, (inv_init e).1⟩
  unfold Core.init at h
  split at h
  · rename_i cb ab bb hcb hab hbb
    split at h
    · simp at h
    · split at h
      · simp only [Option.some.injEq] at h
        subst h
        exact ⟨key _ _ hbb, key _ _ hcb, key _ _ hab⟩
      · simp at h
  · simp at h


/-! ## the add-action table (REGENERATED from `Node.add_actions`) -/

/-- every key of the table maps into the add actions 0..4 of the reference, and the five
    reference names have the reference numbers -/
theorem add_actions_table_ok :
    (∀ e ∈ addActionsStr, 0 ≤ e.2 ∧ e.2 ≤ 4) ∧ (∀ e ∈ addActionsInt, e.2 = e.1 ∧ 0 ≤ e.2 ∧ e.2 ≤ 4) ∧
    addActionsStr.lookup "addToHead" = some 0 ∧ addActionsStr.lookup "addToTail" = some 1 ∧
    addActionsStr.lookup "addBefore" = some 2 ∧ addActionsStr.lookup "addAfter" = some 3 ∧
    addActionsStr.lookup "addReplace" = some 4 := by
  decide

/-! ## Non-vacuity -/

def exCore : Core :=
  { nia := ⟨0, 1000, 1000⟩,
    cbus := (C16.CBA.init 16 0 0).get rfl, abus := (C16.CBA.init 16 0 4).get rfl,
    balloc := (C16.CBA.init 8 0 0).get rfl, clientId := 0, maxLogins := 1, latency := none }

/-- a group, a synth with a nested array argument, a set inside a bind block -/
def exOps : List Op :=
  [.group false .none 0,
   .synth false "default" (.node 0) 1 (.list [.str "freq", .int 440, .str "amp", .list [.int 8, .list [.int 1]]]),
   .bind, .set 1 [.str "freq", .int 220], .run 1 false, .endBind,
   .bind, .nfree 1 true, .raise, .endBind]

example : ((⟨exCore, [], 0, []⟩ : Client).run exOps).1.wire =
    [.msg ⟨"/g_new", [ai 1000, ai 0, ai 1]⟩,
     .msg ⟨"/s_new", [as "default", ai 1001, ai 1, ai 1000, as "freq", ai 440, as "amp", .open,
                      ai 8, .open, ai 1, .close, .close]⟩,
     .bundle none [⟨"/n_set", [ai 1001, as "freq", ai 220]⟩, ⟨"/n_run", [ai 1001, ai 0]⟩]] := by
  decide

example : (exOps.map fun op => op.wf exCore) = exOps.map fun _ => true := by decide


end Sc3Verif.C17
