/-
C17 — Client objects speak the server command protocol and keep ids consistent.
Property theorems only (helper lemmas are in `Lemmas.lean`).
-/
import Sc3Verif.C17.Lemmas
import Sc3Verif.C17.GenActions
import Sc3Verif.C16.Props
namespace Sc3Verif.C17

/-! ## conformance to the Server Command Reference -/

/-- EVERY message a client call emits conforms to the command reference (name, argument count,
    order, types, array brackets, counted groups, completion slot), for every state and every
    well-kinded argument list — values nested to any depth, any ids, any targets. -/
theorem emitted_conforms (c : Core) (op : Op) (hw : op.wf c = true) :
    ∀ p ∈ (c.stepCore op).2.2, ∀ m ∈ p.msgs, grammarOk m = true := by
  intro p hp m hm
  cases op with
  | synth paused name tgt act args =>
    simp only [Op.wf, Bool.and_eq_true] at hw
    simp only [Core.stepCore] at hp
    split at hp
    · rename_i tid _ a _ hsa
      have hpa := synthArgs_ok hw.2 hsa
      have hact := actOk_arg hw.1
      split at hp
      · simp only [List.mem_singleton] at hp; subst hp
        simp only [Packet.msgs, List.mem_cons, List.not_mem_nil, or_false] at hm
        rcases hm with rfl | rfl
        · simp [grammarOk, Arg.isStr, Arg.isInt, hact, hpa, as, ai]
        · simp [grammarOk, rep2, Arg.isInt, Arg.isFlag, ai]
      · simp only [List.mem_singleton] at hp; subst hp
        simp only [Packet.msgs, List.mem_singleton] at hm; subst hm
        simp [grammarOk, Arg.isStr, Arg.isInt, hact, hpa, as, ai]
    · simp [Core.skip] at hp
  | grain name tgt act args =>
    simp only [Op.wf, Bool.and_eq_true] at hw
    simp only [Core.stepCore] at hp
    split at hp
    · rename_i tid _ a _ hsa
      have := send_msg hp hm; subst this
      simp [grammarOk, Arg.isStr, Arg.isInt, actOk_arg hw.1, synthArgs_ok hw.2 hsa, as, ai]
    · simp [Core.skip] at hp
  | replace t name args same =>
    simp only [Op.wf] at hw
    simp only [Core.stepCore] at hp
    split at hp
    · rename_i tn a _ hsa
      simp only [List.mem_singleton] at hp; subst hp
      simp only [Packet.msgs, List.mem_singleton] at hm; subst hm
      simp [grammarOk, Arg.isStr, Arg.isInt, synthArgs_ok hw hsa, as, ai, Arg.isAddAction, actionIn]
    · simp [Core.skip] at hp
  | group par tgt act =>
    simp only [Op.wf] at hw
    simp only [Core.stepCore] at hp
    split at hp
    · simp only [List.mem_singleton] at hp; subst hp
      simp only [Packet.msgs, List.mem_singleton] at hm; subst hm
      have := actOk_arg hw
      cases par <;> simp [grammarOk, rep3, Arg.isInt, this, ai]
    · simp [Core.skip] at hp
  | nfree h flag =>
    simp only [Core.stepCore] at hp
    split at hp
    · split at hp
      · have := send_msg hp hm; subst this
        simp [grammarOk, rep1, Arg.isInt, ai]
      · simp at hp
    · simp [Core.skip] at hp
  | run h flag =>
    obtain ⟨n, a, ha, rfl⟩ := nodeCmd_msg hp hm
    simp only [Option.some.injEq] at ha; subst ha
    simp [grammarOk, rep2, Arg.isInt, boolArg_flag, ai]
  | gdump h flag =>
    obtain ⟨n, a, ha, rfl⟩ := kindCmd_msg hp hm
    simp only [Option.some.injEq] at ha; subst ha
    simp [grammarOk, rep2, Arg.isInt, boolArg_flag, ai]
  | map audio h args =>
    simp only [Op.wf] at hw
    obtain ⟨n, a, ha, rfl⟩ := nodeCmd_msg hp hm
    have := rep2_of_vrep2 (c := c) (fun v a hv h => atomArg_ctlLike hv h)
      (fun v a hv h => atomArg_intLike hv h) args a hw ha
    cases audio <;> simp [grammarOk, Arg.isInt, this, ai]
  | mapn audio h args =>
    simp only [Op.wf] at hw
    obtain ⟨n, a, ha, rfl⟩ := nodeCmd_msg hp hm
    have := mnArgs_ok c args a hw ha
    cases audio <;> simp [grammarOk, Arg.isInt, this, ai]
  | set h args =>
    simp only [Op.wf] at hw
    obtain ⟨n, a, ha, rfl⟩ := nodeCmd_msg hp hm
    have := embedL_pairs c args a hw (by simpa [oscArgList] using ha)
    simp [grammarOk, Arg.isInt, this, ai]
  | setn h args =>
    simp only [Op.wf] at hw
    obtain ⟨n, a, ha, rfl⟩ := nodeCmd_msg hp hm
    have := setnArgs_ok c Val.isCtlLike Arg.isCtl (fun v a hv h => atomArg_ctlLike hv h) args a hw ha
    simp [grammarOk, Arg.isInt, this, ai]
  | fill h args =>
    simp only [Op.wf] at hw
    obtain ⟨n, a, ha, rfl⟩ := nodeCmd_msg hp hm
    have := rep3_of_vrep3 (c := c) (fun v a hv h => atomArg_ctlLike hv h)
      (fun v a hv h => atomArg_intLike hv h) (fun v a hv h => atomArg_numLike hv h) args a hw ha
    simp [grammarOk, Arg.isInt, this, ai]
  | release h time =>
    simp only [Core.stepCore] at hp
    split at hp
    · rename_i n g _ hg
      simp only [List.mem_singleton] at hp; subst hp
      simp only [Packet.msgs, List.mem_singleton] at hm; subst hm
      simp [grammarOk, Arg.isInt, pairsOk, Arg.isCtl, releaseGate_num hg, as, ai]
    · simp [Core.skip] at hp
  | trace h =>
    obtain ⟨n, a, ha, rfl⟩ := nodeCmd_msg hp hm
    simp only [Option.some.injEq] at ha; subst ha
    simp [grammarOk, rep1, Arg.isInt, ai]
  | nquery h =>
    obtain ⟨n, a, ha, rfl⟩ := nodeCmd_msg hp hm
    simp only [Option.some.injEq] at ha; subst ha
    simp [grammarOk, rep1, Arg.isInt, ai]
  | gfreeall h =>
    obtain ⟨n, a, ha, rfl⟩ := kindCmd_msg hp hm
    simp only [Option.some.injEq] at ha; subst ha
    simp [grammarOk, rep1, Arg.isInt, ai]
  | gdeep h =>
    obtain ⟨n, a, ha, rfl⟩ := kindCmd_msg hp hm
    simp only [Option.some.injEq] at ha; subst ha
    simp [grammarOk, rep1, Arg.isInt, ai]
  | movb h t =>
    simp only [Core.stepCore] at hp
    split at hp
    · have := send_msg hp hm; subst this
      simp [grammarOk, rep2, Arg.isInt]
    · simp [Core.skip] at hp
  | mova h t =>
    simp only [Core.stepCore] at hp
    split at hp
    · have := send_msg hp hm; subst this
      simp [grammarOk, rep2, Arg.isInt]
    · simp [Core.skip] at hp
  | movh h tgt =>
    simp only [Core.stepCore] at hp
    split at hp
    · split at hp
      · have := send_msg hp hm; subst this
        simp [grammarOk, rep2, Arg.isInt]
      · simp [Core.exc] at hp
    · simp [Core.skip] at hp
  | movt h tgt =>
    simp only [Core.stepCore] at hp
    split at hp
    · split at hp
      · have := send_msg hp hm; subst this
        simp [grammarOk, rep2, Arg.isInt]
      · simp [Core.exc] at hp
    · simp [Core.skip] at hp
  | sget h idx =>
    simp only [Op.wf] at hw
    obtain ⟨n, a, ha, rfl⟩ := kindCmd_msg hp hm
    simp only [bind, Option.bind] at ha
    cases hx : atomArg c idx with
    | none => simp [hx] at ha
    | some x =>
      simp only [hx, pure, Option.some.injEq] at ha; subst ha
      simp [grammarOk, rep1, Arg.isInt, atomArg_ctlLike hw hx]
  | sgetn h idx count =>
    simp only [Op.wf, Bool.and_eq_true] at hw
    obtain ⟨n, a, ha, rfl⟩ := kindCmd_msg hp hm
    simp only [bind, Option.bind] at ha
    cases hx : atomArg c idx with
    | none => simp [hx] at ha
    | some x =>
      cases hy : atomArg c count with
      | none => simp [hx, hy] at ha
      | some y =>
        simp only [hx, hy, pure, Option.some.injEq] at ha; subst ha
        simp [grammarOk, rep2, ai_isInt, atomArg_ctlLike hw.1 hx, atomArg_intLike hw.2 hy]
  | reorder act tgt nodes =>
    simp only [Op.wf] at hw
    simp only [Core.stepCore] at hp
    split at hp
    · rename_i tid _ ids _ _
      have := send_msg hp hm; subst this
      have hall : rep1 Arg.isInt (ids.map ai) = true :=
        rep1_of_all _ (fun a ha => by
          simp only [List.mem_map] at ha; obtain ⟨i, _, rfl⟩ := ha; rfl)
      have : actionIn 0 3 (ai act) = true := by simpa [actionIn, ai] using hw
      simp [grammarOk, Arg.isInt, this, hall]
    · simp [Core.skip] at hp
  | freedg all =>
    simp only [Core.stepCore] at hp
    split at hp
    · simp only [List.mem_map, List.mem_range] at hp
      obtain ⟨k, _, rfl⟩ := hp
      simp only [Packet.msgs, List.mem_singleton] at hm; subst hm
      simp [grammarOk, rep1, Arg.isInt]
    · have := send_msg hp hm; subst this
      simp [grammarOk, rep1, Arg.isInt]
  | newBus audio ch idx =>
    simp only [Core.stepCore] at hp
    split at hp
    · simp at hp
    · split at hp <;> simp [Core.exc] at hp
  | busfree h =>
    simp only [Core.stepCore] at hp
    split at hp
    · simp [Core.skip] at hp
    · split at hp
      · simp at hp
      · split at hp
        · simp at hp
        · split at hp <;> simp [Core.exc] at hp
  | cset h vals =>
    simp only [Op.wf] at hw
    obtain ⟨i, ch, a, ha, rfl⟩ := cbusCmd_msg hp hm
    have := indexed_ok a i (ctlInputs_nums vals a hw ha).2
    simp [grammarOk, this]
  | csetat h off vals =>
    simp only [Op.wf] at hw
    obtain ⟨i, ch, a, ha, rfl⟩ := cbusCmd_msg hp hm
    have := indexed_ok a (i + off) (ctlInputs_nums vals a hw ha).2
    simp [grammarOk, this]
  | csetn h vals =>
    simp only [Op.wf] at hw
    obtain ⟨i, ch, a, ha, rfl⟩ := cbusCmd_msg hp hm
    have hn := ctlInputs_nums vals a hw ha
    have := counted_nums Arg.isInt a [] hn.2
    simp only [List.append_nil] at this
    simp [grammarOk, countedOk, Arg.isInt, ai, ← hn.1, this]
  | csetnat h off vals =>
    simp only [Op.wf] at hw
    obtain ⟨i, ch, a, ha, rfl⟩ := cbusCmd_msg hp hm
    have hn := ctlInputs_nums vals a hw ha
    have := counted_nums Arg.isInt a [] hn.2
    simp only [List.append_nil] at this
    simp [grammarOk, countedOk, Arg.isInt, ai, ← hn.1, this]
  | cpairs h pairs =>
    simp only [Op.wf] at hw
    obtain ⟨i, ch, a, ha, rfl⟩ := cbusCmd_msg hp hm
    have := cpairs_ok c i pairs a hw ha
    simp [grammarOk, this]
  | cfill h value ch =>
    simp only [Op.wf, Bool.and_eq_true] at hw
    obtain ⟨i, ch', a, ha, rfl⟩ := cbusCmd_msg hp hm
    simp only [bind, Option.bind] at ha
    cases hx : atomArg c value with
    | none => simp [hx] at ha
    | some x =>
      cases hy : atomArg c ch with
      | none => simp [hx, hy] at ha
      | some y =>
        simp only [hx, hy, pure, Option.some.injEq] at ha; subst ha
        simp [grammarOk, rep3, ai_isInt, atomArg_numLike hw.1 hx, atomArg_intLike hw.2 hy]
  | cclear h =>
    obtain ⟨i, ch, a, ha, rfl⟩ := cbusCmd_msg hp hm
    simp [grammarOk, rep3, Arg.isInt, Arg.isNum]
  | cget h =>
    obtain ⟨i, ch, a, ha, rfl⟩ := cbusCmd_msg hp hm
    split <;> simp [grammarOk, rep1, rep2, Arg.isInt]
  | cgetn h count =>
    obtain ⟨i, ch, a, ha, rfl⟩ := cbusCmd_msg hp hm
    simp [grammarOk, rep2, Arg.isInt]
  | buf frames ch num alloc cm =>
    simp only [Core.stepCore] at hp
    split at hp
    · split at hp
      · simp only [List.mem_singleton] at hp; subst hp
        simp only [Packet.msgs, List.mem_singleton] at hm; subst hm
        simp [grammarOk, ai_isInt, complTail_complArg]
      · simp at hp
    · split at hp
      · split at hp
        · simp only [List.mem_singleton] at hp; subst hp
          simp only [Packet.msgs, List.mem_singleton] at hm; subst hm
          simp [grammarOk, ai_isInt, complTail_complArg]
        · simp at hp
      · simp [Core.exc] at hp
      · simp [Core.exc] at hp
  | balloc h cm =>
    simp only [Core.stepCore] at hp
    split at hp
    · simp [Core.skip] at hp
    · split at hp
      · rename_i bo hb _ i hi
        have := send_msg hp hm; subst this
        simp only [Op.wf, hb, hi, Option.isNone_some, Bool.false_or, Bool.and_eq_true] at hw
        obtain ⟨f, hf⟩ := Option.isSome_iff_exists.mp hw.1
        obtain ⟨ch, hch⟩ := Option.isSome_iff_exists.mp hw.2
        simp [grammarOk, ai_isInt, complTail_complArg, hf, hch, optInt]
      · simp [Core.exc] at hp
  | bufcons n frames ch cm =>
    simp only [Core.stepCore] at hp
    split at hp
    · simp only [List.mem_map] at hp
      obtain ⟨b, _, rfl⟩ := hp
      simp only [Packet.msgs, List.mem_singleton] at hm; subst hm
      simp [grammarOk, ai_isInt, complTail_complArg]
    · simp [Core.exc] at hp
    · simp [Core.exc] at hp
  | bfree h cm =>
    simp only [Core.stepCore] at hp
    split at hp
    · simp [Core.skip] at hp
    · split at hp
      · simp at hp
      · split at hp
        · simp [Core.exc] at hp
        · simp only [List.mem_singleton] at hp; subst hp
          simp only [Packet.msgs, List.mem_singleton] at hm; subst hm
          simp [grammarOk, ai_isInt, complTail_complArg]
  | bfreeall =>
    simp only [Core.stepCore, List.mem_singleton] at hp; subst hp
    simp only [Packet.msgs, List.mem_map] at hm
    obtain ⟨i, _, rfl⟩ := hm
    simp [grammarOk, complTail, ai_isInt]
  | bzero h cm =>
    obtain ⟨i, a, ha, rfl⟩ := bufCmd_msg hp hm
    simp [grammarOk, ai_isInt, complTail_complArg]
  | bclose h cm =>
    obtain ⟨i, a, ha, rfl⟩ := bufCmd_msg hp hm
    simp [grammarOk, ai_isInt, complTail_complArg]
  | bfill h start frames vals =>
    simp only [Op.wf] at hw
    obtain ⟨i, a, ha, rfl⟩ := bufCmd_msg hp hm
    cases vals with
    | nil => simp at hw
    | cons v r =>
      simp only [Bool.and_eq_true] at hw
      obtain ⟨x, r', h1, h2, rfl⟩ := ctlInputs_cons ha
      have := rep3_of_vrep3 (c := c) (fun v a hv h => atomArg_intLike hv h)
        (fun v a hv h => atomArg_intLike hv h) (fun v a hv h => atomArg_numLike hv h) r r' hw.2 h2
      simp [grammarOk, rep3, ai_isInt, atomArg_numLike hw.1 h1, this]
  | bset h args =>
    simp only [Op.wf] at hw
    obtain ⟨i, a, ha, rfl⟩ := bufCmd_msg hp hm
    have := rep2_of_vrep2 (c := c) (fun v a hv h => atomArg_intLike hv h)
      (fun v a hv h => atomArg_numLike hv h) args a hw ha
    simp [grammarOk, ai_isInt, this]
  | bsetn h args =>
    simp only [Op.wf] at hw
    obtain ⟨i, a, ha, rfl⟩ := bufCmd_msg hp hm
    have := setnArgs_ok c (Val.isIntLike c) Arg.isInt (fun v a hv h => atomArg_intLike hv h) args a hw ha
    simp [grammarOk, ai_isInt, this]
  | bquery h =>
    obtain ⟨i, a, ha, rfl⟩ := bufCmd_msg hp hm
    simp [grammarOk, rep1, ai_isInt]
  | bget h idx =>
    simp only [Op.wf] at hw
    obtain ⟨i, a, ha, rfl⟩ := bufCmd_msg hp hm
    simp [grammarOk, rep1, ai_isInt, atomArg_intLike hw ha]
  | bgetn h idx count =>
    simp only [Op.wf, Bool.and_eq_true] at hw
    obtain ⟨i, a, ha, rfl⟩ := bufCmd_msg hp hm
    simp only [bind, Option.bind] at ha
    cases hx : atomArg c idx with
    | none => simp [hx] at ha
    | some x =>
      cases hy : atomArg c count with
      | none => simp [hx, hy] at ha
      | some y =>
        simp only [hx, hy, pure, Option.some.injEq] at ha; subst ha
        simp [grammarOk, rep2, ai_isInt, atomArg_intLike hw.1 hx, atomArg_intLike hw.2 hy]
  | bgen h cmd args n w cl =>
    simp only [Op.wf, Bool.and_eq_true, Bool.or_eq_true, beq_iff_eq] at hw
    obtain ⟨i, a, ha, rfl⟩ := bufCmd_msg hp hm
    have := rep1_of_all a (ctlInputs_nums args a hw.2 ha).2
    rcases hw.1 with rfl | rfl <;> simp [grammarOk, bGenOk, ai_isInt, this]
  | bnorm h max wt =>
    simp only [Op.wf] at hw
    obtain ⟨i, a, ha, rfl⟩ := bufCmd_msg hp hm
    cases wt <;> simp [grammarOk, bGenOk, ai_isInt, atomArg_numLike hw ha]
  | bcopy h d dstStart start num =>
    simp only [Op.wf, Bool.and_eq_true] at hw
    obtain ⟨i, a, ha, rfl⟩ := bufCmd_msg hp hm
    simp only [bind, Option.bind] at ha
    cases hd : c.bufs[d]? with
    | none => simp [hd] at ha
    | some db =>
      cases hdi : db.bufnum with
      | none => simp [hd, hdi] at ha
      | some di =>
        cases hx : atomArg c dstStart with
        | none => simp [hd, hdi, hx] at ha
        | some x =>
          cases hy : atomArg c start with
          | none => simp [hd, hdi, hx, hy] at ha
          | some y =>
            cases hz : atomArg c num with
            | none => simp [hd, hdi, hx, hy, hz] at ha
            | some z =>
              simp only [hd, hdi, hx, hy, hz, pure, Option.some.injEq] at ha; subst ha
              simp [grammarOk, bGenOk, ai_isInt, atomArg_intLike hw.1.1 hx, atomArg_intLike hw.1.2 hy,
                atomArg_intLike hw.2 hz]
  | bsine k h lists n w cl =>
    simp only [Op.wf, Bool.and_eq_true, decide_eq_true_eq] at hw
    obtain ⟨⟨hlen, hk3⟩, hnum⟩ := hw
    obtain ⟨i, ls, ha, rfl⟩ := bufCmd_msg hp hm
    simp only [bind, Option.bind] at ha
    cases hm' : lists.mapM (ctlInputs c) with
    | none => simp [hm'] at ha
    | some ls' =>
      simp only [hm'] at ha
      split at ha
      · rename_i heq
        simp only [pure, Option.some.injEq] at ha; subst ha
        obtain ⟨hl, hn⟩ := mapM_ctlInputs_nums lists ls' hnum hm'
        have hall : ∀ a ∈ lace ls', a.isNum = true := fun a ha => by
          obtain ⟨l, hl', hal⟩ := mem_lace ha
          exact hn l hl' a hal
        have heq' : ∀ l ∈ ls', l.length = (ls'.head?.map List.length).getD 0 := fun l hl' => by
          have := List.all_eq_true.mp heq l hl'
          simpa using this
        have hlace := length_lace heq'
        rw [hl, hlen] at hlace
        match k, hk3 with
        | 0, _ => simp [grammarOk, bGenOk, ai_isInt, rep1_of_all _ hall]
        | 1, _ => simp [grammarOk, bGenOk, ai_isInt, rep1_of_all _ hall]
        | 2, _ =>
          have := rep2_of_all_even _ hall (by rw [hlace]; simp)
          simp [grammarOk, bGenOk, ai_isInt, this]
        | 3, _ =>
          have := rep3_of_all_mod3 _ hall (by rw [hlace]; simp)
          simp [grammarOk, bGenOk, ai_isInt, this]
      · simp at ha
  | bind => simp [Core.stepCore] at hp
  | endBind => simp [Core.stepCore] at hp
  | raise => simp [Core.stepCore] at hp

/-! ## `with server.bind():` -/

/-- `with s.bind(): body` as a history -/
abbrev blockOps (body : List Op) : List Op := Op.bind :: (body ++ [Op.endBind])

/-- what a finished top-level block puts on the wire: one bundle, at the latency of the server,
    with the messages the calls issue, in issue order (nothing if no message was issued) -/
def blockSent (c : Core) (body : List Op) : List Packet :=
  bundleOf (c.runPlain body).1.latency (issued (c.runPlain body).2)

/-- Commands issued inside a bind block reach the wire as ONE bundle (time = server latency), in
    issue order, when the block exits — and nothing reaches the wire before.  `body` is any
    sequence of client calls none of which raises; what each call "issues" is what it sends when
    run without the block (`runPlain`, the unbound twin). -/
theorem bind_one_bundle_in_order (cl : Client) (hs : cl.stack = []) (hk : cl.skipDepth = 0)
    (body : List Op) (hp : ∀ op ∈ body, op.plain = true)
    (hr : ∀ r ∈ (cl.core.runPlain body).2, r.1.raises = false) :
    (cl.run (blockOps body)).1.wire = cl.wire ++ blockSent cl.core body ∧
    (cl.run (blockOps body)).1.core = (cl.core.runPlain body).1 ∧
    (cl.run (blockOps body)).1.stack = [] ∧ (cl.run (blockOps body)).1.skipDepth = 0 ∧
    (cl.run (blockOps body)).2 = (Status.ok, []) :: (cl.core.runPlain body).2.map (fun x => (x.1, []))
        ++ [(Status.ok, blockSent cl.core body)] := by
  unfold blockOps blockSent
  have hb : cl.step .bind = ({ cl with stack := [[]] }, .ok, []) := by
    unfold Client.step; rw [if_neg (by omega)]; simp [hs]
  simp only [Client.run, hb]
  have ha := run_append { cl with stack := [[]] } body [Op.endBind]
  have hi := run_plain_in_block { cl with stack := [[]] } [] [] rfl hk body hp hr
  simp only [List.nil_append] at hi
  obtain ⟨h1, h2, h3, h4, h5⟩ := hi
  have he : ((Client.run { cl with stack := [[]] } body).1).step .endBind =
      ({ (Client.run { cl with stack := [[]] } body).1 with
           stack := [],
           wire := cl.wire ++ bundleOf (cl.core.runPlain body).1.latency (issued (cl.core.runPlain body).2) },
       .ok, bundleOf (cl.core.runPlain body).1.latency (issued (cl.core.runPlain body).2)) := by
    unfold Client.step
    rw [if_neg (by omega), h2]
    simp only [h1, h4, bundleOf]
  rw [ha.1, ha.2]
  simp only [Client.run, he, h5]
  refine ⟨trivial, h1, trivial, h3, by simp⟩

/-- The same calls without the block send the same messages one by one: the bundle of
    `bind_one_bundle_in_order` contains exactly the messages of these packets, in order. -/
theorem unbound_sends_each (cl : Client) (hs : cl.stack = []) (hk : cl.skipDepth = 0)
    (body : List Op) (hp : ∀ op ∈ body, op.plain = true) :
    (cl.run body).1.wire = cl.wire ++ (cl.core.runPlain body).2.flatMap (·.2) ∧
    collect ((cl.core.runPlain body).2.flatMap (·.2)) = issued (cl.core.runPlain body).2 ∧
    (cl.run body).1.core = (cl.core.runPlain body).1 := by
  have := run_plain_top cl hs hk body hp
  refine ⟨this.2.2.2.1, ?_, this.1⟩
  generalize (cl.core.runPlain body).2 = rs
  induction rs with
  | nil => rfl
  | cons r rs ih => simp only [List.flatMap_cons, collect, issued] at ih ⊢; rw [List.flatMap_append, ih]

/-- A block nested in another block sends nothing by itself: on exit its messages join the
    enclosing block's collector, after what was issued there before. -/
theorem bind_nested_appends (cl : Client) (top : List Msg) (rest : List (List Msg))
    (hs : cl.stack = top :: rest) (hk : cl.skipDepth = 0)
    (body : List Op) (hp : ∀ op ∈ body, op.plain = true)
    (hr : ∀ r ∈ (cl.core.runPlain body).2, r.1.raises = false) :
    (cl.run (blockOps body)).1.wire = cl.wire ∧
    (cl.run (blockOps body)).1.stack = (top ++ issued (cl.core.runPlain body).2) :: rest ∧
    (cl.run (blockOps body)).1.core = (cl.core.runPlain body).1 ∧
    (cl.run (blockOps body)).1.skipDepth = 0 ∧ ∀ x ∈ (cl.run (blockOps body)).2, x.2 = [] := by
  unfold blockOps
  have hb : cl.step .bind = ({ cl with stack := [] :: top :: rest }, .ok, []) := by
    unfold Client.step; rw [if_neg (by omega)]; simp [hs]
  simp only [Client.run, hb]
  have ha := run_append { cl with stack := [] :: top :: rest } body [Op.endBind]
  have hi := run_plain_in_block { cl with stack := [] :: top :: rest } [] (top :: rest) rfl hk body hp hr
  simp only [List.nil_append] at hi
  obtain ⟨h1, h2, h3, h4, h5⟩ := hi
  have he : ((Client.run { cl with stack := [] :: top :: rest } body).1).step .endBind =
      ({ (Client.run { cl with stack := [] :: top :: rest } body).1 with
           stack := (top ++ issued (cl.core.runPlain body).2) :: rest }, .ok, []) := by
    unfold Client.step
    rw [if_neg (by omega), h2]
  rw [ha.1, ha.2]
  simp only [Client.run, he, h5]
  refine ⟨h4, trivial, h1, h3, ?_⟩
  intro x hx
  simp only [List.mem_cons, List.mem_append, List.mem_map, List.not_mem_nil, or_false] at hx
  rcases hx with rfl | ⟨y, _, rfl⟩ | rfl <;> rfl

/-- If a call of the block raises (or the block body raises by itself: `Op.raise`), NOTHING of
    the block is sent: neither what was issued before the exception nor anything after it; the
    calls after the exception are not executed; the state changes of the calls before it stay. -/
theorem bind_raises_sends_nothing (cl : Client) (hs : cl.stack = []) (hk : cl.skipDepth = 0)
    (pre post : List Op) (opR : Op)
    (hp : ∀ op ∈ pre, op.plain = true) (hq : ∀ op ∈ post, op.plain = true)
    (hr : ∀ r ∈ (cl.core.runPlain pre).2, r.1.raises = false)
    (hR : opR.plain = true ∨ opR = .raise)
    (hraise : ((cl.core.runPlain pre).1.stepCore opR).2.1.raises = true) :
    (cl.run (blockOps (pre ++ opR :: post))).1.wire = cl.wire ∧
    (cl.run (blockOps (pre ++ opR :: post))).1.stack = [] ∧
    (cl.run (blockOps (pre ++ opR :: post))).1.skipDepth = 0 ∧
    (cl.run (blockOps (pre ++ opR :: post))).1.core = ((cl.core.runPlain pre).1.stepCore opR).1 ∧
    ∀ x ∈ (cl.run (blockOps (pre ++ opR :: post))).2, x.2 = [] := by
  unfold blockOps
  have hb : cl.step .bind = ({ cl with stack := [[]] }, .ok, []) := by
    unfold Client.step; rw [if_neg (by omega)]; simp [hs]
  simp only [Client.run, hb]
  have e : (pre ++ opR :: post) ++ [Op.endBind] = pre ++ ([opR] ++ (post ++ [Op.endBind])) := by simp
  rw [e]
  have ha := run_append { cl with stack := [[]] } pre ([opR] ++ (post ++ [Op.endBind]))
  have hi := run_plain_in_block { cl with stack := [[]] } [] [] rfl hk pre hp hr
  simp only [List.nil_append] at hi
  obtain ⟨h1, h2, h3, h4, h5⟩ := hi
  generalize hc1 : (Client.run { cl with stack := [[]] } pre).1 = c1 at *
  -- the raising call
  have hR' : c1.step opR =
      ({ c1 with core := (c1.core.stepCore opR).1, stack := [], skipDepth := 1 },
       (c1.core.stepCore opR).2.1, []) := by
    unfold Client.step
    rw [if_neg (by omega)]
    rw [h1] at *
    rcases hR with hpl | rfl
    · cases opR <;> simp [Op.plain] at hpl <;> simp [h2, hraise, Client.unwind]
    · simp [h2, Core.stepCore, Status.raises, Client.unwind]
  generalize hc2 : ({ c1 with core := (c1.core.stepCore opR).1, stack := [], skipDepth := 1 } : Client) = c2 at *
  have hb2 := run_append c2 post [Op.endBind]
  have hsk := run_plain_skipping c2 (by rw [← hc2]; exact Nat.one_pos) post hq
  have he : c2.step .endBind = ({ c2 with skipDepth := 0 }, .raised, []) := by
    unfold Client.step
    rw [if_pos (by rw [← hc2]; exact Nat.one_pos)]
    simp [← hc2]
  have hrun : (c1.run ([opR] ++ (post ++ [Op.endBind]))).1 = { c2 with skipDepth := 0 } ∧
      ∀ x ∈ (c1.run ([opR] ++ (post ++ [Op.endBind]))).2, x.2 = [] := by
    simp only [List.singleton_append, Client.run, hR']
    rw [hb2.1, hb2.2, hsk.1, hsk.2]
    simp only [Client.run, he]
    refine ⟨trivial, ?_⟩
    intro x hx
    simp only [List.mem_cons, List.mem_append, List.mem_map, List.not_mem_nil, or_false] at hx
    rcases hx with rfl | ⟨y, _, rfl⟩ | rfl <;> rfl
  rw [ha.1, ha.2, hrun.1]
  refine ⟨?_, ?_, rfl, ?_, ?_⟩
  · rw [← hc2]; exact h4
  · rw [← hc2]
  · rw [← hc2, h1]
  · intro x hx
    simp only [List.mem_cons, List.mem_append] at hx
    rcases hx with rfl | hx | hx
    · rfl
    · rw [h5] at hx
      simp only [List.mem_map] at hx
      obtain ⟨y, _, rfl⟩ := hx; rfl
    · exact hrun.2 x hx

/-- every message the client has issued so far and not discarded: what is on the wire, then what
    waits in the open blocks, outermost first -/
def allMsgs (cl : Client) : List Msg := collect cl.wire ++ cl.stack.reverse.flatten

/-- For EVERY history of client calls and (arbitrarily nested, even unbalanced) `bind`/`end`
    tokens in which nothing raises: binding only regroups.  No message is lost, duplicated or
    reordered, and the client state is the one of the unbound run. -/
theorem bind_preserves_issue_order (cl : Client) (hk : cl.skipDepth = 0) (ops : List Op)
    (hno : Op.raise ∉ ops)
    (hr : ∀ r ∈ (cl.core.runPlain (ops.filter Op.plain)).2, r.1.raises = false) :
    allMsgs (cl.run ops).1 = allMsgs cl ++ issued (cl.core.runPlain (ops.filter Op.plain)).2 ∧
    (cl.run ops).1.core = (cl.core.runPlain (ops.filter Op.plain)).1 ∧
    (cl.run ops).1.skipDepth = 0 := by
  induction ops generalizing cl with
  | nil => simp [Client.run, Core.runPlain, issued, hk]
  | cons op ops ih =>
    have hno' : Op.raise ∉ ops := fun h => hno (by simp [h])
    have hne : op ≠ .raise := fun h => hno (by simp [h])
    simp only [Client.run]
    by_cases hpl : op.plain = true
    · -- an ordinary call
      have hf : (op :: ops).filter Op.plain = op :: ops.filter Op.plain := by simp [hpl]
      rw [hf] at hr ⊢
      simp only [Core.runPlain, List.mem_cons, forall_eq_or_imp] at hr
      obtain ⟨hr1, hr2⟩ := hr
      have hstep : (cl.step op).1.core = (cl.core.stepCore op).1 ∧ (cl.step op).1.skipDepth = 0 ∧
          allMsgs (cl.step op).1 = allMsgs cl ++ collect (cl.core.stepCore op).2.2 := by
        unfold Client.step
        rw [if_neg (by omega)]
        cases hst : cl.stack with
        | nil => cases op <;> simp [Op.plain] at hpl <;> simp [hst, allMsgs, collect, hk]
        | cons top rest =>
          cases op <;> simp [Op.plain] at hpl <;>
            simp [hst, allMsgs, collect, hk, hr1, List.append_assoc]
      obtain ⟨h1, h2, h3⟩ := hstep
      have := ih (cl.step op).1 h2 hno' (by rw [h1]; exact hr2)
      rw [h1] at this
      refine ⟨?_, this.2.1, this.2.2⟩
      rw [this.1, h3]
      simp [issued, Core.runPlain, List.append_assoc]
    · -- bind / end
      have hf : (op :: ops).filter Op.plain = ops.filter Op.plain := by simp [hpl]
      rw [hf] at hr ⊢
      have hstep : (cl.step op).1.core = cl.core ∧ (cl.step op).1.skipDepth = 0 ∧
          allMsgs (cl.step op).1 = allMsgs cl := by
        unfold Client.step
        rw [if_neg (by omega)]
        cases op <;> simp [Op.plain] at hpl
        · simp [allMsgs, hk]
        · cases hst : cl.stack with
          | nil => simp [allMsgs, hst, hk]
          | cons top rest =>
            cases rest with
            | nil =>
              by_cases he : top.isEmpty
              · simp [allMsgs, hst, hk, he, collect, List.isEmpty_iff.mp he]
              · simp [allMsgs, hst, hk, he, collect, Packet.msgs]
            | cons outer rest' => simp [allMsgs, hst, hk, List.append_assoc]
        · exact absurd rfl hne
      obtain ⟨h1, h2, h3⟩ := hstep
      have := ih (cl.step op).1 h2 hno' (by rw [h1]; exact hr)
      rw [h1, h3] at this
      exact this

end Sc3Verif.C17
