/-
C17 — the specification side.

`grammarOk` is the argument grammar of the SuperCollider Server Command Reference for every
command the modelled client calls can emit, transcribed command by command (name, argument
count, order, types; `N *` repetitions; `$[ … $]` arrays in control values; optional completion
message).  It is independent of the model: it only looks at a finished message.

Conventions of the reference as sclang and sc3 use them: a control is named by an int index or a
string; a control VALUE is a number, a bus-map symbol (`c<int>` / `a<int>`) or a `[`…`]` array
of values; flags may be given as booleans (sent as 0/1); an absent completion message may be
given as `None` (sent as int 0).
-/
import Sc3Verif.C17.Model
namespace Sc3Verif.C17

/-! ### token classes -/

def Arg.isInt : Arg → Bool
  | .atom (.int _) => true
  | _ => false

def Arg.isFlag : Arg → Bool
  | .atom (.int _) => true
  | .atom .tt => true
  | .atom .ff => true
  | _ => false

def Arg.isNum : Arg → Bool
  | .atom (.int _) => true
  | .atom (.flt _) => true
  | _ => false

def Arg.isStr : Arg → Bool
  | .atom (.str _) => true
  | _ => false

/-- control name or index -/
def Arg.isCtl : Arg → Bool
  | .atom (.int _) => true
  | .atom (.str _) => true
  | _ => false

/-- a scalar control value: a number or a bus-map symbol (`c<i>` / `a<i>`, `i ≥ 0`) -/
def Arg.isValAtom : Arg → Bool
  | .atom (.int _) => true
  | .atom (.flt _) => true
  | .atom (.msym _ i) => decide (0 ≤ i)
  | _ => false

/-! ### repetition checkers -/

/-- `N * (control, value)` where value is a scalar or a (nested) `[ … ]` array of values.
    State: `none` = a control is expected, `some 0` = a value is expected, `some (d+1)` = inside
    `d+1` open arrays. -/
def pairsOk : Option Nat → List Arg → Bool
  | none, [] => true
  | none, a :: r => a.isCtl && pairsOk (some 0) r
  | some 0, a :: r =>
    if a.isValAtom then pairsOk none r
    else match a with
      | .open => pairsOk (some 1) r
      | _ => false
  | some (d + 1), a :: r =>
    match a with
    | .open => pairsOk (some (d + 2)) r
    | .close => if d = 0 then pairsOk none r else pairsOk (some d) r
    | a => a.isValAtom && pairsOk (some (d + 1)) r
  | some _, [] => false

/-- `N * (head, int M, M numbers)`; state `some k` = `k` more numbers of the current group -/
def countedOk (isHead : Arg → Bool) : Option Nat → List Arg → Bool
  | none, [] => true
  | none, h :: .atom (.int n) :: r => isHead h && decide (0 ≤ n) && countedOk isHead (some n.toNat) r
  | none, _ => false
  | some 0, [] => true
  | some 0, h :: .atom (.int n) :: r => isHead h && decide (0 ≤ n) && countedOk isHead (some n.toNat) r
  | some 0, _ => false
  | some (k + 1), a :: r => a.isNum && countedOk isHead (some k) r
  | some (_ + 1), [] => false

def rep1 (p : Arg → Bool) : List Arg → Bool
  | [] => true
  | a :: r => p a && rep1 p r

def rep2 (p q : Arg → Bool) : List Arg → Bool
  | [] => true
  | a :: b :: r => p a && q b && rep2 p q r
  | _ => false

def rep3 (p q s : Arg → Bool) : List Arg → Bool
  | [] => true
  | a :: b :: c :: r => p a && q b && s c && rep3 p q s r
  | _ => false

def actionIn (lo hi : Int) : Arg → Bool
  | .atom (.int i) => decide (lo ≤ i ∧ i ≤ hi)
  | _ => false

/-- optional trailing completion message: absent, `None`, or an embedded message -/
def complTail : List Arg → Bool
  | [] => true
  | [.atom .none] => true
  | [.msg _] => true
  | _ => false

def Arg.isAddAction : Arg → Bool := actionIn 0 4

/-- `/b_gen bufnum cmd …` per generator of the reference -/
def bGenOk (gen : String) (g : List Arg) : Bool :=
  if gen = "sine1" ∨ gen = "cheby" then
    match g with | f :: r => f.isInt && rep1 Arg.isNum r | [] => false
  else if gen = "sine2" then
    match g with | f :: r => f.isInt && rep2 Arg.isNum Arg.isNum r | [] => false
  else if gen = "sine3" then
    match g with | f :: r => f.isInt && rep3 Arg.isNum Arg.isNum Arg.isNum r | [] => false
  else if gen = "copy" then
    match g with | [a, b, c, d] => a.isInt && b.isInt && c.isInt && d.isInt | _ => false
  else if gen = "normalize" ∨ gen = "wnormalize" then
    match g with | [] => true | [a] => a.isNum | _ => false
  else false

/-- the command reference -/
def grammarOk (m : Msg) : Bool :=
  let a := m.args
  if m.cmd = "/s_new" then
    match a with
    | d :: i :: act :: t :: r => d.isStr && i.isInt && act.isAddAction && t.isInt && pairsOk none r
    | _ => false
  else if m.cmd = "/n_set" then
    match a with | i :: r => i.isInt && pairsOk none r | _ => false
  else if m.cmd = "/n_setn" then
    match a with | i :: r => i.isInt && countedOk Arg.isCtl none r | _ => false
  else if m.cmd = "/n_fill" then
    match a with | i :: r => i.isInt && rep3 Arg.isCtl Arg.isInt Arg.isNum r | _ => false
  else if m.cmd = "/n_map" ∨ m.cmd = "/n_mapa" then
    match a with | i :: r => i.isInt && rep2 Arg.isCtl Arg.isInt r | _ => false
  else if m.cmd = "/n_mapn" ∨ m.cmd = "/n_mapan" then
    match a with | i :: r => i.isInt && rep3 Arg.isCtl Arg.isInt Arg.isInt r | _ => false
  else if m.cmd = "/n_run" ∨ m.cmd = "/g_dumpTree" ∨ m.cmd = "/g_queryTree" then
    match a with | _ :: _ => rep2 Arg.isInt Arg.isFlag a | [] => false
  else if m.cmd = "/n_free" ∨ m.cmd = "/n_trace" ∨ m.cmd = "/n_query" ∨ m.cmd = "/g_freeAll"
      ∨ m.cmd = "/g_deepFree" ∨ m.cmd = "/b_query" then
    match a with | _ :: _ => rep1 Arg.isInt a | [] => false
  else if m.cmd = "/n_before" ∨ m.cmd = "/n_after" ∨ m.cmd = "/g_head" ∨ m.cmd = "/g_tail" then
    match a with | _ :: _ => rep2 Arg.isInt Arg.isInt a | [] => false
  else if m.cmd = "/n_order" then
    match a with | act :: t :: r => actionIn 0 3 act && t.isInt && rep1 Arg.isInt r | _ => false
  else if m.cmd = "/g_new" ∨ m.cmd = "/p_new" then
    match a with | _ :: _ => rep3 Arg.isInt Arg.isAddAction Arg.isInt a | [] => false
  else if m.cmd = "/s_get" then
    match a with | i :: r => i.isInt && rep1 Arg.isCtl r | _ => false
  else if m.cmd = "/s_getn" then
    match a with | i :: r => i.isInt && rep2 Arg.isCtl Arg.isInt r | _ => false
  else if m.cmd = "/b_alloc" then
    match a with | b :: f :: c :: r => b.isInt && f.isInt && c.isInt && complTail r | _ => false
  else if m.cmd = "/b_free" ∨ m.cmd = "/b_zero" ∨ m.cmd = "/b_close" then
    match a with | b :: r => b.isInt && complTail r | _ => false
  else if m.cmd = "/b_read" then
    -- bufnum, path, file start frame, number of frames, buffer start frame, leave open, [completion]
    match a with
    | b :: p :: fs :: n :: bs :: lo :: r =>
      b.isInt && p.isStr && fs.isInt && n.isInt && bs.isInt && lo.isFlag && complTail r
    | _ => false
  else if m.cmd = "/b_allocRead" then
    match a with
    | b :: p :: fs :: n :: r => b.isInt && p.isStr && fs.isInt && n.isInt && complTail r
    | _ => false
  else if m.cmd = "/b_write" then
    -- bufnum, path, header format, sample format, number of frames, start frame, leave open, [completion]
    match a with
    | b :: p :: h :: sf :: n :: st :: lo :: r =>
      b.isInt && p.isStr && h.isStr && sf.isStr && n.isInt && st.isInt && lo.isFlag && complTail r
    | _ => false
  else if m.cmd = "/b_set" then
    match a with | b :: r => b.isInt && rep2 Arg.isInt Arg.isNum r | _ => false
  else if m.cmd = "/b_setn" then
    match a with | b :: r => b.isInt && countedOk Arg.isInt none r | _ => false
  else if m.cmd = "/b_fill" then
    match a with | b :: r => b.isInt && rep3 Arg.isInt Arg.isInt Arg.isNum r | _ => false
  else if m.cmd = "/b_get" then
    match a with | b :: r => b.isInt && rep1 Arg.isInt r | _ => false
  else if m.cmd = "/b_getn" then
    match a with | b :: r => b.isInt && rep2 Arg.isInt Arg.isInt r | _ => false
  else if m.cmd = "/b_gen" then
    match a with | b :: .atom (.str gen) :: r => b.isInt && bGenOk gen r | _ => false
  else if m.cmd = "/c_set" then rep2 Arg.isInt Arg.isNum a
  else if m.cmd = "/c_setn" then countedOk Arg.isInt none a
  else if m.cmd = "/c_fill" then rep3 Arg.isInt Arg.isInt Arg.isNum a
  else if m.cmd = "/c_get" then rep1 Arg.isInt a
  else if m.cmd = "/c_getn" then rep2 Arg.isInt Arg.isInt a
  else false

/-! ### what the caller must supply for the reference to be satisfiable -/

/-- a value that converts to ONE int on the wire -/
def Val.isIntLike (c : Core) : Val → Bool
  | .int _ => true
  | .bus h => (c.buses[h]?.bind (·.index)).isSome
  | .buf h => (c.bufs[h]?.bind (·.bufnum)).isSome
  | .node h => (c.nodes[h]?).isSome
  | _ => false

/-- a scalar number -/
def Val.isNumLike (c : Core) : Val → Bool
  | .flt _ => true
  | v => v.isIntLike c

/-- control name or index -/
def Val.isCtlLike : Val → Bool
  | .int _ => true
  | .str _ => true
  | _ => false

mutual
/-- a control value: number, bus/buffer/node object, map symbol of a live bus, or a (nested)
    list of such values -/
def Val.isValue (c : Core) : Val → Bool
  | .list l => Val.allValues c l
  | .msym h => match c.buses[h]?.bind (·.index) with | Option.some i => decide (0 ≤ i) | Option.none => false
  | .int _ => true
  | .flt _ => true
  | .bus h => (c.buses[h]?.bind (·.index)).isSome
  | .buf h => (c.bufs[h]?.bind (·.bufnum)).isSome
  | .node h => (c.nodes[h]?).isSome
  | _ => false
def Val.allValues (c : Core) : List Val → Bool
  | [] => true
  | v :: vs => Val.isValue c v && Val.allValues c vs
end

/-- alternating control, value -/
def wfPairs (c : Core) : List Val → Bool
  | [] => true
  | k :: v :: r => k.isCtlLike && v.isValue c && wfPairs c r
  | _ => false

/-- the `args` of `Synth(...)`: `None`, a list/tuple or a dict of control, value pairs -/
def wfSynthArgs (c : Core) : Val → Bool
  | .none => true
  | .list l => wfPairs c l
  | .dict l => wfPairs c l
  | _ => false

/-! ### well-formed flat argument lists -/

def vrep1 (p : Val → Bool) : List Val → Bool
  | [] => true
  | a :: r => p a && vrep1 p r

def vrep2 (p q : Val → Bool) : List Val → Bool
  | [] => true
  | a :: b :: r => p a && q b && vrep2 p q r
  | _ => false

def vrep3 (p q s : Val → Bool) : List Val → Bool
  | [] => true
  | a :: b :: c :: r => p a && q b && s c && vrep3 p q s r
  | _ => false

/-- the bus argument of `mapn`: an int (one channel) or a live bus object -/
def Val.isMnBus (c : Core) : Val → Bool
  | .int _ => true
  | .bus h => match c.buses[h]? with
    | Option.some b => b.index.isSome && b.channels.isSome
    | Option.none => false
  | _ => false

def wfMn (c : Core) : List Val → Bool
  | k :: b :: r => k.isCtlLike && b.isMnBus c && wfMn c r
  | _ => true

/-- the value part of a `setn` pair: a list of numbers or one number -/
def Val.isSetnVal (c : Core) : Val → Bool
  | .list l => vrep1 (Val.isNumLike c) l
  | v => v.isNumLike c

def wfSetn (c : Core) (head : Val → Bool) : List Val → Bool
  | k :: v :: r => head k && v.isSetnVal c && wfSetn c head r
  | _ => true

def wfCpairs (c : Core) : List Val → Bool
  | .int _ :: v :: r => v.isNumLike c && wfCpairs c r
  | _ :: _ :: _ => false
  | _ => true


/-! ### what each client call needs from its caller -/

def actOk (a : Int) : Bool := decide (0 ≤ a ∧ a ≤ 4)

/-- Arguments of the right kinds for the reference to be satisfiable at all (a control NAME where
    a control is expected, numbers where numbers are expected, live buses/buffers as arguments,
    add action of the table).  Nesting depth, list lengths, ids, targets are unrestricted. -/
def Op.wf (c : Core) : Op → Bool
  | .synth _ _ _ act args => actOk act && wfSynthArgs c args
  | .grain _ _ act args => actOk act && wfSynthArgs c args
  | .replace _ _ args _ => wfSynthArgs c args
  | .group _ _ act => actOk act
  | .map _ _ args => vrep2 Val.isCtlLike (Val.isIntLike c) args
  | .mapn _ _ args => wfMn c args
  | .set _ args => wfPairs c args
  | .setn _ args => wfSetn c Val.isCtlLike args
  | .fill _ args => vrep3 Val.isCtlLike (Val.isIntLike c) (Val.isNumLike c) args
  | .release _ t => match t with
    | .none => true
    | .int _ => true
    | .flt _ => true
    | _ => false
  | .sget _ idx => idx.isCtlLike
  | .sgetn _ idx count => idx.isCtlLike && count.isIntLike c
  | .reorder act _ _ => decide (0 ≤ act ∧ act ≤ 3)
  | .cset _ vals => vrep1 (Val.isNumLike c) vals
  | .csetn _ vals => vrep1 (Val.isNumLike c) vals
  | .csetat _ _ vals => vrep1 (Val.isNumLike c) vals
  | .csetnat _ _ vals => vrep1 (Val.isNumLike c) vals
  | .cpairs _ pairs => wfCpairs c pairs
  | .cfill _ value ch => value.isNumLike c && ch.isIntLike c
  | .bfill _ _ _ vals => match vals with
    | v :: r => v.isNumLike c && vrep3 (Val.isIntLike c) (Val.isIntLike c) (Val.isNumLike c) r
    | [] => false
  | .bset _ args => vrep2 (Val.isIntLike c) (Val.isNumLike c) args
  | .bsetn _ args => wfSetn c (Val.isIntLike c) args
  | .bget _ idx => idx.isIntLike c
  | .bgetn _ idx count => idx.isIntLike c && count.isIntLike c
  | .bgen _ cmd args _ _ _ => (cmd == "sine1" || cmd == "cheby") && vrep1 (Val.isNumLike c) args
  | .bsine k _ lists _ _ _ =>
    decide (lists.length = (if k = 0 then 1 else k) ∧ k ≤ 3) && lists.all (vrep1 (Val.isNumLike c))
  | .bnorm _ max _ => max.isNumLike c
  | .balloc h _ =>            -- a Buffer created with `frames=None` cannot be allocated
    match c.bufs[h]? with
    | some b => b.bufnum.isNone || (b.frames.isSome && b.channels.isSome)
    | none => true
  | .bcopy _ _ a b n => a.isIntLike c && b.isIntLike c && n.isIntLike c
  | _ => true

end Sc3Verif.C17
