/-
C17 — helper lemmas.
-/
import Sc3Verif.C17.Spec
namespace Sc3Verif.C17

/-! ### histories -/

/-- an ordinary client call (not `bind` / `end` / `raise`) -/
def Op.plain : Op → Bool
  | .bind => false
  | .endBind => false
  | .raise => false
  | _ => true

/-- the calls one after the other on the core state, without any bind block: what each call
    sends and its status (this is what the "unbound twin" of the harness observes) -/
def Core.runPlain (c : Core) : List Op → Core × List (Status × List Packet)
  | [] => (c, [])
  | op :: ops =>
    let (c', st, ps) := c.stepCore op
    let (c'', rest) := c'.runPlain ops
    (c'', (st, ps) :: rest)

/-- all messages a list of call results carries, in issue order (bundle times dropped) -/
def issued (rs : List (Status × List Packet)) : List Msg := rs.flatMap fun r => collect r.2

theorem run_append (cl : Client) (a b : List Op) :
    (cl.run (a ++ b)).1 = ((cl.run a).1.run b).1 ∧
    (cl.run (a ++ b)).2 = (cl.run a).2 ++ ((cl.run a).1.run b).2 := by
  induction a generalizing cl with
  | nil => simp [Client.run]
  | cons op ops ih =>
    simp only [List.cons_append, Client.run]
    have := ih (cl.step op).1
    exact ⟨this.1, by simp [this.2]⟩

/-- inside one open block (no exception pending), plain calls that do not raise only extend
    the collector: nothing reaches the wire -/
theorem run_plain_in_block (cl : Client) (top : List Msg) (rest : List (List Msg))
    (hs : cl.stack = top :: rest) (hk : cl.skipDepth = 0) (body : List Op)
    (hp : ∀ op ∈ body, op.plain = true)
    (hr : ∀ r ∈ (cl.core.runPlain body).2, r.1.raises = false) :
    let cl' := (cl.run body).1
    cl'.core = (cl.core.runPlain body).1 ∧
    cl'.stack = (top ++ issued (cl.core.runPlain body).2) :: rest ∧
    cl'.skipDepth = 0 ∧ cl'.wire = cl.wire ∧
    (cl.run body).2 = (cl.core.runPlain body).2.map fun r => (r.1, []) := by
  induction body generalizing cl top with
  | nil => simp [Client.run, Core.runPlain, issued, hs, hk]
  | cons op ops ih =>
    have hpl := hp op (by simp)
    simp only [Core.runPlain, List.mem_cons, forall_eq_or_imp] at hr
    obtain ⟨hr1, hr2⟩ := hr
    have hstep : cl.step op =
        ({ cl with core := (cl.core.stepCore op).1,
                   stack := (top ++ collect (cl.core.stepCore op).2.2) :: rest },
         (cl.core.stepCore op).2.1, []) := by
      unfold Client.step
      rw [if_neg (by omega)]
      cases op <;> simp [Op.plain] at hpl <;> simp [hs, hr1]
    simp only [Client.run, hstep]
    have := ih { cl with core := (cl.core.stepCore op).1,
                         stack := (top ++ collect (cl.core.stepCore op).2.2) :: rest }
      (top ++ collect (cl.core.stepCore op).2.2) rfl hk
      (fun o ho => hp o (by simp [ho])) hr2
    simp only at this
    obtain ⟨h1, h2, h3, h4, h5⟩ := this
    refine ⟨h1, ?_, h3, h4, ?_⟩
    · rw [h2]; simp [issued, Core.runPlain, List.append_assoc]
    · simp [h5, Core.runPlain]

/-- outside any block every call sends at once, exactly what `runPlain` says -/
theorem run_plain_top (cl : Client) (hs : cl.stack = []) (hk : cl.skipDepth = 0) (body : List Op)
    (hp : ∀ op ∈ body, op.plain = true) :
    let cl' := (cl.run body).1
    cl'.core = (cl.core.runPlain body).1 ∧ cl'.stack = [] ∧ cl'.skipDepth = 0 ∧
    cl'.wire = cl.wire ++ (cl.core.runPlain body).2.flatMap (·.2) ∧
    (cl.run body).2 = (cl.core.runPlain body).2 := by
  induction body generalizing cl with
  | nil => simp [Client.run, Core.runPlain, hs, hk]
  | cons op ops ih =>
    have hpl := hp op (by simp)
    have hstep : cl.step op =
        ({ cl with core := (cl.core.stepCore op).1, wire := cl.wire ++ (cl.core.stepCore op).2.2 },
         (cl.core.stepCore op).2.1, (cl.core.stepCore op).2.2) := by
      unfold Client.step
      rw [if_neg (by omega)]
      cases op <;> simp [Op.plain] at hpl <;> simp [hs]
    simp only [Client.run, hstep]
    have := ih { cl with core := (cl.core.stepCore op).1, wire := cl.wire ++ (cl.core.stepCore op).2.2 }
      hs hk (fun o ho => hp o (by simp [ho]))
    simp only at this
    obtain ⟨h1, h2, h3, h4, h5⟩ := this
    refine ⟨h1, h2, h3, ?_, ?_⟩
    · rw [h4]; simp [Core.runPlain, List.append_assoc]
    · simp [h5, Core.runPlain]

/-- while an exception is propagating, plain calls are not executed at all -/
theorem run_plain_skipping (cl : Client) (hk : 0 < cl.skipDepth) (body : List Op)
    (hp : ∀ op ∈ body, op.plain = true) :
    (cl.run body).1 = cl ∧ (cl.run body).2 = body.map fun _ => (Status.skipped, []) := by
  induction body generalizing cl with
  | nil => simp [Client.run]
  | cons op ops ih =>
    have hpl := hp op (by simp)
    have hstep : cl.step op = (cl, .skipped, []) := by
      unfold Client.step
      rw [if_pos hk]
      cases op <;> simp [Op.plain] at hpl <;> rfl
    simp only [Client.run, hstep]
    have := ih cl hk (fun o ho => hp o (by simp [ho]))
    exact ⟨this.1, by simp [this.2]⟩

/-- the packets of a finished top-level block: one bundle at the server latency, or nothing
    if no message was issued -/
def bundleOf (lat : Option Rat) (ms : List Msg) : List Packet :=
  if ms.isEmpty then [] else [.bundle lat ms]

end Sc3Verif.C17
