/-
C17 — helper lemmas.
-/
import Sc3Verif.C17.Spec
import Sc3Verif.C16.Lemmas
namespace Sc3Verif.C17

/-! ### histories -/

/-- an ordinary client call (not `bind` / `end` / `raise`) -/
def Op.plain : Op → Bool
  | .bind => false
  | .endBind => false
  | .raise => false
  | .sync => false
  | _ => true

/-- the calls one after the other on the core state, without any bind block: what each call
    sends and its status (this is what the "unbound twin" of the harness observes) -/
def Core.runPlain (c : Core) : List Op → Core × List (Status × List Packet)
  | [] => (c, [])
  | op :: ops =>
    let (c', st, ps) := c.stepCore op
    let (c'', rest) := c'.runPlain ops
    (c'', (st, ps) :: rest)

/-- all messages a list of call results carries, in issue order (bundle times dropped) -/
def issued (rs : List (Status × List Packet)) : List Msg := rs.flatMap fun r => collect r.2

theorem run_append (cl : Client) (a b : List Op) :
    (cl.run (a ++ b)).1 = ((cl.run a).1.run b).1 ∧
    (cl.run (a ++ b)).2 = (cl.run a).2 ++ ((cl.run a).1.run b).2 := by
  induction a generalizing cl with
  | nil => simp [Client.run]
  | cons op ops ih =>
    simp only [List.cons_append, Client.run]
    have := ih (cl.step op).1
    exact ⟨this.1, by simp [this.2]⟩

/-- inside one open block (no exception pending), plain calls that do not raise only extend
    the collector: nothing reaches the wire -/
theorem run_plain_in_block (cl : Client) (top : List Msg) (rest : List (List Msg))
    (hs : cl.stack = top :: rest) (hk : cl.skipDepth = 0) (body : List Op)
    (hp : ∀ op ∈ body, op.plain = true)
    (hr : ∀ r ∈ (cl.core.runPlain body).2, r.1.raises = false) :
    let cl' := (cl.run body).1
    cl'.core = (cl.core.runPlain body).1 ∧
    cl'.stack = (top ++ issued (cl.core.runPlain body).2) :: rest ∧
    cl'.skipDepth = 0 ∧ cl'.wire = cl.wire ∧
    (cl.run body).2 = (cl.core.runPlain body).2.map fun r => (r.1, []) := by
  induction body generalizing cl top with
  | nil => simp [Client.run, Core.runPlain, issued, hs, hk]
  | cons op ops ih =>
    have hpl := hp op (by simp)
    simp only [Core.runPlain, List.mem_cons, forall_eq_or_imp] at hr
    obtain ⟨hr1, hr2⟩ := hr
    have hstep : cl.step op =
        ({ cl with core := (cl.core.stepCore op).1,
                   stack := (top ++ collect (cl.core.stepCore op).2.2) :: rest },
         (cl.core.stepCore op).2.1, []) := by
      unfold Client.step
      rw [if_neg (by omega)]
      cases op <;> simp [Op.plain] at hpl <;> simp [hs, hr1]
    simp only [Client.run, hstep]
    have := ih { cl with core := (cl.core.stepCore op).1,
                         stack := (top ++ collect (cl.core.stepCore op).2.2) :: rest }
      (top ++ collect (cl.core.stepCore op).2.2) rfl hk
      (fun o ho => hp o (by simp [ho])) hr2
    simp only at this
    obtain ⟨h1, h2, h3, h4, h5⟩ := this
    refine ⟨h1, ?_, h3, h4, ?_⟩
    · rw [h2]; simp [issued, Core.runPlain, List.append_assoc]
    · simp [h5, Core.runPlain]

/-- outside any block every call sends at once, exactly what `runPlain` says -/
theorem run_plain_top (cl : Client) (hs : cl.stack = []) (hk : cl.skipDepth = 0) (body : List Op)
    (hp : ∀ op ∈ body, op.plain = true) :
    let cl' := (cl.run body).1
    cl'.core = (cl.core.runPlain body).1 ∧ cl'.stack = [] ∧ cl'.skipDepth = 0 ∧
    cl'.wire = cl.wire ++ (cl.core.runPlain body).2.flatMap (·.2) ∧
    (cl.run body).2 = (cl.core.runPlain body).2 := by
  induction body generalizing cl with
  | nil => simp [Client.run, Core.runPlain, hs, hk]
  | cons op ops ih =>
    have hpl := hp op (by simp)
    have hstep : cl.step op =
        ({ cl with core := (cl.core.stepCore op).1, wire := cl.wire ++ (cl.core.stepCore op).2.2 },
         (cl.core.stepCore op).2.1, (cl.core.stepCore op).2.2) := by
      unfold Client.step
      rw [if_neg (by omega)]
      cases op <;> simp [Op.plain] at hpl <;> simp [hs]
    simp only [Client.run, hstep]
    have := ih { cl with core := (cl.core.stepCore op).1, wire := cl.wire ++ (cl.core.stepCore op).2.2 }
      hs hk (fun o ho => hp o (by simp [ho]))
    simp only at this
    obtain ⟨h1, h2, h3, h4, h5⟩ := this
    refine ⟨h1, h2, h3, ?_, ?_⟩
    · rw [h4]; simp [Core.runPlain, List.append_assoc]
    · simp [h5, Core.runPlain]

/-- while an exception is propagating, plain calls are not executed at all -/
theorem run_plain_skipping (cl : Client) (hk : 0 < cl.skipDepth) (body : List Op)
    (hp : ∀ op ∈ body, op.plain = true) :
    (cl.run body).1 = cl ∧ (cl.run body).2 = body.map fun _ => (Status.skipped, []) := by
  induction body generalizing cl with
  | nil => simp [Client.run]
  | cons op ops ih =>
    have hpl := hp op (by simp)
    have hstep : cl.step op = (cl, .skipped, []) := by
      unfold Client.step
      rw [if_pos hk]
      cases op <;> simp [Op.plain] at hpl <;> rfl
    simp only [Client.run, hstep]
    have := ih cl hk (fun o ho => hp o (by simp [ho]))
    exact ⟨this.1, by simp [this.2]⟩

/-- the packets of a finished top-level block: one bundle at the server latency, or nothing
    if no message was issued -/
def bundleOf (lat : Option Rat) (ms : List Msg) : List Packet :=
  if ms.isEmpty then [] else [.bundle lat ms]

/-! ### control values: `embed` produces one grammatical value -/

theorem pairsOk_atom_inArr {a : Arg} (h : a.isValAtom = true) (d : Nat) (r : List Arg) :
    pairsOk (some (d + 1)) (a :: r) = pairsOk (some (d + 1)) r := by
  cases a with
  | atom x => simp [pairsOk, h]
  | «open» => simp [Arg.isValAtom] at h
  | close => simp [Arg.isValAtom] at h
  | msg m => simp [Arg.isValAtom] at h

mutual
theorem embed_inArr (c : Core) : ∀ (v : Val) (as : List Arg), Val.isValue c v = true → embed c v = some as →
    ∀ (d : Nat) (r : List Arg), pairsOk (some (d + 1)) (as ++ r) = pairsOk (some (d + 1)) r
  | .list l, as, hv, he, d, r => by
    simp only [embed, bind, Option.bind] at he
    cases hl : embedL c l with
    | none => simp [hl] at he
    | some x =>
      simp only [hl, pure, Option.some.injEq] at he
      subst he
      have := embedL_inArr c l x (by simpa [Val.isValue] using hv) hl (d + 1) (Arg.close :: r)
      simp only [List.cons_append, List.append_assoc, List.nil_append]
      rw [show pairsOk (some (d + 1)) (Arg.open :: (x ++ Arg.close :: r)) = pairsOk (some (d + 2)) (x ++ Arg.close :: r) by
        simp [pairsOk]]
      rw [this]
      simp [pairsOk]
  | .dict l, as, hv, he, d, r => by simp [Val.isValue] at hv
  | .int i, as, hv, he, d, r => by
    simp only [embed, Option.some.injEq] at he; subst he
    exact pairsOk_atom_inArr rfl d r
  | .flt q, as, hv, he, d, r => by
    simp only [embed, Option.some.injEq] at he; subst he
    exact pairsOk_atom_inArr rfl d r
  | .str s, as, hv, he, d, r => by simp [Val.isValue] at hv
  | .none, as, hv, he, d, r => by simp [Val.isValue] at hv
  | .tt, as, hv, he, d, r => by simp [Val.isValue] at hv
  | .ff, as, hv, he, d, r => by simp [Val.isValue] at hv
  | .bus h, as, hv, he, d, r => by
    simp only [embed, bind, Option.bind] at he
    cases hb : c.buses[h]? with
    | none => simp [hb] at he
    | some b =>
      cases hi : b.index with
      | none => simp [hb, hi] at he
      | some i =>
        simp only [hb, hi, pure, Option.some.injEq] at he; subst he
        exact pairsOk_atom_inArr rfl d r
  | .buf h, as, hv, he, d, r => by
    simp only [embed, bind, Option.bind] at he
    cases hb : c.bufs[h]? with
    | none => simp [hb] at he
    | some b =>
      cases hi : b.bufnum with
      | none => simp [hb, hi] at he
      | some i =>
        simp only [hb, hi, pure, Option.some.injEq] at he; subst he
        exact pairsOk_atom_inArr rfl d r
  | .node h, as, hv, he, d, r => by
    simp only [embed, bind, Option.bind] at he
    cases hb : c.nodes[h]? with
    | none => simp [hb] at he
    | some b =>
      simp only [hb, pure, Option.some.injEq] at he; subst he
      exact pairsOk_atom_inArr rfl d r
  | .msym h, as, hv, he, d, r => by
    simp only [embed, bind, Option.bind] at he
    cases hb : c.buses[h]? with
    | none => simp [hb] at he
    | some b =>
      cases hi : b.index with
      | none => simp [hb, hi] at he
      | some i =>
        simp only [hb, hi, pure, Option.some.injEq] at he; subst he
        have : (0 : Int) ≤ i := by simpa [Val.isValue, hb, hi] using hv
        exact pairsOk_atom_inArr (by simp [Arg.isValAtom, this]) d r
theorem embedL_inArr (c : Core) : ∀ (l : List Val) (as : List Arg), Val.allValues c l = true →
    embedL c l = some as →
    ∀ (d : Nat) (r : List Arg), pairsOk (some (d + 1)) (as ++ r) = pairsOk (some (d + 1)) r
  | [], as, hv, he, d, r => by
    simp only [embedL, Option.some.injEq] at he; subst he; rfl
  | v :: vs, as, hv, he, d, r => by
    simp only [embedL, bind, Option.bind] at he
    cases h1 : embed c v with
    | none => simp [h1] at he
    | some a =>
      cases h2 : embedL c vs with
      | none => simp [h1, h2] at he
      | some b =>
        simp only [h1, h2, pure, Option.some.injEq] at he; subst he
        simp only [Val.allValues, Bool.and_eq_true] at hv
        rw [List.append_assoc, embed_inArr c v a hv.1 h1 d (b ++ r), embedL_inArr c vs b hv.2 h2 d r]
end

theorem embed_scalar_or_array (c : Core) (v : Val) (as : List Arg) (hv : Val.isValue c v = true)
    (he : embed c v = some as) :
    (∃ a, as = [a] ∧ a.isValAtom = true) ∨
    (∃ l x, v = .list l ∧ Val.allValues c l = true ∧ embedL c l = some x ∧ as = Arg.open :: x ++ [Arg.close]) := by
  cases v with
  | list l =>
    right
    simp only [embed, bind, Option.bind] at he
    cases hl : embedL c l with
    | none => simp [hl] at he
    | some x =>
      simp only [hl, pure, Option.some.injEq] at he
      exact ⟨l, x, rfl, by simpa [Val.isValue] using hv, hl, he.symm⟩
  | dict l => simp [Val.isValue] at hv
  | int i => left; simp only [embed, Option.some.injEq] at he; exact ⟨_, he.symm, rfl⟩
  | flt q => left; simp only [embed, Option.some.injEq] at he; exact ⟨_, he.symm, rfl⟩
  | str s => simp [Val.isValue] at hv
  | none => simp [Val.isValue] at hv
  | tt => simp [Val.isValue] at hv
  | ff => simp [Val.isValue] at hv
  | bus h =>
    left
    simp only [embed, bind, Option.bind] at he
    cases hb : c.buses[h]? with
    | none => simp [hb] at he
    | some b =>
      cases hi : b.index with
      | none => simp [hb, hi] at he
      | some i => simp only [hb, hi, pure, Option.some.injEq] at he; exact ⟨_, he.symm, rfl⟩
  | buf h =>
    left
    simp only [embed, bind, Option.bind] at he
    cases hb : c.bufs[h]? with
    | none => simp [hb] at he
    | some b =>
      cases hi : b.bufnum with
      | none => simp [hb, hi] at he
      | some i => simp only [hb, hi, pure, Option.some.injEq] at he; exact ⟨_, he.symm, rfl⟩
  | node h =>
    left
    simp only [embed, bind, Option.bind] at he
    cases hb : c.nodes[h]? with
    | none => simp [hb] at he
    | some b => simp only [hb, pure, Option.some.injEq] at he; exact ⟨_, he.symm, rfl⟩
  | msym h =>
    left
    simp only [embed, bind, Option.bind] at he
    cases hb : c.buses[h]? with
    | none => simp [hb] at he
    | some b =>
      cases hi : b.index with
      | none => simp [hb, hi] at he
      | some i =>
        simp only [hb, hi, pure, Option.some.injEq] at he
        have : (0 : Int) ≤ i := by simpa [Val.isValue, hb, hi] using hv
        exact ⟨_, he.symm, by simp [Arg.isValAtom, this]⟩

/-- a value in value position completes a `(control, value)` pair -/
theorem embed_value_top (c : Core) (v : Val) (as : List Arg) (hv : Val.isValue c v = true)
    (he : embed c v = some as) (r : List Arg) :
    pairsOk (some 0) (as ++ r) = pairsOk none r := by
  rcases embed_scalar_or_array c v as hv he with ⟨a, rfl, ha⟩ | ⟨l, x, rfl, hl, hx, rfl⟩
  · simp [pairsOk, ha]
  · have := embedL_inArr c l x hl hx 0 (Arg.close :: r)
    simp only [List.cons_append, List.append_assoc, List.nil_append, pairsOk]
    simp only [Arg.isValAtom, Bool.false_eq_true, if_false]
    rw [show (0 : Nat) + 1 = 1 from rfl] at this
    rw [this]
    simp [pairsOk]

/-- control names: `embed` of an int or a string is that scalar, a control token -/
theorem embed_ctl (c : Core) (k : Val) (hk : k.isCtlLike = true) :
    ∃ a, embed c k = some [a] ∧ a.isCtl = true := by
  cases k <;> simp [Val.isCtlLike] at hk
  · exact ⟨_, rfl, rfl⟩
  · exact ⟨_, rfl, rfl⟩

/-- MAIN lemma of the argument conversion: a well-formed list of (control, value) pairs — values
    nested to any depth — flattens to a grammatical `N * (control, value)` argument list -/
theorem embedL_pairs (c : Core) : ∀ (l : List Val) (as : List Arg), wfPairs c l = true →
    embedL c l = some as → pairsOk none as = true
  | [], as, _, he => by simp only [embedL, Option.some.injEq] at he; subst he; rfl
  | [_], _, hw, _ => by simp [wfPairs] at hw
  | k :: v :: rest, as, hw, he => by
    simp only [wfPairs, Bool.and_eq_true] at hw
    obtain ⟨⟨hk, hv⟩, hrest⟩ := hw
    obtain ⟨a, hka, hac⟩ := embed_ctl c k hk
    simp only [embedL, bind, Option.bind, hka] at he
    cases h1 : embed c v with
    | none => simp [h1] at he
    | some x =>
      cases h2 : embedL c rest with
      | none => simp [h1, h2] at he
      | some y =>
        simp only [h1, h2, pure, Option.some.injEq] at he
        subst he
        simp only [List.singleton_append, pairsOk, hac, Bool.true_and]
        rw [embed_value_top c v x hv h1 y]
        exact embedL_pairs c rest y hrest h2


/-! ### flat argument lists (`_as_control_input` element-wise) -/

theorem ctlInputs_nil (c : Core) : ctlInputs c [] = some [] := rfl

theorem ctlInputs_cons {c : Core} {v : Val} {vs : List Val} {as : List Arg}
    (h : ctlInputs c (v :: vs) = some as) :
    ∃ a r, atomArg c v = some a ∧ ctlInputs c vs = some r ∧ as = a :: r := by
  simp only [ctlInputs, List.mapM_cons, bind, Option.bind] at h
  cases h1 : atomArg c v with
  | none => simp [h1] at h
  | some a =>
    cases h2 : List.mapM (atomArg c) vs with
    | none => simp [h1, h2] at h
    | some r =>
      simp only [h1, h2, pure, Option.some.injEq] at h
      exact ⟨a, r, rfl, h2, h.symm⟩

theorem atomArg_intLike {c : Core} {v : Val} {a : Arg} (hv : v.isIntLike c = true)
    (h : atomArg c v = some a) : a.isInt = true := by
  cases v <;> simp [Val.isIntLike] at hv <;> simp only [atomArg, bind, Option.bind] at h
  · simp only [Option.some.injEq] at h; subst h; rfl
  · cases hb : c.buses[‹Nat›]? with
    | none => simp [hb] at h
    | some b => cases hi : b.index with
      | none => simp [hb, hi] at h
      | some i => simp only [hb, hi, pure, Option.some.injEq] at h; subst h; rfl
  · cases hb : c.bufs[‹Nat›]? with
    | none => simp [hb] at h
    | some b => cases hi : b.bufnum with
      | none => simp [hb, hi] at h
      | some i => simp only [hb, hi, pure, Option.some.injEq] at h; subst h; rfl
  · cases hb : c.nodes[‹Nat›]? with
    | none => simp [hb] at h
    | some b => simp only [hb, pure, Option.some.injEq] at h; subst h; rfl

theorem Arg.isInt_isNum {a : Arg} (h : a.isInt = true) : a.isNum = true := by
  cases a with
  | atom x => cases x <;> simp [Arg.isInt] at h <;> rfl
  | _ => simp [Arg.isInt] at h

theorem Arg.isInt_isCtl {a : Arg} (h : a.isInt = true) : a.isCtl = true := by
  cases a with
  | atom x => cases x <;> simp [Arg.isInt] at h <;> rfl
  | _ => simp [Arg.isInt] at h

theorem Arg.isInt_isFlag {a : Arg} (h : a.isInt = true) : a.isFlag = true := by
  cases a with
  | atom x => cases x <;> simp [Arg.isInt] at h <;> rfl
  | _ => simp [Arg.isInt] at h

theorem atomArg_numLike {c : Core} {v : Val} {a : Arg} (hv : v.isNumLike c = true)
    (h : atomArg c v = some a) : a.isNum = true := by
  by_cases hf : ∃ q, v = .flt q
  · obtain ⟨q, rfl⟩ := hf
    simp only [atomArg, Option.some.injEq] at h; subst h; rfl
  · have : v.isIntLike c = true := by
      cases v <;> simp_all [Val.isNumLike]
    exact Arg.isInt_isNum (atomArg_intLike this h)

theorem atomArg_ctlLike {c : Core} {v : Val} {a : Arg} (hv : v.isCtlLike = true)
    (h : atomArg c v = some a) : a.isCtl = true := by
  cases v <;> simp [Val.isCtlLike] at hv <;> simp only [atomArg, Option.some.injEq] at h <;> subst h <;> rfl

/-- class preservation lifted to repetitions -/
theorem rep1_of_vrep1 {c : Core} {p : Val → Bool} {P : Arg → Bool}
    (hp : ∀ v a, p v = true → atomArg c v = some a → P a = true) :
    ∀ (vs : List Val) (as : List Arg), vrep1 p vs = true → ctlInputs c vs = some as → rep1 P as = true
  | [], as, _, h => by simp only [ctlInputs_nil, Option.some.injEq] at h; subst h; rfl
  | v :: vs, as, hw, h => by
    obtain ⟨a, r, h1, h2, rfl⟩ := ctlInputs_cons h
    simp only [vrep1, Bool.and_eq_true] at hw
    simp only [rep1, hp v a hw.1 h1, Bool.true_and]
    exact rep1_of_vrep1 hp vs r hw.2 h2

theorem rep2_of_vrep2 {c : Core} {p q : Val → Bool} {P Q : Arg → Bool}
    (hp : ∀ v a, p v = true → atomArg c v = some a → P a = true)
    (hq : ∀ v a, q v = true → atomArg c v = some a → Q a = true) :
    ∀ (vs : List Val) (as : List Arg), vrep2 p q vs = true → ctlInputs c vs = some as → rep2 P Q as = true
  | [], as, _, h => by simp only [ctlInputs_nil, Option.some.injEq] at h; subst h; rfl
  | [_], _, hw, _ => by simp [vrep2] at hw
  | v :: w :: vs, as, hw, h => by
    obtain ⟨a, r, h1, h2, rfl⟩ := ctlInputs_cons h
    obtain ⟨b, r', h3, h4, rfl⟩ := ctlInputs_cons h2
    simp only [vrep2, Bool.and_eq_true] at hw
    simp only [rep2, hp v a hw.1.1 h1, hq w b hw.1.2 h3, Bool.true_and]
    exact rep2_of_vrep2 hp hq vs r' hw.2 h4

theorem rep3_of_vrep3 {c : Core} {p q s : Val → Bool} {P Q S : Arg → Bool}
    (hp : ∀ v a, p v = true → atomArg c v = some a → P a = true)
    (hq : ∀ v a, q v = true → atomArg c v = some a → Q a = true)
    (hs : ∀ v a, s v = true → atomArg c v = some a → S a = true) :
    ∀ (vs : List Val) (as : List Arg), vrep3 p q s vs = true → ctlInputs c vs = some as →
      rep3 P Q S as = true
  | [], as, _, h => by simp only [ctlInputs_nil, Option.some.injEq] at h; subst h; rfl
  | [_], _, hw, _ => by simp [vrep3] at hw
  | [_, _], _, hw, _ => by simp [vrep3] at hw
  | v :: w :: x :: vs, as, hw, h => by
    obtain ⟨a, r, h1, h2, rfl⟩ := ctlInputs_cons h
    obtain ⟨b, r', h3, h4, rfl⟩ := ctlInputs_cons h2
    obtain ⟨d, r'', h5, h6, rfl⟩ := ctlInputs_cons h4
    simp only [vrep3, Bool.and_eq_true] at hw
    simp only [rep3, hp v a hw.1.1.1 h1, hq w b hw.1.1.2 h3, hs x d hw.1.2 h5, Bool.true_and]
    exact rep3_of_vrep3 hp hq hs vs r'' hw.2 h6

/-! ### `(control, bus)` pairs of mapn / mapan -/

theorem mnBus_ok {c : Core} {b : Val} {x : Arg × Arg} (hb : b.isMnBus c = true) (h : mnBus c b = some x) :
    x.1.isInt = true ∧ x.2.isInt = true := by
  cases b <;> simp [Val.isMnBus] at hb
  · simp only [mnBus, Option.some.injEq] at h; subst h; exact ⟨rfl, rfl⟩
  · rename_i hh
    simp only [mnBus, bind, Option.bind] at h
    cases hbus : c.buses[hh]? with
    | none => simp [hbus] at h
    | some bo =>
      cases hi : bo.index with
      | none => simp [hbus, hi] at h
      | some i =>
        cases hch : bo.channels with
        | none => simp [hbus, hi, hch] at h
        | some ch => simp only [hbus, hi, hch, pure, Option.some.injEq] at h; subst h; exact ⟨rfl, rfl⟩

theorem mnArgs_ok (c : Core) : ∀ (args : List Val) (as : List Arg), wfMn c args = true →
    mnArgs c args = some as → rep3 Arg.isCtl Arg.isInt Arg.isInt as = true
  | [], as, _, h => by simp only [mnArgs, Option.some.injEq] at h; subst h; rfl
  | [_], as, _, h => by simp only [mnArgs, Option.some.injEq] at h; subst h; rfl
  | k :: b :: r, as, hw, h => by
    simp only [wfMn, Bool.and_eq_true] at hw
    obtain ⟨⟨hk, hb⟩, hr⟩ := hw
    simp only [mnArgs, bind, Option.bind] at h
    cases hc : atomArg c k with
    | none => simp [hc] at h
    | some ctl =>
      cases hx : mnBus c b with
      | none => simp [hc, hx] at h
      | some x =>
        cases hrest : mnArgs c r with
        | none => simp [hc, hx, hrest] at h
        | some rest =>
          simp only [hc, hx, hrest, pure, Option.some.injEq] at h; subst h
          have := mnBus_ok hb hx
          simp only [rep3, atomArg_ctlLike hk hc, this.1, this.2, Bool.true_and]
          exact mnArgs_ok c r rest hr hrest

/-! ### counted groups of setn -/

theorem counted_some0 (h : Arg → Bool) (l : List Arg) : countedOk h (some 0) l = countedOk h none l := by
  cases l with
  | nil => rfl
  | cons a r =>
    cases r with
    | nil => simp [countedOk]
    | cons b r' => cases b with
      | atom x => cases x <;> simp [countedOk]
      | _ => simp [countedOk]

theorem counted_nums (h : Arg → Bool) : ∀ (vs : List Arg) (rest : List Arg),
    (∀ a ∈ vs, a.isNum = true) → countedOk h (some vs.length) (vs ++ rest) = countedOk h none rest
  | [], rest, _ => counted_some0 h rest
  | v :: vs, rest, hv => by
    simp only [List.length_cons, List.cons_append, countedOk, hv v (by simp), Bool.true_and]
    exact counted_nums h vs rest (fun a ha => hv a (by simp [ha]))

theorem ctlInputs_nums {c : Core} : ∀ (l : List Val) (vs : List Arg), vrep1 (Val.isNumLike c) l = true →
    ctlInputs c l = some vs → vs.length = l.length ∧ ∀ a ∈ vs, a.isNum = true
  | [], vs, _, h => by simp only [ctlInputs_nil, Option.some.injEq] at h; subst h; simp
  | v :: l, vs, hw, h => by
    obtain ⟨a, r, h1, h2, rfl⟩ := ctlInputs_cons h
    simp only [vrep1, Bool.and_eq_true] at hw
    have := ctlInputs_nums l r hw.2 h2
    refine ⟨by simp [this.1], ?_⟩
    intro x hx
    rcases List.mem_cons.mp hx with rfl | hx
    · exact atomArg_numLike hw.1 h1
    · exact this.2 x hx

/-- a `setn` value becomes `n, v₁ … vₙ` -/
theorem setnVal_ok {c : Core} {v : Val} {xs : List Arg} (hv : v.isSetnVal c = true)
    (h : setnVal c v = some xs) :
    ∃ (n : Nat) (vs : List Arg), xs = ai n :: vs ∧ vs.length = n ∧ ∀ a ∈ vs, a.isNum = true := by
  by_cases hl : ∃ l, v = .list l
  · obtain ⟨l, rfl⟩ := hl
    simp only [setnVal, bind, Option.bind] at h
    cases hm : l.mapM (atomArg c) with
    | none => simp [hm] at h
    | some vs =>
      simp only [hm, pure, Option.some.injEq] at h
      have := ctlInputs_nums l vs (by simpa [Val.isSetnVal] using hv) hm
      exact ⟨l.length, vs, h.symm, this.1, this.2⟩
  · have hnum : v.isNumLike c = true := by cases v <;> simp_all [Val.isSetnVal]
    have hs : setnVal c v = (do let a ← atomArg c v; pure [ai 1, a]) := by
      cases v <;> first | rfl | exact absurd ⟨_, rfl⟩ hl
    rw [hs] at h
    simp only [bind, Option.bind] at h
    cases ha : atomArg c v with
    | none => simp [ha] at h
    | some a =>
      simp only [ha, pure, Option.some.injEq] at h
      refine ⟨1, [a], h.symm, rfl, ?_⟩
      intro x hx; simp at hx; subst hx
      exact atomArg_numLike hnum ha

theorem setnArgs_ok (c : Core) (head : Val → Bool) (H : Arg → Bool)
    (hh : ∀ v a, head v = true → atomArg c v = some a → H a = true) :
    ∀ (args : List Val) (as : List Arg), wfSetn c head args = true →
    setnArgs c args = some as → countedOk H none as = true
  | [], as, _, h => by simp only [setnArgs, Option.some.injEq] at h; subst h; rfl
  | [_], as, _, h => by simp only [setnArgs, Option.some.injEq] at h; subst h; rfl
  | k :: v :: r, as, hw, h => by
    simp only [wfSetn, Bool.and_eq_true] at hw
    obtain ⟨⟨hk, hv⟩, hr⟩ := hw
    simp only [setnArgs, bind, Option.bind] at h
    cases hc : atomArg c k with
    | none => simp [hc] at h
    | some ctl =>
      cases hx : setnVal c v with
      | none => simp [hc, hx] at h
      | some xs =>
        cases hrest : setnArgs c r with
        | none => simp [hc, hx, hrest] at h
        | some rest =>
          simp only [hc, hx, hrest, pure, Option.some.injEq] at h; subst h
          obtain ⟨n, vs, rfl, hlen, hnums⟩ := setnVal_ok hv hx
          have ih := setnArgs_ok c head H hh r rest hr hrest
          simp only [List.cons_append, countedOk, ai, hh k ctl hk hc, Bool.true_and]
          rw [show decide ((0 : Int) ≤ (n : Int)) = true by simp, Bool.true_and]
          rw [show ((n : Int)).toNat = vs.length by simp [hlen]]
          rw [counted_nums H vs rest hnums]
          exact ih

/-! ### indexed values of `/c_set` -/

theorem indexed_ok : ∀ (vs : List Arg) (base : Int), (∀ a ∈ vs, a.isNum = true) →
    rep2 Arg.isInt Arg.isNum (indexed base vs) = true
  | [], _, _ => rfl
  | v :: vs, base, hv => by
    simp only [indexed, rep2, hv v (by simp), Bool.and_true, ai, Arg.isInt, Bool.true_and]
    exact indexed_ok vs (base + 1) (fun a ha => hv a (by simp [ha]))

theorem cpairs_ok (c : Core) (i : Int) : ∀ (l : List Val) (ps : List (Int × Arg)), wfCpairs c l = true →
    cpairsPre c l = some ps →
    rep2 Arg.isInt Arg.isNum (ps.flatMap fun (p : Int × Arg) => [ai (i + p.1), p.2]) = true
  | [], ps, _, h => by simp only [cpairsPre, Option.some.injEq] at h; subst h; rfl
  | [_], ps, _, h => by
    cases ‹Val› <;> simp only [cpairsPre, Option.some.injEq] at h <;> subst h <;> rfl
  | k :: v :: r, ps, hw, h => by
    cases k <;> simp [wfCpairs] at hw
    rename_i o
    simp only [cpairsPre, bind, Option.bind] at h
    cases ha : atomArg c v with
    | none => simp [ha] at h
    | some a =>
      cases hrest : cpairsPre c r with
      | none => simp [ha, hrest] at h
      | some rest =>
        simp only [ha, hrest, pure, Option.some.injEq] at h; subst h
        simp only [List.flatMap_cons, List.cons_append, List.nil_append, rep2, ai, Arg.isInt,
          atomArg_numLike hw.1 ha, Bool.true_and]
        exact cpairs_ok c i r rest hw.2 hrest

/-! ### interleaved partial lists of `/b_gen sine2/sine3` -/

theorem rep1_of_all {P : Arg → Bool} : ∀ (as : List Arg), (∀ a ∈ as, P a = true) → rep1 P as = true
  | [], _ => rfl
  | a :: r, h => by
    simp only [rep1, h a (by simp), Bool.true_and]
    exact rep1_of_all r (fun x hx => h x (by simp [hx]))

theorem rep2_of_all_even {P : Arg → Bool} : ∀ (as : List Arg), (∀ a ∈ as, P a = true) →
    as.length % 2 = 0 → rep2 P P as = true
  | [], _, _ => rfl
  | [_], _, h => by simp at h
  | a :: b :: r, h, hl => by
    simp only [rep2, h a (by simp), h b (by simp), Bool.true_and]
    exact rep2_of_all_even r (fun x hx => h x (by simp [hx])) (by simp at hl; omega)

theorem rep3_of_all_mod3 {P : Arg → Bool} : ∀ (as : List Arg), (∀ a ∈ as, P a = true) →
    as.length % 3 = 0 → rep3 P P P as = true
  | [], _, _ => rfl
  | [_], _, h => by simp at h
  | [_, _], _, h => by simp at h
  | a :: b :: d :: r, h, hl => by
    simp only [rep3, h a (by simp), h b (by simp), h d (by simp), Bool.true_and]
    exact rep3_of_all_mod3 r (fun x hx => h x (by simp [hx])) (by simp at hl; omega)

theorem mem_lace {ls : List (List Arg)} {a : Arg} (h : a ∈ lace ls) : ∃ l ∈ ls, a ∈ l := by
  cases ls with
  | nil => simp [lace] at h
  | cons l rest =>
    cases l with
    | nil => simp [lace] at h
    | cons x xs =>
      simp only [lace, List.mem_flatMap, List.mem_range, List.mem_filterMap] at h
      obtain ⟨i, _, l', hl', he⟩ := h
      exact ⟨l', hl', List.mem_of_getElem? he⟩

theorem length_filterMap_get {L : List (List Arg)} {i : Nat} (h : ∀ x ∈ L, i < x.length) :
    (L.filterMap (·[i]?)).length = L.length := by
  induction L with
  | nil => rfl
  | cons x xs ih =>
    have hx := h x (by simp)
    simp only [List.filterMap_cons, List.getElem?_eq_getElem hx, List.length_cons]
    rw [ih (fun y hy => h y (by simp [hy]))]

theorem length_flatMap_const {α β} {l : List α} {f : α → List β} {k : Nat}
    (h : ∀ x ∈ l, (f x).length = k) : (l.flatMap f).length = l.length * k := by
  induction l with
  | nil => simp
  | cons x xs ih =>
    simp only [List.flatMap_cons, List.length_append, List.length_cons, h x (by simp)]
    rw [ih (fun y hy => h y (by simp [hy]))]
    rw [Nat.add_mul]; omega

theorem length_lace {ls : List (List Arg)} {n : Nat} (h : ∀ l ∈ ls, l.length = n) :
    (lace ls).length = n * ls.length := by
  cases ls with
  | nil => simp [lace]
  | cons l rest =>
    have hl := h l (by simp)
    cases l with
    | nil => simp at hl; subst hl; simp [lace]
    | cons x xs =>
      simp only [lace]
      rw [length_flatMap_const (k := (((x :: xs) :: rest).length))]
      · simp [← hl]
      · intro i hi
        simp only [List.mem_range] at hi
        exact length_filterMap_get (fun y hy => by rw [h y hy, ← hl]; exact hi)


/-! ### shape of what the command helpers send -/

theorem send_msg {c : Core} {cmd : String} {args : List Arg} {p : Packet} {m : Msg}
    (hp : p ∈ (c.send cmd args).2.2) (hm : m ∈ p.msgs) : m = ⟨cmd, args⟩ := by
  simp only [Core.send, List.mem_singleton] at hp
  subst hp
  simpa [Packet.msgs] using hm

theorem nodeCmd_msg {c : Core} {h : Nat} {cmd : String} {args : Option (List Arg)} {p : Packet} {m : Msg}
    (hp : p ∈ (c.nodeCmd h cmd args).2.2) (hm : m ∈ p.msgs) :
    ∃ n a, args = some a ∧ m = ⟨cmd, ai n :: a⟩ := by
  unfold Core.nodeCmd at hp
  split at hp
  · exact ⟨_, _, rfl, send_msg hp hm⟩
  · simp [Core.skip] at hp

theorem kindCmd_msg {c : Core} {h : Nat} {g : Bool} {cmd : String} {args : Option (List Arg)}
    {p : Packet} {m : Msg} (hp : p ∈ (c.kindCmd h g cmd args).2.2) (hm : m ∈ p.msgs) :
    ∃ n a, args = some a ∧ m = ⟨cmd, ai n :: a⟩ := by
  unfold Core.kindCmd at hp
  split at hp
  · split at hp
    · exact ⟨_, _, rfl, send_msg hp hm⟩
    · simp [Core.exc] at hp
  · simp [Core.skip] at hp

theorem cbusCmd_msg {α} {c : Core} {h : Nat} {args : Option α} {f : Int → Int → α → String × List Arg}
    {p : Packet} {m : Msg} (hp : p ∈ (c.cbusCmd h args f).2.2) (hm : m ∈ p.msgs) :
    ∃ i ch a, args = some a ∧ m = ⟨(f i ch a).1, (f i ch a).2⟩ := by
  unfold Core.cbusCmd at hp
  split at hp
  · split at hp
    · simp [Core.exc] at hp
    · split at hp
      · exact ⟨_, _, _, rfl, send_msg hp hm⟩
      · simp [Core.exc] at hp
  · simp [Core.skip] at hp

theorem bufCmd_msg {α} {c : Core} {h : Nat} {args : Option α} {f : Int → α → String × List Arg}
    {p : Packet} {m : Msg} (hp : p ∈ (c.bufCmd h args f).2.2) (hm : m ∈ p.msgs) :
    ∃ i a, args = some a ∧ m = ⟨(f i a).1, (f i a).2⟩ := by
  unfold Core.bufCmd at hp
  split at hp
  · split at hp
    · exact ⟨_, _, rfl, send_msg hp hm⟩
    · simp [Core.exc] at hp
  · simp [Core.skip] at hp

/-- `synthArgs` of well-formed arguments is a grammatical pair list -/
theorem synthArgs_ok {c : Core} {args : Val} {a : List Arg} (hw : wfSynthArgs c args = true)
    (h : synthArgs c args = some a) : pairsOk none a = true := by
  cases args <;> simp [wfSynthArgs] at hw
  · simp only [synthArgs, Option.some.injEq] at h; subst h; rfl
  · exact embedL_pairs c _ a hw (by simpa [synthArgs, oscArgList] using h)
  · exact embedL_pairs c _ a hw (by simpa [synthArgs, oscArgList] using h)

theorem actOk_arg {act : Int} (h : actOk act = true) : (ai act).isAddAction = true := by
  simpa [actOk, Arg.isAddAction, actionIn, ai] using h

theorem mapM_ctlInputs_nums {c : Core} : ∀ (lists : List (List Val)) (ls : List (List Arg)),
    lists.all (vrep1 (Val.isNumLike c)) = true → lists.mapM (ctlInputs c) = some ls →
    ls.length = lists.length ∧ ∀ l ∈ ls, ∀ a ∈ l, a.isNum = true
  | [], ls, _, h => by simp at h; subst h; simp
  | x :: xs, ls, hw, h => by
    simp only [List.mapM_cons, bind, Option.bind] at h
    cases h1 : ctlInputs c x with
    | none => simp [h1] at h
    | some a =>
      cases h2 : xs.mapM (ctlInputs c) with
      | none => simp [h1, h2] at h
      | some r =>
        simp only [h1, h2, pure, Option.some.injEq] at h; subst h
        simp only [List.all_cons, Bool.and_eq_true] at hw
        have ih := mapM_ctlInputs_nums xs r hw.2 h2
        refine ⟨by simp [ih.1], ?_⟩
        intro l hl
        rcases List.mem_cons.mp hl with rfl | hl
        · exact (ctlInputs_nums x l hw.1 h1).2
        · exact ih.2 l hl

theorem ai_isInt (i : Int) : (ai i).isInt = true := rfl

theorem complTail_complArg (cm : Completion) (b : Int) : complTail [complArg cm b] = true := by
  cases cm <;> rfl

theorem boolArg_flag (b : Bool) : (boolArg b).isFlag = true := by cases b <;> rfl

theorem releaseGate_num {t : Val} {g : Arg} (h : releaseGate t = some g) : g.isValAtom = true := by
  cases t with
  | none => simp only [releaseGate, Option.some.injEq] at h; subst h; rfl
  | int i => simp only [releaseGate, Option.some.injEq] at h; subst h; split <;> rfl
  | flt r => simp only [releaseGate, Option.some.injEq] at h; subst h; split <;> rfl
  | _ => simp [releaseGate] at h


/-! ### the buffer allocator under `free_all` -/

section FreeAll
open Sc3Verif.C16 (CBA Block Inv Tiles tiles_mem tiles_start_inj free_inv blocks_eq SameFrame)

theorem tiles_pairwise : ∀ (l : List Block) (lo hi : Nat), Tiles l lo hi →
    l.Pairwise (fun b d => b.start + b.size ≤ d.start)
  | [], _, _, _ => List.Pairwise.nil
  | b :: l, lo, hi, ht => by
    obtain ⟨h1, h2, h3⟩ := ht
    refine List.Pairwise.cons ?_ (tiles_pairwise l _ _ h3)
    intro d hd
    have := tiles_mem h3 hd; omega

/-- freeing a list of distinct used blocks one after the other (the loop of
    `_free_all_buffers`) removes exactly them and keeps the allocator invariant -/
theorem freeBlocks_inv : ∀ (L : List Block) (a : CBA) (bs : List Block), Inv a bs →
    (∀ b ∈ L, b ∈ bs ∧ b.used = true) → L.Pairwise (fun x y => x.start ≠ y.start) →
    ∃ bs', Inv (freeBlocks a L) bs' ∧ SameFrame (freeBlocks a L) a ∧
      ∀ u, u.used = true → (u ∈ bs' ↔ u ∈ bs ∧ ∀ b ∈ L, u.start ≠ b.start)
  | [], a, bs, hi, _, _ => ⟨bs, hi, SameFrame.refl a, fun u _ => by simp⟩
  | b :: L, a, bs, hi, hL, hp => by
    have hb := hL b (by simp)
    have hm := tiles_mem hi.tiles hb.1
    obtain ⟨a1, bs1, e1, hi1, hf1, hu1⟩ := free_inv hi (x := b.start)
    simp only [freeBlocks, e1]
    have hp' := List.pairwise_cons.mp hp
    have hL1 : ∀ d ∈ L, d ∈ bs1 ∧ d.used = true := fun d hd => by
      have := hL d (by simp [hd])
      exact ⟨(hu1 d this.2).mpr ⟨this.1, fun e => hp'.1 d hd e.symm⟩, this.2⟩
    obtain ⟨bs', hi', hf', hu'⟩ := freeBlocks_inv L a1 bs1 hi1 hL1 hp'.2
    refine ⟨bs', hi', hf'.trans hf1, ?_⟩
    intro u hu
    rw [hu' u hu, hu1 u hu]
    simp only [List.mem_cons, forall_eq_or_imp]
    constructor
    · rintro ⟨⟨h1, h2⟩, h3⟩; exact ⟨h1, h2, h3⟩
    · rintro ⟨h1, h2, h3⟩; exact ⟨⟨h1, h2⟩, h3⟩

/-- after the loop over `blocks()` no used block is left -/
theorem freeBlocks_all {a : CBA} {bs : List Block} (hi : Inv a bs) :
    (freeBlocks a a.blocks).blocks = [] ∧ (∃ bs', Inv (freeBlocks a a.blocks) bs') ∧
    SameFrame (freeBlocks a a.blocks) a := by
  have hb := blocks_eq hi.toWInv
  have hp : a.blocks.Pairwise (fun x y => x.start ≠ y.start) := by
    rw [hb]
    apply List.Pairwise.filter
    refine (tiles_pairwise bs _ _ hi.tiles).imp_of_mem ?_
    intro x y hx _ h e
    have := tiles_mem hi.tiles hx
    omega
  have hL : ∀ b ∈ a.blocks, b ∈ bs ∧ b.used = true := by
    intro b hbm
    rw [hb] at hbm
    simpa using List.mem_filter.mp hbm
  obtain ⟨bs', hi', hf', hu'⟩ := freeBlocks_inv a.blocks a bs hi hL hp
  refine ⟨?_, ⟨bs', hi'⟩, hf'⟩
  rw [blocks_eq hi'.toWInv]
  apply List.filter_eq_nil_iff.mpr
  intro u hu huu
  have := (hu' u (by simpa using huu)).mp hu
  have hmem : u ∈ a.blocks := by rw [hb]; exact List.mem_filter.mpr ⟨this.1, huu⟩
  exact this.2 u hmem rfl


end FreeAll

end Sc3Verif.C17
