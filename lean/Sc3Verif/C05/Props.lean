/-
C05 — Logical time in routines is exact and independent of physical jitter.

Property theorems only.  `Reach s₀ s` closes the initial state under BOTH interpreters: any
number of `main.process()` iterations and any real-time environment schedule (`Move`s: physical
time advances by anything ≥ 0, any clock thread looks at its queue at any moment).  A theorem
about all reachable states is therefore a theorem about every `Sched`.
-/
import Sc3Verif.C05.Lemmas
import Sc3Verif.C05.Spec
namespace Sc3Verif.C05

/-- Reachable from `s₀` by any interleaving of NRT iterations and RT environment moves. -/
inductive Reach (s₀ : S) : S → Prop
  | refl : Reach s₀ s₀
  | nrt {s : S} : Reach s₀ s → Reach s₀ s.stepNrt
  | rt {s : S} (now : Rat) (m : Move) : Reach s₀ s → Reach s₀ ((RtS.mk s now).step m).s

theorem reach_runRt {s₀ : S} {r : RtS} (h : Reach s₀ r.s) (ms : List Move) : Reach s₀ (r.run ms).s := by
  induction ms generalizing r with
  | nil => exact h
  | cons m ms ih => exact ih (Reach.rt r.now m h)

theorem reach_runNrt {s₀ s : S} (h : Reach s₀ s) (n : Nat) : Reach s₀ (s.runNrt n) := by
  induction n generalizing s with
  | zero => exact h
  | succ n ih => exact ih (Reach.nrt h)

/-- Programs of the C05 statement: yields with non-negative deltas, logs, sends, spawns, tempo
    changes, stops, seeds and draws (no pause / resume / wait / signal), positive initial tempi. -/
structure PlainProg (prog : Nat → List Act) (tempi : Nat → Rat) : Prop where
  plain : ∀ r, ∀ a ∈ prog r, a.plain = true
  tempoPos : ∀ i, 0 < tempi i

theorem init_wf (prog : Nat → List Act) (tempi : Nat → Rat) (start : Rat) (c0 : Clk)
    (hpos : ∀ i, 0 < tempi i) : (S.init prog tempi start c0).WF := by
  intro i
  simp only [S.init, S.schedNow, S.add, S.setRt]
  exact ⟨hpos i, div_mul_cancel₀ 1 (ne_of_gt (hpos i))⟩

theorem init_exact (prog : Nat → List Act) (tempi : Nat → Rat) (start : Rat) (c0 : Clk)
    (hp : PlainProg prog tempi) : Exact (S.init prog tempi start c0) := by
  unfold S.init
  simp only
  apply exact_add
  · refine ⟨?_, by simp, by simp, ?_, ?_, by simp⟩
    · intro r a ha
      simp only [S.setRt] at ha
      split at ha <;> exact hp.plain _ a (by simpa using ha)
    · intro r; simp only [S.setRt]; split <;> simp
    · intro r; simp only [S.setRt]; split <;> simp
  · simp
  · simp
  · simp [sumY]

theorem stepRt_exact {s : S} (h : Exact s) (now : Rat) (m : Move) :
    Exact ((RtS.mk s now).step m).s := by
  cases m with
  | advance d =>
    simp only [RtS.step]; split
    · exact h
    · exact h
  | run c =>
    simp only [RtS.step]
    cases hc : s.chooseRt c with
    | none => exact h
    | some e =>
      simp only
      split
      · have := argmin_mem hc
        exact exec_exact h (List.mem_filter.mp this).1
      · exact h

theorem stepNrt_exact {s : S} (h : Exact s) : Exact s.stepNrt := by
  unfold S.stepNrt
  cases hc : s.chooseNrt with
  | none => exact h
  | some e => exact exec_exact h (argmin_mem hc)

theorem reach_exact {s₀ s : S} (h0 : Exact s₀) (h : Reach s₀ s) : Exact s := by
  induction h with
  | refl => exact h0
  | nrt _ ih => exact stepNrt_exact ih
  | rt now m _ ih => exact stepRt_exact ih now m

/-- MAIN (`logical_time_exact`).  For every plain program, every start time, and every state
    reachable under ANY environment schedule (any lateness of any clock thread, any order in
    which the threads are served) or any number of NRT iterations: each routine has at most one
    pending wake-up, and it is scheduled at exactly
        (beats at which it was played) + (sum of the deltas it has yielded so far)
    on its clock; the seconds it will read are that beat converted through the tempo in
    force.  The right-hand side mentions neither physical time nor the schedule. -/
theorem logical_time_exact (prog : Nat → List Act) (tempi : Nat → Rat) (start : Rat) (c0 : Clk)
    (hp : PlainProg prog tempi) {s : S} (h : Reach (S.init prog tempi start c0) s) :
    (s.pend.map (·.rid)).Nodup ∧
    ∀ e ∈ s.pend,
      e.beats = Spec.expectedBeats (s.rts e.rid).startBeats (s.rts e.rid).script (s.rts e.rid).pc ∧
      s.secsOf e = Spec.expectedSecs (s.params e.clk) (s.rts e.rid).startBeats (s.rts e.rid).script
                     (s.rts e.rid).pc := by
  have hE := reach_exact (init_exact prog tempi start c0 hp) h
  refine ⟨hE.uniq, fun e he => ?_⟩
  have := hE.exact e he
  exact ⟨this, by unfold S.secsOf Spec.expectedSecs Spec.expectedBeats; rw [this]⟩

theorem reach_traceExact {s₀ s : S} (h0 : Exact s₀) (ht : TraceExact s₀) (h : Reach s₀ s) :
    TraceExact s := by
  induction h with
  | refl => exact ht
  | nrt hr ih =>
    unfold S.stepNrt
    cases hc : _root_.Sc3Verif.C05.S.chooseNrt _ with
    | none => exact ih
    | some e => exact exec_traceExact ih (reach_exact h0 hr) (argmin_mem hc)
  | rt now m hr ih =>
    cases m with
    | advance d => simp only [RtS.step]; split <;> exact ih
    | run c =>
      simp only [RtS.step]
      cases hc : _root_.Sc3Verif.C05.S.chooseRt _ c with
      | none => exact ih
      | some e =>
        simp only
        split
        · exact exec_traceExact ih (reach_exact h0 hr) (List.mem_filter.mp (argmin_mem hc)).1
        · exact ih

/-- `logical_time_exact`, as observed: in the trace of EVERY run of every plain program — NRT, or
    RT under any environment schedule — every resumption event of every routine reads
    `beats = (beats at which it was played) + (sum of the deltas of the yields before the position
    it resumes at)`: for the k-th resumption, start + d₀ + … + d_{k-1}. -/
theorem every_resumption_reads_start_plus_deltas (prog : Nat → List Act) (tempi : Nat → Rat)
    (start : Rat) (c0 : Clk) (hp : PlainProg prog tempi) {s : S}
    (h : Reach (S.init prog tempi start c0) s) (r pc : Nat) (c : Clk) (b t : Rat)
    (hev : Ev.resume r pc c b t ∈ s.trace) :
    b = Spec.expectedBeats (s.rts r).startBeats (s.rts r).script pc := by
  have h0 := init_exact prog tempi start c0 hp
  have ht0 : TraceExact (S.init prog tempi start c0) := by
    refine ⟨h0.noPaused, ?_⟩
    intro r pc c b t hev
    simp [S.init, S.schedNow, S.add, S.setRt] at hev
  exact ((reach_traceExact h0 ht0 h).hist r pc c b t hev).2

/-- What the routine reads when that wake-up is delivered: `exec` logs a `resume` event carrying
    exactly the scheduled beat and its conversion — never the physical time. -/
theorem resume_reads_scheduled_time (s : S) (e : Entry) (hs : (s.rts e.rid).state = .suspended) :
    Ev.resume e.rid (s.rts e.rid).pc e.clk e.beats (s.secsOf e) ∈ (s.exec e).trace := by
  unfold S.exec
  simp only [hs]
  exact runActs_trace_mono _ _ _ _ (by simp [S.emit])

/-- `child_starts_at_parent_time` (also across clocks): `r.play(c)` issued at logical time `t`
    creates a wake-up whose seconds — on whatever clock `c`, at whatever tempo — are exactly `t`,
    and records `secs2beats_c(t)` as the routine's starting beat. -/
theorem child_starts_at_parent_time {s : S} (hwf : s.WF) (r : Nat) (c : Clk)
    (hst : (s.rts r).state = .init ∨ (s.rts r).state = .paused) :
    (∃ e ∈ (s.playNow r c).pend, e.rid = r ∧ e.clk = c) ∧
    (∀ e ∈ (s.playNow r c).pend, e.rid = r → e.clk = c →
        (s.playNow r c).secsOf e = s.mainSecs ∧ e.beats = ((s.playNow r c).rts r).startBeats) := by
  have hnew : (s.playNow r c) =
      (s.setRt r { s.rts r with state := .suspended, startBeats := s.beatsNow c }).schedNow c r := by
    unfold S.playNow; rw [if_pos hst]
  rw [hnew]
  constructor
  · refine ⟨{ clk := c, beats := s.beatsNow c, seq := s.nextSeq, rid := r }, ?_, rfl, rfl⟩
    simp [S.schedNow, S.add]
  · intro e he hr hc
    rcases mem_add he with ⟨_, h2⟩ | h2
    · exact absurd ⟨hc, hr⟩ h2
    · subst h2
      constructor
      · show ((s.params c).beats2secs ((s.params c).secs2beats s.mainSecs)) = s.mainSecs
        exact Tempo.b2s_s2b (hwf.params c) _
      · simp [S.schedNow, add_rts_same]

/-! ### Non-real-time mode: time never runs backwards and ends at the last instant -/

/-- Programs whose deltas are all ≥ 0 (any actions, including pause / resume / wait / signal). -/
def NonNegProg (prog : Nat → List Act) : Prop := ∀ r, NonNeg (prog r)

theorem init_good (prog : Nat → List Act) (tempi : Nat → Rat) (start : Rat) (c0 : Clk)
    (hpos : ∀ i, 0 < tempi i) (hn : NonNegProg prog) : Good (S.init prog tempi start c0) := by
  have hwf := init_wf prog tempi start c0 hpos
  refine ⟨hwf, ?_, ?_⟩
  · intro e he
    simp only [S.init, S.schedNow, S.add, S.setRt, List.filter_nil, List.nil_append,
      List.mem_singleton] at he
    subst he
    have := Tempo.b2s_s2b (hwf.params c0) start
    simp only [S.init, S.schedNow, S.add, S.setRt, S.secsOf, S.beatsNow] at this ⊢
    exact le_of_eq this.symm
  · intro r
    have : ((S.init prog tempi start c0).rts r).script = prog r := by
      simp only [S.init, S.schedNow, S.add, S.setRt]
      repeat' split
      all_goals simp_all
    rw [this]; exact hn r

theorem runNrt_good {s : S} (h : Good s) (n : Nat) : Good (s.runNrt n) := by
  induction n generalizing s with
  | zero => exact h
  | succ n ih => exact ih (stepNrt_good h).1

/-- `nrt_time_monotone`: in `main.process()` the logical time of each executed task is not
    earlier than that of the task executed before it — for every program with non-negative
    deltas and positive tempi, tempo changes included. -/
theorem nrt_time_monotone (prog : Nat → List Act) (tempi : Nat → Rat) (start : Rat) (c0 : Clk)
    (hpos : ∀ i, 0 < tempi i) (hn : NonNegProg prog) (n : Nat) :
    ((S.init prog tempi start c0).runNrt n).mainSecs ≤
      ((S.init prog tempi start c0).runNrt (n + 1)).mainSecs := by
  have hg := runNrt_good (init_good prog tempi start c0 hpos hn) n
  have : ∀ (s : S) (n : Nat), s.runNrt (n + 1) = (s.runNrt n).stepNrt := by
    intro s n
    induction n generalizing s with
    | zero => rfl
    | succ n ih => simp only [S.runNrt] at ih ⊢; exact ih _
  rw [this]
  exact (stepNrt_good hg).2

/-- The time of an executed task is the time it was scheduled for. -/
theorem nrt_step_sets_time {s : S} (h : Good s) {e : Entry} (hc : s.chooseNrt = some e) :
    s.stepNrt.mainSecs = s.secsOf e := by
  obtain ⟨he, hmin⟩ := chooseNrt_min hc
  unfold S.stepNrt; rw [hc]
  exact (exec_good h he hmin).2

/-- `nrt_elapsed_ends_at_last`: `main.elapsed_time()` after `process()` (the logical time of the
    last executed task) is the latest instant any task ran at. -/
theorem nrt_elapsed_ends_at_last (prog : Nat → List Act) (tempi : Nat → Rat) (start : Rat) (c0 : Clk)
    (hpos : ∀ i, 0 < tempi i) (hn : NonNegProg prog) (n k : Nat) (hk : k ≤ n) :
    ((S.init prog tempi start c0).runNrt k).mainSecs ≤
      ((S.init prog tempi start c0).runNrt n).mainSecs := by
  induction n with
  | zero => have : k = 0 := by omega
            subst this; exact le_refl _
  | succ n ih =>
    by_cases h : k = n + 1
    · subst h; exact le_refl _
    · exact le_trans (ih (by omega)) (nrt_time_monotone prog tempi start c0 hpos hn n)

/-- … and while anything is pending, it is not in the past (nothing is ever scheduled before
    the current logical time). -/
theorem nrt_nothing_pending_in_the_past (prog : Nat → List Act) (tempi : Nat → Rat) (start : Rat)
    (c0 : Clk) (hpos : ∀ i, 0 < tempi i) (hn : NonNegProg prog) (n : Nat) :
    ∀ e ∈ ((S.init prog tempi start c0).runNrt n).pend,
      ((S.init prog tempi start c0).runNrt n).mainSecs ≤ ((S.init prog tempi start c0).runNrt n).secsOf e :=
  (runNrt_good (init_good prog tempi start c0 hpos hn) n).future

/-! ### Real time: a task is never woken before its logical time -/

theorem rt_never_early (r : RtS) (c : Clk) :
    r.step (.run c) = r ∨
    ∃ e, r.s.chooseRt c = some e ∧ r.s.secsOf e ≤ r.now ∧ r.step (.run c) = { r with s := r.s.exec e } := by
  simp only [RtS.step]
  cases hc : r.s.chooseRt c with
  | none => left; rfl
  | some e =>
    simp only
    split
    · rename_i h; right; exact ⟨e, rfl, h, rfl⟩
    · left; rfl

/-! ### Non-vacuity -/

/-- root on sys spawns a child on a tempo-2 clock, changes that clock's tempo, both yield. -/
def demoProg : Nat → List Act
  | 0 => [.spawn 1 (.tempo 0), .yield (1/2), .setTempo 0 4, .yield 1, .log]
  | 1 => [.log, .yield 1, .log, .yield 1, .log]
  | _ => []

theorem demo_plain : PlainProg demoProg (fun _ => 2) :=
  ⟨by intro r a ha
      match r with
      | 0 => simp [demoProg] at ha; rcases ha with rfl | rfl | rfl | rfl | rfl <;> rfl
      | 1 => simp [demoProg] at ha; rcases ha with rfl | rfl | rfl | rfl | rfl <;> rfl
      | _ + 2 => simp [demoProg] at ha,
   by intro i; norm_num⟩

/-- The same program: NRT to completion vs an RT schedule in which the tempo clock's thread is
    served half a second late — identical resume events (beats and seconds) for the child. -/
example :
    let s0 := S.init demoProg (fun _ => 2) 0 .sys
    (s0.runNrt 6).pend = [] ∧
    ((RtS.mk s0 0).run [.run .sys, .advance (3/4), .run (.tempo 0), .run (.tempo 0), .run .sys,
               .advance 5, .run (.tempo 0), .run .sys]).s.pend = [] ∧
    ((s0.runNrt 6).trace.filter fun e => match e with | .resume 1 .. => true | _ => false) =
    (((RtS.mk s0 0).run [.run .sys, .advance (3/4), .run (.tempo 0), .run (.tempo 0), .run .sys,
                .advance 5, .run (.tempo 0), .run .sys]).s.trace.filter
        fun e => match e with | .resume 1 .. => true | _ => false) := by
  decide +kernel

end Sc3Verif.C05
