/-
C05 / C10 — the TIME MODEL (DESIGN §5): programs of routine scripts running on `SystemClock`,
`AppClock` (NRT only) and `TempoClock`s, with two interpreters over ONE shared state:

* `stepNrt`  — one iteration of `ClockScheduler.run` (`main.process()`): pop the pending task
               with the least time in SECONDS (ties: insertion order) and wake it;
* `RtS.step` — one move of the environment schedule in real-time mode: physical time advances
               by an arbitrary amount, or the thread of clock `c` looks at ITS queue (least time
               in BEATS of that clock, ties: insertion order) and wakes the head iff it is due
               (`now ≥ beats2secs(head)`), however late that is.

Both use the same `exec` (logical time := scheduled time of the task, run the routine body to its
next yield, reschedule at scheduled time + delta), i.e. `SystemClock._run`, `TempoClock._run` and
`ClockTask._wakeup` differ only in WHICH pending task they pick.  Time is `Rat`.

Pending tasks are one list `pend` of `(clock, beats, seq, routine)`; a task of a tempo clock
keeps its time in beats (RT: the clock's own queue is keyed in beats; NRT after repair D-C10-1:
`ClockTask.beats`, re-timed on tempo changes), `seq` is the global insertion counter (NRT: the
`TaskQueue` counter of `ClockScheduler.queue`; RT: a ghost that agrees with each clock's own
counter on that clock's tasks).  Scheduling a routine that already has a task on the same clock
replaces it (`TaskQueue.add` in RT; NRT after repair D12).

Routine bodies: `yield d`, yield a non-number (`hang`), `log`, `send`, `spawn r clock`
(create if needed — inheriting the creator's random generator — and `play(clock, quant=0)`),
`setTempo i x`, `setBeats i b`, `pause/resume/stop r` (no-ops on a routine not yet created), `wait/signal c`,
`seed n` (a new generator object), `draw`, `pull r` (`r.next()` on a sub-stream routine from inside
the body), `raise` (the body fails: logged by the clock, the routine is Done), `defer r c d`
(`defer(func, d, clock)`: a one-shot function task).  `save k r` / `restore k r`
(read / assign the `rand_state` of routine r).  `S.restart` = `main.reset()` + `reset()` of the routine
objects + a new play of the root.
Core Lean only (loaded by the drivers of C05 and C10).
-/
namespace Sc3Verif.C05

inductive Clk where
  | sys | app | tempo (i : Nat)
deriving Repr, DecidableEq, Inhabited

/-- `TempoClock._tempo, _beat_dur, _base_beats, _base_seconds`. -/
structure Tempo where
  tempo : Rat := 1
  beatDur : Rat := 1
  baseBeats : Rat := 0
  baseSecs : Rat := 0
deriving Repr, DecidableEq, Inhabited

def Tempo.beats2secs (p : Tempo) (b : Rat) : Rat := (b - p.baseBeats) * p.beatDur + p.baseSecs
def Tempo.secs2beats (p : Tempo) (s : Rat) : Rat := (s - p.baseSecs) * p.tempo + p.baseBeats

/-- `TempoClock.tempo = x` at logical time `t` (the setter body; `x > 0` checked by the caller). -/
def Tempo.setTempo (p : Tempo) (t x : Rat) : Tempo :=
  let beats := p.secs2beats t
  { tempo := x, beatDur := 1 / x, baseBeats := beats, baseSecs := p.beats2secs beats }

/-- `TempoClock.beats = b` at logical time `t`: the clock now reads beat `b` at `t` (tasks scheduled
    before beat `b` become overdue and are performed at once, each reading its own — past — time). -/
def Tempo.setBeats (p : Tempo) (t b : Rat) : Tempo :=
  { tempo := p.tempo, beatDur := 1 / p.tempo, baseBeats := b, baseSecs := t }

inductive St where
  | init | suspended | paused | done
deriving Repr, DecidableEq, Inhabited

inductive Act where
  | yield (d : Rat)
  | hang
  | log
  | send (b : Nat)
  | spawn (r : Nat) (c : Clk)
  | setTempo (i : Nat) (x : Rat)
  | setBeats (i : Nat) (b : Rat)
  | pause (r : Nat)
  | resume (r : Nat)
  | stop (r : Nat)
  | wait (c : Nat)
  | signal (c : Nat)
  | seed (n : Nat)
  | draw
  | pull (r : Nat)
  | raise
  | defer (r : Nat) (c : Clk) (d : Rat)
  | save (k r : Nat)
  | restore (k r : Nat)
deriving Repr, DecidableEq, Inhabited

/-- Trace events.  `secs` are logical seconds; `beats` are on the clock that woke the routine. -/
inductive Ev where
  | resume (r pc : Nat) (c : Clk) (beats secs : Rat)
  | log (r : Nat) (beats secs : Rat)
  | send (r b : Nat) (secs : Rat)
  | draw (r gen : Nat) (seed : Option Nat) (idx : Nat)
  | refused (r target : Nat)
deriving Repr, DecidableEq

structure Entry where
  clk : Clk
  beats : Rat
  seq : Nat
  rid : Nat
deriving Repr, DecidableEq, Inhabited

structure Rt where
  script : List Act := []
  pc : Nat := 0
  state : St := .init
  clock : Clk := .sys            -- `_clock`
  created : Bool := false
  gen : Nat := 0                 -- which random generator object it draws from
  startBeats : Rat := 0          -- ghost: beats of its clock at which `play` scheduled it
  sub : Bool := false            -- used as a sub-stream: pulled with `next()` from another body
deriving Repr, Inhabited

structure Cond where
  test : Bool := false
  waiting : List Nat := []
deriving Repr, Inhabited

structure S where
  rts : Nat → Rt := fun _ => {}
  tempi : Nat → Tempo := fun _ => {}
  pend : List Entry := []
  nextSeq : Nat := 0
  mainSecs : Rat := 0            -- logical time of the task being / last executed
  conds : Nat → Cond := fun _ => {}
  draws : Nat → Nat := fun _ => 0      -- per generator object: number of values drawn so far
  genSeed : Nat → Option Nat := fun _ => none   -- seed of a generator object (`none`: the main thread's)
  nextGen : Nat := 1             -- generator object 0 is the main thread's
  saved : Nat → Option (Option Nat × Nat) := fun _ => none   -- `rand_state` values kept by the program:
                                                            -- (seed of the stream, position in it)
  trace : List Ev := []          -- newest first

instance : Inhabited S := ⟨{}⟩

def S.params (s : S) : Clk → Tempo
  | .tempo i => s.tempi i
  | _ => {}

/-- Seconds at which a pending task is due, under the tempo in force now. -/
def S.secsOf (s : S) (e : Entry) : Rat := (s.params e.clk).beats2secs e.beats

/-- Beats of clock `c` at the current logical time (`clock.beats` read inside a routine). -/
def S.beatsNow (s : S) (c : Clk) : Rat := (s.params c).secs2beats s.mainSecs

def S.setRt (s : S) (r : Nat) (R : Rt) : S :=
  { s with rts := fun i => if i = r then R else s.rts i }

def S.emit (s : S) (e : Ev) : S := { s with trace := e :: s.trace }

/-- `clock.sched_abs(beats, routine)`: at most one task per (clock, routine); `_clock` updated. -/
def S.add (s : S) (c : Clk) (b : Rat) (r : Nat) : S :=
  { s with
    pend := (s.pend.filter fun e => !(e.clk == c && e.rid == r)) ++
              [{ clk := c, beats := b, seq := s.nextSeq, rid := r }]
    nextSeq := s.nextSeq + 1
    rts := fun i => if i = r then { s.rts r with clock := c } else s.rts i }

/-- Schedule routine `r` on clock `c` at the current logical time. -/
def S.schedNow (s : S) (c : Clk) (r : Nat) : S := s.add c (s.beatsNow c) r

/-- `Routine(func)` executed inside the body of routine `by_`: the new routine inherits the
    creator's random generator.  Nothing happens if `r` exists already. -/
def S.create (s : S) (by_ r : Nat) : S :=
  if (s.rts r).created then s
  else s.setRt r { s.rts r with created := true, gen := (s.rts by_).gen }

/-- `r.play(c, quant=0)` at the current logical time. -/
def S.playNow (s : S) (r : Nat) (c : Clk) : S :=
  if (s.rts r).state = .init ∨ (s.rts r).state = .paused then
    (s.setRt r { s.rts r with state := .suspended, startBeats := s.beatsNow c }).schedNow c r
  else s

def S.play (s : S) (by_ r : Nat) (c : Clk) : S := (s.create by_ r).playNow r c

/-- Lexicographic (beats, seq) order used to list one clock's tasks as its queue holds them. -/
def Entry.before (a b : Entry) : Bool := a.beats < b.beats || (a.beats == b.beats && a.seq < b.seq)

def insertSorted (e : Entry) : List Entry → List Entry
  | [] => [e]
  | x :: xs => if e.before x then e :: x :: xs else x :: insertSorted e xs

def sortEntries : List Entry → List Entry
  | [] => []
  | x :: xs => insertSorted x (sortEntries xs)

def renumber (n : Nat) : List Entry → List Entry
  | [] => []
  | e :: es => { e with seq := n } :: renumber (n + 1) es

/-- NRT repair D-C10-1: after a tempo change the pending tasks of that clock are re-added in
    queue order (their seconds changed); they get fresh insertion numbers. -/
def S.retime (s : S) (c : Clk) : S :=
  let mine := sortEntries (s.pend.filter fun e => e.clk == c)
  { s with pend := (s.pend.filter fun e => !(e.clk == c)) ++ renumber s.nextSeq mine
           nextSeq := s.nextSeq + mine.length }

/-- Sum of the deltas of the `yield`s in a piece of script. -/
def sumY : List Act → Rat
  | [] => 0
  | .yield d :: rest => d + sumY rest
  | _ :: rest => sumY rest

/-- `random.Random(n)`: a NEW generator object with seed `n` (two objects with equal seeds produce
    equal streams but are read independently). -/
def S.newGen (s : S) (n : Nat) : S :=
  { s with genSeed := fun g => if g = s.nextGen then some n else s.genSeed g
           nextGen := s.nextGen + 1 }

structure Ctx where
  rid : Nat
  clk : Clk
  beats : Rat

def S.bumpPc (s : S) (r : Nat) : S := s.setRt r { s.rts r with pc := (s.rts r).pc + 1 }

def S.schedAll (s : S) : List Nat → S
  | [] => s
  | r :: rs => (s.schedNow (s.rts r).clock r).schedAll rs

/-- A sub-stream routine `r` (never played on a clock) is pulled with `r.next()` from inside
    another routine's body: it runs to its next `yield` (any value) or to its end.  Its body may
    seed itself and draw; other actions are not used in sub-streams and are skipped. -/
def runSub (s : S) (r : Nat) : List Act → S
  | [] => s.setRt r { s.rts r with state := .done, clock := .sys }
  | a :: rest =>
    let s := s.bumpPc r
    match a with
    | .yield _ => s
    | .seed n => runSub ((s.newGen n).setRt r { s.rts r with gen := s.nextGen }) r rest
    | .draw =>
      let g := (s.rts r).gen
      runSub ({ s.emit (.draw r g (s.genSeed g) (s.draws g)) with
                draws := fun j => if j = g then s.draws g + 1 else s.draws j }) r rest
    | _ => runSub s r rest

/-- `r.next()` issued by the running routine `by_` on a routine that is only ever used as a
    sub-stream (created here if needed, inheriting the caller's generator).  Routines that are or
    were played on a clock, the caller itself, and Done / Paused sub-streams are left alone
    (`StopStream` / `PausedStream` / `RoutineException` are caught by the caller). -/
def S.pull (s : S) (by_ r : Nat) : S :=
  if r = by_ then s
  else
    let s := s.create by_ r
    if (s.rts r).state = .init ∨ ((s.rts r).sub = true ∧ (s.rts r).state = .suspended) then
      runSub (s.setRt r { s.rts r with state := .suspended, sub := true }) r
        ((s.rts r).script.drop (s.rts r).pc)
    else s

/-- The body of routine `x.rid`, woken by the task `(x.clk, x.beats)`, executes the remaining
    actions up to its next yield / end. -/
def runActs (s : S) (x : Ctx) : List Act → S
  | [] => s.setRt x.rid { s.rts x.rid with state := .done, clock := .sys }
  | a :: rest =>
    let s := s.bumpPc x.rid
    match a with
    | .yield d => s.add x.clk (x.beats + d) x.rid
    | .hang => s
    | .log => runActs (s.emit (.log x.rid (s.beatsNow x.clk) s.mainSecs)) x rest
    | .send b => runActs (s.emit (.send x.rid b s.mainSecs)) x rest
    | .spawn r c => runActs (s.play x.rid r c) x rest
    | .setTempo i v =>
      if 0 < v then
        runActs ({ s with tempi := fun j => if j = i then (s.tempi i).setTempo s.mainSecs v
                                           else s.tempi j }.retime (.tempo i)) x rest
      else runActs (s.emit (.refused x.rid x.rid)) x rest
    | .setBeats i b =>
      runActs ({ s with tempi := fun j => if j = i then (s.tempi i).setBeats s.mainSecs b
                                         else s.tempi j }.retime (.tempo i)) x rest
    | .pause r =>
      if r = x.rid then runActs (s.emit (.refused x.rid r)) x rest
      else if !(s.rts r).created then runActs s x rest
      else if (s.rts r).state = .init ∨ (s.rts r).state = .suspended then
        runActs (s.setRt r { s.rts r with state := .paused }) x rest
      else runActs s x rest
    | .resume r =>
      if (s.rts r).state = .paused then
        runActs ((s.setRt r { s.rts r with state := .suspended }).schedNow (s.rts r).clock r) x rest
      else runActs s x rest
    | .stop r =>
      if r = x.rid then runActs (s.emit (.refused x.rid r)) x rest
      else if !(s.rts r).created then runActs s x rest
      else runActs (s.setRt r { s.rts r with state := .done, clock := .sys }) x rest
    | .wait c =>
      if (s.conds c).test then s.add x.clk (x.beats + 0) x.rid
      else { s with conds := fun j => if j = c then { s.conds c with waiting := (s.conds c).waiting ++ [x.rid] }
                                      else s.conds j }
    | .signal c =>
      let w := (s.conds c).waiting
      runActs ({ s with conds := fun j => if j = c then { test := true, waiting := [] }
                                          else s.conds j }.schedAll w) x rest
    | .seed n =>
      runActs ((s.newGen n).setRt x.rid { s.rts x.rid with gen := s.nextGen }) x rest
    | .raise => s.setRt x.rid { s.rts x.rid with state := .done }
    | .defer r c d =>
      -- `defer(func, d, clock)` = `clock.sched(d, func)`: a one-shot task (routine slot `r`, whose script is
      -- what the function does) due `d` beats after the current logical time on clock `c`
      let s := s.setRt r { s.rts r with created := true, state := .suspended, pc := 0,
                                        startBeats := s.beatsNow c + d }
      runActs (s.add c (s.beatsNow c + d) r) x rest
    | .draw =>
      let g := (s.rts x.rid).gen
      runActs ({ s.emit (.draw x.rid g (s.genSeed g) (s.draws g)) with
                 draws := fun j => if j = g then s.draws g + 1 else s.draws j }) x rest
    | .pull r => runActs (s.pull x.rid r) x rest
    | .save k r =>
      -- `saved[k] = R[r].rand_state`: the state of r's OWN generator object, whoever reads it
      if (s.rts r).created then
        let g := (s.rts r).gen
        runActs { s with saved := fun j => if j = k then some (s.genSeed g, s.draws g) else s.saved j } x rest
      else runActs s x rest
    | .restore k r =>
      -- `R[r].rand_state = saved[k]`: r's generator OBJECT (shared with whoever holds it) continues from there
      match s.saved k with
      | some (sd, pos) =>
        if (s.rts r).created then
          let g := (s.rts r).gen
          runActs { s with genSeed := fun j => if j = g then sd else s.genSeed j
                           draws := fun j => if j = g then pos else s.draws j } x rest
        else runActs s x rest
      | none => runActs s x rest

/-- Wake the routine of pending task `e` (already removed from `pend`): logical time := its
    scheduled time; Paused / Done routines raise (`PausedStream` / `StopStream`) and are dropped. -/
def S.exec (s : S) (e : Entry) : S :=
  let t := s.secsOf e
  let s := { s with pend := s.pend.filter (fun e' => !(e' == e)), mainSecs := t }
  let R := s.rts e.rid
  match R.state with
  | .suspended =>
    let s := s.emit (.resume e.rid R.pc e.clk e.beats t)
    runActs s { rid := e.rid, clk := e.clk, beats := e.beats } (R.script.drop R.pc)
  | _ => s

/-- `main.reset()` followed by `reset()` of every existing routine OBJECT and a new play of the root: time,
    scheduler, clocks and conditions start afresh; the routine objects keep what `Routine.reset` keeps (their
    random generator, the fact that they exist) and lose position and state. -/
def S.restart (s : S) (tempi : Nat → Rat) (start : Rat) (c0 : Clk) : S :=
  let s1 : S :=
    { s with
      rts := fun i => if (s.rts i).created then { s.rts i with pc := 0, state := .init, clock := .sys }
                      else s.rts i
      tempi := fun i => { tempo := tempi i, beatDur := 1 / tempi i, baseBeats := 0, baseSecs := start }
      pend := [], mainSecs := start, conds := fun _ => {} }
  let s2 := s1.setRt 0 { s1.rts 0 with state := .suspended, startBeats := s1.beatsNow c0 }
  s2.schedNow c0 0

/-- Least element of a list under a strict "better" test (first one wins among equals). -/
def argmin (better : Entry → Entry → Bool) : List Entry → Option Entry
  | [] => none
  | e :: es =>
    match argmin better es with
    | none => some e
    | some m => if better m e then some m else some e

/-- NRT: the task due first in seconds, ties by insertion order. -/
def S.nrtBetter (s : S) (a b : Entry) : Bool :=
  s.secsOf a < s.secsOf b || (s.secsOf a == s.secsOf b && a.seq < b.seq)

def S.chooseNrt (s : S) : Option Entry := argmin s.nrtBetter s.pend

/-- RT: head of clock `c`'s own queue (beats, ties by insertion order). -/
def S.chooseRt (s : S) (c : Clk) : Option Entry :=
  argmin Entry.before (s.pend.filter fun e => e.clk == c)

def S.stepNrt (s : S) : S :=
  match s.chooseNrt with
  | none => s
  | some e => s.exec e

def S.runNrt (s : S) : Nat → S
  | 0 => s
  | n + 1 => s.stepNrt.runNrt n

inductive Move where
  | advance (d : Rat)
  | run (c : Clk)
deriving Repr, DecidableEq

/-- Real-time machine: the shared state plus the physical time (`main.elapsed_time()`), which
    nothing in the shared state ever reads. -/
structure RtS where
  s : S
  now : Rat

def RtS.step (r : RtS) : Move → RtS
  | .advance d => if 0 ≤ d then { r with now := r.now + d } else r
  | .run c =>
    match r.s.chooseRt c with
    | none => r
    | some e => if r.s.secsOf e ≤ r.now then { r with s := r.s.exec e } else r

def RtS.run (r : RtS) : List Move → RtS
  | [] => r
  | m :: ms => (r.step m).run ms

/-- Initial state: tempo clocks created at `start` with the given tempi; routine 0 is created by
    the main thread and played on `c0` at `start`. -/
def S.init (prog : Nat → List Act) (tempi : Nat → Rat) (start : Rat) (c0 : Clk) : S :=
  let s : S :=
    { rts := fun i => { script := prog i }
      tempi := fun i => { tempo := tempi i, beatDur := 1 / tempi i, baseBeats := 0, baseSecs := start }
      mainSecs := start }
  let s := s.setRt 0 { s.rts 0 with created := true, state := .suspended, startBeats := s.beatsNow c0 }
  s.schedNow c0 0

end Sc3Verif.C05
