/-
C05 / C10 line-protocol driver for the time model:
  `lake env lean --run Sc3Verif/C05/Driver.lean < lines`

  reset                      new case (prints `reset`)
  tempo <i> <rat>            initial tempo of tempo clock i
  rt <id> <act> ; <act> …    script of routine id
  start <rat> <clk>          build the initial state: start time, clock of the root routine 0
  nrt <fuel>                 run `main.process()` (at most fuel tasks)
  m adv <rat> | m run <clk>  one real-time environment move
  restart <rat> <clk>        main.reset() + reset() of every routine object + play the root again
  dump                       print one line (events since the last start / restart): events (times relative to start) `| end=<t> pend=<n>`

Tokens: rationals `p/q` or integers; clocks `sys`, `app`, `t<i>`;
acts `y d`, `hang`, `yinf` (= hang), `yv K` (= hang; a non-numeric value), `log`, `send b`, `spawn r clk`, `tempo i x`, `beats i b`, `pause r`, `resume r`, `stop r`,
`wait c`, `sig c`, `seed n`, `draw`, `pull r`, `raise`, `etempo i x`.  Draw events print the SEED of the
generator object read (`M` = the main thread's) and the index in its stream.
-/
import Sc3Verif.C05.Model
open Sc3Verif.C05

def fmtRat (q : Rat) : String := if q.den == 1 then toString q.num else s!"{q.num}/{q.den}"

def fmtClk : Clk → String
  | .sys => "sys" | .app => "app" | .tempo i => s!"t{i}"

def fmtEv (start : Rat) (_genSeed : Nat → Option Nat) : Ev → String
  | .resume r pc c b s => s!"R:{r}:{pc}:{fmtClk c}:{fmtRat b}:{fmtRat (s - start)}"
  | .log r b s => s!"L:{r}:{fmtRat b}:{fmtRat (s - start)}"
  | .send r b s => s!"B:{r}:{b}:{fmtRat (s - start)}"
  | .draw r _ sd i =>
    let name := match sd with
      | none => "M"
      | some n => toString n
    s!"D:{r}:{name}:{i}"
  | .refused r t => s!"X:{r}:{t}"

def parseRat (s : String) : Option Rat :=
  match s.splitOn "/" with
  | [a] => a.toInt?.map fun n => (n : Rat)
  | [a, b] => do
    let n ← a.toInt?
    let d ← b.toNat?
    if d == 0 then none else some ((n : Rat) / (d : Rat))
  | _ => none

def parseClk (s : String) : Option Clk :=
  if s == "sys" then some .sys
  else if s == "app" then some .app
  else if s.startsWith "t" then (s.drop 1).toNat?.map .tempo
  else none

def parseAct (ws : List String) : Option Act :=
  match ws with
  | ["y", d] => do some (.yield (← parseRat d))
  | ["hang"] => some .hang
  | ["yv", _] => some .hang         -- yield True / False / None / a string / an object: never rescheduled
  | ["yinf"] => some .hang        -- `yield float('inf')`: never rescheduled
  | ["log"] => some .log
  | ["send", b] => do some (.send (← b.toNat?))
  | ["spawn", r, c] => do some (.spawn (← r.toNat?) (← parseClk c))
  | ["tempo", i, x] => do some (.setTempo (← i.toNat?) (← parseRat x))
  | ["beats", i, b] => do some (.setBeats (← i.toNat?) (← parseRat b))
  | ["pause", r] => do some (.pause (← r.toNat?))
  | ["resume", r] => do some (.resume (← r.toNat?))
  | ["stop", r] => do some (.stop (← r.toNat?))
  | ["wait", c] => do some (.wait (← c.toNat?))
  | ["sig", c] => do some (.signal (← c.toNat?))
  | ["seed", n] => do some (.seed (← n.toNat?))
  | ["draw"] => some .draw
  | ["pull", r] => do some (.pull (← r.toNat?))
  | ["raise"] => some .raise
  | ["save", k, r] => do some (.save (← k.toNat?) (← r.toNat?))
  | ["restore", k, r] => do some (.restore (← k.toNat?) (← r.toNat?))
  | ["defer", r, c, d] => do some (.defer (← r.toNat?) (← parseClk c) (← parseRat d))
  | ["etempo", i, x] => do some (.setTempo (← i.toNat?) (← parseRat x))  -- same map as `tempo=` at logical = elapsed time
  | _ => none

def splitActs (ws : List String) : List (List String) :=
  let rec go (cur : List String) (acc : List (List String)) : List String → List (List String)
    | [] => (if cur.isEmpty then acc else cur.reverse :: acc).reverse
    | w :: rest => if w == ";" then go [] (if cur.isEmpty then acc else cur.reverse :: acc) rest
                   else go (w :: cur) acc rest
  go [] [] ws

def parseScript (ws : List String) : Option (List Act) :=
  (splitActs ws).foldlM (fun acc a => do some (acc ++ [← parseAct a])) []

structure DS where
  prog : List (Nat × List Act) := []
  tempi : List (Nat × Rat) := []
  start : Rat := 0
  s : S := {}
  now : Rat := 0
  mark : Nat := 0        -- events before this index belong to an earlier play (see `restart`)

def lookupD {α} (l : List (Nat × α)) (d : α) (i : Nat) : α :=
  match l.find? (·.1 == i) with
  | some (_, v) => v
  | none => d

/-- `main.process()`: run until nothing is pending (or the fuel is exhausted). -/
def runAll (s : S) : Nat → S
  | 0 => s
  | n + 1 => if s.pend.isEmpty then s else runAll s.stepNrt n

partial def loop (h out : IO.FS.Stream) (d : DS) : IO Unit := do
  let line ← h.getLine
  if line.isEmpty then return ()
  let ws := (line.trimAscii.toString.splitOn " ").filter (· ≠ "")
  match ws with
  | [] => loop h out d
  | ["reset"] => out.putStrLn "reset"; loop h out {}
  | ["tempo", i, x] =>
    match i.toNat?, parseRat x with
    | some i, some x => loop h out { d with tempi := (i, x) :: d.tempi }
    | _, _ => out.putStrLn "bad-tempo"; loop h out d
  | "rt" :: id :: rest =>
    match id.toNat?, parseScript rest with
    | some id, some sc => loop h out { d with prog := (id, sc) :: d.prog }
    | _, _ => out.putStrLn "bad-rt"; loop h out d
  | ["start", t, c] =>
    match parseRat t, parseClk c with
    | some t, some c =>
      loop h out { d with start := t, now := t, s := S.init (lookupD d.prog []) (lookupD d.tempi 1) t c }
    | _, _ => out.putStrLn "bad-start"; loop h out d
  | ["restart", t, c] =>
    match parseRat t, parseClk c with
    | some t, some c =>
      loop h out { d with start := t, now := t, mark := d.s.trace.length,
                          s := d.s.restart (lookupD d.tempi 1) t c }
    | _, _ => out.putStrLn "bad-restart"; loop h out d
  | ["nrt", n] =>
    match n.toNat? with
    | some n => loop h out { d with s := runAll d.s n }
    | none => out.putStrLn "bad-nrt"; loop h out d
  | ["m", "adv", x] =>
    match parseRat x with
    | some x => let r := (RtS.mk d.s d.now).step (.advance x); loop h out { d with s := r.s, now := r.now }
    | none => out.putStrLn "bad-move"; loop h out d
  | ["m", "run", c] =>
    match parseClk c with
    | some c => let r := (RtS.mk d.s d.now).step (.run c); loop h out { d with s := r.s, now := r.now }
    | none => out.putStrLn "bad-move"; loop h out d
  | ["dump"] =>
    let evs := " ".intercalate ((d.s.trace.reverse.drop d.mark).map (fmtEv d.start d.s.genSeed))
    out.putStrLn s!"{evs} | end={fmtRat (d.s.mainSecs - d.start)} pend={d.s.pend.length}"
    loop h out d
  | _ => out.putStrLn "bad-line"; loop h out d

def main : IO Unit := do
  loop (← IO.getStdin) (← IO.getStdout) {}
