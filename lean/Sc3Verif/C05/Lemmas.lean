/-
C05 — helper lemmas for the time model: tempo arithmetic, membership in the pending list after
`add` / `retime`, and the invariants carried through a routine body (`runActs`).
-/
import Sc3Verif.C05.Model
import Mathlib.Tactic.Linarith
import Mathlib.Tactic.Ring
import Mathlib.Tactic.NormNum
import Mathlib.Algebra.Order.Field.Rat
namespace Sc3Verif.C05

/-! ### Tempo arithmetic -/

/-- A clock's parameters are sane: positive tempo and `beat_dur = 1 / tempo`. -/
structure Tempo.WF (p : Tempo) : Prop where
  pos : 0 < p.tempo
  inv : p.beatDur * p.tempo = 1

theorem Tempo.WF.durPos {p : Tempo} (h : p.WF) : 0 < p.beatDur := by
  have h1 := h.pos
  have h2 := h.inv
  by_contra hn
  have : p.beatDur ≤ 0 := not_lt.mp hn
  nlinarith

theorem Tempo.wf_default : ({} : Tempo).WF := ⟨by norm_num, by norm_num⟩

theorem Tempo.b2s_s2b {p : Tempo} (h : p.WF) (s : Rat) : p.beats2secs (p.secs2beats s) = s := by
  unfold Tempo.beats2secs Tempo.secs2beats
  have : (s - p.baseSecs) * p.tempo * p.beatDur = s - p.baseSecs := by
    rw [mul_assoc, mul_comm p.tempo, h.inv, mul_one]
  linarith

theorem Tempo.s2b_b2s {p : Tempo} (h : p.WF) (b : Rat) : p.secs2beats (p.beats2secs b) = b := by
  unfold Tempo.beats2secs Tempo.secs2beats
  have : (b - p.baseBeats) * p.beatDur * p.tempo = b - p.baseBeats := by
    rw [mul_assoc, h.inv, mul_one]
  linarith

theorem Tempo.b2s_mono {p : Tempo} (h : p.WF) {a b : Rat} (hab : a ≤ b) :
    p.beats2secs a ≤ p.beats2secs b := by
  unfold Tempo.beats2secs
  have := h.durPos
  nlinarith

theorem Tempo.b2s_lt_iff {p : Tempo} (h : p.WF) {a b : Rat} :
    p.beats2secs a < p.beats2secs b ↔ a < b := by
  unfold Tempo.beats2secs
  have := h.durPos
  constructor
  · intro hl; by_contra hn; have : b ≤ a := not_lt.mp hn; nlinarith
  · intro hl; nlinarith

theorem Tempo.b2s_eq_iff {p : Tempo} (h : p.WF) {a b : Rat} :
    p.beats2secs a = p.beats2secs b ↔ a = b := by
  constructor
  · intro he
    have h1 := congrArg p.secs2beats he
    rwa [Tempo.s2b_b2s h, Tempo.s2b_b2s h] at h1
  · intro he; rw [he]

theorem Tempo.s2b_mono {p : Tempo} (h : p.WF) {a b : Rat} (hab : a ≤ b) :
    p.secs2beats a ≤ p.secs2beats b := by
  unfold Tempo.secs2beats
  have := h.pos
  nlinarith

theorem Tempo.setTempo_wf {p : Tempo} (t x : Rat) (hx : 0 < x) : (p.setTempo t x).WF := by
  constructor
  · exact hx
  · show 1 / x * x = 1
    exact div_mul_cancel₀ 1 (ne_of_gt hx)

/-- A tempo change is continuous: the instant of the change keeps its beat and its second. -/
theorem Tempo.setTempo_at {p : Tempo} (h : p.WF) (t x : Rat) :
    (p.setTempo t x).beats2secs (p.secs2beats t) = t := by
  show (p.secs2beats t - p.secs2beats t) * (1 / x) + p.beats2secs (p.secs2beats t) = t
  rw [Tempo.b2s_s2b h]; ring

theorem Tempo.setTempo_s2b_at {p : Tempo} (h : p.WF) (t x : Rat) :
    (p.setTempo t x).secs2beats t = p.secs2beats t := by
  show (t - p.beats2secs (p.secs2beats t)) * x + p.secs2beats t = p.secs2beats t
  rw [Tempo.b2s_s2b h]; ring

/-- Beats that were not before the instant of the change are not before it afterwards. -/
theorem Tempo.setTempo_future {p : Tempo} (h : p.WF) (t x : Rat) (hx : 0 < x) {b : Rat}
    (hb : t ≤ p.beats2secs b) : t ≤ (p.setTempo t x).beats2secs b := by
  have h1 : p.secs2beats t ≤ b := by
    have := Tempo.s2b_mono h hb
    rwa [Tempo.s2b_b2s h] at this
  have h2 := Tempo.b2s_mono (Tempo.setTempo_wf (p := p) t x hx) h1
  rwa [Tempo.setTempo_at h] at h2

/-- … and beats after it stay after it, strictly. -/
theorem Tempo.setTempo_future_lt {p : Tempo} (h : p.WF) (t x : Rat) (hx : 0 < x) {b : Rat}
    (hb : t < p.beats2secs b) : t < (p.setTempo t x).beats2secs b := by
  have h1 : p.secs2beats t < b := by
    have := (Tempo.b2s_lt_iff h (a := p.secs2beats t) (b := b)).mp (by rwa [Tempo.b2s_s2b h])
    exact this
  have h2 := (Tempo.b2s_lt_iff (Tempo.setTempo_wf (p := p) t x hx)).mpr h1
  rwa [Tempo.setTempo_at h] at h2

/-! ### The pending list -/

theorem mem_insertSorted {e x : Entry} {l : List Entry} : x ∈ insertSorted e l ↔ x = e ∨ x ∈ l := by
  induction l with
  | nil => simp [insertSorted]
  | cons y ys ih =>
    unfold insertSorted
    split
    · simp
    · simp [ih]; tauto

theorem mem_sortEntries {x : Entry} {l : List Entry} : x ∈ sortEntries l ↔ x ∈ l := by
  induction l with
  | nil => simp [sortEntries]
  | cons y ys ih => simp [sortEntries, mem_insertSorted, ih]

theorem mem_renumber {x : Entry} {l : List Entry} {n : Nat} (h : x ∈ renumber n l) :
    ∃ e ∈ l, x.clk = e.clk ∧ x.beats = e.beats ∧ x.rid = e.rid := by
  induction l generalizing n with
  | nil => simp [renumber] at h
  | cons y ys ih =>
    simp only [renumber, List.mem_cons] at h
    rcases h with h | h
    · exact ⟨y, by simp, by rw [h], by rw [h], by rw [h]⟩
    · obtain ⟨e, he, h1⟩ := ih h
      exact ⟨e, by simp [he], h1⟩

/-- `retime` keeps every task's clock, beats and routine (only insertion numbers change). -/
theorem mem_retime {s : S} {c : Clk} {x : Entry} (h : x ∈ (s.retime c).pend) :
    ∃ e ∈ s.pend, x.clk = e.clk ∧ x.beats = e.beats ∧ x.rid = e.rid := by
  simp only [S.retime, List.mem_append, List.mem_filter] at h
  rcases h with h | h
  · exact ⟨x, h.1, rfl, rfl, rfl⟩
  · obtain ⟨e, he, h1⟩ := mem_renumber h
    rw [mem_sortEntries, List.mem_filter] at he
    exact ⟨e, he.1, h1⟩

theorem mem_add {s : S} {c : Clk} {b : Rat} {r : Nat} {x : Entry} (h : x ∈ (s.add c b r).pend) :
    (x ∈ s.pend ∧ ¬(x.clk = c ∧ x.rid = r)) ∨ x = { clk := c, beats := b, seq := s.nextSeq, rid := r } := by
  simp only [S.add, List.mem_append, List.mem_filter, List.mem_singleton] at h
  rcases h with h | h
  · left; refine ⟨h.1, ?_⟩
    have := h.2
    simp only [Bool.not_eq_eq_eq_not, Bool.not_true, Bool.and_eq_false_imp, beq_iff_eq,
      beq_eq_false_iff_ne, ne_eq] at this
    exact fun hh => this hh.1 hh.2
  · right; exact h

/-! ### Frame facts of the primitives -/

section frame
variable (s : S)

@[simp] theorem setRt_tempi (r : Nat) (R : Rt) : (s.setRt r R).tempi = s.tempi := rfl
@[simp] theorem setRt_pend (r : Nat) (R : Rt) : (s.setRt r R).pend = s.pend := rfl
@[simp] theorem setRt_mainSecs (r : Nat) (R : Rt) : (s.setRt r R).mainSecs = s.mainSecs := rfl
@[simp] theorem setRt_nextSeq (r : Nat) (R : Rt) : (s.setRt r R).nextSeq = s.nextSeq := rfl
@[simp] theorem setRt_rts_same (r : Nat) (R : Rt) : (s.setRt r R).rts r = R := by simp [S.setRt]
@[simp] theorem setRt_rts_ne (r : Nat) (R : Rt) (i : Nat) (h : i ≠ r) : (s.setRt r R).rts i = s.rts i := by
  simp [S.setRt, h]
@[simp] theorem setRt_params (r : Nat) (R : Rt) : (s.setRt r R).params = s.params := rfl
@[simp] theorem setRt_beatsNow (r : Nat) (R : Rt) (c : Clk) : (s.setRt r R).beatsNow c = s.beatsNow c := rfl
@[simp] theorem emit_tempi (e : Ev) : (s.emit e).tempi = s.tempi := rfl
@[simp] theorem emit_pend (e : Ev) : (s.emit e).pend = s.pend := rfl
@[simp] theorem emit_mainSecs (e : Ev) : (s.emit e).mainSecs = s.mainSecs := rfl
@[simp] theorem emit_rts (e : Ev) : (s.emit e).rts = s.rts := rfl
@[simp] theorem emit_nextSeq (e : Ev) : (s.emit e).nextSeq = s.nextSeq := rfl
@[simp] theorem emit_params (e : Ev) : (s.emit e).params = s.params := rfl
@[simp] theorem bumpPc_tempi (r : Nat) : (s.bumpPc r).tempi = s.tempi := rfl
@[simp] theorem bumpPc_pend (r : Nat) : (s.bumpPc r).pend = s.pend := rfl
@[simp] theorem bumpPc_mainSecs (r : Nat) : (s.bumpPc r).mainSecs = s.mainSecs := rfl
@[simp] theorem bumpPc_params (r : Nat) : (s.bumpPc r).params = s.params := rfl
@[simp] theorem add_tempi (c : Clk) (b : Rat) (r : Nat) : (s.add c b r).tempi = s.tempi := rfl
@[simp] theorem add_mainSecs (c : Clk) (b : Rat) (r : Nat) : (s.add c b r).mainSecs = s.mainSecs := rfl
@[simp] theorem add_params (c : Clk) (b : Rat) (r : Nat) : (s.add c b r).params = s.params := rfl
@[simp] theorem retime_tempi (c : Clk) : (s.retime c).tempi = s.tempi := rfl
@[simp] theorem retime_mainSecs (c : Clk) : (s.retime c).mainSecs = s.mainSecs := rfl
@[simp] theorem retime_rts (c : Clk) : (s.retime c).rts = s.rts := rfl
@[simp] theorem retime_params (c : Clk) : (s.retime c).params = s.params := rfl

end frame

/-- `secsOf` only depends on the tempo table. -/
theorem secsOf_congr {s s' : S} (h : s'.tempi = s.tempi) (e : Entry) : s'.secsOf e = s.secsOf e := by
  unfold S.secsOf S.params; cases e.clk <;> simp [h]

def S.WF (s : S) : Prop := ∀ i, (s.tempi i).WF

theorem S.WF.params {s : S} (h : s.WF) (c : Clk) : (s.params c).WF := by
  cases c with
  | sys => exact Tempo.wf_default
  | app => exact Tempo.wf_default
  | tempo i => exact h i

/-! ### Logical time never runs backwards inside a body (`Mono`) -/

/-- Everything pending is due no earlier than the current logical time. -/
def Future (s : S) : Prop := ∀ e ∈ s.pend, s.mainSecs ≤ s.secsOf e

/-- The running task itself is not before the current logical time (it is exactly at it until
    the tempo of its own clock changes, and never before it afterwards). -/
def CtxNow (s : S) (x : Ctx) : Prop := s.mainSecs ≤ (s.params x.clk).beats2secs x.beats

structure Mono (t : Rat) (x : Ctx) (s : S) : Prop where
  wf : s.WF
  time : s.mainSecs = t
  future : Future s
  ctx : CtxNow s x

theorem Mono.of_same {t : Rat} {x : Ctx} {s s' : S} (h : Mono t x s) (h1 : s'.tempi = s.tempi)
    (h2 : s'.pend = s.pend) (h3 : s'.mainSecs = s.mainSecs) : Mono t x s' := by
  have hp : s'.params = s.params := by funext c; cases c <;> simp [S.params, h1]
  refine ⟨by intro i; rw [h1]; exact h.wf i, by rw [h3]; exact h.time, ?_, ?_⟩
  · intro e he; rw [h2] at he; rw [h3, secsOf_congr h1]; exact h.future e he
  · unfold CtxNow; rw [h3, hp]; exact h.ctx

theorem Mono.add {t : Rat} {x : Ctx} {s : S} (h : Mono t x s) (c : Clk) (b : Rat) (r : Nat)
    (hb : s.mainSecs ≤ (s.params c).beats2secs b) : Mono t x (s.add c b r) := by
  refine ⟨h.wf, h.time, ?_, h.ctx⟩
  intro e he
  rcases mem_add he with ⟨h1, _⟩ | h1
  · exact h.future e h1
  · subst h1; exact hb

theorem Mono.schedNow {t : Rat} {x : Ctx} {s : S} (h : Mono t x s) (c : Clk) (r : Nat) :
    Mono t x (s.schedNow c r) := by
  apply h.add
  unfold S.beatsNow
  rw [Tempo.b2s_s2b (h.wf.params c)]

theorem Mono.schedAll {t : Rat} {x : Ctx} {s : S} (h : Mono t x s) (l : List Nat) :
    Mono t x (s.schedAll l) := by
  induction l generalizing s with
  | nil => exact h
  | cons r rs ih => exact ih (h.schedNow _ _)

theorem Mono.create {t : Rat} {x : Ctx} {s : S} (h : Mono t x s) (by_ r : Nat) :
    Mono t x (s.create by_ r) := by
  unfold S.create
  split
  · exact h
  · exact h.of_same rfl rfl rfl

theorem Mono.playNow {t : Rat} {x : Ctx} {s : S} (h : Mono t x s) (r : Nat) (c : Clk) :
    Mono t x (s.playNow r c) := by
  unfold S.playNow
  split
  · exact (h.of_same (s' := s.setRt r _) rfl rfl rfl).schedNow c r
  · exact h

theorem Mono.play {t : Rat} {x : Ctx} {s : S} (h : Mono t x s) (by_ r : Nat) (c : Clk) :
    Mono t x (s.play by_ r c) := (h.create by_ r).playNow r c

/-- A tempo change at the current logical time, followed by the re-timing of that clock. -/
theorem Mono.setTempo {t : Rat} {x : Ctx} {s : S} (h : Mono t x s) (i : Nat) (v : Rat) (hv : 0 < v) :
    Mono t x ({ s with tempi := fun j => if j = i then (s.tempi i).setTempo s.mainSecs v
                                         else s.tempi j }.retime (.tempo i)) := by
  have hwf : ∀ j, (if j = i then (s.tempi i).setTempo s.mainSecs v else s.tempi j).WF := by
    intro j; split
    · exact Tempo.setTempo_wf _ _ hv
    · exact h.wf j
  -- seconds of any (clock, beats) that was not before now is still not before now
  have key : ∀ (c : Clk) (b : Rat), s.mainSecs ≤ (s.params c).beats2secs b →
      s.mainSecs ≤ (({ s with tempi := fun j => if j = i then (s.tempi i).setTempo s.mainSecs v
                                               else s.tempi j } : S).params c).beats2secs b := by
    intro c b hb
    cases c with
    | sys => exact hb
    | app => exact hb
    | tempo j =>
      simp only [S.params] at hb ⊢
      split
      · rename_i e; subst e
        exact Tempo.setTempo_future (h.wf j) _ _ hv hb
      · exact hb
  refine ⟨hwf, h.time, ?_, ?_⟩
  · intro e he
    obtain ⟨e0, he0, h1, h2, _⟩ := mem_retime he
    have := key e0.clk e0.beats (h.future e0 he0)
    simpa [S.secsOf, h1, h2] using this
  · exact key x.clk x.beats h.ctx

/-- A sub-stream pull only touches routine records, draw counters and the trace. -/
theorem runSub_frame (acts : List Act) (r : Nat) (s : S) :
    (runSub s r acts).tempi = s.tempi ∧ (runSub s r acts).pend = s.pend ∧
    (runSub s r acts).mainSecs = s.mainSecs := by
  induction acts generalizing s with
  | nil => exact ⟨rfl, rfl, rfl⟩
  | cons a rest ih =>
    unfold runSub
    simp only
    cases a with
    | yield d => exact ⟨rfl, rfl, rfl⟩
    | seed n => exact ih _
    | draw => exact ih _
    | _ => exact ih _

theorem create_frame (s : S) (b r : Nat) :
    (s.create b r).tempi = s.tempi ∧ (s.create b r).pend = s.pend ∧ (s.create b r).mainSecs = s.mainSecs := by
  unfold S.create; split <;> exact ⟨rfl, rfl, rfl⟩

theorem pull_frame (s : S) (b r : Nat) :
    (s.pull b r).tempi = s.tempi ∧ (s.pull b r).pend = s.pend ∧ (s.pull b r).mainSecs = s.mainSecs := by
  unfold S.pull
  split
  · exact ⟨rfl, rfl, rfl⟩
  · simp only
    split
    · obtain ⟨h1, h2, h3⟩ := runSub_frame ((((s.create b r).rts r).script.drop ((s.create b r).rts r).pc)) r
        ((s.create b r).setRt r { (s.create b r).rts r with state := .suspended, sub := true })
      obtain ⟨c1, c2, c3⟩ := create_frame s b r
      exact ⟨h1.trans c1, h2.trans c2, h3.trans c3⟩
    · exact create_frame s b r

/-- All deltas of a piece of script are non-negative and no clock's beats are moved by hand
    (the `beats` setter deliberately makes pending tasks overdue). -/
def NonNeg (acts : List Act) : Prop :=
  (∀ d, Act.yield d ∈ acts → 0 ≤ d) ∧ (∀ i b, Act.setBeats i b ∉ acts) ∧
  (∀ r c d, Act.defer r c d ∈ acts → 0 ≤ d)

theorem NonNeg.tail {a : Act} {rest : List Act} (h : NonNeg (a :: rest)) : NonNeg rest :=
  ⟨fun d hd => h.1 d (by simp [hd]), fun i b hm => h.2.1 i b (by simp [hm]),
   fun r c d hm => h.2.2 r c d (by simp [hm])⟩

/-- A routine body keeps `Mono`: whatever it does (yield, spawn, tempo changes, pause / resume /
    stop, wait / signal …) nothing pending ends up before the current logical time. -/
theorem runActs_mono {t : Rat} {x : Ctx} (acts : List Act) (hn : NonNeg acts) {s : S}
    (h : Mono t x s) : Mono t x (runActs s x acts) := by
  induction acts generalizing s with
  | nil => exact h.of_same rfl rfl rfl
  | cons a rest ih =>
    have ih' := fun {s : S} (h : Mono t x s) => ih hn.tail h
    have h1 : Mono t x (s.bumpPc x.rid) := h.of_same rfl rfl rfl
    unfold runActs
    simp only
    cases a with
    | yield d =>
      simp only
      apply h1.add
      have hd : 0 ≤ d := hn.1 d (by simp)
      have := Tempo.b2s_mono (h1.wf.params x.clk) (a := x.beats) (b := x.beats + d) (by linarith)
      exact le_trans h1.ctx this
    | hang => exact h1
    | log => exact ih' (h1.of_same rfl rfl rfl)
    | send b => exact ih' (h1.of_same rfl rfl rfl)
    | spawn r c => exact ih' (h1.play _ _ _)
    | setTempo i v =>
      simp only
      split
      · rename_i hv; exact ih' (h1.setTempo i v hv)
      · exact ih' (h1.of_same rfl rfl rfl)
    | pause r =>
      simp only
      split
      · exact ih' (h1.of_same rfl rfl rfl)
      · split
        · exact ih' h1
        · split
          · exact ih' (h1.of_same rfl rfl rfl)
          · exact ih' h1
    | resume r =>
      simp only
      split
      · exact ih' ((h1.of_same (s' := (s.bumpPc x.rid).setRt r _) rfl rfl rfl).schedNow _ _)
      · exact ih' h1
    | stop r =>
      simp only
      split
      · exact ih' (h1.of_same rfl rfl rfl)
      · split
        · exact ih' h1
        · exact ih' (h1.of_same rfl rfl rfl)
    | wait c =>
      simp only
      split
      · apply h1.add
        have := Tempo.b2s_mono (h1.wf.params x.clk) (a := x.beats) (b := x.beats + 0) (by linarith)
        exact le_trans h1.ctx this
      · exact h1.of_same rfl rfl rfl
    | signal c =>
      simp only
      refine ih' (Mono.schedAll ?_ _)
      exact h1.of_same rfl rfl rfl
    | seed n => exact ih' (h1.of_same rfl rfl rfl)
    | draw => exact ih' (h1.of_same rfl rfl rfl)
    | pull r =>
      obtain ⟨p1, p2, p3⟩ := pull_frame (s.bumpPc x.rid) x.rid r
      exact ih' (h1.of_same p1 p2 p3)
    | raise => exact h1.of_same rfl rfl rfl
    | setBeats i b => exact absurd (by simp) (hn.2.1 i b)
    | save k r =>
      simp only
      repeat' split
      all_goals first | exact ih' h1 | exact ih' (h1.of_same rfl rfl rfl)
    | restore k r =>
      simp only
      repeat' split
      all_goals first | exact ih' h1 | exact ih' (h1.of_same rfl rfl rfl)
    | defer r c d =>
      simp only
      have hd : 0 ≤ d := hn.2.2 r c d (by simp)
      have h2 : Mono t x ((s.bumpPc x.rid).setRt r
          { (s.bumpPc x.rid).rts r with created := true, state := .suspended, pc := 0,
                                        startBeats := (s.bumpPc x.rid).beatsNow c + d }) :=
        h1.of_same rfl rfl rfl
      apply ih'
      apply h2.add
      have hp := h1.wf.params c
      have e1 : ((s.bumpPc x.rid).params c).beats2secs ((s.bumpPc x.rid).beatsNow c) = (s.bumpPc x.rid).mainSecs :=
        Tempo.b2s_s2b hp _
      have := Tempo.b2s_mono hp (a := (s.bumpPc x.rid).beatsNow c) (b := (s.bumpPc x.rid).beatsNow c + d)
        (by linarith)
      simp only [setRt_mainSecs, setRt_params, setRt_beatsNow]
      linarith

/-! ### Choosing the next task -/

theorem argmin_mem {better : Entry → Entry → Bool} {l : List Entry} {m : Entry}
    (h : argmin better l = some m) : m ∈ l := by
  induction l generalizing m with
  | nil => simp [argmin] at h
  | cons e es ih =>
    unfold argmin at h
    cases hr : argmin better es with
    | none => simp [hr] at h; simp [h]
    | some m' =>
      simp only [hr] at h
      split at h
      · cases h; simp [ih hr]
      · cases h; simp

theorem argmin_none {better : Entry → Entry → Bool} {l : List Entry} :
    argmin better l = none ↔ l = [] := by
  cases l with
  | nil => simp [argmin]
  | cons e es =>
    simp only [argmin, reduceCtorEq, iff_false]
    cases argmin better es with
    | none => simp
    | some m => simp only; split <;> simp

/-- Nothing in the list beats the chosen element, for an asymmetric order whose complement is
    transitive (true of both orders used here). -/
theorem argmin_min {better : Entry → Entry → Bool}
    (asymm : ∀ a b, better a b = true → better b a = false)
    (trans : ∀ a b c, better a b = false → better b c = false → better a c = false)
    {l : List Entry} {m : Entry} (h : argmin better l = some m) : ∀ e ∈ l, better e m = false := by
  have irr : ∀ a, better a a = false := by
    intro a
    cases hb : better a a with
    | false => rfl
    | true => have := asymm a a hb; rw [hb] at this; cases this
  induction l generalizing m with
  | nil => simp [argmin] at h
  | cons x xs ih =>
    unfold argmin at h
    cases hr : argmin better xs with
    | none =>
      simp only [hr] at h; cases h
      have : xs = [] := argmin_none.mp hr
      subst this
      intro e he
      have : e = x := by simpa using he
      subst this; exact irr e
    | some m' =>
      simp only [hr] at h
      have ih' := ih hr
      split at h
      · rename_i hb
        cases h
        intro e he
        rcases List.mem_cons.mp he with rfl | he
        · exact asymm _ _ hb
        · exact ih' e he
      · rename_i hb
        cases h
        have hb' : better m' x = false := by simpa using hb
        intro e he
        rcases List.mem_cons.mp he with rfl | he
        · exact irr e
        · exact trans _ _ _ (ih' e he) hb'

theorem nrtBetter_asymm (s : S) (a b : Entry) (h : s.nrtBetter a b = true) : s.nrtBetter b a = false := by
  simp only [S.nrtBetter, Bool.or_eq_true, decide_eq_true_eq, Bool.and_eq_true, beq_iff_eq,
    Bool.or_eq_false_iff, decide_eq_false_iff_not, not_lt, Bool.and_eq_false_imp] at h ⊢
  rcases h with h | ⟨h1, h2⟩
  · exact ⟨le_of_lt h, fun he => absurd he.symm (ne_of_lt h)⟩
  · exact ⟨le_of_eq h1, fun _ => by omega⟩

theorem nrtBetter_trans (s : S) (a b c : Entry) (h1 : s.nrtBetter a b = false)
    (h2 : s.nrtBetter b c = false) : s.nrtBetter a c = false := by
  simp only [S.nrtBetter, Bool.or_eq_false_iff, decide_eq_false_iff_not, not_lt,
    Bool.and_eq_false_imp, beq_iff_eq] at h1 h2 ⊢
  refine ⟨le_trans h2.1 h1.1, ?_⟩
  intro he
  have hab : s.secsOf a = s.secsOf b := le_antisymm (by rw [he]; exact h2.1) h1.1
  have hbc : s.secsOf b = s.secsOf c := by rw [← hab, he]
  have := h1.2 hab
  have := h2.2 hbc
  omega

/-- The task `main.process()` picks is due no later than any other pending task. -/
theorem chooseNrt_min {s : S} {m : Entry} (h : s.chooseNrt = some m) :
    m ∈ s.pend ∧ ∀ e ∈ s.pend, s.secsOf m ≤ s.secsOf e := by
  refine ⟨argmin_mem h, ?_⟩
  intro e he
  have := argmin_min (nrtBetter_asymm s) (nrtBetter_trans s) h e he
  simp only [S.nrtBetter, Bool.or_eq_false_iff, decide_eq_false_iff_not, not_lt] at this
  exact this.1

/-! ### Scripts never change -/

theorem add_script (s : S) (c : Clk) (b : Rat) (r i : Nat) : ((s.add c b r).rts i).script = (s.rts i).script := by
  unfold S.add; simp only; split
  · rename_i h; subst h; rfl
  · rfl

theorem schedAll_script (s : S) (l : List Nat) (i : Nat) : ((s.schedAll l).rts i).script = (s.rts i).script := by
  induction l generalizing s with
  | nil => rfl
  | cons r rs ih => simp only [S.schedAll, S.schedNow]; rw [ih, add_script]

theorem setRt_script_eq (s : S) (r : Nat) (R : Rt) (i : Nat) :
    ((s.setRt r R).rts i).script = if i = r then R.script else (s.rts i).script := by
  unfold S.setRt; simp only; split <;> rfl

theorem bumpPc_script (s : S) (r i : Nat) : ((s.bumpPc r).rts i).script = (s.rts i).script := by
  unfold S.bumpPc; rw [setRt_script_eq]; split
  · rename_i e; subst e; rfl
  · rfl

theorem create_script (s : S) (b r i : Nat) : ((s.create b r).rts i).script = (s.rts i).script := by
  unfold S.create; split
  · rfl
  · rw [setRt_script_eq]; split
    · rename_i e; subst e; rfl
    · rfl

theorem playNow_script (s : S) (r : Nat) (c : Clk) (i : Nat) :
    ((s.playNow r c).rts i).script = (s.rts i).script := by
  unfold S.playNow; split
  · simp only [S.schedNow]; rw [add_script, setRt_script_eq]; split
    · rename_i e; subst e; rfl
    · rfl
  · rfl

theorem play_script (s : S) (b r : Nat) (c : Clk) (i : Nat) :
    ((s.play b r c).rts i).script = (s.rts i).script := by
  unfold S.play; rw [playNow_script, create_script]

theorem runSub_script (acts : List Act) (r : Nat) (s : S) (i : Nat) :
    ((runSub s r acts).rts i).script = (s.rts i).script := by
  induction acts generalizing s with
  | nil =>
    unfold runSub; rw [setRt_script_eq]; split
    · rename_i e; subst e; rfl
    · rfl
  | cons a rest ih =>
    have hb := bumpPc_script s r
    unfold runSub
    simp only
    cases a with
    | yield d => exact hb i
    | seed n =>
      simp only; rw [ih, setRt_script_eq]; split
      · rename_i e; subst e; exact hb i
      · exact hb i
    | draw => simp only; rw [ih]; exact hb i
    | _ => simp only; rw [ih]; exact hb i

theorem pull_script (s : S) (b r i : Nat) : ((s.pull b r).rts i).script = (s.rts i).script := by
  unfold S.pull
  split
  · rfl
  · simp only
    split
    · rw [runSub_script, setRt_script_eq]; split
      · rename_i e; subst e; exact create_script s b i i
      · exact create_script s b r i
    · exact create_script s b r i

theorem runActs_script (acts : List Act) (x : Ctx) (s : S) (i : Nat) :
    ((runActs s x acts).rts i).script = (s.rts i).script := by
  induction acts generalizing s with
  | nil =>
    unfold runActs; rw [setRt_script_eq]; split
    · rename_i e; subst e; rfl
    · rfl
  | cons a rest ih =>
    have hb := bumpPc_script s x.rid
    have hset : ∀ (s0 : S) (r : Nat) (R : Rt), R.script = (s0.rts r).script →
        ((s0.setRt r R).rts i).script = (s0.rts i).script := by
      intro s0 r R h; rw [setRt_script_eq]; split
      · rename_i e; subst e; exact h
      · rfl
    unfold runActs
    simp only
    cases a with
    | yield d => simp only; rw [add_script, hb]
    | hang => exact hb i
    | log => simp only; rw [ih]; exact hb i
    | send b => simp only; rw [ih]; exact hb i
    | spawn r c => simp only; rw [ih, play_script]; exact hb i
    | setTempo j v =>
      simp only; split
      · rw [ih]; exact hb i
      · rw [ih]; exact hb i
    | setBeats j b => simp only; rw [ih]; exact hb i
    | save k r =>
      simp only
      repeat' split
      all_goals (rw [ih]; exact hb i)
    | restore k r =>
      simp only
      repeat' split
      all_goals (rw [ih]; exact hb i)
    | defer r c d => simp only; rw [ih, add_script]; refine (hset _ _ _ ?_).trans (hb i); rfl
    | pause r =>
      simp only
      repeat' split
      all_goals rw [ih]
      all_goals first | exact hb i | (refine (hset _ _ _ ?_).trans (hb i); rfl)
    | resume r =>
      simp only
      split
      · rw [ih]; simp only [S.schedNow]; rw [add_script]; refine (hset _ _ _ ?_).trans (hb i); rfl
      · rw [ih]; exact hb i
    | stop r =>
      simp only
      repeat' split
      all_goals rw [ih]
      all_goals first | exact hb i | (refine (hset _ _ _ ?_).trans (hb i); rfl)
    | wait c =>
      simp only; split
      · rw [add_script]; exact hb i
      · exact hb i
    | signal c => simp only; rw [ih, schedAll_script]; exact hb i
    | seed n => simp only; rw [ih]; refine (hset _ _ _ ?_).trans (hb i); rfl
    | draw => simp only; rw [ih]; exact hb i
    | pull r => simp only; rw [ih, pull_script]; exact hb i
    | raise => refine (hset _ _ _ ?_).trans (hb i); rfl

theorem exec_script (s : S) (e : Entry) (i : Nat) : ((s.exec e).rts i).script = (s.rts i).script := by
  unfold S.exec
  simp only
  split
  · rw [runActs_script]; rfl
  · rfl

/-! ### One NRT step -/

/-- Invariant of `main.process()`: sane tempi, nothing pending lies in the past, deltas ≥ 0. -/
structure Good (s : S) : Prop where
  wf : s.WF
  future : Future s
  nonneg : ∀ r, NonNeg (s.rts r).script

theorem NonNeg.drop {l : List Act} (h : NonNeg l) (n : Nat) : NonNeg (l.drop n) :=
  ⟨fun d hd => h.1 d (List.mem_of_mem_drop hd), fun i b hm => h.2.1 i b (List.mem_of_mem_drop hm),
   fun r c d hm => h.2.2 r c d (List.mem_of_mem_drop hm)⟩

/-- Executing a task that is due no later than everything else keeps `Good` and moves the
    logical time to that task's time. -/
theorem exec_good {s : S} (h : Good s) {e : Entry} (_he : e ∈ s.pend)
    (hmin : ∀ e' ∈ s.pend, s.secsOf e ≤ s.secsOf e') :
    Good (s.exec e) ∧ (s.exec e).mainSecs = s.secsOf e := by
  have hn : ∀ r, NonNeg ((s.exec e).rts r).script := by intro r; rw [exec_script]; exact h.nonneg r
  -- the state right after popping `e`
  have h1 : Mono (s.secsOf e) { rid := e.rid, clk := e.clk, beats := e.beats }
      { s with pend := s.pend.filter (fun e' => !(e' == e)), mainSecs := s.secsOf e } := by
    refine ⟨h.wf, rfl, ?_, ?_⟩
    · intro e' he'
      simp only [List.mem_filter] at he'
      exact hmin e' he'.1
    · exact le_refl _
  unfold S.exec
  simp only
  split
  · have h2 := runActs_mono (((s.rts e.rid).script.drop (s.rts e.rid).pc))
      ((h.nonneg e.rid).drop _)
      (h1.of_same (s' := ({ s with pend := s.pend.filter (fun e' => !(e' == e)),
                                   mainSecs := s.secsOf e } : S).emit
          (.resume e.rid (s.rts e.rid).pc e.clk e.beats (s.secsOf e))) rfl rfl rfl)
    refine ⟨⟨h2.wf, h2.future, ?_⟩, h2.time⟩
    intro r
    have := hn r
    unfold S.exec at this
    simp only at this
    split at this
    · exact this
    · rename_i hx _ hy; exact absurd hx hy
  · refine ⟨⟨h1.wf, h1.future, ?_⟩, rfl⟩
    exact h.nonneg

theorem stepNrt_good {s : S} (h : Good s) :
    Good s.stepNrt ∧ s.mainSecs ≤ s.stepNrt.mainSecs := by
  unfold S.stepNrt
  cases hc : s.chooseNrt with
  | none => exact ⟨h, le_refl _⟩
  | some e =>
    obtain ⟨he, hmin⟩ := chooseNrt_min hc
    obtain ⟨hg, ht⟩ := exec_good h he hmin
    refine ⟨hg, ?_⟩
    simp only
    rw [ht]; exact h.future e he

/-! ### Exactness of logical time for programs of yields, spawns and tempo changes -/

/-- Actions of the C05 statement: everything except pause / resume / wait / signal (which
    restart a routine from another routine's time and belong to C10 / C11). -/
def Act.plain : Act → Bool
  | .pause _ | .resume _ | .wait _ | .signal _ | .pull _ | .defer _ _ _ | .save _ _ | .restore _ _ => false
  | _ => true

def deltaOf : Act → Rat
  | .yield d => d
  | _ => 0

theorem sumY_cons (a : Act) (l : List Act) : sumY (a :: l) = deltaOf a + sumY l := by
  cases a <;> simp [sumY, deltaOf]

theorem sumY_append (l1 l2 : List Act) : sumY (l1 ++ l2) = sumY l1 + sumY l2 := by
  induction l1 with
  | nil => simp [sumY]
  | cons a l ih => rw [List.cons_append, sumY_cons, sumY_cons, ih]; ring

theorem sumY_take_succ {l : List Act} {k : Nat} {a : Act} {rest : List Act}
    (h : l.drop k = a :: rest) : sumY (l.take (k + 1)) = sumY (l.take k) + deltaOf a ∧ l.drop (k + 1) = rest := by
  have hk : k < l.length := by
    by_contra hn
    rw [List.drop_eq_nil_of_le (by omega)] at h; cases h
  have ha : l[k] = a := by
    have := List.getElem_drop (xs := l) (i := k) (j := 0) (h := by simp; omega)
    simp only [h, List.getElem_cons_zero, Nat.add_zero] at this
    exact this.symm
  constructor
  · rw [List.take_succ_eq_append_getElem hk, sumY_append, ha]
    simp [sumY_cons, sumY]
  · have := List.drop_eq_getElem_cons hk
    rw [this] at h
    exact (List.cons.inj h).2

/-- Pending tasks of plain programs: one per routine at most, each at
    `startBeats + Σ deltas yielded so far`. -/
structure Exact (s : S) : Prop where
  plain : ∀ r, ∀ a ∈ (s.rts r).script, a.plain = true
  uniq : (s.pend.map (·.rid)).Nodup
  live : ∀ e ∈ s.pend, (s.rts e.rid).state ≠ .init
  noPaused : ∀ r, (s.rts r).state ≠ .paused
  initPc : ∀ r, (s.rts r).state = .init → (s.rts r).pc = 0
  exact : ∀ e ∈ s.pend,
    e.beats = (s.rts e.rid).startBeats + sumY ((s.rts e.rid).script.take (s.rts e.rid).pc)

/-- … while the body of routine `x.rid` runs (its own task has been popped). -/
structure ExactRun (s : S) (x : Ctx) : Prop extends Exact s where
  noSelf : ∀ e ∈ s.pend, e.rid ≠ x.rid
  selfLive : (s.rts x.rid).state ≠ .init
  ctx : x.beats = (s.rts x.rid).startBeats + sumY ((s.rts x.rid).script.take (s.rts x.rid).pc)

/-- A change of routine records that keeps script, pc, startBeats and "is Init / is Paused". -/
theorem ExactRun.of_rts {s s' : S} {x : Ctx} (h : ExactRun s x) (hp : s'.pend = s.pend)
    (hr : ∀ r, (s'.rts r).script = (s.rts r).script ∧ (s'.rts r).pc = (s.rts r).pc ∧
      (s'.rts r).startBeats = (s.rts r).startBeats ∧
      ((s'.rts r).state = .init → (s.rts r).state = .init) ∧
      ((s'.rts r).state = .paused → (s.rts r).state = .paused)) : ExactRun s' x := by
  refine ⟨⟨?_, ?_, ?_, ?_, ?_, ?_⟩, ?_, ?_, ?_⟩
  · intro r a ha; rw [(hr r).1] at ha; exact h.plain r a ha
  · rw [hp]; exact h.uniq
  · intro e he; rw [hp] at he; exact fun hi => h.live e he ((hr e.rid).2.2.2.1 hi)
  · intro r hi; exact h.noPaused r ((hr r).2.2.2.2 hi)
  · intro r hi; rw [(hr r).2.1]; exact h.initPc r ((hr r).2.2.2.1 hi)
  · intro e he; rw [hp] at he
    rw [(hr e.rid).1, (hr e.rid).2.1, (hr e.rid).2.2.1]; exact h.exact e he
  · rw [hp]; exact h.noSelf
  · exact fun hi => h.selfLive ((hr x.rid).2.2.2.1 hi)
  · rw [(hr x.rid).1, (hr x.rid).2.1, (hr x.rid).2.2.1]; exact h.ctx

theorem renumber_rids (n : Nat) (l : List Entry) : (renumber n l).map (·.rid) = l.map (·.rid) := by
  induction l generalizing n with
  | nil => rfl
  | cons e es ih => simp [renumber, ih]

theorem insertSorted_perm (e : Entry) (l : List Entry) : (insertSorted e l).Perm (e :: l) := by
  induction l with
  | nil => exact List.Perm.refl _
  | cons x xs ih =>
    unfold insertSorted; split
    · exact List.Perm.refl _
    · exact (List.Perm.cons x ih).trans (List.Perm.swap e x xs)

theorem sortEntries_perm (l : List Entry) : (sortEntries l).Perm l := by
  induction l with
  | nil => exact List.Perm.refl _
  | cons x xs ih => exact (insertSorted_perm x _).trans (List.Perm.cons x ih)

theorem retime_rids_perm (s : S) (c : Clk) :
    ((s.retime c).pend.map (·.rid)).Perm (s.pend.map (·.rid)) := by
  simp only [S.retime, List.map_append, renumber_rids]
  have h1 : ((sortEntries (s.pend.filter fun e => e.clk == c)).map (·.rid)).Perm
      ((s.pend.filter fun e => e.clk == c).map (·.rid)) := (sortEntries_perm _).map _
  have h2 := List.filter_append_perm (fun e : Entry => e.clk == c) s.pend
  refine ((List.Perm.append_left _ h1).trans ?_).trans (h2.map _)
  rw [List.map_append]
  exact List.perm_append_comm

theorem ExactRun.retime {s : S} {x : Ctx} (h : ExactRun s x) (c : Clk)
    (tempi' : Nat → Tempo) : ExactRun ({ s with tempi := tempi' }.retime c) x := by
  have hm : ∀ e ∈ ({ s with tempi := tempi' } : S).retime c |>.pend,
      ∃ e0 ∈ s.pend, e.clk = e0.clk ∧ e.beats = e0.beats ∧ e.rid = e0.rid := fun e he => mem_retime he
  refine ⟨⟨h.plain, ?_, ?_, h.noPaused, h.initPc, ?_⟩, ?_, h.selfLive, h.ctx⟩
  · exact (retime_rids_perm { s with tempi := tempi' } c).nodup_iff.mpr h.uniq
  · intro e he
    obtain ⟨e0, h0, _, _, h3⟩ := hm e he
    simp only [retime_rts]; rw [h3]; exact h.live e0 h0
  · intro e he
    obtain ⟨e0, h0, _, h2, h3⟩ := hm e he
    simp only [retime_rts]; rw [h2, h3]; exact h.exact e0 h0
  · intro e he
    obtain ⟨e0, h0, _, _, h3⟩ := hm e he
    rw [h3]; exact h.noSelf e0 h0

theorem ExactRun.same {s s' : S} {x : Ctx} (h : ExactRun s x) (hp : s'.pend = s.pend)
    (hr : s'.rts = s.rts) : ExactRun s' x :=
  h.of_rts hp (fun r => by rw [hr]; exact ⟨rfl, rfl, rfl, id, id⟩)

/-- Changing fields of one routine other than script / pc / startBeats, to a state that is
    neither Init nor Paused or the same state. -/
theorem ExactRun.setRt {s : S} {x : Ctx} (h : ExactRun s x) (r : Nat) (R : Rt)
    (h1 : R.script = (s.rts r).script) (h2 : R.pc = (s.rts r).pc)
    (h3 : R.startBeats = (s.rts r).startBeats)
    (h4 : R.state = .init → (s.rts r).state = .init)
    (h5 : R.state = .paused → (s.rts r).state = .paused) : ExactRun (s.setRt r R) x := by
  refine h.of_rts (s' := s.setRt r R) rfl ?_
  intro i
  by_cases hi : i = r
  · subst hi; simp only [setRt_rts_same]; exact ⟨h1, h2, h3, h4, h5⟩
  · rw [setRt_rts_ne _ _ _ _ hi]; exact ⟨rfl, rfl, rfl, id, id⟩

theorem add_rts_ne (s : S) (c : Clk) (b : Rat) (r i : Nat) (h : i ≠ r) : (s.add c b r).rts i = s.rts i := by
  simp [S.add, h]

theorem add_rts_same (s : S) (c : Clk) (b : Rat) (r : Nat) :
    (s.add c b r).rts r = { s.rts r with clock := c } := by simp [S.add]

/-- Adding a task for a routine that has none: `Exact` provided the new task satisfies the law. -/
theorem exact_add {s : S} (h : Exact s) (c : Clk) (b : Rat) (r : Nat)
    (hno : ∀ e ∈ s.pend, e.rid ≠ r) (hlive : (s.rts r).state ≠ .init)
    (hb : b = (s.rts r).startBeats + sumY ((s.rts r).script.take (s.rts r).pc)) :
    Exact (s.add c b r) := by
  have hrt : ∀ i, ((s.add c b r).rts i).script = (s.rts i).script ∧
      ((s.add c b r).rts i).pc = (s.rts i).pc ∧
      ((s.add c b r).rts i).startBeats = (s.rts i).startBeats ∧
      ((s.add c b r).rts i).state = (s.rts i).state := by
    intro i
    by_cases hi : i = r
    · subst hi; rw [add_rts_same]; exact ⟨rfl, rfl, rfl, rfl⟩
    · rw [add_rts_ne _ _ _ _ _ hi]; exact ⟨rfl, rfl, rfl, rfl⟩
  have hfil : s.pend.filter (fun e => !(e.clk == c && e.rid == r)) = s.pend := by
    apply List.filter_eq_self.mpr
    intro e he
    have := hno e he
    simp [this]
  have hpend : (s.add c b r).pend = s.pend ++ [{ clk := c, beats := b, seq := s.nextSeq, rid := r }] := by
    simp only [S.add, hfil]
  refine ⟨?_, ?_, ?_, ?_, ?_, ?_⟩
  · intro i a ha; rw [(hrt i).1] at ha; exact h.plain i a ha
  · rw [hpend, List.map_append, List.nodup_append]
    refine ⟨h.uniq, by simp, ?_⟩
    intro a ha b' hb'
    simp only [List.map_cons, List.map_nil, List.mem_singleton] at hb'
    obtain ⟨e, he, rfl⟩ := List.mem_map.mp ha
    rw [hb']; exact hno e he
  · intro e he
    rw [hpend, List.mem_append, List.mem_singleton] at he
    rw [(hrt e.rid).2.2.2]
    rcases he with he | he
    · exact h.live e he
    · subst he; exact hlive
  · intro i; rw [(hrt i).2.2.2]; exact h.noPaused i
  · intro i hi; rw [(hrt i).2.2.2] at hi; rw [(hrt i).2.1]; exact h.initPc i hi
  · intro e he
    rw [hpend, List.mem_append, List.mem_singleton] at he
    rw [(hrt e.rid).1, (hrt e.rid).2.1, (hrt e.rid).2.2.1]
    rcases he with he | he
    · exact h.exact e he
    · subst he; exact hb

theorem runActs_exact {x : Ctx} (acts : List Act) {s : S} (h : ExactRun s x)
    (hacts : (s.rts x.rid).script.drop (s.rts x.rid).pc = acts) : Exact (runActs s x acts) := by
  induction acts generalizing s with
  | nil =>
    unfold runActs
    refine (ExactRun.setRt h x.rid _ ?_ ?_ ?_ ?_ ?_).toExact <;> simp
  | cons a rest ih =>
    obtain ⟨hsum, hrest⟩ := sumY_take_succ hacts
    have hmem : a ∈ (s.rts x.rid).script := by
      have : a ∈ (s.rts x.rid).script.drop (s.rts x.rid).pc := by rw [hacts]; simp
      exact List.mem_of_mem_drop this
    have hpl := h.plain x.rid a hmem
    -- the state after `pc += 1`
    have hb_rts : ∀ i, i ≠ x.rid → (s.bumpPc x.rid).rts i = s.rts i := by
      intro i hi; simp [S.bumpPc, hi]
    have hb_self : (s.bumpPc x.rid).rts x.rid = { s.rts x.rid with pc := (s.rts x.rid).pc + 1 } := by
      simp [S.bumpPc]
    have hbump : deltaOf a = 0 → ExactRun (s.bumpPc x.rid) x := by
      intro h0
      have hx : ∀ i, ((s.bumpPc x.rid).rts i).script = (s.rts i).script ∧
          ((s.bumpPc x.rid).rts i).startBeats = (s.rts i).startBeats ∧
          ((s.bumpPc x.rid).rts i).state = (s.rts i).state := by
        intro i
        by_cases hi : i = x.rid
        · subst hi; rw [hb_self]; exact ⟨rfl, rfl, rfl⟩
        · rw [hb_rts i hi]; exact ⟨rfl, rfl, rfl⟩
      refine ⟨⟨?_, h.uniq, ?_, ?_, ?_, ?_⟩, h.noSelf, ?_, ?_⟩
      · intro i b hb; rw [(hx i).1] at hb; exact h.plain i b hb
      · intro e he; rw [(hx e.rid).2.2]; exact h.live e he
      · intro i; rw [(hx i).2.2]; exact h.noPaused i
      · intro i hi
        rw [(hx i).2.2] at hi
        by_cases hix : i = x.rid
        · subst hix; exact absurd hi h.selfLive
        · rw [hb_rts i hix]; exact h.initPc i hi
      · intro e he
        have hne := h.noSelf e he
        rw [hb_rts _ hne]; exact h.exact e he
      · rw [(hx x.rid).2.2]; exact h.selfLive
      · rw [hb_self]; simp only
        rw [hsum, h0, add_zero]; exact h.ctx
    have hdrop : ((s.bumpPc x.rid).rts x.rid).script.drop ((s.bumpPc x.rid).rts x.rid).pc = rest := by
      rw [hb_self]; exact hrest
    -- continue with a state that only differs from the bumped one harmlessly
    have cont : ∀ s' : S, ExactRun s' x → (s'.rts x.rid).script = (s.rts x.rid).script →
        (s'.rts x.rid).pc = (s.rts x.rid).pc + 1 → Exact (runActs s' x rest) := by
      intro s' h' h1 h2
      apply ih h'
      rw [h1, h2]; exact hrest
    unfold runActs
    simp only
    cases a with
    | yield d =>
      simp only
      have hE : Exact (s.bumpPc x.rid) := by
        -- all fields but `ctx` do not care about the delta
        have hx : ∀ i, ((s.bumpPc x.rid).rts i).script = (s.rts i).script ∧
            ((s.bumpPc x.rid).rts i).startBeats = (s.rts i).startBeats ∧
            ((s.bumpPc x.rid).rts i).state = (s.rts i).state := by
          intro i
          by_cases hi : i = x.rid
          · subst hi; rw [hb_self]; exact ⟨rfl, rfl, rfl⟩
          · rw [hb_rts i hi]; exact ⟨rfl, rfl, rfl⟩
        refine ⟨?_, h.uniq, ?_, ?_, ?_, ?_⟩
        · intro i b hb; rw [(hx i).1] at hb; exact h.plain i b hb
        · intro e he; rw [(hx e.rid).2.2]; exact h.live e he
        · intro i; rw [(hx i).2.2]; exact h.noPaused i
        · intro i hi
          rw [(hx i).2.2] at hi
          by_cases hix : i = x.rid
          · subst hix; exact absurd hi h.selfLive
          · rw [hb_rts i hix]; exact h.initPc i hi
        · intro e he
          have hne := h.noSelf e he
          rw [hb_rts _ hne]; exact h.exact e he
      apply exact_add hE
      · exact h.noSelf
      · rw [hb_self]; exact h.selfLive
      · rw [hb_self]; simp only
        rw [hsum]; simp only [deltaOf]
        rw [h.ctx]; ring
    | hang => exact (hbump rfl).toExact
    | log =>
      refine cont _ ((hbump rfl).same rfl rfl) ?_ ?_
      · show ((s.bumpPc x.rid).rts x.rid).script = _; rw [hb_self]
      · show ((s.bumpPc x.rid).rts x.rid).pc = _; rw [hb_self]
    | send b =>
      refine cont _ ((hbump rfl).same rfl rfl) ?_ ?_
      · show ((s.bumpPc x.rid).rts x.rid).script = _; rw [hb_self]
      · show ((s.bumpPc x.rid).rts x.rid).pc = _; rw [hb_self]
    | draw =>
      refine cont _ ((hbump rfl).same rfl rfl) ?_ ?_
      · show ((s.bumpPc x.rid).rts x.rid).script = _; rw [hb_self]
      · show ((s.bumpPc x.rid).rts x.rid).pc = _; rw [hb_self]
    | seed n =>
      have hg : ExactRun ((s.bumpPc x.rid).newGen n) x := (hbump rfl).same rfl rfl
      refine cont _ (hg.setRt x.rid _ rfl rfl rfl id id) ?_ ?_
      · simp only [setRt_rts_same]; rw [hb_self]
      · simp only [setRt_rts_same]; rw [hb_self]
    | raise =>
      refine (ExactRun.setRt (hbump rfl) x.rid _ ?_ ?_ ?_ ?_ ?_).toExact <;> simp
    | setBeats i b =>
      refine cont _ ((hbump rfl).retime _ _) ?_ ?_
      · simp only [retime_rts]; rw [hb_self]
      · simp only [retime_rts]; rw [hb_self]
    | setTempo i v =>
      simp only
      split
      · refine cont _ ((hbump rfl).retime _ _) ?_ ?_
        · simp only [retime_rts]; rw [hb_self]
        · simp only [retime_rts]; rw [hb_self]
      · refine cont _ ((hbump rfl).same rfl rfl) ?_ ?_
        · show ((s.bumpPc x.rid).rts x.rid).script = _; rw [hb_self]
        · show ((s.bumpPc x.rid).rts x.rid).pc = _; rw [hb_self]
    | stop r =>
      simp only
      split
      · refine cont _ ((hbump rfl).same rfl rfl) ?_ ?_
        · show ((s.bumpPc x.rid).rts x.rid).script = _; rw [hb_self]
        · show ((s.bumpPc x.rid).rts x.rid).pc = _; rw [hb_self]
      · rename_i hne
        split
        · refine cont _ (hbump rfl) ?_ ?_
          · rw [hb_self]
          · rw [hb_self]
        · refine cont _ ((hbump rfl).setRt r _ rfl rfl rfl (by simp) (by simp)) ?_ ?_
          · rw [setRt_rts_ne _ _ _ _ (Ne.symm hne), hb_self]
          · rw [setRt_rts_ne _ _ _ _ (Ne.symm hne), hb_self]
    | spawn r c =>
      have hB := hbump rfl
      -- creation only touches `created` / `gen`
      have hC : ExactRun ((s.bumpPc x.rid).create x.rid r) x := by
        unfold S.create; split
        · exact hB
        · exact hB.setRt r _ rfl rfl rfl id id
      have hCself : (((s.bumpPc x.rid).create x.rid r).rts x.rid).script = (s.rts x.rid).script ∧
          (((s.bumpPc x.rid).create x.rid r).rts x.rid).pc = (s.rts x.rid).pc + 1 := by
        unfold S.create; split
        · rw [hb_self]; exact ⟨rfl, rfl⟩
        · by_cases hr : x.rid = r
          · subst hr; simp only [setRt_rts_same]; rw [hb_self]; exact ⟨rfl, rfl⟩
          · rw [setRt_rts_ne _ _ _ _ hr, hb_self]; exact ⟨rfl, rfl⟩
      simp only [S.play]
      generalize (s.bumpPc x.rid).create x.rid r = s2 at hC hCself ⊢
      unfold S.playNow
      split
      · rename_i hst
        have hst' : (s2.rts r).state = .init := by
          rcases hst with h1 | h1
          · exact h1
          · exact absurd h1 (hC.noPaused r)
        have hrx : r ≠ x.rid := fun e => hC.selfLive (e ▸ hst')
        -- the routine record of r once played
        have hno : ∀ e ∈ s2.pend, e.rid ≠ r := fun e he hr => hC.live e he (hr ▸ hst')
        let s3 := s2.setRt r { s2.rts r with state := .suspended, startBeats := s2.beatsNow c }
        have h3rts : ∀ i, i ≠ r → s3.rts i = s2.rts i := fun i hi => setRt_rts_ne _ _ _ _ hi
        have hE3 : Exact s3 := by
          refine ⟨?_, hC.uniq, ?_, ?_, ?_, ?_⟩
          · intro i a ha
            by_cases hi : i = r
            · subst hi; simp only [s3, setRt_rts_same] at ha; exact hC.plain _ a ha
            · rw [h3rts i hi] at ha; exact hC.plain i a ha
          · intro e he; rw [h3rts _ (hno e he)]; exact hC.live e he
          · intro i
            by_cases hi : i = r
            · subst hi; simp [s3]
            · rw [h3rts i hi]; exact hC.noPaused i
          · intro i hi'
            by_cases hi : i = r
            · subst hi; simp [s3] at hi'
            · rw [h3rts i hi] at hi' ⊢; exact hC.initPc i hi'
          · intro e he; rw [h3rts _ (hno e he)]; exact hC.exact e he
        have hE4 : Exact (s3.schedNow c r) := by
          apply exact_add hE3 c _ r hno
          · simp [s3]
          · simp only [s3, setRt_rts_same, setRt_beatsNow]
            rw [hC.initPc r hst']; simp [sumY]
        have hR4 : ExactRun (s3.schedNow c r) x := by
          refine ⟨hE4, ?_, ?_, ?_⟩
          · intro e he
            rcases mem_add he with ⟨h1, _⟩ | h1
            · exact hC.noSelf e h1
            · subst h1; exact hrx
          · show ((s3.add c _ r).rts x.rid).state ≠ .init
            rw [add_rts_ne _ _ _ _ _ (Ne.symm hrx), h3rts _ (Ne.symm hrx)]; exact hC.selfLive
          · have e1 : (s3.schedNow c r).rts x.rid = s2.rts x.rid := by
              show (s3.add c _ r).rts x.rid = _
              rw [add_rts_ne _ _ _ _ _ (Ne.symm hrx), h3rts _ (Ne.symm hrx)]
            rw [e1]; exact hC.ctx
        refine cont _ hR4 ?_ ?_
        · show ((s3.add c _ r).rts x.rid).script = _
          rw [add_rts_ne _ _ _ _ _ (Ne.symm hrx), h3rts _ (Ne.symm hrx)]; exact hCself.1
        · show ((s3.add c _ r).rts x.rid).pc = _
          rw [add_rts_ne _ _ _ _ _ (Ne.symm hrx), h3rts _ (Ne.symm hrx)]; exact hCself.2
      · exact cont _ hC hCself.1 hCself.2
    | pause r => simp [Act.plain] at hpl
    | resume r => simp [Act.plain] at hpl
    | wait c => simp [Act.plain] at hpl
    | signal c => simp [Act.plain] at hpl
    | pull r => simp [Act.plain] at hpl
    | defer r c d => simp [Act.plain] at hpl
    | save k r => simp [Act.plain] at hpl
    | restore k r => simp [Act.plain] at hpl

/-- Executing ANY pending task (whichever clock thread the environment picks, or the one
    `main.process()` picks) keeps `Exact`. -/
theorem exec_exact {s : S} (h : Exact s) {e : Entry} (he : e ∈ s.pend) : Exact (s.exec e) := by
  -- popping `e`
  have hsub : ∀ e' ∈ s.pend.filter (fun e' => !(e' == e)), e' ∈ s.pend ∧ e' ≠ e := by
    intro e' he'
    simp only [List.mem_filter, Bool.not_eq_eq_eq_not, Bool.not_true, beq_eq_false_iff_ne, ne_eq] at he'
    exact he'
  have hnoSelf : ∀ e' ∈ s.pend.filter (fun e' => !(e' == e)), e'.rid ≠ e.rid := by
    intro e' he' hr
    obtain ⟨h1, h2⟩ := hsub e' he'
    -- two entries with the same routine in a list whose routine ids are distinct
    have hinj : ∀ (l : List Entry), (l.map (·.rid)).Nodup → ∀ a ∈ l, ∀ b ∈ l, a.rid = b.rid → a = b := by
      intro l hl
      induction l with
      | nil => intro a ha; simp at ha
      | cons y ys ih =>
        simp only [List.map_cons, List.nodup_cons] at hl
        intro a ha b hb hab
        rcases List.mem_cons.mp ha with rfl | ha' <;> rcases List.mem_cons.mp hb with rfl | hb'
        · rfl
        · exact (hl.1 (List.mem_map.mpr ⟨b, hb', hab.symm⟩)).elim
        · exact (hl.1 (List.mem_map.mpr ⟨a, ha', hab⟩)).elim
        · exact ih hl.2 a ha' b hb' hab
    exact h2 (hinj s.pend h.uniq e' h1 e he hr)
  have hE1 : Exact { s with pend := s.pend.filter (fun e' => !(e' == e)), mainSecs := s.secsOf e } := by
    refine ⟨h.plain, ?_, ?_, h.noPaused, h.initPc, ?_⟩
    · exact (List.Sublist.map _ List.filter_sublist).nodup h.uniq
    · intro e' he'; exact h.live e' (hsub e' he').1
    · intro e' he'; exact h.exact e' (hsub e' he').1
  unfold S.exec
  simp only
  split
  · apply runActs_exact
    · refine ExactRun.same (s := { s with pend := s.pend.filter (fun e' => !(e' == e)),
                                           mainSecs := s.secsOf e }) ⟨hE1, hnoSelf, ?_, ?_⟩ rfl rfl
      · exact h.live e he
      · exact h.exact e he
    · rfl
  · exact hE1

/-! ### The trace only grows -/

theorem add_trace (s : S) (c : Clk) (b : Rat) (r : Nat) : (s.add c b r).trace = s.trace := rfl

theorem schedAll_trace (s : S) (l : List Nat) : (s.schedAll l).trace = s.trace := by
  induction l generalizing s with
  | nil => rfl
  | cons r rs ih => simp only [S.schedAll, S.schedNow]; rw [ih, add_trace]

theorem play_trace (s : S) (b r : Nat) (c : Clk) : (s.play b r c).trace = s.trace := by
  unfold S.play S.playNow S.create
  repeat' split
  all_goals rfl

theorem runSub_trace_mono (acts : List Act) (r : Nat) (s : S) (ev : Ev) (h : ev ∈ s.trace) :
    ev ∈ (runSub s r acts).trace := by
  induction acts generalizing s with
  | nil => exact h
  | cons a rest ih =>
    have hb : ev ∈ (s.bumpPc r).trace := h
    unfold runSub
    simp only
    cases a with
    | yield d => exact hb
    | seed n => exact ih _ hb
    | draw => exact ih _ (List.mem_cons_of_mem _ hb)
    | _ => exact ih _ hb

theorem pull_trace_mono (s : S) (b r : Nat) (ev : Ev) (h : ev ∈ s.trace) : ev ∈ (s.pull b r).trace := by
  have hc : ev ∈ (s.create b r).trace := by unfold S.create; split <;> exact h
  unfold S.pull
  split
  · exact h
  · simp only
    split
    · exact runSub_trace_mono _ _ _ _ hc
    · exact hc

theorem runActs_trace_mono (acts : List Act) (x : Ctx) (s : S) (ev : Ev) (h : ev ∈ s.trace) :
    ev ∈ (runActs s x acts).trace := by
  induction acts generalizing s with
  | nil => exact h
  | cons a rest ih =>
    have hb : ev ∈ (s.bumpPc x.rid).trace := h
    unfold runActs
    simp only
    cases a with
    | yield d => exact hb
    | hang => exact hb
    | log => exact ih _ (List.mem_cons_of_mem _ hb)
    | send b => exact ih _ (List.mem_cons_of_mem _ hb)
    | spawn r c => apply ih; rw [play_trace]; exact hb
    | setTempo i v =>
      simp only; split
      · exact ih _ hb
      · exact ih _ (List.mem_cons_of_mem _ hb)
    | setBeats i b => exact ih _ hb
    | defer r c d => exact ih _ hb
    | save k r =>
      simp only
      repeat' split
      all_goals exact ih _ hb
    | restore k r =>
      simp only
      repeat' split
      all_goals exact ih _ hb
    | pause r =>
      simp only
      repeat' split
      all_goals first | exact ih _ hb | exact ih _ (List.mem_cons_of_mem _ hb)
    | resume r =>
      simp only
      split
      · exact ih _ hb
      · exact ih _ hb
    | stop r =>
      simp only
      repeat' split
      all_goals first | exact ih _ hb | exact ih _ (List.mem_cons_of_mem _ hb)
    | wait c => simp only; split <;> exact hb
    | signal c => simp only; apply ih; rw [schedAll_trace]; exact hb
    | seed n => exact ih _ hb
    | draw => exact ih _ (List.mem_cons_of_mem _ hb)
    | pull r => exact ih _ (pull_trace_mono _ _ _ _ hb)
    | raise => exact hb

/-! ### Every resume event ever logged carries the exact beat -/

/-- All `resume` events in the trace belong to routines that have been played, and carry
    `startBeats + Σ deltas of the yields before the position they resumed at`. -/
structure TraceExact (s : S) : Prop where
  noPaused : ∀ r, (s.rts r).state ≠ .paused
  hist : ∀ r pc c b t, Ev.resume r pc c b t ∈ s.trace →
    (s.rts r).state ≠ .init ∧ b = (s.rts r).startBeats + sumY ((s.rts r).script.take pc)

/-- Routine records change in state only away from Init/Paused-free ways, keeping script and
    startBeats of every routine that is not Init; the trace gains only non-`resume` events. -/
theorem TraceExact.of_step {s s' : S} (h : TraceExact s)
    (hr : ∀ r, (s'.rts r).script = (s.rts r).script ∧ (s'.rts r).state ≠ .paused ∧
      ((s.rts r).state ≠ .init → (s'.rts r).state ≠ .init ∧ (s'.rts r).startBeats = (s.rts r).startBeats))
    (ht : ∀ ev ∈ s'.trace, ev ∈ s.trace ∨ ∀ r pc c b t, ev ≠ .resume r pc c b t) : TraceExact s' := by
  refine ⟨fun r => (hr r).2.1, ?_⟩
  intro r pc c b t hev
  rcases ht _ hev with h1 | h1
  · obtain ⟨h2, h3⟩ := h.hist r pc c b t h1
    obtain ⟨h4, h5⟩ := (hr r).2.2 h2
    exact ⟨h4, by rw [(hr r).1, h5]; exact h3⟩
  · exact absurd rfl (h1 r pc c b t)

theorem TraceExact.same {s s' : S} (h : TraceExact s) (hr : s'.rts = s.rts) (ht : s'.trace = s.trace) :
    TraceExact s' :=
  h.of_step (fun r => by rw [hr]; exact ⟨rfl, h.noPaused r, fun hh => ⟨hh, rfl⟩⟩)
    (fun ev hev => Or.inl (by rw [ht] at hev; exact hev))

theorem TraceExact.emit {s : S} (h : TraceExact s) (ev : Ev) (hev : ∀ r pc c b t, ev ≠ .resume r pc c b t) :
    TraceExact (s.emit ev) :=
  h.of_step (fun r => ⟨rfl, h.noPaused r, fun hh => ⟨hh, rfl⟩⟩)
    (fun e he => by
      rcases List.mem_cons.mp he with rfl | he
      · exact Or.inr hev
      · exact Or.inl he)

theorem TraceExact.setRt {s : S} (h : TraceExact s) (r : Nat) (R : Rt)
    (h1 : R.script = (s.rts r).script) (h2 : R.state ≠ .paused)
    (h3 : (s.rts r).state ≠ .init → R.state ≠ .init ∧ R.startBeats = (s.rts r).startBeats) :
    TraceExact (s.setRt r R) := by
  refine h.of_step (s' := s.setRt r R) ?_ (fun ev hev => Or.inl hev)
  intro i
  by_cases hi : i = r
  · subst hi; rw [setRt_rts_same]; exact ⟨h1, h2, h3⟩
  · rw [setRt_rts_ne _ _ _ _ hi]; exact ⟨rfl, h.noPaused i, fun hh => ⟨hh, rfl⟩⟩

theorem TraceExact.add {s : S} (h : TraceExact s) (c : Clk) (b : Rat) (r : Nat) :
    TraceExact (s.add c b r) := by
  refine h.of_step (s' := s.add c b r) ?_ (fun ev hev => Or.inl hev)
  intro i
  by_cases hi : i = r
  · subst hi; rw [add_rts_same]; exact ⟨rfl, h.noPaused i, fun hh => ⟨hh, rfl⟩⟩
  · rw [add_rts_ne _ _ _ _ _ hi]; exact ⟨rfl, h.noPaused i, fun hh => ⟨hh, rfl⟩⟩

theorem TraceExact.play {s : S} (h : TraceExact s) (b r : Nat) (c : Clk) : TraceExact (s.play b r c) := by
  have hc : TraceExact (s.create b r) := by
    unfold S.create; split
    · exact h
    · exact h.setRt r _ rfl (h.noPaused r) (fun hh => ⟨hh, rfl⟩)
  unfold S.play S.playNow
  split
  · simp only [S.schedNow]
    apply TraceExact.add
    refine hc.setRt r _ rfl (by simp) ?_
    intro hne
    rename_i hst
    rcases hst with h1 | h1
    · exact absurd h1 hne
    · exact absurd h1 (hc.noPaused r)
  · exact hc

theorem runActs_traceExact (acts : List Act) (x : Ctx) {s : S} (h : TraceExact s)
    (hacts : ∀ a ∈ acts, a.plain = true) : TraceExact (runActs s x acts) := by
  induction acts generalizing s with
  | nil =>
    unfold runActs
    exact h.setRt x.rid _ rfl (by simp) (fun _ => ⟨by simp, rfl⟩)
  | cons a rest ih =>
    have ih' := fun {s : S} (h : TraceExact s) => ih h (fun a ha => hacts a (by simp [ha]))
    have hb : TraceExact (s.bumpPc x.rid) :=
      h.setRt x.rid _ rfl (h.noPaused x.rid) (fun hh => ⟨hh, rfl⟩)
    have hpl := hacts a (by simp)
    unfold runActs
    simp only
    cases a with
    | yield d => exact hb.add _ _ _
    | hang => exact hb
    | log => exact ih' (hb.emit _ (by intros; simp))
    | send b => exact ih' (hb.emit _ (by intros; simp))
    | draw => exact ih' ((hb.emit _ (by intros; simp)).same rfl rfl)
    | seed n =>
      have hg : TraceExact ((s.bumpPc x.rid).newGen n) := hb.same rfl rfl
      exact ih' (hg.setRt x.rid _ rfl (hb.noPaused x.rid) (fun hh => ⟨hh, rfl⟩))
    | raise => exact hb.setRt x.rid _ rfl (by simp) (fun _ => ⟨by simp, rfl⟩)
    | spawn r c => exact ih' (hb.play _ _ _)
    | setTempo i v =>
      simp only; split
      · exact ih' (hb.same rfl rfl)
      · exact ih' (hb.emit _ (by intros; simp))
    | setBeats i b => exact ih' (hb.same rfl rfl)
    | stop r =>
      simp only
      split
      · exact ih' (hb.emit _ (by intros; simp))
      · split
        · exact ih' hb
        · exact ih' (hb.setRt r _ rfl (by simp) (fun _ => ⟨by simp, rfl⟩))
    | pause r => simp [Act.plain] at hpl
    | resume r => simp [Act.plain] at hpl
    | wait c => simp [Act.plain] at hpl
    | signal c => simp [Act.plain] at hpl
    | pull r => simp [Act.plain] at hpl
    | defer r c d => simp [Act.plain] at hpl
    | save k r => simp [Act.plain] at hpl
    | restore k r => simp [Act.plain] at hpl

/-- Executing a pending task whose beat obeys the law (`Exact`) keeps `TraceExact`. -/
theorem exec_traceExact {s : S} (h : TraceExact s) (hE : Exact s) {e : Entry} (he : e ∈ s.pend) :
    TraceExact (s.exec e) := by
  have h1 : TraceExact { s with pend := s.pend.filter (fun e' => !(e' == e)), mainSecs := s.secsOf e } :=
    h.same rfl rfl
  unfold S.exec
  simp only
  split
  · rename_i hst
    apply runActs_traceExact
    · refine ⟨h.noPaused, ?_⟩
      intro r pc c b t hev
      rcases List.mem_cons.mp hev with heq | hold
      · cases heq
        exact ⟨by show (s.rts e.rid).state ≠ .init; rw [hst]; simp, hE.exact e he⟩
      · exact h.hist r pc c b t hold
    · intro a ha; exact hE.plain e.rid a (List.mem_of_mem_drop ha)
  · exact h1

end Sc3Verif.C05
