/-
C05 — what "exact logical time" means (the specification the theorems refer to).

For a routine `r` played on clock `c` at beat `b₀` of that clock, with yield deltas `d₀ d₁ …`,
the beat it must read at the resumption that follows its k-th yield is `b₀ + d₀ + … + d_{k-1}`,
and the second it must read is that beat converted through the clock's tempo in force.
Nothing physical (wake-up lateness, which clock thread ran first) appears in it.
-/
import Sc3Verif.C05.Model
namespace Sc3Verif.C05.Spec

/-- Beat at which a routine standing at script position `pc` must be (re)woken. -/
def expectedBeats (startBeats : Rat) (script : List Act) (pc : Nat) : Rat :=
  startBeats + sumY (script.take pc)

/-- The second that beat is, for clock parameters `p`. -/
def expectedSecs (p : Tempo) (startBeats : Rat) (script : List Act) (pc : Nat) : Rat :=
  p.beats2secs (expectedBeats startBeats script pc)

end Sc3Verif.C05.Spec
