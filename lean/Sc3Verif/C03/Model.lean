/-
C03 — executable model of multichannel expansion in sc3.

Modelled exactly (function by function, same tests in the same order):

* `SynthObject._multi_new` (sc3/synth/ugen.py): `length` = longest top-level list,
  `item[i % len(item)]`, recursion on the rebuilt argument row, one `_new1` call per
  fully scalar row.  `ZeroDivisionError` for an empty list next to a non-empty one is `Res.err`.
* `UGenSequence._as_ugen_input` is structure preserving (list stays list, tuple stays tuple); the
  harness applies it to the leaves, the model keeps the structure (`Arg`).
* `utils.wrap_extend`, `utils.flop` (with `as_list` bubbling), `utils.list_unop`,
  `utils.list_binop` (tuple handling and result container types as in the code),
  `utils.list_narop`, `utils.list_sum`.
* `ChannelList._multichannel_perform` (= one `flop` level, then one method call per row).
* `SynthObject._replace_zeroes_with_silence` and the argument preparation of
  `Out.ar/ReplaceOut.ar/OffsetOut.ar/XOut.ar/LocalOut.ar`.

Values: `num v` is an int/float/bool scalar (only "is it zero" matters here), `obj id`
is any other opaque object (UGen, OutputProxy, str, None — identity = id), `tup` is a
tuple, `lst c` a list (`c = true`: a `ChannelList`; both are `isinstance(x, list)`).

Core Lean only — this file is loaded by the line-protocol driver.
-/
namespace Sc3Verif.C03

inductive Arg where
  | num (v : Int)
  | obj (id : Nat)
  | tup (xs : List Arg)
  | lst (c : Bool) (xs : List Arg)
deriving Repr, Inhabited

/-- Result of an expanding call: `leaf b` is one call of the single-channel constructor,
    `chan rs` a `ChannelList(results)`, `err` the `ZeroDivisionError` of `i % len([])`. -/
inductive Res (β : Type) where
  | leaf (b : β)
  | chan (rs : List (Res β))
  | err
deriving Repr, Inhabited

/-! ## `_multi_new` -/

/-- `isinstance(item, list)` -/
def Arg.isList : Arg → Bool
  | .lst _ _ => true
  | _ => false

/-- nesting depth through lists only (tuples are opaque) -/
def Arg.depth : Arg → Nat
  | .lst _ xs => 1 + depthL xs
  | _ => 0
where depthL : List Arg → Nat
  | [] => 0
  | x :: r => max x.depth (depthL r)

/-- `max(a.depth for a in args)` -/
def rowDepth : List Arg → Nat
  | [] => 0
  | a :: r => max a.depth (rowDepth r)

/-- the `for item in args: if isinstance(item, list): length = max(length, len(item))` loop -/
def maxLen : List Arg → Nat
  | [] => 0
  | .lst _ xs :: r => max xs.length (maxLen r)
  | _ :: r => maxLen r

/-- some top-level list argument is empty (`i % len(item)` would raise) -/
def hasEmpty : List Arg → Bool
  | [] => false
  | .lst _ [] :: _ => true
  | _ :: r => hasEmpty r

/-- `item[i % len(item)] if isinstance(item, list) else item` -/
def wrapAt (i : Nat) : Arg → Arg
  | .lst _ (x :: xs) => (x :: xs)[i % (xs.length + 1)]'(Nat.mod_lt _ (Nat.succ_pos _))
  | a => a

theorem depthL_eq_rowDepth (xs : List Arg) : Arg.depth.depthL xs = rowDepth xs := by
  induction xs with
  | nil => rfl
  | cons x r ih => simp [Arg.depth.depthL, rowDepth, ih]

theorem depth_le_of_mem {x : Arg} {xs : List Arg} (h : x ∈ xs) : x.depth ≤ rowDepth xs := by
  induction xs with
  | nil => cases h
  | cons y r ih =>
    rcases List.mem_cons.mp h with rfl | h'
    · simp [rowDepth]; omega
    · have := ih h'; simp [rowDepth]; omega

theorem wrapAt_depth (i : Nat) (a : Arg) :
    (wrapAt i a).depth + 1 ≤ a.depth ∨ ((wrapAt i a).depth = 0 ∧ a.depth = 0) ∨
      (∃ c, a = .lst c []) := by
  cases a with
  | num v => right; left; simp [wrapAt, Arg.depth]
  | obj id => right; left; simp [wrapAt, Arg.depth]
  | tup xs => right; left; simp [wrapAt, Arg.depth]
  | lst c xs =>
    cases xs with
    | nil => right; right; exact ⟨c, rfl⟩
    | cons x r =>
      left
      have hm : (x :: r)[i % (r.length + 1)]'(Nat.mod_lt _ (Nat.succ_pos _)) ∈ x :: r :=
        List.getElem_mem _
      have := depth_le_of_mem hm
      simp only [wrapAt, Arg.depth, depthL_eq_rowDepth]
      omega

theorem rowDepth_wrapAt_lt (i : Nat) (args : List Arg) (he : hasEmpty args = false)
    (hn : maxLen args ≠ 0) : rowDepth (args.map (wrapAt i)) < rowDepth args := by
  have key : ∀ args : List Arg, hasEmpty args = false →
      rowDepth (args.map (wrapAt i)) + 1 ≤ rowDepth args ∨
        (rowDepth (args.map (wrapAt i)) = 0 ∧ rowDepth args = 0) := by
    intro args
    induction args with
    | nil => intro _; right; simp [rowDepth]
    | cons a r ih =>
      intro he
      have her : hasEmpty r = false := by
        cases a with
        | lst c xs => cases xs with
          | nil => simp [hasEmpty] at he
          | cons => simpa [hasEmpty] using he
        | _ => simpa [hasEmpty] using he
      have hne : ¬ ∃ c, a = .lst c [] := by
        rintro ⟨c, rfl⟩; simp [hasEmpty] at he
      have h1 := wrapAt_depth i a
      have h2 := ih her
      simp only [List.map_cons, rowDepth]
      rcases h1 with h1 | h1 | h1
      · rcases h2 with h2 | h2 <;> left <;> omega
      · rcases h2 with h2 | h2
        · left; omega
        · right; omega
      · exact absurd h1 hne
  have hpos : rowDepth args ≠ 0 := by
    clear he key
    induction args with
    | nil => simp [maxLen] at hn
    | cons a r ih =>
      cases a with
      | lst c xs => simp [rowDepth, Arg.depth]
      | num v => simp only [maxLen] at hn; simp [rowDepth, Arg.depth]; exact ih hn
      | obj v => simp only [maxLen] at hn; simp [rowDepth, Arg.depth]; exact ih hn
      | tup v => simp only [maxLen] at hn; simp [rowDepth, Arg.depth]; exact ih hn
  rcases key args he with h | h <;> omega

/-- `cls._multi_new(*args)` with `f` standing for `cls._new1` (one call per scalar row). -/
def multiNew {β : Type} (f : List Arg → β) (args : List Arg) : Res β :=
  if maxLen args = 0 then .leaf (f args)
  else if hasEmpty args then .err
  else .chan ((List.range (maxLen args)).map fun i => multiNew f (args.map (wrapAt i)))
termination_by rowDepth args
decreasing_by
  rename_i hn he
  have := rowDepth_wrapAt_lt i args (by simpa using he) hn
  simpa using this

/-! ## results: leaves in creation order, numbering -/

def Res.leaves {β : Type} : Res β → List β
  | .leaf b => [b]
  | .chan rs => leavesL rs
  | .err => []
where leavesL : List (Res β) → List β
  | [] => []
  | r :: rs => r.leaves ++ leavesL rs

def Res.hasErr {β : Type} : Res β → Bool
  | .leaf _ => false
  | .chan rs => hasErrL rs
  | .err => true
where hasErrL : List (Res β) → Bool
  | [] => false
  | r :: rs => r.hasErr || hasErrL rs

/-- element at an index path -/
def Res.at {β : Type} : Res β → List Nat → Option β
  | .leaf b, [] => some b
  | .chan rs, i :: p => atL rs i p
  | _, _ => none
where atL : List (Res β) → Nat → List Nat → Option β
  | [], _, _ => none
  | r :: _, 0, p => r.at p
  | _ :: rs, i + 1, p => atL rs i p

/-! ## `wrap_extend`, `as_list`, `flop` -/

/-- `utils.wrap_extend(lst, n)`: `lst * (n // l) + lst[:n % l]`, `[]` if `l == 0 or n <= 0` -/
def wrapExtend {α : Type} (l : List α) (n : Nat) : List α :=
  if l.length = 0 ∨ n = 0 then []
  else (List.replicate (n / l.length) l).flatten ++ l.take (n % l.length)

/-- `utils.as_list` on a value that is not `None`: tuples (and str, scalars, objects) are bubbled -/
def asList : Arg → List Arg
  | .lst _ xs => xs
  | a => [a]

/-- one cell of `flop`: `lst[j][i % len(lst[j])]`, `[]` on `ZeroDivisionError` -/
def flopCell (i : Nat) (col : List Arg) : Arg :=
  match col with
  | [] => .lst false []
  | x :: xs => (x :: xs)[i % (xs.length + 1)]'(Nat.mod_lt _ (Nat.succ_pos _))

def colMax : List (List Arg) → Nat
  | [] => 0
  | c :: r => max c.length (colMax r)

/-- `utils.flop(lst)` (arguments other than `None`): rows of the transposed, wrap-extended table -/
def flop (cols : List Arg) : List (List Arg) :=
  let cs := cols.map asList
  if cs.length = 0 then [[]]
  else (List.range (colMax cs)).map fun i => cs.map (flopCell i)

/-- `ChannelList._multichannel_perform(selector, *args)`: one `f` call (= `getattr(row[0], selector)(*row[1:])`)
    per row of `flop([self, *args])`. -/
def multichannelPerform {β : Type} (f : List Arg → β) (self : List Arg) (args : List Arg) : List β :=
  (flop (.lst true self :: args)).map f

/-! ## `list_unop`, `list_binop`, `list_narop` -/

/-- container type of a result: `t` of the caller (ChannelList for operators), list, tuple -/
inductive Kind where
  | tup | lst | chl | other
deriving Repr, DecidableEq, Inhabited

/-- `isinstance(x, (list, tuple))` -/
def Arg.isSeq : Arg → Bool
  | .lst _ _ => true
  | .tup _ => true
  | _ => false

def Arg.items : Arg → List Arg
  | .lst _ xs => xs
  | .tup xs => xs
  | _ => []

/-- `type(x)` as far as it is used as a result constructor -/
def Arg.kind : Arg → Kind
  | .lst true _ => .chl
  | .lst false _ => .lst
  | .tup _ => .tup
  | _ => .other

def Arg.isTup : Arg → Bool
  | .tup _ => true
  | _ => false

/-- tree of operator applications with the container type of every level -/
inductive OpRes (β : Type) where
  | ap (b : β)
  | seq (k : Kind) (rs : List (OpRes β))
  | err                                   -- (unused since sc3 cd1fb3a: an empty operand gives an empty result)
deriving Repr, Inhabited

def anySeq (xs : List Arg) : Bool := xs.any Arg.isSeq

theorem depth_items_lt {a x : Arg} (h : x ∈ a.items) (hl : a.isList = true) : x.depth < a.depth := by
  cases a with
  | lst c xs =>
    have := depth_le_of_mem (xs := xs) (by simpa [Arg.items] using h)
    simp only [Arg.depth, depthL_eq_rowDepth]; omega
  | _ => simp [Arg.isList] at hl

/-- size through lists AND tuples (list_binop descends into both) -/
def Arg.size : Arg → Nat
  | .lst _ xs => 1 + sizeL xs
  | .tup xs => 1 + sizeL xs
  | _ => 0
where sizeL : List Arg → Nat
  | [] => 0
  | x :: r => x.size + sizeL r + 1

theorem size_lt_of_mem {x : Arg} {xs : List Arg} (h : x ∈ xs) : x.size < Arg.size.sizeL xs := by
  induction xs with
  | nil => cases h
  | cons y r ih =>
    rcases List.mem_cons.mp h with rfl | h'
    · simp [Arg.size.sizeL]; omega
    · have := ih h'; simp [Arg.size.sizeL]; omega

theorem size_items_lt {a x : Arg} (h : x ∈ a.items) : x.size < a.size := by
  cases a with
  | lst c xs => have := size_lt_of_mem (xs := xs) (by simpa [Arg.items] using h); simp [Arg.size]; omega
  | tup xs => have := size_lt_of_mem (xs := xs) (by simpa [Arg.items] using h); simp [Arg.size]; omega
  | _ => simp [Arg.items] at h

/-- `utils.list_unop(op, a, t)` -/
def listUnop {β : Type} (op : Arg → β) (t : Kind) (a : Arg) : OpRes β :=
  if a.isSeq then
    if anySeq a.items then .seq t (a.items.attach.map fun ⟨x, _⟩ => listUnop op x.kind x)
    else .seq t (a.items.map fun x => .ap (op x))
  else .ap (op a)
termination_by a.size
decreasing_by exact size_items_lt (by assumption)

/-- `utils.list_narop(op, a, *args, t=t)`: only `a` is traversed, `args` are passed through -/
def listNarop {β : Type} (op : Arg → List Arg → β) (t : Kind) (a : Arg) (args : List Arg) : OpRes β :=
  if a.isSeq then
    if anySeq a.items then .seq t (a.items.attach.map fun ⟨x, _⟩ => listNarop op x.kind x args)
    else .seq t (a.items.map fun x => .ap (op x args))
  else .ap (op a args)
termination_by a.size
decreasing_by exact size_items_lt (by assumption)

theorem mem_wrapExtend {α : Type} {x : α} {l : List α} {n : Nat} (h : x ∈ wrapExtend l n) : x ∈ l := by
  unfold wrapExtend at h
  split at h
  · cases h
  · rcases List.mem_append.mp h with h | h
    · obtain ⟨l', hl', hx⟩ := List.mem_flatten.mp h
      have := (List.mem_replicate.mp hl').2
      subst this; exact hx
    · exact List.mem_of_mem_take h

/-- the two operand rows after `b = wrap_extend(list(b), len(a))` / `a = wrap_extend(list(a), len(b))` -/
def extendPair (xs ys : List Arg) : List Arg × List Arg :=
  if xs.length ≥ ys.length then (xs, wrapExtend ys xs.length) else (wrapExtend xs ys.length, ys)

theorem extendPair_mem {xs ys : List Arg} {x y : Arg}
    (h : (x, y) ∈ (extendPair xs ys).1.zip (extendPair xs ys).2) : x ∈ xs ∧ y ∈ ys := by
  have h' := List.of_mem_zip h
  unfold extendPair at h'
  split at h'
  · exact ⟨h'.1, mem_wrapExtend h'.2⟩
  · exact ⟨mem_wrapExtend h'.1, h'.2⟩

/-- container of an inner result of the both-sequences branch: tuple if either element is a
    tuple, else list if either is a sequence (`t2`) -/
def innerKind (x y : Arg) : Kind :=
  if x.isTup || y.isTup then .tup
  else if x.isSeq || y.isSeq then .lst
  else .other

/-- `utils.list_binop(op, a, b, t)` -/
def listBinop {β : Type} (op : Arg → Arg → β) (t : Kind) (a b : Arg) : OpRes β :=
  if a.isSeq && b.isSeq then
    let p := extendPair a.items b.items
    if anySeq p.1 || anySeq p.2 then
      -- `for i in range(min(len(a), len(b)))`: empty when one operand is empty
      .seq t ((p.1.zip p.2).attach.map fun ⟨(x, y), _⟩ => listBinop op (innerKind x y) x y)
    else .seq t ((p.1.zip p.2).map fun (x, y) => .ap (op x y))
  else if a.isSeq then
    .seq t (a.items.attach.map fun ⟨x, _⟩ => listBinop op x.kind x b)
  else if b.isSeq then
    .seq t (b.items.attach.map fun ⟨y, _⟩ => listBinop op y.kind a y)
  else .ap (op a b)
termination_by a.size + b.size
decreasing_by
  · rename_i h
    have := extendPair_mem h
    have h1 := size_items_lt this.1
    have h2 := size_items_lt this.2
    omega
  · have := size_items_lt (by assumption : x ∈ a.items); omega
  · have := size_items_lt (by assumption : y ∈ b.items); omega

/-! ## `_replace_zeroes_with_silence`, `Out.ar` -/

mutual
/-- the `for i, item in enumerate(lst)` loop with the level's `silence`; state = next fresh object id -/
def rzItems (sil : Arg) : Nat → List Arg → Nat × List Arg
  | s, [] => (s, [])
  | s, .num 0 :: r => let q := rzItems sil s r; (q.1, sil :: q.2)
  | s, .lst c xs :: r =>
      let q1 := rzList s xs
      let q2 := rzItems sil q1.1 r
      (q2.1, .lst c q1.2 :: q2.2)
  | s, a :: r => let q := rzItems sil s r; (q.1, a :: q.2)
/-- `_replace_zeroes_with_silence(lst)`: `silence = DC.ar(0)` is a fresh object, then the loop -/
def rzList : Nat → List Arg → Nat × List Arg
  | s, xs => rzItems (.obj s) (s + 1) xs
end

/-- `Out.ar(bus, output)` and friends: `fixed` = `['audio', bus]` (Out/ReplaceOut/OffsetOut),
    `['audio', bus, xfade]` (XOut), `['audio']` (LocalOut).  Returns the next fresh id and the
    expansion of `_multi_new(*fixed, *output')`. -/
def outAr {β : Type} (f : List Arg → β) (fresh : Nat) (fixed : List Arg) (output : Arg) : Nat × Res β :=
  let q := rzList fresh (asList output)
  (q.1, multiNew f (fixed ++ q.2))

/-- `Out.kr(bus, output)`: no zero replacement -/
def outKr {β : Type} (f : List Arg → β) (fixed : List Arg) (output : Arg) : Res β :=
  multiNew f (fixed ++ asList output)

end Sc3Verif.C03
