/-
C03 — Multichannel expansion follows the wrap-and-zip law everywhere.

Property theorems only (helper lemmas are in `Lemmas*.lean`).  Every statement quantifies over
ALL argument rows (`List Arg`: any mix of numbers, objects, tuples, lists, channel lists, any
nesting), all single-channel constructors `f` (any result type) and all channel paths.
-/
import Sc3Verif.C03.LemmasOps
import Sc3Verif.C03.LemmasOut
namespace Sc3Verif.C03

/-! ## unit-generator constructors: `_multi_new` -/

/-- MAIN (recursive form, as the property is worded): if some argument is a list, the call returns
    a channel list as long as the longest list, whose `i`-th element is the same call on the
    arguments with every list replaced by its element `i mod length` (and so on recursively);
    if no argument is a list it is exactly one single-channel call. -/
theorem mce_law {β : Type} (f : List Arg → β) (args : List Arg) (he : hasEmpty args = false) :
    multiNew f args =
      if maxLen args = 0 then .leaf (f args)
      else .chan (List.ofFn fun i : Fin (maxLen args) => multiNew f (args.map (wrapAt i))) := by
  rw [multiNew_eq]
  simp only [he, Bool.false_eq_true, if_false]
  split
  · rfl
  · congr 1
    exact range_map_eq_ofFn _ _

/-- what "replaced by its element `i` modulo its length" means, and that nothing else is touched -/
theorem wrapAt_spec (i : Nat) :
    (∀ c xs (_ : xs ≠ []), xs[i % xs.length]? = some (wrapAt i (.lst c xs))) ∧
    (∀ v, wrapAt i (.num v) = .num v) ∧ (∀ k, wrapAt i (.obj k) = .obj k) ∧
    (∀ xs, wrapAt i (.tup xs) = .tup xs) :=
  ⟨fun c xs h => wrapAt_lst_getElem? c xs i h, fun _ => rfl, fun _ => rfl, fun _ => rfl⟩

/-- no list among the arguments: exactly one single-channel call with the arguments as they are -/
theorem mce_scalar {β : Type} (f : List Arg → β) (args : List Arg) (h : maxLen args = 0) :
    multiNew f args = .leaf (f args) := by
  rw [multiNew_eq, if_pos h]

/-- scalars and tuples are never expanded: they reach every single-channel call unchanged,
    whatever the channel path (a tuple may even contain lists) -/
theorem mce_untouched (p : List Nat) :
    (∀ v, sel p (.num v) = .num v) ∧ (∀ k, sel p (.obj k) = .obj k) ∧ (∀ xs, sel p (.tup xs) = .tup xs) := by
  induction p with
  | nil => exact ⟨fun _ => rfl, fun _ => rfl, fun _ => rfl⟩
  | cons i p ih => exact ⟨fun v => by simp [sel, wrapAt, ih.1], fun k => by simp [sel, wrapAt, ih.2.1],
      fun xs => by simp [sel, wrapAt, ih.2.2]⟩

/-- MAIN (closed form): the element at channel path `p` of the result exists exactly when `p` is a
    valid path, and it is the single-channel call on the row in which every argument has been
    indexed along `p` independently (`sel`): zip, not a cartesian product. -/
theorem mce_path_law {β : Type} (f : List Arg → β) (args : List Arg)
    (hne : (multiNew f args).hasErr = false) (p : List Nat) (b : β) :
    (multiNew f args).at p = some b ↔ ValidPath args p ∧ b = f (selRow p args) := by
  rw [validPath_iff_rec]; exact at_iff_validRec f args hne p b

/-- the single-channel calls are made in path (depth-first, left-to-right) order … -/
theorem mce_calls_in_path_order {β : Type} (f : List Arg → β) (args : List Arg) :
    (multiNew f args).leaves = (multiNew f args).paths.map fun p => f (selRow p args) :=
  leaves_eq_paths_map f args

/-- … one per valid channel path, no path twice: exactly one unit per combination -/
theorem mce_one_call_per_path {β : Type} (f : List Arg → β) (args : List Arg)
    (hne : (multiNew f args).hasErr = false) :
    (∀ p, p ∈ (multiNew f args).paths ↔ ValidPath args p) ∧ (multiNew f args).paths.Nodup ∧
      (multiNew f args).leaves.length = (multiNew f args).paths.length :=
  ⟨fun p => by rw [validPath_iff_rec]; exact mem_paths_iff f args hne p, paths_nodup f args,
    by rw [leaves_eq_paths_map]; simp⟩

/-- number of units ≤ product over the nesting levels of the longest list of the level -/
theorem mce_unit_count_le {β : Type} (f : List Arg → β) (args : List Arg) :
    (multiNew f args).leaves.length ≤ levelProd (rowDepth args) args :=
  leaves_length_le f args

/-- one level of lists (the usual case): exactly `longest length` units -/
theorem mce_unit_count_flat {β : Type} (f : List Arg → β) (args : List Arg)
    (hflat : rowDepth args ≤ 1) (he : hasEmpty args = false) (hn : maxLen args ≠ 0) :
    (multiNew f args).leaves.length = maxLen args := by
  rw [multiNew_eq, if_neg hn, if_neg (by simp [he])]
  simp only [Res.leaves, leavesL_map]
  have : ∀ i, (multiNew f (args.map (wrapAt i))).leaves.length = 1 := by
    intro i
    have hd := rowDepth_wrapAt_lt i args he hn
    have h0 : maxLen (args.map (wrapAt i)) = 0 := by
      apply Classical.byContradiction
      intro h
      exact rowDepth_pos_of_maxLen h (by omega)
    rw [multiNew_eq, if_pos h0]; rfl
  have gen : ∀ l : List Nat, (l.flatMap fun i => (multiNew f (args.map (wrapAt i))).leaves).length = l.length := by
    intro l
    induction l with
    | nil => rfl
    | cons x r ih => simp [List.flatMap_cons, this, ih]; omega
  rw [gen, List.length_range]

/-- the shape of the result depends on the arguments only, not on the constructor -/
theorem mce_shape_indep {β γ : Type} (f : List Arg → β) (g : List Arg → γ) (args : List Arg) :
    (multiNew f args).paths = (multiNew g args).paths :=
  paths_indep f g args

/-- the only failure is `i % len([])`: rows whose lists are non-empty at every depth never fail -/
theorem mce_no_error {β : Type} (f : List Arg → β) (args : List Arg) (h : DeepNonEmpty.allNE args) :
    (multiNew f args).hasErr = false := by
  induction args using multiNew_induct with
  | leaf args h0 => rw [multiNew_eq, if_pos h0]; rfl
  | err args hn he =>
    exfalso
    clear hn
    induction args with
    | nil => simp [hasEmpty] at he
    | cons a r ih =>
      simp only [DeepNonEmpty.allNE] at h
      cases a with
      | lst c xs =>
        cases xs with
        | nil => simp [DeepNonEmpty] at h
        | cons y ys => simp only [hasEmpty] at he; exact ih he h.2
      | num v => simp only [hasEmpty] at he; exact ih he h.2
      | obj v => simp only [hasEmpty] at he; exact ih he h.2
      | tup v => simp only [hasEmpty] at he; exact ih he h.2
  | chan args hn he ih =>
    rw [multiNew_eq, if_neg hn, if_neg (by simp [he])]
    simp only [Res.hasErr]
    rw [hasErrL_range_map]
    intro i hi
    apply ih i
    clear ih hn he hi
    induction args with
    | nil => trivial
    | cons a r ih' =>
      simp only [DeepNonEmpty.allNE] at h
      simp only [List.map_cons, DeepNonEmpty.allNE]
      refine ⟨?_, ih' h.2⟩
      cases a with
      | lst c xs =>
        cases xs with
        | nil => simp [DeepNonEmpty] at h
        | cons y ys =>
          simp only [wrapAt]
          have hm : (y :: ys)[i % (ys.length + 1)]'(Nat.mod_lt _ (Nat.succ_pos _)) ∈ y :: ys :=
            List.getElem_mem _
          exact deepNonEmpty_mem h.1 hm
      | num v => trivial
      | obj v => trivial
      | tup v => trivial

/-! ## arithmetic on channel lists: `list_unop`, `list_binop`, `wrap_extend` -/

/-- `wrap_extend(l, n)` has length `n` and `wrap_extend(l, n)[i] = l[i mod len(l)]` -/
theorem wrap_extend_law {α : Type} (l : List α) (n : Nat) (hl : l ≠ []) :
    (wrapExtend l n).length = n ∧ ∀ i, i < n → (wrapExtend l n)[i]? = l[i % l.length]? :=
  ⟨wrapExtend_length l n hl, fun i hi => by rw [wrapExtend_getElem? l n i hl, if_pos hi]⟩

/-- `(a op b)[i] = a[i mod |a|] op b[i mod |b|]`, recursively: on lists (no tuples, nothing
    empty) `list_binop` builds exactly the tree `_multi_new` builds for a two-argument unit, so
    channel-list arithmetic and `BinaryOpUGen.new(op, a, b)` obey the same law (and `mce_law`,
    `mce_path_law` apply to it).  Holds for every result container `t`. -/
theorem binop_law {β : Type} (op : Arg → Arg → β) (f : List Arg → β)
    (hf : ∀ x y, f [x, y] = op x y) (t : Kind) (a b : Arg)
    (hta : TupleFree a) (htb : TupleFree b) (hna : DeepNonEmpty a) (hnb : DeepNonEmpty b) :
    (listBinop op t a b).toRes = multiNew f [a, b] :=
  binop_eq_multiNew op f hf t a b hta htb hna hnb

/-- same for unary operators -/
theorem unop_law {β : Type} (op : Arg → β) (f : List Arg → β) (hf : ∀ x, f [x] = op x)
    (t : Kind) (a : Arg) (hta : TupleFree a) (hna : DeepNonEmpty a) :
    (listUnop op t a).toRes = multiNew f [a] :=
  unop_eq_multiNew op f hf t a hta hna

/-- n-ary operators (`list_narop`) expand over the receiver only; the extra arguments reach every
    application unchanged -/
theorem narop_law {β : Type} (op : Arg → List Arg → β) (args : List Arg) (f : List Arg → β)
    (hf : ∀ x, f [x] = op x args) (t : Kind) (a : Arg) (hta : TupleFree a) (hna : DeepNonEmpty a) :
    (listNarop op t a args).toRes = multiNew f [a] :=
  narop_eq_multiNew op args f hf t a hta hna

/-- the outermost container of an operator result is the one asked for (`ChannelList`) -/
theorem binop_container {β : Type} (op : Arg → Arg → β) (t : Kind) (a b : Arg)
    (h : a.isSeq = true ∨ b.isSeq = true) :
    ∃ rs, listBinop op t a b = .seq t rs := by
  rw [listBinop]
  by_cases ha : a.isSeq = true <;> by_cases hb : b.isSeq = true
  · simp only [ha, hb, Bool.and_self, if_true]
    split
    · exact ⟨_, rfl⟩
    · exact ⟨_, rfl⟩
  · simp only [ha, hb, Bool.and_false, Bool.false_eq_true, if_false, if_true]
    exact ⟨_, rfl⟩
  · simp only [ha, hb, Bool.false_and, Bool.false_eq_true, if_false, if_true]
    exact ⟨_, rfl⟩
  · rcases h with h | h <;> contradiction

/-! ## convenience methods: `flop`, `_multichannel_perform` -/

/-- `flop`: row `i` holds, for every column, its element `i mod length` (scalars, tuples and
    strings are columns of length one); as many rows as the longest column -/
theorem flop_law (cols : List Arg) (hc : cols ≠ []) (he : hasEmpty cols = false) :
    flop cols =
      (List.range (max (maxLen cols) (if cols.all Arg.isList then 0 else 1))).map
        fun i => cols.map (wrapAt i) :=
  flop_eq cols hc he

/-- a convenience method on a channel list is ONE level of the same law: element `i` of the
    result is the method called on element `i mod n` of the receiver with every list argument
    replaced by its element `i mod length`; the result is as long as the longest of them -/
theorem perform_law {β : Type} (f : List Arg → β) (self : List Arg) (args : List Arg)
    (hs : self ≠ []) (he : hasEmpty args = false) :
    multichannelPerform f self args =
      (List.range (maxLen (.lst true self :: args))).map
        fun i => f ((Arg.lst true self :: args).map (wrapAt i)) := by
  unfold multichannelPerform
  have he' : hasEmpty (Arg.lst true self :: args) = false := by
    cases self with
    | nil => exact absurd rfl hs
    | cons x r => simpa [hasEmpty] using he
  rw [flop_eq _ (by simp) he', List.map_map]
  have hpos : 0 < self.length := List.length_pos_iff.mpr hs
  have hm : max (maxLen (Arg.lst true self :: args))
      (if (Arg.lst true self :: args).all Arg.isList then 0 else 1) = maxLen (Arg.lst true self :: args) := by
    simp only [maxLen]
    split <;> omega
  rw [hm]
  rfl

/-! ## output units: zero replacement and flattening -/

/-- `Out.ar(bus, xs)`: the units are those of `_multi_new('audio', bus, *xs')` where `xs'` is the
    zero-replaced `as_list(xs)`; one silence per list level visited (the top level plus every
    nested list), whether or not the level contains a zero -/
theorem out_flatten {β : Type} (f : List Arg → β) (s : Nat) (fixed : List Arg) (output : Arg) :
    outAr f s fixed output =
      (s + 1 + Arg.nLists.nListsL (asList output),
       multiNew f (fixed ++ (rzList s (asList output)).2)) := by
  simp [outAr, rzList_count]

/-- zero replacement keeps the shape and every item that is not a literal zero; zeros become
    objects created by this call (ids ≥ `s`); so undoing it gives the input back -/
theorem silence_only_replaces_zeros (s : Nat) (xs : List Arg) (hb : Below.belowL s xs) :
    unrep.unrepL s (rzList s xs).2 = xs :=
  rzList_unrep s xs hb

/-- after replacement no literal zero is left at any list depth … -/
theorem silence_leaves_no_zero (s : Nat) (xs : List Arg) : ZeroFree.allZF (rzList s xs).2 :=
  rzList_zeroFree s xs

/-- the replacement is a function of the VALUES and is the identity on its own output: a list that
    holds no literal zero comes back unchanged.  (The real code replaces in place in a private copy;
    if it ever did so in the caller's list — seeded change C03-r4m2 — a second build would find the
    first build's silences instead of zeros and keep them: exactly this identity.) -/
theorem silence_idempotent (s s' : Nat) (xs : List Arg) :
    (rzList s' (rzList s xs).2).2 = (rzList s xs).2 := by
  rw [rzList.eq_1 s']
  exact rz_id_of_zeroFree _ _ _ (rzList_zeroFree s xs)

/-- … hence no output unit ever receives a literal zero as a channel, at any channel path
    (tuples are opaque and are not inspected) -/
theorem out_no_literal_zero (s : Nat) (fixed : List Arg) (output : Arg) :
    ∀ row ∈ (outAr id s fixed output).2.leaves, ∀ x ∈ row.drop fixed.length, ZeroFree x := by
  intro row hrow x hx
  simp only [outAr] at hrow
  rw [leaves_eq_paths_map] at hrow
  obtain ⟨p, _, rfl⟩ := List.mem_map.mp hrow
  simp only [id, selRow, List.map_append] at hx
  rw [List.drop_left' (by simp)] at hx
  obtain ⟨y, hy, rfl⟩ := List.mem_map.mp hx
  exact zeroFree_sel p y (zeroFree_mem (rzList_zeroFree s _) hy)

/-- zeros of one level share one silence, and the silences of nested levels are different
    objects: all objects created lie in `[s, s + levels)` and the top level uses exactly `s` -/
theorem silence_levels (s : Nat) (xs : List Arg) (hb : Below.belowL s xs) :
    FreshIn.freshInL s (rzList s xs).1 (rzList s xs).2 ∧
      (rzList s xs).2 = (rzItems (.obj s) (s + 1) xs).2 := by
  refine ⟨?_, by rw [rzList.eq_1]⟩
  rw [rzList.eq_1]
  have hb' : Below.belowL s xs := hb
  -- ids in the input are below s, so every id ≥ s in the output was created here
  have := rz_freshIn (.obj s) (s + 1) xs s (by omega) ⟨s, rfl, by omega⟩ hb'
  exact this

/-! ## non-vacuity: concrete instances -/

/-- `SinOsc.ar([100, 200, 300], [0, 0.5])` -/
def exArgs : List Arg :=
  [.obj 90, .lst false [.num 100, .num 200, .num 300], .lst false [.num 0, .num 512]]

example : multiNew id exArgs =
    .chan [.leaf [.obj 90, .num 100, .num 0], .leaf [.obj 90, .num 200, .num 512],
           .leaf [.obj 90, .num 300, .num 0]] := by
  rw [multiNew_eq]
  simp [exArgs, maxLen, hasEmpty, wrapAt, List.range, List.range.loop]
  refine ⟨?_, ?_, ?_⟩ <;> exact mce_scalar _ _ rfl

/-- nested: `SinOsc.ar([[1, 2], 3], (7, [8]))` — the tuple is untouched although it holds a list -/
def exNested : List Arg :=
  [.lst false [.lst true [.num 1, .num 2], .num 3], .tup [.num 7, .lst false [.num 8]]]

example : ValidPath exNested [0, 1] ∧ ¬ ValidPath exNested [1, 0] ∧
    selRow [0, 1] exNested = [.num 2, .tup [.num 7, .lst false [.num 8]]] := by
  refine ⟨?_, ?_, ?_⟩
  · rw [validPath_iff_rec]; simp [ValidRec, exNested, maxLen, wrapAt]
  · rw [validPath_iff_rec]; simp [ValidRec, exNested, maxLen, wrapAt]
  · simp [selRow, sel, exNested, wrapAt]

example : DeepNonEmpty.allNE exNested ∧ TupleFree (.lst true [.num 1, .lst false [.obj 2]]) := by
  simp [exNested, DeepNonEmpty.allNE, DeepNonEmpty, TupleFree, TupleFree.allTF]

/-- `Out.ar(0, [0, x0, [0, x1]])` with fresh ids from 1000 -/
example : outAr id 1000 [.obj 90, .num 0] (.lst false [.num 0, .obj 0, .lst false [.num 0, .obj 1]]) =
    (1002, .chan [.leaf [.obj 90, .num 0, .obj 1000, .obj 0, .obj 1001],
                  .leaf [.obj 90, .num 0, .obj 1000, .obj 0, .obj 1]]) := by
  simp only [outAr, rzList, rzItems, asList, List.cons_append, List.nil_append]
  rw [multiNew_eq]
  simp [maxLen, hasEmpty, wrapAt, List.range, List.range.loop]
  refine ⟨?_, ?_⟩ <;> exact mce_scalar _ _ rfl

example : Below.belowL 1000 [.num 0, .obj 0, .lst false [.num 0, .obj 1]] := by
  simp [Below.belowL, Below]

end Sc3Verif.C03
