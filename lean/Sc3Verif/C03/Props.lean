/-
C03 — Multichannel expansion follows the wrap-and-zip law everywhere.
Property theorems only (helper lemmas are in `Lemmas.lean`).
-/
import Sc3Verif.C03.Lemmas
namespace Sc3Verif.C03

/-- MAIN (recursive form, as the property is worded): if some argument is a list, the call returns
    a channel list as long as the longest list, whose `i`-th element is the same call on the
    arguments with every list replaced by its element `i mod length` (and so on recursively);
    if no argument is a list it is exactly one single-channel call. -/
theorem mce_law {β : Type} (f : List Arg → β) (args : List Arg) (he : hasEmpty args = false) :
    multiNew f args =
      if maxLen args = 0 then .leaf (f args)
      else .chan (List.ofFn fun i : Fin (maxLen args) => multiNew f (args.map (wrapAt i))) := by
  rw [multiNew_eq]
  simp only [he, Bool.false_eq_true, if_false]
  split
  · rfl
  · congr 1
    exact range_map_eq_ofFn _ _

end Sc3Verif.C03
