/-
C03 line-protocol driver:  `lake env lean --run Sc3Verif/C03/Driver.lean < ops`
One op per line, one output line per op.

Values (space separated tokens):  n<int>  o<nat>  ( t … )  ( l … )  ( c … )   written "(t", "(l", "(c", ")".
Ops:
  mn <args…>                        _multi_new on the row            -> tree, leaves `{row}`
  outar <fresh> <nfixed> <vals…>    Out.ar-style preparation         -> `<silences> <leaves…>`
  outkr <nfixed> <vals…>                                             -> `<leaves…>`
  lbinop <k> <a> <b> | lunop <k> <a> | lnarop <k> <a> <args…>        -> kinds + applications
  wrapext <n> <items…> | flop <cols…> | perform <self> <args…>
-/
import Sc3Verif.C03.Model
open Sc3Verif.C03

partial def parseVals : List String → List Arg → Option (List Arg × List String)
  | [], acc => some (acc.reverse, [])
  | ")" :: rest, acc => some (acc.reverse, ")" :: rest)
  | t :: rest, acc =>
    if t == "(t" || t == "(l" || t == "(c" then
      match parseVals rest [] with
      | some (xs, ")" :: rest') =>
        let a := if t == "(t" then Arg.tup xs else Arg.lst (t == "(c") xs
        parseVals rest' (a :: acc)
      | _ => none
    else if t.startsWith "n" then
      match (t.drop 1).toString.toInt? with
      | some v => parseVals rest (.num v :: acc)
      | none => none
    else if t.startsWith "o" then
      match (t.drop 1).toString.toNat? with
      | some v => parseVals rest (.obj v :: acc)
      | none => none
    else none

def parseAll (ts : List String) : Option (List Arg) :=
  match parseVals ts [] with
  | some (xs, []) => some xs
  | _ => none

partial def showArg : Arg → String
  | .num v => s!"n{v}"
  | .obj i => s!"o{i}"
  | .tup xs => "(t" ++ String.join (xs.map fun x => " " ++ showArg x) ++ " )"
  | .lst c xs => (if c then "(c" else "(l") ++ String.join (xs.map fun x => " " ++ showArg x) ++ " )"

def showRow (xs : List Arg) : String := " ".intercalate (xs.map showArg)

partial def showRes : Res (List Arg) → String
  | .leaf r => "{" ++ showRow r ++ "}"
  | .chan rs => "[" ++ " ".intercalate (rs.map showRes) ++ "]"
  | .err => "ERR"

def kindChar : Kind → String
  | .tup => "t" | .lst => "l" | .chl => "c" | .other => "?"

partial def showOp : OpRes (List Arg) → String
  | .ap r => "{" ++ showRow r ++ "}"
  | .seq k rs => kindChar k ++ "[" ++ " ".intercalate (rs.map showOp) ++ "]"
  | .err => "ERR"

def parseKind : String → Option Kind
  | "t" => some .tup | "l" => some .lst | "c" => some .chl | _ => none

def leavesLine (r : Res (List Arg)) : String :=
  if r.hasErr then "ERR" else " ".intercalate (r.leaves.map fun row => "{" ++ showRow row ++ "}")

def handle (line : String) : String :=
  match (line.trimAscii.toString.splitOn " ").filter (· ≠ "") with
  | "mn" :: ts =>
    match parseAll ts with
    | some args => showRes (multiNew id args)
    | none => "bad-op"
  | "outar" :: fresh :: nf :: ts =>
    match fresh.toNat?, nf.toNat?, parseAll ts with
    | some s, some n, some vals =>
      match vals.drop n with
      | [output] =>
        let q := outAr id s (vals.take n) output
        s!"{q.1 - s} " ++ leavesLine q.2
      | _ => "bad-op"
    | _, _, _ => "bad-op"
  | "outkr" :: nf :: ts =>
    match nf.toNat?, parseAll ts with
    | some n, some vals =>
      match vals.drop n with
      | [output] => leavesLine (outKr id (vals.take n) output)
      | _ => "bad-op"
    | _, _ => "bad-op"
  | "lbinop" :: k :: ts =>
    match parseKind k, parseAll ts with
    | some k, some [a, b] => showOp (listBinop (fun x y => [x, y]) k a b)
    | _, _ => "bad-op"
  | "lunop" :: k :: ts =>
    match parseKind k, parseAll ts with
    | some k, some [a] => showOp (listUnop (fun x => [x]) k a)
    | _, _ => "bad-op"
  | "lnarop" :: k :: ts =>
    match parseKind k, parseAll ts with
    | some k, some (a :: args) => showOp (listNarop (fun x as => x :: as) k a args)
    | _, _ => "bad-op"
  | "wrapext" :: n :: ts =>
    match n.toNat?, parseAll ts with
    | some n, some xs => showRow (wrapExtend xs n)
    | _, _ => "bad-op"
  | "flop" :: ts =>
    match parseAll ts with
    | some cols => " ".intercalate ((flop cols).map fun r => "{" ++ showRow r ++ "}")
    | none => "bad-op"
  | "perform" :: ts =>
    match parseAll ts with
    | some (.lst _ self :: args) =>
      " ".intercalate ((multichannelPerform id self args).map fun r => "{" ++ showRow r ++ "}")
    | _ => "bad-op"
  | _ => "bad-op"

partial def loop (h : IO.FS.Stream) (out : IO.FS.Stream) : IO Unit := do
  let line ← h.getLine
  if line.isEmpty then return ()
  out.putStrLn (handle line)
  loop h out

def main : IO Unit := do
  loop (← IO.getStdin) (← IO.getStdout)
