/-
C03 — helper lemmas for `_replace_zeroes_with_silence` and the output units.
-/
import Sc3Verif.C03.Lemmas
namespace Sc3Verif.C03

/-- undo the replacement: every object with id ≥ `fresh` at a list position becomes a literal zero -/
def unrep (fresh : Nat) : Arg → Arg
  | .obj k => if fresh ≤ k then .num 0 else .obj k
  | .lst c xs => .lst c (unrepL xs)
  | a => a
where unrepL : List Arg → List Arg
  | [] => []
  | x :: r => unrep fresh x :: unrepL r

/-- every object at a list position has an id below `fresh` (tuples are not inspected) -/
def Below (fresh : Nat) : Arg → Prop
  | .obj k => k < fresh
  | .lst _ xs => belowL xs
  | _ => True
where belowL : List Arg → Prop
  | [] => True
  | x :: r => Below fresh x ∧ belowL r

/-- all object ids ≥ `lo` at list positions are below `hi` -/
def FreshIn (lo hi : Nat) : Arg → Prop
  | .obj k => lo ≤ k → k < hi
  | .lst _ xs => freshInL xs
  | _ => True
where freshInL : List Arg → Prop
  | [] => True
  | x :: r => FreshIn lo hi x ∧ freshInL r

theorem rz_count :
    ∀ (sil : Arg) (s : Nat) (xs : List Arg), (rzItems sil s xs).1 = s + Arg.nLists.nListsL xs := by
  intro sil s xs
  refine rzItems.induct
    (motive1 := fun sil s xs => (rzItems sil s xs).1 = s + Arg.nLists.nListsL xs)
    (motive2 := fun s xs => (rzList s xs).1 = s + 1 + Arg.nLists.nListsL xs)
    ?_ ?_ ?_ ?_ ?_ sil s xs
  · intro sil s; simp [rzItems, Arg.nLists.nListsL]
  · intro sil s r ih; simp [rzItems.eq_2, Arg.nLists.nListsL, Arg.nLists, ih]
  · intro sil s c xs r q1 ih2 ih1
    simp only [rzItems.eq_3, Arg.nLists.nListsL, Arg.nLists]
    rw [ih1, ih2]; omega
  · intro sil s a r h1 h2 ih
    rw [rzItems.eq_4 sil s a r h1 h2]
    have : a.nLists = 0 := by
      cases a with
      | lst c xs => exact absurd rfl (h2 c xs)
      | _ => rfl
    simp [Arg.nLists.nListsL, this, ih]
  · intro s xs ih
    rw [rzList.eq_1, ih]

theorem rzList_count (s : Nat) (xs : List Arg) : (rzList s xs).1 = s + 1 + Arg.nLists.nListsL xs := by
  rw [rzList.eq_1, rz_count]

/-- no literal zero is left at a list position of any depth -/
theorem rz_zeroFree (sil : Arg) (s : Nat) (xs : List Arg) (hs : ∃ k, sil = .obj k) :
    ZeroFree.allZF (rzItems sil s xs).2 := by
  revert hs
  refine rzItems.induct
    (motive1 := fun sil s xs => (∃ k, sil = .obj k) → ZeroFree.allZF (rzItems sil s xs).2)
    (motive2 := fun s xs => ZeroFree.allZF (rzList s xs).2)
    ?_ ?_ ?_ ?_ ?_ sil s xs
  · intro sil s _; simp [rzItems, ZeroFree.allZF]
  · intro sil s r ih hs
    obtain ⟨k, rfl⟩ := hs
    simp only [rzItems.eq_2, ZeroFree.allZF, ZeroFree, true_and]
    exact ih ⟨k, rfl⟩
  · intro sil s c xs r q1 ih2 ih1 hs
    simp only [rzItems.eq_3, ZeroFree.allZF, ZeroFree]
    exact ⟨ih2, ih1 hs⟩
  · intro sil s a r h1 h2 ih hs
    rw [rzItems.eq_4 sil s a r h1 h2]
    simp only [ZeroFree.allZF]
    refine ⟨?_, ih hs⟩
    cases a with
    | num v => simp only [ZeroFree]; intro hv; exact h1 (by rw [hv])
    | lst c xs => exact absurd rfl (h2 c xs)
    | obj v => simp [ZeroFree]
    | tup v => simp [ZeroFree]
  · intro s xs ih
    rw [rzList.eq_1]; exact ih ⟨s, rfl⟩

theorem rzList_zeroFree (s : Nat) (xs : List Arg) : ZeroFree.allZF (rzList s xs).2 := by
  rw [rzList.eq_1]; exact rz_zeroFree _ _ _ ⟨s, rfl⟩

/-- undoing the replacement gives back the input: the shape is preserved, every item that is not a
    literal zero is untouched, and zeros are replaced by fresh objects only -/
theorem rz_unrep (sil : Arg) (s : Nat) (xs : List Arg) (fresh : Nat) (hf : fresh ≤ s)
    (hs : ∃ k, sil = .obj k ∧ fresh ≤ k) (hb : Below.belowL fresh xs) :
    unrep.unrepL fresh (rzItems sil s xs).2 = xs := by
  revert fresh
  refine rzItems.induct
    (motive1 := fun sil s xs => ∀ fresh, fresh ≤ s → (∃ k, sil = .obj k ∧ fresh ≤ k) →
      Below.belowL fresh xs → unrep.unrepL fresh (rzItems sil s xs).2 = xs)
    (motive2 := fun s xs => ∀ fresh, fresh ≤ s → Below.belowL fresh xs →
      unrep.unrepL fresh (rzList s xs).2 = xs)
    ?_ ?_ ?_ ?_ ?_ sil s xs
  · intro sil s fresh _ _ _; simp [rzItems, unrep.unrepL]
  · intro sil s r ih fresh hf hs hb
    obtain ⟨k, rfl, hk⟩ := hs
    simp only [Below.belowL] at hb
    simp only [rzItems.eq_2, unrep.unrepL, unrep, hk, if_true]
    rw [ih fresh hf ⟨k, rfl, hk⟩ hb.2]
  · intro sil s c xs r q1 ih2 ih1 fresh hf hs hb
    simp only [Below.belowL, Below] at hb
    simp only [rzItems.eq_3, unrep.unrepL, unrep]
    have hmono : fresh ≤ (rzList s xs).1 := by rw [rzList_count]; omega
    rw [ih2 fresh hf hb.1, ih1 fresh hmono hs hb.2]
  · intro sil s a r h1 h2 ih fresh hf hs hb
    simp only [Below.belowL] at hb
    rw [rzItems.eq_4 sil s a r h1 h2]
    simp only [unrep.unrepL]
    rw [ih fresh hf hs hb.2]
    congr 1
    cases a with
    | num v => rfl
    | lst c xs => exact absurd rfl (h2 c xs)
    | obj v =>
      have : v < fresh := by simpa [Below] using hb.1
      simp only [unrep]
      rw [if_neg (by omega)]
    | tup v => rfl
  · intro s xs ih fresh hf hb
    rw [rzList.eq_1]
    exact ih fresh (by omega) ⟨s, rfl, hf⟩ hb

theorem rzList_unrep (s : Nat) (xs : List Arg) (hb : Below.belowL s xs) :
    unrep.unrepL s (rzList s xs).2 = xs := by
  rw [rzList.eq_1]
  exact rz_unrep _ _ _ s (by omega) ⟨s, rfl, Nat.le_refl _⟩ hb

/-- the silences of nested levels are newer than the silence of the enclosing level, and all
    of them are among the ids handed out by this call -/
theorem rz_freshIn (sil : Arg) (s : Nat) (xs : List Arg) (lo : Nat) (hlo : lo ≤ s)
    (hs : ∃ k, sil = .obj k ∧ k < s) (hb : Below.belowL lo xs) :
    FreshIn.freshInL lo (rzItems sil s xs).1 (rzItems sil s xs).2 := by
  refine (rzItems.induct
    (motive1 := fun sil s xs => ∀ lo, lo ≤ s → (∃ k, sil = .obj k ∧ k < s) →
      Below.belowL lo xs → FreshIn.freshInL lo (rzItems sil s xs).1 (rzItems sil s xs).2)
    (motive2 := fun s xs => ∀ lo, lo ≤ s → Below.belowL lo xs →
      FreshIn.freshInL lo (rzList s xs).1 (rzList s xs).2)
    ?_ ?_ ?_ ?_ ?_ sil s xs) lo hlo hs hb
  · intro sil s lo _ _ _; simp [rzItems, FreshIn.freshInL]
  · intro sil s r ih lo hlo hs hb
    obtain ⟨k, rfl, hk⟩ := hs
    simp only [Below.belowL] at hb
    simp only [rzItems.eq_2, FreshIn.freshInL, FreshIn]
    refine ⟨?_, ih lo hlo ⟨k, rfl, hk⟩ hb.2⟩
    intro _; rw [rz_count]; omega
  · intro sil s c xs r
    dsimp only
    intro ih2 ih1 lo hlo hs hb
    obtain ⟨k, rfl, hk⟩ := hs
    simp only [Below.belowL, Below] at hb
    simp only [rzItems.eq_3, FreshIn.freshInL, FreshIn]
    have hmono : s ≤ (rzList s xs).1 := by rw [rzList_count]; omega
    refine ⟨?_, ih1 lo (by omega) ⟨k, rfl, by omega⟩ hb.2⟩
    have h2 := ih2 lo hlo hb.1
    -- widen the upper bound
    have widen : ∀ (hi hi' : Nat) (ys : List Arg), hi ≤ hi' →
        FreshIn.freshInL lo hi ys → FreshIn.freshInL lo hi' ys := by
      intro hi hi' ys hle
      have aux : ∀ n (ys : List Arg), Arg.size.sizeL ys ≤ n →
          FreshIn.freshInL lo hi ys → FreshIn.freshInL lo hi' ys := by
        intro n
        induction n with
        | zero =>
          intro ys hn h
          cases ys with
          | nil => trivial
          | cons y r => simp [Arg.size.sizeL] at hn
        | succ n ihn =>
          intro ys hn h
          cases ys with
          | nil => trivial
          | cons y r =>
            simp only [Arg.size.sizeL] at hn
            simp only [FreshIn.freshInL] at h ⊢
            refine ⟨?_, ihn r (by omega) h.2⟩
            cases y with
            | obj v => simp only [FreshIn] at h ⊢; intro hv; have := h.1 hv; omega
            | lst c zs =>
              simp only [FreshIn] at h ⊢
              simp only [Arg.size] at hn
              exact ihn zs (by omega) h.1
            | num v => trivial
            | tup v => trivial
      exact aux _ ys (Nat.le_refl _)
    refine widen _ _ _ ?_ h2
    rw [rz_count]; omega
  · intro sil s a r h1 h2 ih lo hlo hs hb
    simp only [Below.belowL] at hb
    rw [rzItems.eq_4 sil s a r h1 h2]
    simp only [FreshIn.freshInL]
    refine ⟨?_, ih lo hlo hs hb.2⟩
    cases a with
    | num v => trivial
    | lst c xs => exact absurd rfl (h2 c xs)
    | obj v =>
      have : v < lo := by simpa [Below] using hb.1
      simp only [FreshIn]; intro h; omega
    | tup v => trivial
  · intro s xs ih lo hlo hb
    rw [rzList.eq_1]
    exact ih lo (by omega) ⟨s, rfl, by omega⟩ hb

/-! ## selection preserves zero-freeness: no output unit ever gets a literal zero -/

theorem zeroFree_mem {xs : List Arg} {x : Arg} (h : ZeroFree.allZF xs) (hx : x ∈ xs) : ZeroFree x := by
  induction xs with
  | nil => cases hx
  | cons y r ih =>
    simp only [ZeroFree.allZF] at h
    rcases List.mem_cons.mp hx with rfl | h'
    · exact h.1
    · exact ih h.2 h'

theorem zeroFree_wrapAt (i : Nat) (a : Arg) (h : ZeroFree a) : ZeroFree (wrapAt i a) := by
  cases a with
  | lst c xs =>
    cases xs with
    | nil => simpa [wrapAt] using h
    | cons x r =>
      simp only [wrapAt]
      simp only [ZeroFree] at h
      exact zeroFree_mem h (List.getElem_mem _)
  | num v => simpa [wrapAt] using h
  | obj v => simpa [wrapAt] using h
  | tup v => simpa [wrapAt] using h

theorem zeroFree_sel (p : List Nat) (a : Arg) (h : ZeroFree a) : ZeroFree (sel p a) := by
  induction p generalizing a with
  | nil => exact h
  | cons i p ih => exact ih _ (zeroFree_wrapAt i a h)

theorem allZF_iff {xs : List Arg} : ZeroFree.allZF xs ↔ ∀ x ∈ xs, ZeroFree x := by
  induction xs with
  | nil => simp [ZeroFree.allZF]
  | cons y r ih => simp [ZeroFree.allZF, ih]


/-- on a list without literal zeros the replacement changes nothing (it only hands out ids) -/
theorem rz_id_of_zeroFree (sil : Arg) (s : Nat) (xs : List Arg) (h : ZeroFree.allZF xs) :
    (rzItems sil s xs).2 = xs := by
  revert h
  refine rzItems.induct
    (motive1 := fun sil s xs => ZeroFree.allZF xs → (rzItems sil s xs).2 = xs)
    (motive2 := fun s xs => ZeroFree.allZF xs → (rzList s xs).2 = xs)
    ?_ ?_ ?_ ?_ ?_ sil s xs
  · intro sil s _; simp [rzItems]
  · intro sil s r _ h
    simp [ZeroFree.allZF, ZeroFree] at h
  · intro sil s c xs r
    dsimp only
    intro ih2 ih1 h
    simp only [ZeroFree.allZF, ZeroFree] at h
    simp only [rzItems.eq_3]
    rw [ih2 h.1, ih1 h.2]
  · intro sil s a r h1 h2 ih h
    simp only [ZeroFree.allZF] at h
    rw [rzItems.eq_4 sil s a r h1 h2]
    simp only
    rw [ih h.2]
  · intro s xs ih h
    rw [rzList.eq_1]; exact ih h

end Sc3Verif.C03
