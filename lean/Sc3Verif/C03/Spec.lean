/-
C03 — the abstract specification of multichannel expansion ("wrap and zip"), in closed form.

`sel p a` is the value an argument `a` contributes to the unit at channel path `p`
(`p = [i₀, i₁, …]`, one index per nesting level): a list contributes its element
`i₀ mod length`, then that element is indexed by `i₁`, …; anything that is not a list
(number, UGen, tuple) contributes itself at every level.  The unit at path `p` of
`C.ar(a₀, a₁, …)` is `C.ar(sel p a₀, sel p a₁, …)`: every argument is indexed independently
(zip, not a cartesian product), and a path is valid when each index is below the longest
list seen at its level.
-/
import Sc3Verif.C03.Model
namespace Sc3Verif.C03

/-- what argument `a` contributes at channel path `p` -/
def sel : List Nat → Arg → Arg
  | [], a => a
  | i :: p, a => sel p (wrapAt i a)

/-- the argument row of the single-channel call at path `p` -/
def selRow (p : List Nat) (args : List Arg) : List Arg := args.map (sel p)

/-- Closed form of "p is a channel path of the expansion of `args`": every index is below the
    longest list of the row selected by the indices before it, and the fully selected row has
    no list left. -/
def ValidPath (args : List Arg) (p : List Nat) : Prop :=
  (∀ k (h : k < p.length), p[k] < maxLen (selRow (p.take k) args)) ∧ maxLen (selRow p args) = 0

/-- all index paths of the leaves of a result, in creation (depth-first) order -/
def Res.paths {β : Type} : Res β → List (List Nat)
  | .leaf _ => [[]]
  | .chan rs => pathsL 0 rs
  | .err => []
where pathsL : Nat → List (Res β) → List (List Nat)
  | _, [] => []
  | i, r :: rs => (r.paths.map (i :: ·)) ++ pathsL (i + 1) rs

/-- direct children of the list arguments of a row (the candidates of the next level) -/
def children : List Arg → List Arg
  | [] => []
  | .lst _ xs :: r => xs ++ children r
  | _ :: r => children r

/-- longest list at nesting level `k` anywhere in the row -/
def levelMax : Nat → List Arg → Nat
  | 0, args => maxLen args
  | k + 1, args => levelMax k (children args)

/-- `∏_{k < d} max 1 (levelMax k args)`: the size of the full rectangular expansion -/
def levelProd : Nat → List Arg → Nat
  | 0, _ => 1
  | d + 1, args => max 1 (maxLen args) * levelProd d (children args)

/-- no list reachable through lists is empty (then no `ZeroDivisionError` can occur) -/
def DeepNonEmpty : Arg → Prop
  | .lst _ xs => xs ≠ [] ∧ allNE xs
  | _ => True
where allNE : List Arg → Prop
  | [] => True
  | x :: r => DeepNonEmpty x ∧ allNE r

/-- no tuple anywhere (the domain on which `list_binop` and `_multi_new` agree) -/
def TupleFree : Arg → Prop
  | .lst _ xs => allTF xs
  | .tup _ => False
  | _ => True
where allTF : List Arg → Prop
  | [] => True
  | x :: r => TupleFree x ∧ allTF r

/-- no literal zero at a list position of any depth (tuples are not inspected) -/
def ZeroFree : Arg → Prop
  | .num v => v ≠ 0
  | .lst _ xs => allZF xs
  | _ => True
where allZF : List Arg → Prop
  | [] => True
  | x :: r => ZeroFree x ∧ allZF r

/-- number of `list` nodes (the levels `_replace_zeroes_with_silence` visits below the top) -/
def Arg.nLists : Arg → Nat
  | .lst _ xs => 1 + nListsL xs
  | _ => 0
where nListsL : List Arg → Nat
  | [] => 0
  | x :: r => x.nLists + nListsL r

/-- forget container kinds of an operator result -/
def OpRes.toRes {β : Type} : OpRes β → Res β
  | .ap b => .leaf b
  | .seq _ rs => .chan (toResL rs)
  | .err => .err
where toResL : List (OpRes β) → List (Res β)
  | [] => []
  | r :: rs => r.toRes :: toResL rs

end Sc3Verif.C03
