/-
C03 — helper lemmas for `wrap_extend`, `flop`, `list_unop`, `list_binop`.
-/
import Sc3Verif.C03.Lemmas
namespace Sc3Verif.C03

/-! ## `wrap_extend` -/

theorem getElem?_replicate_flatten_append {α : Type} (l t : List α) (k i : Nat) (hl : l ≠ []) :
    ((List.replicate k l).flatten ++ t)[i]? =
      if i < k * l.length then l[i % l.length]? else t[i - k * l.length]? := by
  have hpos : 0 < l.length := List.length_pos_iff.mpr hl
  induction k generalizing i with
  | zero => simp
  | succ k ih =>
    rw [List.replicate_succ, List.flatten_cons, List.append_assoc]
    by_cases h : i < l.length
    · rw [List.getElem?_append_left h]
      have : i < (k + 1) * l.length := by rw [Nat.add_mul]; omega
      simp [this, Nat.mod_eq_of_lt h]
    · have h' : l.length ≤ i := Nat.le_of_not_lt h
      rw [List.getElem?_append_right h', ih]
      have e1 : (i - l.length) % l.length = i % l.length := by
        conv => rhs; rw [← Nat.sub_add_cancel h', Nat.add_mod_right]
      have e2 : i - l.length - k * l.length = i - (k + 1) * l.length := by rw [Nat.add_mul]; omega
      have e3 : (i - l.length < k * l.length) ↔ (i < (k + 1) * l.length) := by rw [Nat.add_mul]; omega
      simp only [e1, e2, e3]

/-- `wrap_extend(l, n)[i] == l[i % len(l)]` for `i < n`, and its length is `n` -/
theorem wrapExtend_getElem? {α : Type} (l : List α) (n i : Nat) (hl : l ≠ []) :
    (wrapExtend l n)[i]? = if i < n then l[i % l.length]? else none := by
  have hpos : 0 < l.length := List.length_pos_iff.mpr hl
  unfold wrapExtend
  by_cases hn : n = 0
  · subst hn; simp
  · have hc : ¬ (l.length = 0 ∨ n = 0) := by omega
    rw [if_neg hc, getElem?_replicate_flatten_append _ _ _ _ hl]
    have hdm := Nat.div_add_mod n l.length
    have hr := Nat.mod_lt n hpos
    rw [Nat.mul_comm] at hdm
    generalize hq : n / l.length = q at hdm
    generalize hrr : n % l.length = r at hdm hr
    by_cases h1 : i < q * l.length
    · have : i < n := by omega
      simp [h1, this]
    · rw [if_neg h1]
      by_cases h2 : i < n
      · rw [if_pos h2]
        have hj : i - q * l.length < r := by omega
        rw [List.getElem?_take_of_lt hj]
        have hjl : i - q * l.length < l.length := by omega
        have e2 : i % l.length = i - q * l.length := by
          have hi : i = l.length * q + (i - q * l.length) := by rw [Nat.mul_comm]; omega
          conv => lhs; rw [hi, Nat.mul_add_mod]
          exact Nat.mod_eq_of_lt hjl
        rw [e2]
      · rw [if_neg h2]
        apply List.getElem?_eq_none
        rw [List.length_take]
        omega

theorem wrapExtend_length {α : Type} (l : List α) (n : Nat) (hl : l ≠ []) :
    (wrapExtend l n).length = n := by
  have hpos : 0 < l.length := List.length_pos_iff.mpr hl
  have h1 := wrapExtend_getElem? l n n hl
  have h2 : ∀ i, i < n → (wrapExtend l n)[i]?.isSome := by
    intro i hi
    rw [wrapExtend_getElem? l n i hl, if_pos hi]
    simp [Nat.mod_lt _ hpos]
  simp only [Nat.lt_irrefl, if_false] at h1
  have hle : (wrapExtend l n).length ≤ n := by
    simpa using h1
  by_cases hn : n = 0
  · omega
  · have := h2 (n - 1) (by omega)
    rcases hlt : Nat.lt_or_ge (n - 1) (wrapExtend l n).length with h | h
    · omega
    · rw [List.getElem?_eq_none h] at this
      simp at this

theorem wrapExtend_nil {α : Type} (n : Nat) : wrapExtend ([] : List α) n = [] := by
  simp [wrapExtend]

/-! ## wrapping as a map over `range` -/

theorem wrapAt_lst_getElem? (c : Bool) (xs : List Arg) (i : Nat) (h : xs ≠ []) :
    xs[i % xs.length]? = some (wrapAt i (.lst c xs)) := by
  cases xs with
  | nil => exact absurd rfl h
  | cons x r => simp [wrapAt]

theorem wrapAt_nonlist (i : Nat) (a : Arg) (h : a.isList = false) : wrapAt i a = a := by
  cases a <;> simp_all [wrapAt, Arg.isList]

theorem self_eq_range_map (c : Bool) (xs : List Arg) :
    xs = (List.range xs.length).map fun i => wrapAt i (.lst c xs) := by
  apply List.ext_getElem?
  intro i
  by_cases hi : i < xs.length
  · have hne : xs ≠ [] := by intro h; simp [h] at hi
    have := wrapAt_lst_getElem? c xs i hne
    rw [Nat.mod_eq_of_lt hi] at this
    rw [this]
    simp [hi]
  · simp [hi]

theorem wrapExtend_eq_range_map (c : Bool) (xs : List Arg) (n : Nat) (h : xs ≠ []) :
    wrapExtend xs n = (List.range n).map fun i => wrapAt i (.lst c xs) := by
  apply List.ext_getElem?
  intro i
  rw [wrapExtend_getElem? xs n i h]
  by_cases hi : i < n
  · simp [hi, wrapAt_lst_getElem? c xs i h]
  · simp [hi]

theorem extendPair_eq (c d : Bool) (xs ys : List Arg) (hx : xs ≠ []) (hy : ys ≠ []) :
    extendPair xs ys =
      ((List.range (max xs.length ys.length)).map (fun i => wrapAt i (.lst c xs)),
       (List.range (max xs.length ys.length)).map (fun i => wrapAt i (.lst d ys))) := by
  unfold extendPair
  split
  · rename_i h
    have hm : max xs.length ys.length = xs.length := by omega
    rw [hm, wrapExtend_eq_range_map d ys _ hy, ← self_eq_range_map c xs]
  · rename_i h
    have hm : max xs.length ys.length = ys.length := by omega
    rw [hm, wrapExtend_eq_range_map c xs _ hx, ← self_eq_range_map d ys]

/-! ## `flop` -/

theorem flopCell_eq (i : Nat) (col : List Arg) (h : col ≠ []) :
    flopCell i col = wrapAt i (.lst false col) := by
  cases col with
  | nil => exact absurd rfl h
  | cons x r => simp [flopCell, wrapAt]


/-! ## `list_unop`, `list_binop` against `_multi_new` -/

theorem toResL_map {α β : Type} (l : List α) (g : α → OpRes β) :
    OpRes.toRes.toResL (l.map g) = l.map fun x => (g x).toRes := by
  induction l with
  | nil => rfl
  | cons x r ih => simp [OpRes.toRes.toResL, ih]

theorem tupleFree_mem {c : Bool} {xs : List Arg} {x : Arg} (h : TupleFree (.lst c xs)) (hx : x ∈ xs) :
    TupleFree x := by
  simp only [TupleFree] at h
  induction xs with
  | nil => cases hx
  | cons y r ih =>
    simp only [TupleFree.allTF] at h
    rcases List.mem_cons.mp hx with rfl | h'
    · exact h.1
    · exact ih h.2 h'

theorem deepNonEmpty_mem {c : Bool} {xs : List Arg} {x : Arg} (h : DeepNonEmpty (.lst c xs)) (hx : x ∈ xs) :
    DeepNonEmpty x := by
  simp only [DeepNonEmpty] at h
  have h2 := h.2
  clear h
  induction xs with
  | nil => cases hx
  | cons y r ih =>
    simp only [DeepNonEmpty.allNE] at h2
    rcases List.mem_cons.mp hx with rfl | h'
    · exact h2.1
    · exact ih h' h2.2

theorem isSeq_eq_isList_of_tupleFree {a : Arg} (h : TupleFree a) : a.isSeq = a.isList := by
  cases a <;> simp_all [Arg.isSeq, Arg.isList, TupleFree]

theorem multiNew_single_nonlist {β : Type} (f : List Arg → β) (a : Arg) (h : a.isList = false) :
    multiNew f [a] = .leaf (f [a]) := by
  rw [multiNew_eq]
  cases a <;> simp_all [maxLen, Arg.isList]

theorem multiNew_pair_nonlist {β : Type} (f : List Arg → β) (a b : Arg) (ha : a.isList = false)
    (hb : b.isList = false) : multiNew f [a, b] = .leaf (f [a, b]) := by
  rw [multiNew_eq]
  cases a <;> cases b <;> simp_all [maxLen, Arg.isList]

theorem multiNew_single_list {β : Type} (f : List Arg → β) (c : Bool) (xs : List Arg) (h : xs ≠ []) :
    multiNew f [.lst c xs] = .chan (xs.map fun x => multiNew f [x]) := by
  rw [multiNew_eq]
  have h1 : maxLen [Arg.lst c xs] = xs.length := by simp [maxLen]
  have h2 : hasEmpty [Arg.lst c xs] = false := by
    cases xs with
    | nil => exact absurd rfl h
    | cons => simp [hasEmpty]
  have h3 : xs.length ≠ 0 := by
    intro h0; exact h (List.length_eq_zero_iff.mp h0)
  rw [h1, if_neg h3, h2]
  simp only [Bool.false_eq_true, if_false, List.map_cons, List.map_nil]
  congr 1
  conv => rhs; rw [self_eq_range_map c xs, List.map_map]
  simp [Function.comp_def]

theorem anySeq_false_iff {xs : List Arg} : anySeq xs = false ↔ ∀ x ∈ xs, x.isSeq = false := by
  simp [anySeq]

/-- `list_unop` on tuple-free operands is the constructor expansion of a one-argument unit -/
theorem unop_eq_multiNew {β : Type} (op : Arg → β) (f : List Arg → β) (hf : ∀ x, f [x] = op x)
    (t : Kind) (a : Arg) (htf : TupleFree a) (hne : DeepNonEmpty a) :
    (listUnop op t a).toRes = multiNew f [a] := by
  generalize hs : a.size = n
  induction n using Nat.strongRecOn generalizing a t with
  | _ n ih =>
    rw [listUnop]
    cases a with
    | num v => rw [multiNew_single_nonlist f _ rfl]; simp [Arg.isSeq, OpRes.toRes, hf]
    | obj v => rw [multiNew_single_nonlist f _ rfl]; simp [Arg.isSeq, OpRes.toRes, hf]
    | tup xs => simp [TupleFree] at htf
    | lst c xs =>
      have hxs : xs ≠ [] := by simp only [DeepNonEmpty] at hne; exact hne.1
      rw [multiNew_single_list f c xs hxs]
      simp only [Arg.isSeq, if_true, Arg.items]
      have hmem : ∀ x ∈ xs, ∀ t', (listUnop op t' x).toRes = multiNew f [x] := by
        intro x hx t'
        exact ih x.size (by rw [← hs]; exact size_items_lt (a := .lst c xs) (by simpa [Arg.items] using hx))
          t' x (tupleFree_mem htf hx) (deepNonEmpty_mem hne hx) rfl
      by_cases hany : anySeq xs = true
      · simp only [hany, if_true]
        simp only [OpRes.toRes, toResL_map]
        congr 1
        rw [← List.attach_map_val (l := xs) (f := fun x => multiNew f [x])]
        apply List.map_congr_left
        intro x _
        exact hmem x.1 x.2 _
      · simp only [hany, Bool.false_eq_true, if_false]
        have hany' := anySeq_false_iff.mp (by simpa using hany)
        simp only [OpRes.toRes, toResL_map]
        congr 1
        apply List.map_congr_left
        intro x hx
        have hxl : x.isList = false := by
          rw [← isSeq_eq_isList_of_tupleFree (tupleFree_mem htf hx)]; exact hany' x hx
        rw [multiNew_single_nonlist f x hxl, hf]

/-- `list_narop` traverses its first operand only (the other arguments are passed through) -/
theorem narop_eq_multiNew {β : Type} (op : Arg → List Arg → β) (args : List Arg) (f : List Arg → β)
    (hf : ∀ x, f [x] = op x args) (t : Kind) (a : Arg) (htf : TupleFree a) (hne : DeepNonEmpty a) :
    (listNarop op t a args).toRes = multiNew f [a] := by
  generalize hs : a.size = n
  induction n using Nat.strongRecOn generalizing a t with
  | _ n ih =>
    rw [listNarop]
    cases a with
    | num v => rw [multiNew_single_nonlist f _ rfl]; simp [Arg.isSeq, OpRes.toRes, hf]
    | obj v => rw [multiNew_single_nonlist f _ rfl]; simp [Arg.isSeq, OpRes.toRes, hf]
    | tup xs => simp [TupleFree] at htf
    | lst c xs =>
      have hxs : xs ≠ [] := by simp only [DeepNonEmpty] at hne; exact hne.1
      rw [multiNew_single_list f c xs hxs]
      simp only [Arg.isSeq, if_true, Arg.items]
      have hmem : ∀ x ∈ xs, ∀ t', (listNarop op t' x args).toRes = multiNew f [x] := by
        intro x hx t'
        exact ih x.size (by rw [← hs]; exact size_items_lt (a := .lst c xs) (by simpa [Arg.items] using hx))
          t' x (tupleFree_mem htf hx) (deepNonEmpty_mem hne hx) rfl
      by_cases hany : anySeq xs = true
      · simp only [hany, if_true]
        simp only [OpRes.toRes, toResL_map]
        congr 1
        rw [← List.attach_map_val (l := xs) (f := fun x => multiNew f [x])]
        apply List.map_congr_left
        intro x _
        exact hmem x.1 x.2 _
      · simp only [hany, Bool.false_eq_true, if_false]
        have hany' := anySeq_false_iff.mp (by simpa using hany)
        simp only [OpRes.toRes, toResL_map]
        congr 1
        apply List.map_congr_left
        intro x hx
        have hxl : x.isList = false := by
          rw [← isSeq_eq_isList_of_tupleFree (tupleFree_mem htf hx)]; exact hany' x hx
        rw [multiNew_single_nonlist f x hxl, hf]

theorem listBinop_lst_lst {β : Type} (op : Arg → Arg → β) (t : Kind) (c d : Bool) (xs ys : List Arg) :
    listBinop op t (.lst c xs) (.lst d ys) =
      if (anySeq (extendPair xs ys).1 || anySeq (extendPair xs ys).2) = true then
        .seq t (((extendPair xs ys).1.zip (extendPair xs ys).2).map
          fun z => listBinop op (innerKind z.1 z.2) z.1 z.2)
      else .seq t (((extendPair xs ys).1.zip (extendPair xs ys).2).map fun z => .ap (op z.1 z.2)) := by
  rw [listBinop]
  simp only [Arg.isSeq, Arg.items, Bool.and_self, if_true]
  rw [← List.attach_map_val (l := (extendPair xs ys).1.zip (extendPair xs ys).2)
    (f := fun z => listBinop op (innerKind z.1 z.2) z.1 z.2)]
  rfl

theorem listBinop_lst_non {β : Type} (op : Arg → Arg → β) (t : Kind) (c : Bool) (xs : List Arg) (b : Arg)
    (hb : b.isSeq = false) :
    listBinop op t (.lst c xs) b = .seq t (xs.map fun x => listBinop op x.kind x b) := by
  rw [listBinop]
  have h1 : (Arg.lst c xs).isSeq = true := rfl
  simp only [h1, hb, Bool.and_false, Bool.false_eq_true, if_false, if_true]
  rw [← List.attach_map_val (l := xs) (f := fun x => listBinop op x.kind x b)]
  rfl

theorem listBinop_non_lst {β : Type} (op : Arg → Arg → β) (t : Kind) (d : Bool) (ys : List Arg) (a : Arg)
    (ha : a.isSeq = false) :
    listBinop op t a (.lst d ys) = .seq t (ys.map fun y => listBinop op y.kind a y) := by
  rw [listBinop]
  have h1 : (Arg.lst d ys).isSeq = true := rfl
  simp only [h1, ha, Bool.false_and, Bool.false_eq_true, if_false, if_true]
  rw [← List.attach_map_val (l := ys) (f := fun y => listBinop op y.kind a y)]
  rfl
theorem listBinop_non_non {β : Type} (op : Arg → Arg → β) (t : Kind) (a b : Arg)
    (ha : a.isSeq = false) (hb : b.isSeq = false) :
    listBinop op t a b = .ap (op a b) := by
  rw [listBinop]
  simp [ha, hb]

theorem multiNew_pair_left {β : Type} (f : List Arg → β) (c : Bool) (xs : List Arg) (b : Arg)
    (h : xs ≠ []) (hb : b.isList = false) :
    multiNew f [.lst c xs, b] = .chan (xs.map fun x => multiNew f [x, b]) := by
  rw [multiNew_eq]
  have h1 : maxLen [Arg.lst c xs, b] = xs.length := by
    cases b <;> simp_all [maxLen, Arg.isList]
  have h2 : hasEmpty [Arg.lst c xs, b] = false := by
    cases xs with
    | nil => exact absurd rfl h
    | cons => cases b <;> simp_all [hasEmpty, Arg.isList]
  have h3 : xs.length ≠ 0 := by
    intro h0; exact h (List.length_eq_zero_iff.mp h0)
  rw [h1, if_neg h3, h2]
  simp only [Bool.false_eq_true, if_false, List.map_cons, List.map_nil, wrapAt_nonlist _ b hb]
  congr 1
  conv => rhs; rw [self_eq_range_map c xs, List.map_map]
  simp [Function.comp_def]

theorem multiNew_pair_right {β : Type} (f : List Arg → β) (d : Bool) (ys : List Arg) (a : Arg)
    (h : ys ≠ []) (ha : a.isList = false) :
    multiNew f [a, .lst d ys] = .chan (ys.map fun y => multiNew f [a, y]) := by
  rw [multiNew_eq]
  have h1 : maxLen [a, Arg.lst d ys] = ys.length := by
    cases a <;> simp_all [maxLen, Arg.isList]
  have h2 : hasEmpty [a, Arg.lst d ys] = false := by
    cases ys with
    | nil => exact absurd rfl h
    | cons => cases a <;> simp_all [hasEmpty, Arg.isList]
  have h3 : ys.length ≠ 0 := by
    intro h0; exact h (List.length_eq_zero_iff.mp h0)
  rw [h1, if_neg h3, h2]
  simp only [Bool.false_eq_true, if_false, List.map_cons, List.map_nil, wrapAt_nonlist _ a ha]
  congr 1
  conv => rhs; rw [self_eq_range_map d ys, List.map_map]
  simp [Function.comp_def]

theorem multiNew_pair_both {β : Type} (f : List Arg → β) (c d : Bool) (xs ys : List Arg)
    (hx : xs ≠ []) (hy : ys ≠ []) :
    multiNew f [.lst c xs, .lst d ys] =
      .chan ((List.range (max xs.length ys.length)).map fun i =>
        multiNew f [wrapAt i (.lst c xs), wrapAt i (.lst d ys)]) := by
  rw [multiNew_eq]
  have h1 : maxLen [Arg.lst c xs, Arg.lst d ys] = max xs.length ys.length := by simp [maxLen]
  have h2 : hasEmpty [Arg.lst c xs, Arg.lst d ys] = false := by
    cases xs with
    | nil => exact absurd rfl hx
    | cons => cases ys with
      | nil => exact absurd rfl hy
      | cons => simp [hasEmpty]
  have h3 : max xs.length ys.length ≠ 0 := by
    have : xs.length ≠ 0 := fun h0 => hx (List.length_eq_zero_iff.mp h0)
    omega
  rw [h1, if_neg h3, h2]
  simp

/-- `list_binop` on tuple-free, nowhere-empty operands is the constructor expansion of a
    two-argument unit (`BinaryOpUGen.new(op, a, b)`): channel-list arithmetic and constructor
    expansion obey the same law -/
theorem binop_eq_multiNew {β : Type} (op : Arg → Arg → β) (f : List Arg → β)
    (hf : ∀ x y, f [x, y] = op x y) (t : Kind) (a b : Arg)
    (hta : TupleFree a) (htb : TupleFree b) (hna : DeepNonEmpty a) (hnb : DeepNonEmpty b) :
    (listBinop op t a b).toRes = multiNew f [a, b] := by
  generalize hs : a.size + b.size = n
  induction n using Nat.strongRecOn generalizing a b t with
  | _ n ih =>
    have nonseq_of : ∀ x : Arg, TupleFree x → x.isSeq = false → x.isList = false := by
      intro x hx h; rw [← isSeq_eq_isList_of_tupleFree hx]; exact h
    cases a with
    | tup xs => simp [TupleFree] at hta
    | num v =>
      cases b with
      | tup ys => simp [TupleFree] at htb
      | num w => rw [listBinop_non_non _ _ _ _ rfl rfl, multiNew_pair_nonlist f _ _ rfl rfl]; simp [OpRes.toRes, hf]
      | obj w => rw [listBinop_non_non _ _ _ _ rfl rfl, multiNew_pair_nonlist f _ _ rfl rfl]; simp [OpRes.toRes, hf]
      | lst d ys =>
        have hy : ys ≠ [] := by simp only [DeepNonEmpty] at hnb; exact hnb.1
        rw [listBinop_non_lst _ _ _ _ _ rfl, multiNew_pair_right f d ys _ hy rfl]
        simp only [OpRes.toRes, toResL_map]
        congr 1
        apply List.map_congr_left
        intro y hy'
        have hlt := size_items_lt (a := .lst d ys) (x := y) (by simpa [Arg.items] using hy')
        exact ih _ (by rw [← hs]; omega) _ _ _ hta (tupleFree_mem htb hy') hna (deepNonEmpty_mem hnb hy') rfl
    | obj v =>
      cases b with
      | tup ys => simp [TupleFree] at htb
      | num w => rw [listBinop_non_non _ _ _ _ rfl rfl, multiNew_pair_nonlist f _ _ rfl rfl]; simp [OpRes.toRes, hf]
      | obj w => rw [listBinop_non_non _ _ _ _ rfl rfl, multiNew_pair_nonlist f _ _ rfl rfl]; simp [OpRes.toRes, hf]
      | lst d ys =>
        have hy : ys ≠ [] := by simp only [DeepNonEmpty] at hnb; exact hnb.1
        rw [listBinop_non_lst _ _ _ _ _ rfl, multiNew_pair_right f d ys _ hy rfl]
        simp only [OpRes.toRes, toResL_map]
        congr 1
        apply List.map_congr_left
        intro y hy'
        have hlt := size_items_lt (a := .lst d ys) (x := y) (by simpa [Arg.items] using hy')
        exact ih _ (by rw [← hs]; omega) _ _ _ hta (tupleFree_mem htb hy') hna (deepNonEmpty_mem hnb hy') rfl
    | lst c xs =>
      have hx : xs ≠ [] := by simp only [DeepNonEmpty] at hna; exact hna.1
      have left_case : ∀ b : Arg, b.isSeq = false → b.isList = false → TupleFree b → DeepNonEmpty b →
          (Arg.lst c xs).size + b.size = n →
          (listBinop op t (.lst c xs) b).toRes = multiNew f [.lst c xs, b] := by
        intro b hbs hbl htb hnb hs
        rw [listBinop_lst_non _ _ _ _ _ hbs, multiNew_pair_left f c xs _ hx hbl]
        simp only [OpRes.toRes, toResL_map]
        congr 1
        apply List.map_congr_left
        intro x hx'
        have hlt := size_items_lt (a := .lst c xs) (x := x) (by simpa [Arg.items] using hx')
        exact ih _ (by rw [← hs]; omega) _ _ _ (tupleFree_mem hta hx') htb (deepNonEmpty_mem hna hx') hnb rfl
      cases b with
      | tup ys => simp [TupleFree] at htb
      | num w => exact left_case _ rfl rfl htb hnb hs
      | obj w => exact left_case _ rfl rfl htb hnb hs
      | lst d ys =>
        have hy : ys ≠ [] := by simp only [DeepNonEmpty] at hnb; exact hnb.1
        rw [listBinop_lst_lst, multiNew_pair_both f c d xs ys hx hy, extendPair_eq c d xs ys hx hy]
        simp only [List.zip_map']
        have hmem : ∀ i, wrapAt i (.lst c xs) ∈ xs ∧ wrapAt i (.lst d ys) ∈ ys := by
          intro i
          constructor
          · exact List.mem_of_getElem? (wrapAt_lst_getElem? c xs i hx)
          · exact List.mem_of_getElem? (wrapAt_lst_getElem? d ys i hy)
        split
        · simp only [OpRes.toRes, toResL_map, List.map_map]
          congr 1
          apply List.map_congr_left
          intro i _
          have h1 := (hmem i).1
          have h2 := (hmem i).2
          have l1 := size_items_lt (a := .lst c xs) (x := wrapAt i (.lst c xs)) (by simpa [Arg.items] using h1)
          have l2 := size_items_lt (a := .lst d ys) (x := wrapAt i (.lst d ys)) (by simpa [Arg.items] using h2)
          simp only [Function.comp_def]
          exact ih _ (by rw [← hs]; omega) _ _ _ (tupleFree_mem hta h1) (tupleFree_mem htb h2)
            (deepNonEmpty_mem hna h1) (deepNonEmpty_mem hnb h2) rfl
        · rename_i hany
          simp only [Bool.or_eq_true, not_or, Bool.not_eq_true] at hany
          have ha' := anySeq_false_iff.mp hany.1
          have hb' := anySeq_false_iff.mp hany.2
          simp only [OpRes.toRes, toResL_map, List.map_map]
          congr 1
          apply List.map_congr_left
          intro i hi
          have h1 := (hmem i).1
          have h2 := (hmem i).2
          have s1 := ha' _ (List.mem_map.mpr ⟨i, hi, rfl⟩)
          have s2 := hb' _ (List.mem_map.mpr ⟨i, hi, rfl⟩)
          simp only [Function.comp_def]
          rw [multiNew_pair_nonlist f _ _ (nonseq_of _ (tupleFree_mem hta h1) s1)
            (nonseq_of _ (tupleFree_mem htb h2) s2), hf]
          rfl

/-! ## `flop` and `_multichannel_perform` -/

theorem flopCell_asList (i : Nat) (a : Arg) (h : ∀ c, a ≠ .lst c []) :
    flopCell i (asList a) = wrapAt i a := by
  cases a with
  | lst c xs =>
    cases xs with
    | nil => exact absurd rfl (h c)
    | cons x r => simp [asList, flopCell, wrapAt]
  | num v => simp [asList, flopCell, wrapAt]
  | obj v => simp [asList, flopCell, wrapAt]
  | tup v => simp [asList, flopCell, wrapAt]

theorem colMax_asList (cols : List Arg) : colMax (cols.map asList) = max (maxLen cols) (if cols.all Arg.isList then 0 else 1) := by
  induction cols with
  | nil => simp [colMax, maxLen]
  | cons a r ih =>
    cases a with
    | lst c xs =>
      simp only [List.map_cons, colMax, asList, maxLen, ih, List.all_cons, Arg.isList, Bool.true_and]
      omega
    | num v =>
      simp only [List.map_cons, colMax, asList, maxLen, ih, List.all_cons, Arg.isList, Bool.false_and]
      split <;> simp <;> omega
    | obj v =>
      simp only [List.map_cons, colMax, asList, maxLen, ih, List.all_cons, Arg.isList, Bool.false_and]
      split <;> simp <;> omega
    | tup v =>
      simp only [List.map_cons, colMax, asList, maxLen, ih, List.all_cons, Arg.isList, Bool.false_and]
      split <;> simp <;> omega

/-- `flop` is the wrap-extended transposition: row `i`, column `j` holds `as_list(col_j)[i % len]`;
    as many rows as the longest column (a bubbled scalar/tuple counts as length 1) -/
theorem flop_eq (cols : List Arg) (hc : cols ≠ []) (he : hasEmpty cols = false) :
    flop cols =
      (List.range (max (maxLen cols) (if cols.all Arg.isList then 0 else 1))).map
        fun i => cols.map (wrapAt i) := by
  unfold flop
  have h0 : ¬ (cols.map asList).length = 0 := by
    simp only [List.length_map]
    intro h; exact hc (List.length_eq_zero_iff.mp h)
  simp only [h0, if_false, colMax_asList]
  apply List.map_congr_left
  intro i _
  rw [List.map_map]
  apply List.map_congr_left
  intro a ha
  exact flopCell_asList i a (fun c hc' => hasEmpty_false_iff.mp he c (hc' ▸ ha))

end Sc3Verif.C03
