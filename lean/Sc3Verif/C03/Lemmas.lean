/-
C03 — helper lemmas.
-/
import Sc3Verif.C03.Spec
namespace Sc3Verif.C03

theorem range_map_eq_ofFn {α : Type} (n : Nat) (g : Nat → α) :
    (List.range n).map g = List.ofFn (fun i : Fin n => g i) := by
  apply List.ext_getElem
  · simp
  · intro i h1 h2
    simp

/-! ## `_multi_new` -/

theorem multiNew_eq {β : Type} (f : List Arg → β) (args : List Arg) :
    multiNew f args =
      if maxLen args = 0 then .leaf (f args)
      else if hasEmpty args then .err
      else .chan ((List.range (maxLen args)).map fun i => multiNew f (args.map (wrapAt i))) := by
  rw [multiNew]

/-- induction along the recursion of `_multi_new` -/
theorem multiNew_induct (motive : List Arg → Prop)
    (leaf : ∀ args, maxLen args = 0 → motive args)
    (err : ∀ args, maxLen args ≠ 0 → hasEmpty args = true → motive args)
    (chan : ∀ args, maxLen args ≠ 0 → hasEmpty args = false →
      (∀ i, motive (args.map (wrapAt i))) → motive args) :
    ∀ args, motive args := by
  intro args
  generalize hd : rowDepth args = d
  induction d using Nat.strongRecOn generalizing args with
  | _ d ih =>
    by_cases hn : maxLen args = 0
    · exact leaf args hn
    · cases he : hasEmpty args
      · exact chan args hn he fun i =>
          ih _ (by rw [← hd]; exact rowDepth_wrapAt_lt i args he hn) _ rfl
      · exact err args hn he

theorem sel_nil_row (args : List Arg) : selRow [] args = args := by
  simp [selRow, sel]

theorem selRow_cons (i : Nat) (p : List Nat) (args : List Arg) :
    selRow (i :: p) args = selRow p (args.map (wrapAt i)) := by
  simp [selRow, sel, List.map_map, Function.comp_def]

theorem sel_append (p q : List Nat) (a : Arg) : sel (p ++ q) a = sel q (sel p a) := by
  induction p generalizing a with
  | nil => rfl
  | cons i p ih => simp [sel, ih]

/-- recursive form of path validity (follows the recursion of the code) -/
def ValidRec : List Arg → List Nat → Prop
  | args, [] => maxLen args = 0
  | args, i :: p => i < maxLen args ∧ ValidRec (args.map (wrapAt i)) p

theorem validPath_iff_rec (args : List Arg) (p : List Nat) : ValidPath args p ↔ ValidRec args p := by
  induction p generalizing args with
  | nil => simp [ValidPath, ValidRec, sel_nil_row]
  | cons i p ih =>
    rw [ValidRec, ← ih]
    unfold ValidPath
    constructor
    · rintro ⟨h1, h2⟩
      refine ⟨?_, ?_, ?_⟩
      · have := h1 0 (by simp); simpa [sel_nil_row] using this
      · intro k hk
        have := h1 (k + 1) (by simpa using hk)
        simpa [selRow_cons] using this
      · simpa [selRow_cons] using h2
    · rintro ⟨h0, h1, h2⟩
      refine ⟨?_, ?_⟩
      · intro k hk
        cases k with
        | zero => simpa [sel_nil_row] using h0
        | succ k =>
          have := h1 k (by simpa using hk)
          simpa [selRow_cons] using this
      · simpa [selRow_cons] using h2

theorem atL_range_map {β : Type} (g : Nat → Res β) (n i : Nat) (p : List Nat) :
    Res.at.atL ((List.range n).map g) i p = if i < n then (g i).at p else none := by
  have gen : ∀ (l : List Nat) (i : Nat),
      Res.at.atL (l.map g) i p = match l[i]? with | some j => (g j).at p | none => none := by
    intro l
    induction l with
    | nil => intro i; simp [Res.at.atL]
    | cons x r ih =>
      intro i
      cases i with
      | zero => simp [Res.at.atL]
      | succ i => simp [Res.at.atL, ih]
  rw [gen]
  by_cases h : i < n
  · simp [h]
  · simp [h]

theorem hasErrL_range_map {β : Type} (g : Nat → Res β) (n : Nat) :
    Res.hasErr.hasErrL ((List.range n).map g) = false ↔ ∀ i < n, (g i).hasErr = false := by
  have gen : ∀ (l : List Nat),
      Res.hasErr.hasErrL (l.map g) = false ↔ ∀ i ∈ l, (g i).hasErr = false := by
    intro l
    induction l with
    | nil => simp [Res.hasErr.hasErrL]
    | cons x r ih => simp [Res.hasErr.hasErrL, ih]
  simpa using gen (List.range n)

/-- the closed-form law, recursive validity -/
theorem at_iff_validRec {β : Type} (f : List Arg → β) (args : List Arg)
    (hne : (multiNew f args).hasErr = false) (p : List Nat) (b : β) :
    (multiNew f args).at p = some b ↔ ValidRec args p ∧ b = f (selRow p args) := by
  induction args using multiNew_induct generalizing p with
  | leaf args h0 =>
    rw [multiNew_eq, if_pos h0]
    cases p with
    | nil => simp [Res.at, ValidRec, h0, sel_nil_row, eq_comm]
    | cons i p => simp [Res.at, ValidRec, h0]
  | err args hn he =>
    rw [multiNew_eq, if_neg hn, if_pos he] at hne
    simp [Res.hasErr] at hne
  | chan args hn he ih =>
    rw [multiNew_eq, if_neg hn, if_neg (by simp [he])] at hne ⊢
    simp only [Res.hasErr] at hne
    rw [hasErrL_range_map] at hne
    cases p with
    | nil => simp [Res.at, ValidRec, hn]
    | cons i p =>
      simp only [Res.at, atL_range_map, ValidRec, selRow_cons]
      by_cases hi : i < maxLen args
      · simp only [hi, if_true, true_and]
        exact ih i (hne i hi) p
      · simp [hi]

end Sc3Verif.C03

namespace Sc3Verif.C03

/-! ## leaves, paths, counting -/

theorem leavesL_map {β : Type} (g : Nat → Res β) (l : List Nat) :
    Res.leaves.leavesL (l.map g) = l.flatMap fun i => (g i).leaves := by
  induction l with
  | nil => rfl
  | cons x r ih => simp [Res.leaves.leavesL, ih]

theorem pathsL_range' {β : Type} (g : Nat → Res β) (s n : Nat) :
    Res.paths.pathsL s ((List.range' s n).map g) =
      (List.range' s n).flatMap fun i => (g i).paths.map (i :: ·) := by
  induction n generalizing s with
  | zero => rfl
  | succ n ih => simp [List.range'_succ, Res.paths.pathsL, ih]

theorem pathsL_range {β : Type} (g : Nat → Res β) (n : Nat) :
    Res.paths.pathsL 0 ((List.range n).map g) =
      (List.range n).flatMap fun i => (g i).paths.map (i :: ·) := by
  rw [List.range_eq_range']; exact pathsL_range' g 0 n

/-- leaves in creation order = the single-channel calls along the paths in path order -/
theorem leaves_eq_paths_map {β : Type} (f : List Arg → β) (args : List Arg) :
    (multiNew f args).leaves = (multiNew f args).paths.map fun p => f (selRow p args) := by
  induction args using multiNew_induct with
  | leaf args h0 => rw [multiNew_eq, if_pos h0]; simp [Res.leaves, Res.paths, sel_nil_row]
  | err args hn he => rw [multiNew_eq, if_neg hn, if_pos he]; simp [Res.leaves, Res.paths]
  | chan args hn he ih =>
    rw [multiNew_eq, if_neg hn, if_neg (by simp [he])]
    simp only [Res.leaves, Res.paths, leavesL_map, pathsL_range, List.map_flatMap, List.map_map]
    congr 1
    funext i
    rw [ih i]
    simp [Function.comp_def, selRow_cons]

theorem paths_chan {β : Type} (f : List Arg → β) (args : List Arg) (hn : maxLen args ≠ 0)
    (he : hasEmpty args = false) :
    (multiNew f args).paths =
      (List.range (maxLen args)).flatMap fun i => (multiNew f (args.map (wrapAt i))).paths.map (i :: ·) := by
  rw [multiNew_eq, if_neg hn, if_neg (by simp [he])]
  simp only [Res.paths, pathsL_range]

/-- the shape of the result does not depend on the constructor called -/
theorem paths_indep {β γ : Type} (f : List Arg → β) (g : List Arg → γ) (args : List Arg) :
    (multiNew f args).paths = (multiNew g args).paths := by
  induction args using multiNew_induct with
  | leaf args h0 => simp [multiNew_eq, h0, Res.paths]
  | err args hn he => simp [multiNew_eq, hn, he, Res.paths]
  | chan args hn he ih =>
    rw [paths_chan f args hn he, paths_chan g args hn he]
    congr 1
    funext i
    rw [ih i]

theorem mem_paths_iff {β : Type} (f : List Arg → β) (args : List Arg)
    (hne : (multiNew f args).hasErr = false) (p : List Nat) :
    p ∈ (multiNew f args).paths ↔ ValidRec args p := by
  induction args using multiNew_induct generalizing p with
  | leaf args h0 =>
    rw [multiNew_eq, if_pos h0]
    cases p with
    | nil => simp [Res.paths, ValidRec, h0]
    | cons i p => simp [Res.paths, ValidRec, h0]
  | err args hn he =>
    rw [multiNew_eq, if_neg hn, if_pos he] at hne
    simp [Res.hasErr] at hne
  | chan args hn he ih =>
    rw [multiNew_eq, if_neg hn, if_neg (by simp [he])] at hne ⊢
    simp only [Res.hasErr] at hne
    rw [hasErrL_range_map] at hne
    simp only [Res.paths, pathsL_range, List.mem_flatMap, List.mem_range, List.mem_map]
    cases p with
    | nil => simp [ValidRec, hn]
    | cons i p =>
      simp only [ValidRec]
      constructor
      · rintro ⟨j, hj, q, hq, heq⟩
        injection heq with h1 h2
        subst h1 h2
        exact ⟨hj, (ih j (hne j hj) q).mp hq⟩
      · rintro ⟨hi, hv⟩
        exact ⟨i, hi, p, (ih i (hne i hi) p).mpr hv, rfl⟩

theorem paths_nodup {β : Type} (f : List Arg → β) (args : List Arg) :
    (multiNew f args).paths.Nodup := by
  induction args using multiNew_induct with
  | leaf args h0 => simp [multiNew_eq, h0, Res.paths]
  | err args hn he => simp [multiNew_eq, hn, he, Res.paths]
  | chan args hn he ih =>
    rw [multiNew_eq, if_neg hn, if_neg (by simp [he])]
    simp only [Res.paths, pathsL_range]
    unfold List.Nodup
    rw [List.pairwise_flatMap]
    refine ⟨?_, ?_⟩
    · intro i _
      rw [List.pairwise_map]
      exact (ih i).imp (fun h h' => h (by injection h'))
    · refine List.Pairwise.imp ?_ (List.nodup_range (n := maxLen args))
      intro i j hij p hp q hq
      obtain ⟨p', _, rfl⟩ := List.mem_map.mp hp
      obtain ⟨q', _, rfl⟩ := List.mem_map.mp hq
      intro h
      injection h with h1 _
      exact hij h1

/-! ### the count is bounded by the rectangular product -/

theorem mem_children {x : Arg} {A : List Arg} :
    x ∈ children A ↔ ∃ c xs, Arg.lst c xs ∈ A ∧ x ∈ xs := by
  induction A with
  | nil => simp [children]
  | cons a r ih =>
    cases a with
    | lst c xs =>
      simp only [children, List.mem_append, ih, List.mem_cons]
      constructor
      · rintro (h | ⟨c', xs', h1, h2⟩)
        · exact ⟨c, xs, Or.inl rfl, h⟩
        · exact ⟨c', xs', Or.inr h1, h2⟩
      · rintro ⟨c', xs', h1 | h1, h2⟩
        · injection h1 with h3 h4; subst h4; exact Or.inl h2
        · exact Or.inr ⟨c', xs', h1, h2⟩
    | num v => simp [children, ih]
    | obj v => simp [children, ih]
    | tup v => simp [children, ih]

theorem maxLen_le_iff {A : List Arg} {m : Nat} :
    maxLen A ≤ m ↔ ∀ c xs, Arg.lst c xs ∈ A → xs.length ≤ m := by
  induction A with
  | nil => simp [maxLen]
  | cons a r ih =>
    cases a with
    | lst c xs =>
      simp only [maxLen, Nat.max_le, ih, List.mem_cons]
      constructor
      · rintro ⟨h1, h2⟩ c' xs' (h | h)
        · injection h with h3 h4; subst h4; exact h1
        · exact h2 c' xs' h
      · intro h
        exact ⟨h c xs (Or.inl rfl), fun c' xs' h' => h c' xs' (Or.inr h')⟩
    | num v => simp [maxLen, ih]
    | obj v => simp [maxLen, ih]
    | tup v => simp [maxLen, ih]

/-- every list member of `A` is a member of `B` -/
def ListSub (A B : List Arg) : Prop := ∀ c xs, Arg.lst c xs ∈ A → Arg.lst c xs ∈ B

theorem maxLen_mono {A B : List Arg} (h : ListSub A B) : maxLen A ≤ maxLen B := by
  rw [maxLen_le_iff]
  intro c xs hm
  exact (maxLen_le_iff (A := B) (m := maxLen B)).mp (Nat.le_refl _) c xs (h c xs hm)

theorem children_mono {A B : List Arg} (h : ListSub A B) : ListSub (children A) (children B) := by
  intro c xs hm
  obtain ⟨c', ys, h1, h2⟩ := mem_children.mp hm
  exact mem_children.mpr ⟨c', ys, h c' ys h1, h2⟩

theorem levelProd_pos (d : Nat) (A : List Arg) : 0 < levelProd d A := by
  induction d generalizing A with
  | zero => simp [levelProd]
  | succ d ih =>
    simp only [levelProd]
    exact Nat.mul_pos (by omega) (ih _)

theorem levelProd_mono_args (d : Nat) {A B : List Arg} (h : ListSub A B) :
    levelProd d A ≤ levelProd d B := by
  induction d generalizing A B with
  | zero => simp [levelProd]
  | succ d ih =>
    simp only [levelProd]
    have h1 := maxLen_mono h
    exact Nat.mul_le_mul (by omega) (ih (children_mono h))

theorem levelProd_mono_succ (d : Nat) (A : List Arg) : levelProd d A ≤ levelProd (d + 1) A := by
  induction d generalizing A with
  | zero => simp only [levelProd]; omega
  | succ d ih =>
    rw [levelProd, levelProd]
    exact Nat.mul_le_mul (Nat.le_refl _) (ih _)

theorem levelProd_mono_depth {d e : Nat} (h : d ≤ e) (A : List Arg) :
    levelProd d A ≤ levelProd e A := by
  induction h with
  | refl => exact Nat.le_refl _
  | step _ ih => exact Nat.le_trans ih (levelProd_mono_succ _ A)

theorem hasEmpty_false_iff {A : List Arg} : hasEmpty A = false ↔ ∀ c, Arg.lst c [] ∉ A := by
  induction A with
  | nil => simp [hasEmpty]
  | cons a r ih =>
    cases a with
    | lst c xs =>
      cases xs with
      | nil =>
        simp only [hasEmpty, Bool.true_eq_false, false_iff]
        intro h; exact h c (by simp)
      | cons y ys => simp [hasEmpty, ih]
    | num v => simp [hasEmpty, ih]
    | obj v => simp [hasEmpty, ih]
    | tup v => simp [hasEmpty, ih]

theorem wrapAt_listSub (i : Nat) (args : List Arg) (he : hasEmpty args = false) :
    ListSub (args.map (wrapAt i)) (children args) := by
  intro c xs hm
  obtain ⟨a, ha, hw⟩ := List.mem_map.mp hm
  cases a with
  | lst c' ys =>
    cases ys with
    | nil => exact absurd ha (hasEmpty_false_iff.mp he c')
    | cons y r =>
      simp only [wrapAt] at hw
      refine mem_children.mpr ⟨c', y :: r, ha, ?_⟩
      rw [← hw]; exact List.getElem_mem _
  | num v => simp [wrapAt] at hw
  | obj v => simp [wrapAt] at hw
  | tup v => simp [wrapAt] at hw

theorem length_flatMap_le {α β : Type} (l : List α) (g : α → List β) (m : Nat)
    (h : ∀ a ∈ l, (g a).length ≤ m) : (l.flatMap g).length ≤ l.length * m := by
  induction l with
  | nil => simp
  | cons a r ih =>
    simp only [List.flatMap_cons, List.length_append, List.length_cons]
    have h1 := h a (by simp)
    have h2 := ih (fun x hx => h x (by simp [hx]))
    rw [Nat.add_mul]; omega

theorem rowDepth_pos_of_maxLen {args : List Arg} (hn : maxLen args ≠ 0) : rowDepth args ≠ 0 := by
  induction args with
  | nil => simp [maxLen] at hn
  | cons a r ih =>
    cases a with
    | lst c xs => simp [rowDepth, Arg.depth]
    | num v => simp only [maxLen] at hn; simp [rowDepth, Arg.depth]; exact ih hn
    | obj v => simp only [maxLen] at hn; simp [rowDepth, Arg.depth]; exact ih hn
    | tup v => simp only [maxLen] at hn; simp [rowDepth, Arg.depth]; exact ih hn

/-- number of single-channel calls ≤ product over the nesting levels of the longest lengths -/
theorem leaves_length_le {β : Type} (f : List Arg → β) (args : List Arg) :
    (multiNew f args).leaves.length ≤ levelProd (rowDepth args) args := by
  induction args using multiNew_induct with
  | leaf args h0 =>
    rw [multiNew_eq, if_pos h0]
    have := levelProd_pos (rowDepth args) args
    simp only [Res.leaves, List.length_singleton]; omega
  | err args hn he =>
    rw [multiNew_eq, if_neg hn, if_pos he]; simp [Res.leaves]
  | chan args hn he ih =>
    rw [multiNew_eq, if_neg hn, if_neg (by simp [he])]
    simp only [Res.leaves, leavesL_map]
    have hd := rowDepth_pos_of_maxLen hn
    obtain ⟨d, hd'⟩ : ∃ d, rowDepth args = d + 1 := ⟨rowDepth args - 1, by omega⟩
    rw [hd', levelProd]
    have hb : ∀ i ∈ List.range (maxLen args),
        (multiNew f (args.map (wrapAt i))).leaves.length ≤ levelProd d (children args) := by
      intro i _
      have h1 := rowDepth_wrapAt_lt i args he hn
      exact Nat.le_trans (ih i)
        (Nat.le_trans (levelProd_mono_depth (by omega) _)
          (levelProd_mono_args d (wrapAt_listSub i args he)))
    have := length_flatMap_le _ _ _ hb
    rw [List.length_range] at this
    have hm : max 1 (maxLen args) = maxLen args := by omega
    rw [hm]; exact this

end Sc3Verif.C03
