/-
C08 — the abstract specification, as predicates on the history (`hist`, newest event first)
that a clock thread leaves behind.  This is what "wake every task once, on time, in order" means;
the Python oracle of `harness/props/c08.py` evaluates the same predicates on the real behaviour.
-/
import Sc3Verif.C08.Model
namespace Sc3Verif.C08

/-- scheduled time first, scheduling order among equal times -/
def Entry.before (a b : Entry) : Prop := a.key < b.key ∨ (a.key = b.key ∧ a.stamp < b.stamp)

def Tempo.WF (T : Tempo) : Prop := 0 < T.rate ∧ T.dur = 1 / T.rate

/-- entries scheduled and neither awakened nor cancelled, according to a history -/
def pend : List Ev → List Entry
  | [] => []
  | .ins x :: h => x :: pend h
  | .awake x _ _ _ _ _ :: h => (pend h).filter fun y => y.stamp != x.stamp
  | .gone n :: h => (pend h).filter fun y => y.stamp != n
  | _ :: h => pend h

def insCount : List Ev → Nat
  | [] => 0
  | .ins _ :: h => insCount h + 1
  | _ :: h => insCount h

def awakeStamps : List Ev → List Nat
  | [] => []
  | .awake x _ _ _ _ _ :: h => x.stamp :: awakeStamps h
  | _ :: h => awakeStamps h

def goneStamps : List Ev → List Nat
  | [] => []
  | .gone n :: h => n :: goneStamps h
  | _ :: h => goneStamps h

/-- The property, event by event:
* a scheduling call gets the next stamp;
* an awake takes an entry that is pending (so: at most once per scheduling call, never after it
  was cleared, stopped or displaced), the one that is first by (time, scheduling order), and only
  when the clock's time map — evaluated at a physical time `evalNow` not later than the awake —
  has reached the entry's time. -/
def TraceOK : List Ev → Prop
  | [] => True
  | .ins x :: h => x.stamp = insCount h ∧ TraceOK h
  | .awake x e evalNow T at_ _ :: h =>
      x ∈ pend h ∧ (∀ y ∈ pend h, y = x ∨ x.before y) ∧
      x.key ≤ e ∧ e = T.secs2beats evalNow ∧ T.WF ∧ evalNow ≤ at_ ∧ TraceOK h
  | _ :: h => TraceOK h

/-- AppClock (documented non-recursive and drifting): an awake takes a pending entry whose time has
come at the tick (`e` = tick time ≤ physical time of the awake); within a tick entries come in
(time, scheduling order); entries scheduled during the tick wait for the next one. -/
def AppTraceOK : List Ev → Prop
  | [] => True
  | .ins x :: h => x.stamp = insCount h ∧ AppTraceOK h
  | .awake x e _ _ at_ _ :: h => x ∈ pend h ∧ x.key ≤ e ∧ e ≤ at_ ∧ AppTraceOK h
  | _ :: h => AppTraceOK h

end Sc3Verif.C08
