/-
C08 — helper lemmas: queue facts, history facts, and the invariant of the clock-thread
transition system with its preservation by every move.
-/
import Sc3Verif.C08.Spec
import Mathlib.Tactic.Linarith
import Mathlib.Tactic.FieldSimp
import Mathlib.Tactic.Ring
namespace Sc3Verif.C08

/-! ### queue -/

theorem SQ.mem_insert {e y : Entry} {s : SQ} : y ∈ SQ.insert e s ↔ y = e ∨ y ∈ s := by
  induction s with
  | nil => simp [SQ.insert]
  | cons x xs ih =>
    unfold SQ.insert
    split
    · simp
    · simp [ih]; tauto

theorem SQ.mem_erase {t : Task} {y : Entry} {s : SQ} : y ∈ SQ.erase t s ↔ y ∈ s ∧ y.task ≠ t := by
  simp [SQ.erase]

theorem SQ.mem_add {e y : Entry} {s : SQ} :
    y ∈ SQ.add e s ↔ y = e ∨ (y ∈ s ∧ y.task ≠ e.task) := by
  simp [SQ.add, SQ.mem_insert, SQ.mem_erase]

theorem Entry.before_key_le {a b : Entry} (h : a.before b) : a.key ≤ b.key := by
  rcases h with h | ⟨h, _⟩
  · exact le_of_lt h
  · exact le_of_eq h

theorem SQ.sorted_insert {e : Entry} {s : SQ} (hs : s.Pairwise Entry.before)
    (hst : ∀ y ∈ s, y.stamp < e.stamp) : (SQ.insert e s).Pairwise Entry.before := by
  induction s with
  | nil => simp [SQ.insert]
  | cons x xs ih =>
    have hc := List.pairwise_cons.mp hs
    unfold SQ.insert
    split
    · rename_i hlt
      refine List.pairwise_cons.mpr ⟨?_, hs⟩
      intro y hy
      rcases List.mem_cons.mp hy with rfl | hy'
      · exact Or.inl hlt
      · exact Or.inl (lt_of_lt_of_le hlt (Entry.before_key_le (hc.1 y hy')))
    · rename_i hnlt
      refine List.pairwise_cons.mpr ⟨?_, ih hc.2 (fun y hy => hst y (List.mem_cons_of_mem _ hy))⟩
      intro z hz
      rcases SQ.mem_insert.mp hz with rfl | hz'
      · have hle : x.key ≤ z.key := not_lt.mp hnlt
        rcases lt_or_eq_of_le hle with h | h
        · exact Or.inl h
        · exact Or.inr ⟨h, hst x (List.mem_cons_self ..)⟩
      · exact hc.1 z hz'

theorem SQ.sorted_erase {t : Task} {s : SQ} (hs : s.Pairwise Entry.before) :
    (SQ.erase t s).Pairwise Entry.before := List.Pairwise.filter _ hs

theorem SQ.map_insert_perm (f : Entry → α) (e : Entry) (s : SQ) :
    ((SQ.insert e s).map f).Perm (f e :: s.map f) := by
  induction s with
  | nil => simp [SQ.insert]
  | cons x xs ih =>
    unfold SQ.insert
    split
    · simp
    · simp only [List.map_cons]
      exact (List.Perm.cons _ ih).trans (List.Perm.swap ..)

theorem SQ.nodup_map_add (f : Entry → α) {e : Entry} {s : SQ} (hs : (s.map f).Nodup)
    (hf : ∀ y ∈ s, y.task ≠ e.task → f y ≠ f e) : ((SQ.add e s).map f).Nodup := by
  unfold SQ.add
  refine (SQ.map_insert_perm f e _).nodup_iff.mpr (List.nodup_cons.mpr ⟨?_, ?_⟩)
  · intro hmem
    obtain ⟨y, hy, hye⟩ := List.mem_map.mp hmem
    obtain ⟨hy1, hy2⟩ := SQ.mem_erase.mp hy
    exact hf y hy1 hy2 hye
  · unfold SQ.erase
    exact (List.Nodup.sublist (List.Sublist.map f List.filter_sublist) hs)

theorem headKey_cons (x : Entry) (xs : SQ) : headKey (x :: xs) = x.key := rfl

/-- injectivity of stamps inside a queue whose stamps are pairwise different -/
theorem stamp_inj {s : SQ} (h : (s.map Entry.stamp).Nodup) {a b : Entry} (ha : a ∈ s) (hb : b ∈ s)
    (hab : a.stamp = b.stamp) : a = b := by
  induction s with
  | nil => cases ha
  | cons x xs ih =>
    simp only [List.map_cons, List.nodup_cons, List.mem_map, not_exists, not_and] at h
    rcases List.mem_cons.mp ha with rfl | ha' <;> rcases List.mem_cons.mp hb with rfl | hb'
    · rfl
    · exact absurd hab.symm (h.1 b hb')
    · exact absurd hab (h.1 a ha')
    · exact ih h.2 ha' hb'

/-! ### history -/

theorem mem_pend_gone_append {l : List Nat} {h : List Ev} {y : Entry} :
    y ∈ pend (l.map Ev.gone ++ h) ↔ y ∈ pend h ∧ y.stamp ∉ l := by
  induction l with
  | nil => simp
  | cons n l ih =>
    simp only [List.map_cons, List.cons_append, pend, List.mem_filter, ih, List.mem_cons, not_or]
    simp only [bne_iff_ne, ne_eq]
    tauto

theorem insCount_gone_append (l : List Nat) (h : List Ev) :
    insCount (l.map Ev.gone ++ h) = insCount h := by
  induction l with
  | nil => rfl
  | cons n l ih => simpa [insCount] using ih

theorem awakeStamps_gone_append (l : List Nat) (h : List Ev) :
    awakeStamps (l.map Ev.gone ++ h) = awakeStamps h := by
  induction l with
  | nil => rfl
  | cons n l ih => simpa [awakeStamps] using ih

theorem goneStamps_gone_append (l : List Nat) (h : List Ev) :
    goneStamps (l.map Ev.gone ++ h) = l ++ goneStamps h := by
  induction l with
  | nil => rfl
  | cons n l ih => simp [goneStamps, ih]

theorem traceOK_gone_append (l : List Nat) (h : List Ev) :
    TraceOK (l.map Ev.gone ++ h) ↔ TraceOK h := by
  induction l with
  | nil => rfl
  | cons n l ih => simpa [TraceOK] using ih

@[simp] theorem pend_notify (w : Bool) (h : List Ev) : pend (.notify w :: h) = pend h := rfl
@[simp] theorem pend_wait (w : Option Rat) (h : List Ev) : pend (.wait w :: h) = pend h := rfl
@[simp] theorem pend_exit (h : List Ev) : pend (.exit :: h) = pend h := rfl
@[simp] theorem pend_err (x : Entry) (h : List Ev) : pend (.err x :: h) = pend h := rfl

/-! ### the invariant of the clock thread -/

/-- the stamps of every scheduling call so far: pending, awakened or cancelled -/
def Clock.allStamps (c : Clock) : List Nat := c.q.stamps ++ awakeStamps c.hist ++ goneStamps c.hist

structure Core (c : Clock) (t : Rat) : Prop where
  sorted : c.q.Pairwise Entry.before
  nodupTask : (c.q.map Entry.task).Nodup
  tempoWF : c.tempo.WF
  nextEq : c.next = insCount c.hist
  pendIff : ∀ y, y ∈ pend c.hist ↔ y ∈ c.q
  trace : TraceOK c.hist
  evalOK : ∀ e, (c.pc = .batch e ∨ ∃ x, c.pc = .inAwake e x) →
      e = c.evalTempo.secs2beats c.evalNow ∧ c.evalTempo.WF ∧ c.evalNow ≤ t
  partNodup : c.allStamps.Nodup
  partMem : ∀ n, n ∈ c.allStamps ↔ n < c.next

/-- No lost wake-up: while the thread sleeps without a pending notification, it sleeps exactly
until the time of the current head of the queue under the current tempo (and for ever only if the
queue is empty). -/
def DL (c : Clock) : Prop :=
  c.run = true → c.notified = false →
    (c.pc = .parkedEmpty → c.q = []) ∧
    (∀ d, c.pc = .parkedUntil d → ∃ x xs, c.q = x :: xs ∧ d = c.tempo.beats2secs x.key)

structure Inv (c : Clock) (t : Rat) : Prop where
  core : Core c t
  dl : DL c

theorem Core.stampLt {c : Clock} {t : Rat} (h : Core c t) : ∀ x ∈ c.q, x.stamp < c.next := by
  intro x hx
  apply (h.partMem x.stamp).mp
  simp only [Clock.allStamps, SQ.stamps, List.mem_append, List.mem_map]
  exact Or.inl (Or.inl ⟨x, hx, rfl⟩)

theorem Core.nodupStamp {c : Clock} {t : Rat} (h : Core c t) : (c.q.map Entry.stamp).Nodup := by
  have := h.partNodup
  unfold Clock.allStamps SQ.stamps at this
  exact (List.nodup_append.mp (List.nodup_append.mp this).1).1

theorem Core.mono {c : Clock} {t t' : Rat} (h : Core c t) (htt : t ≤ t') : Core c t' :=
  { h with evalOK := fun e he => let ⟨a, b, d⟩ := h.evalOK e he; ⟨a, b, le_trans d htt⟩ }

theorem dl_notify (c : Clock) : DL c.notify := by
  intro _ hn
  simp only [Clock.notify, Bool.or_eq_false_iff] at hn
  have hp : c.pc.parked = false := hn.2
  constructor
  · intro hpc
    have : c.pc = .parkedEmpty := hpc
    rw [this] at hp; simp [PC.parked] at hp
  · intro d hpc
    have : c.pc = .parkedUntil d := hpc
    rw [this] at hp; simp [PC.parked] at hp

theorem core_notify {c : Clock} {t : Rat} (h : Core c t) : Core c.notify t :=
  { sorted := h.sorted, nodupTask := h.nodupTask, tempoWF := h.tempoWF,
    nextEq := h.nextEq, pendIff := h.pendIff, trace := h.trace, evalOK := h.evalOK,
    partNodup := h.partNodup, partMem := h.partMem }

theorem inv_notify {c : Clock} {t : Rat} (h : Core c t) : Inv c.notify t := ⟨core_notify h, dl_notify c⟩

/-! ### `_sched_add` -/

def Clock.schedAdd0 (c : Clock) (k : Rat) (t : Task) : Clock :=
  { c with q := SQ.add { key := k, task := t, stamp := c.next } c.q, next := c.next + 1,
           hist := (SQ.displaced t c.q).map Ev.gone ++
                   Ev.ins { key := k, task := t, stamp := c.next } :: c.hist }

theorem schedAdd_eq (c : Clock) (k : Rat) (t : Task) :
    c.schedAdd k t = if headKey (c.schedAdd0 k t).q != headKey c.q then (c.schedAdd0 k t).notify
                     else c.schedAdd0 k t := rfl

theorem mem_displaced {t : Task} {s : SQ} {n : Nat} :
    n ∈ SQ.displaced t s ↔ ∃ y ∈ s, y.task = t ∧ y.stamp = n := by
  simp [SQ.displaced, and_assoc]

theorem stamps_perm_erase_displaced (t : Task) (s : SQ) :
    s.stamps.Perm ((SQ.erase t s).stamps ++ SQ.displaced t s) := by
  unfold SQ.stamps SQ.erase SQ.displaced
  rw [← List.map_append]
  apply List.Perm.map
  have := (List.filter_append_perm (fun x : Entry => x.task != t) s).symm
  refine this.trans ?_
  apply List.Perm.append_left
  apply List.Perm.of_eq
  apply List.filter_congr
  intro x _
  simp [bne]

theorem core_schedAdd0 {c : Clock} {t : Rat} (h : Core c t) (k : Rat) (tk : Task) :
    Core (c.schedAdd0 k tk) t := by
  have hst := h.stampLt
  have hnd := h.nodupStamp
  let x : Entry := { key := k, task := tk, stamp := c.next }
  have hperm : (c.schedAdd0 k tk).allStamps.Perm (c.next :: c.allStamps) := by
    unfold Clock.allStamps Clock.schedAdd0
    simp only [awakeStamps_gone_append, goneStamps_gone_append, awakeStamps, goneStamps]
    have h1 : (SQ.add x c.q).stamps.Perm (c.next :: (SQ.erase tk c.q).stamps) :=
      SQ.map_insert_perm Entry.stamp x _
    have h2 := stamps_perm_erase_displaced tk c.q
    -- (add).stamps ++ aw ++ (disp ++ gone)  ~  next :: (q.stamps ++ aw ++ gone)
    have : ((SQ.add x c.q).stamps ++ awakeStamps c.hist ++ (SQ.displaced tk c.q ++ goneStamps c.hist)).Perm
        ((c.next :: (SQ.erase tk c.q).stamps) ++ awakeStamps c.hist ++ (SQ.displaced tk c.q ++ goneStamps c.hist)) :=
      (h1.append_right _).append_right _
    refine this.trans ?_
    simp only [List.cons_append]
    apply List.Perm.cons
    have h3 : (c.q.stamps ++ awakeStamps c.hist ++ goneStamps c.hist).Perm
        (((SQ.erase tk c.q).stamps ++ SQ.displaced tk c.q) ++ awakeStamps c.hist ++ goneStamps c.hist) :=
      (h2.append_right _).append_right _
    refine List.Perm.trans ?_ h3.symm
    simp only [List.append_assoc]
    apply List.Perm.append_left
    exact (List.perm_append_comm_assoc ..)
  refine
    { sorted := ?_, nodupTask := ?_, tempoWF := h.tempoWF, nextEq := ?_, pendIff := ?_, trace := ?_,
      evalOK := h.evalOK, partNodup := ?_, partMem := ?_ }
  · exact SQ.sorted_insert (SQ.sorted_erase h.sorted)
      (fun y hy => hst y (SQ.mem_erase.mp hy).1)
  · exact SQ.nodup_map_add Entry.task h.nodupTask (fun y _ hne => hne)
  · show c.next + 1 = insCount _
    simp [Clock.schedAdd0, insCount_gone_append, insCount, h.nextEq]
  · intro y
    show y ∈ pend ((SQ.displaced tk c.q).map Ev.gone ++ Ev.ins x :: c.hist) ↔ y ∈ SQ.add x c.q
    rw [mem_pend_gone_append, SQ.mem_add]
    simp only [pend, List.mem_cons, h.pendIff, mem_displaced, not_exists, not_and]
    constructor
    · rintro ⟨hy | hy, hnd'⟩
      · exact Or.inl hy
      · refine Or.inr ⟨hy, fun htk => hnd' y hy htk rfl⟩
    · rintro (hy | ⟨hy, hne⟩)
      · subst hy
        refine ⟨Or.inl rfl, fun z hz _ hzs => ?_⟩
        have := hst z hz
        simp only [x] at hzs
        omega
      · refine ⟨Or.inr hy, fun z hz hzt hzs => ?_⟩
        have := stamp_inj hnd hz hy hzs
        subst this
        exact hne hzt
  · show TraceOK ((SQ.displaced tk c.q).map Ev.gone ++ Ev.ins x :: c.hist)
    rw [traceOK_gone_append]
    exact ⟨h.nextEq, h.trace⟩
  · refine hperm.nodup_iff.mpr (List.nodup_cons.mpr ⟨?_, h.partNodup⟩)
    intro hmem
    have := (h.partMem c.next).mp hmem
    omega
  · intro n
    rw [hperm.mem_iff, List.mem_cons, h.partMem]
    show _ ↔ n < c.next + 1
    omega

theorem headKey_eq_of_cons {q : SQ} {y : Entry} {ys : SQ} (h : q = y :: ys) : headKey q = y.key := by
  subst h; rfl

theorem add_ne_nil (x : Entry) (s : SQ) : SQ.add x s ≠ [] := by
  intro h
  have : x ∈ SQ.add x s := SQ.mem_add.mpr (Or.inl rfl)
  rw [h] at this; cases this

theorem inv_schedAdd {c : Clock} {t : Rat} (h : Inv c t) (k : Rat) (tk : Task)
    (hk : c.pc.parked = true → k ≠ sentinel) : Inv (c.schedAdd k tk) t := by
  have hc := core_schedAdd0 h.core k tk
  rw [schedAdd_eq]
  split
  · exact inv_notify hc
  · rename_i hhead
    refine ⟨hc, ?_⟩
    have hhk : headKey (c.schedAdd0 k tk).q = headKey c.q := by simpa using hhead
    intro hrun hnot
    obtain ⟨h1, h2⟩ := h.dl hrun hnot
    constructor
    · intro hpc
      have hpc' : c.pc = .parkedEmpty := hpc
      have hq := h1 hpc'
      exfalso
      -- the queue was empty: the new head key is k, the old one the sentinel
      have hk' := hk (by rw [hpc']; rfl)
      have : (c.schedAdd0 k tk).q = [{ key := k, task := tk, stamp := c.next }] := by
        simp [Clock.schedAdd0, hq, SQ.add, SQ.erase, SQ.insert]
      rw [this, hq] at hhk
      exact hk' hhk
    · intro d hpc
      have hpc' : c.pc = .parkedUntil d := hpc
      obtain ⟨y, ys, hq, hd⟩ := h2 d hpc'
      cases hq' : (c.schedAdd0 k tk).q with
      | nil => exact absurd hq' (add_ne_nil _ _)
      | cons z zs =>
        refine ⟨z, zs, rfl, ?_⟩
        rw [hq', hq] at hhk
        have : z.key = y.key := hhk
        show d = c.tempo.beats2secs z.key
        rw [this]; exact hd

/-! ### clear / tempo / stop -/

theorem core_clearAll {c : Clock} {t : Rat} (h : Core c t) : Core c.clearAll t := by
  have hperm : c.clearAll.allStamps.Perm c.allStamps := by
    unfold Clock.allStamps Clock.clearAll
    simp only [awakeStamps_gone_append, goneStamps_gone_append, SQ.stamps, List.map_nil,
      List.nil_append]
    rw [List.append_assoc (List.map Entry.stamp c.q)]
    exact (List.perm_append_comm_assoc ..)
  refine
    { sorted := List.Pairwise.nil, nodupTask := List.nodup_nil, tempoWF := h.tempoWF, nextEq := ?_,
      pendIff := ?_, trace := ?_, evalOK := h.evalOK, partNodup := hperm.nodup_iff.mpr h.partNodup,
      partMem := fun n => by rw [hperm.mem_iff]; exact h.partMem n }
  · show c.next = insCount (c.q.stamps.map Ev.gone ++ c.hist)
    rw [insCount_gone_append]; exact h.nextEq
  · intro y
    show y ∈ pend (c.q.stamps.map Ev.gone ++ c.hist) ↔ y ∈ []
    rw [mem_pend_gone_append, h.pendIff]
    simp only [SQ.stamps, List.mem_map, not_exists, not_and, List.not_mem_nil, iff_false, not_and,
      not_forall, not_not]
    intro hy
    exact ⟨y, hy, rfl⟩
  · show TraceOK (c.q.stamps.map Ev.gone ++ c.hist)
    rw [traceOK_gone_append]; exact h.trace

theorem tempo_setTempo_wf (T : Tempo) {v : Rat} (hv : 0 < v) (secs : Rat) : (T.setTempo v secs).WF :=
  ⟨hv, rfl⟩

theorem inv_applyOp {c c' : Clock} {t : Rat} (h : Inv c t) (o : Op)
    (hk : ∀ k tk, o = .sched k tk → k ≠ sentinel) (hs : c.applyOp o = some c') : Inv c' t := by
  cases o with
  | sched k tk =>
    simp only [Clock.applyOp, Option.some.injEq] at hs
    subst hs
    exact inv_schedAdd h k tk (fun _ => hk k tk rfl)
  | clear =>
    simp only [Clock.applyOp, Option.some.injEq] at hs
    subst hs
    exact inv_notify (core_clearAll h.core)
  | setTempo v secs =>
    simp only [Clock.applyOp] at hs
    split at hs
    · rename_i hv
      simp only [Option.some.injEq] at hs
      subst hs
      apply inv_notify
      exact { h.core with tempoWF := tempo_setTempo_wf c.tempo hv secs }
    · cases hs
  | etempo v now =>
    simp only [Clock.applyOp] at hs
    split at hs
    · rename_i hv
      simp only [Option.some.injEq] at hs
      subst hs
      apply inv_notify
      exact { h.core with tempoWF := ⟨hv, rfl⟩ }
    · cases hs
  | stop =>
    simp only [Clock.applyOp, Option.some.injEq] at hs
    subst hs
    apply inv_notify
    have := core_clearAll h.core
    exact { sorted := this.sorted, nodupTask := this.nodupTask, tempoWF := this.tempoWF,
            nextEq := this.nextEq, pendIff := this.pendIff, trace := this.trace,
            evalOK := this.evalOK, partNodup := this.partNodup, partMem := this.partMem }

/-! ### the thread -/

theorem dl_of_not_parked {c : Clock} (h1 : c.pc ≠ .parkedEmpty) (h2 : ∀ d, c.pc ≠ .parkedUntil d) : DL c :=
  fun _ _ => ⟨fun h => absurd h h1, fun d h => absurd h (h2 d)⟩

theorem inv_woken {c : Clock} {t : Rat} (h : Inv c t) : Inv c.woken t := by
  unfold Clock.woken
  split
  · refine ⟨?_, dl_of_not_parked (by simp) (by simp)⟩
    exact { sorted := h.core.sorted, nodupTask := h.core.nodupTask, tempoWF := h.core.tempoWF,
            nextEq := h.core.nextEq, pendIff := h.core.pendIff, trace := h.core.trace,
            evalOK := by intro e he; simp at he,
            partNodup := h.core.partNodup, partMem := h.core.partMem }
  · refine ⟨?_, dl_of_not_parked (by simp) (by simp)⟩
    exact { sorted := h.core.sorted, nodupTask := h.core.nodupTask, tempoWF := h.core.tempoWF,
            nextEq := h.core.nextEq, pendIff := h.core.pendIff, trace := h.core.trace,
            evalOK := by intro e he; simp at he,
            partNodup := h.core.partNodup, partMem := h.core.partMem }

theorem inv_wake {c c' : Clock} {t : Rat} (h : Inv c t) (r : Reason) (now : Rat)
    (hs : c.wake r now = some c') : Inv c' t := by
  simp only [Clock.wake] at hs
  split at hs
  · simp only [Option.some.injEq] at hs
    subst hs
    exact inv_woken h
  · cases hs

theorem inv_eval {c : Clock} {t : Rat} (h : Inv c t) (now : Rat) (htn : t ≤ now) :
    Inv (c.eval now) now := by
  have hc := h.core.mono htn
  unfold Clock.eval
  split
  · rename_i hq
    refine ⟨?_, ?_⟩
    · exact { sorted := hc.sorted, nodupTask := hc.nodupTask, tempoWF := hc.tempoWF,
              nextEq := hc.nextEq, pendIff := hc.pendIff, trace := hc.trace,
              evalOK := by intro e he; simp at he,
              partNodup := hc.partNodup, partMem := hc.partMem }
    · intro _ _
      exact ⟨fun _ => hq, fun d hd => by simp at hd⟩
  · rename_i x xs hq
    dsimp only
    split
    · refine ⟨?_, dl_of_not_parked (by simp) (by simp)⟩
      exact { sorted := hc.sorted, nodupTask := hc.nodupTask, tempoWF := hc.tempoWF,
              nextEq := hc.nextEq, pendIff := hc.pendIff, trace := hc.trace,
              evalOK := by
                intro e he
                simp only [PC.batch.injEq, reduceCtorEq, exists_false, or_false] at he
                subst he
                exact ⟨rfl, hc.tempoWF, le_refl _⟩,
              partNodup := hc.partNodup, partMem := hc.partMem }
    · refine ⟨?_, ?_⟩
      · exact { sorted := hc.sorted, nodupTask := hc.nodupTask, tempoWF := hc.tempoWF,
                nextEq := hc.nextEq, pendIff := hc.pendIff, trace := hc.trace,
                evalOK := by intro e he; simp at he,
                partNodup := hc.partNodup, partMem := hc.partMem }
      · intro _ _
        refine ⟨fun hp => by simp at hp, fun d hd => ?_⟩
        simp only [PC.parkedUntil.injEq] at hd
        exact ⟨x, xs, hq, hd.symm⟩

theorem batch_evalOK {c : Clock} {t : Rat} (hc : Core c t) (e : Rat) (hpc : c.pc = .batch e)
    (now : Rat) (htn : t ≤ now) :
    c.batchE e now = c.batchTempo.secs2beats (c.batchNow now) ∧ c.batchTempo.WF ∧ c.batchNow now ≤ now := by
  have hev := hc.evalOK e (Or.inl hpc)
  unfold Clock.batchE Clock.batchNow Clock.batchTempo
  split
  · exact ⟨rfl, hc.tempoWF, le_refl _⟩
  · exact ⟨hev.1, hev.2.1, le_trans hev.2.2 htn⟩

theorem inv_batchStep {c : Clock} {t : Rat} (h : Inv c t) (e : Rat) (hpc : c.pc = .batch e)
    (now : Rat) (htn : t ≤ now) : Inv (c.batchStep e now) now := by
  have hev := batch_evalOK h.core e hpc now htn
  have hc := h.core.mono htn
  unfold Clock.batchStep
  split
  · refine ⟨?_, dl_of_not_parked (by simp) (by simp)⟩
    exact { sorted := hc.sorted, nodupTask := hc.nodupTask, tempoWF := hc.tempoWF,
            nextEq := hc.nextEq, pendIff := hc.pendIff, trace := hc.trace,
            evalOK := by intro e he; simp at he,
            partNodup := hc.partNodup, partMem := hc.partMem }
  · rename_i x xs hq
    split
    · rename_i hle
      refine ⟨?_, dl_of_not_parked (by simp) (by simp)⟩
      have hsorted := hc.sorted
      have hnds := hc.nodupStamp
      rw [hq] at hsorted hnds
      have hsc := List.pairwise_cons.mp hsorted
      simp only [List.map_cons, List.nodup_cons, List.mem_map, not_exists, not_and] at hnds
      have hperm : (Clock.allStamps
          { c with q := xs, pc := .inAwake (c.batchE e now) x,
                   evalNow := c.batchNow now, evalTempo := c.batchTempo,
                   hist := Ev.awake x (c.batchE e now) (c.batchNow now) c.batchTempo now
                             (c.tempo.beats2secs x.key) :: c.hist }).Perm
          c.allStamps := by
        unfold Clock.allStamps
        simp only [awakeStamps, goneStamps, hq, SQ.stamps, List.map_cons, List.cons_append]
        rw [List.append_assoc, List.append_assoc]
        exact (List.perm_middle).trans (List.Perm.refl _)
      refine
        { sorted := hsc.2, nodupTask := ?_, tempoWF := hc.tempoWF, nextEq := hc.nextEq, pendIff := ?_,
          trace := ?_, evalOK := ?_, partNodup := hperm.nodup_iff.mpr hc.partNodup,
          partMem := fun n => by rw [hperm.mem_iff]; exact hc.partMem n }
      · have := hc.nodupTask
        rw [hq] at this
        exact (List.nodup_cons.mp this).2
      · intro y
        show y ∈ (pend c.hist).filter (fun y => y.stamp != x.stamp) ↔ y ∈ xs
        simp only [List.mem_filter, hc.pendIff, hq, List.mem_cons, bne_iff_ne, ne_eq]
        constructor
        · rintro ⟨rfl | hy, hne⟩
          · exact absurd rfl hne
          · exact hy
        · intro hy
          exact ⟨Or.inr hy, fun heq => hnds.1 y hy heq⟩
      · show x ∈ pend c.hist ∧ (∀ y ∈ pend c.hist, y = x ∨ x.before y) ∧ x.key ≤ c.batchE e now ∧
            c.batchE e now = c.batchTempo.secs2beats (c.batchNow now) ∧ c.batchTempo.WF ∧
            c.batchNow now ≤ now ∧ TraceOK c.hist
        refine ⟨(hc.pendIff x).mpr (by rw [hq]; exact List.mem_cons_self ..), ?_, hle, hev.1, hev.2.1,
          hev.2.2, hc.trace⟩
        intro y hy
        have := (hc.pendIff y).mp hy
        rw [hq] at this
        rcases List.mem_cons.mp this with rfl | hy'
        · exact Or.inl rfl
        · exact Or.inr (hsc.1 y hy')
      · intro e' he'
        simp only [reduceCtorEq, PC.inAwake.injEq, false_or] at he'
        obtain ⟨_, rfl, _⟩ := he'
        exact hev
    · refine ⟨?_, dl_of_not_parked (by simp) (by simp)⟩
      exact { sorted := hc.sorted, nodupTask := hc.nodupTask, tempoWF := hc.tempoWF,
              nextEq := hc.nextEq, pendIff := hc.pendIff, trace := hc.trace,
              evalOK := by intro e he; simp at he,
              partNodup := hc.partNodup, partMem := hc.partMem }

theorem inv_thr {c c' : Clock} {t : Rat} (h : Inv c t) (now : Rat) (htn : t ≤ now)
    (hs : c.thr now = some c') : Inv c' now := by
  unfold Clock.thr at hs
  split at hs
  · simp only [Option.some.injEq] at hs; subst hs; exact inv_eval h now htn
  · rename_i e hpc
    simp only [Option.some.injEq] at hs; subst hs; exact inv_batchStep h e hpc now htn
  · cases hs

theorem inv_setpc_batch {c : Clock} {t : Rat} (h : Inv c t) (e : Rat)
    (hev : e = c.evalTempo.secs2beats c.evalNow ∧ c.evalTempo.WF ∧ c.evalNow ≤ t) :
    Inv { c with pc := .batch e } t := by
  refine ⟨?_, dl_of_not_parked (by simp) (by simp)⟩
  exact { sorted := h.core.sorted, nodupTask := h.core.nodupTask, tempoWF := h.core.tempoWF,
          nextEq := h.core.nextEq, pendIff := h.core.pendIff, trace := h.core.trace,
          evalOK := by
            intro e' he'
            simp only [PC.batch.injEq, reduceCtorEq, exists_false, or_false] at he'
            subst he'; exact hev,
          partNodup := h.core.partNodup, partMem := h.core.partMem }

theorem schedAdd_eval (c : Clock) (k : Rat) (tk : Task) :
    (c.schedAdd k tk).evalNow = c.evalNow ∧ (c.schedAdd k tk).evalTempo = c.evalTempo ∧
    (c.schedAdd k tk).pc = c.pc := by
  rw [schedAdd_eq]; split <;> exact ⟨rfl, rfl, rfl⟩

theorem inv_finish {c c' : Clock} {t : Rat} (h : Inv c t) (r : Result)
    (hs : c.finish r = some c') : Inv c' t := by
  unfold Clock.finish at hs
  split at hs
  · rename_i e x hpc
    have hev := h.core.evalOK e (Or.inr ⟨x, hpc⟩)
    cases r with
    | resched δ =>
      simp only [Option.some.injEq] at hs; subst hs
      have h' := inv_schedAdd h (x.key + δ) x.task (by rw [hpc]; simp [PC.parked])
      obtain ⟨e1, e2, _⟩ := schedAdd_eval c (x.key + δ) x.task
      exact inv_setpc_batch h' e (by rw [e1, e2]; exact hev)
    | done =>
      simp only [Option.some.injEq] at hs; subst hs
      exact inv_setpc_batch h e hev
    | raise =>
      simp only [Option.some.injEq] at hs; subst hs
      refine ⟨?_, dl_of_not_parked (by simp) (by simp)⟩
      exact { sorted := h.core.sorted, nodupTask := h.core.nodupTask, tempoWF := h.core.tempoWF,
              nextEq := h.core.nextEq, pendIff := h.core.pendIff, trace := h.core.trace,
              evalOK := by
                intro e' he'
                simp only [PC.batch.injEq, reduceCtorEq, exists_false, or_false] at he'
                subst he'; exact hev,
              partNodup := h.core.partNodup, partMem := h.core.partMem }
  · cases hs

/-- side conditions on the labels: scheduled times differ from the empty-queue sentinel -/
def Move.ok : Move → Prop
  | .op (.sched k _) => k ≠ sentinel
  | _ => True

/-- the physical time after a move (labels carry `now`; other moves take no time) -/
def Move.time (m : Move) (t : Rat) : Rat := (m.now?).getD t

theorem inv_step {c c' : Clock} {t : Rat} (h : Inv c t) (m : Move) (hok : m.ok)
    (htn : ∀ n, m.now? = some n → t ≤ n) (hs : c.step m = some c') : Inv c' (m.time t) := by
  cases m with
  | op o =>
    refine inv_applyOp h o ?_ hs
    intro k tk ho; subst ho; exact hok
  | wake r now =>
    have := inv_wake h r now hs
    exact ⟨this.core.mono (htn now rfl), this.dl⟩
  | thr now => exact inv_thr h now (htn now rfl) hs
  | finish r => exact inv_finish h r hs

theorem core_init (T : Tempo) (hT : T.WF) (fresh : Bool) (t : Rat) : Inv (Clock.init T fresh) t := by
  refine ⟨?_, dl_of_not_parked (by simp [Clock.init]) (by simp [Clock.init])⟩
  exact { sorted := List.Pairwise.nil, nodupTask := List.nodup_nil, tempoWF := hT, nextEq := rfl,
          pendIff := fun y => Iff.rfl, trace := trivial,
          evalOK := by intro e he; simp [Clock.init] at he,
          partNodup := List.nodup_nil, partMem := fun n => by simp [Clock.allStamps, Clock.init, SQ.stamps, awakeStamps, goneStamps] }

end Sc3Verif.C08
