/-
C08 — executable model of the real-time clock threads of `sc3/base/clock.py`.

Two labelled transition systems:

* `Clock` — the thread of `SystemClock._run` / `TempoClock._run` (same three nested loops; the
  system clock is the instance with the identity tempo map): queue, program counter of the thread,
  pending notification of `_sched_cond`, `_run_sched`, tempo map.  Moves (`Move`):
    `op o`        a call made under the lock: `_sched_add` (from `sched`/`sched_abs`, any thread, or
                  from the running task), `clear`, the `tempo` setter, `_sched_stop`/`_stop`;
                  carries the *notify-only-when-the-head-time-changed* test of `_sched_add`;
    `wake r`      the thread returns from `Condition.wait` (notification, time-out — only when
                  `deadline ≤ now` —, or spuriously);
    `thr now`     one internal step of the thread (evaluate the head against `now` and either
                  start the batch or go to sleep until the head's time; inside a batch pop the
                  next ready entry and enter its `__awake__`, or leave the batch);
    `finish r`    the running task returns a number (re-schedule relative to the *scheduled* time),
                  returns anything else / ends, or raises (logged, nothing else changes).
  Physical time is not part of the state: the environment supplies `now` in the labels.
* `App`   — the thread of `AppClock._run` with its drifting non-recursive `Scheduler`
  (tick under the main lock, then wait on `_tick_cond`; `sched` = add under the lock, then
  set-pending + notify under `_tick_cond`).

Queue: the sorted-stable-list specification that C09 proves `TaskQueue` refines (there with
`Int` priorities; here keys are `Rat` because tempo maps produce non-integral beats).  Entries carry
a ghost *stamp* (the value of a global insertion counter) so that "ties in scheduling order" and
"exactly once per scheduling" can be stated per scheduling call.

Core Lean only — this file is loaded by the line-protocol driver.
-/
namespace Sc3Verif.C08

abbrev Task := Nat

structure Entry where
  key : Rat          -- seconds (SystemClock, AppClock) or beats (TempoClock)
  task : Task
  stamp : Nat        -- ghost: number of this scheduling call (global insertion counter)
deriving Repr, DecidableEq

abbrev SQ := List Entry

/-- `heappush` of `[key, count, task]`: behind every entry with `key ≤ k` (count is maximal). -/
def SQ.insert (e : Entry) : SQ → SQ
  | [] => [e]
  | x :: xs => if e.key < x.key then e :: x :: xs else x :: SQ.insert e xs

/-- `TaskQueue.remove` (tombstone). -/
def SQ.erase (t : Task) (s : SQ) : SQ := s.filter fun x => x.task != t

/-- `TaskQueue.add`: an already queued task is removed first. -/
def SQ.add (e : Entry) (s : SQ) : SQ := SQ.insert e (SQ.erase e.task s)

def SQ.stamps (s : SQ) : List Nat := s.map Entry.stamp

/-- stamps displaced by re-adding task `t` -/
def SQ.displaced (t : Task) (s : SQ) : List Nat := (s.filter fun x => x.task == t).map Entry.stamp

/-- `TempoClock` time base.  `rate` = `_tempo`, `dur` = `_beat_dur` (kept as its own field, the
code stores `1.0 / tempo`). -/
structure Tempo where
  rate : Rat
  dur : Rat
  baseBeats : Rat
  baseSecs : Rat
deriving Repr, DecidableEq

def Tempo.secs2beats (T : Tempo) (s : Rat) : Rat := (s - T.baseSecs) * T.rate + T.baseBeats
def Tempo.beats2secs (T : Tempo) (b : Rat) : Rat := (b - T.baseBeats) * T.dur + T.baseSecs

/-- SystemClock: seconds are beats. -/
def Tempo.id : Tempo := { rate := 1, dur := 1, baseBeats := 0, baseSecs := 0 }

/-- `TempoClock(tempo, beats=0, seconds=now)` -/
def Tempo.new (rate now : Rat) : Tempo := { rate := rate, dur := 1 / rate, baseBeats := 0, baseSecs := now }

/-- the `tempo` setter called from a thread whose logical time is `secs`. -/
def Tempo.setTempo (T : Tempo) (v secs : Rat) : Tempo :=
  let beats := T.secs2beats secs
  { rate := v, dur := 1 / v, baseBeats := beats, baseSecs := T.beats2secs beats }

/-- `etempo(v)`: the tempo changes at the physical present `now` (`main.elapsed_time()`); the beats
elapsed so far are computed from the OLD base before the new tempo is stored. -/
def Tempo.etempo (T : Tempo) (v now : Rat) : Tempo :=
  { rate := v, dur := 1 / v, baseBeats := T.secs2beats now, baseSecs := now }

/-- `prev_time = -1e10` when the queue is empty -/
def sentinel : Rat := -10000000000

inductive PC where
  | parkedEmpty                 -- in `wait()` of the first loop
  | parkedUntil (d : Rat)       -- in `wait(timeout)` of the second loop; `d` = absolute deadline
  | top                         -- holds the lock, about to (re-)evaluate the queue
  | batch (e : Rat)             -- third loop; `e` = the stale `now` / `elapsed_beats`
  | inAwake (e : Rat) (x : Entry)   -- inside `task.__awake__`
  | exited
deriving Repr, DecidableEq

def PC.parked : PC → Bool
  | .parkedEmpty => true
  | .parkedUntil _ => true
  | _ => false

/-- ghost history -/
inductive Ev where
  | ins (x : Entry)                         -- a scheduling call put `x` into the queue
  | awake (x : Entry) (e : Rat) (evalNow : Rat) (evalTempo : Tempo) (at_ : Rat) (secs : Rat)
  | gone (stamp : Nat)                      -- displaced by a re-add, cleared or stopped
  | err (x : Entry)                         -- the task raised: logged
  | notify (woken : Bool)                   -- observable: a `notify` call and whether a waiter was woken
  | wait (timeout : Option Rat)             -- observable: a `wait` call
  | exit                                    -- observable: the thread returned from `_run`
deriving Repr, DecidableEq

structure Clock where
  q : SQ
  pc : PC
  notified : Bool
  run : Bool
  tempo : Tempo
  fresh : Bool           -- TempoClock: the third loop re-reads `elapsed_beats()` for every task
                         -- (D-C08-3); SystemClock keeps the `now` of the second loop
  next : Nat             -- ghost: next stamp
  evalNow : Rat          -- ghost: `now` of the last evaluation
  evalTempo : Tempo      -- ghost: tempo map at the last evaluation
  hist : List Ev         -- ghost: newest first
deriving Repr

def Clock.init (T : Tempo) (fresh : Bool := false) : Clock :=
  { q := [], pc := .top, notified := false, run := true, tempo := T, fresh := fresh, next := 0,
    evalNow := 0, evalTempo := T, hist := [] }

inductive Op where
  | sched (k : Rat) (t : Task)      -- `_sched_add(k, t)`
  | clear
  | setTempo (v secs : Rat)         -- `tempo = v` from a thread whose logical time is `secs`
  | etempo (v now : Rat)            -- `etempo(v)` at physical time `now`
  | stop
deriving Repr, DecidableEq

inductive Reason where
  | notify | timeout | spurious
deriving Repr, DecidableEq

inductive Result where
  | resched (δ : Rat)
  | done
  | raise
deriving Repr, DecidableEq

inductive Move where
  | op (o : Op)
  | wake (r : Reason) (now : Rat)
  | thr (now : Rat)
  | finish (r : Result)
deriving Repr, DecidableEq

def headKey (q : SQ) : Rat :=
  match q with
  | [] => sentinel
  | x :: _ => x.key

/-- `notify` reaches the thread only while it is inside `wait`. -/
def Clock.notify (c : Clock) : Clock :=
  { c with notified := c.notified || c.pc.parked,
           hist := Ev.notify (c.pc.parked && !c.notified) :: c.hist }

/-- `_sched_add` -/
def Clock.schedAdd (c : Clock) (k : Rat) (t : Task) : Clock :=
  let x : Entry := { key := k, task := t, stamp := c.next }
  let q' := SQ.add x c.q
  let c' := { c with q := q', next := c.next + 1,
                     hist := (SQ.displaced t c.q).map Ev.gone ++ Ev.ins x :: c.hist }
  if headKey q' != headKey c.q then c'.notify else c'

def Clock.clearAll (c : Clock) : Clock :=
  { c with q := [], hist := c.q.stamps.map Ev.gone ++ c.hist }

def Clock.applyOp (c : Clock) : Op → Option Clock
  | .sched k t => some (c.schedAdd k t)
  | .clear => some c.clearAll.notify
  | .setTempo v secs =>
      if 0 < v then some ({ c with tempo := c.tempo.setTempo v secs }).notify else none   -- ValueError
  | .etempo v now =>
      if 0 < v then some ({ c with tempo := c.tempo.etempo v now }).notify else none   -- 0: ValueError; < 0 not modelled
  | .stop => some ({ c.clearAll with run := false }).notify

/-- may the thread return from `wait` for this reason? -/
def wakeOk (r : Reason) (pc : PC) (notified : Bool) (now : Rat) : Bool :=
  match r, pc with
  | .notify, .parkedEmpty => notified
  | .notify, .parkedUntil _ => notified
  | .timeout, .parkedUntil d => d ≤ now
  | .spurious, .parkedEmpty => true
  | .spurious, .parkedUntil _ => true
  | _, _ => false

/-- `if not cls._run_sched: return` after every `wait` -/
def Clock.woken (c : Clock) : Clock :=
  if c.run then { c with notified := false, pc := .top }
  else { c with notified := false, pc := .exited, hist := Ev.exit :: c.hist }

def Clock.wake (c : Clock) (r : Reason) (now : Rat) : Option Clock :=
  if wakeOk r c.pc c.notified now then some c.woken else none

/-- evaluation at the top of the outer loop -/
def Clock.eval (c : Clock) (now : Rat) : Clock :=
  match c.q with
  | [] => { c with pc := .parkedEmpty, hist := Ev.wait none :: c.hist }
  | x :: _ =>
    let e := c.tempo.secs2beats now
    if x.key ≤ e then { c with pc := .batch e, evalNow := now, evalTempo := c.tempo }
    else { c with pc := .parkedUntil (c.tempo.beats2secs x.key),
                  hist := Ev.wait (some (c.tempo.beats2secs x.key - now)) :: c.hist }

/-- the value the third loop compares the head with: the stale variable, or a fresh reading -/
def Clock.batchE (c : Clock) (e now : Rat) : Rat := if c.fresh then c.tempo.secs2beats now else e
def Clock.batchNow (c : Clock) (now : Rat) : Rat := if c.fresh then now else c.evalNow
def Clock.batchTempo (c : Clock) : Tempo := if c.fresh then c.tempo else c.evalTempo

/-- one iteration test of the third loop -/
def Clock.batchStep (c : Clock) (e now : Rat) : Clock :=
  match c.q with
  | [] => { c with pc := .top }
  | x :: xs =>
    if x.key ≤ c.batchE e now then
      { c with q := xs, pc := .inAwake (c.batchE e now) x,
               evalNow := c.batchNow now, evalTempo := c.batchTempo,
               hist := Ev.awake x (c.batchE e now) (c.batchNow now) c.batchTempo now
                         (c.tempo.beats2secs x.key) :: c.hist }
    else { c with pc := .top }

def Clock.thr (c : Clock) (now : Rat) : Option Clock :=
  match c.pc with
  | .top => some (c.eval now)
  | .batch e => some (c.batchStep e now)
  | _ => none

def Clock.finish (c : Clock) (r : Result) : Option Clock :=
  match c.pc with
  | .inAwake e x =>
    match r with
    | .resched δ => some { c.schedAdd (x.key + δ) x.task with pc := .batch e }
    | .done => some { c with pc := .batch e }
    | .raise => some { c with pc := .batch e, hist := Ev.err x :: c.hist }
  | _ => none

def Clock.step (c : Clock) : Move → Option Clock
  | .op o => c.applyOp o
  | .wake r now => c.wake r now
  | .thr now => c.thr now
  | .finish r => c.finish r

def Clock.runMoves (c : Clock) : List Move → Option Clock
  | [] => some c
  | m :: ms => (c.step m).bind fun c' => c'.runMoves ms

/-- the `now` carried by a move, if any -/
def Move.now? : Move → Option Rat
  | .wake _ n => some n
  | .thr n => some n
  | _ => none

/-! ### AppClock -/

inductive APC where
  | top                                        -- about to take the main lock and tick
  | expired (l : List Entry) (value : Rat)     -- `for time, item in self._expired`
  | inAwake (l : List Entry) (value : Rat) (x : Entry)
  | window (t : Option Rat)                    -- tick done, main lock released, `_tick_cond` not yet taken
  | parked (t : Option Rat) (d : Option Rat)   -- in `_tick_cond.wait(t)`; `d` = absolute deadline
  | exited
deriving Repr, DecidableEq

def APC.isParked : APC → Bool
  | .parked _ _ => true
  | _ => false

structure App where
  q : SQ
  pc : APC
  notified : Bool        -- a `notify()` reached the waiting thread
  pending : Bool         -- `_tick_pending` (set by `sched`, consumed by the thread)
  run : Bool
  inflight : Nat         -- `sched` calls between their two critical sections
  next : Nat
  tickAt : Rat           -- ghost: `_scheduler.seconds` of the last completed tick
  hist : List Ev
deriving Repr

def App.init : App :=
  { q := [], pc := .top, notified := false, pending := false, run := true, inflight := 0,
    next := 0, tickAt := 0, hist := [] }

inductive AMove where
  | schedAdd (δ : Rat) (t : Task) (now : Rat)   -- `with _sched_lock: _scheduler.sched(δ, t)` (drift: from `now`)
  | schedNotify                                 -- `with _tick_cond: _tick_pending = True; notify()`
  | clear                                       -- `with _sched_lock: _scheduler.clear()`
  | stop                                        -- `with _tick_cond: _run_sched = False; notify()`
  | wake (r : Reason) (now : Rat)
  | thr (now : Rat)
  | finish (r : Result) (now : Rat)
deriving Repr, DecidableEq

def App.insertNew (a : App) (k : Rat) (t : Task) : App :=
  let x : Entry := { key := k, task := t, stamp := a.next }
  { a with q := SQ.add x a.q, next := a.next + 1,
           hist := (SQ.displaced t a.q).map Ev.gone ++ Ev.ins x :: a.hist }

/-- pop everything with `key ≤ value` (the non-recursive loop of `Scheduler.seconds`) -/
def popExpired (value : Rat) : SQ → List Entry × SQ
  | [] => ([], [])
  | x :: xs =>
    if x.key ≤ value then
      let (l, r) := popExpired value xs
      (x :: l, r)
    else ([], x :: xs)

/-- `seconds = head − _scheduler.seconds`, `None` when the queue is empty (end of `_tick`) -/
def tickTimeout (q : SQ) (value : Rat) : Option Rat :=
  match q with
  | [] => none
  | x :: _ => some (x.key - value)

def App.nextExpired (a : App) (l : List Entry) (value now : Rat) : App :=
  match l with
  | [] => { a with pc := .window (tickTimeout a.q value), tickAt := value }
  | x :: l' => { a with pc := .inAwake l' value x,
                        hist := Ev.awake x value value Tempo.id now x.key :: a.hist }

def App.thr (a : App) (now : Rat) : Option App :=
  match a.pc with
  | .top =>
    if a.run then
      let (l, r) := popExpired now a.q
      some ({ a with q := r }.nextExpired l now now)
    else some { a with pc := .exited, hist := Ev.exit :: a.hist }
  | .expired l value => some (a.nextExpired l value now)
  | .window t =>
    if !a.run then some { a with pc := .exited, hist := Ev.exit :: a.hist }
    else if a.pending then some { a with pending := false, pc := .top }
    else some { a with pc := .parked t (t.map fun x => now + x), hist := Ev.wait t :: a.hist }
  | _ => none

def appWakeOk (r : Reason) (pc : APC) (notified : Bool) (now : Rat) : Bool :=
  match r, pc with
  | .notify, .parked _ _ => notified
  | .timeout, .parked _ (some d) => d ≤ now
  | .spurious, .parked _ _ => true
  | _, _ => false

def App.wake (a : App) (r : Reason) (now : Rat) : Option App :=
  if appWakeOk r a.pc a.notified now then some { a with notified := false, pending := false, pc := .top }
  else none

def App.finish (a : App) (r : Result) (now : Rat) : Option App :=
  match a.pc with
  | .inAwake l value x =>
    match r with
    | .resched δ => some { a.insertNew (now + δ) x.task with pc := .expired l value }
    | .done => some { a with pc := .expired l value }
    | .raise => some { a with pc := .expired l value, hist := Ev.err x :: a.hist }
  | _ => none

def App.step (a : App) : AMove → Option App
  | .schedAdd δ t now => some { a.insertNew (now + δ) t with inflight := a.inflight + 1 }
  | .schedNotify =>
    if 0 < a.inflight then
      some { a with inflight := a.inflight - 1, pending := true,
                    notified := a.notified || a.pc.isParked,
                    hist := Ev.notify (a.pc.isParked && !a.notified) :: a.hist }
    else none
  | .clear => some { a with q := [], hist := a.q.stamps.map Ev.gone ++ a.hist }
  | .stop => some { a with run := false, notified := a.notified || a.pc.isParked,
                           hist := Ev.notify (a.pc.isParked && !a.notified) :: a.hist }
  | .wake r now => a.wake r now
  | .thr now => a.thr now
  | .finish r now => a.finish r now

def App.runMoves (a : App) : List AMove → Option App
  | [] => some a
  | m :: ms => (a.step m).bind fun a' => a'.runMoves ms

end Sc3Verif.C08
