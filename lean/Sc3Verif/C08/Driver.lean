/-
C08 line-protocol driver: interprets the op scripts of `harness/impl/c08.py` on the model
(`Clock`/`App` transition systems of `Model.lean`) and prints, per script line, the observable
events in the format of the implementation side.  `reset` starts a new case.

The interpreter only *chooses* moves (which thread runs, which behaviour a task shows); every state
change is a `Clock.step` / `App.step` of the model, and what is printed is read off the model's
history, so a printed trace is a move sequence of the transition systems the theorems are about.
-/
import Sc3Verif.C08.Model
open Sc3Verif.C08

def parseRat (s : String) : Option Rat :=
  match s.splitOn "/" with
  | [a] => a.toInt?.map fun n => (n : Rat)
  | [a, b] => do
      let n ← a.toInt?
      let d ← b.toNat?
      if d == 0 then none else some ((n : Rat) / (d : Rat))
  | _ => none

def fmtRat (r : Rat) : String := if r.den == 1 then toString r.num else s!"{r.num}/{r.den}"

structure TaskDef where
  routine : Bool
  plain : Bool := false           -- a plain Python function: every sched call wraps it anew
  behs : List (List String)       -- remaining behaviours
  dead : Bool := false            -- a Routine that ended or raised

inductive CK where | sys | app | tempo (i : Nat)
deriving DecidableEq

structure G where
  now : Rat := 0
  sys : Clock := (Clock.init Tempo.id)
  app : App := App.init
  tempos : Array (Option Clock) := #[]
  order : List CK := [.sys, .app]
  tasks : Array (Option TaskDef) := #[]
  out : Array String := #[]
  seen : Array Nat := #[0, 0]       -- printed history length: sys, app, tempo i at i+2
  halves : Nat := 0
  logical : Rat := 0                -- logical time of the thread executing ops
  inTask : Bool := false
  bad : Bool := false
  -- a task stopped in the middle of its step (atom `!`): clock, remaining atoms, result, task, its logical time
  permanent : List Nat := []        -- TempoClocks with `permanent = True`
  wraps : Nat := 0                  -- Function wrappers made so far for plain functions
  deferred : List Nat := []         -- model tasks made by `defer`: their wrapper returns None whatever the callable returns
  paused : Option (CK × List String × String × Nat × Rat) := none
  blocked : List (CK × List String) := []      -- calls of the second thread waiting for the lock

abbrev M := StateM G

def ckName : CK → String
  | .sys => "s" | .app => "a" | .tempo i => s!"t{i}"

def parseCK (s : String) : Option CK :=
  if s == "s" then some .sys else if s == "a" then some .app
  else if s.startsWith "t" then (s.drop 1).toString.toNat?.map CK.tempo else none

def ckIdx : CK → Nat
  | .sys => 0 | .app => 1 | .tempo i => i + 2

/-- model task ids: a script task `t`, or `t + 1000·n` for the n-th wrapper of a plain function `t` -/
def scriptTask (t : Nat) : Nat := t % 1000

/-- the task object a sched call queues: the object itself, or a fresh wrapper of a plain function -/
def schedTask (t : Nat) : M Nat := do
  let g ← get
  match (g.tasks[t]?).join with
  | some td =>
    if td.plain then
      set { g with wraps := g.wraps + 1 }
      return t + 1000 * (g.wraps + 1)
    else return t
  | none => return t

def emit (s : String) : M Unit := modify fun g => { g with out := g.out.push s }

def fmtEv (k : String) : Ev → Option String
  | .awake x _ _ _ at_ secs => some s!"A{k}:{x.task % 1000}:{fmtRat secs}:{fmtRat x.key}:{fmtRat at_}"
  | .err x => some s!"E{k}:{x.task % 1000}"
  | .notify w => some s!"N{k}:{if w then 1 else 0}"
  | .wait none => some s!"W{k}:N"
  | .wait (some t) => some s!"W{k}:{fmtRat t}"
  | .exit => some s!"X{k}"
  | _ => none

/-- print the history events of clock `ck` that were not printed yet -/
def flush (ck : CK) : M Unit := do
  let g ← get
  let hist : List Ev := match ck with
    | .sys => g.sys.hist
    | .app => g.app.hist
    | .tempo i => match g.tempos[i]? with
      | some (some c) => c.hist
      | _ => []
  let i := ckIdx ck
  let old := g.seen[i]?.getD 0
  let fresh := (hist.take (hist.length - old)).reverse
  for e in fresh do
    match fmtEv (ckName ck) e with
    | some s => emit s
    | none => pure ()
  modify fun g => { g with seen := g.seen.setIfInBounds i hist.length }

def getClock (ck : CK) : M (Option Clock) := do
  let g ← get
  match ck with
  | .sys => return some g.sys
  | .tempo i => return (g.tempos[i]?).join
  | .app => return none

def setClock (ck : CK) (c : Clock) : M Unit :=
  modify fun g => match ck with
    | .sys => { g with sys := c }
    | .tempo i => { g with tempos := g.tempos.setIfInBounds i (some c) }
    | .app => g

/-- apply a model move to a cond clock; `false` if the move is not enabled -/
def clockMove (ck : CK) (m : Move) : M Bool := do
  match ← getClock ck with
  | none => return false
  | some c =>
    match c.step m with
    | none => return false
    | some c' => setClock ck c'; flush ck; return true

def appMove (m : AMove) : M Bool := do
  let g ← get
  match g.app.step m with
  | none => return false
  | some a => set { g with app := a }; flush .app; return true

/-- a clock operation executed by the current thread (logical time `g.logical`).
    Returns the exception name if the call raises. -/
def clockOp (ck : CK) (w : List String) : M (Option String) := do
  let g ← get
  match ck, w with
  | .app, ["q", d, t] =>
    match parseRat d, t.toNat? with
    | some d, some t =>
      let t ← schedTask t
      let _ ← appMove (.schedAdd d t g.now)
      let _ ← appMove .schedNotify
      return none
    | _, _ => modify (fun g => { g with bad := true }); return none
  | .app, ["d", d, t] =>
    match parseRat d, t.toNat? with
    | some d, some t =>
      let t ← schedTask t
      modify fun g => { g with deferred := t :: g.deferred }
      let _ ← appMove (.schedAdd d t g.now)
      let _ ← appMove .schedNotify
      return none
    | _, _ => modify (fun g => { g with bad := true }); return none
  | .app, ["c"] => let _ ← appMove .clear; return none
  | .app, _ => modify (fun g => { g with bad := true }); return none
  | _, _ =>
    match ← getClock ck with
    | none => modify (fun g => { g with bad := true }); return none
    | some c =>
      let stopped := !c.run
      match w with
      | ["s", k, t] =>
        match parseRat k, t.toNat? with
        | some k, some t =>
          if stopped then return some "ClockNotRunning"
          let t ← schedTask t
          let _ ← clockMove ck (.op (.sched k t)); return none
        | _, _ => modify (fun g => { g with bad := true }); return none
      | ["q", d, t] =>
        match parseRat d, t.toNat? with
        | some d, some t =>
          if stopped then return some "ClockNotRunning"
          let t ← schedTask t
          let _ ← clockMove ck (.op (.sched (c.tempo.secs2beats g.logical + d) t)); return none
        | _, _ => modify (fun g => { g with bad := true }); return none
      | ["d", d, t] =>
        match parseRat d, t.toNat? with
        | some d, some t =>
          if stopped then return some "ClockNotRunning"
          let t ← schedTask t
          modify fun g => { g with deferred := t :: g.deferred }
          let _ ← clockMove ck (.op (.sched (c.tempo.secs2beats g.logical + d) t)); return none
        | _, _ => modify (fun g => { g with bad := true }); return none
      | ["c"] =>
        if stopped then return none
        let _ ← clockMove ck (.op .clear); return none
      | ["T", v] =>
        match parseRat v with
        | some v =>
          if stopped then return some "ClockNotRunning"
          if ck == .sys then return some "AttributeError"
          if ← clockMove ck (.op (.setTempo v g.logical)) then return none
          else return some "ValueError"
        | none => modify (fun g => { g with bad := true }); return none
      | ["E", v] =>
        match parseRat v with
        | some v =>
          if stopped then return some "ClockNotRunning"
          if ck == .sys then return some "AttributeError"
          if ← clockMove ck (.op (.etempo v g.now)) then return none
          else return some "ValueError"
        | none => modify (fun g => { g with bad := true }); return none
      | _ => modify (fun g => { g with bad := true }); return none

/-- next behaviour of a task: (op atoms, result atom) -/
def nextBeh (t : Nat) : M (List String × String) := do
  let g ← get
  match (g.tasks[t]?).join with
  | none => return ([], "d")
  | some td =>
    if td.dead then return ([], "d")
    match td.behs with
    | [] =>
      set { g with tasks := g.tasks.setIfInBounds t (some { td with behs := [], dead := td.routine }) }
      return ([], "d")
    | b :: rest =>
      let res := b.getLast?.getD "d"
      let dies := td.routine && (res == "d" || res == "x")
      set { g with tasks := g.tasks.setIfInBounds t (some { td with behs := rest, dead := dies }) }
      return (b.dropLast, res)

def killTask (t : Nat) : M Unit :=
  modify fun g => match (g.tasks[t]?).join with
    | some td => { g with tasks := g.tasks.setIfInBounds t (some { td with dead := td.routine }) }
    | none => g

inductive AtomsResult where
  | ok | raised | paused (rest : List String)

/-- ops of a behaviour, executed inside an awake; stops at the first op that raises, or at `!` -/
def runAtoms : List String → M AtomsResult
  | [] => return .ok
  | a :: rest => do
    if a == "!" then return .paused rest
    match a.splitOn ":" with
    | ["+", d] =>
      match parseRat d with
      | some d => modify fun g => { g with now := g.now + d }
      | none => modify fun g => { g with bad := true }
      runAtoms rest
    | k :: w =>
      match parseCK k with
      | some ck =>
        match ← clockOp ck w with
        | some _ => return .raised
        | none => runAtoms rest
      | none => modify (fun g => { g with bad := true }); runAtoms rest
    | _ => modify (fun g => { g with bad := true }); runAtoms rest

/-- `r:inf`: an infinite delta is "never" (nothing is queued), i.e. the move `finish done`. -/
def parseResult (res : String) : Result :=
  if res == "r:inf" then .done
  else if res.startsWith "r:" || res.startsWith "ri:" || res.startsWith "rf:" then
    -- (an IntEnum member / a float subclass is a number like any other)
    match parseRat ((res.splitOn ":").getD 1 "") with
    | some d => .resched d
    | none => .done
  else if res == "x" then .raise else .done

/-- run the thread of a cond clock until it is parked or gone -/
def runClockThread (ck : CK) : Nat → M Unit
  | 0 => modify fun g => { g with bad := true }
  | fuel + 1 => do
    match ← getClock ck with
    | none => return
    | some c =>
      match c.pc with
      | .top | .batch _ =>
        let g ← get
        let _ ← clockMove ck (.thr g.now)
        runClockThread ck fuel
      | .inAwake _ x =>
        -- a step that was stopped at `!` goes on with its remaining atoms
        let g0 ← get
        let (atoms, res, lt) ← match g0.paused with
          | some (_, rest, res, _, lt) => do
              set { g0 with paused := none }
              pure (rest, res, lt)
          | none => do
              let (atoms, res) ← nextBeh (scriptTask x.task)
              pure (atoms, res, c.tempo.beats2secs x.key)
        let saved := (← get).logical
        modify fun g => { g with logical := lt, inTask := true }
        let r ← runAtoms atoms
        modify fun g => { g with logical := saved, inTask := false }
        match r with
        | .paused rest =>
          modify fun g => { g with paused := some (ck, rest, res, x.task, lt) }
          return
        | .ok =>
          let isDef := (← get).deferred.contains x.task
          let r := if isDef && res != "x" then Result.done else parseResult res
          let _ ← clockMove ck (.finish r)
          runClockThread ck fuel
        | .raised =>
          killTask (scriptTask x.task)
          let _ ← clockMove ck (.finish .raise)
          runClockThread ck fuel
      | _ => return

/-- run the AppClock thread until it is parked, gone, or (if asked) in the window -/
def runAppThread (stopInWindow : Bool) : Nat → M Unit
  | 0 => modify fun g => { g with bad := true }
  | fuel + 1 => do
    let g ← get
    match g.app.pc with
    | .top | .expired _ _ =>
      let _ ← appMove (.thr g.now)
      runAppThread stopInWindow fuel
    | .window _ =>
      if stopInWindow then return
      let _ ← appMove (.thr g.now)
      runAppThread false fuel
    | .inAwake _ _ x =>
      let (atoms, res) ← match g.paused with
        | some (_, rest, res, _, _) => do
            set { g with paused := none }
            pure (rest, res)
        | none => nextBeh (scriptTask x.task)
      let saved := g.logical
      modify fun g => { g with logical := x.key, inTask := true }
      let r ← runAtoms atoms
      modify fun g => { g with logical := saved, inTask := false }
      let now := (← get).now
      match r with
      | .paused rest =>
        modify fun g => { g with paused := some (.app, rest, res, x.task, x.key) }
        return
      | .ok =>
        let isDef := (← get).deferred.contains x.task
        let r := if isDef && res != "x" then Result.done else parseResult res
        let _ ← appMove (.finish r now)
        runAppThread stopInWindow fuel
      | .raised =>
        killTask (scriptTask x.task)
        let _ ← appMove (.finish .raise now)
        runAppThread stopInWindow fuel
    | _ => return

def FUEL : Nat := 100000

inductive TState where | notified | timed (d : Rat) | idle | other
deriving DecidableEq

def threadState (ck : CK) : M TState := do
  let g ← get
  match ck with
  | .app =>
    match g.app.pc with
    | .parked _ d =>
      if g.app.notified then return .notified
      match d with
      | some d => return .timed d
      | none => return .idle
    | _ => return .other
  | _ =>
    match ← getClock ck with
    | none => return .other
    | some c =>
      match c.pc with
      | .parkedEmpty => return (if c.notified then .notified else .idle)
      | .parkedUntil d => return (if c.notified then .notified else .timed d)
      | _ => return .other

def wakeThread (ck : CK) (r : Reason) (window : Bool := false) : M Unit := do
  let g ← get
  match ck with
  | .app =>
    if ← appMove (.wake r g.now) then runAppThread window FUEL
  | _ =>
    if ← clockMove ck (.wake r g.now) then runClockThread ck FUEL

def doWake (ck : CK) (how : String) (late : Rat) (window : Bool) : M Bool := do
  let st ← threadState ck
  match how, st with
  | "n", .notified => wakeThread ck .notify window; return true
  | "t", .timed d =>
    modify fun g => { g with now := if g.now < d + late then d + late else g.now }
    wakeThread ck .timeout window; return true
  | "u", .timed d =>
    if d ≤ (← get).now then wakeThread ck .timeout window; return true
    else return false
  | "p", .notified => wakeThread ck .notify window; return true
  | "p", .timed _ => wakeThread ck .spurious window; return true
  | "p", .idle => wakeThread ck .spurious window; return true
  | _, _ => return false

def runPolicy (dt late : Rat) : M Unit := do
  let T := (← get).now + dt
  let mut fuel := FUEL
  while fuel > 0 do
    fuel := fuel - 1
    if (← get).paused.isSome then return
    let order := (← get).order
    let mut ran := false
    for ck in order do
      if !ran then
        if (← threadState ck) == .notified then
          wakeThread ck .notify
          ran := true
    if ran then continue
    let mut best : Option (Rat × CK) := none
    for ck in order do
      match ← threadState ck with
      | .timed d =>
        let w := d + late
        if w ≤ T then
          match best with
          | none => best := some (w, ck)
          | some (bw, _) => if w < bw then best := some (w, ck)
      | _ => pure ()
    match best with
    | none => fuel := 0
    | some (w, ck) =>
      modify fun g => { g with now := if g.now < w then w else g.now }
      wakeThread ck .timeout
  modify fun g => { g with now := if g.now < T then T else g.now }

def dumpQ (k : String) (q : SQ) : String :=
  k ++ "[" ++ ",".intercalate (q.map fun x => s!"{fmtRat x.key}:{x.task % 1000}") ++ "]"

def doDump : M String := do
  let g ← get
  let mut parts : Array String := #[]
  for ck in g.order do
    match ck with
    | .sys => parts := parts.push (dumpQ "s" g.sys.q)
    | .app => parts := parts.push (dumpQ "a" g.app.q)
    | .tempo i =>
      match (g.tempos[i]?).join with
      | some c => parts := parts.push (dumpQ s!"t{i}" c.q)
      | none => pure ()
  return " ".intercalate parts.toList

def splitBehs (ws : List String) : List (List String) :=
  let rec go (ws : List String) (cur : List String) (acc : List (List String)) : List (List String) :=
    match ws with
    | [] => (if cur.isEmpty then acc else cur.reverse :: acc).reverse
    | "|" :: rest => go rest [] (if cur.isEmpty then acc else cur.reverse :: acc)
    | w :: rest => go rest (w :: cur) acc
  go ws [] []

def takeOut : M String := do
  let g ← get
  set { g with out := #[] }
  return if g.out.isEmpty then "-" else ";".intercalate g.out.toList

/-- lines that may follow while a step is stopped at `!` -/
def keepsPause : List String → Bool
  | "adv" :: _ => true
  | "dump" :: _ => true
  | "task" :: _ => true
  | "resume" :: _ => true
  | "op" :: "o" :: _ :: x :: _ => x == "s" || x == "q" || x == "c" || x == "T"
  | _ => false

/-- the stopped step goes on until its thread sleeps, then the calls that waited for the lock run -/
def doResume : M Unit := do
  let mut fuel := 1000
  while fuel > 0 do
    fuel := fuel - 1
    match (← get).paused with
    | none => fuel := 0
    | some (ck, _, _, _, _) =>
      match ck with
      | .app => runAppThread false FUEL
      | _ => runClockThread ck FUEL
  let bl := (← get).blocked
  modify fun g => { g with blocked := [] }
  for (ck, w) in bl do
    modify fun g => { g with logical := g.now }
    match ← clockOp ck w with
    | some e => emit s!"R:{e}"
    | none => pure ()

def doLine1 (ws : List String) : M String := do
  match ws with
  | ["resume"] =>
    if (← get).paused.isNone then return "noop"
    doResume
    takeOut
  | "task" :: id :: kind :: rest =>
    match id.toNat? with
    | some id =>
      modify fun g =>
        let tasks := if g.tasks.size ≤ id then g.tasks ++ Array.replicate (id + 1 - g.tasks.size) none else g.tasks
        { g with tasks := tasks.setIfInBounds id (some { routine := kind == "R", plain := kind == "P", behs := splitBehs rest }) }
      return "-"
    | none => return "bad-line"
  | "new" :: i :: rate :: flags =>
    match i.toNat?, parseRat rate with
    | some i, some rate =>
      if flags == ["p"] then modify fun g => { g with permanent := i :: g.permanent }
      let g ← get
      let c := Clock.init (Tempo.new rate g.now) true
      let tempos := if g.tempos.size ≤ i then g.tempos ++ Array.replicate (i + 1 - g.tempos.size) none else g.tempos
      let seen := if g.seen.size ≤ i + 2 then g.seen ++ Array.replicate (i + 3 - g.seen.size) 0 else g.seen
      set { g with tempos := tempos.setIfInBounds i (some c), order := g.order ++ [CK.tempo i],
                   seen := seen.setIfInBounds (i + 2) 0 }
      runClockThread (.tempo i) FUEL
      takeOut
    | _, _ => return "bad-line"
  | "cmdp" :: _ =>          -- (`cmdp h` = hard_run: the same for the clocks)
    -- CmdPeriod.run(): SystemClock.clear(), AppClock.clear(), then every TempoClock: clear(), and
    -- stop() unless permanent.  The library walks a set: the events of the line are sorted.
    let _ ← clockMove .sys (.op .clear)
    let _ ← appMove .clear
    let g ← get
    for ck in g.order do
      match ck with
      | .tempo i =>
        match ← getClock ck with
        | some c =>
          if c.run then
            let _ ← clockMove ck (.op .clear)
            if !(g.permanent.contains i) then
              let _ ← clockMove ck (.op .stop)
              wakeThread ck .notify
        | none => pure ()
      | _ => pure ()
    let g ← get
    set { g with out := #[] }
    let evs := g.out.toList.mergeSort (fun a b => a ≤ b)
    return (if evs.isEmpty then "-" else ";".intercalate evs)
  | ["adv", d] =>
    match parseRat d with
    | some d => modify (fun g => { g with now := g.now + d }); return "-"
    | none => return "bad-line"
  | "op" :: thr :: k :: w =>
    match parseCK k with
    | some ck =>
      if thr == "o" && (← get).paused.isSome then
        -- the lock is held by the stopped step: the call waits (a stopped TempoClock answers at once)
        let stopped ← match ← getClock ck with
          | some c => pure (!c.run)
          | none => pure false
        if stopped then
          return (if w.head? == some "c" then "-" else "R:ClockNotRunning")
        modify fun g => { g with blocked := g.blocked ++ [(ck, w)] }
        return "-"
      modify fun g => { g with logical := g.now }
      if w == ["stop"] then
        match ← getClock ck with
        | some c =>
          if c.run then
            let _ ← clockMove ck (.op .stop)
            wakeThread ck .notify
          takeOut
        | none => return "bad-line"
      else
        let r ← clockOp ck w
        let o ← takeOut
        match r with
        | none => return o
        | some e => return (if o == "-" then s!"R:{e}" else s!"{o};R:{e}")
    | none => return "bad-line"
  | ["half", d, t] =>
    match parseRat d, t.toNat? with
    | some d, some t =>
      let t ← schedTask t
      let g ← get
      let _ ← appMove (.schedAdd d t g.now)
      modify fun g => { g with halves := g.halves + 1 }
      takeOut
    | _, _ => return "bad-line"
  | ["fin"] =>
    let g ← get
    if g.halves == 0 then return "noop"
    let _ ← appMove .schedNotify
    modify fun g => { g with halves := g.halves - 1 }
    takeOut
  | ["cont", k] =>
    match parseCK k with
    | some .app =>
      match (← get).app.pc with
      | .window _ => runAppThread false FUEL; takeOut
      | _ => return "noop"
    | _ => return "noop"
  | "wake" :: k :: how :: rest =>
    match parseCK k with
    | some ck =>
      let window := rest.getLast? == some "w" && ck == .app
      let late := if how == "t" then (rest.head?.bind parseRat).getD 0 else 0
      if ← doWake ck how late window then takeOut else return "noop"
    | none => return "bad-line"
  | ["run", dt, late] =>
    match parseRat dt, parseRat late with
    | some dt, some late => runPolicy dt late; takeOut
    | _, _ => return "bad-line"
  | ["dump"] => doDump
  | _ => return "bad-line"

def doLine (line : String) : M String := do
  let ws := (line.trimAscii.toString.splitOn " ").filter (· ≠ "")
  if (← get).paused.isSome && !keepsPause ws then
    doResume
    let pre ← takeOut
    let out ← doLine1 ws
    let head := if pre == "-" then "|" else pre ++ ";|"
    return (if out == "-" || out == "noop" then head else head ++ ";" ++ out)
  else doLine1 ws

/-- initial world: both singleton clock threads have reached their first `wait` -/
def G.start : G :=
  let sys := ((Clock.init Tempo.id).step (.thr 0)).getD (Clock.init Tempo.id)
  let app := ((App.init.step (.thr 0)).bind fun a => a.step (.thr 0)).getD App.init
  { sys := sys, app := app, seen := #[sys.hist.length, app.hist.length] }

partial def loop (h : IO.FS.Stream) (out : IO.FS.Stream) (g : G) : IO Unit := do
  let line ← h.getLine
  if line.isEmpty then return ()
  if line.trimAscii.toString == "reset" then
    out.putStrLn "reset"
    loop h out G.start
  else
    let (s, g') := (doLine line).run g
    out.putStrLn ((if g'.bad then "MODEL-BAD:" ++ s else s) ++ " @" ++ fmtRat g'.now)
    loop h out g'

def main : IO Unit := do
  loop (← IO.getStdin) (← IO.getStdout) G.start
