/-
C08 — AppClock: invariant of the `App` transition system (the FIXED `_run`/`sched` pair with the
`_tick_pending` flag) and its preservation by every move.
-/
import Sc3Verif.C08.Lemmas
namespace Sc3Verif.C08

/-- entries taken out of the queue at the current tick and not yet awakened -/
def APC.expiredList : APC → List Entry
  | .expired l _ => l
  | .inAwake l _ _ => l
  | _ => []

def App.allStamps (a : App) : List Nat :=
  a.q.stamps ++ a.pc.expiredList.map Entry.stamp ++ awakeStamps a.hist ++ goneStamps a.hist

structure ACore (a : App) (t : Rat) : Prop where
  nextEq : a.next = insCount a.hist
  pendIff : ∀ y, y ∈ pend a.hist ↔ (y ∈ a.q ∨ y ∈ a.pc.expiredList)
  trace : AppTraceOK a.hist
  expOK : ∀ l v, (a.pc = .expired l v ∨ ∃ x, a.pc = .inAwake l v x) → (∀ y ∈ l, y.key ≤ v) ∧ v ≤ t
  partNodup : a.allStamps.Nodup
  partMem : ∀ n, n ∈ a.allStamps ↔ n < a.next

/-- No lost wake-up for AppClock: when no `sched` call is in flight and neither the pending flag
nor a notification is set, the relative time-out the thread uses (window) or sleeps on (parked)
is at most the distance from the last tick to the current head of the queue. -/
def ADL (a : App) : Prop :=
  a.run = true → a.inflight = 0 → a.pending = false → a.notified = false →
    ∀ t, (a.pc = .window t ∨ ∃ d, a.pc = .parked t d) →
      ∀ x xs, a.q = x :: xs → ∃ r, t = some r ∧ r ≤ x.key - a.tickAt

structure AInv (a : App) (t : Rat) : Prop where
  core : ACore a t
  dl : ADL a

theorem ACore.mono {a : App} {t t' : Rat} (h : ACore a t) (htt : t ≤ t') : ACore a t' :=
  { h with expOK := fun l v he => let ⟨p, q⟩ := h.expOK l v he; ⟨p, le_trans q htt⟩ }

theorem ACore.stampLt {a : App} {t : Rat} (h : ACore a t) : ∀ x ∈ a.q, x.stamp < a.next := by
  intro x hx
  apply (h.partMem x.stamp).mp
  simp only [App.allStamps, SQ.stamps, List.mem_append, List.mem_map]
  exact Or.inl (Or.inl (Or.inl ⟨x, hx, rfl⟩))

theorem ACore.nodupStamps {a : App} {t : Rat} (h : ACore a t) :
    ((a.q ++ a.pc.expiredList).map Entry.stamp).Nodup := by
  have := h.partNodup
  unfold App.allStamps SQ.stamps at this
  rw [List.map_append]
  exact (List.nodup_append.mp (List.nodup_append.mp this).1).1

theorem popExpired_spec (v : Rat) (q : SQ) :
    q = (popExpired v q).1 ++ (popExpired v q).2 ∧ ∀ y ∈ (popExpired v q).1, y.key ≤ v := by
  induction q with
  | nil => simp [popExpired]
  | cons x xs ih =>
    unfold popExpired
    split
    · rename_i hle
      simp only [List.cons_append, List.cons.injEq, true_and, List.mem_cons, forall_eq_or_imp]
      exact ⟨ih.1, hle, ih.2⟩
    · simp

/-! ### inserting -/

theorem acore_insertNew {a : App} {t : Rat} (h : ACore a t) (k : Rat) (tk : Task) :
    ACore (a.insertNew k tk) t := by
  have hst := h.stampLt
  have hnd := h.nodupStamps
  let x : Entry := { key := k, task := tk, stamp := a.next }
  have hperm : (a.insertNew k tk).allStamps.Perm (a.next :: a.allStamps) := by
    unfold App.allStamps App.insertNew
    simp only [awakeStamps_gone_append, goneStamps_gone_append, awakeStamps, goneStamps]
    have h1 : (SQ.add x a.q).stamps.Perm (a.next :: (SQ.erase tk a.q).stamps) :=
      SQ.map_insert_perm Entry.stamp x _
    have h2 := stamps_perm_erase_displaced tk a.q
    generalize a.pc.expiredList.map Entry.stamp = E
    have : ((SQ.add x a.q).stamps ++ E ++ awakeStamps a.hist ++ (SQ.displaced tk a.q ++ goneStamps a.hist)).Perm
        ((a.next :: (SQ.erase tk a.q).stamps) ++ E ++ awakeStamps a.hist ++ (SQ.displaced tk a.q ++ goneStamps a.hist)) :=
      ((h1.append_right _).append_right _).append_right _
    refine this.trans ?_
    simp only [List.cons_append]
    apply List.Perm.cons
    have h3 : (a.q.stamps ++ E ++ awakeStamps a.hist ++ goneStamps a.hist).Perm
        (((SQ.erase tk a.q).stamps ++ SQ.displaced tk a.q) ++ E ++ awakeStamps a.hist ++ goneStamps a.hist) :=
      ((h2.append_right _).append_right _).append_right _
    refine List.Perm.trans ?_ h3.symm
    simp only [List.append_assoc]
    apply List.Perm.append_left
    -- E ++ aw ++ (disp ++ gone)  ~  disp ++ (E ++ (aw ++ gone))
    have e1 : (E ++ (awakeStamps a.hist ++ (SQ.displaced tk a.q ++ goneStamps a.hist))).Perm
        (E ++ (SQ.displaced tk a.q ++ (awakeStamps a.hist ++ goneStamps a.hist))) :=
      List.Perm.append_left _ (List.perm_append_comm_assoc ..)
    exact e1.trans (List.perm_append_comm_assoc ..)
  refine
    { nextEq := ?_, pendIff := ?_, trace := ?_, expOK := h.expOK, partNodup := ?_, partMem := ?_ }
  · show a.next + 1 = insCount _
    simp [App.insertNew, insCount_gone_append, insCount, h.nextEq]
  · intro y
    show y ∈ pend ((SQ.displaced tk a.q).map Ev.gone ++ Ev.ins x :: a.hist) ↔
      (y ∈ SQ.add x a.q ∨ y ∈ a.pc.expiredList)
    rw [mem_pend_gone_append, SQ.mem_add]
    simp only [pend, List.mem_cons, h.pendIff, mem_displaced, not_exists, not_and]
    have hexp : ∀ z ∈ a.pc.expiredList, z.stamp < a.next := by
      intro z hz
      apply (h.partMem z.stamp).mp
      simp only [App.allStamps, List.mem_append, List.mem_map]
      exact Or.inl (Or.inl (Or.inr ⟨z, hz, rfl⟩))
    constructor
    · rintro ⟨hy | hy | hy, hnd'⟩
      · exact Or.inl (Or.inl hy)
      · exact Or.inl (Or.inr ⟨hy, fun htk => hnd' y hy htk rfl⟩)
      · exact Or.inr hy
    · rintro ((hy | ⟨hy, hne⟩) | hy)
      · subst hy
        refine ⟨Or.inl rfl, fun z hz _ hzs => ?_⟩
        have := hst z hz
        simp only [x] at hzs
        omega
      · refine ⟨Or.inr (Or.inl hy), fun z hz hzt hzs => ?_⟩
        have := stamp_inj hnd (List.mem_append_left _ hz) (List.mem_append_left _ hy) hzs
        subst this
        exact hne hzt
      · refine ⟨Or.inr (Or.inr hy), fun z hz _ hzs => ?_⟩
        have := stamp_inj hnd (List.mem_append_left _ hz) (List.mem_append_right _ hy) hzs
        subst this
        -- z would be both in the queue and in the expired list: two equal stamps in a nodup list
        have hnd2 := hnd
        rw [List.map_append] at hnd2
        exact (List.nodup_append.mp hnd2).2.2 z.stamp (List.mem_map.mpr ⟨z, hz, rfl⟩) z.stamp
          (List.mem_map.mpr ⟨z, hy, rfl⟩) rfl
  · show AppTraceOK ((SQ.displaced tk a.q).map Ev.gone ++ Ev.ins x :: a.hist)
    have : ∀ (l : List Nat) (h : List Ev), AppTraceOK (l.map Ev.gone ++ h) ↔ AppTraceOK h := by
      intro l h
      induction l with
      | nil => rfl
      | cons n l ih => simpa [AppTraceOK] using ih
    rw [this]
    exact ⟨h.nextEq, h.trace⟩
  · refine hperm.nodup_iff.mpr (List.nodup_cons.mpr ⟨?_, h.partNodup⟩)
    intro hmem
    have := (h.partMem a.next).mp hmem
    omega
  · intro n
    rw [hperm.mem_iff, List.mem_cons, h.partMem]
    show _ ↔ n < a.next + 1
    omega

theorem adl_of_flag {a : App} (h : a.inflight ≠ 0 ∨ a.pending = true ∨ a.notified = true ∨ a.run = false) :
    ADL a := by
  intro h1 h2 h3 h4
  rcases h with h | h | h | h
  · exact absurd h2 h
  · rw [h3] at h; cases h
  · rw [h4] at h; cases h
  · rw [h1] at h; cases h

theorem adl_of_pc {a : App} (h1 : ∀ t, a.pc ≠ .window t) (h2 : ∀ t d, a.pc ≠ .parked t d) : ADL a := by
  intro _ _ _ _ t ht
  rcases ht with ht | ⟨d, ht⟩
  · exact absurd ht (h1 t)
  · exact absurd ht (h2 t d)

/-! ### the moves -/

theorem ainv_schedAdd {a : App} {t : Rat} (h : AInv a t) (δ : Rat) (tk : Task) (now : Rat) :
    AInv { a.insertNew (now + δ) tk with inflight := a.inflight + 1 } t := by
  have hc := acore_insertNew h.core (now + δ) tk
  refine ⟨?_, adl_of_flag (Or.inl (Nat.succ_ne_zero _))⟩
  exact { nextEq := hc.nextEq, pendIff := hc.pendIff, trace := hc.trace, expOK := hc.expOK,
          partNodup := hc.partNodup, partMem := hc.partMem }

theorem ainv_clear {a : App} {t : Rat} (h : AInv a t) :
    AInv { a with q := [], hist := a.q.stamps.map Ev.gone ++ a.hist } t := by
  have hc := h.core
  have hperm : (App.allStamps { a with q := [], hist := a.q.stamps.map Ev.gone ++ a.hist }).Perm a.allStamps := by
    unfold App.allStamps
    simp only [awakeStamps_gone_append, goneStamps_gone_append, SQ.stamps, List.map_nil, List.nil_append]
    generalize a.pc.expiredList.map Entry.stamp = E
    generalize List.map Entry.stamp a.q = Q
    -- E ++ aw ++ (Q ++ gone) ~ Q ++ E ++ aw ++ gone
    simp only [List.append_assoc]
    have e1 : (E ++ (awakeStamps a.hist ++ (Q ++ goneStamps a.hist))).Perm
        (E ++ (Q ++ (awakeStamps a.hist ++ goneStamps a.hist))) :=
      List.Perm.append_left _ (List.perm_append_comm_assoc ..)
    exact e1.trans (List.perm_append_comm_assoc ..)
  refine ⟨?_, ?_⟩
  · refine { nextEq := ?_, pendIff := ?_, trace := ?_, expOK := hc.expOK,
             partNodup := hperm.nodup_iff.mpr hc.partNodup,
             partMem := fun n => by rw [hperm.mem_iff]; exact hc.partMem n }
    · show a.next = insCount (a.q.stamps.map Ev.gone ++ a.hist)
      rw [insCount_gone_append]; exact hc.nextEq
    · intro y
      show y ∈ pend (a.q.stamps.map Ev.gone ++ a.hist) ↔ (y ∈ ([] : SQ) ∨ y ∈ a.pc.expiredList)
      rw [mem_pend_gone_append, hc.pendIff]
      simp only [SQ.stamps, List.mem_map, not_exists, not_and, List.not_mem_nil, false_or]
      constructor
      · rintro ⟨hy | hy, hn⟩
        · exact absurd rfl (hn y hy)
        · exact hy
      · intro hy
        refine ⟨Or.inr hy, fun z hz hzs => ?_⟩
        have hnd := hc.nodupStamps
        have := stamp_inj hnd (List.mem_append_left _ hz) (List.mem_append_right _ hy) hzs
        subst this
        rw [List.map_append] at hnd
        exact (List.nodup_append.mp hnd).2.2 z.stamp (List.mem_map.mpr ⟨z, hz, rfl⟩) z.stamp
          (List.mem_map.mpr ⟨z, hy, rfl⟩) rfl
    · show AppTraceOK (a.q.stamps.map Ev.gone ++ a.hist)
      have : ∀ (l : List Nat) (h : List Ev), AppTraceOK (l.map Ev.gone ++ h) ↔ AppTraceOK h := by
        intro l h
        induction l with
        | nil => rfl
        | cons n l ih => simpa [AppTraceOK] using ih
      rw [this]; exact hc.trace
  · intro _ _ _ _ t _ x xs hq
    cases hq

/-- events that neither schedule, awaken nor cancel -/
def Ev.noise : Ev → Bool
  | .notify _ => true
  | .wait _ => true
  | .exit => true
  | .err _ => true
  | _ => false

theorem noise_facts {e : Ev} (he : e.noise = true) (h : List Ev) :
    pend (e :: h) = pend h ∧ insCount (e :: h) = insCount h ∧ awakeStamps (e :: h) = awakeStamps h ∧
    goneStamps (e :: h) = goneStamps h ∧ (AppTraceOK (e :: h) ↔ AppTraceOK h) := by
  cases e <;> simp [Ev.noise] at he <;> exact ⟨rfl, rfl, rfl, rfl, Iff.rfl⟩

/-- moves that change neither queue, nor stamps, nor the expired list -/
theorem acore_congr {a b : App} {t t' : Rat} (h : ACore a t) (hq : b.q = a.q)
    (hh : b.hist = a.hist ∨ ∃ e, e.noise = true ∧ b.hist = e :: a.hist)
    (hn : b.next = a.next) (hpc : b.pc.expiredList = a.pc.expiredList)
    (hexp : ∀ l v, (b.pc = .expired l v ∨ ∃ x, b.pc = .inAwake l v x) → (∀ y ∈ l, y.key ≤ v) ∧ v ≤ t') :
    ACore b t' := by
  have hfacts : pend b.hist = pend a.hist ∧ insCount b.hist = insCount a.hist ∧
      awakeStamps b.hist = awakeStamps a.hist ∧ goneStamps b.hist = goneStamps a.hist ∧
      (AppTraceOK b.hist ↔ AppTraceOK a.hist) := by
    rcases hh with hh | ⟨e, he, hh⟩
    · rw [hh]; exact ⟨rfl, rfl, rfl, rfl, Iff.rfl⟩
    · rw [hh]; exact noise_facts he _
  obtain ⟨f1, f2, f3, f4, f5⟩ := hfacts
  have hall : b.allStamps = a.allStamps := by unfold App.allStamps; rw [hq, f3, f4, hpc]
  exact { nextEq := by rw [hn, f2]; exact h.nextEq,
          pendIff := by intro y; rw [f1, hq, hpc]; exact h.pendIff y,
          trace := f5.mpr h.trace,
          expOK := hexp,
          partNodup := by rw [hall]; exact h.partNodup,
          partMem := by intro n; rw [hall, hn]; exact h.partMem n }

theorem ainv_nextExpired {a : App} {t : Rat} (h : ACore a t) (l : List Entry) (v now : Rat)
    (hl : a.pc.expiredList = l) (hkey : ∀ y ∈ l, y.key ≤ v) (hv : v ≤ now) :
    AInv (a.nextExpired l v now) now := by
  unfold App.nextExpired
  cases l with
  | nil =>
    dsimp only
    refine ⟨acore_congr h rfl (Or.inl rfl) rfl (by simpa [APC.expiredList] using hl.symm)
      (by intro l v he; simp at he), ?_⟩
    intro _ _ _ _ t ht x xs hq
    rcases ht with ht | ⟨d, ht⟩
    · simp only [APC.window.injEq] at ht
      have hq' : a.q = x :: xs := hq
      refine ⟨x.key - v, ?_, le_refl _⟩
      rw [← ht, hq']; rfl
    · simp at ht
  | cons x l' =>
    dsimp only
    refine ⟨?_, adl_of_pc (by simp) (by simp)⟩
    have hnd := h.nodupStamps
    rw [hl] at hnd
    have hperm : (App.allStamps
        { a with pc := APC.inAwake l' v x,
                 hist := Ev.awake x v v Tempo.id now x.key :: a.hist }).Perm a.allStamps := by
      unfold App.allStamps
      rw [hl]
      simp only [awakeStamps, goneStamps, APC.expiredList, List.map_cons]
      generalize a.q.stamps = Q
      generalize List.map Entry.stamp l' = L
      simp only [List.append_assoc, List.cons_append]
      apply List.Perm.append_left
      exact List.perm_middle
    refine { nextEq := h.nextEq, pendIff := ?_, trace := ?_, expOK := ?_,
             partNodup := hperm.nodup_iff.mpr h.partNodup,
             partMem := fun n => by rw [hperm.mem_iff]; exact h.partMem n }
    · intro y
      show y ∈ (pend a.hist).filter (fun y => y.stamp != x.stamp) ↔ (y ∈ a.q ∨ y ∈ l')
      simp only [List.mem_filter, h.pendIff, hl, List.mem_cons, bne_iff_ne, ne_eq]
      have hx : x ∈ a.q ++ x :: l' := List.mem_append_right _ (List.mem_cons_self ..)
      constructor
      · rintro ⟨hy | rfl | hy, hne⟩
        · exact Or.inl hy
        · exact absurd rfl hne
        · exact Or.inr hy
      · rintro (hy | hy)
        · refine ⟨Or.inl hy, fun heq => ?_⟩
          have := stamp_inj hnd (List.mem_append_left _ hy) hx heq
          subst this
          rw [List.map_append] at hnd
          exact (List.nodup_append.mp hnd).2.2 y.stamp (List.mem_map.mpr ⟨y, hy, rfl⟩) y.stamp
            (List.mem_map.mpr ⟨y, List.mem_cons_self .., rfl⟩) rfl
        · refine ⟨Or.inr (Or.inr hy), fun heq => ?_⟩
          have := stamp_inj hnd (List.mem_append_right _ (List.mem_cons_of_mem _ hy)) hx heq
          subst this
          rw [List.map_append, List.map_cons] at hnd
          have := (List.nodup_cons.mp (List.nodup_append.mp hnd).2.1).1
          exact this (List.mem_map.mpr ⟨y, hy, rfl⟩)
    · show x ∈ pend a.hist ∧ x.key ≤ v ∧ v ≤ now ∧ AppTraceOK a.hist
      refine ⟨(h.pendIff x).mpr (Or.inr (by rw [hl]; exact List.mem_cons_self ..)),
        hkey x (List.mem_cons_self ..), hv, h.trace⟩
    · intro l2 v2 he
      simp only [reduceCtorEq, APC.inAwake.injEq, false_or] at he
      obtain ⟨_, rfl, rfl, _⟩ := he
      exact ⟨fun y hy => hkey y (List.mem_cons_of_mem _ hy), hv⟩

theorem ainv_thr {a a' : App} {t : Rat} (h : AInv a t) (now : Rat) (htn : t ≤ now)
    (hs : a.thr now = some a') : AInv a' now := by
  have hc := h.core.mono htn
  unfold App.thr at hs
  split at hs
  · rename_i hpc
    split at hs
    · -- tick
      simp only [Option.some.injEq] at hs; subst hs
      obtain ⟨hsplit, hkeys⟩ := popExpired_spec now a.q
      have hnd := hc.nodupStamps
      have hexp0 : a.pc.expiredList = [] := by rw [hpc]; rfl
      let a1 : App := { a with q := (popExpired now a.q).2, pc := .expired (popExpired now a.q).1 now }
      have hperm : a1.allStamps.Perm a.allStamps := by
        unfold App.allStamps
        rw [hexp0]
        simp only [a1, APC.expiredList, List.map_nil, List.append_nil, SQ.stamps]
        apply List.Perm.append_right
        apply List.Perm.append_right
        rw [← List.map_append]
        apply List.Perm.map
        conv_rhs => rw [hsplit]
        exact List.perm_append_comm
      have hc1 : ACore a1 now :=
        { nextEq := hc.nextEq,
          pendIff := by
            intro y
            show y ∈ pend a.hist ↔ (y ∈ (popExpired now a.q).2 ∨ y ∈ (popExpired now a.q).1)
            rw [hc.pendIff, hexp0]
            conv_lhs => rw [hsplit]
            simp only [List.mem_append, List.not_mem_nil, or_false]
            tauto,
          trace := hc.trace,
          expOK := by
            intro l v he
            simp only [a1, APC.expired.injEq, reduceCtorEq, exists_false, or_false] at he
            obtain ⟨rfl, rfl⟩ := he
            exact ⟨hkeys, le_refl _⟩,
          partNodup := hperm.nodup_iff.mpr hc.partNodup,
          partMem := fun n => by rw [hperm.mem_iff]; exact hc.partMem n }
      have := ainv_nextExpired hc1 (popExpired now a.q).1 now now rfl hkeys (le_refl _)
      exact this
    · simp only [Option.some.injEq] at hs; subst hs
      rename_i hrun
      refine ⟨acore_congr hc rfl (Or.inr ⟨_, rfl, rfl⟩) rfl (by rw [hpc]; rfl)
        (by intro l v he; simp at he), adl_of_pc (by simp) (by simp)⟩
  · rename_i l v hpc
    simp only [Option.some.injEq] at hs; subst hs
    obtain ⟨hk, hv⟩ := hc.expOK l v (Or.inl hpc)
    exact ainv_nextExpired hc l v now (by rw [hpc]; rfl) hk hv
  · rename_i tt hpc
    split at hs
    · simp only [Option.some.injEq] at hs; subst hs
      refine ⟨acore_congr hc rfl (Or.inr ⟨_, rfl, rfl⟩) rfl (by rw [hpc]; rfl)
        (by intro l v he; simp at he), adl_of_pc (by simp) (by simp)⟩
    · split at hs
      · simp only [Option.some.injEq] at hs; subst hs
        refine ⟨acore_congr hc rfl (Or.inl rfl) rfl (by rw [hpc]; rfl)
          (by intro l v he; simp at he), adl_of_pc (by simp) (by simp)⟩
      · rename_i hpend
        simp only [Option.some.injEq] at hs; subst hs
        refine ⟨acore_congr hc rfl (Or.inr ⟨_, rfl, rfl⟩) rfl (by rw [hpc]; rfl)
          (by intro l v he; simp at he), ?_⟩
        intro h1 h2 h3 h4 t' ht' x xs hq
        rcases ht' with ht' | ⟨d, ht'⟩
        · simp at ht'
        · simp only [APC.parked.injEq] at ht'
          obtain ⟨rfl, _⟩ := ht'
          exact h.dl h1 h2 (by simpa using hpend) h4 tt (Or.inl hpc) x xs hq
  · cases hs

theorem ainv_wake {a a' : App} {t : Rat} (h : AInv a t) (r : Reason) (now : Rat)
    (hs : a.wake r now = some a') : AInv a' t := by
  unfold App.wake at hs
  split at hs
  · rename_i hok
    simp only [Option.some.injEq] at hs; subst hs
    have hpc : a.pc.expiredList = [] := by
      cases hp : a.pc <;> simp [hp, appWakeOk] at hok <;> rfl
    exact ⟨acore_congr h.core rfl (Or.inl rfl) rfl (by rw [hpc]; rfl)
      (by intro l v he; simp at he), adl_of_pc (by simp) (by simp)⟩
  · cases hs

theorem ainv_finish {a a' : App} {t : Rat} (h : AInv a t) (r : Result) (now : Rat)
    (hs : a.finish r now = some a') : AInv a' t := by
  unfold App.finish at hs
  split at hs
  · rename_i l v x hpc
    have hexp := h.core.expOK l v (Or.inr ⟨x, hpc⟩)
    have hexp' : ∀ l2 v2, ((APC.expired l v = .expired l2 v2) ∨ ∃ x, (APC.expired l v = .inAwake l2 v2 x)) →
        (∀ y ∈ l2, y.key ≤ v2) ∧ v2 ≤ t := by
      intro l2 v2 he
      simp only [APC.expired.injEq, reduceCtorEq, exists_false, or_false] at he
      obtain ⟨rfl, rfl⟩ := he
      exact hexp
    cases r with
    | resched δ =>
      simp only [Option.some.injEq] at hs; subst hs
      have hc := acore_insertNew h.core (now + δ) x.task
      refine ⟨acore_congr hc rfl (Or.inl rfl) rfl ?_ hexp', adl_of_pc (by simp) (by simp)⟩
      show APC.expiredList (.expired l v) = (a.insertNew (now + δ) x.task).pc.expiredList
      show l = a.pc.expiredList
      rw [hpc]; rfl
    | done =>
      simp only [Option.some.injEq] at hs; subst hs
      exact ⟨acore_congr h.core rfl (Or.inl rfl) rfl (by rw [hpc]; rfl) hexp',
        adl_of_pc (by simp) (by simp)⟩
    | raise =>
      simp only [Option.some.injEq] at hs; subst hs
      exact ⟨acore_congr h.core rfl (Or.inr ⟨_, rfl, rfl⟩) rfl (by rw [hpc]; rfl) hexp',
        adl_of_pc (by simp) (by simp)⟩
  · cases hs

def AMove.now? : AMove → Option Rat
  | .schedAdd _ _ n => some n
  | .wake _ n => some n
  | .thr n => some n
  | .finish _ n => some n
  | _ => none

def AMove.time (m : AMove) (t : Rat) : Rat := (m.now?).getD t

theorem ainv_step {a a' : App} {t : Rat} (h : AInv a t) (m : AMove)
    (htn : ∀ n, m.now? = some n → t ≤ n) (hs : a.step m = some a') : AInv a' (m.time t) := by
  have keepExp : ∀ l v, (a.pc = .expired l v ∨ ∃ x, a.pc = .inAwake l v x) →
      (∀ y ∈ l, y.key ≤ v) ∧ v ≤ t := h.core.expOK
  cases m with
  | schedAdd δ tk now =>
    simp only [App.step, Option.some.injEq] at hs; subst hs
    have := ainv_schedAdd h δ tk now
    exact ⟨this.core.mono (htn now rfl), this.dl⟩
  | schedNotify =>
    simp only [App.step] at hs
    split at hs
    · simp only [Option.some.injEq] at hs; subst hs
      exact ⟨acore_congr h.core rfl (Or.inr ⟨_, rfl, rfl⟩) rfl rfl keepExp,
        adl_of_flag (Or.inr (Or.inl rfl))⟩
    · cases hs
  | clear =>
    simp only [App.step, Option.some.injEq] at hs; subst hs
    exact ainv_clear h
  | stop =>
    simp only [App.step, Option.some.injEq] at hs; subst hs
    exact ⟨acore_congr h.core rfl (Or.inr ⟨_, rfl, rfl⟩) rfl rfl keepExp,
      adl_of_flag (Or.inr (Or.inr (Or.inr rfl)))⟩
  | wake r now =>
    have := ainv_wake h r now hs
    exact ⟨this.core.mono (htn now rfl), this.dl⟩
  | thr now => exact ainv_thr h now (htn now rfl) hs
  | finish r now =>
    have := ainv_finish h r now hs
    exact ⟨this.core.mono (htn now rfl), this.dl⟩

theorem ainv_init (t : Rat) : AInv App.init t := by
  refine ⟨?_, adl_of_pc (by simp [App.init]) (by simp [App.init])⟩
  exact { nextEq := rfl, pendIff := fun y => by simp [App.init, pend, APC.expiredList],
          trace := trivial, expOK := by intro l v he; simp [App.init] at he,
          partNodup := List.nodup_nil,
          partMem := fun n => by simp [App.allStamps, App.init, SQ.stamps, awakeStamps, goneStamps, APC.expiredList] }

end Sc3Verif.C08
