/-
C08 — Real-time clocks wake every task once, on time, in order, and survive errors.

Property theorems only.  `Reach c t` = the clock-thread state `c` is reached from the initial
state by ANY finite sequence of moves (calls from any thread: sched / clear / tempo / stop; wake-ups
by notification, time-out or spuriously; internal steps of the thread at arbitrary non-decreasing
physical times; task results: re-schedule / end / raise), `t` = physical time of the last step.
Side conditions (`Move.ok`): scheduled times differ from the `-1e10` empty-queue sentinel of
`_sched_add`; time-outs never fire before their deadline (guard of `wake`, semantics of
`Condition.wait`); physical time does not run backwards.
-/
import Sc3Verif.C08.Lemmas
import Sc3Verif.C08.AppLemmas
namespace Sc3Verif.C08

inductive Reach : Clock → Rat → Prop
  | init (T : Tempo) (hT : T.WF) (fresh : Bool) (t0 : Rat) : Reach (Clock.init T fresh) t0
  | step {c c' : Clock} {t : Rat} (m : Move) : Reach c t → m.ok →
      (∀ n, m.now? = some n → t ≤ n) → c.step m = some c' → Reach c' (m.time t)

theorem reach_inv {c : Clock} {t : Rat} (h : Reach c t) : Inv c t := by
  induction h with
  | init T hT fresh t0 => exact core_init T hT fresh t0
  | step m _ hok htn hs ih => exact inv_step ih m hok htn hs

/-- MAIN (safety): every history satisfies the specification `TraceOK` of `Spec.lean`:
each awake takes an entry that is pending, the first one by (time, scheduling order), and not
before the clock has reached its time. -/
theorem trace_ok {c : Clock} {t : Rat} (h : Reach c t) : TraceOK c.hist := (reach_inv h).core.trace

theorem traceOK_suffix {h1 h2 : List Ev} (h : TraceOK (h1 ++ h2)) : TraceOK h2 := by
  induction h1 with
  | nil => exact h
  | cons e h1 ih =>
    cases e with
    | ins x => exact ih h.2
    | awake x e n T a s => exact ih h.2.2.2.2.2.2
    | gone n => exact ih h
    | err x => exact ih h
    | notify w => exact ih h
    | wait w => exact ih h
    | exit => exact ih h

/-- Every scheduling call (stamp `n`) is, at any time, in exactly one of three places: still
pending in the queue, awakened (once — the list has no duplicates), or cancelled (displaced by a
re-scheduling of the same task, cleared, stopped). -/
theorem wake_exactly_once {c : Clock} {t : Rat} (h : Reach c t) :
    (c.q.stamps ++ awakeStamps c.hist ++ goneStamps c.hist).Nodup ∧
    (∀ n, n ∈ c.q.stamps ++ awakeStamps c.hist ++ goneStamps c.hist ↔ n < insCount c.hist) := by
  have hi := (reach_inv h).core
  refine ⟨hi.partNodup, fun n => ?_⟩
  rw [← hi.nextEq]; exact hi.partMem n

/-- in particular nothing is awakened twice and nothing cancelled is awakened -/
theorem awake_once_and_not_if_cancelled {c : Clock} {t : Rat} (h : Reach c t) :
    (awakeStamps c.hist).Nodup ∧ ∀ n ∈ goneStamps c.hist, n ∉ awakeStamps c.hist := by
  have := (wake_exactly_once h).1
  rw [List.append_assoc] at this
  have h2 := (List.nodup_append.mp this).2.1
  refine ⟨(List.nodup_append.mp h2).1, fun n hg ha => ?_⟩
  exact (List.nodup_append.mp h2).2.2 n ha n hg rfl

/-- an awake only ever takes a pending entry -/
theorem awake_only_pending {c : Clock} {t : Rat} (h : Reach c t) {h1 h2 : List Ev} {x : Entry}
    {e n a s : Rat} {T : Tempo} (hh : c.hist = h1 ++ Ev.awake x e n T a s :: h2) : x ∈ pend h2 := by
  have := traceOK_suffix (h1 := h1) (hh ▸ trace_ok h)
  exact this.1

/-- Tasks are awakened in order of scheduled time, ties in scheduling order: whatever is pending
at the moment of an awake is not before the awakened entry. -/
theorem order_by_time_fifo {c : Clock} {t : Rat} (h : Reach c t) {h1 h2 : List Ev} {x : Entry}
    {e n a s : Rat} {T : Tempo} (hh : c.hist = h1 ++ Ev.awake x e n T a s :: h2) :
    ∀ y ∈ pend h2, y = x ∨ x.before y := by
  have := traceOK_suffix (h1 := h1) (hh ▸ trace_ok h)
  exact this.2.1

theorem Tempo.beats2secs_le_of_le_secs2beats {T : Tempo} (hT : T.WF) {k n : Rat}
    (h : k ≤ T.secs2beats n) : T.beats2secs k ≤ n := by
  obtain ⟨hr, hd⟩ := hT
  unfold Tempo.secs2beats at h
  unfold Tempo.beats2secs
  rw [hd]
  have hr' : T.rate ≠ 0 := ne_of_gt hr
  have h1 : (k - T.baseBeats) * (1 / T.rate) ≤ n - T.baseSecs := by
    rw [mul_one_div, div_le_iff₀ hr]
    linarith
  linarith

/-- Never early: the physical time `at_` of an awake is not before the scheduled time of the entry
(converted with the tempo map the thread used when it found the entry ready). -/
theorem never_early {c : Clock} {t : Rat} (h : Reach c t) {h1 h2 : List Ev} {x : Entry}
    {e n a s : Rat} {T : Tempo} (hh : c.hist = h1 ++ Ev.awake x e n T a s :: h2) :
    T.beats2secs x.key ≤ a := by
  have := traceOK_suffix (h1 := h1) (hh ▸ trace_ok h)
  obtain ⟨_, _, hle, he, hT, hna, _⟩ := this
  exact le_trans (Tempo.beats2secs_le_of_le_secs2beats hT (he ▸ hle)) hna

/-- TempoClock re-reads the elapsed beats for every task of a batch (repair D-C08-3): each awake is
justified by the tempo map in force AT THAT MOMENT and the physical time of that very step — also
when an earlier task of the same batch changed the tempo. -/
theorem never_early_current_tempo {c c' : Clock} {e now : Rat} {x : Entry} (hf : c.fresh = true)
    (hpc : c.pc = .batch e) (hs : c.step (.thr now) = some c') (hx : ∃ e', c'.pc = .inAwake e' x) :
    x.key ≤ c.tempo.secs2beats now ∧
    ∃ h, c'.hist = Ev.awake x (c.tempo.secs2beats now) now c.tempo now (c.tempo.beats2secs x.key) :: h := by
  simp only [Clock.step, Clock.thr, hpc, Option.some.injEq] at hs
  subst hs
  unfold Clock.batchStep at hx ⊢
  split at hx
  · obtain ⟨e', he'⟩ := hx; simp at he'
  · rename_i y ys hq
    split at hx
    · rename_i hle
      obtain ⟨e', he'⟩ := hx
      simp only [PC.inAwake.injEq] at he'
      obtain ⟨_, rfl⟩ := he'
      simp only [Clock.batchE, hf, if_true] at hle
      simp only [hq, hle, Clock.batchE, Clock.batchNow, Clock.batchTempo, hf, if_true]
      exact ⟨trivial, _, rfl⟩
    · obtain ⟨e', he'⟩ := hx; simp at he'

/-- SystemClock (identity tempo map): awake time ≥ scheduled seconds. -/
theorem never_early_system {x : Entry} {a : Rat} (h : Tempo.id.beats2secs x.key ≤ a) : x.key ≤ a := by
  simpa [Tempo.beats2secs, Tempo.id] using h

/-- No lost wake-up (the invariant): a sleeping thread without a pending notification sleeps
exactly until the time of the *current* head of the queue under the *current* tempo, whatever
calls were made from whatever thread while it slept. -/
theorem no_lost_wakeup {c : Clock} {t : Rat} (h : Reach c t) (hrun : c.run = true)
    (hn : c.notified = false) :
    (c.pc = .parkedEmpty → c.q = []) ∧
    (∀ d, c.pc = .parkedUntil d → ∃ x xs, c.q = x :: xs ∧ d = c.tempo.beats2secs x.key) :=
  (reach_inv h).dl hrun hn

theorem Tempo.beats2secs_mono {T : Tempo} (hT : T.WF) {a b : Rat} (h : a ≤ b) :
    T.beats2secs a ≤ T.beats2secs b := by
  obtain ⟨hr, hd⟩ := hT
  unfold Tempo.beats2secs
  rw [hd]
  have : 0 ≤ 1 / T.rate := le_of_lt (one_div_pos.mpr hr)
  nlinarith

/-- … hence the scenario of the property statement: a task scheduled (from any thread) ahead of
the deadline the thread currently sleeps on makes the notified flag true. -/
theorem sched_ahead_of_sleeping_head_notifies {c : Clock} {t : Rat} (h : Reach c t)
    (hrun : c.run = true) {d k : Rat} {tk : Task} (hpc : c.pc = .parkedUntil d)
    (hk : k ≠ sentinel) (hlt : c.tempo.beats2secs k < d) :
    (c.schedAdd k tk).notified = true := by
  have hstep : c.step (.op (.sched k tk)) = some (c.schedAdd k tk) := rfl
  have h' := Reach.step (.op (.sched k tk)) h hk (by intro n hn; cases hn) hstep
  have hi := reach_inv h'
  by_contra hcon
  have hnf : (c.schedAdd k tk).notified = false := by simpa using hcon
  have hrun' : (c.schedAdd k tk).run = true := by
    rw [schedAdd_eq]; split <;> exact hrun
  have hpc' : (c.schedAdd k tk).pc = .parkedUntil d := by
    rw [(schedAdd_eval c k tk).2.2]; exact hpc
  have htempo : (c.schedAdd k tk).tempo = c.tempo := by
    rw [schedAdd_eq]; split <;> rfl
  obtain ⟨z, zs, hq, hd⟩ := (hi.dl hrun' hnf).2 d hpc'
  -- the head `z` is not after the new entry, whose time is before `d`
  have hmem : ({ key := k, task := tk, stamp := c.next } : Entry) ∈ (c.schedAdd k tk).q := by
    have : (c.schedAdd k tk).q = (c.schedAdd0 k tk).q := by rw [schedAdd_eq]; split <;> rfl
    rw [this]; exact SQ.mem_add.mpr (Or.inl rfl)
  have hsorted := hi.core.sorted
  rw [hq] at hsorted hmem
  have hzk : z.key ≤ k := by
    rcases List.mem_cons.mp hmem with hx | hx
    · rw [← hx]
    · exact Entry.before_key_le ((List.pairwise_cons.mp hsorted).1 _ hx)
  have := Tempo.beats2secs_mono hi.core.tempoWF hzk
  rw [htempo] at this hd
  linarith

theorem Tempo.le_secs2beats_of_beats2secs_le {T : Tempo} (hT : T.WF) {k n : Rat}
    (h : T.beats2secs k ≤ n) : k ≤ T.secs2beats n := by
  obtain ⟨hr, hd⟩ := hT
  unfold Tempo.beats2secs at h
  unfold Tempo.secs2beats
  rw [hd] at h
  have h1 : (k - T.baseBeats) * (1 / T.rate) ≤ n - T.baseSecs := by linarith
  rw [mul_one_div, div_le_iff₀ hr] at h1
  linarith

/-- On time (progress): when the sleeping thread gets its time-out at any `now` at or after the
deadline, its next steps awaken the head of the queue at that very `now`. -/
theorem on_time {c : Clock} {t : Rat} (h : Reach c t) (hrun : c.run = true) (hn : c.notified = false)
    {d now : Rat} (hpc : c.pc = .parkedUntil d) (hdn : d ≤ now) :
    ∃ x xs c1 c2 c3, c.q = x :: xs ∧ d = c.tempo.beats2secs x.key ∧
      c.step (.wake .timeout now) = some c1 ∧ c1.step (.thr now) = some c2 ∧
      c2.step (.thr now) = some c3 ∧ c3.pc = .inAwake (c.tempo.secs2beats now) x ∧ c3.q = xs := by
  obtain ⟨x, xs, hq, hd⟩ := (no_lost_wakeup h hrun hn).2 d hpc
  have hT := (reach_inv h).core.tempoWF
  have hxk : x.key ≤ c.tempo.secs2beats now :=
    Tempo.le_secs2beats_of_beats2secs_le hT (hd ▸ hdn)
  have hw : c.woken = { c with notified := false, pc := .top } := by
    simp [Clock.woken, hrun]
  have he : c.woken.eval now = { c with notified := false, pc := .batch (c.tempo.secs2beats now),
                                        evalNow := now, evalTempo := c.tempo } := by
    rw [hw]; simp [Clock.eval, hq, hxk]
  refine ⟨x, xs, c.woken, c.woken.eval now,
    (c.woken.eval now).batchStep (c.tempo.secs2beats now) now, hq, hd, ?_, ?_, ?_, ?_, ?_⟩
  · show c.wake .timeout now = some _
    simp [Clock.wake, hpc, wakeOk, hdn]
  · rw [hw]; rfl
  · rw [he]; rfl
  · rw [he]; cases hf : c.fresh <;> simp [Clock.batchStep, Clock.batchE, hq, hxk, hf]
  · rw [he]; cases hf : c.fresh <;> simp [Clock.batchStep, Clock.batchE, hq, hxk, hf]

/-- A numeric result re-schedules relative to the SCHEDULED time (`x.key + δ`), whatever the
physical time is (the move does not even carry one): no drift on SystemClock / TempoClock. -/
theorem resched_relative_to_sched_time {c c' : Clock} {e δ : Rat} {x : Entry}
    (hpc : c.pc = .inAwake e x) (hs : c.step (.finish (.resched δ)) = some c') :
    c'.pc = .batch e ∧
    ({ key := x.key + δ, task := x.task, stamp := c.next } : Entry) ∈ c'.q ∧
    ∀ y ∈ c'.q, y.task = x.task → y.key = x.key + δ := by
  simp only [Clock.step, Clock.finish, hpc, Option.some.injEq] at hs
  subst hs
  have hq : (c.schedAdd (x.key + δ) x.task).q = (c.schedAdd0 (x.key + δ) x.task).q := by
    rw [schedAdd_eq]; split <;> rfl
  refine ⟨rfl, ?_, ?_⟩
  · show _ ∈ (c.schedAdd (x.key + δ) x.task).q
    rw [hq]; exact SQ.mem_add.mpr (Or.inl rfl)
  · intro y hy hyt
    have hy' : y ∈ (c.schedAdd (x.key + δ) x.task).q := hy
    rw [hq] at hy'
    rcases SQ.mem_add.mp hy' with rfl | ⟨_, hne⟩
    · rfl
    · exact absurd hyt hne

/-- `clear` cancels everything pending and tells a sleeping thread. -/
theorem clear_cancels_all {c c' : Clock} (hs : c.step (.op .clear) = some c') :
    c'.q = [] ∧ (∀ x ∈ c.q, x.stamp ∈ goneStamps c'.hist) ∧ (c.pc.parked = true → c'.notified = true) := by
  simp only [Clock.step, Clock.applyOp, Option.some.injEq] at hs
  subst hs
  refine ⟨rfl, ?_, ?_⟩
  · intro x hx
    show x.stamp ∈ goneStamps (Ev.notify _ :: (c.q.stamps.map Ev.gone ++ c.hist))
    simp only [goneStamps, goneStamps_gone_append, List.mem_append, SQ.stamps, List.mem_map]
    exact Or.inl ⟨x, hx, rfl⟩
  · intro hp
    simp [Clock.notify, Clock.clearAll, hp]

/-- stopping: everything pending is cancelled, the thread is told, and its next return from
`wait` ends it; an ended thread makes no further step. -/
theorem stop_cancels_all {c c' : Clock} (hs : c.step (.op .stop) = some c') :
    c'.q = [] ∧ c'.run = false ∧ (∀ x ∈ c.q, x.stamp ∈ goneStamps c'.hist) ∧
    (c.pc.parked = true → c'.notified = true ∧
      ∃ c'', c'.step (.wake .notify 0) = some c'' ∧ c''.pc = .exited) := by
  simp only [Clock.step, Clock.applyOp, Option.some.injEq] at hs
  subst hs
  refine ⟨rfl, rfl, ?_, ?_⟩
  · intro x hx
    show x.stamp ∈ goneStamps (Ev.notify _ :: (c.q.stamps.map Ev.gone ++ c.hist))
    simp only [goneStamps, goneStamps_gone_append, List.mem_append, SQ.stamps, List.mem_map]
    exact Or.inl ⟨x, hx, rfl⟩
  · intro hp
    refine ⟨by simp [Clock.notify, Clock.clearAll, hp], ?_⟩
    cases hpc : c.pc <;> simp [hpc, PC.parked] at hp <;>
      simp [Clock.step, Clock.wake, Clock.notify, Clock.clearAll, Clock.woken, wakeOk, hpc, PC.parked]

theorem exited_is_final {c : Clock} (hpc : c.pc = .exited) (m : Move) (hm : ∀ o, m ≠ .op o) :
    c.step m = none := by
  cases m with
  | op o => exact absurd rfl (hm o)
  | wake r now => cases r <;> simp [Clock.step, Clock.wake, wakeOk, hpc]
  | thr now => simp [Clock.step, Clock.thr, hpc]
  | finish r => simp [Clock.step, Clock.finish, hpc]

/-- The history only grows: what is cancelled stays cancelled. -/
theorem hist_grows {c c' : Clock} {m : Move} (hs : c.step m = some c') : c.hist <:+ c'.hist := by
  have hadd : ∀ k tk, c.hist <:+ (c.schedAdd k tk).hist := by
    intro k tk
    rw [schedAdd_eq]
    split
    · show c.hist <:+ Ev.notify _ :: ((SQ.displaced tk c.q).map Ev.gone ++ Ev.ins _ :: c.hist)
      exact ((List.suffix_cons _ _).trans (List.suffix_append _ _)).trans (List.suffix_cons _ _)
    · show c.hist <:+ (SQ.displaced tk c.q).map Ev.gone ++ Ev.ins _ :: c.hist
      exact (List.suffix_cons _ _).trans (List.suffix_append _ _)
  cases m with
  | op o =>
    cases o with
    | sched k tk => simp only [Clock.step, Clock.applyOp, Option.some.injEq] at hs; subst hs; exact hadd k tk
    | clear =>
      simp only [Clock.step, Clock.applyOp, Option.some.injEq] at hs; subst hs
      exact (List.suffix_append _ _).trans (List.suffix_cons _ _)
    | setTempo v secs =>
      simp only [Clock.step, Clock.applyOp] at hs
      split at hs
      · simp only [Option.some.injEq] at hs; subst hs; exact List.suffix_cons _ _
      · cases hs
    | etempo v now =>
      simp only [Clock.step, Clock.applyOp] at hs
      split at hs
      · simp only [Option.some.injEq] at hs; subst hs; exact List.suffix_cons _ _
      · cases hs
    | stop =>
      simp only [Clock.step, Clock.applyOp, Option.some.injEq] at hs; subst hs
      exact (List.suffix_append _ _).trans (List.suffix_cons _ _)
  | wake r now =>
    simp only [Clock.step, Clock.wake] at hs
    split at hs
    · simp only [Option.some.injEq] at hs; subst hs
      unfold Clock.woken; split
      · exact List.suffix_refl _
      · exact List.suffix_cons _ _
    · cases hs
  | thr now =>
    simp only [Clock.step, Clock.thr] at hs
    split at hs
    · simp only [Option.some.injEq] at hs; subst hs
      unfold Clock.eval; split
      · exact List.suffix_cons _ _
      · dsimp only; split
        · exact List.suffix_refl _
        · exact List.suffix_cons _ _
    · simp only [Option.some.injEq] at hs; subst hs
      unfold Clock.batchStep; split
      · exact List.suffix_refl _
      · split
        · exact List.suffix_cons _ _
        · exact List.suffix_refl _
    · cases hs
  | finish r =>
    simp only [Clock.step, Clock.finish] at hs
    split at hs
    · cases r with
      | resched δ => simp only [Option.some.injEq] at hs; subst hs; exact hadd _ _
      | done => simp only [Option.some.injEq] at hs; subst hs; exact List.suffix_refl _
      | raise => simp only [Option.some.injEq] at hs; subst hs; exact List.suffix_cons _ _
    · cases hs

theorem goneStamps_suffix {h h' : List Ev} (hs : h <:+ h') : ∀ n ∈ goneStamps h, n ∈ goneStamps h' := by
  obtain ⟨l, rfl⟩ := hs
  intro n hn
  induction l with
  | nil => exact hn
  | cons e l ih => cases e <;> simp [goneStamps, ih]

/-- Cancelled once, never awakened later: after any further moves. -/
theorem cancelled_never_awakened {c c' : Clock} {t t' : Rat} {m : Move} (_h : Reach c t)
    (h' : Reach c' t') (hs : c.step m = some c') :
    ∀ n ∈ goneStamps c.hist, n ∉ awakeStamps c'.hist := by
  intro n hn
  exact (awake_once_and_not_if_cancelled h').2 n (goneStamps_suffix (hist_grows hs) n hn)

/-- An exception raised by a task is logged and changes nothing else: the state after `raise` is
the state after a normal end, but for the log entry; the thread goes on with its batch. -/
theorem exception_isolated {c c1 c2 : Clock} (h1 : c.step (.finish .raise) = some c1)
    (h2 : c.step (.finish .done) = some c2) :
    ∃ x, c1 = { c2 with hist := Ev.err x :: c2.hist } ∧ ∃ e, c1.pc = .batch e := by
  simp only [Clock.step, Clock.finish] at h1 h2
  split at h1
  · rename_i e x hpc
    simp only [hpc] at h2
    simp only [Option.some.injEq] at h1 h2
    subst h1 h2
    exact ⟨x, rfl, e, rfl⟩
  · cases h1

/-- A tempo change tells the sleeping thread; by `no_lost_wakeup` its next deadline is then
computed from the NEW tempo map. -/
theorem tempo_change_reevaluates {c c' : Clock} {v secs : Rat}
    (hs : c.step (.op (.setTempo v secs)) = some c') :
    0 < v ∧ c'.tempo = c.tempo.setTempo v secs ∧ c'.q = c.q ∧ (c.pc.parked = true → c'.notified = true) := by
  simp only [Clock.step, Clock.applyOp] at hs
  split at hs
  · rename_i hv
    simp only [Option.some.injEq] at hs; subst hs
    exact ⟨hv, rfl, rfl, fun hp => by simp [Clock.notify, hp]⟩
  · cases hs

/-- `etempo` anchors the change at the physical present: the beat count is continuous across the
change (the new map gives `now` the beats the old map gave it), the new rate is in force from there,
and a sleeping thread is told. -/
theorem etempo_continuous {c c' : Clock} {v now : Rat} (hs : c.step (.op (.etempo v now)) = some c') :
    0 < v ∧ c'.tempo.secs2beats now = c.tempo.secs2beats now ∧ c'.tempo.rate = v ∧
    (∀ t, c'.tempo.secs2beats t = c.tempo.secs2beats now + (t - now) * v) ∧
    c'.q = c.q ∧ (c.pc.parked = true → c'.notified = true) := by
  simp only [Clock.step, Clock.applyOp] at hs
  split at hs
  · rename_i hv
    simp only [Option.some.injEq] at hs; subst hs
    refine ⟨hv, ?_, rfl, ?_, rfl, fun hp => by simp [Clock.notify, hp]⟩
    · simp [Clock.notify, Tempo.etempo, Tempo.secs2beats]
    · intro t
      simp only [Clock.notify, Tempo.etempo, Tempo.secs2beats]
      ring
  · cases hs

/-! Non-vacuity: a concrete run in which a task is scheduled ahead of a sleeping head, one task
re-schedules itself and another one raises. -/
def exampleMoves : List Move :=
  [.thr 0, .op (.sched 5 0), .wake .notify 0, .thr 0,          -- sleeps until 5
   .op (.sched 2 1), .wake .notify 1, .thr 1,                  -- task 1 ahead of the head: until 2
   .wake .timeout (33/16), .thr (33/16), .thr (33/16), .finish (.resched 1),
   .thr (33/16), .thr (33/16),                                 -- sleeps until 3
   .wake .timeout 3, .thr 3, .thr 3, .finish .raise, .thr 3, .thr 3]

example : ((Clock.init Tempo.id false).runMoves exampleMoves).map (fun c => (c.pc, c.q.map (·.task))) =
    some (.parkedUntil 5, [0]) := by decide +kernel

/-! ## AppClock (the repaired `_run` / `sched` pair, see known finding D-C08-1) -/

inductive AReach : App → Rat → Prop
  | init (t0 : Rat) : AReach App.init t0
  | step {a a' : App} {t : Rat} (m : AMove) : AReach a t →
      (∀ n, m.now? = some n → t ≤ n) → a.step m = some a' → AReach a' (m.time t)

theorem areach_inv {a : App} {t : Rat} (h : AReach a t) : AInv a t := by
  induction h with
  | init t0 => exact ainv_init t0
  | step m _ htn hs ih => exact ainv_step ih m htn hs

/-- AppClock safety: every awake takes a pending entry whose time had come at the tick, and the
tick was not after the awake (`AppTraceOK`). -/
theorem app_trace_ok {a : App} {t : Rat} (h : AReach a t) : AppTraceOK a.hist := (areach_inv h).core.trace

theorem appTraceOK_suffix {h1 h2 : List Ev} (h : AppTraceOK (h1 ++ h2)) : AppTraceOK h2 := by
  induction h1 with
  | nil => exact h
  | cons e h1 ih =>
    cases e with
    | ins x => exact ih h.2
    | awake x e n T a s => exact ih h.2.2.2
    | gone n => exact ih h
    | err x => exact ih h
    | notify w => exact ih h
    | wait w => exact ih h
    | exit => exact ih h

/-- every scheduling call on AppClock is in exactly one place: queue, taken out at the running
tick, awakened (once), or cancelled -/
theorem app_wake_exactly_once {a : App} {t : Rat} (h : AReach a t) :
    a.allStamps.Nodup ∧ ∀ n, n ∈ a.allStamps ↔ n < insCount a.hist := by
  have hi := (areach_inv h).core
  refine ⟨hi.partNodup, fun n => ?_⟩
  rw [← hi.nextEq]; exact hi.partMem n

theorem app_never_early {a : App} {t : Rat} (h : AReach a t) {h1 h2 : List Ev} {x : Entry}
    {e n at_ s : Rat} {T : Tempo} (hh : a.hist = h1 ++ Ev.awake x e n T at_ s :: h2) :
    x ∈ pend h2 ∧ x.key ≤ at_ := by
  have := appTraceOK_suffix (h1 := h1) (hh ▸ app_trace_ok h)
  exact ⟨this.1, le_trans this.2.1 this.2.2.1⟩

/-- No lost wake-up on AppClock: with no `sched` call in flight and neither flag set, the time-out
of the thread (about to wait, or waiting) is at most the distance from the last tick to the
current head of the queue. -/
theorem app_no_lost_wakeup {a : App} {t : Rat} (h : AReach a t) (h1 : a.run = true)
    (h2 : a.inflight = 0) (h3 : a.pending = false) (h4 : a.notified = false) (tt : Option Rat)
    (hpc : a.pc = .window tt ∨ ∃ d, a.pc = .parked tt d) (x : Entry) (xs : SQ) (hq : a.q = x :: xs) :
    ∃ r, tt = some r ∧ r ≤ x.key - a.tickAt :=
  (areach_inv h).dl h1 h2 h3 h4 tt hpc x xs hq

/-- The repaired window (D-C08-1): a `sched` call completed while the thread is between its tick and
its wait sets the pending flag, and the thread's next step is a new tick instead of a wait. -/
theorem app_sched_in_window_not_lost {a a1 a2 : App} {tt : Option Rat} {δ now : Rat} {tk : Task}
    (hpc : a.pc = .window tt) (hrun : a.run = true)
    (h1 : a.step (.schedAdd δ tk now) = some a1) (h2 : a1.step .schedNotify = some a2) :
    a2.pending = true ∧ ∃ a3, a2.step (.thr now) = some a3 ∧ a3.pc = .top ∧
      ∃ y ∈ a3.q, y.task = tk ∧ y.key = now + δ := by
  simp only [App.step, Option.some.injEq] at h1
  subst h1
  have hpos : 0 < a.inflight + 1 := Nat.succ_pos _
  simp only [App.step, Nat.add_sub_cancel, hpos, if_true, Option.some.injEq] at h2
  subst h2
  refine ⟨rfl, ?_⟩
  simp only [App.step, App.thr, App.insertNew, hpc, hrun, Bool.not_true, Bool.false_eq_true, if_false,
    if_true, Option.some.injEq, exists_eq_left']
  exact ⟨trivial, ⟨now + δ, tk, a.next⟩, SQ.mem_add.mpr (Or.inl rfl), rfl, rfl⟩

/-- AppClock re-schedules relative to the physical present (documented drift). -/
theorem app_resched_relative_to_now {a a' : App} {l : List Entry} {v δ now : Rat} {x : Entry}
    (hpc : a.pc = .inAwake l v x) (hs : a.step (.finish (.resched δ) now) = some a') :
    a'.pc = .expired l v ∧ ({ key := now + δ, task := x.task, stamp := a.next } : Entry) ∈ a'.q := by
  simp only [App.step, App.finish, hpc, Option.some.injEq] at hs
  subst hs
  exact ⟨rfl, SQ.mem_add.mpr (Or.inl rfl)⟩

theorem app_clear_cancels_queue {a a' : App} (hs : a.step .clear = some a') :
    a'.q = [] ∧ ∀ x ∈ a.q, x.stamp ∈ goneStamps a'.hist := by
  simp only [App.step, Option.some.injEq] at hs
  subst hs
  refine ⟨rfl, fun x hx => ?_⟩
  show x.stamp ∈ goneStamps (a.q.stamps.map Ev.gone ++ a.hist)
  rw [goneStamps_gone_append]
  exact List.mem_append_left _ (List.mem_map.mpr ⟨x, hx, rfl⟩)

theorem app_exception_isolated {a a1 a2 : App} {now : Rat}
    (h1 : a.step (.finish .raise now) = some a1) (h2 : a.step (.finish .done now) = some a2) :
    ∃ x, a1 = { a2 with hist := Ev.err x :: a2.hist } := by
  simp only [App.step, App.finish] at h1 h2
  split at h1
  · rename_i l v x hpc
    simp only [hpc] at h2
    simp only [Option.some.injEq] at h1 h2
    subst h1 h2
    exact ⟨x, rfl⟩
  · cases h1

/-! Non-vacuity: the D-C08-1 scenario on the repaired model — the thread is in its window with an
empty queue, a task is scheduled from another thread, and it is awakened in time. -/
def appExample : List AMove :=
  [.thr 0,                                   -- tick on the empty queue: window, would wait for ever
   .schedAdd (1/8) 7 0, .schedNotify,        -- sched from another thread: nobody is waiting yet
   .thr 0, .thr 0, .thr 0,                   -- pending flag: tick again, then wait 1/8
   .wake .timeout (1/8), .thr (1/8)]         -- time-out: task 7 is awakened

example : (App.init.runMoves appExample).map (fun a => (a.pc, a.q.length)) =
    some (.inAwake [] (1/8) { key := 1/8, task := 7, stamp := 0 }, 0) := by decide +kernel

end Sc3Verif.C08
