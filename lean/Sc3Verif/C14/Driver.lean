/-
C14 line-protocol driver:  `lake env lean --run Sc3Verif/C14/Driver.lean < ops`
  reset
  world (<latency> (desc <name> <keepgate> (<control> ...)) ...)
  event <t> (<(key value)> ...)         play one note event at logical time t
  pat <t> <epat>                        pattern.play() at logical time t
  restart <t> <a> <b> <epat>            play at t, stop() after a, play(reset=True) after another b
  mono <t> <instrument> <articulate 0|1> <binds>   Pmono(instrument, binds, articulate).play()
  replay <t> (<(key value)> ...) (<dt> ...)   one event object played at t, t+dt1, ...
Output: one line per OSC message `time cmd args…`, then `END <time reached> <died>`.
-/
import Sc3Verif.C13.Sexp
import Sc3Verif.C14.Model
open Sc3Verif.C13 (Sx readSx parseRat)
open Sc3Verif.C14

def sxV : Sx → Option V
  | .node [.atom "n", .atom q] => (parseRat q).map V.num
  | .node [.atom "r", .atom q] => (parseRat q).map V.rest
  | .node [.atom "s", .atom s] => some (.str s)
  | .node [.atom "b", .atom b] => some (.bool (b == "1"))
  | .node (.atom "sc" :: xs) => (xs.mapM fun (x : Sx) => match x with | Sx.atom a => a.toInt? | _ => none).map (V.scale · 12)
  | .node (.atom "sct" :: .atom spo :: xs) => do
    let n ← spo.toNat?
    let l ← xs.mapM fun (x : Sx) => match x with | Sx.atom a => a.toInt? | _ => none
    some (V.scale l n)
  | .atom "none" => some .none
  | _ => none

def sxEv : Sx → Option Ev
  | .node kvs => kvs.mapM fun (kv : Sx) => match kv with
    | Sx.node [Sx.atom k, v] => (sxV v).map fun x => (k, x)
    | _ => none
  | _ => none

def sxVSeq : Sx → Option VSeq
  | .node (.atom "fin" :: xs) => (xs.mapM sxV).map VSeq.fin
  | .node (.atom "cyc" :: xs) => (xs.mapM sxV).map VSeq.cyc
  | _ => none

def sxBinds : Sx → Option Binds
  | .node kvs => kvs.mapM fun (kv : Sx) => match kv with
    | Sx.node [Sx.atom k, v] => (sxVSeq v).map fun x => (k, x)
    | _ => none
  | _ => none

partial def sxEPat : Sx → Option EPat
  | .node [.atom "bind", b] => (sxBinds b).map EPat.bind
  | .node [.atom "chain", b, p] => do some (.chain (← sxBinds b) (← sxEPat p))
  | .node (.atom "par" :: ps) => (ps.mapM sxEPat).map EPat.par
  | .node [.atom "dur", .atom d, .atom tol, p] => do some (.dur (← parseRat d) (← parseRat tol) (← sxEPat p))
  | .node [.atom "delta", .atom t, p] => do some (.delta (← parseRat t) (← sxEPat p))
  | .node [.atom "mono", .atom inst, b] => do some (.mono inst (← sxBinds b))
  | .node (.atom "seq" :: ps) => (ps.mapM sxEPat).map EPat.seq
  | .node [.atom "pn", .atom n, p] => do some (.pn (← sxEPat p) (← n.toNat?))
  | _ => none

def sxDesc : Sx → Option Desc
  | .node [.atom "desc", .atom name, .atom kg, .node ctls] => do
    let cs ← ctls.mapM fun (c : Sx) => match c with | Sx.atom a => some a | _ => none
    some { name := name, controls := cs, keepGate := kg == "1" }
  | _ => none

def sxWorld : Sx → Option World
  | .node (.atom lat :: descs) => do
    some { lib := (← descs.mapM sxDesc), latency := (← parseRat lat) }
  | _ => none

def fmtRat (q : Rat) : String := s!"{q.num}/{q.den}"

partial def fmtSym : Sym → String
  | .q r => fmtRat r
  | .midicps x => s!"(midicps {fmtSym x})"
  | .cpsmidi x => s!"(cpsmidi {fmtSym x})"
  | .dbamp x => s!"(dbamp {fmtSym x})"
  | .add a b => s!"(add {fmtSym a} {fmtSym b})"
  | .mul a b => s!"(mul {fmtSym a} {fmtSym b})"
  | .div a b => s!"(div {fmtSym a} {fmtSym b})"

def fmtArg : Arg → String
  | .s x => "'" ++ x
  | .n x => fmtSym x

def fmtMsg (m : Msg) : String :=
  " ".intercalate ([fmtRat m.time, m.cmd] ++ m.args.map fmtArg)

def splitHead (l : String) : String × String :=
  match l.splitOn " " with
  | a :: rest => (a, " ".intercalate rest)
  | [] => ("", "")

partial def loop (h out : IO.FS.Stream) (w : World) : IO Unit := do
  let line ← h.getLine
  if line.isEmpty then return ()
  let l := line.trimAscii.toString
  if l == "reset" then
    out.putStrLn "reset"; loop h out { lib := [], latency := 0 }
  else if l.startsWith "world " then
    match (readSx (l.drop 6).toString).bind sxWorld with
    | some w' => out.putStrLn "ok"; loop h out w'
    | none => out.putStrLn "parse-error"; loop h out w
  else if l.startsWith "redef " then
    -- the instrument is described again under the same name: later plays see the new description
    match (readSx (l.drop 6).toString).bind sxDesc with
    | some d => out.putStrLn "ok"; loop h out { w with lib := d :: w.lib.filter (fun x => x.name != d.name) }
    | none => out.putStrLn "parse-error"; loop h out w
  else if l.startsWith "event " then
    let (t, rest) := splitHead (l.drop 6).toString
    match parseRat t, (readSx rest).bind sxEv with
    | some t, some e =>
      let (ms, w', raised) := playNote w t e
      for m in ms do out.putStrLn (fmtMsg m)
      out.putStrLn s!"END {fmtRat t} {if raised then 1 else 0}"
      loop h out w'
    | _, _ => out.putStrLn "parse-error"; loop h out w
  else if l.startsWith "restart " then
    match (l.drop 8).toString.splitOn " " with
    | t :: a :: b :: restl =>
      match parseRat t, parseRat a, parseRat b, (readSx (" ".intercalate restl)).bind sxEPat with
      | some t, some a, some b, some p =>
        let (ms, w', t', died) := playRestart w t a b p
        for m in ms do out.putStrLn (fmtMsg m)
        out.putStrLn s!"END {fmtRat t'} {if died then 1 else 0}"
        loop h out w'
      | _, _, _, _ => out.putStrLn "parse-error"; loop h out w
    | _ => out.putStrLn "parse-error"; loop h out w
  else if l.startsWith "mono " then
    match (l.drop 5).toString.splitOn " " with
    | t :: inst :: artic :: restl =>
      match parseRat t, (readSx (" ".intercalate restl)).bind sxBinds with
      | some t, some b =>
        let (ms, w', t', died) := playMonoPattern w t inst (artic == "1") b
        for m in ms do out.putStrLn (fmtMsg m)
        out.putStrLn s!"END {fmtRat t'} {if died then 1 else 0}"
        loop h out w'
      | _, _ => out.putStrLn "parse-error"; loop h out w
    | _ => out.putStrLn "parse-error"; loop h out w
  else if l.startsWith "replay " then
    let (t, rest) := splitHead (l.drop 7).toString
    match parseRat t, readSx ("(" ++ rest ++ ")") with
    | some t, some (Sx.node [ev, Sx.node dts]) =>
      match sxEv ev, dts.mapM (fun (x : Sx) => match x with | Sx.atom a => parseRat a | _ => none) with
      | some e, some ds =>
        let (ms, w', t', died) := playTimes w e t ds
        for m in ms do out.putStrLn (fmtMsg m)
        out.putStrLn s!"END {fmtRat t'} {if died then 1 else 0}"
        loop h out w'
      | _, _ => out.putStrLn "parse-error"; loop h out w
    | _, _ => out.putStrLn "parse-error"; loop h out w
  else if l.startsWith "pat " then
    let (t, rest) := splitHead (l.drop 4).toString
    match parseRat t, (readSx rest).bind sxEPat with
    | some t, some p =>
      let (ms, w', t', died) := playPattern w t p
      for m in ms do out.putStrLn (fmtMsg m)
      out.putStrLn s!"END {fmtRat t'} {if died then 1 else 0}"
      loop h out w'
    | _, _ => out.putStrLn "parse-error"; loop h out w
  else
    out.putStrLn "bad-op"; loop h out w

def main : IO Unit := do
  loop (← IO.getStdin) (← IO.getStdout) { lib := [], latency := 0 }
