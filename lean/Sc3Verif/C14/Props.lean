/-
C14 — Events resolve their keys and play as correctly timed server commands.
-/
import Sc3Verif.C14.Model
namespace Sc3Verif.C14

end Sc3Verif.C14
