/-
C14 — Events resolve their keys and play as correctly timed server commands.
Property theorems (helper lemmas for the Ppar merge are in `Ppar.lean`).
-/
import Sc3Verif.C14.Merge
namespace Sc3Verif.C14

/-! ## Key chains: an explicitly given key wins -/

theorem explicit_freq_wins (e : Ev) (q : Rat) (h : e.get? "freq" = some (.num q)) :
    e.freq = some (.q q) := by
  unfold Ev.freq; simp [h, V.num?]

theorem explicit_midinote_wins (e : Ev) (q : Rat) (h : e.get? "midinote" = some (.num q)) :
    e.midinote = some (.q q) := by
  unfold Ev.midinote; simp [h, V.num?]

theorem explicit_amp_wins (e : Ev) (q : Rat) (h : e.get? "amp" = some (.num q)) :
    e.amp = some (.q q) := by
  unfold Ev.amp; simp [h, V.num?]

theorem explicit_delta_wins (e : Ev) (q : Rat) (h : e.get? "delta" = some (.num q)) :
    e.delta = some q := by
  unfold Ev.delta; simp [h, V.num?]

theorem explicit_sustain_wins (e : Ev) (q : Rat) (h : e.get? "sustain" = some (.num q)) :
    e.sustain = some q := by
  unfold Ev.sustain; simp [h, V.num?]

/-- `amp`: `db` takes precedence over `velocity`. -/
theorem amp_db_over_velocity (e : Ev) (d : Rat) (ha : e.get? "amp" = none)
    (hd : e.get? "db" = some (.num d)) : e.amp = some (.dbamp (.q d)) := by
  unfold Ev.amp; simp [ha, hd, V.num?]

theorem amp_from_velocity (e : Ev) (v : Rat) (ha : e.get? "amp" = none) (hd : e.get? "db" = none)
    (hv : e.get? "velocity" = some (.num v)) : e.amp = some (.q (v / 127)) := by
  unfold Ev.amp; simp [ha, hd, hv, V.num?]

/-- `midinote`: `note` takes precedence over `degree`, which takes precedence over `freq`. -/
theorem midinote_note_over_degree (e : Ev) (hm : e.get? "midinote" = none) (hn : e.has "note" = true) :
    e.midinote = e.midinoteFromNote.map Sym.q := by
  unfold Ev.midinote; simp [hm, hn]

theorem midinote_degree_over_freq (e : Ev) (hm : e.get? "midinote" = none) (hn : e.has "note" = false)
    (hd : e.has "degree" = true) : e.midinote = e.midinoteFromDegree.map Sym.q := by
  unfold Ev.midinote; simp [hm, hn, hd]

/-- `freq`: `midinote`/`note` (with `ctranspose`) over `degree` over the default. -/
theorem freq_from_degree (e : Ev) (hf : e.get? "freq" = none) (hm : e.has "midinote" = false)
    (hn : e.has "note" = false) (hd : e.has "degree" = true) :
    e.freq = e.midinoteFromDegree.map fun m => .midicps (.q m) := by
  unfold Ev.freq; simp [hf, hm, hn, hd]

theorem freq_default (e : Ev) (hf : e.get? "freq" = none) (hm : e.has "midinote" = false)
    (hn : e.has "note" = false) (hd : e.has "degree" = false) :
    e.freq = some (.midicps (.q 60)) := by
  unfold Ev.freq; simp [hf, hm, hn, hd]

/-- The degree chain for a scale over an equal tuning with `spo` steps per octave (octave ratio 2),
    spelled out: key, gtranspose and root are tuning steps and are scaled together,
    `midinote = ((key(degree + mtranspose) + gtranspose + root) / spo + octave - 5) * 12 + 60`. -/
theorem chain_degree_to_midinote_steps (e : Ev) (scale : List Int) (spo : Nat)
    (deg mtr gtr root oct key : Rat) (hspo : spo ≠ 0)
    (hs : e.scaleOf = some (scale, spo)) (h1 : e.numD "degree" 0 = some deg)
    (h2 : e.numD "mtranspose" 0 = some mtr) (h3 : e.numD "gtranspose" 0 = some gtr)
    (h4 : e.numD "root" 0 = some root) (h5 : e.numD "octave" 5 = some oct)
    (hk : degreeToKey scale spo (deg + mtr) = some key) :
    e.midinoteFromDegree = some (((key + gtr + root) / (spo : Rat) + oct - 5) * 12 + 60) := by
  unfold Ev.midinoteFromDegree
  simp [hs, h1, h2, h3, h4, h5, hk, hspo]

/-- The same from the `note` entry point: `note` is already a key in tuning steps. -/
theorem chain_note_to_midinote_steps (e : Ev) (scale : List Int) (spo : Nat) (note gtr root oct : Rat)
    (hspo : spo ≠ 0) (hs : e.scaleOf = some (scale, spo)) (hn : e.get? "note" = some (.num note))
    (h3 : e.numD "gtranspose" 0 = some gtr) (h4 : e.numD "root" 0 = some root)
    (h5 : e.numD "octave" 5 = some oct) :
    e.midinoteFromNote = some (((note + gtr + root) / (spo : Rat) + oct - 5) * 12 + 60) := by
  unfold Ev.midinoteFromNote
  simp [hs, hn, h3, h4, h5, hspo, V.num?]

/-- The degree chain over a 12-ET scale:
    `midinote = (key(degree + mtranspose) + gtranspose + root) / 12 * 12 + (octave - 5) * 12 + 60`. -/
theorem chain_degree_to_midinote (e : Ev) (scale : List Int) (deg mtr gtr root oct key : Rat)
    (hs : e.scaleOf = some (scale, 12)) (h1 : e.numD "degree" 0 = some deg) (h2 : e.numD "mtranspose" 0 = some mtr)
    (h3 : e.numD "gtranspose" 0 = some gtr) (h4 : e.numD "root" 0 = some root)
    (h5 : e.numD "octave" 5 = some oct) (hk : degreeToKey scale 12 (deg + mtr) = some key) :
    e.midinoteFromDegree = some ((key + gtr + root) / 12 * 12 + (oct - 5) * 12 + 60) := by
  rw [chain_degree_to_midinote_steps e scale 12 deg mtr gtr root oct key (by decide) hs h1 h2 h3 h4 h5 hk]
  congr 1
  have : ((key + gtr + root) / ((12 : Nat) : Rat) + oct - 5) * 12 =
      (key + gtr + root) / 12 * 12 + (oct - 5) * 12 := by
    rw [Rat.sub_eq_add_neg, Rat.add_mul, Rat.add_mul, Rat.sub_eq_add_neg, Rat.add_mul, Rat.add_assoc]
    rfl
  rw [this]

/-- `freq = midicps(midinote)` on the degree chain, then `freq * harmonic + detune`. -/
theorem chain_degree_to_freq (e : Ev) (m h d : Rat) (hf : e.get? "freq" = none) (hm : e.has "midinote" = false)
    (hn : e.has "note" = false) (hd : e.has "degree" = true) (hmid : e.midinoteFromDegree = some m)
    (hh : e.numD "harmonic" 1 = some h) (hdet : e.numD "detune" 0 = some d) :
    e.detunedFreq = some (Sym.mkAdd (Sym.mkMul (.midicps (.q m)) (.q h)) (.q d)) := by
  unfold Ev.detunedFreq
  rw [freq_from_degree e hf hm hn hd, hmid]
  simp [hh, hdet]

/-! ## Playing one note event -/

/-- The parameters sent are exactly the instrument's controls that the event defines (plus `freq`,
    which `play` always defines), in the order of the description, each once. -/
theorem msg_params_names (d : Desc) (e : Ev) (fq : Sym) (ps : List Arg)
    (h : msgParamsDesc d e fq = some ps) :
    paramNames ps = d.paramControls.filter (fun nm => nm == "freq" || e.has nm) := by
  unfold msgParamsDesc at h
  generalize d.paramControls = names at h
  induction names generalizing ps with
  | nil => simp [paramsOf] at h; subst h; rfl
  | cons nm rest ih =>
    rw [paramsOf] at h
    cases hr : paramsOf e fq rest with
    | none => simp [hr] at h
    | some restps =>
      rw [hr] at h
      have ihr := ih restps hr
      by_cases hf : (nm == "freq") = true
      · simp only [hf, if_true, Option.some.injEq] at h
        subst h; simp [paramNames, ihr, hf]
      · by_cases hh : e.has nm = true
        · simp only [hf, hh, if_true] at h
          cases ha : e.argOf nm with
          | none => simp [ha] at h
          | some a =>
            simp only [ha, Bool.false_eq_true, if_false, Option.some.injEq] at h
            subst h; simp [paramNames, ihr, hh]
        · simp only [hf, hh] at h
          simp only [Bool.false_eq_true, if_false, Option.some.injEq] at h
          subst h; simp [ihr, hf, hh]

/-- MAIN (one event): playing a note event sends exactly one `/s_new name id action group params…`
    at logical time + latency with a fresh node id, followed — iff a gate-off is due — by exactly one
    `/n_set id gate 0` later by the event's sustain. -/
theorem note_play_bundles (w : World) (t : Rat) (e : Ev) (inst : String) (hasGate : Bool)
    (params : List Arg) (action group : Rat) (hp : notePrep w e = some (inst, hasGate, params, action, group)) :
    playNote w t e =
      let sNew : Msg := ⟨t + w.latency, "/s_new",
        [.s inst, .n (.q w.nextId), .n (.q action), .n (.q group)] ++ params⟩
      let w' := { w with nextId := w.nextId + 1 }
      if e.sendGate hasGate then
        match e.sustain with
        | some sus =>
          ([sNew, ⟨t + w.latency + sus, "/n_set", [.n (.q w.nextId), .s "gate", .n (.q 0)]⟩], w', false)
        | none => ([sNew], w', true)
      else ([sNew], w', false) := by
  simp only [playNote, hp]
  split
  · cases e.sustain <;> rfl
  · rfl

/-- Nothing is sent when the event cannot be prepared (a key of the wrong type): `play` raises first. -/
theorem note_play_raises_sends_nothing (w : World) (t : Rat) (e : Ev) (hp : notePrep w e = none) :
    playNote w t e = ([], w, true) := by
  simp only [playNote, hp]

/-! ## The event stream player -/

/-- A rest sends nothing; the player just waits its delta. -/
theorem rest_sends_nothing (w : World) (t d : Rat) (e : Ev) (es : List Ev) (hr : e.isRest = true)
    (hd : e.delta = some d) : playAll w t (e :: es) = playAll w (t + d) es := by
  simp [playAll, hr, hd]

/-- Playing a timetable: each non-rest event at its time. -/
def playSched (w : World) : List (Rat × Ev) → List Msg × World × Bool
  | [] => ([], w, false)
  | (t, e) :: r =>
    if e.isRest then playSched w r
    else
      match playNote w t e with
      | (m1, w1, true) => (m1, w1, true)
      | (m1, w1, false) =>
        let (ms, w', died) := playSched w1 r
        (m1 ++ ms, w', died)

/-- The player sends exactly what playing its timetable sends. -/
theorem player_plays_timetable (w : World) (t : Rat) (es : List Ev) :
    ((playAll w t es).1, (playAll w t es).2.1, (playAll w t es).2.2.2) = playSched w (sched t es) := by
  induction es generalizing w t with
  | nil => simp [playAll, sched, playSched]
  | cons e es ih =>
    by_cases hr : e.isRest = true
    · cases hd : e.delta with
      | none => simp [playAll, sched, playSched, hr, hd]
      | some d => simp only [playAll, sched, playSched, hr, hd, if_true]; exact ih w (t + d)
    · simp only [playAll, sched, playSched, hr]
      rcases hn : playNote w t e with ⟨m1, w1, raised⟩
      cases raised with
      | true => simp
      | false =>
        cases hd : e.delta with
        | none => simp [playSched]
        | some d =>
          have := ih w1 (t + d)
          simp only [Bool.false_eq_true, if_false]
          rw [← this]

/-- MAIN (timing): event `k` of a player is played at the start time plus the sum of the preceding
    deltas. -/
theorem player_time_prefix_sums (t : Rat) (es : List Ev) (k : Nat) (e : Ev) (ds : List Rat)
    (hk : es[k]? = some e) (hds : (es.take k).mapM Ev.delta = some ds) :
    (sched t es)[k]? = some (t + ds.sum, e) := by
  induction es generalizing t k ds with
  | nil => simp at hk
  | cons x xs ih =>
    cases k with
    | zero =>
      simp at hk hds; subst hk hds
      simp [sched, Rat.add_zero]
    | succ k =>
      simp only [List.getElem?_cons_succ] at hk
      simp only [List.take_succ_cons, List.mapM_cons, Option.bind_eq_bind] at hds
      cases hx : x.delta with
      | none => simp [hx] at hds
      | some d =>
        simp only [hx, Option.bind_some] at hds
        cases hrest : (xs.take k).mapM Ev.delta with
        | none => simp [hrest] at hds
        | some ds' =>
          simp only [hrest, Option.bind_some, Option.pure_def, Option.some.injEq] at hds
          subst hds
          simp only [sched, hx, List.getElem?_cons_succ]
          rw [ih (t + d) k ds' hk hrest]
          simp [Rat.add_assoc]

/-! ## Node ids are fresh -/

/-- The node ids of the `/s_new` commands in a list of messages. -/
def sNewIds (ms : List Msg) : List Arg :=
  ms.filterMap fun m => if m.cmd == "/s_new" then m.args[1]? else none

theorem playNote_ids (w : World) (t : Rat) (e : Ev) :
    (sNewIds (playNote w t e).1 = [] ∧ (playNote w t e).2.1.nextId = w.nextId) ∨
    (sNewIds (playNote w t e).1 = [.n (.q w.nextId)] ∧ (playNote w t e).2.1.nextId = w.nextId + 1) := by
  unfold playNote
  cases notePrep w e with
  | none => exact Or.inl ⟨rfl, rfl⟩
  | some r =>
    obtain ⟨inst, hasGate, params, action, group⟩ := r
    refine Or.inr ?_
    simp only
    split
    · cases e.sustain <;> simp [sNewIds]
    · simp [sNewIds]

theorem sNewIds_append (a b : List Msg) : sNewIds (a ++ b) = sNewIds a ++ sNewIds b := by
  simp [sNewIds, List.filterMap_append]

/-- Every synth a player creates gets a fresh node id: the ids of its `/s_new` commands are the
    consecutive ids from the allocator's position on, each used once. -/
theorem player_ids_fresh (w : World) (t : Rat) (es : List Ev) :
    sNewIds (playAll w t es).1 =
      (List.range' w.nextId ((playAll w t es).2.1.nextId - w.nextId)).map (fun (i : Nat) => Arg.n (.q (i : Rat))) ∧
    w.nextId ≤ (playAll w t es).2.1.nextId := by
  induction es generalizing w t with
  | nil => simp [playAll, sNewIds]
  | cons e es ih =>
    by_cases hr : e.isRest = true
    · cases hd : e.delta with
      | none => simp [playAll, hr, hd, sNewIds]
      | some d => simp only [playAll, hr, hd, if_true]; exact ih w (t + d)
    · simp only [playAll, hr]
      rcases hn : playNote w t e with ⟨m1, w1, raised⟩
      have hids := playNote_ids w t e
      rw [hn] at hids
      simp only at hids
      cases raised with
      | true =>
        simp only
        rcases hids with ⟨h1, h2⟩ | ⟨h1, h2⟩
        · simp [h1, h2]
        · simp [h1, h2, List.range'_one]
      | false =>
        cases hd : e.delta with
        | none =>
          simp only
          rcases hids with ⟨h1, h2⟩ | ⟨h1, h2⟩
          · simp [h1, h2]
          · simp [h1, h2, List.range'_one]
        | some d =>
          obtain ⟨ih1, ih2⟩ := ih w1 (t + d)
          rcases hpa : playAll w1 (t + d) es with ⟨ms, w', t', died⟩
          rw [hpa] at ih1 ih2
          simp only at ih1 ih2
          simp only [Bool.false_eq_true, if_false, hpa]
          rcases hids with ⟨h1, h2⟩ | ⟨h1, h2⟩
          · rw [sNewIds_append, h1, ih1, h2]
            exact ⟨by simp, by omega⟩
          · rw [sNewIds_append, h1, ih1, h2]
            refine ⟨?_, by omega⟩
            have : w'.nextId - w.nextId = (w'.nextId - (w.nextId + 1)) + 1 := by omega
            rw [this, List.range'_succ]
            simp

/-- An event object played again and again (itself or copies of it): every play creates a new node,
    the ids of all its `/s_new` are consecutive allocator ids, each used once. -/
theorem replay_ids_fresh (w : World) (e : Ev) (t : Rat) (ds : List Rat) :
    sNewIds (playTimes w e t ds).1 =
      (List.range' w.nextId ((playTimes w e t ds).2.1.nextId - w.nextId)).map
        (fun (i : Nat) => Arg.n (.q (i : Rat))) ∧
    w.nextId ≤ (playTimes w e t ds).2.1.nextId := by
  induction ds generalizing w t with
  | nil =>
    simp only [playTimes]
    rcases hn : playNote w t e with ⟨m1, w1, raised⟩
    have hids := playNote_ids w t e
    rw [hn] at hids
    simp only at hids ⊢
    rcases hids with ⟨h1, h2⟩ | ⟨h1, h2⟩
    · simp [h1, h2]
    · simp [h1, h2, List.range'_one]
  | cons d ds ih =>
    simp only [playTimes]
    rcases hn : playNote w t e with ⟨m1, w1, raised⟩
    have hids := playNote_ids w t e
    rw [hn] at hids
    simp only at hids
    cases raised with
    | true =>
      simp only
      rcases hids with ⟨h1, h2⟩ | ⟨h1, h2⟩
      · simp [h1, h2]
      · simp [h1, h2, List.range'_one]
    | false =>
      obtain ⟨ih1, ih2⟩ := ih w1 (t + d)
      rcases hpa : playTimes w1 e (t + d) ds with ⟨ms, w', t', died⟩
      rw [hpa] at ih1 ih2
      simp only at ih1 ih2
      simp only [hpa]
      rcases hids with ⟨h1, h2⟩ | ⟨h1, h2⟩
      · rw [sNewIds_append, h1, ih1, h2]
        exact ⟨by simp, by omega⟩
      · rw [sNewIds_append, h1, ih1, h2]
        refine ⟨?_, by omega⟩
        have : w'.nextId - w.nextId = (w'.nextId - (w.nextId + 1)) + 1 := by omega
        rw [this, List.range'_succ]
        simp

/-! ## Compositions with Pmono -/

/-- On a stream without Pmono elements the general player is the plain one (so the theorems about
    `playAll` — timetable, prefix sums, fresh ids — apply to it). -/
theorem playAllM_plain (w : World) (t : Rat) (es : List Ev) (h : ∀ e ∈ es, e.kind? = none) :
    playAllM w t [] es = playAll w t es := by
  induction es generalizing w t with
  | nil => simp [playAllM, playAll]
  | cons e es ih =>
    have he : e.kind? = none := h e (by simp)
    have hes : ∀ x ∈ es, x.kind? = none := fun x hx => h x (List.mem_cons_of_mem _ hx)
    simp only [playAllM, playAll, he]
    by_cases hr : e.isRest = true
    · simp only [hr, if_true]
      cases e.delta with
      | none => rfl
      | some d => exact ih w (t + d) hes
    · simp only [hr]
      rcases playNote w t e with ⟨m1, w1, raised⟩
      cases raised with
      | true => rfl
      | false =>
        simp only [Bool.false_eq_true, if_false]
        cases e.delta with
        | none => rfl
        | some d => simp only; rw [ih w1 (t + d) hes]

/-- Sequencing (Pseq / Pn of event patterns) keeps every part's own timetable: the second part
    starts where the first one ends. -/
theorem seq_timetable (t : Rat) (a b : List Ev) (ds : List Rat) (h : a.mapM Ev.delta = some ds) :
    sched t (a ++ b) = sched t a ++ sched (t + ds.sum) b := by
  induction a generalizing t ds with
  | nil => simp at h; subst h; simp [sched, Rat.add_zero]
  | cons e es ih =>
    simp only [List.mapM_cons, Option.bind_eq_bind] at h
    cases he : e.delta with
    | none => simp [he] at h
    | some d =>
      simp only [he, Option.bind_some] at h
      cases hr : es.mapM Ev.delta with
      | none => simp [hr] at h
      | some ds0 =>
        simp only [hr, Option.bind_some, Option.pure_def, Option.some.injEq] at h
        subst h
        simp only [List.cons_append, sched, he, List.sum_cons]
        rw [ih (t + d) ds0 hr, Rat.add_assoc]

/-- `play(reset=True)` after a stop replays the pattern from its beginning: the second pass sends exactly
    what playing the pattern afresh at the restart time sends (with the node ids the allocator has reached),
    whatever had been played before the stop. -/
theorem restart_replays_from_start (w : World) (t0 a b : Rat) (p : EPat) :
    (playRestart w t0 a b p).1 =
      (playAllM w t0 [] (cutBefore (t0 + a) t0 (p.evs [] 1))).1 ++
      (playPattern (playAllM w t0 [] (cutBefore (t0 + a) t0 (p.evs [] 1))).2.1 (t0 + a + b) p).1 := by
  simp [playRestart, playPattern]

/-! ## Pmono -/

/-- While a Pmono (articulate = false) holds its synth no further node is created, and every command
    it sends — the updates and the final release — addresses that one node. -/
theorem mono_held_single_node (inst : String) (w : World) (h : Held) (es : List Ev) : ∀ (t : Rat),
    (playMono inst w t (some h) es).2.1 = w ∧
    ∀ m ∈ (playMono inst w t (some h) es).1, m.args.head? = some (.n (.q h.id)) := by
  induction es with
  | nil =>
    intro t
    refine ⟨by simp [playMono], ?_⟩
    intro m hm
    simp only [playMono, offMsg, List.mem_singleton] at hm
    subst hm
    split <;> rfl
  | cons e es ih =>
    intro t
    by_cases hr : e.isRest = true
    · cases hd : e.delta with
      | none => simp [playMono, hr, hd]
      | some d => simp only [playMono, hr, hd, if_true]; exact ih (t + d)
    · cases hs : setMsg w t e h with
      | none => simp [playMono, hr, hs]
      | some m0 =>
        have hm0 : m0.args.head? = some (.n (.q h.id)) := by
          unfold setMsg at hs
          cases hf : e.detunedFreq with
          | none => simp [hf] at hs
          | some fq =>
            cases ha : setArgs e fq h.names with
            | none => simp [hf, ha] at hs
            | some args => simp [hf, ha] at hs; subst hs; rfl
        cases hd : e.delta with
        | none =>
          simp only [playMono, hr, hs, hd]
          exact ⟨rfl, by intro m hm; simp at hm; subst hm; exact hm0⟩
        | some d =>
          obtain ⟨ih1, ih2⟩ := ih (t + d)
          simp only [playMono, hr, hs, hd, Bool.false_eq_true, if_false]
          refine ⟨ih1, ?_⟩
          intro m hm
          rcases List.mem_cons.mp hm with rfl | hm'
          · exact hm0
          · exact ih2 m hm'

/-- Pmono (articulate = false): the whole pattern is ONE synth — the first event allocates exactly one
    node id and sends its `/s_new`; nothing else ever allocates. -/
theorem mono_one_synth (inst : String) (w : World) (t : Rat) (e : Ev) (es : List Ev)
    (r : String × Bool × List Arg × Rat × Rat) (hp : notePrep w (e.set "instrument" (.str inst)) = some r) :
    (playMono inst w t none (e :: es)).2.1.nextId = w.nextId + 1 := by
  obtain ⟨i, hasGate, params, action, group⟩ := r
  simp only [playMono, hp]
  cases hd : (e.set "instrument" (.str inst)).delta with
  | none => rfl
  | some d =>
    simp only
    have := (mono_held_single_node inst { w with nextId := w.nextId + 1 }
      ⟨w.nextId, paramNames params, hasGate⟩ es (t + d)).1
    rw [this]

/-! ## Parallel and duration-limiting patterns -/

/-- MAIN (Ppar): whatever the other children do, the events of child `i` appear in the merged
    stream at the start times of the child's own timetable (prefix sums of its own deltas, by
    `player_time_prefix_sums`), in the child's order. The merged deltas therefore telescope: the
    start time of a merged event is the sum of the merged deltas before it (`absT`). -/
theorem ppar_preserves_child_timelines (children : List (List Ev))
    (hgood : ∀ l ∈ children, ∀ e ∈ l, ∃ d, e.delta = some d ∧ 0 ≤ d) (i : Nat) (l : List Ev)
    (hi : children[i]? = some l) :
    (absT 0 (pparMerge children)).filterMap (pick i) = sched 0 l :=
  ppar_child_timeline children hgood i l hi

/-- MAIN (Pdur): the deltas Pdur lets through sum to the requested duration when the source is long
    enough (within the tolerance), else to the source's own total. -/
theorem pdur_total (d tol : Rat) (es : List Ev) (ds : List Rat) (h : es.mapM Ev.delta = some ds) :
    ∃ ds', (pdurL d tol 0 es).mapM Ev.delta = some ds' ∧
      ds'.sum = if pdurReaches d tol 0 es then d else ds.sum := by
  obtain ⟨ds', h1, h2⟩ := pdur_sum d tol es 0 ds h
  refine ⟨ds', h1, ?_⟩
  rw [h2]; split
  · simp [Rat.sub_eq_add_neg, Rat.add_zero]
  · rfl

/-- Pdur passes a prefix of its source unchanged; only the delta of the last event is replaced. -/
theorem pdur_passes_prefix (d tol : Rat) (es : List Ev) (h : ∀ e ∈ es, e.delta ≠ none) :
    (pdurReaches d tol 0 es = false ∧ pdurL d tol 0 es = es) ∨
    (∃ k e x, es[k]? = some e ∧ pdurL d tol 0 es = es.take k ++ [e.set "delta" (.num x)]) :=
  pdur_prefix d tol es 0 h

/-! ## Non-vacuity -/

def exDesc : Desc := { name := "ins", controls := ["freq", "amp", "gate", "foo", "pan"] }
def exWorld : World := { lib := [exDesc], latency := 1 / 8 }
def exEvent : Ev :=
  [("degree", .num 2), ("octave", .num 4), ("amp", .num (1 / 2)), ("instrument", .str "ins"),
   ("foo", .num 7), ("dur", .num 2), ("db", .num (-6))]

example : playNote exWorld (1 / 4) exEvent =
    ([⟨3 / 8, "/s_new", [.s "ins", .n (.q 1000), .n (.q 0), .n (.q 1), .s "freq", .n (.add (.mul (.midicps (.q 52)) (.q 1)) (.q 0)),
        .s "amp", .n (.q (1 / 2)), .s "foo", .n (.q 7)]⟩,
      ⟨79 / 40, "/n_set", [.n (.q 1000), .s "gate", .n (.q 0)]⟩],
     { exWorld with nextId := 1001 }, false) := by decide +kernel

example : GoodRem [[exEvent, exEvent], [exEvent]] := by
  intro l hl e he
  simp at hl
  rcases hl with rfl | rfl <;> simp at he <;> (try rcases he with rfl | rfl) <;> subst_vars <;>
    exact ⟨2, by decide +kernel, by decide +kernel⟩

end Sc3Verif.C14
