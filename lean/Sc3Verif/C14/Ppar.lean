/-
C14 — helper lemmas: event dictionaries, Pdur.
-/
import Sc3Verif.C14.Model
namespace Sc3Verif.C14

theorem Ev.get?_set_self (e : Ev) (k : String) (v : V) : (e.set k v).get? k = some v := by
  simp [Ev.set, Ev.get?]

theorem Ev.delta_set (e : Ev) (x : Rat) : (e.set "delta" (.num x)).delta = some x := by
  simp [Ev.delta, Ev.get?_set_self, V.num?]

/-- Does the summed delta reach `d` (within `tol`) somewhere in the sequence? -/
def pdurReaches (d tol : Rat) : Rat → List Ev → Bool
  | _, [] => false
  | el, e :: es =>
    match e.delta with
    | none => false
    | some dl => decide (d ≤ roundup (el + dl) tol) || pdurReaches d tol (el + dl) es

theorem pdurL_cons (d tol el : Rat) (e : Ev) (es : List Ev) (dl : Rat) (h : e.delta = some dl) :
    pdurL d tol el (e :: es) =
      if d ≤ roundup (el + dl) tol then [e.set "delta" (.num (d - el))]
      else e :: pdurL d tol (el + dl) es := by
  simp [pdurL, h]

/-- Sum of the deltas Pdur lets through: `d` minus what had elapsed if the source reaches `d`,
    the source's own total otherwise. -/
theorem pdur_sum (d tol : Rat) (es : List Ev) : ∀ (el : Rat) (ds : List Rat),
    es.mapM Ev.delta = some ds →
    ∃ ds', (pdurL d tol el es).mapM Ev.delta = some ds' ∧
      ds'.sum = if pdurReaches d tol el es then d - el else ds.sum := by
  induction es with
  | nil => intro el ds h; simp at h; subst h; exact ⟨[], by simp [pdurL], by simp [pdurReaches]⟩
  | cons e es ih =>
    intro el ds h
    simp only [List.mapM_cons, Option.bind_eq_bind] at h
    cases he : e.delta with
    | none => simp [he] at h
    | some dl =>
      simp only [he, Option.bind_some] at h
      cases hr : es.mapM Ev.delta with
      | none => simp [hr] at h
      | some ds0 =>
        simp only [hr, Option.bind_some, Option.pure_def, Option.some.injEq] at h
        subst h
        rw [pdurL_cons d tol el e es dl he]
        by_cases hc : d ≤ roundup (el + dl) tol
        · refine ⟨[d - el], ?_, ?_⟩
          · simp [hc, Ev.delta_set]
          · simp [pdurReaches, he, hc, Rat.add_zero]
        · obtain ⟨ds', h1, h2⟩ := ih (el + dl) ds0 hr
          refine ⟨dl :: ds', ?_, ?_⟩
          · simp [hc, he, h1]
          · simp only [List.sum_cons, h2, pdurReaches, he, hc, decide_false, Bool.false_or]
            split
            · rw [Rat.sub_eq_add_neg, Rat.sub_eq_add_neg, Rat.neg_add, ← Rat.add_assoc, Rat.add_comm dl,
                Rat.add_assoc d, Rat.add_comm (-el), ← Rat.add_assoc dl, Rat.add_neg_cancel,
                Rat.zero_add, Rat.add_comm]
            · rfl

/-- Pdur passes a prefix of its source unchanged and replaces only the delta of the last event. -/
theorem pdur_prefix (d tol : Rat) (es : List Ev) : ∀ (el : Rat), (∀ e ∈ es, e.delta ≠ none) →
    (pdurReaches d tol el es = false ∧ pdurL d tol el es = es) ∨
    (∃ k e x, es[k]? = some e ∧ pdurL d tol el es = es.take k ++ [e.set "delta" (.num x)]) := by
  induction es with
  | nil => intro el _; exact Or.inl ⟨rfl, by simp [pdurL]⟩
  | cons e es ih =>
    intro el h
    cases he : e.delta with
    | none => exact absurd he (h e (by simp))
    | some dl =>
      rw [pdurL_cons d tol el e es dl he]
      by_cases hc : d ≤ roundup (el + dl) tol
      · exact Or.inr ⟨0, e, d - el, by simp, by simp [hc]⟩
      · rcases ih (el + dl) (fun x hx => h x (List.mem_cons_of_mem _ hx)) with ⟨h1, h2⟩ | ⟨k, x, y, h1, h2⟩
        · exact Or.inl ⟨by simp [pdurReaches, he, hc, h1], by simp [hc, h2]⟩
        · exact Or.inr ⟨k + 1, x, y, by simpa using h1, by simp [hc, h2]⟩

end Sc3Verif.C14
