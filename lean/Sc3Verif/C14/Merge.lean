/-
C14 — Ppar's merge loop keeps every child's own timeline.
-/
import Sc3Verif.C14.Ppar
namespace Sc3Verif.C14

/-- The timetable of an event sequence started at `t`: every event with its start time. -/
def sched (t : Rat) : List Ev → List (Rat × Ev)
  | [] => []
  | e :: es =>
    (t, e) :: match e.delta with
      | some d => sched (t + d) es
      | none => []

/-- Start times of a sequence of `(delta, x)` pairs. -/
def absT {β : Type} (t : Rat) : List (Rat × β) → List (Rat × β)
  | [] => []
  | (d, x) :: r => (t, x) :: absT (t + d) r

/-- The merged events that come from child `i`. -/
def pick (i : Nat) : Rat × Option (Nat × Ev) → Option (Rat × Ev)
  | (t, some (j, e)) => if j = i then some (t, e) else none
  | (_, none) => none

/-! ### The queue -/

def QSorted (q : List (Rat × Nat)) : Prop := q.Pairwise fun a b => a.1 ≤ b.1

def qtime? (q : List (Rat × Nat)) (i : Nat) : Option Rat := (q.find? (·.2 == i)).map (·.1)

theorem mem_qinsert {t : Rat} {i : Nat} {q : List (Rat × Nat)} {x : Rat × Nat} :
    x ∈ qinsert t i q ↔ x = (t, i) ∨ x ∈ q := by
  induction q with
  | nil => simp [qinsert]
  | cons a r ih =>
    simp only [qinsert]
    split
    · simp
    · simp only [List.mem_cons, ih]
      constructor
      · rintro (h | h | h)
        · exact Or.inr (Or.inl h)
        · exact Or.inl h
        · exact Or.inr (Or.inr h)
      · rintro (h | h | h)
        · exact Or.inr (Or.inl h)
        · exact Or.inl h
        · exact Or.inr (Or.inr h)

theorem qinsert_sorted {t : Rat} {i : Nat} {q : List (Rat × Nat)} (h : QSorted q) : QSorted (qinsert t i q) := by
  induction q with
  | nil => simp [qinsert, QSorted]
  | cons a r ih =>
    simp only [qinsert]
    have hc := List.pairwise_cons.mp h
    split
    · rename_i hlt
      refine List.pairwise_cons.mpr ⟨?_, h⟩
      intro b hb
      rcases List.mem_cons.mp hb with rfl | hb'
      · exact Rat.le_of_lt hlt
      · exact Rat.le_trans (Rat.le_of_lt hlt) (hc.1 b hb')
    · rename_i hnlt
      refine List.pairwise_cons.mpr ⟨?_, ih hc.2⟩
      intro b hb
      rcases mem_qinsert.mp hb with rfl | hb'
      · exact Rat.not_lt.mp hnlt
      · exact hc.1 b hb'

theorem qinsert_map_snd_perm (t : Rat) (i : Nat) (q : List (Rat × Nat)) :
    ((qinsert t i q).map (·.2)).Perm (i :: q.map (·.2)) := by
  induction q with
  | nil => simp [qinsert]
  | cons a r ih =>
    simp only [qinsert]
    split
    · simp
    · simp only [List.map_cons]
      exact (List.Perm.cons _ ih).trans (List.Perm.swap _ _ _)

theorem qtime?_qinsert (t : Rat) (i : Nat) (q : List (Rat × Nat)) (j : Nat)
    (hi : ∀ x ∈ q, x.2 ≠ i) :
    qtime? (qinsert t i q) j = if j = i then some t else qtime? q j := by
  induction q with
  | nil =>
    simp only [qinsert, qtime?, List.find?_cons, List.find?_nil]
    by_cases hji : j = i
    · subst hji; simp
    · have : (i == j) = false := by simpa using fun h => hji h.symm
      simp [this, hji]
  | cons a r ih =>
    have ha : a.2 ≠ i := hi a (by simp)
    have ihr := ih (fun x hx => hi x (List.mem_cons_of_mem _ hx))
    simp only [qinsert]
    split
    · by_cases hji : j = i
      · subst hji; simp [qtime?]
      · have : (i == j) = false := by simpa using fun h => hji h.symm
        simp [qtime?, List.find?_cons, this, hji]
    · by_cases hja : a.2 = j
      · have hji : j ≠ i := by rw [← hja]; exact ha
        simp [qtime?, List.find?_cons, hja, hji]
      · have hb : (a.2 == j) = false := by simpa using hja
        simp only [qtime?, List.find?_cons, hb] at ihr ⊢
        exact ihr

/-! ### The loop invariant -/

/-- Every event of every child has a numeric, non-negative delta. -/
def GoodRem (rem : List (List Ev)) : Prop := ∀ l ∈ rem, ∀ e ∈ l, ∃ d, e.delta = some d ∧ 0 ≤ d

def remLen (rem : List (List Ev)) (j : Nat) : Nat :=
  match rem[j]? with
  | some l => l.length + 1
  | none => 1

/-- Iterations the loop still needs. -/
def fuelNeed (q : List (Rat × Nat)) (rem : List (List Ev)) : Nat := ((q.map (·.2)).map (remLen rem)).sum

structure QInv (q : List (Rat × Nat)) (now : Rat) (rem : List (List Ev)) : Prop where
  sorted : QSorted q
  nodup : (q.map (·.2)).Nodup
  head : ∀ x r, q = x :: r → x.1 = now
  idx : ∀ x ∈ q, x.2 < rem.length

theorem perm_sum_nat {l₁ l₂ : List Nat} (h : l₁.Perm l₂) : l₁.sum = l₂.sum := by
  induction h with
  | nil => rfl
  | cons _ _ ih => simp [ih]
  | swap a b l => simp; omega
  | trans _ _ ih1 ih2 => exact ih1.trans ih2

theorem remLen_set_ne (rem : List (List Ev)) (i j : Nat) (l : List Ev) (h : j ≠ i) :
    remLen (rem.set i l) j = remLen rem j := by
  simp [remLen, List.getElem?_set_ne (Ne.symm h)]

theorem map_remLen_set (rem : List (List Ev)) (i : Nat) (l : List Ev) (js : List Nat) (h : i ∉ js) :
    js.map (remLen (rem.set i l)) = js.map (remLen rem) := by
  apply List.map_congr_left
  intro j hj
  exact remLen_set_ne rem i j l (fun e => h (e ▸ hj))

theorem qtime?_cons_ne (t : Rat) (i0 : Nat) (q : List (Rat × Nat)) (i : Nat) (h : i ≠ i0) :
    qtime? ((t, i0) :: q) i = qtime? q i := by
  have : (i0 == i) = false := by simpa using fun e => h e.symm
  simp [qtime?, List.find?_cons, this]

theorem qtime?_none_of_not_mem (q : List (Rat × Nat)) (i : Nat) (h : i ∉ q.map (·.2)) : qtime? q i = none := by
  simp only [qtime?, Option.map_eq_none_iff, List.find?_eq_none]
  intro x hx
  simp only [beq_iff_eq]
  intro e
  exact h (List.mem_map.mpr ⟨x, hx, e⟩)

theorem QSorted.head_le {x : Rat × Nat} {r : List (Rat × Nat)} (h : QSorted (x :: r)) :
    ∀ y ∈ x :: r, x.1 ≤ y.1 := by
  intro y hy
  rcases List.mem_cons.mp hy with rfl | hy'
  · exact Rat.le_refl
  · exact (List.pairwise_cons.mp h).1 y hy'

theorem goodRem_set {rem : List (List Ev)} {i : Nat} {e : Ev} {rest : List Ev} (h : GoodRem rem)
    (hi : rem[i]? = some (e :: rest)) : GoodRem (rem.set i rest) := by
  intro l hl x hx
  rcases List.mem_or_eq_of_mem_set hl with hl' | rfl
  · exact h l hl' x hx
  · exact h (e :: l) (List.mem_of_getElem? hi) x (List.mem_cons_of_mem _ hx)

theorem sched_cons (t d : Rat) (e : Ev) (es : List Ev) (h : e.delta = some d) :
    sched t (e :: es) = (t, e) :: sched (t + d) es := by
  simp [sched, h]

/-- MAIN lemma: from any state of the loop satisfying the invariant, the events child `i` contributes
    to the rest of the merge, with their merged start times, are exactly child `i`'s own timetable
    continued from its queue time. -/
theorem pparLoop_pick (i : Nat) : ∀ (f : Nat) (q : List (Rat × Nat)) (now : Rat) (rem : List (List Ev)),
    GoodRem rem → QInv q now rem → fuelNeed q rem ≤ f →
    (absT now (pparLoop f q now rem)).filterMap (pick i) =
      match qtime? q i, rem[i]? with
      | some t, some l => sched t l
      | _, _ => [] := by
  intro f
  induction f with
  | zero =>
    intro q now rem _ _ hf
    cases q with
    | nil => simp [pparLoop, absT, qtime?]
    | cons x r => simp [fuelNeed, remLen] at hf; split at hf <;> omega
  | succ f ih =>
    intro q now rem hgood hinv hf
    cases q with
    | nil => simp [pparLoop, absT, qtime?]
    | cons x q0 =>
      obtain ⟨t0, i0⟩ := x
      have ht0 : t0 = now := hinv.head _ _ rfl
      subst ht0
      have hidx : i0 < rem.length := hinv.idx (t0, i0) (by simp)
      have hnd := hinv.nodup
      simp only [List.map_cons, List.nodup_cons] at hnd
      have hsorted0 : QSorted q0 := (List.pairwise_cons.mp hinv.sorted).2
      obtain ⟨l0, hl0⟩ : ∃ l, rem[i0]? = some l := ⟨rem[i0], List.getElem?_eq_getElem hidx⟩
      cases l0 with
      | cons e rest =>
        obtain ⟨d, hd, hd0⟩ := hgood _ (List.mem_of_getElem? hl0) e (by simp)
        -- the re-queued state
        have hq'ne : qinsert (t0 + d) i0 q0 ≠ [] := by
          intro h; have := (mem_qinsert (t := t0 + d) (i := i0) (q := q0) (x := (t0 + d, i0))).mpr (Or.inl rfl)
          rw [h] at this; cases this
        obtain ⟨⟨nxt, j⟩, r', hq'⟩ : ∃ y r', qinsert (t0 + d) i0 q0 = y :: r' := by
          cases hq : qinsert (t0 + d) i0 q0 with
          | nil => exact absurd hq hq'ne
          | cons y r' => exact ⟨y, r', rfl⟩
        have hsorted' : QSorted (qinsert (t0 + d) i0 q0) := qinsert_sorted hsorted0
        have hperm := qinsert_map_snd_perm (t0 + d) i0 q0
        have hinv' : QInv (qinsert (t0 + d) i0 q0) nxt (rem.set i0 rest) := by
          refine ⟨hsorted', ?_, ?_, ?_⟩
          · exact hperm.nodup_iff.mpr (List.nodup_cons.mpr ⟨hnd.1, hnd.2⟩)
          · intro y r hy; rw [hq'] at hy; cases hy; rfl
          · intro y hy
            simp only [List.length_set]
            rcases mem_qinsert.mp hy with rfl | hy'
            · exact hidx
            · exact hinv.idx y (List.mem_cons_of_mem _ hy')
        have hfuel' : fuelNeed (qinsert (t0 + d) i0 q0) (rem.set i0 rest) ≤ f := by
          unfold fuelNeed at hf ⊢
          rw [perm_sum_nat (hperm.map _)]
          simp only [List.map_cons, List.sum_cons] at hf ⊢
          rw [map_remLen_set rem i0 rest _ hnd.1]
          have h1 : remLen (rem.set i0 rest) i0 = rest.length + 1 := by
            simp [remLen, List.getElem?_set_self hidx]
          have h2 : remLen rem i0 = rest.length + 1 + 1 := by simp [remLen, hl0]
          omega
        have hih := ih (qinsert (t0 + d) i0 q0) nxt (rem.set i0 rest) (goodRem_set hgood hl0) hinv' hfuel'
        have hstep : pparLoop (f + 1) ((t0, i0) :: q0) t0 rem =
            (nxt - t0, some (i0, e)) :: pparLoop f (qinsert (t0 + d) i0 q0) nxt (rem.set i0 rest) := by
          simp [pparLoop, hl0, hd, hq']
        rw [hstep]
        have habs : t0 + (nxt - t0) = nxt := by
          rw [Rat.sub_eq_add_neg, Rat.add_comm nxt, ← Rat.add_assoc, Rat.add_neg_cancel, Rat.zero_add]
        simp only [absT, habs, List.filterMap_cons]
        by_cases hi : i = i0
        · subst hi
          have hq1 : qtime? (qinsert (t0 + d) i q0) i = some (t0 + d) := by
            rw [qtime?_qinsert _ _ _ _ (fun x hx e => hnd.1 (List.mem_map.mpr ⟨x, hx, e⟩))]; simp
          have hq2 : qtime? ((t0, i) :: q0) i = some t0 := by simp [qtime?, List.find?_cons]
          rw [hih, hq1, hq2, hl0, List.getElem?_set_self hidx]
          simp [pick, sched_cons t0 d e rest hd]
        · have hq1 : qtime? (qinsert (t0 + d) i0 q0) i = qtime? q0 i := by
            rw [qtime?_qinsert _ _ _ _ (fun x hx e => hnd.1 (List.mem_map.mpr ⟨x, hx, e⟩))]; simp [hi]
          have hne : i0 ≠ i := fun e => hi e.symm
          rw [hih, hq1, qtime?_cons_ne _ _ _ _ hi, List.getElem?_set_ne hne]
          simp [pick, hne]
      | nil =>
        cases q0 with
        | nil =>
          have hstep : pparLoop (f + 1) [(t0, i0)] t0 rem = [] := by simp [pparLoop, hl0]
          rw [hstep]
          by_cases hi : i = i0
          · subst hi; simp [absT, qtime?, List.find?_cons, hl0, sched]
          · rw [qtime?_cons_ne _ _ _ _ hi]; simp [absT, qtime?]
        | cons y r0 =>
          obtain ⟨nxt, j⟩ := y
          have hinv' : QInv ((nxt, j) :: r0) nxt rem := by
            refine ⟨hsorted0, hnd.2, ?_, ?_⟩
            · intro y r hy; cases hy; rfl
            · intro y hy; exact hinv.idx y (List.mem_cons_of_mem _ hy)
          have hfuel' : fuelNeed ((nxt, j) :: r0) rem ≤ f := by
            unfold fuelNeed at hf ⊢
            simp only [List.map_cons, List.sum_cons] at hf ⊢
            have : remLen rem i0 = 1 := by simp [remLen, hl0]
            omega
          have hih := ih ((nxt, j) :: r0) nxt rem hgood hinv' hfuel'
          have hstep : pparLoop (f + 1) ((t0, i0) :: (nxt, j) :: r0) t0 rem =
              (nxt - t0, none) :: pparLoop f ((nxt, j) :: r0) nxt rem := by
            simp [pparLoop, hl0]
          rw [hstep]
          have habs : t0 + (nxt - t0) = nxt := by
            rw [Rat.sub_eq_add_neg, Rat.add_comm nxt, ← Rat.add_assoc, Rat.add_neg_cancel, Rat.zero_add]
          simp only [absT, habs, List.filterMap_cons, pick]
          by_cases hi : i = i0
          · subst hi
            rw [hih, qtime?_none_of_not_mem _ _ hnd.1]
            simp [qtime?, List.find?_cons, hl0, sched]
          · rw [hih, qtime?_cons_ne _ _ _ _ hi]

/-! ### The whole merge -/

theorem range_map_remLen (rem : List (List Ev)) :
    (List.range rem.length).map (remLen rem) = rem.map (fun l => l.length + 1) := by
  apply List.ext_getElem
  · simp
  · intro j h1 h2
    simp at h1
    simp [remLen, List.getElem?_eq_getElem h1]

theorem sum_map_succ (rem : List (List Ev)) :
    (rem.map (fun l => l.length + 1)).sum = (rem.map List.length).sum + rem.length := by
  induction rem with
  | nil => rfl
  | cons l r ih => simp [ih]; omega

theorem qtime?_zeros (js : List Nat) (i : Nat) (h : i ∈ js) :
    qtime? (js.map fun j => ((0 : Rat), j)) i = some 0 := by
  induction js with
  | nil => cases h
  | cons a r ih =>
    by_cases hai : a = i
    · subst hai; simp [qtime?, List.find?_cons]
    · have : (a == i) = false := by simpa using hai
      rcases List.mem_cons.mp h with rfl | h'
      · exact absurd rfl hai
      · simp only [List.map_cons, qtime?, List.find?_cons, this] at ih ⊢
        exact ih h'

theorem qsorted_zeros (js : List Nat) : QSorted (js.map fun j => ((0 : Rat), j)) := by
  induction js with
  | nil => simp [QSorted]
  | cons a r ih =>
    simp only [List.map_cons, QSorted]
    refine List.pairwise_cons.mpr ⟨?_, ih⟩
    intro b hb
    simp only [List.mem_map] at hb
    obtain ⟨j, _, rfl⟩ := hb
    exact Rat.le_refl

/-- MAIN (Ppar): each child's events appear in the merged stream at exactly the start times of the
    child's own timetable, in the child's order — whatever the other children do. -/
theorem ppar_child_timeline (children : List (List Ev)) (hgood : GoodRem children) (i : Nat) (l : List Ev)
    (hi : children[i]? = some l) :
    (absT 0 (pparMerge children)).filterMap (pick i) = sched 0 l := by
  have hlt : i < children.length := by
    rcases Nat.lt_or_ge i children.length with h | h
    · exact h
    · rw [List.getElem?_eq_none h] at hi; cases hi
  have hinv : QInv ((List.range children.length).map fun j => ((0 : Rat), j)) 0 children := by
    refine ⟨?_, ?_, ?_, ?_⟩
    · exact qsorted_zeros _
    · simp only [List.map_map]
      have : ((fun x : Rat × Nat => x.2) ∘ fun j => ((0 : Rat), j)) = id := rfl
      rw [this, List.map_id]; exact List.nodup_range
    · intro x r h
      cases hn : children.length with
      | zero => simp [hn] at h
      | succ n =>
        rw [hn, List.range_succ_eq_map] at h
        simp at h; rw [← h.1]
    · intro x hx
      simp only [List.mem_map, List.mem_range] at hx
      obtain ⟨j, hj, rfl⟩ := hx; exact hj
  have hfuel : fuelNeed ((List.range children.length).map fun j => ((0 : Rat), j)) children ≤
      (children.map List.length).sum + children.length + 1 := by
    unfold fuelNeed
    have : ((List.range children.length).map fun j => ((0 : Rat), j)).map (·.2) = List.range children.length := by
      simp [List.map_map, Function.comp_def]
    rw [this, range_map_remLen, sum_map_succ]; omega
  have := pparLoop_pick i _ _ 0 children hgood hinv hfuel
  rw [qtime?_zeros _ _ (List.mem_range.mpr hlt), hi] at this
  exact this

end Sc3Verif.C14
