/-
C14 — executable model of events (sc3/seq/event.py), the event stream player
(sc3/seq/eventstream.py) and the event patterns Pbind / Pchain / Ppar / Pdur / Pdelta
(sc3/seq/patterns/eventpatterns.py, filterpatterns.py).  Core Lean only.

Numbers are exact rationals; the transcendental leaves (`midicps`, `cpsmidi`, `dbamp`) stay
symbolic (`Sym`) and are evaluated with the real `bi.*` by the harness.  Only 12-tone equal
temperament scales (`Tuning.et(12)`, octave ratio 2) are modelled, for which the degree → midinote
chain is rational.
-/
namespace Sc3Verif.C14

/-- Values an event key can hold. -/
inductive V where
  | num (q : Rat)
  | rest (q : Rat)          -- `Rest(q)`
  | str (s : String)
  | scale (l : List Int) (spo : Nat)   -- `Scale(l, Tuning.et(spo))`: degrees, steps per octave (ratio 2)
  | bool (b : Bool)
  | none                    -- `None`
deriving Repr, Inhabited, BEq

/-- Results of key functions. -/
inductive Sym where
  | q (r : Rat)
  | midicps (x : Sym)
  | cpsmidi (x : Sym)
  | dbamp (x : Sym)
  | add (a b : Sym)
  | mul (a b : Sym)
  | div (a b : Sym)
deriving Repr, Inhabited, BEq, DecidableEq

def Sym.mkAdd : Sym → Sym → Sym
  | .q a, .q b => .q (a + b)
  | a, b => .add a b

def Sym.mkMul : Sym → Sym → Sym
  | .q a, .q b => .q (a * b)
  | a, b => .mul a b

def Sym.mkDiv : Sym → Sym → Sym
  | .q a, .q b => if b == 0 then .div (.q a) (.q b) else .q (a / b)
  | a, b => .div a b

abbrev Ev := List (String × V)

def Ev.get? (e : Ev) (k : String) : Option V := (e.find? (·.1 == k)).map (·.2)
def Ev.has (e : Ev) (k : String) : Bool := (e.get? k).isSome
/-- `e[k] = v`. -/
def Ev.set (e : Ev) (k : String) (v : V) : Ev := (k, v) :: e.filter (·.1 != k)
/-- `e.update(d)`: the keys of `d` override. -/
def Ev.update (e d : Ev) : Ev := d.foldl (fun acc kv => acc.set kv.1 kv.2) e

/-- A value used as a number (`Rest` is an operand wrapper: arithmetic sees its value). -/
def V.num? : V → Option Rat
  | .num q => some q
  | .rest q => some q
  | .bool b => some (if b then 1 else 0)
  | _ => Option.none

/-- An explicitly given numeric key, or its class default. `none` = the arithmetic would raise. -/
def Ev.numD (e : Ev) (k : String) (dflt : Rat) : Option Rat :=
  match e.get? k with
  | some v => v.num?
  | Option.none => some dflt

def majorScale : List Int := [0, 2, 4, 5, 7, 9, 11]

/-- The scale of the event and the steps per octave of its tuning (default: major, 12-ET). -/
def Ev.scaleOf (e : Ev) : Option (List Int × Nat) :=
  match e.get? "scale" with
  | some (.scale l spo) => some (l, spo)
  | some _ => Option.none
  | Option.none => some (majorScale, 12)

/-- `Scale.degree_to_key`: `spo * (degree // len) + scale[int(degree) % len]` (in tuning steps). -/
def degreeToKey (scale : List Int) (spo : Nat) (d : Rat) : Option Rat :=
  if scale.isEmpty then Option.none else
  let l : Int := scale.length
  let idx := (Int.fmod (if d < 0 then -((-d).floor) else d.floor) l).toNat
  match scale[idx]? with
  | some s => some ((spo : Rat) * ((d / (l : Rat)).floor : Rat) + (s : Rat))
  | Option.none => Option.none

/-- `_midinote_from_degree`: key, gtranspose and root are in steps of the tuning (`spo` per octave);
    octave ratio 2, so `12 * log2(octave_ratio) = 12`. A tuning without steps divides by zero. -/
def Ev.midinoteFromDegree (e : Ev) : Option Rat := do
  let (scale, spo) ← e.scaleOf
  let degree ← e.numD "degree" 0
  let mtr ← e.numD "mtranspose" 0
  let key ← degreeToKey scale spo (degree + mtr)
  let gtr ← e.numD "gtranspose" 0
  let root ← e.numD "root" 0
  let oct ← e.numD "octave" 5
  if spo == 0 then Option.none else
  some (((key + gtr + root) / (spo : Rat) + oct - 5) * 12 + 60)

/-- `_midi_from_note`. -/
def Ev.midinoteFromNote (e : Ev) : Option Rat := do
  let note ← (e.get? "note").bind V.num?
  let gtr ← e.numD "gtranspose" 0
  let root ← e.numD "root" 0
  let (_, spo) ← e.scaleOf
  let oct ← e.numD "octave" 5
  if spo == 0 then Option.none else
  some (((note + gtr + root) / (spo : Rat) + oct - 5) * 12 + 60)

/-- `e('midinote')` when `freq` is not consulted (an explicit `midinote`, `note` or `degree`). -/
def Ev.midinoteNoFreq (e : Ev) : Option Sym :=
  match e.get? "midinote" with
  | some v => v.num?.map Sym.q
  | Option.none =>
    if e.has "note" then e.midinoteFromNote.map Sym.q
    else if e.has "degree" then e.midinoteFromDegree.map Sym.q
    else some (.q 60)

/-- `e('freq')`. -/
def Ev.freq (e : Ev) : Option Sym :=
  match e.get? "freq" with
  | some v => v.num?.map Sym.q
  | Option.none =>
    if e.has "midinote" || e.has "note" then do
      let m ← e.midinoteNoFreq
      let c ← e.numD "ctranspose" 0
      some (.midicps (Sym.mkAdd m (.q c)))
    else if e.has "degree" then (e.midinoteFromDegree).map fun m => .midicps (.q m)
    else some (.midicps (.q 60))

/-- `_detuned_freq`: `freq * harmonic + detune`. -/
def Ev.detunedFreq (e : Ev) : Option Sym := do
  let f ← e.freq
  let h ← e.numD "harmonic" 1
  let d ← e.numD "detune" 0
  some (Sym.mkAdd (Sym.mkMul f (.q h)) (.q d))

/-- `e('midinote')`: explicit > note > degree > freq > default. -/
def Ev.midinote (e : Ev) : Option Sym :=
  match e.get? "midinote" with
  | some v => v.num?.map Sym.q
  | Option.none =>
    if e.has "note" then e.midinoteFromNote.map Sym.q
    else if e.has "degree" then e.midinoteFromDegree.map Sym.q
    else if e.has "freq" then e.detunedFreq.map Sym.cpsmidi
    else some (.q 60)

/-- `e('amp')`: explicit > db > velocity > default. -/
def Ev.amp (e : Ev) : Option Sym :=
  match e.get? "amp" with
  | some v => v.num?.map Sym.q
  | Option.none =>
    match e.get? "db" with
    | some v => v.num?.map fun d => .dbamp (.q d)
    | Option.none =>
      match e.get? "velocity" with
      | some v => v.num?.map fun x => .q (x / 127)
      | Option.none => some (.q (1 / 10))

/-- `e('delta')`: explicit, else `dur * stretch`. -/
def Ev.delta (e : Ev) : Option Rat :=
  match e.get? "delta" with
  | some v => v.num?
  | Option.none => do
    let d ← e.numD "dur" 1
    let s ← e.numD "stretch" 1
    some (d * s)

/-- `e('sustain')`: explicit, else `dur * legato * stretch`. -/
def Ev.sustain (e : Ev) : Option Rat :=
  match e.get? "sustain" with
  | some v => v.num?
  | Option.none => do
    let d ← e.numD "dur" 1
    let l ← e.numD "legato" (4 / 5)
    let s ← e.numD "stretch" 1
    some (d * l * s)

/-- `is_rest`: type `'rest'` or any value is a `Rest`. -/
def Ev.isRest (e : Ev) : Bool :=
  (e.get? "type" == some (.str "rest")) || e.any fun kv => match kv.2 with | .rest _ => true | _ => false

/-! ### Playing a note event -/

structure Desc where
  name : String
  controls : List String
  keepGate : Bool := false
deriving Repr, Inhabited, DecidableEq

def Desc.hasGate (d : Desc) : Bool := d.controls.contains "gate"

/-- Arguments of OSC messages. -/
inductive Arg where
  | s (x : String)
  | n (x : Sym)
deriving Repr, Inhabited, BEq, DecidableEq

structure Msg where
  time : Rat
  cmd : String
  args : List Arg
deriving Repr, Inhabited, DecidableEq

/-- The value an explicitly present key contributes to a message. -/
def V.arg? : V → Option Arg
  | .num q => some (.n (.q q))
  | .rest q => some (.n (.q q))
  | .str s => some (.s s)
  | .bool b => some (.n (.q (if b then 1 else 0)))
  | _ => Option.none

/-- `e(k)` for a key that is explicitly present or one of the keys with a key function. -/
def Ev.argOf (e : Ev) (k : String) : Option Arg :=
  match e.get? k with
  | some v => v.arg?
  | Option.none => Option.none

/-- The control names a description offers to events (without `gate` unless kept). -/
def Desc.paramControls (d : Desc) : List String :=
  if d.hasGate && !d.keepGate then d.controls.filter (· != "gate") else d.controls

/-- `[name, value, …]` for the names the event defines. `play` has just stored the detuned
    frequency `fq` under `freq`, so `freq` is always defined. -/
def paramsOf (e : Ev) (fq : Sym) : List String → Option (List Arg)
  | [] => some []
  | nm :: rest =>
    match paramsOf e fq rest with
    | Option.none => Option.none
    | some ps =>
      if nm == "freq" then some (.s nm :: .n fq :: ps)
      else if e.has nm then
        match e.argOf nm with
        | some a => some (.s nm :: a :: ps)
        | Option.none => Option.none
      else some ps

/-- `_get_msg_params` with a synth description: the controls (without `gate` unless kept) that the
    event defines explicitly, in the order of the description. -/
def msgParamsDesc (d : Desc) (e : Ev) (fq : Sym) : Option (List Arg) := paramsOf e fq d.paramControls

/-- `_default_msg_params` (no description for the instrument). -/
def msgParamsDefault (e : Ev) (fq : Sym) : Option (List Arg) := do
  let a ← e.amp
  let p ← e.numD "pan" 0
  let o ← e.numD "out" 0
  some [.s "freq", .n fq, .s "amp", .n a, .s "pan", .n (.q p), .s "out", .n (.q o)]

def addActionNumber : String → Option Rat
  | "addToHead" => some 0 | "addToTail" => some 1 | "addBefore" => some 2
  | "addAfter" => some 3 | "addReplace" => some 4
  | "h" => some 0 | "t" => some 1 | "b" => some 2 | "a" => some 3 | "r" => some 4
  | _ => Option.none

structure World where
  lib : List Desc
  latency : Rat
  nextId : Nat := 1000
deriving Repr, Inhabited, DecidableEq

def World.desc? (w : World) (name : String) : Option Desc := w.lib.find? (·.name == name)

def Ev.instrument (e : Ev) : Option String :=
  match e.get? "instrument" with
  | some (.str s) => some s
  | some _ => Option.none
  | Option.none => some "default"

/-- Python truthiness of `e('send_gate')` (default: `has_gate`). -/
def Ev.sendGate (e : Ev) (hasGate : Bool) : Bool :=
  match e.get? "send_gate" with
  | some (.bool b) => b
  | some (.num q) => q != 0
  | some (.rest q) => q != 0
  | some (.str s) => s != ""
  | some (.scale l _) => !l.isEmpty
  | some .none => false
  | Option.none => hasGate

/-- What `NoteEvent.play` needs before anything is sent; `none` = it raises before sending. -/
def notePrep (w : World) (e : Ev) : Option (String × Bool × List Arg × Rat × Rat) := do
  let fq ← e.detunedFreq
  let inst ← e.instrument
  let desc := w.desc? inst
  let hasGate := match desc with
    | some d => d.hasGate
    | Option.none => match e.get? "has_gate" with
      | some (.bool b) => b
      | _ => true
  let params ← match desc with
    | some d => msgParamsDesc d e fq
    | Option.none => msgParamsDefault e fq
  let action ← match e.get? "add_action" with
    | some (.str s) => addActionNumber s
    | some (.num q) => some q
    | some _ => Option.none
    | Option.none => some 0
  let group ← e.numD "group" 1
  some (inst, hasGate, params, action, group)

/-- `NoteEvent.play` at logical time `t`: the messages sent, the new world, and whether it raised
    (the `/s_new` is already sent when computing `sustain` for the gate-off raises). -/
def playNote (w : World) (t : Rat) (e : Ev) : List Msg × World × Bool :=
  match notePrep w e with
  | Option.none => ([], w, true)
  | some (inst, hasGate, params, action, group) =>
    let id := w.nextId
    let sNew : Msg := ⟨t + w.latency, "/s_new",
      [.s inst, .n (.q id), .n (.q action), .n (.q group)] ++ params⟩
    let w' := { w with nextId := w.nextId + 1 }
    if e.sendGate hasGate then
      match e.sustain with
      | some sus => ([sNew, ⟨t + w.latency + sus, "/n_set", [.n (.q id), .s "gate", .n (.q 0)]⟩], w', false)
      | Option.none => ([sNew], w', true)
    else ([sNew], w', false)

/-- One event OBJECT played repeatedly from a routine: at `t`, then after each of the waits `dts`
    (the same object or a copy of it — both carry the keys `play` stored, but every play takes a
    new node id from the server). Stops when a play raises. Result: messages, world, time, raised. -/
def playTimes (w : World) (e : Ev) : Rat → List Rat → List Msg × World × Rat × Bool
  | t, [] =>
    match playNote w t e with
    | (m, w1, r) => (m, w1, t, r)
  | t, d :: ds =>
    match playNote w t e with
    | (m, w1, true) => (m, w1, t, true)
    | (m, w1, false) =>
      let (ms, w', t', died) := playTimes w1 e (t + d) ds
      (m ++ ms, w', t', died)

/-! ### Pmono -/

/-- Names in a parameter list `[name, value, name, value, …]` (`msg_params[::2]`). -/
def paramNames : List Arg → List String
  | .s n :: _ :: r => n :: paramNames r
  | _ => []

/-- `e(name)` as a Pmono set event evaluates it for a control name of the running synth. -/
def Ev.resolveArg (e : Ev) (fq : Sym) (nm : String) : Option Arg :=
  if nm == "freq" then some (.n fq)
  else
    match e.get? nm with
    | some v => v.arg?
    | Option.none =>
      if nm == "amp" then e.amp.map Arg.n
      else if nm == "pan" || nm == "out" then some (.n (.q 0))
      else Option.none

/-- The synth a Pmono keeps running. -/
structure Held where
  id : Nat
  names : List String
  hasGate : Bool
deriving Repr, Inhabited, DecidableEq

/-- `_MonoOffEvent.play`: release (or free) the running synth `delay` after `t`. -/
def offMsg (w : World) (t : Rat) (h : Held) (delay : Rat) : Msg :=
  if h.hasGate then ⟨t + w.latency + delay, "/n_set", [.n (.q h.id), .s "gate", .n (.q 0)]⟩
  else ⟨t + w.latency + delay, "/n_free", [.n (.q h.id)]⟩

def setArgs (e : Ev) (fq : Sym) : List String → Option (List Arg)
  | [] => some []
  | nm :: rest =>
    match e.resolveArg fq nm, setArgs e fq rest with
    | some a, some r => some (.s nm :: a :: r)
    | _, _ => Option.none

/-- `_MonoSetEvent.play`: `/n_set id name value …` for the names the synth was started with. -/
def setMsg (w : World) (t : Rat) (e : Ev) (h : Held) : Option Msg := do
  let fq ← e.detunedFreq
  let args ← setArgs e fq h.names
  some ⟨t + w.latency, "/n_set", .n (.q h.id) :: args⟩

/-- Pmono (articulate = false) played by an EventStreamPlayer: the first event starts the synth
    (`/s_new` with the parameters of `_get_msg_params`), every later event updates it with
    `/n_set`, the end of the pattern releases it. Rests are not played. -/
def playMono (inst : String) (w : World) : Rat → Option Held → List Ev → List Msg × World × Rat × Bool
  | t, held, [] =>
    (match held with
     | some h => [offMsg w t h 0]
     | Option.none => [], w, t, false)
  | t, Option.none, e :: es =>
    let e := e.set "instrument" (.str inst)
    match notePrep w e with
    | Option.none => ([], w, t, true)
    | some (i, hasGate, params, action, group) =>
      let id := w.nextId
      let w1 := { w with nextId := w.nextId + 1 }
      let m1 : List Msg := if e.isRest then [] else
        [⟨t + w.latency, "/s_new", [.s i, .n (.q id), .n (.q action), .n (.q group)] ++ params⟩]
      match e.delta with
      | Option.none => (m1, w1, t, false)
      | some d =>
        let (ms, w', t', died) := playMono inst w1 (t + d) (some ⟨id, paramNames params, hasGate⟩) es
        (m1 ++ ms, w', t', died)
  | t, some h, e :: es =>
    if e.isRest then
      match e.delta with
      | Option.none => ([], w, t, false)
      | some d => playMono inst w (t + d) (some h) es
    else
      match setMsg w t e h with
      | Option.none => ([], w, t, true)
      | some m =>
        match e.delta with
        | Option.none => ([m], w, t, false)
        | some d =>
          let (ms, w', t', died) := playMono inst w (t + d) (some h) es
          (m :: ms, w', t', died)

/-- Pmono with articulate = true: a synth is kept only while the sustain of an event reaches the next
    one (`sustain >= delta`); an event with a shorter sustain releases the synth after its sustain
    (and is itself still applied with `/n_set`), the next event starts a new synth; an event that
    would start a synth but does not reach the next one is played as an ordinary note. -/
def playMonoA (inst : String) (w : World) : Rat → Option Held → List Ev → List Msg × World × Rat × Bool
  | t, held, [] =>
    (match held with
     | some h => [offMsg w t h 0]
     | Option.none => [], w, t, false)
  | t, Option.none, e :: es =>
    let e := e.set "instrument" (.str inst)
    match notePrep w e, e.sustain, e.delta with
    | some (i, hasGate, params, action, group), some sus, some d =>
      let id := w.nextId
      let w1 := { w with nextId := w.nextId + 1 }
      if d ≤ sus && !e.isRest then
        let m1 : Msg := ⟨t + w.latency, "/s_new", [.s i, .n (.q id), .n (.q action), .n (.q group)] ++ params⟩
        let (ms, w', t', died) := playMonoA inst w1 (t + d) (some ⟨id, paramNames params, hasGate⟩) es
        (m1 :: ms, w', t', died)
      else if e.isRest then playMonoA inst w1 (t + d) Option.none es
      else
        match playNote w1 t e with
        | (m1, w2, true) => (m1, w2, t, true)
        | (m1, w2, false) =>
          let (ms, w', t', died) := playMonoA inst w2 (t + d) Option.none es
          (m1 ++ ms, w', t', died)
    | _, _, _ => ([], w, t, true)
  | t, some h, e :: es =>
    match e.sustain, e.delta with
    | some sus, some d =>
      let (pre, held') : List Msg × Option Held :=
        if sus < d then ([offMsg w t h sus], Option.none)
        else if e.isRest then ([offMsg w t h 0], Option.none)
        else ([], some h)
      if e.isRest then
        let (ms, w', t', died) := playMonoA inst w (t + d) held' es
        (pre ++ ms, w', t', died)
      else
        match setMsg w t e h with
        | Option.none => (pre, w, t, true)
        | some m =>
          let (ms, w', t', died) := playMonoA inst w (t + d) held' es
          (pre ++ m :: ms, w', t', died)
    | _, _ => ([], w, t, true)

/-! ### The event stream player -/

/-- `EventStreamPlayer` from logical time `t` over the events its stream delivers: every event that
    is not a rest is played, then the player waits the event's `delta` (a `Rest` delta counts with
    its value).  Result: messages, world, the time reached, and whether `play` raised (the clock
    logs the error and the player is gone; what was sent before stays). A `delta` that is not a
    number ends the player. -/
def playAll (w : World) (t : Rat) : List Ev → List Msg × World × Rat × Bool
  | [] => ([], w, t, false)
  | e :: es =>
    if e.isRest then
      match e.delta with
      | some d => playAll w (t + d) es
      | Option.none => ([], w, t, false)
    else
      match playNote w t e with
      | (m1, w1, true) => (m1, w1, t, true)
      | (m1, w1, false) =>
        match e.delta with
        | some d =>
          let (ms, w', t', died) := playAll w1 (t + d) es
          (m1 ++ ms, w', t', died)
        | Option.none => (m1, w1, t, false)

/-! ### Event patterns (over finite value sequences) -/

/-- The value sequence of one Pbind key: a finite list, or a list repeated for ever
    (a plain value is `cyc [v]`). -/
inductive VSeq where
  | fin (l : List V)
  | cyc (l : List V)
deriving Repr, Inhabited

def VSeq.get? : VSeq → Nat → Option V
  | .fin l, i => l[i]?
  | .cyc l, i => if l.isEmpty then Option.none else l[i % l.length]?

/-- Number of values if finite. -/
def VSeq.len? : VSeq → Option Nat
  | .fin l => some l.length
  | .cyc l => if l.isEmpty then some 0 else Option.none

abbrev Binds := List (String × VSeq)

/-- Length of a Pbind's event sequence: the shortest of its value sequences (`none` = endless). -/
def Binds.len? (b : Binds) : Option Nat :=
  b.foldl (fun acc kv =>
    match acc, kv.2.len? with
    | some a, some n => some (min a n)
    | some a, Option.none => some a
    | Option.none, x => x) Option.none

/-- The keys the `i`-th event of a Pbind sets. -/
def Binds.row (b : Binds) (i : Nat) : Ev :=
  b.filterMap fun kv => (kv.2.get? i).map fun v => (kv.1, v)

inductive EPat where
  | bind (b : Binds)
  | chain (b : Binds) (p : EPat)        -- `Pbind(b) <> p`: `b` updates every event of `p`
  | par (ps : List EPat)
  | dur (d tol : Rat) (p : EPat)        -- `Pdur(d, p, tol)`
  | delta (t : Rat) (p : EPat)          -- `Pdelta(t, p)`
  | mono (inst : String) (b : Binds)    -- `Pmono(inst, b)` (articulate = false) inside a composition
  | seq (ps : List EPat)                -- `Pseq([p, …])`: one after the other
  | pn (p : EPat) (n : Nat)             -- `Pn(p, n)`
deriving Repr, Inhabited

/-- `bi.roundup(x, tol)` for floats. -/
def roundup (x tol : Rat) : Rat := if tol == 0 then x else ((x / tol).ceil : Rat) * tol

/-- `evt.silent(dur, inevent)`. -/
def silent (dur : Rat) (inevent : Ev) : Ev :=
  let stretch := match inevent.get? "stretch" with
    | some v => v.num?.getD 1
    | Option.none => 1
  (inevent.set "delta" (.num (dur * stretch))).set "dur" (.rest dur)

/-- Pdur on an event sequence: events pass until their summed deltas reach `d` (within `tol`);
    the event that reaches it gets the remaining time as its delta and ends the pattern. -/
def pdurL (d tol : Rat) : Rat → List Ev → List Ev
  | _, [] => []
  | el, e :: es =>
    match e.delta with
    | Option.none => []                                   -- `float(delta)` raises
    | some dl =>
      if d ≤ roundup (el + dl) tol then [e.set "delta" (.num (d - el))]
      else e :: pdurL d tol (el + dl) es

/-- Insert behind every entry whose time is `≤ t` (TaskQueue: stable, see C09). -/
def qinsert (t : Rat) (i : Nat) : List (Rat × Nat) → List (Rat × Nat)
  | [] => [(t, i)]
  | x :: xs => if t < x.1 then (t, i) :: x :: xs else x :: qinsert t i xs

/-- Ppar's merge loop. `q`: (time of next event, child) sorted; `now`; `rem`: what is left of each
    child. Emits `(delta, some (child, event))` or `(delta, none)` for a silent filler. -/
def pparLoop : Nat → List (Rat × Nat) → Rat → List (List Ev) → List (Rat × Option (Nat × Ev))
  | 0, _, _, _ => []
  | _ + 1, [], _, _ => []
  | f + 1, (_, i) :: q, now, rem =>
    match rem[i]? with
    | some (e :: rest) =>
      match e.delta with
      | Option.none => []
      | some d =>
        let q' := qinsert (now + d) i q
        match q' with
        | [] => []
        | (nxt, _) :: _ => (nxt - now, some (i, e)) :: pparLoop f q' nxt (rem.set i rest)
    | some [] =>
      match q with
      | [] => []
      | (nxt, _) :: _ => (nxt - now, Option.none) :: pparLoop f q nxt rem
    | Option.none => []

def pparMerge (children : List (List Ev)) : List (Rat × Option (Nat × Ev)) :=
  pparLoop ((children.map List.length).sum + children.length + 1)
    ((List.range children.length).map fun i => ((0 : Rat), i)) 0 children

/-- The events Ppar yields: the children's events with `delta` = time to the next event of any
    child; silent fillers (built on the input event) after a child has ended. -/
def pparL (inevent : Ev) (children : List (List Ev)) : List Ev :=
  (pparMerge children).map fun (d, o) =>
    match o with
    | some (_, e) => e.set "delta" (.num d)
    | Option.none => silent d inevent

/-- Marks on the elements a Pmono contributes to an event stream: `on` (first event: starts the synth),
    `set` (updates it), and `off`: not an event but the moment the Pmono's own stream ends — its
    cleanup releases the synth right then, i.e. when the next element is pulled; as an element of the
    timeline it has delta 0. `_tag` tells the Pmonos of a composition apart. -/
def monoMark (kind : String) (tag : Nat) (e : Ev) : Ev :=
  (e.set "_kind" (.str kind)).set "_tag" (.num tag)

def Ev.kind? (e : Ev) : Option String :=
  match e.get? "_kind" with
  | some (.str s) => some s
  | _ => Option.none

def Ev.tag (e : Ev) : Nat :=
  match e.get? "_tag" with
  | some (.num q) => q.num.toNat
  | _ => 0

/-- The elements of a Pmono: its events marked `on` / `set`, then the release point. -/
def monoEvs (inst : String) (tag : Nat) (inev : Ev) (rows : List Ev) : List Ev :=
  match rows with
  | [] => []
  | r :: rs =>
    monoMark "on" tag ((inev.update r).set "instrument" (.str inst)) ::
      (rs.map fun x => monoMark "set" tag (inev.update x)) ++
      [monoMark "off" tag [("delta", .num 0)]]

mutual
/-- The events the stream of a pattern delivers when every `next` gets the input event `inev`
    (`tag`: position of the pattern in the composition, for telling Pmonos apart). -/
def EPat.evs (inev : Ev) (tag : Nat) : EPat → List Ev
  | .bind b =>
    match b.len? with
    | some n => (List.range n).map fun i => inev.update (b.row i)
    | Option.none => []
  | .chain b p =>
    let es := p.evs inev (tag * 16 + 1)
    let n := match b.len? with
      | some n => min n es.length
      | Option.none => es.length
    (List.zip (es.take n) (List.range n)).map fun (e, i) => Ev.update e (b.row i)
  | .par ps => pparL inev (EPat.evsL inev (tag * 16) 1 ps)
  | .dur d tol p => pdurL d tol 0 (p.evs inev (tag * 16 + 1))
  | .delta t p => if 0 < t then silent t inev :: p.evs inev (tag * 16 + 1) else p.evs inev (tag * 16 + 1)
  | .mono inst b =>
    match b.len? with
    | some n => monoEvs inst tag inev ((List.range n).map fun i => b.row i)
    | Option.none => []
  | .seq ps => (EPat.evsL inev (tag * 16) 1 ps).flatten
  | .pn p n => (List.replicate n (p.evs inev (tag * 16 + 1))).flatten
def EPat.evsL (inev : Ev) (base : Nat) : Nat → List EPat → List (List Ev)
  | _, [] => []
  | i, p :: t => p.evs inev (base + i) :: EPat.evsL inev base (i + 1) t
end

/-- The player over a stream that may contain Pmono elements: `held` are the running Pmono synths. -/
def playAllM (w : World) (t : Rat) (held : List (Nat × Held)) : List Ev → List Msg × World × Rat × Bool
  | [] => (held.map fun kh => offMsg w t kh.2 0, w, t, false)      -- the player's own cleanup
  | e :: es =>
    match e.kind? with
    | some "off" =>
      let m := match held.lookup e.tag with
        | some h => [offMsg w t h 0]
        | Option.none => []
      match e.delta with
      | some d =>
        let (ms, w', t', died) := playAllM w (t + d) (held.filter (·.1 != e.tag)) es
        (m ++ ms, w', t', died)
      | Option.none => (m, w, t, false)
    | some "on" =>
      match notePrep w e with
      | Option.none => ([], w, t, true)
      | some (i, hasGate, params, action, group) =>
        let id := w.nextId
        let w1 := { w with nextId := w.nextId + 1 }
        let m1 : List Msg := if e.isRest then [] else
          [⟨t + w.latency, "/s_new", [.s i, .n (.q id), .n (.q action), .n (.q group)] ++ params⟩]
        match e.delta with
        | Option.none => (m1, w1, t, false)
        | some d =>
          let (ms, w', t', died) :=
            playAllM w1 (t + d) ((e.tag, ⟨id, paramNames params, hasGate⟩) :: held.filter (·.1 != e.tag)) es
          (m1 ++ ms, w', t', died)
    | some "set" =>
      match held.lookup e.tag with
      | Option.none => ([], w, t, true)
      | some h =>
        if e.isRest then
          match e.delta with
          | Option.none => ([], w, t, false)
          | some d => playAllM w (t + d) held es
        else
          match setMsg w t e h with
          | Option.none => ([], w, t, true)
          | some m =>
            match e.delta with
            | Option.none => ([m], w, t, false)
            | some d =>
              let (ms, w', t', died) := playAllM w (t + d) held es
              (m :: ms, w', t', died)
    | _ =>
      if e.isRest then
        match e.delta with
        | some d => playAllM w (t + d) held es
        | Option.none => ([], w, t, false)
      else
        match playNote w t e with
        | (m1, w1, true) => (m1, w1, t, true)
        | (m1, w1, false) =>
          match e.delta with
          | some d =>
            let (ms, w', t', died) := playAllM w1 (t + d) held es
            (m1 ++ ms, w', t', died)
          | Option.none => (m1, w1, t, false)

/-- `pattern.play()` at logical time `t` with the default (empty) proto event. -/
def playPattern (w : World) (t : Rat) (p : EPat) : List Msg × World × Rat × Bool :=
  playAllM w t [] (p.evs [] 1)

/-- The events of a player's timetable that start before `limit`. -/
def cutBefore (limit : Rat) : Rat → List Ev → List Ev
  | _, [] => []
  | t, e :: es =>
    if t < limit then
      e :: match e.delta with
        | some d => cutBefore limit (t + d) es
        | Option.none => []
    else []

/-- `player = p.play()` at `t0`; `player.stop()` after `a`; `player.play(reset=True)` after another `b`:
    the first pass plays what starts before the stop, the second pass is the whole pattern again from its
    beginning (new stream, new node ids). For compositions without Pmono. -/
def playRestart (w : World) (t0 a b : Rat) (p : EPat) : List Msg × World × Rat × Bool :=
  let es := p.evs [] 1
  let r1 := playAllM w t0 [] (cutBefore (t0 + a) t0 es)
  let r2 := playAllM r1.2.1 (t0 + a + b) [] es
  (r1.1 ++ r2.1, r2.2.1, r2.2.2.1, r1.2.2.2 || r2.2.2.2)

/-- The events a Pmono's Pbind part delivers (empty proto). -/
def Binds.rows (b : Binds) : List Ev :=
  match b.len? with
  | some n => (List.range n).map fun i => b.row i
  | Option.none => []

def playMonoPattern (w : World) (t : Rat) (inst : String) (artic : Bool) (b : Binds) :
    List Msg × World × Rat × Bool :=
  if artic then playMonoA inst w t Option.none b.rows else playMono inst w t Option.none b.rows

end Sc3Verif.C14
