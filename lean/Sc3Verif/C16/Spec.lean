/-
C16 — the abstract specification.

1. What an allocator must do, stated on OUTPUTS only (`Ledger`): the ledger is the list of
   ranges handed out by `alloc` and not yet given back by `free`; it is computed from the
   observable results of a history, never from allocator internals.
2. The representation invariant `Inv` of `ContiguousBlockAllocator`: the blocks stored in
   `_array` tile the client's partition exactly, no two neighbouring blocks are both free
   (coalescing), `top` is the start of the last block, and `_freed` lists real free blocks and
   at least every free block below `top`.
-/
import Sc3Verif.C16.Model
namespace Sc3Verif.C16

/-! ### ledger of live ranges (the specification side) -/

/-- live ranges `(address, length)` -/
abbrev Ledger := List (Nat × Nat)

def Ledger.step (L : Ledger) : Op → Out → Ledger
  | .alloc n _, .addr (some x) => (x, n) :: L
  | .free (some x), _ => L.filter fun r => r.1 != x
  | _, _ => L

def Ledger.run (L : Ledger) : List Op → List Out → Ledger
  | op :: ops, o :: os => (L.step op o).run ops os
  | _, _ => L

/-- `[x, x+n)` and `[y, y+m)` do not overlap -/
def Disjoint (x n y m : Nat) : Prop := x + n ≤ y ∨ y + m ≤ x

/-- `[x, x+n)` lies in `[lo, hi)` and meets no live range -/
def FreeRun (L : Ledger) (lo hi x n : Nat) : Prop :=
  lo ≤ x ∧ x + n ≤ hi ∧ ∀ r ∈ L, Disjoint x n r.1 r.2

/-! ### representation invariant -/

/-- `bs` tile `[lo, hi)` exactly, in address order, every block non-empty -/
def Tiles : List Block → Nat → Nat → Prop
  | [], lo, hi => lo = hi
  | b :: bs, lo, hi => b.start = lo ∧ 0 < b.size ∧ Tiles bs (lo + b.size) hi

/-- no two neighbouring blocks are both free -/
def NoAdjFree : List Block → Prop
  | a :: b :: rest => (a.used = true ∨ b.used = true) ∧ NoAdjFree (b :: rest)
  | _ => True

/-- the cells of one block: the block object at its start, `None` behind it -/
def seg (b : Block) : List (Option Block) := some b :: List.replicate (b.size - 1) none

/-- `_array` as determined by the block list: `lead` reserved cells, then the blocks -/
def render (lead : Nat) (bs : List Block) : List (Option Block) :=
  List.replicate lead none ++ bs.flatMap seg

/-- the block `(start, size)` is in the set `_freed[size]` -/
def inFreed (f : Freed) (sz st : Nat) : Prop := ∃ l, (sz, l) ∈ f ∧ st ∈ l

/-- everything of the invariant except coalescing (holds between the phases of `free`) -/
structure WInv (a : CBA) (bs : List Block) : Prop where
  offLe : a.off ≤ a.pos
  array : a.array = render (a.pos - a.off) bs
  tiles : Tiles bs a.pos (a.off + a.size)
  top : ∃ l, bs.getLast? = some l ∧ l.start = a.top
  freedSound : ∀ sz st, inFreed a.freed sz st → (⟨st, sz, false⟩ : Block) ∈ bs
  freedComplete : ∀ b ∈ bs, b.used = false → b.start < a.top → inFreed a.freed b.size b.start

/-- the representation invariant; `bs` is the list of blocks in `_array` -/
structure Inv (a : CBA) (bs : List Block) : Prop extends WInv a bs where
  noAdj : NoAdjFree bs

/-- the used blocks are exactly the live ranges -/
def Ledger.Matches (L : Ledger) (bs : List Block) : Prop :=
  ∀ x n, (x, n) ∈ L ↔ (⟨x, n, true⟩ : Block) ∈ bs

/-- an operation inside the domain of the model (see ASSUMPTIONS of the check): `alloc(n)` with
    `n ≥ 1`; `free` of ANY address (live, already freed, never allocated, interior of a block, below
    or above the allocator's range — those are ignored) or `None` -/
def Op.Valid (off size : Nat) : Op → Prop
  | .alloc n _ => 0 < n
  | .free (some _) => True
  | .free none => True

/-! ### what the property demands of one step, in terms of outputs and the ledger only -/

/-- `alloc(n) = x`: `[x, x+n)` is inside the partition `[lo, hi)` and overlaps no live range.
    `alloc(n) = None`: there is NO free run of length `n` anywhere in the partition. -/
def StepOk (lo hi : Nat) (L : Ledger) : Op → Out → Prop
  | .alloc n _, .addr (some x) => FreeRun L lo hi x n
  | .alloc n _, .addr none => ∀ x, ¬ FreeRun L lo hi x n
  | .free _, .unit => True
  | _, _ => False

/-- every step of a history meets `StepOk` against the ledger accumulated so far -/
def TraceOk (lo hi : Nat) : Ledger → List Op → List Out → Prop
  | _, [], [] => True
  | L, op :: ops, o :: os => StepOk lo hi L op o ∧ TraceOk lo hi (L.step op o) ops os
  | _, _, _ => False

end Sc3Verif.C16
