import Sc3Verif.C16.Model
import Sc3Verif.C16.GenPartition
