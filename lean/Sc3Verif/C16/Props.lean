/-
C16 — Bus, buffer and node-id allocation is safe and complete.

Property theorems only (helper lemmas are in `Lemmas.lean`).  The allocator theorems quantify
over every partition size, reserved offset `pos`, address offset `off` (client id), every finite
history of `alloc(n)` / `free(x)` / `free(None)` (live, already freed, never allocated and
interior addresses) and every choice oracle `k` of the random tie-break.
-/
import Sc3Verif.C16.Lemmas
import Sc3Verif.C16.GenPartition
import Mathlib.Tactic.Linarith
namespace Sc3Verif.C16

/-! ## ContiguousBlockAllocator -/

/-- one step from a state satisfying the invariant whose used blocks are the ledger -/
theorem step_good {a : CBA} {bs : List Block} {L : Ledger} (h : Inv a bs) (hL : L.Matches bs)
    {op : Op} (hv : op.Valid a.off a.size) :
    ∃ a' o bs', a.step op = .ok (a', o) ∧ Inv a' bs' ∧ (L.step op o).Matches bs' ∧
      SameFrame a' a ∧ StepOk a.pos (a.off + a.size) L op o := by
  have hw := h.toWInv
  cases op with
  | alloc n k =>
    have hn : 0 < n := hv
    simp only [CBA.step]
    rcases alloc_inv h hn k with ⟨a', pre, b, post, e, rfl, hf, hle, hi, hfr⟩ | ⟨e, hsmall⟩
    · rw [e]
      refine ⟨a', .addr (some b.start), _, rfl, hi, ?_, hfr, ?_⟩
      · -- ledger matches the new block list
        intro x m
        simp only [Ledger.step, List.mem_cons, Prod.mk.injEq, afterAlloc, List.mem_append]
        rw [hL x m]
        simp only [List.mem_append, List.mem_cons]
        have hbne : (⟨x, m, true⟩ : Block) ≠ b := fun e => by rw [← e] at hf; simp at hf
        constructor
        · rintro (⟨rfl, rfl⟩ | h1 | h1 | h1)
          · exact Or.inr (Or.inl rfl)
          · exact Or.inl h1
          · exact absurd h1 hbne
          · exact Or.inr (Or.inr (Or.inr h1))
        · rintro (h1 | h1 | h1 | h1)
          · exact Or.inr (Or.inl h1)
          · simp only [Block.mk.injEq, and_true] at h1; exact Or.inl h1
          · split at h1
            · simp at h1
            · simp at h1
          · exact Or.inr (Or.inr (Or.inr h1))
      · -- in the partition, disjoint from every live range
        have hs := tiles_split hw.tiles
        have hm := tiles_mem hw.tiles (b := b) (by simp)
        refine ⟨hm.1, by omega, ?_⟩
        intro r hr
        have : (⟨r.1, r.2, true⟩ : Block) ∈ pre ++ b :: post := (hL r.1 r.2).mp (by cases r; exact hr)
        rcases List.mem_append.mp this with h1 | h1
        · have := tiles_mem hs.1 h1; right; simp only at this; omega
        · rcases List.mem_cons.mp h1 with h1 | h1
          · rw [← h1] at hf; simp at hf
          · have := tiles_mem hs.2.2 h1; left; simp only at this; omega
    · rw [e]
      refine ⟨a, .addr none, bs, rfl, h, hL, SameFrame.refl a, ?_⟩
      -- no space: then there is no free run
      intro x ⟨hlo, hhi, hdis⟩
      obtain ⟨pre, c, post, rfl, hc1, hc2⟩ := tiles_cover hw.tiles (x := x) ⟨hlo, by omega⟩
      have hs := tiles_split hw.tiles
      have hcfree : c.used = false := by
        cases hu : c.used with
        | false => rfl
        | true =>
          have : (c.start, c.size) ∈ L := (hL _ _).mpr (by
            have : c = ⟨c.start, c.size, true⟩ := by cases c; simp_all
            rw [← this]; simp)
          have := hdis _ this
          simp only [Disjoint] at this; omega
      have hcs := hsmall c (by simp) hcfree
      have hna := (noAdj_around_free hcfree).mp h.noAdj
      cases post with
      | nil => simp only [Tiles] at hs; omega
      | cons d post' =>
        have hd := hna.2.2.2 d rfl
        have hds := hs.2.2
        simp only [Tiles] at hds
        have : (d.start, d.size) ∈ L := (hL _ _).mpr (by
          have : d = ⟨d.start, d.size, true⟩ := by cases d; simp_all
          rw [← this]; simp)
        have := hdis _ this
        simp only [Disjoint] at this; omega
  | free x =>
    cases x with
    | none =>
      exact ⟨a, .unit, bs, rfl, h, hL, SameFrame.refl a, trivial⟩
    | some x =>
      obtain ⟨a', bs', e, hi, hfr, hu⟩ := free_inv h (x := x)
      simp only [CBA.step]
      rw [e]
      refine ⟨a', .unit, bs', rfl, hi, ?_, hfr, trivial⟩
      intro y m
      simp only [Ledger.step, List.mem_filter, bne_iff_ne, ne_eq]
      rw [hu ⟨y, m, true⟩ rfl, hL y m]

/-- `Inv` is preserved by `alloc` (names of DESIGN.md §5: `inv_init` is in `Lemmas.lean`).
    Either a free block `b` with `n ≤ b.size` was taken (front part used, rest stays free) or
    nothing changed and every free block is shorter than `n`. -/
theorem inv_alloc {a : CBA} {bs : List Block} (h : Inv a bs) {n : Nat} (hn : 0 < n) (k : Nat) :
    (∃ a' pre b post, a.alloc n k = .ok (a', some b.start) ∧ bs = pre ++ b :: post ∧
        b.used = false ∧ n ≤ b.size ∧ Inv a' (afterAlloc pre post b n) ∧ SameFrame a' a) ∨
    (a.alloc n k = .ok (a, none) ∧ ∀ b ∈ bs, b.used = false → b.size < n) := alloc_inv h hn k

/-- `Inv` is preserved by `free` of any address of the range; the used blocks afterwards are the
    used blocks before minus the one starting at `x` -/
theorem inv_free {a : CBA} {bs : List Block} (h : Inv a bs) (x : Nat) :
    ∃ a' bs', a.free (some x) = .ok a' ∧ Inv a' bs' ∧ SameFrame a' a ∧
      (∀ u, u.used = true → (u ∈ bs' ↔ u ∈ bs ∧ u.start ≠ x)) := free_inv h

/-- every operation of the history is inside the model's domain -/
def ValidOps (off size : Nat) (ops : List Op) : Prop := ∀ op ∈ ops, op.Valid off size

theorem run_good {a : CBA} {bs : List Block} {L : Ledger} (h : Inv a bs) (hL : L.Matches bs)
    (ops : List Op) (hv : ValidOps a.off a.size ops) :
    ∃ a' outs bs', a.run ops = .ok (a', outs) ∧ Inv a' bs' ∧ (L.run ops outs).Matches bs' ∧
      SameFrame a' a ∧ TraceOk a.pos (a.off + a.size) L ops outs := by
  induction ops generalizing a bs L with
  | nil => exact ⟨a, [], bs, rfl, h, hL, SameFrame.refl a, trivial⟩
  | cons op ops ih =>
    obtain ⟨a1, o, bs1, e1, h1, hL1, hf1, hs1⟩ := step_good h hL (hv op (by simp))
    have hv' : ValidOps a1.off a1.size ops := by
      rw [hf1.1, hf1.2.1]; exact fun op' hop => hv op' (by simp [hop])
    obtain ⟨a2, outs, bs2, e2, h2, hL2, hf2, hs2⟩ := ih h1 hL1 hv'
    refine ⟨a2, o :: outs, bs2, ?_, h2, hL2, hf2.trans hf1, hs1, ?_⟩
    · simp only [CBA.run, e1, e2, bind, Except.bind, pure, Except.pure]
    · rw [hf1.1, hf1.2.1, hf1.2.2] at hs2; exact hs2

/-- MAIN.  For every partition size, reserved offset, client offset, every history of
    `alloc(n≥1)` / `free` (ANY address, `None`) and every choice oracle:
    the allocator never raises, every range it hands out lies inside the client's partition
    and overlaps no live range, and it answers "no space" only when no free run of the
    requested length exists (so freed ranges, merged with their free neighbours, are available
    again). -/
theorem alloc_free_safe_and_complete {size pos off : Nat} {a0 : CBA}
    (hinit : CBA.init size pos off = some a0) (ops : List Op) (hv : ValidOps off size ops) :
    ∃ a outs, a0.run ops = .ok (a, outs) ∧ TraceOk (pos + off) (off + size) [] ops outs := by
  obtain ⟨hi, ho, hs, hp⟩ := inv_init hinit
  have hL : Ledger.Matches [] [(⟨pos + off, size - pos, false⟩ : Block)] := by
    intro x n; simp
  obtain ⟨a, outs, bs, e, _, _, _, ht⟩ := run_good hi hL ops (by rw [ho, hs]; exact hv)
  rw [ho, hs, hp] at ht
  exact ⟨a, outs, e, ht⟩

/-- The invariant `Inv` holds after every history (`inv_init`, `alloc_inv`, `free_inv` are the
    induction steps), and the used blocks are exactly the ledger of live ranges. -/
theorem inv_reachable {size pos off : Nat} {a0 : CBA}
    (hinit : CBA.init size pos off = some a0) (ops : List Op) (hv : ValidOps off size ops) :
    ∃ a outs bs, a0.run ops = .ok (a, outs) ∧ Inv a bs ∧ (Ledger.run [] ops outs).Matches bs ∧
      a.off = off ∧ a.size = size ∧ a.pos = pos + off := by
  obtain ⟨hi, ho, hs, hp⟩ := inv_init hinit
  have hL : Ledger.Matches [] [(⟨pos + off, size - pos, false⟩ : Block)] := by
    intro x n; simp
  obtain ⟨a, outs, bs, e, h1, h2, hf, _⟩ := run_good hi hL ops (by rw [ho, hs]; exact hv)
  exact ⟨a, outs, bs, e, h1, h2, hf.1.trans ho, hf.2.1.trans hs, hf.2.2.trans hp⟩

/-- states (with their ledger of live ranges) reachable by valid histories -/
inductive Reach (size pos off : Nat) : CBA → Ledger → Prop
  | init {a : CBA} : CBA.init size pos off = some a → Reach size pos off a []
  | step {a a' : CBA} {L : Ledger} {op : Op} {o : Out} :
      Reach size pos off a L → op.Valid off size → a.step op = .ok (a', o) →
      Reach size pos off a' (L.step op o)

theorem reach_inv {size pos off : Nat} {a : CBA} {L : Ledger} (h : Reach size pos off a L) :
    ∃ bs, Inv a bs ∧ L.Matches bs ∧ a.off = off ∧ a.size = size ∧ a.pos = pos + off := by
  induction h with
  | init hinit =>
    obtain ⟨hi, ho, hs, hp⟩ := inv_init hinit
    exact ⟨_, hi, by intro x n; simp, ho, hs, hp⟩
  | step _ hv e ih =>
    obtain ⟨bs, hi, hL, ho, hs, hp⟩ := ih
    obtain ⟨a1, o1, bs1, e1, h1, hL1, hf1, _⟩ := step_good hi hL (by rw [ho, hs]; exact hv)
    rw [e] at e1
    simp only [Except.ok.injEq, Prod.mk.injEq] at e1
    obtain ⟨rfl, rfl⟩ := e1
    exact ⟨bs1, h1, hL1, hf1.1.trans ho, hf1.2.1.trans hs, hf1.2.2.trans hp⟩

/-- `Reach` is exactly "the result of running a valid history from a fresh allocator" -/
theorem reach_of_run {size pos off : Nat} {a : CBA} {L : Ledger} (h : Reach size pos off a L)
    (ops : List Op) (hv : ValidOps off size ops) {a' : CBA} {outs : List Out}
    (e : a.run ops = .ok (a', outs)) : Reach size pos off a' (L.run ops outs) := by
  induction ops generalizing a L outs with
  | nil =>
    simp only [CBA.run, pure, Except.pure, Except.ok.injEq, Prod.mk.injEq] at e
    obtain ⟨rfl, rfl⟩ := e; exact h
  | cons op ops ih =>
    simp only [CBA.run, bind, Except.bind] at e
    cases e1 : a.step op with
    | error err => rw [e1] at e; simp at e
    | ok r =>
      obtain ⟨a1, o⟩ := r
      rw [e1] at e
      simp only [] at e
      cases e2 : a1.run ops with
      | error err => rw [e2] at e; simp at e
      | ok r2 =>
        obtain ⟨a2, os⟩ := r2
        rw [e2] at e
        simp only [pure, Except.pure, Except.ok.injEq, Prod.mk.injEq] at e
        obtain ⟨rfl, rfl⟩ := e
        exact ih (Reach.step h (hv op (by simp)) e1) (fun op' hop => hv op' (by simp [hop])) e2

/-! ### corollaries, stated on reachable states -/

/-- `alloc` and `free` never raise on a reachable state (inside the domain) -/
theorem alloc_free_never_raise {size pos off : Nat} {a : CBA} {L : Ledger}
    (h : Reach size pos off a L) {op : Op} (hv : op.Valid off size) :
    ∃ a' o, a.step op = .ok (a', o) := by
  obtain ⟨bs, hi, hL, ho, hs, hp⟩ := reach_inv h
  obtain ⟨a1, o1, _, e1, _⟩ := step_good hi hL (op := op) (by rw [ho, hs]; exact hv)
  exact ⟨a1, o1, e1⟩

/-- a range handed out lies inside the client's partition `[pos+off, off+size)` -/
theorem alloc_in_partition {size pos off : Nat} {a a' : CBA} {L : Ledger}
    (h : Reach size pos off a L) {n k x : Nat} (hn : 0 < n)
    (e : a.alloc n k = .ok (a', some x)) : pos + off ≤ x ∧ x + n ≤ off + size := by
  obtain ⟨bs, hi, hL, ho, hs, hp⟩ := reach_inv h
  obtain ⟨a1, o1, _, e1, _, _, _, hok⟩ := step_good hi hL (op := .alloc n k) hn
  simp only [CBA.step, e, bind, Except.bind, pure, Except.pure, Except.ok.injEq, Prod.mk.injEq] at e1
  obtain ⟨_, rfl⟩ := e1
  rw [ho, hs, hp] at hok
  exact ⟨hok.1, hok.2.1⟩

/-- a range handed out overlaps no live range -/
theorem alloc_disjoint_from_live {size pos off : Nat} {a a' : CBA} {L : Ledger}
    (h : Reach size pos off a L) {n k x : Nat} (hn : 0 < n)
    (e : a.alloc n k = .ok (a', some x)) : ∀ r ∈ L, Disjoint x n r.1 r.2 := by
  obtain ⟨bs, hi, hL, ho, hs, hp⟩ := reach_inv h
  obtain ⟨a1, o1, _, e1, _, _, _, hok⟩ := step_good hi hL (op := .alloc n k) hn
  simp only [CBA.step, e, bind, Except.bind, pure, Except.pure, Except.ok.injEq, Prod.mk.injEq] at e1
  obtain ⟨_, rfl⟩ := e1
  exact hok.2.2

/-- "no space" is reported only when no free run of the requested length exists -/
theorem no_space_only_if_no_run {size pos off : Nat} {a a' : CBA} {L : Ledger}
    (h : Reach size pos off a L) {n k : Nat} (hn : 0 < n)
    (e : a.alloc n k = .ok (a', none)) : ∀ x, ¬ FreeRun L (pos + off) (off + size) x n := by
  obtain ⟨bs, hi, hL, ho, hs, hp⟩ := reach_inv h
  obtain ⟨a1, o1, _, e1, _, _, _, hok⟩ := step_good hi hL (op := .alloc n k) hn
  simp only [CBA.step, e, bind, Except.bind, pure, Except.pure, Except.ok.injEq, Prod.mk.injEq] at e1
  obtain ⟨_, rfl⟩ := e1
  rw [ho, hs, hp] at hok
  exact hok

/-- completeness: whenever a free run of length `n` exists, `alloc(n)` succeeds — for every
    choice oracle -/
theorem free_run_is_allocatable {size pos off : Nat} {a : CBA} {L : Ledger}
    (h : Reach size pos off a L) {n x : Nat} (hn : 0 < n)
    (hrun : FreeRun L (pos + off) (off + size) x n) (k : Nat) :
    ∃ a' y, a.alloc n k = .ok (a', some y) := by
  obtain ⟨a1, o1, e1⟩ := alloc_free_never_raise h (op := .alloc n k) hn
  simp only [CBA.step, bind, Except.bind] at e1
  cases e : a.alloc n k with
  | error err => rw [e] at e1; simp at e1
  | ok r =>
    obtain ⟨a', r⟩ := r
    cases r with
    | some y => exact ⟨a', y, rfl⟩
    | none => exact absurd hrun (no_space_only_if_no_run h hn e x)

/-- live ranges are pairwise non-overlapping and inside the partition -/
theorem live_ranges_disjoint {size pos off : Nat} {a : CBA} {L : Ledger}
    (h : Reach size pos off a L) :
    (∀ r ∈ L, pos + off ≤ r.1 ∧ r.1 + r.2 ≤ off + size ∧ 0 < r.2) ∧
    (∀ r ∈ L, ∀ r' ∈ L, r ≠ r' → Disjoint r.1 r.2 r'.1 r'.2) := by
  obtain ⟨bs, hi, hL, ho, hs, hp⟩ := reach_inv h
  have ht := hi.tiles
  rw [ho, hs, hp] at ht
  constructor
  · intro r hr
    have := tiles_mem ht ((hL r.1 r.2).mp (by cases r; exact hr))
    exact this
  · intro r hr r' hr' hne
    have h1 := (hL r.1 r.2).mp (by cases r; exact hr)
    have h2 := (hL r'.1 r'.2).mp (by cases r'; exact hr')
    have := tiles_disjoint ht h1 h2 (by
      intro e; simp only [Block.mk.injEq, and_true] at e
      exact hne (by cases r; cases r'; simp_all))
    exact this

/-- `free` of a live range makes it available again (whatever its neighbours are: the state
    after `free` satisfies `Inv`, in particular no two neighbouring blocks are both free) -/
theorem free_coalesces_and_reusable {size pos off : Nat} {a a' : CBA} {L : Ledger}
    (h : Reach size pos off a L) {x m : Nat} (hx : (x, m) ∈ L)
    (e : a.free (some x) = .ok a') :
    (∃ bs', Inv a' bs' ∧ NoAdjFree bs') ∧
    ∀ n k, 0 < n → n ≤ m → ∃ a'' y, a'.alloc n k = .ok (a'', some y) := by
  have hlive := live_ranges_disjoint h
  have hb := hlive.1 _ hx
  simp only at hb
  have hv : (Op.free (some x)).Valid off size := trivial
  have e' : a.step (.free (some x)) = .ok (a', .unit) := by
    simp only [CBA.step, e, bind, Except.bind, pure, Except.pure]
  have h' := Reach.step h hv e'
  obtain ⟨bs', hi', _⟩ := reach_inv h'
  refine ⟨⟨bs', hi', hi'.noAdj⟩, ?_⟩
  intro n k hn hle
  refine free_run_is_allocatable h' hn (x := x) ⟨hb.1, by omega, ?_⟩ k
  intro r hr
  simp only [Ledger.step, List.mem_filter, bne_iff_ne, ne_eq] at hr
  have := hlive.2 _ hx r hr.1 (by intro e; rw [← e] at hr; exact hr.2 rfl)
  simp only [Disjoint] at this ⊢
  omega

/-- freeing the same address twice: the second `free` changes nothing -/
theorem double_free_noop {size pos off : Nat} {a a' : CBA} {L : Ledger}
    (h : Reach size pos off a L) {x : Nat}
    (e : a.free (some x) = .ok a') : a'.free (some x) = .ok a' := by
  obtain ⟨bs, hi, hL, ho, hs, hp⟩ := reach_inv h
  obtain ⟨a1, bs1, e1, hi1, hf1, hu⟩ := free_inv hi (x := x)
  rw [e] at e1
  simp only [Except.ok.injEq] at e1
  subst e1
  refine free_noop hi1.toWInv ?_
  intro u hu1 huu
  exact ((hu u huu).mp hu1).2

/-- `free(None)` and `free` of an address at which no live range starts change nothing -/
theorem free_not_live_noop {size pos off : Nat} {a : CBA} {L : Ledger}
    (h : Reach size pos off a L) :
    a.free none = .ok a ∧
    ∀ x, (∀ m, (x, m) ∉ L) → a.free (some x) = .ok a := by
  refine ⟨rfl, ?_⟩
  intro x hno
  obtain ⟨bs, hi, hL, ho, hs, hp⟩ := reach_inv h
  refine free_noop hi.toWInv ?_
  intro u hu huu e
  refine hno u.size ((hL x u.size).mpr ?_)
  have : u = ⟨x, u.size, true⟩ := by cases u; simp_all
  rw [← this]; exact hu

/-- quantifying over the oracle index `k` covers every behaviour of `bi.choice`: each element of
    a candidate set is selected by some `k` -/
theorem choice_oracle_covers_every_candidate {l : List Nat} {st : Nat} (h : st ∈ l) :
    ∃ k, pick l k = some st := pick_surjective h

/-- `blocks()` returns exactly the live ranges (as used blocks, in address order) -/
theorem blocks_are_live_ranges {size pos off : Nat} {a : CBA} {L : Ledger}
    (h : Reach size pos off a L) :
    (∀ x n, (⟨x, n, true⟩ : Block) ∈ a.blocks ↔ (x, n) ∈ L) ∧
    (∀ b ∈ a.blocks, b.used = true) ∧
    a.blocks.Pairwise (fun b c => b.start + b.size ≤ c.start) := by
  obtain ⟨bs, hi, hL, ho, hs, hp⟩ := reach_inv h
  rw [blocks_eq hi.toWInv]
  refine ⟨fun x n => by rw [hL x n]; simp, fun b hb => by simpa using (List.mem_filter.mp hb).2, ?_⟩
  apply List.Pairwise.filter
  have : ∀ (l : List Block) lo hi, Tiles l lo hi → l.Pairwise (fun b c => b.start + b.size ≤ c.start) := by
    intro l
    induction l with
    | nil => intros; exact List.Pairwise.nil
    | cons b l ih =>
      intro lo hi ht
      obtain ⟨h1, h2, h3⟩ := ht
      refine List.Pairwise.cons ?_ (ih _ _ h3)
      intro c hc
      have := tiles_mem h3 hc; omega
  exact this _ _ _ hi.tiles

/-! ## NodeIDAllocator -/

/-- Node ids lie in the requesting client's id range: `user·2^26 + init ≤ id < (user+1)·2^26`,
    for every number of allocations (wrap-around included). -/
theorem node_id_in_client_range {user i0 : Nat} {a : NIA} (hinit : NIA.init user (i0 : Int) = some a)
    (hi : i0 ≤ 0x03FFFFFF) (n : Nat) :
    ∀ x ∈ (a.allocs n).2, ∃ v, x = some v ∧ user * 2 ^ 26 + i0 ≤ v ∧ v < (user + 1) * 2 ^ 26 := by
  have hat := NIA.init_at hinit hi
  rw [(NIA.allocs_at hat n).1]
  intro x hx
  simp only [List.mem_map, List.mem_range] at hx
  obtain ⟨i, _, rfl⟩ := hx
  have hlt : (0 + i) % window i0 < window i0 := Nat.mod_lt _ (by unfold window; omega)
  refine ⟨_, rfl, ?_⟩
  generalize (0 + i) % window i0 = q at hlt ⊢
  unfold window at hlt
  rw [idOf_eq (by omega)]
  constructor
  · omega
  · have : (user + 1) * 2 ^ 26 = user * 2 ^ 26 + 2 ^ 26 := by rw [Nat.add_mul]; simp
    omega

/-- The `i`-th id handed out (from a fresh allocator) in closed form. -/
theorem node_id_closed_form {user i0 : Nat} {a : NIA} (hinit : NIA.init user (i0 : Int) = some a)
    (hi : i0 ≤ 0x03FFFFFF) (n i : Nat) (hin : i < n) :
    (a.allocs n).2[i]? = some (some (user * 2 ^ 26 + (i0 + i % window i0))) := by
  have hat := NIA.init_at hinit hi
  rw [(NIA.allocs_at hat n).1]
  have hlt : i % window i0 < window i0 := Nat.mod_lt _ (by unfold window; omega)
  simp only [List.getElem?_map, List.getElem?_range hin, Option.map_some, Nat.zero_add]
  generalize i % window i0 = q at hlt ⊢
  unfold window at hlt
  rw [idOf_eq (by omega)]

/-- Ids handed out by any `W = 0x03FFFFFF − init + 1` consecutive allocations are pairwise
    distinct (`i < j < i + W`), wherever the window lies in the history. -/
theorem node_ids_distinct_in_window {user i0 : Nat} {a : NIA} (hinit : NIA.init user (i0 : Int) = some a)
    (hi : i0 ≤ 0x03FFFFFF) (n i j : Nat) (hij : i < j) (hjn : j < n) (hw : j - i < window i0) :
    (a.allocs n).2[i]? ≠ (a.allocs n).2[j]? := by
  rw [node_id_closed_form hinit hi n i (by omega), node_id_closed_form hinit hi n j hjn]
  intro e
  simp only [Option.some.injEq] at e
  have e' : i % window i0 = j % window i0 := by omega
  have h1 := Nat.sub_mod_eq_zero_of_mod_eq e'.symm
  rw [Nat.mod_eq_of_lt hw] at h1
  omega

/-- The window is tight: the id repeats exactly `W` allocations later. -/
theorem node_id_repeats_after_window {user i0 : Nat} {a : NIA} (hinit : NIA.init user (i0 : Int) = some a)
    (hi : i0 ≤ 0x03FFFFFF) (n i : Nat) (hin : i + window i0 < n) :
    (a.allocs n).2[i + window i0]? = (a.allocs n).2[i]? := by
  rw [node_id_closed_form hinit hi n i (by omega), node_id_closed_form hinit hi n _ hin]
  simp

/-- Ids of different clients never coincide. -/
theorem node_ids_disjoint_across_clients {u1 u2 i1 i2 : Nat} {a1 a2 : NIA}
    (h1 : NIA.init u1 (i1 : Int) = some a1) (h2 : NIA.init u2 (i2 : Int) = some a2)
    (hi1 : i1 ≤ 0x03FFFFFF) (hi2 : i2 ≤ 0x03FFFFFF) (hne : u1 ≠ u2) (n m : Nat) :
    ∀ x ∈ (a1.allocs n).2, ∀ y ∈ (a2.allocs m).2, x ≠ y := by
  intro x hx y hy e
  obtain ⟨v, rfl, hv1, hv2⟩ := node_id_in_client_range h1 hi1 n x hx
  obtain ⟨w, rfl, hw1, hw2⟩ := node_id_in_client_range h2 hi2 m y hy
  simp only [Option.some.injEq] at e
  subst e
  rcases Nat.lt_or_gt_of_ne hne with hlt | hlt
  · have : (u1 + 1) * 2 ^ 26 ≤ u2 * 2 ^ 26 := Nat.mul_le_mul_right _ hlt
    omega
  · have : (u2 + 1) * 2 ^ 26 ≤ u1 * 2 ^ 26 := Nat.mul_le_mul_right _ hlt
    omega

/-! ## per-client partitions (`Server._new_bus_allocators`, `_new_buffer_allocators`; the
definitions `busAllocArgs`, `bufferAllocArgs`, `nodeAllocArgs` are REGENERATED from server.py) -/

theorem fdiv_bounds {t L c : Int} (hL : 0 < L) (ht : 0 ≤ t) (hc : 0 ≤ c ∧ c < L) :
    0 ≤ Int.fdiv t L ∧ 0 ≤ Int.fdiv t L * c ∧ Int.fdiv t L * c + Int.fdiv t L ≤ t := by
  rw [Int.fdiv_eq_ediv_of_nonneg _ (le_of_lt hL)]
  have h1 : 0 ≤ t / L := Int.ediv_nonneg ht (le_of_lt hL)
  have h2 : t / L * L ≤ t := Int.ediv_mul_le t (ne_of_gt hL)
  refine ⟨h1, by nlinarith [hc.1], ?_⟩
  nlinarith [hc.2, mul_le_mul_of_nonneg_left (show c + 1 ≤ L by omega) h1]

theorem fdiv_step {t L c1 c2 : Int} (hL : 0 < L) (ht : 0 ≤ t) (hc : c1 < c2) :
    Int.fdiv t L * c1 + Int.fdiv t L ≤ Int.fdiv t L * c2 := by
  rw [Int.fdiv_eq_ediv_of_nonneg _ (le_of_lt hL)]
  have h1 : 0 ≤ t / L := Int.ediv_nonneg ht (le_of_lt hL)
  nlinarith [mul_le_mul_of_nonneg_left (show c1 + 1 ≤ c2 by omega) h1]

/-- a sensible server configuration -/
structure Opts.Ok (o : Opts) : Prop where
  logins : 0 < o.max_logins
  client : 0 ≤ o.client_id ∧ o.client_id < o.max_logins
  io : 0 ≤ firstPrivateBus o ∧ firstPrivateBus o ≤ o.audio_buses
  ctrl : 0 ≤ o.control_buses
  bufs : 0 ≤ o.buffers

/-- the same server seen by another client -/
def Opts.withClient (o : Opts) (c : Int) : Opts := { o with client_id := c }

/-- the range `[addr_offset, addr_offset + size)` a client's allocator works in lies inside the
    server's resource: control buses `[0, control_buses)`, private audio buses
    `[first_private_bus, audio_buses)`, buffers `[0, buffers)` -/
theorem partition_inside_total (o : Opts) (h : o.Ok) :
    (0 ≤ (busAllocArgs o).1.1 ∧ 0 ≤ (busAllocArgs o).1.2.2 ∧
      (busAllocArgs o).1.2.2 + (busAllocArgs o).1.1 ≤ o.control_buses) ∧
    (0 ≤ (busAllocArgs o).2.1 ∧ firstPrivateBus o ≤ (busAllocArgs o).2.2.2 ∧
      (busAllocArgs o).2.2.2 + (busAllocArgs o).2.1 ≤ o.audio_buses) ∧
    (0 ≤ (bufferAllocArgs o).1 ∧ 0 ≤ (bufferAllocArgs o).2.2 ∧
      (bufferAllocArgs o).2.2 + (bufferAllocArgs o).1 ≤ o.buffers) := by
  have hc := fdiv_bounds h.logins h.ctrl h.client
  have ha := fdiv_bounds (t := o.audio_buses - firstPrivateBus o) h.logins (by have := h.io; omega) h.client
  have hb := fdiv_bounds h.logins h.bufs h.client
  simp only [busAllocArgs, bufferAllocArgs]
  refine ⟨⟨hc.1, hc.2.1, hc.2.2⟩, ⟨ha.1, ?_, ?_⟩, ⟨hb.1, hb.2.1, hb.2.2⟩⟩
  · have := ha.2.1; omega
  · have := ha.2.2; omega

/-- different client ids get disjoint ranges: client `c1 < c2` ends before `c2` begins; the
    partition size and reserved offset do not depend on the client -/
theorem partitions_disjoint (o : Opts) (h : o.Ok) (c1 c2 : Int) (hc : c1 < c2) :
    let o1 := o.withClient c1; let o2 := o.withClient c2
    ((busAllocArgs o1).1.2.2 + (busAllocArgs o1).1.1 ≤ (busAllocArgs o2).1.2.2 ∧
      (busAllocArgs o1).1.1 = (busAllocArgs o2).1.1 ∧ (busAllocArgs o1).1.2.1 = (busAllocArgs o2).1.2.1) ∧
    ((busAllocArgs o1).2.2.2 + (busAllocArgs o1).2.1 ≤ (busAllocArgs o2).2.2.2 ∧
      (busAllocArgs o1).2.1 = (busAllocArgs o2).2.1 ∧ (busAllocArgs o1).2.2.1 = (busAllocArgs o2).2.2.1) ∧
    ((bufferAllocArgs o1).2.2 + (bufferAllocArgs o1).1 ≤ (bufferAllocArgs o2).2.2 ∧
      (bufferAllocArgs o1).1 = (bufferAllocArgs o2).1 ∧ (bufferAllocArgs o1).2.1 = (bufferAllocArgs o2).2.1) := by
  have h1 := fdiv_step (t := o.control_buses) h.logins h.ctrl hc
  have h2 := fdiv_step (t := o.audio_buses - firstPrivateBus o) h.logins (by have := h.io; omega) hc
  have h3 := fdiv_step (t := o.buffers) h.logins h.bufs hc
  simp only [busAllocArgs, bufferAllocArgs, Opts.withClient, firstPrivateBus] at *
  refine ⟨⟨h1, trivial, trivial⟩, ⟨by omega, trivial, trivial⟩, ⟨h3, trivial, trivial⟩⟩

/-- the node allocator is created for the client id with `initial_node_id` as first id -/
theorem node_alloc_args (o : Opts) : nodeAllocArgs o = (o.client_id, o.initial_node_id) := rfl

/-- Two clients of one server never receive overlapping bus/buffer ranges, whatever their
    histories: an allocator built from any `(size, pos, addr_offset)` only hands out ranges in
    `[addr_offset + pos, addr_offset + size)`, and `partitions_disjoint` orders these intervals. -/
theorem clients_never_collide {size pos off1 off2 : Nat} (hdis : off1 + size ≤ off2)
    {a1 a2 a1' a2' : CBA} {L1 L2 : Ledger}
    (h1 : Reach size pos off1 a1 L1) (h2 : Reach size pos off2 a2 L2)
    {n1 k1 x1 n2 k2 x2 : Nat} (hn1 : 0 < n1) (hn2 : 0 < n2)
    (e1 : a1.alloc n1 k1 = .ok (a1', some x1)) (e2 : a2.alloc n2 k2 = .ok (a2', some x2)) :
    x1 + n1 ≤ x2 := by
  have p1 := alloc_in_partition h1 hn1 e1
  have p2 := alloc_in_partition h2 hn2 e2
  omega

/-! ## Non-vacuity: concrete histories evaluated by the kernel -/

/-- the failing input of D7 (offset 21): after the repair the freed block merges with the free
    top block and `alloc 7` succeeds -/
example : (do let a ← (CBA.init 7 0 21).elim (.error .index) .ok
              let r ← a.run [.alloc 2 3, .free (some 21), .alloc 7 0]
              pure r.2 : M (List Out))
    = .ok [.addr (some 21), .unit, .addr (some 21)] := by decide

/-- the failing input of D-C16-1: `free(4)` on an allocator whose range starts at 13 is ignored;
    before the repair it freed the live block at 17 -/
example : (do let a ← (CBA.init 13 4 13).elim (.error .index) .ok
              let r ← a.run [.alloc 1 0, .free (some 4), .alloc 3 0]
              pure r.2 : M (List Out))
    = .ok [.addr (some 17), .unit, .addr (some 18)] := by decide

/-- a history with split, exact fit from the freed dict, merge with previous and next, a double
    free, a free of an interior address, free(None) and a "no space" answer -/
def exampleOps : List Op :=
  [.alloc 2 0, .alloc 2 0, .alloc 2 0, .alloc 2 0, .alloc 1 0, .free (some 10), .free (some 10),
   .free (some 14), .free (some 12), .alloc 6 0, .alloc 7 0, .free none, .free (some 11),
   .alloc 2 1, .alloc 1 0]

example : ((CBA.init 8 0 8).bind fun a => (a.run exampleOps).toOption.map (·.2))
    = some [.addr (some 8), .addr (some 10), .addr (some 12), .addr (some 14), .addr none, .unit, .unit,
       .unit, .unit, .addr (some 10), .addr none, .unit, .unit, .addr none, .addr none] := by decide

example : ValidOps 8 8 exampleOps := by
  intro op hop
  simp only [exampleOps, List.mem_cons, List.not_mem_nil, or_false] at hop
  rcases hop with rfl | rfl | rfl | rfl | rfl | rfl | rfl | rfl | rfl | rfl | rfl | rfl | rfl | rfl | rfl <;>
    simp [Op.Valid]

example : ∃ a, Reach 8 0 8 a [] := ⟨_, Reach.init (a := (CBA.init 8 0 8).get rfl) (by decide)⟩

/-- node ids: client 3, first id 0x03FFFFFE: two ids, then wrap-around -/
example : ((NIA.init 3 0x03FFFFFE).map fun a => (a.allocs 4).2)
    = some [some 268435454, some 268435455, some 268435454, some 268435455] := by decide

/-- OBSERVATION (noted, not claimed by C16; see design.d/C16.md): `Server._make_default_groups`
    gives client `c` the default group id `num_ids·c + 1` with `num_ids = (2^31 − 1) / 64 = 2^25 − 1`,
    while the node id window of a client is `2^26` wide.  The default group of client 1
    (`33554432`) therefore lies inside the window of client 0, which hands out exactly that id as
    its 33 553 433rd temporary id. -/
example : ∀ a, NIA.init 0 1000 = some a →
    (a.allocs 33553433).2[33553432]? = some (some ((2 ^ 25 - 1) * 1 + 1)) := by
  intro a h
  have := node_id_closed_form (user := 0) (i0 := 1000) (a := a) h (by decide) 33553433 33553432 (by decide)
  rw [this]; decide

/-- default options of sc3 (1024 audio buses, 2 in + 2 out, 16384 control buses, 1024 buffers),
    4 logins, client 2 -/
example : busAllocArgs ⟨16384, 1024, 1024, 2, 2, 4, 0, 0, 0, 2, 1000⟩ = ((4096, 0, 8192), (255, 0, 514)) ∧
    bufferAllocArgs ⟨16384, 1024, 1024, 2, 2, 4, 0, 0, 0, 2, 1000⟩ = (256, 0, 512) := by decide

example : Opts.Ok ⟨16384, 1024, 1024, 2, 2, 4, 0, 0, 0, 2, 1000⟩ :=
  ⟨by decide, by decide, by decide, by decide, by decide⟩

end Sc3Verif.C16
