/-
C16 — helper lemmas: list algebra of `render`, evaluation of the array primitives on a
rendered block list, the `_freed` dict, and preservation of the invariant by every phase of
`alloc` and `free`.
-/
import Sc3Verif.C16.Spec
namespace Sc3Verif.C16

/-! ### Tiles -/

theorem tiles_append {l1 l2 : List Block} {lo hi : Nat} :
    Tiles (l1 ++ l2) lo hi ↔ ∃ mid, Tiles l1 lo mid ∧ Tiles l2 mid hi := by
  induction l1 generalizing lo with
  | nil => simp [Tiles]
  | cons b l ih =>
    simp only [List.cons_append, Tiles, ih]
    constructor
    · rintro ⟨h1, h2, mid, h3, h4⟩; exact ⟨mid, ⟨h1, h2, h3⟩, h4⟩
    · rintro ⟨mid, ⟨h1, h2, h3⟩, h4⟩; exact ⟨h1, h2, mid, h3, h4⟩

theorem tiles_le {l : List Block} {lo hi : Nat} (h : Tiles l lo hi) : lo ≤ hi := by
  induction l generalizing lo with
  | nil => simp [Tiles] at h; omega
  | cons b l ih => obtain ⟨_, _, h3⟩ := h; have := ih h3; omega

theorem tiles_mem {l : List Block} {lo hi : Nat} (h : Tiles l lo hi) {b : Block} (hb : b ∈ l) :
    lo ≤ b.start ∧ b.start + b.size ≤ hi ∧ 0 < b.size := by
  induction l generalizing lo with
  | nil => simp at hb
  | cons c l ih =>
    obtain ⟨h1, h2, h3⟩ := h
    rcases List.mem_cons.mp hb with rfl | hb'
    · have := tiles_le h3; omega
    · have := ih h3 hb'; omega

/-- two blocks of a tiling with the same start are the same block -/
theorem tiles_start_inj {l : List Block} {lo hi : Nat} (h : Tiles l lo hi) {b c : Block}
    (hb : b ∈ l) (hc : c ∈ l) (e : b.start = c.start) : b = c := by
  induction l generalizing lo with
  | nil => simp at hb
  | cons d l ih =>
    obtain ⟨h1, h2, h3⟩ := h
    rcases List.mem_cons.mp hb with rfl | hb' <;> rcases List.mem_cons.mp hc with rfl | hc'
    · rfl
    · have := tiles_mem h3 hc'; omega
    · have := tiles_mem h3 hb'; omega
    · exact ih h3 hb' hc'

theorem tiles_single {b : Block} {lo hi : Nat} :
    Tiles [b] lo hi ↔ b.start = lo ∧ 0 < b.size ∧ lo + b.size = hi := by
  simp [Tiles]

/-- decomposition at a member -/
theorem tiles_split {pre post : List Block} {b : Block} {lo hi : Nat}
    (h : Tiles (pre ++ b :: post) lo hi) :
    Tiles pre lo b.start ∧ 0 < b.size ∧ Tiles post (b.start + b.size) hi := by
  obtain ⟨mid, h1, h2, h3, h4⟩ := tiles_append.mp h
  subst h2; exact ⟨h1, h3, h4⟩

theorem tiles_join {pre post : List Block} {b : Block} {lo hi : Nat}
    (h1 : Tiles pre lo b.start) (h2 : 0 < b.size) (h3 : Tiles post (b.start + b.size) hi) :
    Tiles (pre ++ b :: post) lo hi :=
  tiles_append.mpr ⟨b.start, h1, rfl, h2, h3⟩

/-- every address of the tiled interval lies in exactly one block -/
theorem tiles_cover {l : List Block} {lo hi : Nat} (h : Tiles l lo hi) {x : Nat}
    (hx : lo ≤ x ∧ x < hi) :
    ∃ pre b post, l = pre ++ b :: post ∧ b.start ≤ x ∧ x < b.start + b.size := by
  induction l generalizing lo with
  | nil => simp [Tiles] at h; omega
  | cons c l ih =>
    obtain ⟨h1, h2, h3⟩ := h
    by_cases hc : x < lo + c.size
    · exact ⟨[], c, l, rfl, by omega, by omega⟩
    · obtain ⟨pre, b, post, e, hb⟩ := ih h3 ⟨by omega, hx.2⟩
      exact ⟨c :: pre, b, post, by simp [e], hb⟩

/-- two different blocks of a tiling do not overlap -/
theorem tiles_disjoint {l : List Block} {lo hi : Nat} (h : Tiles l lo hi) {b c : Block}
    (hb : b ∈ l) (hc : c ∈ l) (hne : b ≠ c) : Disjoint b.start b.size c.start c.size := by
  obtain ⟨pre, post, rfl⟩ := List.append_of_mem hb
  have hs := tiles_split h
  rcases List.mem_append.mp hc with h1 | h1
  · have := tiles_mem hs.1 h1; right; omega
  · rcases List.mem_cons.mp h1 with h1 | h1
    · exact absurd h1.symm hne
    · have := tiles_mem hs.2.2 h1; left; omega

/-! ### NoAdjFree -/

theorem noAdj_cons {a : Block} {l : List Block} :
    NoAdjFree (a :: l) ↔ (∀ b, l.head? = some b → a.used = true ∨ b.used = true) ∧ NoAdjFree l := by
  cases l with
  | nil => simp [NoAdjFree]
  | cons b r => simp [NoAdjFree]

theorem noAdj_append {l1 l2 : List Block} :
    NoAdjFree (l1 ++ l2) ↔ NoAdjFree l1 ∧ NoAdjFree l2 ∧
      (∀ x y, l1.getLast? = some x → l2.head? = some y → x.used = true ∨ y.used = true) := by
  induction l1 with
  | nil => simp [NoAdjFree]
  | cons a l ih =>
    cases l with
    | nil =>
      cases l2 with
      | nil => simp [NoAdjFree]
      | cons y r => simp [NoAdjFree]; exact And.comm
    | cons b r =>
      have e : (a :: b :: r ++ l2) = a :: (b :: r ++ l2) := rfl
      rw [e, noAdj_cons, ih, noAdj_cons (l := b :: r)]
      simp only [List.cons_append, List.head?_cons, Option.some.injEq, forall_eq',
        List.getLast?_cons_cons]
      grind

/-- around a FREE block: both neighbours are used -/
theorem noAdj_around_free {pre post : List Block} {c : Block} (hc : c.used = false) :
    NoAdjFree (pre ++ c :: post) ↔
      NoAdjFree pre ∧ NoAdjFree post ∧ (∀ p, pre.getLast? = some p → p.used = true) ∧
        (∀ q, post.head? = some q → q.used = true) := by
  rw [noAdj_append, noAdj_cons]
  simp only [List.head?_cons, Option.some.injEq, hc, Bool.false_eq_true, false_or]
  grind

/-- around a USED block: nothing is required of the neighbours -/
theorem noAdj_around_used {pre post : List Block} {c : Block} (hc : c.used = true) :
    NoAdjFree (pre ++ c :: post) ↔ NoAdjFree pre ∧ NoAdjFree post := by
  rw [noAdj_append, noAdj_cons]
  simp [hc]

/-! ### list cells -/

theorem cellL_mid {P R : List (Option Block)} {c : Option Block} {off x : Nat}
    (h1 : off ≤ x) (h2 : P.length = x - off) : cellL (P ++ c :: R) off x = .ok c := by
  unfold cellL
  rw [if_neg (by omega), ← h2]
  simp

theorem setCellL_mid {P R : List (Option Block)} {c v : Option Block} {off x : Nat}
    (h1 : off ≤ x) (h2 : P.length = x - off) :
    setCellL (P ++ c :: R) off x v = .ok (P ++ v :: R) := by
  unfold setCellL
  rw [if_neg (by omega), ← h2, if_pos (by simp)]
  simp

theorem seg_length {b : Block} (h : 0 < b.size) : (seg b).length = b.size := by
  simp [seg]; omega

theorem flatMap_seg_length {l : List Block} {lo hi : Nat} (h : Tiles l lo hi) :
    (l.flatMap seg).length = hi - lo := by
  induction l generalizing lo with
  | nil => simp [Tiles] at h; simp [h]
  | cons b l ih =>
    obtain ⟨h1, h2, h3⟩ := h
    have := tiles_le h3
    simp [List.flatMap_cons, ih h3, seg_length h2]; omega

theorem render_length {l : List Block} {lo hi off : Nat} (h : Tiles l lo hi) (ho : off ≤ lo) :
    (render (lo - off) l).length = hi - off := by
  have := tiles_le h
  simp [render, flatMap_seg_length h]; omega

theorem render_decomp (lead : Nat) (pre post : List Block) (b : Block) :
    render lead (pre ++ b :: post) =
      render lead pre ++ some b :: (List.replicate (b.size - 1) none ++ post.flatMap seg) := by
  simp [render, seg, List.flatMap_append]

theorem render_decomp2 (lead : Nat) (pre post : List Block) (x y : Block) :
    render lead (pre ++ x :: y :: post) =
      render lead pre ++ some x :: (List.replicate (x.size - 1) none ++
        some y :: (List.replicate (y.size - 1) none ++ post.flatMap seg)) := by
  simp [render, seg, List.flatMap_append]

/-! ### the array primitives evaluated on a rendered block list -/

/-- the array is the rendering of `pre ++ b :: post`, which tiles `[pos, hi)` -/
structure ArrAt (arr : List (Option Block)) (off pos hi : Nat)
    (pre : List Block) (b : Block) (post : List Block) : Prop where
  offLe : off ≤ pos
  eq : arr = render (pos - off) (pre ++ b :: post)
  tiles : Tiles (pre ++ b :: post) pos hi

namespace ArrAt
variable {arr : List (Option Block)} {off pos hi : Nat} {pre post : List Block} {b : Block}

theorem preLen (h : ArrAt arr off pos hi pre b post) :
    (render (pos - off) pre).length = b.start - off ∧ off ≤ b.start ∧ pos ≤ b.start := by
  have ht := tiles_split h.tiles
  have := tiles_le ht.1
  exact ⟨render_length ht.1 h.offLe, by have := h.offLe; omega, this⟩

theorem cell (h : ArrAt arr off pos hi pre b post) : cellL arr off b.start = .ok (some b) := by
  rw [h.eq, render_decomp]
  exact cellL_mid h.preLen.2.1 h.preLen.1

theorem set (h : ArrAt arr off pos hi pre b post) (b' : Block) (hs : b'.size = b.size) :
    setCellL arr off b.start (some b') = .ok (render (pos - off) (pre ++ b' :: post)) := by
  rw [h.eq, render_decomp, render_decomp, hs]
  exact setCellL_mid h.preLen.2.1 h.preLen.1

end ArrAt

theorem findPrevFrom_skip {P0 R : List (Option Block)} {p : Block} {m off pos st : Nat}
    (h1 : off ≤ st) (h2 : P0.length = st - off) (h3 : pos ≤ st) (j : Nat) (hj : j ≤ m) :
    findPrevFrom (P0 ++ some p :: (List.replicate m none ++ R)) off pos (st + j + 1)
      = .ok (some p) := by
  induction j with
  | zero =>
    simp only [findPrevFrom]
    rw [if_neg (by omega), if_neg (by omega)]
    have : (P0 ++ some p :: (List.replicate m none ++ R))[st - off]? = some (some p) := by
      rw [← h2]; simp
    rw [this]
  | succ j ih =>
    have e : st + (j + 1) + 1 = (st + j + 1) + 1 := by omega
    rw [e, findPrevFrom]
    rw [if_neg (by omega), if_neg (by omega)]
    have : (P0 ++ some p :: (List.replicate m none ++ R))[st + j + 1 - off]? = some none := by
      have e2 : st + j + 1 - off = P0.length + (j + 1) := by omega
      rw [e2, List.getElem?_append_right (by omega)]
      simp only [Nat.add_sub_cancel_left, List.getElem?_cons_succ]
      rw [List.getElem?_append_left (by simp; omega)]
      simp [List.getElem?_replicate]; omega
    rw [this]
    exact ih (by omega)

theorem ArrAt.findPrev {arr : List (Option Block)} {off pos hi : Nat} {pre post : List Block}
    {b : Block} (h : ArrAt arr off pos hi pre b post) :
    findPrevFrom arr off pos b.start = .ok pre.getLast? := by
  rcases List.eq_nil_or_concat pre with rfl | ⟨pre0, p, rfl⟩
  · have ht := tiles_split h.tiles
    simp only [Tiles] at ht
    rw [← ht.1]
    cases pos with
    | zero => simp [findPrevFrom]
    | succ i => simp [findPrevFrom]
  · rw [List.concat_eq_append] at h ⊢
    have ht := h.tiles
    rw [List.append_assoc, List.singleton_append] at ht
    have hp := tiles_split ht
    simp only [Tiles] at hp
    have hlen := render_length hp.1 h.offLe
    have hle := tiles_le hp.1
    have hoff := h.offLe
    rw [h.eq, List.append_assoc, List.singleton_append, render_decomp]
    have e : b.start = p.start + (p.size - 1) + 1 := by omega
    rw [e, List.getLast?_concat]
    exact findPrevFrom_skip (by omega) hlen hle (p.size - 1) (Nat.le_refl _)

theorem ArrAt.next {arr : List (Option Block)} {off pos size : Nat} {pre post : List Block}
    {b : Block} (h : ArrAt arr off pos (off + size) pre b post) :
    (if b.start + b.size - off < size then cellL arr off (b.start + b.size) else .ok none)
      = .ok post.head? := by
  have hs := tiles_split h.tiles
  have hp := h.preLen
  cases post with
  | nil =>
    simp only [Tiles] at hs
    rw [if_neg (by omega)]; rfl
  | cons c post' =>
    simp only [Tiles] at hs
    have := tiles_le hs.2.2.2.2
    rw [if_pos (by omega)]
    have h' : ArrAt arr off pos (off + size) (pre ++ [b]) c post' :=
      ⟨h.offLe, by rw [h.eq]; simp, by have := h.tiles; simpa using this⟩
    rw [← hs.2.2.1]
    exact h'.cell

theorem replicate_glue (a b : Nat) :
    List.replicate a (none : Option Block) ++ none :: List.replicate b none
      = List.replicate (a + 1 + b) none := by
  rw [show (none : Option Block) :: List.replicate b none = List.replicate (1 + b) none by
    rw [Nat.add_comm, List.replicate_succ]]
  rw [List.replicate_append_replicate, Nat.add_assoc]

theorem ArrAt.mergeCells {arr : List (Option Block)} {off pos hi : Nat} {pre post : List Block}
    {x y : Block} (h : ArrAt arr off pos hi pre x (y :: post)) (t : Block)
    (ht : t.size = x.size + y.size) :
    ∃ arr1, setCellL arr off x.start (some t) = .ok arr1 ∧
      setCellL arr1 off y.start none = .ok (render (pos - off) (pre ++ t :: post)) := by
  have hs := tiles_split h.tiles
  simp only [Tiles] at hs
  have hp := h.preLen
  have e1 := h.eq
  rw [render_decomp2] at e1
  refine ⟨_, by rw [e1]; exact setCellL_mid hp.2.1 hp.1, ?_⟩
  · have e : ∀ (P : List (Option Block)) (a : Option Block) (L1 L2 : List (Option Block)),
        P ++ a :: (L1 ++ L2) = (P ++ a :: L1) ++ L2 := by intros; simp
    rw [e]
    rw [setCellL_mid (by omega) (by simp; omega)]
    rw [render_decomp, ht]
    congr 1
    simp only [List.append_assoc, List.cons_append]
    congr 2
    rw [← List.cons_append, ← List.append_assoc, replicate_glue]
    congr 2
    omega

theorem ArrAt.splitCells {arr : List (Option Block)} {off pos hi : Nat} {pre post : List Block}
    {b : Block} (h : ArrAt arr off pos hi pre b post) (n : Nat) (new lo : Block)
    (hn : 0 < n ∧ n < b.size) (h1 : new.size = n) (h2 : lo.size = b.size - n) :
    ∃ arr1, setCellL arr off b.start (some new) = .ok arr1 ∧
      setCellL arr1 off (b.start + n) (some lo)
        = .ok (render (pos - off) (pre ++ new :: lo :: post)) := by
  have hp := h.preLen
  have e1 := h.eq
  rw [render_decomp] at e1
  refine ⟨_, by rw [e1]; exact setCellL_mid hp.2.1 hp.1, ?_⟩
  · have e : List.replicate (b.size - 1) (none : Option Block)
        = List.replicate (n - 1) none ++ none :: List.replicate (b.size - n - 1) none := by
      rw [replicate_glue]; congr 1; omega
    rw [e]
    have e2 : ∀ (P : List (Option Block)) (a c : Option Block) (L1 L2 L3 : List (Option Block)),
        P ++ a :: ((L1 ++ c :: L2) ++ L3) = (P ++ a :: L1) ++ c :: (L2 ++ L3) := by intros; simp
    rw [e2, setCellL_mid (by omega) (by simp; omega), render_decomp2, h1, h2]
    simp

/-! ### the `_freed` dict -/

theorem inFreed_add (f : Freed) (b : Block) (sz st : Nat) :
    inFreed (addFreed f b) sz st ↔ inFreed f sz st ∨ (sz = b.size ∧ st = b.start) := by
  unfold addFreed inFreed
  split
  · rename_i hany
    simp only [List.any_eq_true, beq_iff_eq] at hany
    obtain ⟨p0, hp0, hp0s⟩ := hany
    constructor
    · rintro ⟨l, hl, hst⟩
      simp only [List.mem_map] at hl
      obtain ⟨⟨k, l0⟩, hp, e⟩ := hl
      by_cases hk : k = b.size
      · subst hk
        simp only [beq_self_eq_true, if_true, Prod.mk.injEq] at e
        obtain ⟨rfl, rfl⟩ := e
        by_cases hm : b.start ∈ l0
        · simp only [hm, if_true] at hst
          left; exact ⟨l0, hp, hst⟩
        · simp only [hm, if_false, List.mem_append, List.mem_singleton] at hst
          rcases hst with h | h
          · left; exact ⟨l0, hp, h⟩
          · right; exact ⟨rfl, h⟩
      · have : (k == b.size) = false := by simpa using hk
        simp only [this, Bool.false_eq_true, if_false, Prod.mk.injEq] at e
        obtain ⟨rfl, rfl⟩ := e
        left; exact ⟨l0, hp, hst⟩
    · rintro (⟨l, hl, hst⟩ | ⟨rfl, rfl⟩)
      · by_cases hk : sz = b.size
        · refine ⟨if b.start ∈ l then l else l ++ [b.start], ?_, by split <;> simp [hst]⟩
          simp only [List.mem_map]
          exact ⟨(sz, l), hl, by simp [hk]⟩
        · refine ⟨l, ?_, hst⟩
          simp only [List.mem_map]
          exact ⟨(sz, l), hl, by simp [hk]⟩
      · refine ⟨if b.start ∈ p0.2 then p0.2 else p0.2 ++ [b.start], ?_, by split <;> simp_all⟩
        simp only [List.mem_map]
        exact ⟨p0, hp0, by simp [hp0s]⟩
  · rename_i hany
    simp only [List.any_eq_true, beq_iff_eq, not_exists, not_and] at hany
    simp only [List.mem_append, List.mem_singleton, Prod.mk.injEq]
    constructor
    · rintro ⟨l, (hl | ⟨rfl, rfl⟩), hst⟩
      · left; exact ⟨l, hl, hst⟩
      · right; simpa using hst
    · rintro (⟨l, hl, hst⟩ | ⟨rfl, rfl⟩)
      · exact ⟨l, Or.inl hl, hst⟩
      · exact ⟨[b.start], Or.inr ⟨rfl, rfl⟩, by simp⟩

theorem inFreed_remove (f : Freed) (b : Block) (sz st : Nat) :
    inFreed (removeFreed f b) sz st ↔ inFreed f sz st ∧ ¬(sz = b.size ∧ st = b.start) := by
  unfold removeFreed inFreed
  simp only [List.mem_filterMap]
  constructor
  · rintro ⟨l, ⟨⟨k, l0⟩, hp, e⟩, hst⟩
    by_cases hk : k = b.size
    · subst hk
      simp only [beq_self_eq_true, if_true] at e
      split at e
      · simp at e
      · simp only [Option.some.injEq, Prod.mk.injEq] at e
        obtain ⟨rfl, rfl⟩ := e
        simp only [List.mem_filter, bne_iff_ne, ne_eq] at hst
        exact ⟨⟨l0, hp, hst.1⟩, fun h => hst.2 h.2⟩
    · have : (k == b.size) = false := by simpa using hk
      simp only [this, Bool.false_eq_true, if_false, Option.some.injEq, Prod.mk.injEq] at e
      obtain ⟨rfl, rfl⟩ := e
      exact ⟨⟨l0, hp, hst⟩, fun h => hk h.1⟩
  · rintro ⟨⟨l0, hp, hst⟩, hne⟩
    by_cases hk : sz = b.size
    · subst hk
      have hst' : st ∈ l0.filter (· != b.start) := by
        simp only [List.mem_filter, bne_iff_ne, ne_eq]
        exact ⟨hst, fun h => hne ⟨rfl, h⟩⟩
      refine ⟨l0.filter (· != b.start), ⟨(b.size, l0), hp, ?_⟩, hst'⟩
      simp only [beq_self_eq_true, if_true]
      rw [if_neg]
      intro h
      rw [List.isEmpty_iff] at h
      rw [h] at hst'
      simp at hst'
    · refine ⟨l0, ⟨(sz, l0), hp, ?_⟩, hst⟩
      have : (sz == b.size) = false := by simpa using hk
      simp [this]

/-! ### the choice oracle -/

theorem mem_insertNat {x y : Nat} {l : List Nat} : y ∈ insertNat x l ↔ y = x ∨ y ∈ l := by
  induction l with
  | nil => simp [insertNat]
  | cons z zs ih =>
    unfold insertNat
    split
    · simp
    · simp [ih]; grind

theorem length_insertNat (x : Nat) (l : List Nat) : (insertNat x l).length = l.length + 1 := by
  induction l with
  | nil => simp [insertNat]
  | cons z zs ih => unfold insertNat; split <;> simp [ih]

theorem mem_sortNat {y : Nat} {l : List Nat} : y ∈ sortNat l ↔ y ∈ l := by
  induction l with
  | nil => simp [sortNat]
  | cons z zs ih => simp [sortNat, mem_insertNat, ih]

theorem length_sortNat (l : List Nat) : (sortNat l).length = l.length := by
  induction l with
  | nil => simp [sortNat]
  | cons z zs ih => simp [sortNat, length_insertNat, ih]

theorem pick_mem {l : List Nat} (k : Nat) (h : l ≠ []) : ∃ st, pick l k = some st ∧ st ∈ l := by
  have hl : 0 < l.length := List.length_pos_iff.mpr h
  have hk : k % l.length < (sortNat l).length := by
    rw [length_sortNat]; exact Nat.mod_lt _ hl
  refine ⟨(sortNat l)[k % l.length], ?_, ?_⟩
  · unfold pick; exact List.getElem?_eq_getElem hk
  · exact mem_sortNat.mp (List.getElem_mem hk)

/-- every element of the candidate set is chosen by some oracle index: quantifying over `k`
    quantifies over every behaviour of `bi.choice` -/
theorem pick_surjective {l : List Nat} {st : Nat} (h : st ∈ l) : ∃ k, pick l k = some st := by
  obtain ⟨i, hi, e⟩ := List.getElem_of_mem (mem_sortNat.mpr h)
  refine ⟨i, ?_⟩
  unfold pick
  rw [length_sortNat] at hi
  rw [Nat.mod_eq_of_lt hi, List.getElem?_eq_getElem (by rw [length_sortNat]; exact hi), e]


/-! ### phases of `free` -/

theorem WInv.arrAt {a : CBA} {pre post : List Block} {b : Block} (h : WInv a (pre ++ b :: post)) :
    ArrAt a.array a.off a.pos (a.off + a.size) pre b post := ⟨h.offLe, h.array, h.tiles⟩

theorem cellL_lead {lead off x : Nat} {F : List (Option Block)} (h1 : off ≤ x) (h2 : x - off < lead) :
    cellL (List.replicate lead none ++ F) off x = .ok none := by
  unfold cellL
  rw [if_neg (by omega), List.getElem?_append_left (by simpa using h2)]
  simp [h2]

/-- reading any cell of the partition: either the start of a block of the tiling, or `None` -/
theorem cell_classify {a : CBA} {bs : List Block} (h : WInv a bs) {x : Nat}
    (hx : a.off ≤ x ∧ x < a.off + a.size) :
    (∃ pre b post, bs = pre ++ b :: post ∧ b.start = x ∧ a.cell x = .ok (some b)) ∨
      a.cell x = .ok none := by
  by_cases hp : x < a.pos
  · right
    unfold CBA.cell
    rw [h.array, render]
    have := h.offLe
    exact cellL_lead hx.1 (by omega)
  · obtain ⟨pre, c, post, e, hc1, hc2⟩ := tiles_cover h.tiles ⟨by omega, hx.2⟩
    subst e
    have ha := h.arrAt
    by_cases hs : c.start = x
    · left; exact ⟨pre, c, post, rfl, hs, by rw [← hs]; exact ha.cell⟩
    · right
      have hpl := ha.preLen
      unfold CBA.cell
      rw [h.array, render_decomp]
      have e : List.replicate (c.size - 1) (none : Option Block)
          = List.replicate (x - c.start - 1) none ++ none :: List.replicate (c.size - 1 - (x - c.start)) none := by
        rw [replicate_glue]; congr 1; omega
      rw [e]
      have e2 : ∀ (P : List (Option Block)) (u v : Option Block) (L1 L2 L3 : List (Option Block)),
          P ++ u :: ((L1 ++ v :: L2) ++ L3) = (P ++ u :: L1) ++ v :: (L2 ++ L3) := by intros; simp
      rw [e2]
      exact cellL_mid hx.1 (by simp; omega)

theorem join_adjacent {x y : Block} (h : y.start = x.start + x.size) (hx : 0 < x.size)
    (hy : 0 < y.size) :
    x.join y = some ⟨x.start, x.size + y.size, false⟩ ∧
    y.join x = some ⟨x.start, x.size + y.size, false⟩ := by
  have a1 : x.adjoins y = true := by
    simp only [Block.adjoins, Bool.or_eq_true, Bool.and_eq_true, decide_eq_true_eq]; omega
  have a2 : y.adjoins x = true := by
    simp only [Block.adjoins, Bool.or_eq_true, Bool.and_eq_true, decide_eq_true_eq]; omega
  unfold Block.join
  rw [a1, a2]
  simp only [if_true, Option.some.injEq, Block.mk.injEq, and_true]
  omega

theorem getLast?_append_cons {α} (l1 : List α) (x : α) (l2 : List α) :
    (l1 ++ x :: l2).getLast? = (x :: l2).getLast? := by
  rw [List.getLast?_append]
  cases h : (x :: l2).getLast? with
  | none => simp at h
  | some v => rfl

theorem merge_winv {a : CBA} {pre post : List Block} {x y : Block}
    (h : WInv a (pre ++ x :: y :: post)) (hx : x.used = false) (hy : y.used = false)
    {other block : Block} (ho : (other = x ∧ block = y) ∨ (other = y ∧ block = x)) :
    ∃ a', a.merge other block y = .ok (a', ⟨x.start, x.size + y.size, false⟩) ∧
      WInv a' (pre ++ ⟨x.start, x.size + y.size, false⟩ :: post) ∧
      a'.off = a.off ∧ a'.size = a.size ∧ a'.pos = a.pos := by
  have ha := h.arrAt
  have hs := tiles_split h.tiles
  simp only [Tiles] at hs
  obtain ⟨hs1, hs2, hs3, hs4, hs5⟩ := hs
  obtain ⟨arr1, e1, e2⟩ := ha.mergeCells ⟨x.start, x.size + y.size, false⟩ rfl
  have hj : other.join block = some ⟨x.start, x.size + y.size, false⟩ := by
    rcases ho with ⟨rfl, rfl⟩ | ⟨rfl, rfl⟩
    · exact (join_adjacent hs3 hs2 hs4).1
    · exact (join_adjacent hs3 hs2 hs4).2
  unfold CBA.merge
  rw [hj]
  simp only [CBA.setCell, e1, e2, bind, Except.bind, pure, Except.pure]
  refine ⟨_, rfl, ?_, rfl, rfl, rfl⟩
  -- membership in the twice-reduced dict does not depend on the order other/block
  have hF : ∀ sz st, inFreed (removeFreed (removeFreed a.freed other) block) sz st ↔
      (inFreed a.freed sz st ∧ ¬(sz = x.size ∧ st = x.start) ∧ ¬(sz = y.size ∧ st = y.start)) := by
    intro sz st
    rcases ho with ⟨rfl, rfl⟩ | ⟨rfl, rfl⟩ <;> simp only [inFreed_remove] <;> grind
  have hpre : ∀ b ∈ pre, b.start < x.start := fun b hb => by
    have := tiles_mem hs1 hb; omega
  have hpost : ∀ b ∈ post, x.start + x.size + y.size ≤ b.start := fun b hb =>
    (tiles_mem hs5 hb).1
  -- the new top
  obtain ⟨l, hl, hlt⟩ := h.top
  rw [getLast?_append_cons] at hl
  have htop : (post = [] ∧ y.start = a.top) ∨ (post ≠ [] ∧ y.start < a.top) := by
    cases post with
    | nil => left; simp at hl; exact ⟨rfl, by rw [← hlt, hl]⟩
    | cons q post' =>
      right
      refine ⟨by simp, ?_⟩
      have : l ∈ q :: post' := by
        simp only [List.getLast?_cons_cons] at hl
        exact List.mem_of_getLast? hl
      have := hpost l this; omega
  have htle : (if (y.start == a.top) = true then x.start else a.top) ≤ a.top := by
    split <;> rename_i hc
    · have := beq_iff_eq.mp hc; omega
    · exact Nat.le_refl _
  generalize htop' : (if (y.start == a.top) = true then x.start else a.top) = top' at htle ⊢
  have hmemOld : ∀ b, b ∈ pre ++ x :: y :: post ↔ b ∈ pre ∨ b = x ∨ b = y ∨ b ∈ post := by
    intro b; simp
  have hmemNew : ∀ b t, b ∈ pre ++ t :: post ↔ b ∈ pre ∨ b = t ∨ b ∈ post := by
    intro b t; simp
  constructor
  · exact h.offLe
  · rfl
  · exact tiles_join hs1 (by show 0 < x.size + y.size; omega) (by simpa [Nat.add_assoc] using hs5)
  · -- top
    rw [getLast?_append_cons]
    rcases htop with ⟨rfl, ht⟩ | ⟨hne, ht⟩
    · refine ⟨_, rfl, ?_⟩
      simp [← htop', ht]
    · obtain ⟨q, post', rfl⟩ := List.exists_cons_of_ne_nil hne
      simp only [List.getLast?_cons_cons] at hl ⊢
      refine ⟨l, hl, ?_⟩
      have : (y.start == a.top) = false := by simp; omega
      simp [← htop', this, hlt]
  · -- freedSound
    intro sz st hin
    simp only at hin
    rw [hmemNew]
    have key : inFreed (removeFreed (removeFreed a.freed other) block) sz st →
        (⟨st, sz, false⟩ : Block) ∈ pre ∨ (⟨st, sz, false⟩ : Block) ∈ post := by
      intro hin
      obtain ⟨h1, h2, h3⟩ := (hF sz st).mp hin
      have := (hmemOld _).mp (h.freedSound sz st h1)
      rcases this with hp | rfl | rfl | hp
      · exact Or.inl hp
      · exact absurd ⟨rfl, rfl⟩ h2
      · exact absurd ⟨rfl, rfl⟩ h3
      · exact Or.inr hp
    split at hin
    · rcases (inFreed_add _ _ _ _).mp hin with hin | ⟨rfl, rfl⟩
      · rcases key hin with hp | hp
        · exact Or.inl hp
        · exact Or.inr (Or.inr hp)
      · exact Or.inr (Or.inl rfl)
    · rcases key hin with hp | hp
      · exact Or.inl hp
      · exact Or.inr (Or.inr hp)
  · -- freedComplete
    intro b hb hfree hlt'
    simp only at hlt' ⊢
    have keep : (b ∈ pre ∨ b ∈ post) →
        inFreed (removeFreed (removeFreed a.freed other) block) b.size b.start := by
      intro hb'
      rw [hF]
      have hbo : b ∈ pre ++ x :: y :: post := by
        rw [hmemOld]; rcases hb' with hp | hp
        · exact Or.inl hp
        · exact Or.inr (Or.inr (Or.inr hp))
      refine ⟨h.freedComplete b hbo hfree (by omega), ?_, ?_⟩
      · rintro ⟨_, e⟩
        rcases hb' with hp | hp
        · have := hpre b hp; omega
        · have := hpost b hp; omega
      · rintro ⟨_, e⟩
        rcases hb' with hp | hp
        · have := hpre b hp; omega
        · have := hpost b hp; omega
    rcases (hmemNew b _).mp hb with hp | rfl | hp
    · split
      · exact (inFreed_add _ _ _ _).mpr (Or.inl (keep (Or.inl hp)))
      · exact keep (Or.inl hp)
    · rw [if_pos (by simpa using hlt')]
      exact (inFreed_add _ _ _ _).mpr (Or.inr ⟨rfl, rfl⟩)
    · split
      · exact (inFreed_add _ _ _ _).mpr (Or.inl (keep (Or.inr hp)))
      · exact keep (Or.inr hp)

/-- the fields a history never changes -/
def SameFrame (a' a : CBA) : Prop := a'.off = a.off ∧ a'.size = a.size ∧ a'.pos = a.pos

theorem SameFrame.refl (a : CBA) : SameFrame a a := ⟨rfl, rfl, rfl⟩
theorem SameFrame.trans {a b c : CBA} (h1 : SameFrame a b) (h2 : SameFrame b c) : SameFrame a c :=
  ⟨h1.1.trans h2.1, h1.2.1.trans h2.2.1, h1.2.2.trans h2.2.2⟩

theorem markFree_winv {a : CBA} {pre post : List Block} {b : Block}
    (h : WInv a (pre ++ b :: post)) (hb : b.used = true) :
    ∃ a', a.markFree b.start b = .ok (a', { b with used := false }) ∧
      WInv a' (pre ++ { b with used := false } :: post) ∧ SameFrame a' a := by
  have ha := h.arrAt
  have e1 := ha.set { b with used := false } rfl
  have hs := tiles_split h.tiles
  unfold CBA.markFree
  simp only [CBA.setCell, e1, bind, Except.bind, pure, Except.pure]
  refine ⟨_, rfl, ?_, rfl, rfl, rfl⟩
  have hmemOld : ∀ c, c ∈ pre ++ b :: post ↔ c ∈ pre ∨ c = b ∨ c ∈ post := by intro c; simp
  have hmemNew : ∀ c t, c ∈ pre ++ t :: post ↔ c ∈ pre ∨ c = t ∨ c ∈ post := by intro c t; simp
  constructor
  · exact h.offLe
  · rfl
  · exact tiles_join hs.1 hs.2.1 hs.2.2
  · obtain ⟨l, hl, hlt⟩ := h.top
    rw [getLast?_append_cons] at hl ⊢
    cases post with
    | nil => simp at hl ⊢; rw [← hlt, ← hl]
    | cons q post' => simp only [List.getLast?_cons_cons] at hl ⊢; exact ⟨l, hl, hlt⟩
  · intro sz st hin
    rw [hmemNew]
    rcases (inFreed_add _ _ _ _).mp hin with hin | ⟨rfl, rfl⟩
    · rcases (hmemOld _).mp (h.freedSound sz st hin) with hp | e | hp
      · exact Or.inl hp
      · rw [← e] at hb; simp at hb
      · exact Or.inr (Or.inr hp)
    · exact Or.inr (Or.inl rfl)
  · intro c hc hfree hlt
    rcases (hmemNew c _).mp hc with hp | rfl | hp
    · exact (inFreed_add _ _ _ _).mpr (Or.inl (h.freedComplete c ((hmemOld c).mpr (Or.inl hp)) hfree hlt))
    · exact (inFreed_add _ _ _ _).mpr (Or.inr ⟨rfl, rfl⟩)
    · exact (inFreed_add _ _ _ _).mpr (Or.inl (h.freedComplete c ((hmemOld c).mpr (Or.inr (Or.inr hp))) hfree hlt))

/-- the last block of `pre` (if any) is used -/
def LastUsed (pre : List Block) : Prop := ∀ p, pre.getLast? = some p → p.used = true
/-- the first block of `post` (if any) is used -/
def HeadUsed (post : List Block) : Prop := ∀ q, post.head? = some q → q.used = true

theorem mergePrev_winv {a : CBA} {pre post : List Block} {c : Block}
    (h : WInv a (pre ++ c :: post)) (hc : c.used = false) (hpre : NoAdjFree pre) :
    ∃ a' pre' c', a.mergePrev c.start c = .ok (a', c') ∧ WInv a' (pre' ++ c' :: post) ∧
      SameFrame a' a ∧ c'.used = false ∧ NoAdjFree pre' ∧ LastUsed pre' ∧
      (∀ u, u.used = true → (u ∈ pre' ++ c' :: post ↔ u ∈ pre ++ c :: post)) := by
  have ha := h.arrAt
  unfold CBA.mergePrev CBA.findPrevious
  rw [ha.findPrev]
  simp only [bind, Except.bind]
  rcases List.eq_nil_or_concat pre with rfl | ⟨pre0, p, rfl⟩
  · exact ⟨a, [], c, rfl, h, SameFrame.refl a, hc, hpre, by intro p hp; simp at hp, fun u _ => Iff.rfl⟩
  · rw [List.concat_eq_append] at h hpre ⊢
    simp only [List.getLast?_append, List.getLast?_singleton, Option.some_or]
    by_cases hp : p.used = true
    · simp only [hp, Bool.not_true, Bool.false_eq_true, if_false]
      refine ⟨a, pre0 ++ [p], c, rfl, h, SameFrame.refl a, hc, hpre, ?_, fun u _ => Iff.rfl⟩
      intro q hq; simp at hq; rw [← hq]; exact hp
    · have hp' : p.used = false := by simpa using hp
      simp only [hp', Bool.not_false, if_true]
      have h' : WInv a (pre0 ++ p :: c :: post) := by simpa using h
      obtain ⟨a', e, hw, hf⟩ := merge_winv h' hp' hc (other := p) (block := c) (Or.inl ⟨rfl, rfl⟩)
      have hn := (noAdj_around_free (pre := pre0) (post := []) hp').mp hpre
      refine ⟨a', pre0, _, e, hw, hf, rfl, hn.1, hn.2.2.1, ?_⟩
      intro u hu
      simp only [List.mem_append, List.mem_cons, List.not_mem_nil, or_false]
      constructor
      · rintro (h1 | rfl | h1)
        · exact Or.inl (Or.inl h1)
        · simp at hu
        · exact Or.inr (Or.inr h1)
      · rintro ((h1 | rfl) | rfl | h1)
        · exact Or.inl h1
        · rw [hp'] at hu; simp at hu
        · rw [hc] at hu; simp at hu
        · exact Or.inr (Or.inr h1)

theorem mergeNext_winv {a : CBA} {pre post : List Block} {c : Block}
    (h : WInv a (pre ++ c :: post)) (hc : c.used = false) (hpost : NoAdjFree post) :
    ∃ a' c' post', a.mergeNext c = .ok a' ∧ WInv a' (pre ++ c' :: post') ∧
      SameFrame a' a ∧ c'.used = false ∧ NoAdjFree post' ∧ HeadUsed post' ∧
      (∀ u, u.used = true → (u ∈ pre ++ c' :: post' ↔ u ∈ pre ++ c :: post)) := by
  have ha := h.arrAt
  have hnext := ha.next
  unfold CBA.mergeNext CBA.findNext CBA.cell
  rw [ha.cell]
  simp only [bind, Except.bind, pure, Except.pure]
  rw [hnext]
  cases post with
  | nil =>
    exact ⟨a, c, [], rfl, h, SameFrame.refl a, hc, hpost, by intro q hq; simp at hq, fun u _ => Iff.rfl⟩
  | cons q post' =>
    simp only [List.head?_cons]
    by_cases hq : q.used = true
    · simp only [hq, Bool.not_true, Bool.false_eq_true, if_false]
      refine ⟨a, c, q :: post', rfl, h, SameFrame.refl a, hc, hpost, ?_, fun u _ => Iff.rfl⟩
      intro r hr; simp at hr; rw [← hr]; exact hq
    · have hq' : q.used = false := by simpa using hq
      simp only [hq', Bool.not_false, if_true]
      obtain ⟨a', e, hw, hf⟩ := merge_winv h hc hq' (other := q) (block := c) (Or.inr ⟨rfl, rfl⟩)
      rw [e]
      have hn := (noAdj_around_free (pre := []) (post := post') hq').mp hpost
      refine ⟨a', _, post', rfl, hw, hf, rfl, hn.2.1, hn.2.2.2, ?_⟩
      intro u hu
      simp only [List.mem_append, List.mem_cons]
      constructor
      · rintro (h1 | rfl | h1)
        · exact Or.inl h1
        · simp at hu
        · exact Or.inr (Or.inr (Or.inr h1))
      · rintro (h1 | rfl | rfl | h1)
        · exact Or.inl h1
        · rw [hc] at hu; simp at hu
        · rw [hq'] at hu; simp at hu
        · exact Or.inr (Or.inr h1)


/-! ### `free` and `alloc` preserve the invariant -/

/-- `free(x)` when no used block starts at `x` (never allocated, interior address, already
    freed): nothing changes -/
theorem free_noop {a : CBA} {bs : List Block} (h : WInv a bs) {x : Nat}
    (hno : ∀ u ∈ bs, u.used = true → u.start ≠ x) :
    a.free (some x) = .ok a := by
  simp only [CBA.free]
  by_cases hlo : x < a.off ∨ x - a.off ≥ a.size
  · rw [if_pos (by simpa using hlo)]; rfl
  rw [if_neg (by simpa using hlo)]
  have hx : a.off ≤ x ∧ x < a.off + a.size := by omega
  rcases cell_classify h hx with ⟨pre, b, post, rfl, hb, hc⟩ | hc
  · rw [hc]
    simp only [bind, Except.bind]
    have : b.used = false := by
      cases hu : b.used with
      | false => rfl
      | true => exact absurd hb (hno b (by simp) hu)
    simp [this, pure, Except.pure]
  · rw [hc]; rfl

theorem free_inv {a : CBA} {bs : List Block} (h : Inv a bs) {x : Nat} :
    ∃ a' bs', a.free (some x) = .ok a' ∧ Inv a' bs' ∧ SameFrame a' a ∧
      (∀ u, u.used = true → (u ∈ bs' ↔ u ∈ bs ∧ u.start ≠ x)) := by
  by_cases hno : ∀ u ∈ bs, u.used = true → u.start ≠ x
  · exact ⟨a, bs, free_noop h.toWInv hno, h, SameFrame.refl a,
      fun u hu => ⟨fun hm => ⟨hm, hno u hm hu⟩, fun hm => hm.1⟩⟩
  · have hno' : ∃ b, b ∈ bs ∧ b.used = true ∧ b.start = x := by
      apply Classical.byContradiction
      intro hcon
      exact hno fun u hu huu e => hcon ⟨u, hu, huu, e⟩
    obtain ⟨b, hb, hbu, hbx⟩ := hno'
    obtain ⟨pre, post, rfl⟩ := List.append_of_mem hb
    have hw := h.toWInv
    have hna := (noAdj_around_used hbu).mp h.noAdj
    obtain ⟨a1, e1, hw1, hf1⟩ := markFree_winv hw hbu
    obtain ⟨a2, pre2, c2, e2, hw2, hf2, hc2, hn2, hl2, hu2⟩ :=
      mergePrev_winv (c := { b with used := false }) hw1 rfl hna.1
    obtain ⟨a3, c3, post3, e3, hw3, hf3, hc3, hn3, hh3, hu3⟩ := mergeNext_winv hw2 hc2 hna.2
    refine ⟨a3, pre2 ++ c3 :: post3, ?_, ⟨hw3, ?_⟩, hf3.trans (hf2.trans hf1), ?_⟩
    · simp only [CBA.free]
      have hlo : ¬ (x < a.off ∨ x - a.off ≥ a.size) := by
        have := tiles_mem hw.tiles (b := b) (by simp)
        have := hw.offLe
        omega
      rw [if_neg (by simpa using hlo)]
      have hcell : a.cell x = .ok (some b) := by rw [← hbx]; exact hw.arrAt.cell
      rw [hcell]
      simp only [bind, Except.bind, hbu, Bool.not_true, Bool.false_eq_true, if_false]
      rw [← hbx, e1]
      simp only []
      have e2' : a1.mergePrev b.start { b with used := false } = .ok (a2, c2) := e2
      rw [e2']
      exact e3
    · exact (noAdj_around_free hc3).mpr ⟨hn2, hn3, hl2, hh3⟩
    · intro u hu
      rw [hu3 u hu, hu2 u hu]
      simp only [List.mem_append, List.mem_cons]
      have hinj : ∀ v, v ∈ pre ++ b :: post → v.start = b.start → v = b :=
        fun v hv e => tiles_start_inj hw.tiles hv (by simp) e
      constructor
      · rintro (h1 | rfl | h1)
        · refine ⟨Or.inl h1, fun e => ?_⟩
          have := hinj u (by simp [h1]) (e.trans hbx.symm)
          subst this
          have hp := (tiles_split hw.tiles).1
          have := tiles_mem hp h1; omega
        · simp at hu
        · refine ⟨Or.inr (Or.inr h1), fun e => ?_⟩
          have := hinj u (by simp [h1]) (e.trans hbx.symm)
          subst this
          have hp := (tiles_split hw.tiles)
          have := tiles_mem hp.2.2 h1; omega
      · rintro ⟨h1 | rfl | h1, hne⟩
        · exact Or.inl h1
        · exact absurd hbx hne
        · exact Or.inr (Or.inr h1)

/-! ### `alloc` -/

theorem pickBlock_spec {a : CBA} {bs : List Block} (h : WInv a bs) {p : Nat × List Nat}
    (hp : p ∈ a.freed) (hne : p.2 ≠ []) (k : Nat) :
    ∃ st, pickBlock p k = .ok (some ⟨st, p.1, false⟩) ∧ (⟨st, p.1, false⟩ : Block) ∈ bs := by
  obtain ⟨st, e, hm⟩ := pick_mem k hne
  refine ⟨st, by simp [pickBlock, e], ?_⟩
  exact h.freedSound p.1 st ⟨p.2, by cases p; exact hp, hm⟩

theorem findAvailable_spec {a : CBA} {bs : List Block} (h : WInv a bs) (n k : Nat) :
    (∃ b, a.findAvailable n k = .ok (some b) ∧ b ∈ bs ∧ b.used = false ∧ n ≤ b.size) ∨
    (a.findAvailable n k = .ok none ∧ ∀ b ∈ bs, b.used = false → b.size < n) := by
  unfold CBA.findAvailable
  cases h1 : a.freed.find? (fun p => p.1 == n && !p.2.isEmpty) with
  | some p =>
    have hp := List.find?_some h1
    have hm := List.mem_of_find?_eq_some h1
    simp only [Bool.and_eq_true, beq_iff_eq, Bool.not_eq_eq_eq_not, Bool.not_true,
      List.isEmpty_eq_false_iff] at hp
    obtain ⟨st, e, hb⟩ := pickBlock_spec h hm hp.2 k
    exact Or.inl ⟨_, e, hb, rfl, by simp [hp.1]⟩
  | none =>
    simp only []
    cases h2 : a.freed.find? (fun p => decide (n ≤ p.1) && !p.2.isEmpty) with
    | some p =>
      have hp := List.find?_some h2
      have hm := List.mem_of_find?_eq_some h2
      simp only [Bool.and_eq_true, decide_eq_true_eq, Bool.not_eq_eq_eq_not, Bool.not_true,
        List.isEmpty_eq_false_iff] at hp
      obtain ⟨st, e, hb⟩ := pickBlock_spec h hm hp.2 k
      exact Or.inl ⟨_, e, hb, rfl, hp.1⟩
    | none =>
      simp only []
      rw [List.find?_eq_none] at h2
      -- every free block below top is too small
      have hsmall : ∀ b ∈ bs, b.used = false → b.start < a.top → b.size < n := by
        intro b hb hf hlt
        obtain ⟨l0, hl0, hst⟩ := h.freedComplete b hb hf hlt
        have := h2 _ hl0
        simp only [Bool.and_eq_true, decide_eq_true_eq, Bool.not_eq_eq_eq_not, Bool.not_true,
          List.isEmpty_eq_false_iff, not_and] at this
        have hne : l0 ≠ [] := List.ne_nil_of_mem hst
        apply Classical.byContradiction
        intro hcon
        exact this (by omega) hne
      obtain ⟨l, hl, hlt⟩ := h.top
      obtain ⟨pre, rfl⟩ := List.getLast?_eq_some_iff.mp hl
      have ha := h.arrAt (pre := pre) (b := l) (post := [])
      have hs := tiles_split h.tiles
      simp only [Tiles] at hs
      have hlo := ha.preLen.2.1
      have hbelow : ∀ b ∈ pre, b.start < a.top := fun b hb => by
        have := tiles_mem hs.1 hb; omega
      have hcell : a.cell a.top = .ok (some l) := by rw [← hlt]; exact ha.cell
      by_cases hfit : a.top + n - a.off > a.size
      · rw [if_pos hfit]
        refine Or.inr ⟨rfl, ?_⟩
        intro b hb hf
        rcases List.mem_append.mp hb with hb' | hb'
        · exact hsmall b hb hf (hbelow b hb')
        · simp at hb'; subst hb'; omega
      · rw [if_neg hfit]
        simp only [hcell, bind, Except.bind]
        cases hu : l.used with
        | true =>
          simp only [if_true]
          refine Or.inr ⟨rfl, ?_⟩
          intro b hb hf
          rcases List.mem_append.mp hb with hb' | hb'
          · exact hsmall b hb hf (hbelow b hb')
          · simp at hb'; subst hb'; rw [hu] at hf; simp at hf
        | false =>
          simp only [Bool.false_eq_true, if_false]
          exact Or.inl ⟨l, rfl, by simp, hu, by omega⟩

theorem split_exact_inv {a : CBA} {pre post : List Block} {b : Block}
    (h : Inv a (pre ++ b :: post)) (hb : b.used = false) :
    ∃ a', a.split b b.size true = .ok (a', ⟨b.start, b.size, true⟩, none) ∧
      Inv a' (pre ++ ⟨b.start, b.size, true⟩ :: post) ∧ SameFrame a' a := by
  have hw := h.toWInv
  have ha := hw.arrAt
  have e1 := ha.set ⟨b.start, b.size, true⟩ rfl
  have hs := tiles_split hw.tiles
  have hna := (noAdj_around_free hb).mp h.noAdj
  have hsp : b.split b.size = (some b, none) := by simp [Block.split]
  unfold CBA.split
  rw [hsp]
  simp only [CBA.setCell, e1, bind, Except.bind, pure, Except.pure, if_true]
  refine ⟨_, rfl, ?_, rfl, rfl, rfl⟩
  have hmemOld : ∀ c, c ∈ pre ++ b :: post ↔ c ∈ pre ∨ c = b ∨ c ∈ post := by intro c; simp
  have hmemNew : ∀ c t, c ∈ pre ++ t :: post ↔ c ∈ pre ∨ c = t ∨ c ∈ post := by intro c t; simp
  have hbeq : b = ⟨b.start, b.size, false⟩ := by cases b; simp_all
  refine ⟨⟨hw.offLe, rfl, tiles_join hs.1 hs.2.1 hs.2.2, ?_, ?_, ?_⟩, ?_⟩
  · obtain ⟨l, hl, hlt⟩ := hw.top
    rw [getLast?_append_cons] at hl ⊢
    cases post with
    | nil => simp at hl ⊢; rw [← hlt, ← hl]
    | cons q post' => simp only [List.getLast?_cons_cons] at hl ⊢; exact ⟨l, hl, hlt⟩
  · intro sz st hin
    rw [hmemNew]
    obtain ⟨h1, h2⟩ := (inFreed_remove _ _ _ _).mp hin
    rcases (hmemOld _).mp (hw.freedSound sz st h1) with hp | e | hp
    · exact Or.inl hp
    · rw [hbeq] at e; simp only [Block.mk.injEq, and_true] at e; exact absurd ⟨e.2, e.1⟩ h2
    · exact Or.inr (Or.inr hp)
  · intro c hc hfree hlt
    rw [inFreed_remove]
    rcases (hmemNew c _).mp hc with hp | rfl | hp
    · refine ⟨hw.freedComplete c ((hmemOld c).mpr (Or.inl hp)) hfree hlt, fun e => ?_⟩
      have := tiles_mem hs.1 hp; omega
    · simp at hfree
    · refine ⟨hw.freedComplete c ((hmemOld c).mpr (Or.inr (Or.inr hp))) hfree hlt, fun e => ?_⟩
      have := tiles_mem hs.2.2 hp; omega
  · exact (noAdj_around_used rfl).mpr ⟨hna.1, hna.2.1⟩

theorem split_less_inv {a : CBA} {pre post : List Block} {b : Block}
    (h : Inv a (pre ++ b :: post)) (hb : b.used = false) {n : Nat} (hn : 0 < n ∧ n < b.size) :
    ∃ a', a.split b n true
        = .ok (a', ⟨b.start, n, true⟩, some ⟨b.start + n, b.size - n, false⟩) ∧
      Inv a' (pre ++ ⟨b.start, n, true⟩ :: ⟨b.start + n, b.size - n, false⟩ :: post) ∧
      SameFrame a' a := by
  have hw := h.toWInv
  have ha := hw.arrAt
  obtain ⟨arr1, e1, e2⟩ := ha.splitCells n ⟨b.start, n, true⟩ ⟨b.start + n, b.size - n, false⟩ hn rfl rfl
  have hs := tiles_split hw.tiles
  have hna := (noAdj_around_free hb).mp h.noAdj
  have hsp : b.split n = (some ⟨b.start, n, false⟩, some ⟨b.start + n, b.size - n, false⟩) := by
    simp [Block.split, hn.2]
  unfold CBA.split
  rw [hsp]
  simp only [CBA.setCell, e1, e2, bind, Except.bind, pure, Except.pure, if_true]
  refine ⟨_, rfl, ?_, rfl, rfl, rfl⟩
  have hmemOld : ∀ c, c ∈ pre ++ b :: post ↔ c ∈ pre ∨ c = b ∨ c ∈ post := by intro c; simp
  have hmemNew : ∀ c t t', c ∈ pre ++ t :: t' :: post ↔ c ∈ pre ∨ c = t ∨ c = t' ∨ c ∈ post := by
    intro c t t'; simp
  have hbeq : b = ⟨b.start, b.size, false⟩ := by cases b; simp_all
  have hpre : ∀ c ∈ pre, c.start < b.start := fun c hc => by have := tiles_mem hs.1 hc; omega
  have hpost : ∀ c ∈ post, b.start + b.size ≤ c.start := fun c hc => (tiles_mem hs.2.2 hc).1
  obtain ⟨l, hl, hlt⟩ := hw.top
  rw [getLast?_append_cons] at hl
  have htop : (post = [] ∧ b.start = a.top) ∨ (post ≠ [] ∧ b.start + b.size ≤ a.top) := by
    cases post with
    | nil => left; simp at hl; exact ⟨rfl, by rw [← hlt, hl]⟩
    | cons q post' =>
      right
      refine ⟨by simp, ?_⟩
      have : l ∈ q :: post' := by
        simp only [List.getLast?_cons_cons] at hl
        exact List.mem_of_getLast? hl
      have := hpost l this; omega
  generalize htop' : max a.top (b.start + n) = top' at *
  have htv : (post = [] ∧ top' = b.start + n) ∨ (post ≠ [] ∧ top' = a.top) := by
    rcases htop with ⟨h1, h2⟩ | ⟨h1, h2⟩
    · left; exact ⟨h1, by omega⟩
    · right; exact ⟨h1, by omega⟩
  refine ⟨⟨hw.offLe, rfl, ?_, ?_, ?_, ?_⟩, ?_⟩
  · refine tiles_join hs.1 hn.1 ?_
    show _ = _ ∧ _ < _ ∧ Tiles _ _ _
    refine ⟨rfl, by simp only []; omega, ?_⟩
    have : b.start + n + (b.size - n) = b.start + b.size := by omega
    rw [this]; exact hs.2.2
  · rw [getLast?_append_cons]
    rcases htv with ⟨rfl, ht⟩ | ⟨hne, ht⟩
    · exact ⟨_, rfl, ht.symm⟩
    · obtain ⟨q, post', rfl⟩ := List.exists_cons_of_ne_nil hne
      simp only [List.getLast?_cons_cons] at hl ⊢
      exact ⟨l, hl, by rw [ht]; exact hlt⟩
  · intro sz st hin
    rw [hmemNew]
    have key : inFreed (removeFreed a.freed b) sz st →
        (⟨st, sz, false⟩ : Block) ∈ pre ∨ (⟨st, sz, false⟩ : Block) ∈ post := by
      intro hin
      obtain ⟨h1, h2⟩ := (inFreed_remove _ _ _ _).mp hin
      rcases (hmemOld _).mp (hw.freedSound sz st h1) with hp | e | hp
      · exact Or.inl hp
      · rw [hbeq] at e; simp only [Block.mk.injEq, and_true] at e; exact absurd ⟨e.2, e.1⟩ h2
      · exact Or.inr hp
    simp only at hin
    split at hin
    · rcases (inFreed_add _ _ _ _).mp hin with hin | ⟨rfl, rfl⟩
      · rcases key hin with hp | hp
        · exact Or.inl hp
        · exact Or.inr (Or.inr (Or.inr hp))
      · exact Or.inr (Or.inr (Or.inl rfl))
    · rcases key hin with hp | hp
      · exact Or.inl hp
      · exact Or.inr (Or.inr (Or.inr hp))
  · intro c hc hfree hlt'
    simp only at hlt' ⊢
    have keep : (c ∈ pre ∨ c ∈ post) → inFreed (removeFreed a.freed b) c.size c.start := by
      intro hc'
      rw [inFreed_remove]
      have hco : c ∈ pre ++ b :: post := by
        rw [hmemOld]; rcases hc' with hp | hp
        · exact Or.inl hp
        · exact Or.inr (Or.inr hp)
      have hlt0 : c.start < a.top := by
        rcases hc' with hp | hp
        · have := hpre c hp
          rcases htop with ⟨_, h2⟩ | ⟨_, h2⟩ <;> omega
        · rcases htv with ⟨h1, _⟩ | ⟨_, h2⟩
          · rw [h1] at hp; simp at hp
          · omega
      refine ⟨hw.freedComplete c hco hfree hlt0, fun e => ?_⟩
      rcases hc' with hp | hp
      · have := hpre c hp; omega
      · have := hpost c hp; omega
    rcases (hmemNew c _ _).mp hc with hp | rfl | rfl | hp
    · split
      · exact (inFreed_add _ _ _ _).mpr (Or.inl (keep (Or.inl hp)))
      · exact keep (Or.inl hp)
    · simp at hfree
    · rw [if_pos (by simpa using hlt')]
      exact (inFreed_add _ _ _ _).mpr (Or.inr ⟨rfl, rfl⟩)
    · split
      · exact (inFreed_add _ _ _ _).mpr (Or.inl (keep (Or.inr hp)))
      · exact keep (Or.inr hp)
  · refine (noAdj_around_used rfl).mpr ⟨hna.1, ?_⟩
    exact (noAdj_around_free (pre := []) (c := ⟨b.start + n, b.size - n, false⟩) rfl).mpr
      ⟨trivial, hna.2.1, by intro p hp; simp at hp, hna.2.2.2⟩

/-- the block list after `alloc(n)` took `n` cells from the front of the free block `b` -/
def afterAlloc (pre post : List Block) (b : Block) (n : Nat) : List Block :=
  pre ++ ⟨b.start, n, true⟩ ::
    ((if n < b.size then [(⟨b.start + n, b.size - n, false⟩ : Block)] else []) ++ post)

theorem alloc_inv {a : CBA} {bs : List Block} (h : Inv a bs) {n : Nat} (hn : 0 < n) (k : Nat) :
    (∃ a' pre b post, a.alloc n k = .ok (a', some b.start) ∧ bs = pre ++ b :: post ∧
        b.used = false ∧ n ≤ b.size ∧ Inv a' (afterAlloc pre post b n) ∧ SameFrame a' a) ∨
    (a.alloc n k = .ok (a, none) ∧ ∀ b ∈ bs, b.used = false → b.size < n) := by
  unfold CBA.alloc
  rcases findAvailable_spec h.toWInv n k with ⟨b, e, hb, hf, hle⟩ | ⟨e, hsmall⟩
  · left
    obtain ⟨pre, post, rfl⟩ := List.append_of_mem hb
    rw [e]
    simp only [bind, Except.bind, CBA.reserveAt, Nat.lt_irrefl, if_false, pure, Except.pure]
    by_cases hlt : n < b.size
    · obtain ⟨a', e2, hi, hfr⟩ := split_less_inv h hf ⟨hn, hlt⟩
      rw [e2]
      refine ⟨a', pre, b, post, rfl, rfl, hf, hle, ?_, hfr⟩
      simpa [afterAlloc, hlt] using hi
    · have heq : n = b.size := by omega
      subst heq
      obtain ⟨a', e2, hi, hfr⟩ := split_exact_inv h hf
      rw [e2]
      refine ⟨a', pre, b, post, rfl, rfl, hf, hle, ?_, hfr⟩
      simpa [afterAlloc] using hi
  · right
    rw [e]
    exact ⟨rfl, hsmall⟩

theorem set_mid {α} (P R : List α) (c v : α) : (P ++ c :: R).set P.length v = P ++ v :: R := by
  induction P with
  | nil => rfl
  | cons x xs ih => simp [ih]

theorem inv_init {size pos off : Nat} {a : CBA} (h : CBA.init size pos off = some a) :
    Inv a [⟨pos + off, size - pos, false⟩] ∧ a.off = off ∧ a.size = size ∧ a.pos = pos + off := by
  unfold CBA.init at h
  split at h
  · rename_i hp
    simp only [Option.some.injEq] at h
    subst h
    refine ⟨⟨⟨by simp, ?_, ?_, ⟨_, rfl, rfl⟩, ?_, ?_⟩, trivial⟩, rfl, rfl, rfl⟩
    · simp only [render, Nat.add_sub_cancel, List.flatMap_cons, List.flatMap_nil, List.append_nil, seg]
      have e : List.replicate size (none : Option Block)
          = List.replicate pos none ++ none :: List.replicate (size - pos - 1) none := by
        rw [replicate_glue]; congr 1; omega
      rw [e]
      have := set_mid (List.replicate pos (none : Option Block)) (List.replicate (size - pos - 1) none) none
        (some ⟨pos + off, size - pos, false⟩)
      simp only [List.length_replicate] at this
      rw [this]
    · show _ = _ ∧ _ < _ ∧ _ = _
      exact ⟨rfl, by simp only []; omega, by simp only []; omega⟩
    · intro sz st hin
      obtain ⟨l, hl, _⟩ := hin
      simp at hl
    · intro b hb hf hlt
      simp at hb; subst hb
      simp at hlt
  · simp at h


/-! ### `blocks()` -/

def usedOnly (c : Option Block) : Option Block :=
  match c with
  | some b => if b.used then some b else none
  | none => none

theorem filterMap_replicate_none (n : Nat) :
    (List.replicate n (none : Option Block)).filterMap usedOnly = [] := by
  induction n with
  | zero => rfl
  | succ n ih => simp [List.replicate_succ, usedOnly, ih]

theorem blocks_render (lead : Nat) (bs : List Block) :
    (render lead bs).filterMap usedOnly = bs.filter (·.used) := by
  unfold render
  rw [List.filterMap_append, filterMap_replicate_none, List.nil_append]
  induction bs with
  | nil => rfl
  | cons b l ih =>
    rw [List.flatMap_cons, List.filterMap_append, ih]
    simp only [seg, List.filterMap_cons, filterMap_replicate_none]
    cases hb : b.used <;> simp [usedOnly, hb]

theorem blocks_eq {a : CBA} {bs : List Block} (h : WInv a bs) : a.blocks = bs.filter (·.used) := by
  unfold CBA.blocks
  rw [h.array]
  exact blocks_render _ _


/-! ### NodeIDAllocator -/

theorem wrap_next {init t : Int} (h0 : init ≤ t) (h1 : t ≤ idMax) :
    wrapInt (t + 1) init idMax = if t = idMax then init else t + 1 := by
  simp only [idMax] at h1 ⊢
  unfold wrapInt scMod
  by_cases ht : t = 0x03FFFFFF
  · subst ht
    rw [if_pos (by omega)]
    simp only []
    rw [if_pos (by omega)]
    simp; omega
  · rw [if_neg (by omega), if_neg (by omega)]
    simp only [ht, if_false]; omega

/-- the id made from window position `q` -/
def idOf (user i0 q : Nat) : Nat := (i0 + q) ||| (user <<< 26)

/-- window length `0x03FFFFFF - init + 1` -/
def window (i0 : Nat) : Nat := 0x04000000 - i0

theorem idOf_eq {user i0 q : Nat} (h : i0 + q < 2 ^ 26) : idOf user i0 q = user * 2 ^ 26 + (i0 + q) := by
  unfold idOf
  rw [Nat.or_comm, ← Nat.shiftLeft_add_eq_or_of_lt h, Nat.shiftLeft_eq]

/-- the allocator is at window position `p` -/
structure NIA.At (a : NIA) (user i0 p : Nat) : Prop where
  user : a.user = user
  init : a.initTemp = (i0 : Int)
  temp : a.temp = (i0 : Int) + (p : Int)
  lt : p < window i0
  i0le : i0 ≤ 0x03FFFFFF

theorem NIA.alloc_at {a : NIA} {user i0 p : Nat} (h : a.At user i0 p) :
    a.alloc.2 = some (idOf user i0 p) ∧ a.alloc.1.At user i0 ((p + 1) % window i0) := by
  have hl := h.lt
  have hi := h.i0le
  unfold window at hl
  unfold NIA.alloc
  constructor
  · simp only [h.temp, h.user]
    rw [if_neg (by omega)]
    congr 2
  · have hw := wrap_next (init := a.initTemp) (t := a.temp) (by rw [h.init, h.temp]; omega)
      (by rw [h.temp]; simp only [idMax]; omega)
    refine ⟨h.user, h.init, ?_, Nat.mod_lt _ (by unfold window; omega), hi⟩
    simp only [hw]
    by_cases hlast : p + 1 = window i0
    · have : a.temp = idMax := by rw [h.temp]; simp only [idMax]; unfold window at hlast; omega
      rw [if_pos this, hlast, Nat.mod_self, h.init]; simp
    · have : a.temp ≠ idMax := by rw [h.temp]; simp only [idMax]; unfold window at hlast; omega
      rw [if_neg this, Nat.mod_eq_of_lt (by unfold window at hlast ⊢; omega), h.temp]
      omega

theorem NIA.allocs_at {a : NIA} {user i0 p : Nat} (h : a.At user i0 p) (n : Nat) :
    (a.allocs n).2 = (List.range n).map (fun i => some (idOf user i0 ((p + i) % window i0))) ∧
    (a.allocs n).1.At user i0 ((p + n) % window i0) := by
  induction n generalizing a p with
  | zero =>
    simp only [NIA.allocs, List.range_zero, List.map_nil, Nat.add_zero, true_and]
    rw [Nat.mod_eq_of_lt h.lt]; exact h
  | succ n ih =>
    obtain ⟨h1, h2⟩ := NIA.alloc_at h
    obtain ⟨h3, h4⟩ := ih h2
    simp only [NIA.allocs]
    constructor
    · rw [List.range_succ_eq_map, List.map_cons, List.map_map, h1, h3]
      congr 1
      · simp [Nat.mod_eq_of_lt h.lt]
      · apply List.map_congr_left
        intro i _
        simp only [Function.comp, Nat.succ_eq_add_one]
        rw [Nat.mod_add_mod]
        congr 3; omega
    · have : (p + (n + 1)) % window i0 = ((p + 1) % window i0 + n) % window i0 := by
        rw [Nat.mod_add_mod]; congr 1; omega
      rw [this]; exact h4

theorem NIA.init_at {user i0 : Nat} {a : NIA} (h : NIA.init user (i0 : Int) = some a)
    (hi : i0 ≤ 0x03FFFFFF) : a.At user i0 0 := by
  unfold NIA.init at h
  split at h
  · simp at h
  · simp only [Option.some.injEq] at h
    subst h
    exact ⟨rfl, rfl, by simp, by unfold window; omega, hi⟩


end Sc3Verif.C16
