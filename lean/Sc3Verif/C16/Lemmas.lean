/-
C16 — helper lemmas: list algebra of `render`, evaluation of the array primitives on a
rendered block list, the `_freed` dict, and preservation of the invariant by every phase of
`alloc` and `free`.
-/
import Sc3Verif.C16.Spec
namespace Sc3Verif.C16

/-! ### Tiles -/

theorem tiles_append {l1 l2 : List Block} {lo hi : Nat} :
    Tiles (l1 ++ l2) lo hi ↔ ∃ mid, Tiles l1 lo mid ∧ Tiles l2 mid hi := by
  induction l1 generalizing lo with
  | nil => simp [Tiles]
  | cons b l ih =>
    simp only [List.cons_append, Tiles, ih]
    constructor
    · rintro ⟨h1, h2, mid, h3, h4⟩; exact ⟨mid, ⟨h1, h2, h3⟩, h4⟩
    · rintro ⟨mid, ⟨h1, h2, h3⟩, h4⟩; exact ⟨h1, h2, mid, h3, h4⟩

theorem tiles_le {l : List Block} {lo hi : Nat} (h : Tiles l lo hi) : lo ≤ hi := by
  induction l generalizing lo with
  | nil => simp [Tiles] at h; omega
  | cons b l ih => obtain ⟨_, _, h3⟩ := h; have := ih h3; omega

theorem tiles_mem {l : List Block} {lo hi : Nat} (h : Tiles l lo hi) {b : Block} (hb : b ∈ l) :
    lo ≤ b.start ∧ b.start + b.size ≤ hi ∧ 0 < b.size := by
  induction l generalizing lo with
  | nil => simp at hb
  | cons c l ih =>
    obtain ⟨h1, h2, h3⟩ := h
    rcases List.mem_cons.mp hb with rfl | hb'
    · have := tiles_le h3; omega
    · have := ih h3 hb'; omega

/-- two blocks of a tiling with the same start are the same block -/
theorem tiles_start_inj {l : List Block} {lo hi : Nat} (h : Tiles l lo hi) {b c : Block}
    (hb : b ∈ l) (hc : c ∈ l) (e : b.start = c.start) : b = c := by
  induction l generalizing lo with
  | nil => simp at hb
  | cons d l ih =>
    obtain ⟨h1, h2, h3⟩ := h
    rcases List.mem_cons.mp hb with rfl | hb' <;> rcases List.mem_cons.mp hc with rfl | hc'
    · rfl
    · have := tiles_mem h3 hc'; omega
    · have := tiles_mem h3 hb'; omega
    · exact ih h3 hb' hc'

theorem tiles_single {b : Block} {lo hi : Nat} :
    Tiles [b] lo hi ↔ b.start = lo ∧ 0 < b.size ∧ lo + b.size = hi := by
  simp [Tiles]

/-- decomposition at a member -/
theorem tiles_split {pre post : List Block} {b : Block} {lo hi : Nat}
    (h : Tiles (pre ++ b :: post) lo hi) :
    Tiles pre lo b.start ∧ 0 < b.size ∧ Tiles post (b.start + b.size) hi := by
  obtain ⟨mid, h1, h2, h3, h4⟩ := tiles_append.mp h
  subst h2; exact ⟨h1, h3, h4⟩

theorem tiles_join {pre post : List Block} {b : Block} {lo hi : Nat}
    (h1 : Tiles pre lo b.start) (h2 : 0 < b.size) (h3 : Tiles post (b.start + b.size) hi) :
    Tiles (pre ++ b :: post) lo hi :=
  tiles_append.mpr ⟨b.start, h1, rfl, h2, h3⟩

/-- every address of the tiled interval lies in exactly one block -/
theorem tiles_cover {l : List Block} {lo hi : Nat} (h : Tiles l lo hi) {x : Nat}
    (hx : lo ≤ x ∧ x < hi) :
    ∃ pre b post, l = pre ++ b :: post ∧ b.start ≤ x ∧ x < b.start + b.size := by
  induction l generalizing lo with
  | nil => simp [Tiles] at h; omega
  | cons c l ih =>
    obtain ⟨h1, h2, h3⟩ := h
    by_cases hc : x < lo + c.size
    · exact ⟨[], c, l, rfl, by omega, by omega⟩
    · obtain ⟨pre, b, post, e, hb⟩ := ih h3 ⟨by omega, hx.2⟩
      exact ⟨c :: pre, b, post, by simp [e], hb⟩

/-! ### NoAdjFree -/

theorem noAdj_cons {a : Block} {l : List Block} :
    NoAdjFree (a :: l) ↔ (∀ b, l.head? = some b → a.used = true ∨ b.used = true) ∧ NoAdjFree l := by
  cases l with
  | nil => simp [NoAdjFree]
  | cons b r => simp [NoAdjFree]

theorem noAdj_append {l1 l2 : List Block} :
    NoAdjFree (l1 ++ l2) ↔ NoAdjFree l1 ∧ NoAdjFree l2 ∧
      (∀ x y, l1.getLast? = some x → l2.head? = some y → x.used = true ∨ y.used = true) := by
  induction l1 with
  | nil => simp [NoAdjFree]
  | cons a l ih =>
    cases l with
    | nil =>
      cases l2 with
      | nil => simp [NoAdjFree]
      | cons y r => simp [NoAdjFree]; exact And.comm
    | cons b r =>
      have e : (a :: b :: r ++ l2) = a :: (b :: r ++ l2) := rfl
      rw [e, noAdj_cons, ih, noAdj_cons (l := b :: r)]
      simp only [List.cons_append, List.head?_cons, Option.some.injEq, forall_eq',
        List.getLast?_cons_cons]
      grind

/-- around a FREE block: both neighbours are used -/
theorem noAdj_around_free {pre post : List Block} {c : Block} (hc : c.used = false) :
    NoAdjFree (pre ++ c :: post) ↔
      NoAdjFree pre ∧ NoAdjFree post ∧ (∀ p, pre.getLast? = some p → p.used = true) ∧
        (∀ q, post.head? = some q → q.used = true) := by
  rw [noAdj_append, noAdj_cons]
  simp only [List.head?_cons, Option.some.injEq, hc, Bool.false_eq_true, false_or]
  grind

/-- around a USED block: nothing is required of the neighbours -/
theorem noAdj_around_used {pre post : List Block} {c : Block} (hc : c.used = true) :
    NoAdjFree (pre ++ c :: post) ↔ NoAdjFree pre ∧ NoAdjFree post := by
  rw [noAdj_append, noAdj_cons]
  simp [hc]

/-! ### list cells -/

theorem cellL_mid {P R : List (Option Block)} {c : Option Block} {off x : Nat}
    (h1 : off ≤ x) (h2 : P.length = x - off) : cellL (P ++ c :: R) off x = .ok c := by
  unfold cellL
  rw [if_neg (by omega), ← h2]
  simp

theorem setCellL_mid {P R : List (Option Block)} {c v : Option Block} {off x : Nat}
    (h1 : off ≤ x) (h2 : P.length = x - off) :
    setCellL (P ++ c :: R) off x v = .ok (P ++ v :: R) := by
  unfold setCellL
  rw [if_neg (by omega), ← h2, if_pos (by simp)]
  simp

theorem seg_length {b : Block} (h : 0 < b.size) : (seg b).length = b.size := by
  simp [seg]; omega

theorem flatMap_seg_length {l : List Block} {lo hi : Nat} (h : Tiles l lo hi) :
    (l.flatMap seg).length = hi - lo := by
  induction l generalizing lo with
  | nil => simp [Tiles] at h; simp [h]
  | cons b l ih =>
    obtain ⟨h1, h2, h3⟩ := h
    have := tiles_le h3
    simp [List.flatMap_cons, ih h3, seg_length h2]; omega

theorem render_length {l : List Block} {lo hi off : Nat} (h : Tiles l lo hi) (ho : off ≤ lo) :
    (render (lo - off) l).length = hi - off := by
  have := tiles_le h
  simp [render, flatMap_seg_length h]; omega

theorem render_decomp (lead : Nat) (pre post : List Block) (b : Block) :
    render lead (pre ++ b :: post) =
      render lead pre ++ some b :: (List.replicate (b.size - 1) none ++ post.flatMap seg) := by
  simp [render, seg, List.flatMap_append]

theorem render_decomp2 (lead : Nat) (pre post : List Block) (x y : Block) :
    render lead (pre ++ x :: y :: post) =
      render lead pre ++ some x :: (List.replicate (x.size - 1) none ++
        some y :: (List.replicate (y.size - 1) none ++ post.flatMap seg)) := by
  simp [render, seg, List.flatMap_append]

/-! ### the array primitives evaluated on a rendered block list -/

/-- the array is the rendering of `pre ++ b :: post`, which tiles `[pos, hi)` -/
structure ArrAt (arr : List (Option Block)) (off pos hi : Nat)
    (pre : List Block) (b : Block) (post : List Block) : Prop where
  offLe : off ≤ pos
  eq : arr = render (pos - off) (pre ++ b :: post)
  tiles : Tiles (pre ++ b :: post) pos hi

namespace ArrAt
variable {arr : List (Option Block)} {off pos hi : Nat} {pre post : List Block} {b : Block}

theorem preLen (h : ArrAt arr off pos hi pre b post) :
    (render (pos - off) pre).length = b.start - off ∧ off ≤ b.start ∧ pos ≤ b.start := by
  have ht := tiles_split h.tiles
  have := tiles_le ht.1
  exact ⟨render_length ht.1 h.offLe, by have := h.offLe; omega, this⟩

theorem cell (h : ArrAt arr off pos hi pre b post) : cellL arr off b.start = .ok (some b) := by
  rw [h.eq, render_decomp]
  exact cellL_mid h.preLen.2.1 h.preLen.1

theorem set (h : ArrAt arr off pos hi pre b post) (b' : Block) (hs : b'.size = b.size) :
    setCellL arr off b.start (some b') = .ok (render (pos - off) (pre ++ b' :: post)) := by
  rw [h.eq, render_decomp, render_decomp, hs]
  exact setCellL_mid h.preLen.2.1 h.preLen.1

end ArrAt

theorem findPrevFrom_skip {P0 R : List (Option Block)} {p : Block} {m off pos st : Nat}
    (h1 : off ≤ st) (h2 : P0.length = st - off) (h3 : pos ≤ st) (j : Nat) (hj : j ≤ m) :
    findPrevFrom (P0 ++ some p :: (List.replicate m none ++ R)) off pos (st + j + 1)
      = .ok (some p) := by
  induction j with
  | zero =>
    simp only [findPrevFrom]
    rw [if_neg (by omega), if_neg (by omega)]
    have : (P0 ++ some p :: (List.replicate m none ++ R))[st - off]? = some (some p) := by
      rw [← h2]; simp
    rw [this]
  | succ j ih =>
    have e : st + (j + 1) + 1 = (st + j + 1) + 1 := by omega
    rw [e, findPrevFrom]
    rw [if_neg (by omega), if_neg (by omega)]
    have : (P0 ++ some p :: (List.replicate m none ++ R))[st + j + 1 - off]? = some none := by
      have e2 : st + j + 1 - off = P0.length + (j + 1) := by omega
      rw [e2, List.getElem?_append_right (by omega)]
      simp only [Nat.add_sub_cancel_left, List.getElem?_cons_succ]
      rw [List.getElem?_append_left (by simp; omega)]
      simp [List.getElem?_replicate]; omega
    rw [this]
    exact ih (by omega)

theorem ArrAt.findPrev {arr : List (Option Block)} {off pos hi : Nat} {pre post : List Block}
    {b : Block} (h : ArrAt arr off pos hi pre b post) :
    findPrevFrom arr off pos b.start = .ok pre.getLast? := by
  rcases List.eq_nil_or_concat pre with rfl | ⟨pre0, p, rfl⟩
  · have ht := tiles_split h.tiles
    simp only [Tiles] at ht
    rw [← ht.1]
    cases pos with
    | zero => simp [findPrevFrom]
    | succ i => simp [findPrevFrom]
  · rw [List.concat_eq_append] at h ⊢
    have ht := h.tiles
    rw [List.append_assoc, List.singleton_append] at ht
    have hp := tiles_split ht
    simp only [Tiles] at hp
    have hlen := render_length hp.1 h.offLe
    have hle := tiles_le hp.1
    have hoff := h.offLe
    rw [h.eq, List.append_assoc, List.singleton_append, render_decomp]
    have e : b.start = p.start + (p.size - 1) + 1 := by omega
    rw [e, List.getLast?_concat]
    exact findPrevFrom_skip (by omega) hlen hle (p.size - 1) (Nat.le_refl _)

theorem ArrAt.next {arr : List (Option Block)} {off pos size : Nat} {pre post : List Block}
    {b : Block} (h : ArrAt arr off pos (off + size) pre b post) :
    (if b.start + b.size - off < size then cellL arr off (b.start + b.size) else .ok none)
      = .ok post.head? := by
  have hs := tiles_split h.tiles
  have hp := h.preLen
  cases post with
  | nil =>
    simp only [Tiles] at hs
    rw [if_neg (by omega)]; rfl
  | cons c post' =>
    simp only [Tiles] at hs
    have := tiles_le hs.2.2.2.2
    rw [if_pos (by omega)]
    have h' : ArrAt arr off pos (off + size) (pre ++ [b]) c post' :=
      ⟨h.offLe, by rw [h.eq]; simp, by have := h.tiles; simpa using this⟩
    rw [← hs.2.2.1]
    exact h'.cell

theorem replicate_glue (a b : Nat) :
    List.replicate a (none : Option Block) ++ none :: List.replicate b none
      = List.replicate (a + 1 + b) none := by
  rw [show (none : Option Block) :: List.replicate b none = List.replicate (1 + b) none by
    rw [Nat.add_comm, List.replicate_succ]]
  rw [List.replicate_append_replicate, Nat.add_assoc]

theorem ArrAt.mergeCells {arr : List (Option Block)} {off pos hi : Nat} {pre post : List Block}
    {x y : Block} (h : ArrAt arr off pos hi pre x (y :: post)) (t : Block)
    (ht : t.size = x.size + y.size) :
    ∃ arr1, setCellL arr off x.start (some t) = .ok arr1 ∧
      setCellL arr1 off y.start none = .ok (render (pos - off) (pre ++ t :: post)) := by
  have hs := tiles_split h.tiles
  simp only [Tiles] at hs
  have hp := h.preLen
  have e1 := h.eq
  rw [render_decomp2] at e1
  refine ⟨_, by rw [e1]; exact setCellL_mid hp.2.1 hp.1, ?_⟩
  · have e : ∀ (P : List (Option Block)) (a : Option Block) (L1 L2 : List (Option Block)),
        P ++ a :: (L1 ++ L2) = (P ++ a :: L1) ++ L2 := by intros; simp
    rw [e]
    rw [setCellL_mid (by omega) (by simp; omega)]
    rw [render_decomp, ht]
    congr 1
    simp only [List.append_assoc, List.cons_append]
    congr 2
    rw [← List.cons_append, ← List.append_assoc, replicate_glue]
    congr 2
    omega

theorem ArrAt.splitCells {arr : List (Option Block)} {off pos hi : Nat} {pre post : List Block}
    {b : Block} (h : ArrAt arr off pos hi pre b post) (n : Nat) (new lo : Block)
    (hn : 0 < n ∧ n < b.size) (h1 : new.size = n) (h2 : lo.size = b.size - n) :
    ∃ arr1, setCellL arr off b.start (some new) = .ok arr1 ∧
      setCellL arr1 off (b.start + n) (some lo)
        = .ok (render (pos - off) (pre ++ new :: lo :: post)) := by
  have hp := h.preLen
  have e1 := h.eq
  rw [render_decomp] at e1
  refine ⟨_, by rw [e1]; exact setCellL_mid hp.2.1 hp.1, ?_⟩
  · have e : List.replicate (b.size - 1) (none : Option Block)
        = List.replicate (n - 1) none ++ none :: List.replicate (b.size - n - 1) none := by
      rw [replicate_glue]; congr 1; omega
    rw [e]
    have e2 : ∀ (P : List (Option Block)) (a c : Option Block) (L1 L2 L3 : List (Option Block)),
        P ++ a :: ((L1 ++ c :: L2) ++ L3) = (P ++ a :: L1) ++ c :: (L2 ++ L3) := by intros; simp
    rw [e2, setCellL_mid (by omega) (by simp; omega), render_decomp2, h1, h2]
    simp

end Sc3Verif.C16
